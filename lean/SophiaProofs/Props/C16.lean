/-
C16 — stack use does not grow with the amount of data processed.

What is proved here is a COST SEMANTICS (call depth of the program text, `Model/Depth.lean`), for
all inputs:

* for the text that /repo has wherever the generated table says `selfRecursiveOnData`
  (`…Rec`): the call depth is *linear* in the data — exactly (`next_rec_depth_exact`,
  `graph_rec_depth_exact`, …) and along the explicit input families of the harness
  (`…_depth_linear`).  This REFUTES the property's bound for those sites.
* for the loop formulation (`…Loop`): depth ≤ 1 (`…_depth_bounded`), and for the sites that recurse
  only on nesting: depth ≤ constant + nesting (quoted triples), ≤ number of binary digits of the
  slice length (binary search), ≤ number of patterns of the query (BGP) — for any amount of data.
* the two formulations compute the same results (`…_rec_eq_…_loop`): turning the self call into a
  loop is behaviour-preserving.
* over the generated table `Gen.RecursionSites.sites`: every row that is not `selfRecursiveOnData`
  is bounded (`table_verdict`), every row that is, is refuted (`table_refuted`), every row is known
  to the model (`table_names_known`, decided on the current table), and `table_status` is the
  property-level dichotomy on the current table.

That one active call is one machine stack frame in an unoptimised build is the assumption validated
by the differential tie (child processes on a 2 MiB stack), not a theorem.
-/
import SophiaModel.Model.Depth

namespace SophiaProofs.C16
open SophiaModel SophiaModel.Depth SophiaModel.Gen.RecursionSites

/-! ## matching iterators -/

/-- the recursive and the looped `next` yield the same item and leave the same iterator state -/
theorem next_rec_eq_next_loop (ms : Matchers) (c : Cache) (rows : List Row) :
    (nextRec ms c rows).item = (nextLoop ms c rows).item ∧
    (nextRec ms c rows).cache = (nextLoop ms c rows).cache ∧
    (nextRec ms c rows).rest = (nextLoop ms c rows).rest := by
  induction rows generalizing c with
  | nil => simp [nextRec, nextLoop]
  | cons r rest ih =>
    by_cases h : (stage ms c r).2 = true
    · simp [nextRec, nextLoop, h]
    · simpa [nextRec, nextLoop, h] using ih _

/-- the looped `next` needs one frame whatever it skips -/
theorem next_loop_depth_bounded (ms : Matchers) (c : Cache) (rows : List Row) :
    (nextLoop ms c rows).depth ≤ 1 := by
  induction rows generalizing c with
  | nil => simp [nextLoop]
  | cons r rest ih =>
    by_cases h : (stage ms c r).2 = true
    · simp [nextLoop, h]
    · simpa [nextLoop, h] using ih _

/-- the recursive `next` has exactly one active call per row it consumes (plus one when it runs off
the end): depth = rows consumed, for every matcher, cache and row list -/
theorem next_rec_depth_exact (ms : Matchers) (c : Cache) (rows : List Row) :
    (nextRec ms c rows).depth + (nextRec ms c rows).rest.length =
      rows.length + (if (nextRec ms c rows).item.isSome then 0 else 1) := by
  induction rows generalizing c with
  | nil => simp [nextRec]
  | cons r rest ih =>
    by_cases h : (stage ms c r).2 = true
    · simp [nextRec, h]; omega
    · have := ih (stage ms c r).1
      simp [nextRec, h]
      omega

theorem stageK_fam (k : Nat) :
    stageK (List.replicate k (fun _ => true)) (List.replicate k ⟨0, true⟩) (List.replicate k 0) =
      (List.replicate k ⟨0, true⟩, true) := by
  induction k with
  | zero => simp [stageK]
  | succ k ih => simp [List.replicate_succ, stageK, ih]

theorem stage_fam (k t j : Nat) (c : Pos) :
    stage (famMs k t) (famCache k c) (famRow k j) = (famCache k ⟨j, j == t⟩, j == t) := by
  simp [stage, famMs, famCache, famRow, stageK_fam]

theorem next_rec_fam (k t : Nat) (js : List Nat) (hjs : ∀ j ∈ js, j ≠ t) (c : Pos) :
    (nextRec (famMs k t) (famCache k c) (js.map (famRow k) ++ [famRow k t])).depth = js.length + 1 ∧
    (nextRec (famMs k t) (famCache k c) (js.map (famRow k) ++ [famRow k t])).item = some (famRow k t) := by
  induction js generalizing c with
  | nil => simp [nextRec, stage_fam]
  | cons j js ih =>
    have hj : (j == t) = false := by simpa using hjs j (by simp)
    have := ih (fun x hx => hjs x (by simp [hx])) ⟨j, false⟩
    simp [nextRec, stage_fam, hj, this]

/-- REFUTATION for `selfRecursiveOnData` iterators: `n` rows rejected by the closure matcher before
the first accepted one need more than `n` nested calls (any number `k` of `Any` positions before it) -/
theorem next_rec_depth_linear (k n : Nat) (c : Pos) :
    (nextRec (famMs k n) (famCache k c) (famRows k n)).depth ≥ n := by
  have := (next_rec_fam k n (List.range n) (by intro j hj; have := List.mem_range.mp hj; omega) c).1
  simp [famRows, this]

/-- … and on the same family the looped text needs one -/
theorem next_loop_fam_depth (k n : Nat) (c : Pos) :
    (nextLoop (famMs k n) (famCache k c) (famRows k n)).depth ≤ 1 :=
  next_loop_depth_bounded _ _ _

/-! ## quoted_string -/

theorem splitCut_none {txt pre : List Char} (h : splitCut txt = (pre, none)) :
    txt.flatMap (fun c => if isCut c then escOf c else [c]) = pre := by
  induction txt generalizing pre with
  | nil => simp [splitCut] at h; simp [h]
  | cons a as ih =>
    unfold splitCut at h
    split at h
    · simp at h
    · rename_i ha
      simp at h
      have := ih (pre := (splitCut as).1) (by rw [← h.2])
      simp [ha, this, ← h.1]

theorem splitCut_some {txt pre : List Char} {c : Char} {rest : List Char}
    (h : splitCut txt = (pre, some (c, rest))) :
    txt.flatMap (fun c => if isCut c then escOf c else [c]) =
      pre ++ escOf c ++ rest.flatMap (fun c => if isCut c then escOf c else [c]) := by
  induction txt generalizing pre with
  | nil => simp [splitCut] at h
  | cons a as ih =>
    unfold splitCut at h
    split at h
    · rename_i ha
      simp at h
      obtain ⟨rfl, rfl, rfl⟩ := h
      simp [ha]
    · rename_i ha
      simp at h
      have := ih (pre := (splitCut as).1) (by rw [← h.2])
      simp [ha, this, ← h.1]

/-- the recursive and the one-pass `quoted_string` write the same bytes -/
theorem quoted_rec_eq_loop (txt : List Char) :
    (quotedStringRec txt).1 = (quotedStringLoop txt).1 := by
  fun_induction quotedStringRec txt with
  | case1 txt pre h => simp [quotedStringLoop, splitCut_none h]
  | case2 txt pre c rest h hr =>
    have : rest = [] := by simpa using hr
    subst this
    simp [quotedStringLoop, splitCut_some h]
  | case3 txt pre c rest h hr r ih =>
    simp only [quotedStringLoop] at ih ⊢
    simp [r, splitCut_some h, ih]

theorem quoted_loop_depth_bounded (txt : List Char) : (quotedStringLoop txt).2 ≤ 1 := by
  simp [quotedStringLoop]

theorem quotedStringRec_cut_cons (c : Char) (hc : isCut c = true) (d : Char) (rest : List Char) :
    (quotedStringRec (c :: d :: rest)).2 = (quotedStringRec (d :: rest)).2 + 1 := by
  rw [quotedStringRec]
  split
  · rename_i pre h; simp [splitCut, hc] at h
  · rename_i pre c' rest' h
    simp [splitCut, hc] at h
    obtain ⟨_, _, rfl⟩ := h
    simp

theorem quotedStringRec_depth_pos (txt : List Char) : 1 ≤ (quotedStringRec txt).2 := by
  rw [quotedStringRec]
  split
  · simp
  · split <;> simp

/-- REFUTATION: a literal of `n` escaped characters needs `n` nested calls of `quoted_string` -/
theorem quoted_rec_depth_linear (n : Nat) :
    (quotedStringRec (List.replicate n '\n')).2 ≥ n := by
  induction n with
  | zero => simp
  | succ n ih =>
    cases n with
    | zero => exact quotedStringRec_depth_pos _
    | succ m =>
      have := quotedStringRec_cut_cons '\n' (by decide) '\n' (List.replicate m '\n')
      simp only [List.replicate_succ] at ih ⊢
      omega

/-! ## graph_rec -/

theorem graphLoopAux_ok {G E S : Type} (sel : G → Except E (List S)) (acc : List S) (gs : List G) :
    graphLoopAux sel acc gs = (graphLoopAux sel [] gs).map (acc ++ ·) := by
  induction gs generalizing acc with
  | nil => simp [graphLoopAux, Except.map]
  | cons g gs ih =>
    simp only [graphLoopAux]
    cases hg : sel g with
    | error e => simp [Except.map]
    | ok r =>
      simp only []
      rw [ih (acc ++ r), ih ([] ++ r)]
      cases graphLoopAux sel [] gs <;> simp [Except.map]

/-- recursive and looped `GRAPH ?g` enumeration produce the same solutions (or the same first error) -/
theorem graph_rec_eq_graph_loop {G E S : Type} (sel : G → Except E (List S)) (gs : List G) :
    (graphRec sel gs).1 = (graphLoop sel gs).1 := by
  induction gs with
  | nil => simp [graphRec, graphLoop, graphLoopAux]
  | cons g gs ih =>
    simp only [graphLoop] at ih ⊢
    simp only [graphRec, graphLoopAux]
    cases hg : sel g with
    | error e => simp
    | ok r =>
      simp only []
      rw [graphLoopAux_ok, ih]
      simp

theorem graph_loop_depth_bounded {G E S : Type} (sel : G → Except E (List S)) (gs : List G) :
    (graphLoop sel gs).2 ≤ 1 := by simp [graphLoop]

/-- when no graph's evaluation fails, `graph_rec` nests one call per graph name (plus the final one) -/
theorem graph_rec_depth_exact {G E S : Type} (sel : G → Except E (List S)) (gs : List G)
    (hok : ∀ g ∈ gs, ∃ r, sel g = .ok r) : (graphRec sel gs).2 = gs.length + 1 := by
  induction gs with
  | nil => simp [graphRec]
  | cons g gs ih =>
    obtain ⟨r, hr⟩ := hok g (by simp)
    have := ih (fun x hx => hok x (by simp [hx]))
    simp [graphRec, hr, this]

/-- REFUTATION: `n` named graphs need more than `n` nested calls -/
theorem graph_rec_depth_linear (n : Nat) :
    (graphRec (fun g => (.ok [g] : Except Unit (List Nat))) (List.range n)).2 ≥ n := by
  rw [graph_rec_depth_exact _ _ (fun g _ => ⟨[g], rfl⟩)]
  simp

/-! ## populate_list / mark_list_node -/

theorem populate_rec_eq_loop {I E J : Type} (conv : I → Except E J) (acc : List J) (cells : List I) :
    (populateListRec conv acc cells).1 = (populateListLoop conv acc cells).1 := by
  induction cells generalizing acc with
  | nil => simp [populateListRec, populateListLoop, populateListLoopAux]
  | cons c cs ih =>
    cases cs with
    | nil =>
      simp only [populateListRec, populateListLoop, populateListLoopAux]
      cases conv c <;> simp
    | cons c' cs =>
      simp only [populateListLoop] at ih ⊢
      simp only [populateListRec, populateListLoopAux]
      cases hc : conv c with
      | error e => simp
      | ok j =>
        have := ih (acc ++ [j])
        simp only [populateListLoopAux] at this
        simpa using this

theorem populate_loop_depth_bounded {I E J : Type} (conv : I → Except E J) (acc : List J) (cells : List I) :
    (populateListLoop conv acc cells).2 ≤ 1 := by simp [populateListLoop]

/-- when no item conversion fails, `populate_list` nests one call per list cell -/
theorem populate_rec_depth_exact {I E J : Type} (conv : I → Except E J) (acc : List J) (cells : List I)
    (hok : ∀ c ∈ cells, ∃ j, conv c = .ok j) :
    (populateListRec conv acc cells).2 = max 1 cells.length := by
  induction cells generalizing acc with
  | nil => simp [populateListRec]
  | cons c cs ih =>
    obtain ⟨j, hj⟩ := hok c (by simp)
    cases cs with
    | nil => simp [populateListRec, hj]
    | cons c' cs =>
      have := ih (acc ++ [j]) (fun x hx => hok x (by simp [hx]))
      simp [populateListRec, hj, this]

/-- REFUTATION: a list of `n` items needs `n` nested calls -/
theorem populate_rec_depth_linear (n : Nat) :
    (populateListRec (fun i => (.ok i : Except Unit Nat)) [] (List.range n)).2 ≥ n := by
  rw [populate_rec_depth_exact _ _ _ (fun c _ => ⟨c, rfl⟩)]
  simp; omega

theorem markLoopAux_acc (acc : List Nat) (cells : List Cell) :
    markLoopAux acc cells = acc ++ markLoopAux [] cells := by
  induction cells generalizing acc with
  | nil => simp [markLoopAux]
  | cons c cs ih =>
    simp only [markLoopAux]
    split
    · split
      · rw [ih (acc ++ [c.id]), ih ([] ++ [c.id])]; simp
      · simp
    · simp

theorem mark_rec_eq_loop (cells : List Cell) : (markRec cells).1 = (markLoop cells).1 := by
  induction cells with
  | nil => simp [markRec, markLoop, markLoopAux]
  | cons c cs ih =>
    simp only [markLoop] at ih ⊢
    simp only [markRec, markLoopAux]
    split
    · split
      · rw [markLoopAux_acc]; simp [ih]
      · simp
    · simp

theorem mark_loop_depth_bounded (cells : List Cell) : (markLoop cells).2 ≤ 1 := by
  simp [markLoop]; omega

/-- REFUTATION: walking back a list of `n` cells needs `n` nested calls of `mark_list_node` -/
theorem mark_rec_depth_linear (n : Nat) :
    (markRec ((List.range n).map (fun i => (⟨i, true, true⟩ : Cell)))).2 ≥ n := by
  have : ∀ (l : List Nat), (markRec (l.map (fun i => (⟨i, true, true⟩ : Cell)))).2 = l.length := by
    intro l
    induction l with
    | nil => simp [markRec]
    | cons a l ih => simp [markRec, ih]
  rw [this]; simp

/-! ## recursion on nesting only: bounded by the nesting, whatever the amount of data -/

/-- `write_term` / `Term::{eq,cmp,hash}`: calls = nesting of quoted triples + 1 -/
theorem term_depth_bounded (t : Term) : termDepth t ≤ 1 + nesting t := by
  induction t with
  | triple s p o ihs ihp iho => simp only [termDepth, nesting]; omega
  | _ => simp [termDepth, nesting]

/-- `nq`: calls ≤ nesting + 2 (one more for a literal's datatype) -/
theorem nq_depth_bounded (t : Term) : nqDepth t ≤ 2 + nesting t := by
  induction t with
  | triple s p o ihs ihp iho => simp only [nqDepth, nesting]; omega
  | _ => simp [nqDepth, nesting]

theorem bits_mono {a b : Nat} (h : a ≤ b) : bits a ≤ bits b := by
  induction b using Nat.strongRecOn generalizing a with
  | _ b ih =>
    rw [bits.eq_def a, bits.eq_def b]
    by_cases ha : a = 0
    · simp [ha]
    · have hb : b ≠ 0 := by omega
      simp only [ha, hb, if_false]
      have := ih (b / 2) (by omega) (a := a / 2) (Nat.div_le_div_right h)
      omega

/-- `find_subject`: the recursion halves the slice — at most (binary digits of the length) + 1 calls -/
theorem find_subject_depth_bounded (cmp : Nat → Ordering) (swt : List Nat) :
    (findSubject cmp swt).2 ≤ bits swt.length + 1 := by
  induction hn : swt.length using Nat.strongRecOn generalizing swt with
  | _ n ih =>
    subst hn
    rw [findSubject]
    split
    · simp
    · rename_i hne
      have hpos : 0 < swt.length := by omega
      have hb : bits swt.length = bits (swt.length / 2) + 1 := by
        rw [bits.eq_def]; simp [hne]
      dsimp only
      split
      · have h1 := ih (swt.drop (swt.length / 2 + 1)).length (by simp; omega) _ rfl
        have h2 : bits (swt.drop (swt.length / 2 + 1)).length ≤ bits (swt.length / 2) :=
          bits_mono (by simp; omega)
        simp only []
        omega
      · simp
      · have h1 := ih (swt.take (swt.length / 2)).length (by simp; omega) _ rfl
        have h2 : bits (swt.take (swt.length / 2)).length ≤ bits (swt.length / 2) :=
          bits_mono (by simp; omega)
        simp only []
        omega

theorem foldl_max_le {α : Type} (f : α → Nat) (l : List α) (d b : Nat) (hd : d ≤ b) (h : ∀ x ∈ l, f x ≤ b) :
    l.foldl (fun d r => max d (f r)) d ≤ b := by
  induction l generalizing d with
  | nil => simpa
  | cons a l ih =>
    simp only [List.foldl]
    exact ih _ (by have := h a (by simp); omega) (fun x hx => h x (by simp [hx]))

/-- `bgp_rec`: one call per triple pattern of the query, however many rows match -/
theorem bgp_rec_depth_bounded {P B : Type} (ms : P → B → List B) (ps : List P) (b : B) :
    (bgpRec ms ps b).2 ≤ ps.length + 1 := by
  induction ps generalizing b with
  | nil => simp [bgpRec]
  | cons p ps ih =>
    simp only [bgpRec, List.length_cons]
    have := foldl_max_le (fun r : List B × Nat => r.2) ((ms p b).map (bgpRec ms ps)) 0 (ps.length + 1)
      (by omega) (by
        intro x hx
        obtain ⟨b', _, rfl⟩ := List.mem_map.mp hx
        exact ih b')
    omega

/-! ## the generated table -/

/-- every row of the table regenerated from /repo names a function the model knows
(decided on the current table) -/
theorem table_names_known : sites.all (fun s => (Fn.ofName s.1).isSome) = true := by decide

theorem siteDepth_bounded (f : Fn) (cls : SiteClass) (h : cls ≠ .selfRecursiveOnData) (n : Nat) :
    siteDepth f cls n ≤ siteBound f n := by
  have hr : isRec cls = false := by cases cls <;> simp_all [isRec]
  cases f <;> simp only [siteDepth, siteBound, hr, Fn.nestingDepth, Fn.arity] <;>
    first
    | exact next_loop_depth_bounded _ _ _
    | exact quoted_loop_depth_bounded _
    | exact graph_loop_depth_bounded _ _
    | exact populate_loop_depth_bounded _ _ _
    | exact mark_loop_depth_bounded _
    | (cases cls <;> simp_all <;>
        first
        | omega
        | (have := find_subject_depth_bounded (fun _ => Ordering.lt) (List.range n); simpa using this))

theorem siteDepth_linear (f : Fn) (n : Nat) : siteDepth f .selfRecursiveOnData n ≥ n := by
  cases f <;> simp only [siteDepth, isRec, if_true, Fn.arity] <;>
    first
    | exact next_rec_depth_linear _ _ _
    | exact quoted_rec_depth_linear _
    | exact graph_rec_depth_linear _
    | exact populate_rec_depth_linear _
    | exact mark_rec_depth_linear _
    | omega

/-- PROPERTY-LEVEL, positive half: every site that the table regenerated from /repo classifies
`loop` or `recursiveOnNesting` has a call depth bounded independently of the amount of data -/
theorem table_verdict :
    ∀ s ∈ sites, s.2 = .loop ∨ s.2 = .recursiveOnNesting →
      ∀ f, Fn.ofName s.1 = some f → ∀ n, siteDepth f s.2 n ≤ siteBound f n := by
  intro s _ hcls f _ n
  exact siteDepth_bounded f s.2 (by rcases hcls with h | h <;> simp [h]) n

/-- PROPERTY-LEVEL, negative half: every site the table classifies `selfRecursiveOnData` exceeds any
bound: the property is refuted at that site with the explicit family of size `n` -/
theorem table_refuted :
    ∀ s ∈ sites, s.2 = .selfRecursiveOnData →
      ∀ f, Fn.ofName s.1 = some f → ∀ n, siteDepth f s.2 n ≥ n := by
  intro s _ hcls f _ n
  rw [hcls]; exact siteDepth_linear f n

/-- all sites of the current table are bounded -/
def AllBounded : Prop :=
  ∀ s ∈ sites, ∃ f, Fn.ofName s.1 = some f ∧ ∀ n, siteDepth f s.2 n ≤ siteBound f n

/-- some site of the current table is unbounded -/
def SomeUnbounded : Prop :=
  ∃ s ∈ sites, ∃ f, Fn.ofName s.1 = some f ∧ ∀ n, siteDepth f s.2 n ≥ n

/-- the verdict on the current table, decidable: is any site classified `selfRecursiveOnData`? -/
def anyDataRecursion : Bool := sites.any (fun s => isRec s.2)

/-- the property holds of /repo's current text iff the regenerated table has no
`selfRecursiveOnData` row: that Boolean decides which of the two property-level statements holds.
(On the unchanged /repo it is `true`: the findings; after the repairs it evaluates to `false` and
`AllBounded` follows.) -/
theorem table_status :
    (anyDataRecursion = false → AllBounded) ∧ (anyDataRecursion = true → SomeUnbounded) := by
  have known := table_names_known
  rw [List.all_eq_true] at known
  constructor
  · intro h s hs
    have hk := known s hs
    obtain ⟨f, hf⟩ := Option.isSome_iff_exists.mp hk
    refine ⟨f, hf, fun n => ?_⟩
    have : isRec s.2 = false := by
      have := List.any_eq_false.mp h s hs
      simpa using this
    exact siteDepth_bounded f s.2 (by intro hc; simp [hc, isRec] at this) n
  · intro h
    obtain ⟨s, hs, hrec⟩ := List.any_eq_true.mp h
    have hk := known s hs
    obtain ⟨f, hf⟩ := Option.isSome_iff_exists.mp hk
    refine ⟨s, hs, f, hf, fun n => ?_⟩
    have : s.2 = .selfRecursiveOnData := by
      cases hc : s.2 <;> simp [hc, isRec] at hrec ⊢
    rw [this]; exact siteDepth_linear f n

/-! ## the hypotheses are satisfiable, the statements are not vacuous -/

-- an iterator run where the first position is cached and rejects, with the recursive text 3 deep
example : (nextRec ⟨[fun i => i == 7], fun _ => true⟩ ⟨[⟨1, false⟩], ⟨0, true⟩⟩
    [⟨[1], 5⟩, ⟨[1], 6⟩, ⟨[7], 2⟩, ⟨[7], 3⟩]).depth = 3 := by decide
example : (nextLoop ⟨[fun i => i == 7], fun _ => true⟩ ⟨[⟨1, false⟩], ⟨0, true⟩⟩
    [⟨[1], 5⟩, ⟨[1], 6⟩, ⟨[7], 2⟩, ⟨[7], 3⟩]).item = some ⟨[7], 2⟩ := by decide
example : (famRows 2 3).length = 4 := by decide
example : (graphRec (fun g => if g = 2 then (.error () : Except Unit (List Nat)) else .ok [g]) [0, 1, 2, 3]).2 = 3 := by
  decide
example : nesting (.triple (.iri []) (.iri []) (.triple (.iri []) (.iri []) (.lit [] []))) = 2 := by decide
example : (bgpRec (fun (_ : Nat) (b : Nat) => [b, b + 1, b + 2]) [0, 1] 0).2 = 3 := by decide
example : (bgpRec (fun (_ : Nat) (b : Nat) => [b, b + 1, b + 2]) [0, 1] 0).1.length = 9 := by decide
example : ∃ s ∈ sites, s.2 = .loop ∨ s.2 = .recursiveOnNesting := ⟨("cnq::nq", .recursiveOnNesting), by decide, by simp⟩

end SophiaProofs.C16
