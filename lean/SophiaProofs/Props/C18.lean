/-
C18 — RDF/XML serialisation round-trips every graph it accepts.

What is PROVED here is about `SophiaModel.XmlGlue`:
  * Sophia's own glue (`convert_triple`, `rio_format_triples`, the indentation switch and `finish`
    of `RdfXmlSerializer`) — modelled from /repo;
  * a HAND MODEL of third-party code: rio_xml 0.8.6 `RdfXmlFormatter` / `split_iri`, quick-xml 0.36
    `escape` and `Writer` indentation, and a reference reader for the writer's vocabulary.
The third-party models are tied to the real crates only by the differential of
`harness/props/c18` (byte-exact output, parsed graph); they are not verified against their source.
-/
import SophiaProofs.Lemmas.XmlGlue
import SophiaProofs.Lemmas.XmlDoc
import SophiaProofs.Lemmas.XmlWellFormed


namespace SophiaProofs.C18
open SophiaModel SophiaModel.XmlGlue SophiaProofs.XmlGlueL SophiaProofs.XmlRT SophiaProofs.XmlTok SophiaProofs.XmlDoc
open SophiaProofs.XmlWF

/-! ## which triples are representable (`convert_triple` + the formatter's own refusals) -/

/-- strict RDF-star: IRI / blank node / quoted triple as subject, IRI as predicate,
IRI / blank node / literal / quoted triple as object, recursively -/
def strictStar : Term → Bool
  | .triple s p o =>
    (match s with | .iri _ | .bnode _ => true | .triple _ _ _ => strictStar s | _ => false) &&
    (match p with | .iri _ => true | _ => false) &&
    (match o with | .iri _ | .bnode _ | .lit _ _ | .lang _ _ => true | .triple _ _ _ => strictStar o | .var _ => false)
  | _ => false

theorem convertT_isSome (t : Term) : (convertT t).isSome = strictStar t := by
  induction t with
  | triple s p o ihs _ iho =>
    unfold convertT strictStar
    cases s <;> cases p <;> cases o <;> simp_all
    all_goals
      first
      | (split <;> simp_all; done)
      | (rw [← iho]; cases convertT _ <;> simp; done)
      | (rw [← ihs]; cases convertT _ <;> simp; done)
      | (rw [← ihs]; cases convertT _ <;> simp <;> split <;> simp; done)
      | (rw [← ihs, ← iho]; cases convertT _ <;> cases convertT _ <;> simp; done)
  | _ => simp [convertT, strictStar]

/-- **`convert_triple` yields a Rio triple exactly for strict RDF-star triples**; everything
else (literal or variable subject, non-IRI predicate, variable object, a quoted triple with such a
constituent anywhere) is skipped silently by `rio_format_triples`. -/
theorem representable_iff (t : Triple) :
    convertTriple t ≠ none ↔ strictStar (.triple t.1 t.2.1 t.2.2) = true := by
  rw [← convertT_isSome, convertTriple]
  cases convertT _ <;> simp

/-- **a triple is actually WRITTEN (neither skipped nor a formatter error) iff it is a strict RDF
triple**: IRI / blank subject, IRI predicate, IRI / blank / literal object — whatever the current
subject of the formatter is. -/
theorem written_iff (cur : Option Owned) (t : Triple) :
    (∃ rt, convertTriple t = some rt ∧ formatTriple cur rt ≠ none) ↔ isStrict t = true := by
  have key : ∀ rt : RTriple, formatTriple cur rt ≠ none ↔
      (match rt with | .mk s _ o => (!isTripleS s && !isTripleO o)) = true := by
    intro rt
    cases rt with
    | mk s p o =>
      show _ ↔ (!isTripleS s && !isTripleO o) = true
      rw [← formatTriple_isSome cur s p o]
      cases formatTriple cur (.mk s p o) <;> simp
  obtain ⟨s, p, o⟩ := t
  simp only [key, convertTriple]
  rw [convertT.eq_def]
  cases s <;> cases p <;> cases o <;> simp [isStrict, isTripleS, isTripleO]
  all_goals first
    | (split <;> simp; done)
    | (rename_i dt; by_cases h : dt = xsdString <;> simp [h]; done)
    | (cases convertT _ <;> simp; done)
    | (cases convertT _ <;> cases convertT _ <;> simp; done)
    | skip

/-- **quoted triples reach the formatter and make it fail** (`Err(InvalidInput)`, so the whole
serialisation returns an error): convertible but not strict ⇒ error. -/
theorem quoted_is_error (cur : Option Owned) (t : Triple) (rt : RTriple)
    (h : convertTriple t = some rt) (hn : isStrict t = false) : formatTriple cur rt = none := by
  cases hf : formatTriple cur rt with
  | none => rfl
  | some r =>
    have : isStrict t = true := (written_iff cur t).mp ⟨rt, h, by simp [hf]⟩
    simp [hn] at this

-- the hypotheses are satisfiable by non-trivial values
example : convertTriple (.bnode "b".toList, .iri "x:p".toList, .lang "a".toList "en".toList) ≠ none := by decide
example : convertTriple (.lit "a".toList xsdString, .iri "x:p".toList, .iri "x:o".toList) = none := by decide
example : convertTriple (.iri "x:s".toList, .bnode "b".toList, .iri "x:o".toList) = none := by decide
example : ∃ rt, convertTriple (.triple (.iri "x:a".toList) (.iri "x:b".toList) (.iri "x:c".toList), .iri "x:p".toList,
    .iri "x:o".toList) = some rt ∧ formatTriple none rt = none := ⟨_, rfl, rfl⟩
/-- the `xsd:string` comparison selects `Literal::Simple` (no `rdf:datatype` attribute) -/
example : convertTriple (.iri "x:s".toList, .iri "x:p".toList, .lit "a".toList xsdString)
    = some (.mk (.named "x:s".toList) "x:p".toList (.simple "a".toList)) := rfl

/-! ## escaping -/

/-- **unescaping inverts quick-xml's `escape` for EVERY string** — text content and attribute
values use the same function in quick-xml 0.36 (`BytesText::new`, `push_attribute`). -/
theorem xml_escape_roundtrip : ∀ s : Str, unescape (escape s) = some s := unescape_escape

/-- stronger form used by the reader theorems: whatever follows the escaped text -/
theorem xml_escape_roundtrip_append (s r : Str) : unescape (escape s ++ r) = (unescape r).map (s ++ ·) :=
  unescape_escape_append s r

/-- **escaped text never contains `<`, `>`, `"`, `'`** (so it cannot end a tag or an attribute
value, nor form `]]>`) -/
theorem escape_no_markup (s : Str) : ∀ d ∈ escape s, d ≠ '<' ∧ d ≠ '>' ∧ d ≠ '"' ∧ d ≠ '\'' :=
  escape_clean s

/-- XML 1.0 `Char` -/
def xmlChar (c : Char) : Bool :=
  let n := c.toNat
  n == 9 || n == 10 || n == 13 || (0x20 ≤ n && n ≤ 0xD7FF) || (0xE000 ≤ n && n ≤ 0xFFFD) || (0x10000 ≤ n && n ≤ 0x10FFFF)

def XmlLegal (s : Str) : Prop := ∀ c ∈ s, xmlChar c = true

/-- **what a CONFORMING XML 1.0 processor delivers for escaped text content, for every string**:
the text with CRLF / lone CR turned into LF.  quick-xml's `escape` writes CR raw (no `&#13;`). -/
theorem xml_text_conformant (s : Str) : conformantText (escape s) = some (lineEnd s) := by
  rw [conformantText, lineEnd_escape, unescape_escape]

/-- … and for an escaped attribute value: additionally TAB / LF / CR become a space. -/
theorem xml_attr_conformant (s : Str) : conformantAttr (escape s) = some (attrNorm (lineEnd s)) := by
  rw [conformantAttr, lineEnd_escape, attrNorm_escape, unescape_escape]

/-- **text round trip through a conforming reader holds for every text WITHOUT CR** — XML legality
plays no role for the reader model (the former hypothesis `XmlLegal s` was unused and is dropped;
legality of the OUTPUT is `output_xml_legal`).  `xml_text_cr_lost` shows the CR restriction is
necessary: the full statement `XmlLegal s → conformantText (escape s) = some s` is false. -/
theorem xml_text_roundtrip (s : Str) (hcr : ∀ c ∈ s, c ≠ '\r') :
    conformantText (escape s) = some s := by
  rw [xml_text_conformant, lineEnd_id s hcr]

theorem xml_text_roundtrip_iff (s : Str) : conformantText (escape s) = some s ↔ ∀ c ∈ s, c ≠ '\r' := by
  rw [xml_text_conformant]
  constructor
  · intro h c hc
    have : lineEnd s = s := by simpa using h
    rw [← this] at hc
    exact lineEnd_no_cr s c hc
  · intro h; rw [lineEnd_id s h]

/-- attribute values survive a conforming reader iff they contain no TAB, LF, CR (IRIs, blank
node labels and language tags never do) -/
theorem xml_attr_roundtrip (s : Str) (h : ∀ c ∈ s, c ≠ '\t' ∧ c ≠ '\n' ∧ c ≠ '\r') :
    conformantAttr (escape s) = some s := by
  rw [xml_attr_conformant, lineEnd_id s (fun c hc => (h c hc).2.2), attrNorm_id]
  intro c hc
  obtain ⟨h1, h2, h3⟩ := h c hc
  simp [isAttrWs, h1, h2, h3]

/-- kernel-checked witness: an XML-legal literal `"\r"` is written raw and a conforming XML
processor reads it back as `"\n"`.  (sophia's own reader, quick-xml 0.36, does not normalise line
ends, so sophia → sophia preserves it: a portability limit, not a round-trip failure of C18.) -/
theorem xml_text_cr_lost : XmlLegal ['\r'] ∧ conformantText (escape ['\r']) = some ['\n'] := by
  constructor
  · intro c hc; simp at hc; subst hc; decide
  · decide

example : XmlLegal "a <b> & \"c\" 'd' ]]>\n\t\u0085\u2028😀".toList :=
  fun c hc => List.all_eq_true.mp (by decide : "a <b> & \"c\" 'd' ]]>\n\t\u0085\u2028😀".toList.all xmlChar = true) c hc
example : conformantText (escape "a <b> & \"c\" 'd' ]]>\n\t".toList) = some "a <b> & \"c\" 'd' ]]>\n\t".toList := by
  decide

/-! ## `split_iri` -/

/-- **whenever the formatter uses the local part as element name it is an NCName and the split
loses nothing** -/
theorem split_iri_valid (p ns loc : Str) (h : splitIri p = (ns, loc)) (hl : loc ≠ []) :
    isNCName loc = true ∧ ns ++ loc = p := splitIri_valid p ns loc h hl

/-- **the predicates that get the pseudo element name `prop:`** (`local = ""`; the whole IRI goes
into `xmlns:prop`): exactly those no suffix of which is an NCName.  `hb` (some character that is not
a name character, or a `:`) holds for every absolute IRI. -/
theorem split_iri_empty_iff (p : Str) (hb : ∃ c ∈ p, isBreak c = true) :
    (splitIri p).2 = [] ↔ ∀ ns loc, p = ns ++ loc → isNCName loc = false :=
  splitIri_local_nil_iff p hb

theorem split_iri_empty_keeps_iri (p : Str) (h : (splitIri p).2 = []) : (splitIri p).1 = p := by
  unfold splitIri at h ⊢
  cases h1 : p.reverse.span (fun c => !isBreak c) with
  | mk a r =>
    rw [h1] at h
    cases r with
    | nil => rfl
    | cons b hr =>
      simp only at h ⊢
      cases h2 : (b :: a.reverse).span (fun c => !isLocalStart c) with
      | mk pre loc =>
        rw [h2] at h
        cases loc with
        | nil => rfl
        | cons d ds => simp at h

/-- without any break character nothing is split off -/
theorem split_iri_no_break (p : Str) (h : ∀ c ∈ p, isBreak c = false) : splitIri p = (p, []) :=
  splitIri_no_break p h

example : splitIri "http://ex.org/ns#p".toList = ("http://ex.org/ns#".toList, "p".toList) := by decide
example : splitIri "http://ex.org/1p".toList = ("http://ex.org/1".toList, "p".toList) := by decide
example : splitIri "http://ex.org/a%20b".toList = ("http://ex.org/a%20".toList, "b".toList) := by decide
example : splitIri "http://ex.org/".toList = ("http://ex.org/".toList, []) := by decide
example : splitIri "http://ex.org/123".toList = ("http://ex.org/123".toList, []) := by decide

/-! ## indentation -/

def isTextP : Piece → Bool
  | .ev (.text _) => true
  | _ => false
def isWsP : Piece → Bool
  | .ws _ => true
  | _ => false

/-- two neighbouring pieces of output: not (inserted whitespace, text) in either order -/
def okAdj (a b : Piece) : Bool := !((isWsP a && isTextP b) || (isTextP a && isWsP b))

/-- no inserted whitespace is adjacent to a Text event -/
def noTouch : List Piece → Bool
  | a :: b :: r => okAdj a b && noTouch (b :: r)
  | _ => true

theorem noTouch_tail (a : Piece) (l : List Piece) (h : noTouch (a :: l) = true) : noTouch l = true := by
  cases l with
  | nil => rfl
  | cons b r => simp only [noTouch, Bool.and_eq_true] at h; exact h.2

theorem writeFrom_noTouch (size : Nat) (evs : List Ev) :
    ∀ (st : Ind) (e : Ev), (isTextP (.ev e) = true → st.slb = false) →
      noTouch (.ev e :: writeFrom size st evs) = true := by
  induction evs with
  | nil => intro st e _; rfl
  | cons e' es ih =>
    intro st e hst
    cases e' with
    | text s =>
      simp only [writeFrom, writeEv, List.cons_append, List.nil_append, noTouch, Bool.and_eq_true]
      refine ⟨?_, ih _ _ (fun _ => rfl)⟩
      cases e <;> simp [okAdj, isWsP, isTextP]
    | start n a =>
      simp only [writeFrom, writeEv, wrapped]
      cases hs : st.slb
      · simp only [Bool.false_eq_true, if_false, List.cons_append, List.nil_append, noTouch, Bool.and_eq_true]
        exact ⟨by cases e <;> simp [okAdj, isWsP, isTextP], ih _ _ (by simp [isTextP])⟩
      · simp only [if_true, List.cons_append, List.nil_append, noTouch, Bool.and_eq_true]
        refine ⟨?_, by simp [okAdj, isWsP, isTextP], ih _ _ (by simp [isTextP])⟩
        cases e <;> simp_all [okAdj, isWsP, isTextP]
    | empty n a =>
      simp only [writeFrom, writeEv, wrapped]
      cases hs : st.slb
      · simp only [Bool.false_eq_true, if_false, List.cons_append, List.nil_append, noTouch, Bool.and_eq_true]
        exact ⟨by cases e <;> simp [okAdj, isWsP, isTextP], ih _ _ (by simp [isTextP])⟩
      · simp only [if_true, List.cons_append, List.nil_append, noTouch, Bool.and_eq_true]
        refine ⟨?_, by simp [okAdj, isWsP, isTextP], ih _ _ (by simp [isTextP])⟩
        cases e <;> simp_all [okAdj, isWsP, isTextP]
    | decl =>
      simp only [writeFrom, writeEv, wrapped]
      cases hs : st.slb
      · simp only [Bool.false_eq_true, if_false, List.cons_append, List.nil_append, noTouch, Bool.and_eq_true]
        exact ⟨by cases e <;> simp [okAdj, isWsP, isTextP], ih _ _ (by simp [isTextP])⟩
      · simp only [if_true, List.cons_append, List.nil_append, noTouch, Bool.and_eq_true]
        refine ⟨?_, by simp [okAdj, isWsP, isTextP], ih _ _ (by simp [isTextP])⟩
        cases e <;> simp_all [okAdj, isWsP, isTextP]
    | close n =>
      simp only [writeFrom, writeEv, wrapped]
      cases hs : st.slb
      · simp only [Bool.false_eq_true, if_false, List.cons_append, List.nil_append, noTouch, Bool.and_eq_true]
        exact ⟨by cases e <;> simp [okAdj, isWsP, isTextP], ih _ _ (by simp [isTextP])⟩
      · simp only [if_true, List.cons_append, List.nil_append, noTouch, Bool.and_eq_true]
        refine ⟨?_, by simp [okAdj, isWsP, isTextP], ih _ _ (by simp [isTextP])⟩
        cases e <;> simp_all [okAdj, isWsP, isTextP]

/-- **quick-xml's indentation rule never puts whitespace next to a Text event — for ANY event
stream and ANY indentation size** (after Text `should_line_break` is false, and whitespace is only
ever emitted immediately in front of markup). -/
theorem writer_never_touches_text (ind : Option Nat) (evs : List Ev) : noTouch (writeAll ind evs) = true := by
  cases ind with
  | none =>
    simp only [writeAll]
    induction evs with
    | nil => rfl
    | cons e es ih =>
      cases es with
      | nil => rfl
      | cons e' es' =>
        simp only [List.map_cons, noTouch, Bool.and_eq_true] at ih ⊢
        exact ⟨by simp [okAdj, isWsP], ih⟩
  | some size =>
    exact noTouch_tail _ _ (writeFrom_noTouch size evs ⟨false, 0⟩ .decl (by simp [isTextP]))

/-- **`indent_never_touches_text`: in the output of the serialiser, for every graph and every
indentation setting, no inserted whitespace is adjacent to literal text** -/
theorem indent_never_touches_text (n : Nat) (ts : List Triple) (ps : List Piece) (h : pieces n ts = some ps) :
    noTouch ps = true := by
  simp only [pieces] at h
  cases he : events ts with
  | none => simp [he] at h
  | some evs => simp [he] at h; subst h; exact writer_never_touches_text _ _

set_option maxRecDepth 20000 in
/-- the literal's bytes sit directly between `>` and `</`: concrete instance with whitespace-
sensitive text and indentation 4 -/
example : (serialize 4 [(.iri "x:s".toList, .iri "x:p".toList, .lit "\n a ".toList xsdString)]).map String.ofList
    = some ("<?xml version=\"1.0\" encoding=\"UTF-8\"?>\n<rdf:RDF xmlns:rdf=\"http://www.w3.org/1999/02/22-rdf-syntax-ns#\">" ++
      "\n    <rdf:Description rdf:about=\"x:s\">\n        <p xmlns=\"x:\">\n a </p>\n    </rdf:Description>\n</rdf:RDF>") := by
  rfl

/-! ## round trip: model reader ∘ model writer -/

/-- the reader (like rio_xml) lower-cases language tags -/
def normObj : Term → Term
  | .lang v l => .lang v (asciiLower l)
  | t => t
def normTriple (t : Triple) : Triple := (t.1, t.2.1, normObj t.2.2)

/-- what the RDF/XML reader can take back faithfully: blank node labels that are NCNames, a
predicate that is not one of RDF/XML's syntax names, literal text that is empty or not
whitespace-only.  (Each conjunct is necessary: see the three counterexamples below.) -/
def readable (t : Triple) : Bool :=
  (match t.1 with | .bnode b => isNCName b | _ => true) &&
  (match t.2.1 with | .iri p => okPred p | _ => true) &&
  (match t.2.2 with | .bnode b => isNCName b | .lit v _ => textOK v | .lang v _ => textOK v | _ => true)

theorem convert_strict (t : Triple) (hs : isStrict t = true) :
    ∃ rt, convertTriple t = some rt ∧ tripleOf rt = normTriple t ∧ (readable t = true → goodR rt = true) := by
  obtain ⟨s, p, o⟩ := t
  cases s <;> cases p <;> cases o <;> simp [isStrict] at hs
  all_goals simp only [convertTriple, convertT.eq_def]
  all_goals first
    | (refine ⟨_, rfl, rfl, ?_⟩
       simp only [readable, goodR, subjOK, objOK, Bool.and_eq_true, Bool.true_and, Bool.and_true]
       first | exact id | (intro h; simp_all))
    | (rename_i v dt
       by_cases hd : dt = xsdString <;> simp only [hd, if_true, if_false] <;> refine ⟨_, rfl, ?_, ?_⟩ <;>
         simp_all [tripleOf, subjTerm, objTerm, normTriple, normObj, readable, goodR, subjOK, objOK])

theorem formatAll_each (rts : List RTriple) : ∀ (cur cur' : Option Owned) (evs : List Ev),
    formatAll cur rts = some (cur', evs) → ∀ rt ∈ rts, ∃ c, formatTriple c rt ≠ none := by
  induction rts with
  | nil => intro _ _ _ _ rt h; simp at h
  | cons t ts ih =>
    intro cur cur' evs h rt hrt
    simp only [formatAll] at h
    cases h1 : formatTriple cur t with
    | none => simp [h1] at h
    | some r1 =>
      obtain ⟨c1, e1⟩ := r1
      cases h2 : formatAll c1 ts with
      | none => simp [h1, h2] at h
      | some r2 =>
        simp at hrt
        rcases hrt with rfl | hrt
        · exact ⟨cur, by simp [h1]⟩
        · exact ih c1 r2.1 r2.2 h2 rt hrt

/-- if the serialiser succeeds, every convertible triple of the input was strict -/
theorem events_all_strict (ts : List Triple) (evs : List Ev) (h : events ts = some evs) :
    ∀ t ∈ ts, ∀ rt, convertTriple t = some rt → isStrict t = true := by
  intro t ht rt hc
  unfold events at h
  cases h1 : formatAll none (ts.filterMap convertTriple) with
  | none => simp [h1] at h
  | some r =>
    obtain ⟨c, hf⟩ := formatAll_each _ none r.1 r.2 h1 rt (List.mem_filterMap.mpr ⟨t, ht, hc⟩)
    exact (written_iff c t).mp ⟨rt, hc, hf⟩

theorem filterMap_convert (ts : List Triple) (hall : ∀ t ∈ ts, ∀ rt, convertTriple t = some rt → isStrict t = true) :
    (ts.filterMap convertTriple).map tripleOf = (restrict ts).map normTriple := by
  induction ts with
  | nil => rfl
  | cons t ts ih =>
    have ih' := ih (fun x hx => hall x (by simp [hx]))
    cases hs : isStrict t with
    | true =>
      obtain ⟨rt, hc, hn, _⟩ := convert_strict t hs
      simp only [List.filterMap_cons, hc, List.map_cons, restrict, List.filter_cons, hs, if_true, hn]
      exact congrArg (normTriple t :: ·) ih'
    | false =>
      have hc : convertTriple t = none := by
        cases hc : convertTriple t with
        | none => rfl
        | some rt => have := hall t (by simp) rt hc; simp [hs] at this
      simp only [List.filterMap_cons, hc, restrict, List.filter_cons, hs, Bool.false_eq_true, if_false]
      exact ih'

/-- **`roundtrip_partial`: for every indentation, the reader applied to the serialiser's output
returns the graph restricted to its strict triples** (language tags lower-cased), provided the
serialiser succeeds (no quoted triples) and every strict triple is `readable`.
The reader is the model of sophia's own (lenient) parser: it also takes back the ill-formed
pseudo element `prop:`, so qname-ability of predicates is not needed here — it is needed for
well-formedness (`prop_name_not_qname`).  The FULL statement (without `readable`) is false:
`roundtrip_ws_lost`, `roundtrip_bnode_digit_rejected`, `roundtrip_rdf_li_renumbered`. -/
theorem roundtrip_partial (n : Nat) (ts : List Triple) (doc : Str) (h : serialize n ts = some doc)
    (hr : ∀ t ∈ restrict ts, readable t = true) :
    readDoc false doc = .ok ((restrict ts).map normTriple) := by
  simp only [serialize] at h
  cases hp : pieces n ts with
  | none => simp [hp] at h
  | some ps =>
    simp only [hp, Option.map_some, Option.some.injEq] at h
    subst h
    have htok := tokenize_serialize n ts ps hp
    simp only [pieces] at hp
    cases he : events ts with
    | none => simp [he] at hp
    | some evs =>
      simp only [he, Option.map_some, Option.some.injEq] at hp
      subst hp
      have hstrict := events_all_strict ts evs he
      simp only [readDoc, Bool.false_eq_true, if_false, htok]
      rw [interp_writeAll, events_interp ts evs he ?_, filterMap_convert ts hstrict]
      intro rt hrt
      obtain ⟨t, ht, hc⟩ := List.mem_filterMap.mp hrt
      have hs := hstrict t ht rt hc
      obtain ⟨rt', hc', _, hg⟩ := convert_strict t hs
      rw [hc] at hc'
      cases hc'
      exact hg (hr t (by simp [restrict, ht, hs]))

/-- **indentation never changes what the reader delivers — for ALL graphs, with no hypothesis**
(also for the graphs of the known findings): the reader's result on the output for indentation
`n` equals its result on the unindented event stream. -/
theorem indent_invariant (n m : Nat) (ts : List Triple) :
    (serialize n ts).map (readDoc false) = (serialize m ts).map (readDoc false) := by
  have key : ∀ k, (serialize k ts).map (readDoc false)
      = (events ts).map (fun evs => interp false initStack (evs.flatMap evTok)) := by
    intro k
    cases he : events ts with
    | none => simp [serialize, pieces, he]
    | some evs =>
      have hp : pieces k ts = some (writeAll (indentOf k) evs) := by simp [pieces, he]
      have htok := tokenize_serialize k ts _ hp
      simp only [serialize, hp, Option.map_some, readDoc, Bool.false_eq_true, if_false, htok, interp_writeAll]
  rw [key n, key m]

example : readable (.bnode "b".toList, .iri "http://ex.org/p".toList, .lang " a\n".toList "EN".toList) = true := by
  decide

/-- the hypotheses of `roundtrip_partial` are satisfiable by a non-trivial graph: whitespace-
sensitive text with markup and a language tag in upper case, a blank subject, a predicate without
NCName suffix (the lenient reader takes `prop:` back), a skipped literal-subject triple -/
example : ∀ doc, serialize 4
    [(.bnode "b".toList, .iri "http://ex.org/ns#p".toList, .lang " a<&>\n".toList "EN".toList),
     (.lit "x".toList xsdString, .iri "x:p".toList, .iri "x:o".toList),
     (.bnode "b".toList, .iri "http://ex.org/".toList, .iri "x:o".toList)] = some doc →
    readDoc false doc = .ok
      [(.bnode "b".toList, .iri "http://ex.org/ns#p".toList, .lang " a<&>\n".toList "en".toList),
       (.bnode "b".toList, .iri "http://ex.org/".toList, .iri "x:o".toList)] :=
  fun doc h => roundtrip_partial 4 _ doc h (by decide)

set_option maxRecDepth 100000 in
/-- kernel-checked counterexample to the full statement (finding C18-whitespace-only-literal-lost):
the XML-legal literal `" "` comes back as `""` -/
theorem roundtrip_ws_lost :
    (serialize 0 [(.iri "x:s".toList, .iri "x:p".toList, .lit " ".toList xsdString)]).map (readDoc false)
      = some (.ok [(.iri "x:s".toList, .iri "x:p".toList, .lit [] xsdString)]) := by
  decide

set_option maxRecDepth 100000 in
/-- counterexample (finding C18-bnode-label-not-ncname): `_:0` is written `rdf:nodeID="0"`, which
the reader rejects -/
theorem roundtrip_bnode_digit_rejected :
    (serialize 0 [(.bnode "0".toList, .iri "x:p".toList, .iri "x:o".toList)]).map (readDoc false) = some .err := by
  decide

set_option maxRecDepth 100000 in
/-- counterexample (finding C18-reserved-rdf-predicate): predicate `rdf:li` comes back as `rdf:_1` -/
theorem roundtrip_rdf_li_renumbered :
    (serialize 0 [(.iri "x:s".toList, .iri (rdfName "li"), .iri "x:o".toList)]).map (readDoc false)
      = some (.ok [(.iri "x:s".toList, .iri (rdfName "_1"), .iri "x:o".toList)]) := by
  decide

/-- (finding C18-prop-pseudo-qname) a predicate without NCName suffix gets the element name `prop:`,
whose local part is empty — not a QName, so the document is not namespace-well-formed -/
theorem prop_name_not_qname (p : Str) (h : (splitIri p).2 = []) :
    (propName p).1 = "prop:".toList ∧ (splitQName (propName p).1).2 = [] := by
  have : propName p = ("prop:".toList, ("xmlns:prop".toList, (splitIri p).1)) := by simp [propName, h]
  rw [this]; exact ⟨rfl, rfl⟩

/-- … and otherwise the element name is an NCName (with `split_iri_valid`) -/
theorem prop_name_ncname (p : Str) (h : (splitIri p).2 ≠ []) : isNCName (propName p).1 = true := by
  have hne : (splitIri p).2.isEmpty = false := by
    cases h' : (splitIri p).2 with
    | nil => exact absurd h' h
    | cons _ _ => rfl
  have : (propName p).1 = (splitIri p).2 := by simp [propName, hne]
  rw [this]; exact (splitIri_valid p _ _ rfl h).1

/-! ## "either fails with an error or …; for strict graphs it always succeeds" -/

/-- a triple that `convert_triple` hands to the formatter although it contains a quoted triple -/
def refused (t : Triple) : Bool := strictStar (.triple t.1 t.2.1 t.2.2) && !isStrict t

/-- **the serialiser fails exactly when the graph contains a convertible quoted triple** — for
every graph and every indentation; nothing else (no text, no IRI, no blank node label, no
predicate shape) makes it fail. -/
theorem serialize_fails_iff (n : Nat) (ts : List Triple) :
    serialize n ts = none ↔ ∃ t ∈ ts, refused t = true := by
  have hser : serialize n ts = none ↔ (formatAll none (ts.filterMap convertTriple)).isSome = false := by
    simp only [serialize, pieces, events]
    cases formatAll none (ts.filterMap convertTriple) <;> simp
  rw [hser, formatAll_isSome]
  constructor
  · intro h
    have hex : ∃ rt ∈ ts.filterMap convertTriple, fmtOK rt = false := by
      false_or_by_contra
      rename_i hno
      have : (ts.filterMap convertTriple).all fmtOK = true := by
        apply List.all_eq_true.mpr
        intro rt hrt
        cases hb : fmtOK rt with
        | true => rfl
        | false => exact absurd ⟨rt, hrt, hb⟩ hno
      rw [this] at h
      exact Bool.noConfusion h
    obtain ⟨rt, hrt, hbad⟩ := hex
    obtain ⟨t, ht, hc⟩ := List.mem_filterMap.mp hrt
    refine ⟨t, ht, ?_⟩
    have hss : strictStar (.triple t.1 t.2.1 t.2.2) = true := (representable_iff t).mp (by simp [hc])
    cases hs : isStrict t with
    | false => simp [refused, hss, hs]
    | true =>
      obtain ⟨rt', hc', hf⟩ := (written_iff none t).mpr hs
      rw [hc] at hc'
      cases hc'
      cases rt with
      | mk s p o =>
        have h2 := formatTriple_isSome none s p o
        simp only [fmtOK] at hbad
        rw [hbad] at h2
        cases hft : formatTriple none (.mk s p o) with
        | none => exact absurd hft hf
        | some r => simp [hft] at h2
  · rintro ⟨t, ht, hr⟩
    simp only [refused, Bool.and_eq_true, Bool.not_eq_true'] at hr
    obtain ⟨hss, hns⟩ := hr
    have hne := (representable_iff t).mpr hss
    cases hc : convertTriple t with
    | none => exact absurd hc hne
    | some rt =>
      have hq := quoted_is_error none t rt hc hns
      cases hall : (ts.filterMap convertTriple).all fmtOK with
      | false => rfl
      | true =>
        have h1 := List.all_eq_true.mp hall rt (List.mem_filterMap.mpr ⟨t, ht, hc⟩)
        cases rt with
        | mk s p o =>
          have h2 := formatTriple_isSome none s p o
          simp only [fmtOK] at h1
          rw [h1, hq] at h2
          exact Bool.noConfusion h2

/-- **for strict RDF graphs — and, more generally, graphs whose non-strict triples are all skipped
by `convert_triple` (literal / variable subjects, non-IRI predicates, …) — serialisation always
succeeds**, whatever the text, the predicates and the indentation -/
theorem strict_graph_serializes (n : Nat) (ts : List Triple) (h : ∀ t ∈ ts, refused t = false) :
    ∃ doc, serialize n ts = some doc := by
  cases hs : serialize n ts with
  | some doc => exact ⟨doc, rfl⟩
  | none =>
    obtain ⟨t, ht, hr⟩ := (serialize_fails_iff n ts).mp hs
    rw [h t ht] at hr
    exact Bool.noConfusion hr

example : refused (.triple (.iri "x:a".toList) (.iri "x:b".toList) (.iri "x:c".toList), .iri "x:p".toList, .iri "x:o".toList) = true := by
  decide
example : refused (.triple (.var "v".toList) (.iri "x:b".toList) (.iri "x:c".toList), .iri "x:p".toList, .iri "x:o".toList) = false := by
  decide
example : refused (.bnode "0".toList, .iri "http://ex.org/".toList, .lit " ".toList xsdString) = false := by decide

/-! ## the three exits of `serialize_triples` (failing writer, failing source) -/

theorem serialize_unfold (n : Nat) (ts : List Triple) :
    serialize n ts = match formatAll none (ts.filterMap convertTriple) with
      | none => none
      | some (cur, evs) => some (render (writeAll (indentOf n) (startEvs ++ evs ++ finishEvs cur))) := by
  simp only [serialize, pieces, events]
  cases formatAll none (ts.filterMap convertTriple) <;> rfl

/-- with a writer that never fails (`Vec<u8>`) and a source that never fails, `serialize_triples`
is `serialize`: a formatter refusal is the only error, reported as `SinkError` -/
theorem outcome_plain (n : Nat) (ts : List Triple) :
    serializeTriples n ts false none = (match serialize n ts with | some d => .ok d | none => .sinkErr) := by
  rw [serialize_unfold]
  simp only [serializeTriples, overflows]
  cases formatAll none (ts.filterMap convertTriple) <;> simp

/-- **an error of the writer is never swallowed**: if the writer accepts fewer bytes than the
document needs — wherever it stops, the end tags written by `finish()` included — the result is
`Err(SinkError)`, never `Ok` -/
theorem sink_error_never_swallowed (n : Nat) (ts : List Triple) (doc : Str) (cap : Nat)
    (h : serialize n ts = some doc) (hc : cap < utf8Len doc) :
    serializeTriples n ts false (some cap) = .sinkErr := by
  rw [serialize_unfold] at h
  simp only [serializeTriples]
  cases hf : formatAll none (ts.filterMap convertTriple) with
  | none => rfl
  | some r =>
    obtain ⟨cur, evs⟩ := r
    simp only [hf, Option.some.injEq] at h
    simp only []
    split
    · rfl
    · simp only [Bool.false_eq_true, if_false, h, overflows, hc, decide_true, if_true]

/-- **an error of the triple source is never swallowed**: the result is never `Ok` -/
theorem source_error_never_swallowed (n : Nat) (ts : List Triple) (cap : Option Nat) (d : Str) :
    serializeTriples n ts true cap ≠ .ok d := by
  simp only [serializeTriples]
  cases formatAll none (ts.filterMap convertTriple) with
  | none => simp
  | some r => obtain ⟨cur, evs⟩ := r; simp only []; split <;> simp

/-- **`Ok` means the whole document was written**: the source did not fail, the writer holds
exactly `serialize n ts`, and that fitted -/
theorem ok_is_whole_document (n : Nat) (ts : List Triple) (f : Bool) (cap : Option Nat) (d : Str)
    (h : serializeTriples n ts f cap = .ok d) : f = false ∧ serialize n ts = some d ∧ overflows cap d = false := by
  rw [serialize_unfold]
  simp only [serializeTriples] at h
  cases hf : formatAll none (ts.filterMap convertTriple) with
  | none => simp [hf] at h
  | some r =>
    obtain ⟨cur, evs⟩ := r
    simp only [hf] at h
    split at h
    · simp at h
    · cases f with
      | true => simp at h
      | false =>
        simp only [Bool.false_eq_true, if_false] at h
        split at h
        · simp at h
        · rename_i hov
          simp only [Outcome.ok.injEq] at h
          subst h
          exact ⟨rfl, rfl, by simpa using hov⟩

/-- the default configuration is "no indentation" (`indentOf 0 = none`: `RdfXmlFormatter::new`) -/
theorem default_is_unindented : indentOf defaultIndentation = none := rfl

set_option maxRecDepth 100000 in
/-- non-vacuity: a two-byte-short writer on a real document (the last bytes come from `finish`) -/
example : serializeTriples 0 [(.iri "x:s".toList, .iri "x:p".toList, .lit "é".toList xsdString)] false (some 150) = .sinkErr := by
  decide
set_option maxRecDepth 100000 in
example : (match serializeTriples 2 [(.iri "x:s".toList, .iri "x:p".toList, .lit "é".toList xsdString)] false (some 1000) with
    | .ok _ => true | _ => false) = true := by
  decide

/-! ## "produces a well-formed document" — the structural part -/

/-- an element name that is admissible in a namespace-well-formed document whose root element
declares the prefix `rdf` (as `startEvs` does) -/
def qnameOK (n : Str) : Bool := n == rdfRDF || n == rdfDescription || isNCName n

/-- **`wellformed_partial`: whenever the serialiser succeeds on a graph all of whose (strict)
predicates have an NCName suffix, the event stream is a properly nested document (declaration
first, ONE root element, matching end tags, text only inside elements, nothing after the root),
every element name is `rdf:RDF`, `rdf:Description` or an NCName, and no tag has two attributes of
the same name.**
The hypothesis is necessary (`prop_name_not_qname`: otherwise the element name is `prop:`).
Together with `escape_no_markup` (text and attribute values contain no `<`, `"`, …) and
`indent_never_touches_text` this is what the model proves of "produces a well-formed document";
NOT proved: that the rendered characters are XML `Char`s (true iff every string of the graph is
`XmlLegal`) and the XML grammar itself (the model's tokeniser reads the output back,
`roundtrip_partial`, but it is lenient) — the harness's own checker judges the real output. -/
theorem wellformed_partial (ts : List Triple) (evs : List Ev) (h : events ts = some evs)
    (hq : ∀ t ∈ ts, isStrict t = true → ∀ p, t.2.1 = .iri p → (splitIri p).2 ≠ []) :
    nest .fresh evs = some .done ∧ (∀ e ∈ evs, ∀ n, elemName e = some n → qnameOK n = true) ∧
      (∀ e ∈ evs, ((attrsOf e).map (·.1)).Nodup) := by
  refine ⟨nest_events ts evs h, ?_, keys_events ts evs h⟩
  intro e he n hn
  rcases names_events ts evs h e he n hn with h1 | h1 | ⟨p, hp, h1⟩
  · subst h1; decide
  · subst h1; decide
  · obtain ⟨rt, hrt, hpr⟩ := List.mem_map.mp hp
    obtain ⟨t, ht, hc⟩ := List.mem_filterMap.mp hrt
    have hs := events_all_strict ts evs h t ht rt hc
    have hp' : t.2.1 = .iri p := by rw [← hpr]; exact convert_pred t rt hc
    have hnc := prop_name_ncname p (hq t ht hs p hp')
    simp [qnameOK, h1, hnc]

/-- nesting alone needs no hypothesis: every successful serialisation, of any graph -/
theorem events_well_nested (ts : List Triple) (evs : List Ev) (h : events ts = some evs) :
    nest .fresh evs = some .done := nest_events ts evs h

example : nest .fresh [.decl, .start "a".toList [], .text "x".toList, .close "b".toList] = none := by decide
example : nest .fresh [.decl, .start "a".toList [], .close "a".toList, .empty "b".toList []] = none := by decide
example : nest .fresh [.start "a".toList [], .decl, .close "a".toList] = none := by decide

/-! ## the rendered characters are XML `Char`s -/

theorem legal_append {a b : Str} (ha : XmlLegal a) (hb : XmlLegal b) : XmlLegal (a ++ b) := by
  intro c hc
  rcases List.mem_append.mp hc with h | h
  · exact ha c h
  · exact hb c h

theorem legal_cons {c : Char} {s : Str} (hc : xmlChar c = true) (hs : XmlLegal s) : XmlLegal (c :: s) := by
  intro d hd
  rcases List.mem_cons.mp hd with rfl | h
  · exact hc
  · exact hs d h

theorem legal_of_append_left {a b : Str} (h : XmlLegal (a ++ b)) : XmlLegal a :=
  fun c hc => h c (List.mem_append.mpr (Or.inl hc))
theorem legal_of_append_right {a b : Str} (h : XmlLegal (a ++ b)) : XmlLegal b :=
  fun c hc => h c (List.mem_append.mpr (Or.inr hc))

theorem legal_of_all (s : Str) (h : s.all xmlChar = true) : XmlLegal s :=
  fun c hc => List.all_eq_true.mp h c hc

theorem escChar_legal (c : Char) (h : xmlChar c = true) : XmlLegal (escChar c) := by
  rcases escChar_cases c with ⟨_, e⟩ | ⟨_, e⟩ | ⟨_, e⟩ | ⟨_, e⟩ | ⟨_, e⟩ | ⟨_, e⟩ <;> rw [e]
  all_goals first
    | exact legal_of_all _ (by decide)
    | (intro d hd; simp at hd; subst hd; exact h)

theorem escape_legal (s : Str) (h : XmlLegal s) : XmlLegal (escape s) := by
  induction s with
  | nil => intro c hc; simp [escape] at hc
  | cons c s ih =>
    rw [escape_cons]
    exact legal_append (escChar_legal c (h c (by simp))) (ih (fun d hd => h d (by simp [hd])))

/-- every string an event carries -/
def evStrings : Ev → List Str
  | .decl => []
  | .start n as => n :: as.flatMap (fun kv => [kv.1, kv.2])
  | .empty n as => n :: as.flatMap (fun kv => [kv.1, kv.2])
  | .text s => [s]
  | .close n => [n]

def LegalEv (e : Ev) : Prop := ∀ s ∈ evStrings e, XmlLegal s

theorem renderAttrs_legal (as : List (Str × Str)) (h : ∀ kv ∈ as, XmlLegal kv.1 ∧ XmlLegal kv.2) :
    XmlLegal (renderAttrs as) := by
  induction as with
  | nil => intro c hc; simp [renderAttrs] at hc
  | cons kv as ih =>
    rw [renderAttrs_cons]
    obtain ⟨h1, h2⟩ := h kv (by simp)
    refine legal_cons (by decide) (legal_append h1 (legal_cons (by decide) (legal_cons (by decide)
      (legal_append (escape_legal _ h2) (legal_cons (by decide) (ih (fun x hx => h x (by simp [hx]))))))))

theorem attrs_of_strings (n : Str) (as : List (Str × Str))
    (h : ∀ s ∈ n :: as.flatMap (fun kv => [kv.1, kv.2]), XmlLegal s) : ∀ kv ∈ as, XmlLegal kv.1 ∧ XmlLegal kv.2 := by
  intro kv hkv
  constructor
  · exact h kv.1 (List.mem_cons_of_mem _ (List.mem_flatMap.mpr ⟨kv, hkv, by simp⟩))
  · exact h kv.2 (List.mem_cons_of_mem _ (List.mem_flatMap.mpr ⟨kv, hkv, by simp⟩))

theorem renderEv_legal (e : Ev) (h : LegalEv e) : XmlLegal (renderEv e) := by
  cases e with
  | decl => simp only [renderEv]; exact legal_of_all _ (by decide)
  | start n as =>
    simp only [renderEv]
    exact legal_cons (by decide) (legal_append (legal_append (h n (by simp [evStrings]))
      (renderAttrs_legal as (attrs_of_strings n as h))) (legal_of_all _ (by decide)))
  | empty n as =>
    simp only [renderEv]
    exact legal_cons (by decide) (legal_append (legal_append (h n (by simp [evStrings]))
      (renderAttrs_legal as (attrs_of_strings n as h))) (legal_of_all _ (by decide)))
  | text s => simp only [renderEv]; exact escape_legal s (h s (by simp [evStrings]))
  | close n =>
    simp only [renderEv]
    exact legal_cons (by decide) (legal_cons (by decide) (legal_append (h n (by simp [evStrings])) (legal_of_all _ (by decide))))

theorem renderPiece_legal (p : Piece) (h : ∀ e, p = .ev e → LegalEv e) : XmlLegal (renderPiece p) := by
  cases p with
  | ws k =>
    simp only [renderPiece]
    refine legal_cons (by decide) ?_
    intro c hc
    have := List.eq_of_mem_replicate hc
    subst this
    decide
  | ev e => exact renderEv_legal e (h e rfl)

theorem render_legal (ps : List Piece) (h : ∀ p ∈ ps, ∀ e, p = .ev e → LegalEv e) : XmlLegal (render ps) := by
  induction ps with
  | nil => intro c hc; simp [render] at hc
  | cons p ps ih =>
    have : render (p :: ps) = renderPiece p ++ render ps := by simp [render]
    rw [this]
    exact legal_append (renderPiece_legal p (h p (by simp))) (ih (fun q hq => h q (by simp [hq])))

theorem writeAll_legal (ind : Option Nat) (evs : List Ev) (h : ∀ e ∈ evs, LegalEv e) :
    XmlLegal (render (writeAll ind evs)) := by
  apply render_legal
  intro p hp e he
  subst he
  cases ind with
  | none =>
    simp only [writeAll, List.mem_map] at hp
    obtain ⟨e', he', heq⟩ := hp
    cases heq
    exact h e he'
  | some size =>
    rcases mem_writeFrom size evs _ _ hp with ⟨k, hk⟩ | ⟨e', he', heq⟩
    · cases hk
    · cases heq; exact h e he'

theorem legalEv_start (n : Str) (as : List (Str × Str)) (hn : XmlLegal n)
    (has : ∀ kv ∈ as, XmlLegal kv.1 ∧ XmlLegal kv.2) : LegalEv (.start n as) := by
  intro s hs
  simp only [evStrings, List.mem_cons, List.mem_flatMap] at hs
  rcases hs with rfl | ⟨kv, hkv, h⟩
  · exact hn
  · simp at h; rcases h with rfl | rfl
    · exact (has kv hkv).1
    · exact (has kv hkv).2

theorem legalEv_empty (n : Str) (as : List (Str × Str)) (hn : XmlLegal n)
    (has : ∀ kv ∈ as, XmlLegal kv.1 ∧ XmlLegal kv.2) : LegalEv (.empty n as) := legalEv_start n as hn has

theorem legalEv_close (n : Str) (hn : XmlLegal n) : LegalEv (.close n) := by
  intro s hs; simp [evStrings] at hs; subst hs; exact hn

theorem legalEv_text (v : Str) (hv : XmlLegal v) : LegalEv (.text v) := by
  intro s hs; simp [evStrings] at hs; subst hs; exact hv

theorem attrs1 (k v : Str) (hk : XmlLegal k) (hv : XmlLegal v) :
    ∀ kv ∈ [(k, v)], XmlLegal kv.1 ∧ XmlLegal kv.2 := by
  intro kv h; simp at h; subst h; exact ⟨hk, hv⟩

theorem attrs2 (k1 v1 k2 v2 : Str) (h1 : XmlLegal k1) (h2 : XmlLegal v1) (h3 : XmlLegal k2) (h4 : XmlLegal v2) :
    ∀ kv ∈ [(k1, v1), (k2, v2)], XmlLegal kv.1 ∧ XmlLegal kv.2 := by
  intro kv h; simp at h; rcases h with rfl | rfl
  · exact ⟨h1, h2⟩
  · exact ⟨h3, h4⟩

def subjStrs : RSubject → List Str
  | .named i => [i]
  | .blank b => [b]
  | .triple _ => []
def objStrs : RObject → List Str
  | .named i => [i]
  | .blank b => [b]
  | .simple v => [v]
  | .lang v l => [v, l]
  | .typed v d => [v, d]
  | .triple _ => []
def LegalR : RTriple → Prop
  | .mk s p o => (∀ x ∈ subjStrs s, XmlLegal x) ∧ XmlLegal p ∧ (∀ x ∈ objStrs o, XmlLegal x)

theorem propName_legal (p : Str) (h : XmlLegal p) :
    XmlLegal (propName p).1 ∧ XmlLegal (propName p).2.1 ∧ XmlLegal (propName p).2.2 := by
  cases hl : (splitIri p).2 with
  | nil =>
    have hk := split_iri_empty_keeps_iri p hl
    simp only [propName, hl, List.isEmpty_nil, if_true, hk]
    exact ⟨legal_of_all _ (by decide), legal_of_all _ (by decide), h⟩
  | cons d ds =>
    have hv := (splitIri_valid p (splitIri p).1 (splitIri p).2 rfl (by simp [hl])).2
    have hp : XmlLegal ((splitIri p).1 ++ (splitIri p).2) := by rw [hv]; exact h
    simp only [propName, hl, List.isEmpty_cons, Bool.false_eq_true, if_false]
    rw [← hl]
    exact ⟨legal_of_append_right hp, legal_of_all _ (by decide), legal_of_append_left hp⟩

theorem legal_openDesc (cur : Option Owned) (s : RSubject) (o : Owned) (evs : List Ev)
    (h : openDesc cur s = some (o, evs)) (hs : ∀ x ∈ subjStrs s, XmlLegal x) : ∀ e ∈ evs, LegalEv e := by
  have hD : XmlLegal rdfDescription := legal_of_all _ (by decide)
  unfold openDesc at h
  split at h
  · cases cur with
    | none => simp at h
    | some c => simp at h; obtain ⟨_, rfl⟩ := h; intro e he; simp at he
  · cases cur <;> cases s <;> simp at h <;> obtain ⟨_, rfl⟩ := h <;> intro e he <;> simp at he
    all_goals first
      | (subst he
         exact legalEv_start _ _ hD (attrs1 _ _ (legal_of_all _ (by decide)) (hs _ (by simp [subjStrs]))))
      | (rcases he with rfl | rfl
         · exact legalEv_close _ hD
         · exact legalEv_start _ _ hD (attrs1 _ _ (legal_of_all _ (by decide)) (hs _ (by simp [subjStrs]))))

theorem legal_propEvs (p : Str) (o : RObject) (evs : List Ev) (h : propEvs p o = some evs) (hp : XmlLegal p)
    (ho : ∀ x ∈ objStrs o, XmlLegal x) : ∀ e ∈ evs, LegalEv e := by
  obtain ⟨h1, h2, h3⟩ := propName_legal p hp
  cases o <;> simp [propEvs] at h <;> subst h <;> intro e he <;> simp at he
  all_goals first
    | (subst he
       exact legalEv_empty _ _ h1 (attrs2 _ _ _ _ h2 h3 (legal_of_all _ (by decide)) (ho _ (by simp [objStrs]))))
    | (rcases he with rfl | rfl | rfl
       · first
         | exact legalEv_start _ _ h1 (attrs1 _ _ h2 h3)
         | exact legalEv_start _ _ h1 (attrs2 _ _ _ _ h2 h3 (legal_of_all _ (by decide)) (ho _ (by simp [objStrs])))
       · exact legalEv_text _ (ho _ (by simp [objStrs]))
       · exact legalEv_close _ h1)

theorem legal_formatAll (rts : List RTriple) : ∀ (cur cur' : Option Owned) (evs : List Ev),
    formatAll cur rts = some (cur', evs) → (∀ rt ∈ rts, LegalR rt) → ∀ e ∈ evs, LegalEv e := by
  induction rts with
  | nil => intro cur cur' evs h _; simp [formatAll] at h; obtain ⟨_, rfl⟩ := h; intro e he; simp at he
  | cons t ts ih =>
    intro cur cur' evs h hl
    simp only [formatAll] at h
    cases h1 : formatTriple cur t with
    | none => simp [h1] at h
    | some r1 =>
      obtain ⟨c1, e1⟩ := r1
      cases h2 : formatAll c1 ts with
      | none => simp [h1, h2] at h
      | some r2 =>
        obtain ⟨c2, e2⟩ := r2
        simp [h1, h2] at h
        obtain ⟨_, rfl⟩ := h
        intro e he
        rcases List.mem_append.mp he with he | he
        · cases t with
          | mk s p o =>
            obtain ⟨hs, hp, ho⟩ := hl (.mk s p o) (by simp)
            simp only [formatTriple] at h1
            cases h3 : openDesc cur s with
            | none => simp [h3] at h1
            | some r3 =>
              obtain ⟨ow, d1⟩ := r3
              cases h4 : propEvs p o with
              | none => simp [h3, h4] at h1
              | some d2 =>
                simp [h3, h4] at h1
                obtain ⟨_, rfl⟩ := h1
                rcases List.mem_append.mp he with he | he
                · exact legal_openDesc cur s ow d1 h3 hs e he
                · exact legal_propEvs p o d2 h4 hp ho e he
        · exact ih c1 c2 e2 h2 (fun rt hrt => hl rt (by simp [hrt])) e he

/-- the strings of a term / triple (one level: a strict triple has no quoted constituent) -/
def termStrs : Term → List Str
  | .iri s => [s]
  | .bnode s => [s]
  | .lit v dt => [v, dt]
  | .lang v l => [v, l]
  | _ => []
def tripleStrs (t : Triple) : List Str := termStrs t.1 ++ termStrs t.2.1 ++ termStrs t.2.2

theorem convert_legal (t : Triple) (hs : isStrict t = true) (rt : RTriple) (hc : convertTriple t = some rt)
    (hl : ∀ x ∈ tripleStrs t, XmlLegal x) : LegalR rt := by
  obtain ⟨s, p, o⟩ := t
  cases s <;> cases p <;> cases o <;> simp [isStrict] at hs
  all_goals simp only [convertTriple, convertT.eq_def] at hc
  all_goals first
    | (simp at hc; subst hc
       refine ⟨fun x hx => hl x ?_, hl _ (by simp [tripleStrs, termStrs]), fun x hx => hl x ?_⟩ <;>
         simp [subjStrs, objStrs] at hx <;> simp [tripleStrs, termStrs] <;>
         first | (subst hx; simp) | (rcases hx with rfl | rfl <;> simp))
    | (rename_i v dt
       by_cases hd : dt = xsdString <;> simp [hd] at hc <;> subst hc <;>
       refine ⟨fun x hx => hl x ?_, hl _ (by simp [tripleStrs, termStrs]), fun x hx => hl x ?_⟩ <;>
         simp [subjStrs, objStrs] at hx <;> simp [tripleStrs, termStrs] <;>
         first | (subst hx; simp) | (rcases hx with rfl | rfl <;> simp))

/-- **`output_xml_legal`: if every string of every strict triple of the graph consists of XML
`Char`s, so does the whole output document — for every graph and indentation.**  (Escaping and
indentation add only ASCII; the element name / namespace split of a predicate only re-arranges its
own characters.)  The hypothesis is necessary: `output_illegal_witness`. -/
theorem output_xml_legal (n : Nat) (ts : List Triple) (doc : Str) (h : serialize n ts = some doc)
    (hl : ∀ t ∈ ts, isStrict t = true → ∀ x ∈ tripleStrs t, XmlLegal x) : XmlLegal doc := by
  rw [serialize_unfold] at h
  cases hf : formatAll none (ts.filterMap convertTriple) with
  | none => simp [hf] at h
  | some r =>
    obtain ⟨cur, body⟩ := r
    simp only [hf, Option.some.injEq] at h
    subst h
    have hev : events ts = some (startEvs ++ body ++ finishEvs cur) := by simp [events, hf]
    apply writeAll_legal
    intro e he
    have hD : XmlLegal rdfDescription := legal_of_all _ (by decide)
    have hR : XmlLegal rdfRDF := legal_of_all _ (by decide)
    rcases List.mem_append.mp he with he | he
    · rcases List.mem_append.mp he with he | he
      · simp [startEvs] at he
        rcases he with rfl | rfl
        · intro s hs; simp [evStrings] at hs
        · exact legalEv_start _ _ hR (attrs1 _ _ (legal_of_all _ (by decide)) (legal_of_all _ (by decide)))
      · refine legal_formatAll _ none cur body hf ?_ e he
        intro rt hrt
        obtain ⟨t, ht, hc⟩ := List.mem_filterMap.mp hrt
        have hs := events_all_strict ts _ hev t ht rt hc
        exact convert_legal t hs rt hc (hl t ht hs)
    · cases cur <;> simp [finishEvs] at he
      · subst he; exact legalEv_close _ hR
      · rcases he with rfl | rfl
        · exact legalEv_close _ hD
        · exact legalEv_close _ hR

set_option maxRecDepth 100000 in
/-- the hypothesis of `output_xml_legal` is necessary: an illegal character in a literal (U+0001)
is written as it is (quick-xml's `escape` knows no character references), so the "document" is not
XML at all — which is why the property restricts its promise to XML-legal text -/
theorem output_illegal_witness :
    ∃ doc, serialize 0 [(.iri "x:s".toList, .iri "x:p".toList, .lit [Char.ofNat 1] xsdString)] = some doc ∧
      Char.ofNat 1 ∈ doc ∧ xmlChar (Char.ofNat 1) = false :=
  ⟨_, rfl, by decide, by decide⟩

example : ∀ x ∈ tripleStrs (.bnode "b".toList, .iri "http://ex.org/é".toList, .lang "<\r\n😀>".toList "en".toList), XmlLegal x := by
  intro x hx
  simp [tripleStrs, termStrs] at hx
  rcases hx with rfl | rfl | rfl | rfl <;> exact legal_of_all _ (by decide)

/-! ## numeric character references (reader side) -/

theorem unescapeFrom_pending_cons (acc : Str) (d : Char) (r : Str) (hd : d ≠ ';') :
    unescapeFrom (some acc) (d :: r) = unescapeFrom (some (d :: acc)) r := by
  rw [unescapeFrom.eq_def]
  split <;> simp_all

/-- **a numeric character reference is read as the character it denotes, wherever it stands**:
`&#` + digits + `;` followed by `r` unescapes to that character followed by the unescaping of `r`
(and is an error exactly when quick-xml's `parse_number`, modelled by `charRef`, rejects the digits
or when the rest is in error) -/
theorem unescape_char_ref (num r : Str) (hn : ∀ d ∈ num, d ≠ ';') :
    unescape ('&' :: '#' :: (num ++ ';' :: r)) = (charRef num).bind (fun c => (unescape r).map (c :: ·)) := by
  have key : ∀ (num acc : Str), (∀ d ∈ num, d ≠ ';') →
      unescapeFrom (some acc) (num ++ ';' :: r) =
        (charRef (acc.reverse ++ num)).bind (fun c => (unescapeFrom none r).map (c :: ·)) := by
    intro num
    induction num with
    | nil =>
      intro acc _
      simp only [List.nil_append, List.append_nil]
      rw [unescapeFrom.eq_def]
      cases hc : charRef acc.reverse <;> simp [hc]
    | cons d ds ih =>
      intro acc h
      rw [List.cons_append, unescapeFrom_pending_cons acc d _ (h d (by simp)), ih (d :: acc) (fun x hx => h x (by simp [hx]))]
      simp
  have h0 : unescape ('&' :: '#' :: (num ++ ';' :: r)) = unescapeFrom (some []) (num ++ ';' :: r) := by
    simp [unescape, unescapeFrom]
  rw [h0, key num [] hn]
  simp [unescape]

/-- a carriage return written as `&#xD;` survives even a CONFORMING reader (line-end
normalisation happens before references are expanded) — what `xml_text_cr_lost` shows to be lost
when it is written raw, as quick-xml's `escape` does -/
theorem cr_char_ref_survives :
    unescape "&#xD;".toList = some ['\r'] ∧ conformantText "a&#xD;&#13;b".toList = some "a\r\rb".toList := by
  decide

example : unescape "&#x1F600;&#65;&#x00041;".toList = some "😀AA".toList := by decide
example : unescape "&#0;".toList = none ∧ unescape "&#xD800;".toList = none ∧ unescape "&#x110000;".toList = none
    ∧ unescape "&#;".toList = none ∧ unescape "&#X41;".toList = none ∧ unescape "&#65".toList = none := by decide

/-! ## the round-trip clause at full strength is FALSE (known findings) -/

/-- the property's clause "for graphs whose predicates can be written as XML qualified names and
whose text contains only XML-legal characters it always succeeds and loses nothing", over the
model: success is `strict_graph_serializes`; "loses nothing" would be this -/
def FullRoundtrip : Prop :=
  ∀ (n : Nat) (ts : List Triple) (doc : Str), serialize n ts = some doc →
    (∀ t ∈ ts, isStrict t = true → (∀ x ∈ tripleStrs t, XmlLegal x) ∧ ∀ p, t.2.1 = .iri p → (splitIri p).2 ≠ []) →
    readDoc false doc = .ok ((restrict ts).map normTriple)

set_option maxRecDepth 100000 in
/-- **the full statement is false**: the XML-legal, qname-able graph `<x:s> <x:p> " "` is read back
with the empty literal (finding C18-whitespace-only-literal-lost; replayed on the implementation by
the first line of corpus/C18/findings.req).  What IS provable is `roundtrip_partial` (`readable`). -/
theorem full_roundtrip_false : ¬ FullRoundtrip := by
  intro h
  have hw := roundtrip_ws_lost
  cases hs : serialize 0 [(.iri "x:s".toList, .iri "x:p".toList, .lit " ".toList xsdString)] with
  | none => rw [hs] at hw; simp at hw
  | some doc =>
    rw [hs] at hw
    simp only [Option.map_some, Option.some.injEq] at hw
    have h2 := h 0 _ doc hs (by
      intro t ht _
      simp at ht
      subst ht
      refine ⟨?_, ?_⟩
      · intro x hx
        simp [tripleStrs, termStrs] at hx
        rcases hx with rfl | rfl | rfl | rfl <;> exact legal_of_all _ (by decide)
      · intro p hp
        simp at hp
        subst hp
        decide)
    rw [hw] at h2
    revert h2
    decide

/-- the hypothesis `hb` of `split_iri_empty_iff` (the IRI contains a character at which `rfind`
can stop) is necessary: without one nothing is split off although the whole string is an NCName
(never the case for an absolute IRI, which contains `:`) -/
theorem split_iri_empty_iff_needs_break :
    (splitIri "abc".toList).2 = [] ∧ ¬ (∀ ns loc, "abc".toList = ns ++ loc → isNCName loc = false) :=
  ⟨by decide, fun h => by have h1 := h [] "abc".toList rfl; revert h1; decide⟩

end SophiaProofs.C18
