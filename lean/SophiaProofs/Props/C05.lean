/-
C05 — canonical N-Quads is a complete isomorphism invariant: theorems about the model of
`rdfc10.rs` that the C05 driver executes (`SophiaModel.Rdfc10.relabelWith / normalizeWith`).
All statements hold for every hash function `H`, every depth guard and permutation limit.
-/
import SophiaProofs.Lemmas.Sound
import SophiaProofs.Lemmas.Outcomes
import SophiaProofs.Lemmas.ValidTerms
import SophiaModel.Model.Sha2

namespace SophiaProofs.C05
open SophiaModel SophiaModel.Rdfc10 SophiaProofs.Rdfc10L SophiaProofs.CnqL

/-- the k-th canonical identifier -/
def canonId (k : Nat) : Str := "c14n".toList ++ decimal k

/-- an identifier map as a function on labels (labels outside the map are left alone) -/
def mapFun (m : SMap Str) (b : Str) : Str := (m.get b).getD b

/-- applying an identifier map to a term / quad: `renameTerm` / `renameQuad` rename the blank nodes
that are components of the quad -/
def applyTerm (m : SMap Str) : Term → Term := renameTerm (mapFun m)
def applyQuad (m : SMap Str) : Quad → Quad := renameQuad (mapFun m)

/-- **issuer counter invariant**: the returned identifier map is injective and its range is exactly
`c14n0 … c14n(n-1)`, `n` = number of entries. -/
theorem issued_bij {H : Str → Str} {td : Nat → Nat → Bool} {pl : Nat} {D out : List Quad} {m : SMap Str}
    (h : relabelWith H td pl D = .ok (out, m)) :
    (∀ b₁ b₂ c, m.get b₁ = some c → m.get b₂ = some c → b₁ = b₂) ∧
    (∀ c, (∃ b, m.get b = some c) ↔ ∃ k, k < m.length ∧ c = canonId k) := by
  obtain ⟨can, wf, hp, rfl, _⟩ := relabelWith_wf h
  constructor
  · intro b₁ b₂ c h1 h2
    obtain ⟨k1, hk1, e1⟩ := (wf.get_iff b₁ c).mp h1
    obtain ⟨k2, hk2, e2⟩ := (wf.get_iff b₂ c).mp h2
    have : k1 = k2 := decimal_inj (List.append_cancel_left (e1.symm.trans e2))
    subst this
    rw [hk1] at hk2
    injection hk2
  · intro c
    constructor
    · rintro ⟨b, hb⟩
      obtain ⟨k, hk, e⟩ := (wf.get_iff b c).mp hb
      refine ⟨k, ?_, by rw [e, hp]; rfl⟩
      rw [wf.len]
      rcases Nat.lt_or_ge k can.order.length with hlt | hge
      · exact hlt
      · rw [List.getElem?_eq_none_iff.mpr hge] at hk; cases hk
    · rintro ⟨k, hk, e⟩
      rw [wf.len] at hk
      refine ⟨can.order[k], (wf.get_iff _ c).mpr ⟨k, ?_, by rw [e, hp]; rfl⟩⟩
      exact List.getElem?_eq_getElem hk

theorem convert_ok {m : SMap Str} {t t' : Term} (h : convert m t = .ok t') : t' = applyTerm m t := by
  cases t with
  | bnode b =>
    simp only [convert] at h
    cases hg : m.get b with
    | none => rw [hg] at h; cases h
    | some c => rw [hg] at h; injection h with h; rw [← h]; simp [applyTerm, renameTerm, mapFun, hg]
  | iri s => simp only [convert] at h; injection h with h; exact h.symm
  | lit l d => simp only [convert] at h; injection h with h; exact h.symm
  | lang l d => simp only [convert] at h; injection h with h; exact h.symm
  | triple s p o => simp only [convert] at h; injection h with h; exact h.symm
  | var s => simp only [convert] at h; injection h with h; exact h.symm

theorem convert_ok_some {m : SMap Str} {b : Str} {t' : Term} (h : convert m (.bnode b) = .ok t') :
    (m.get b).isSome := by
  simp only [convert] at h
  cases hg : m.get b with
  | none => rw [hg] at h; cases h
  | some c => rfl

theorem convertG_ok {m : SMap Str} {g g' : Option Term} (h : convertG m g = .ok g') :
    g' = g.map (applyTerm m) ∧ ∀ t ∈ g.toList, ∀ b, t = .bnode b → (m.get b).isSome := by
  cases g with
  | none =>
    simp only [convertG] at h
    injection h with h
    exact ⟨h.symm, by intro t ht; cases ht⟩
  | some g0 =>
    simp only [convertG] at h
    cases hc : convert m g0 with
    | error e => rw [hc] at h; cases h
    | ok g1 =>
      rw [hc] at h
      injection h with h
      refine ⟨by rw [← h, convert_ok hc]; rfl, ?_⟩
      intro t ht b hb
      simp only [Option.toList, List.mem_cons, List.not_mem_nil, or_false] at ht
      subst ht; subst hb
      exact convert_ok_some hc

/-- what a successful `convertQuad` says about each component -/
theorem convertQuad_ok {m : SMap Str} {q q' : Quad} (h : convertQuad m q = .ok q') :
    q' = applyQuad m q ∧ ∀ t ∈ quadTerms q, ∀ b, t = .bnode b → (m.get b).isSome := by
  unfold convertQuad at h
  cases hs : convert m q.s with
  | error e => rw [hs, bind_err] at h; cases h
  | ok s =>
    rw [hs, bind_ok] at h
    cases hp : convert m q.p with
    | error e => rw [hp, bind_err] at h; cases h
    | ok p =>
      rw [hp, bind_ok] at h
      cases ho : convert m q.o with
      | error e => rw [ho, bind_err] at h; cases h
      | ok o =>
        rw [ho, bind_ok] at h
        cases hg : convertG m q.g with
        | error e => rw [hg, bind_err] at h; cases h
        | ok g =>
          rw [hg, bind_ok] at h
          injection h with h
          obtain ⟨hg1, hg2⟩ := convertG_ok hg
          constructor
          · rw [← h, convert_ok hs, convert_ok hp, convert_ok ho, hg1]; rfl
          · intro t ht b hb
            simp only [quadTerms, List.mem_append, List.mem_cons, List.not_mem_nil, or_false] at ht
            rcases ht with (ht | ht | ht) | ht
            · subst hb; rw [← ht] at hs; exact convert_ok_some hs
            · subst hb; rw [← ht] at hp; exact convert_ok_some hp
            · subst hb; rw [← ht] at ho; exact convert_ok_some ho
            · exact hg2 t ht b hb

/-- the returned quads are the input with the returned map applied, quad by quad, in order -/
theorem relabel_applies {H : Str → Str} {td : Nat → Nat → Bool} {pl : Nat} {D out : List Quad} {m : SMap Str}
    (h : relabelWith H td pl D = .ok (out, m)) : out = D.map (applyQuad m) := by
  obtain ⟨can, _, _, rfl, hm⟩ := relabelWith_wf h
  exact forall₂_eq_map (fun a b => convertQuad can.issued a = .ok b) _ (fun a b hab => (convertQuad_ok hab).1) _ _ (mapM_ok _ _ _ hm)

/-- on success every blank node label of the input is in the returned map -/
theorem issued_total {H : Str → Str} {td : Nat → Nat → Bool} {pl : Nat} {D out : List Quad} {m : SMap Str}
    (h : relabelWith H td pl D = .ok (out, m)) :
    ∀ q ∈ D, ∀ t ∈ quadTerms q, ∀ b, t = .bnode b → (m.get b).isSome := by
  obtain ⟨can, _, _, rfl, hm⟩ := relabelWith_wf h
  have hf := mapM_ok _ _ _ hm
  intro q hq
  have : ∀ (l : List Quad) (o : List Quad), AllRel (fun a b => convertQuad can.issued a = .ok b) l o →
      q ∈ l → ∃ q', convertQuad can.issued q = .ok q' := by
    intro l o hlo
    induction hlo with
    | nil => intro hq; cases hq
    | cons hab _ ih =>
      intro hq
      rcases List.mem_cons.mp hq with rfl | hq
      · exact ⟨_, hab⟩
      · exact ih hq
  obtain ⟨q', hq'⟩ := this D out hf hq
  exact (convertQuad_ok hq').2

end SophiaProofs.C05

namespace SophiaProofs.C05
open SophiaModel SophiaModel.Rdfc10 SophiaProofs.Rdfc10L SophiaProofs.CnqL

/-- **the first-degree hash is an isomorphism invariant**: if `D₂` is `D₁` with its blank nodes
renamed by an injective `f` and its quads in any order, then the memoised first-degree hash map
`b2h` (steps 2–3) of `D₂` at `f b` is that of `D₁` at `b` — for every label `b` (both sides are
`none` when `b` does not occur), every hash function. -/
theorem first_degree_invariant (H : Str → Str) {f : Str → Str} (hf : ∀ a b, f a = f b → a = b)
    {D₁ D₂ : List Quad} (hperm : D₂.Perm (D₁.map (renameQuad f)))
    {b2q₁ b2q₂ : SMap (List Quad)} (h1 : step2 D₁ = .ok b2q₁) (h2 : step2 D₂ = .ok b2q₂) (b : Str) :
    (step3 H b2q₂).2.get (f b) = (step3 H b2q₁).2.get b := by
  rw [step3_b2h H (step2_spec h1).1, step3_b2h H (step2_spec h2).1, step2_get h1, step2_get h2]
  have hp := refs_perm hf hperm b
  by_cases he : D₁.flatMap (refsOf b) = []
  · have : D₂.flatMap (refsOf (f b)) = [] := by
      have hl := hp.length_eq
      rw [he] at hl
      exact List.length_eq_zero_iff.mp (by simpa using hl)
    rw [he, this]
    simp
  · have : D₂.flatMap (refsOf (f b)) ≠ [] := by
      intro e
      have hl := hp.length_eq
      rw [e, List.length_map] at hl
      exact he (List.length_eq_zero_iff.mp hl.symm)
    simp only [he, this, if_false, Option.map_some]
    rw [hashFirstDegree_invariant H hf hperm b]

/-- the hypotheses are satisfiable non-trivially: a 2-cycle, relabelled and reversed -/
example : ([⟨.bnode ['y'], .iri ['p'], .bnode ['x'], none⟩, ⟨.bnode ['x'], .iri ['p'], .bnode ['y'], none⟩] : List Quad).Perm
    (([⟨.bnode ['a'], .iri ['p'], .bnode ['b'], none⟩, ⟨.bnode ['b'], .iri ['p'], .bnode ['a'], none⟩] : List Quad).map
      (renameQuad (fun l => if l = ['a'] then ['x'] else if l = ['b'] then ['y'] else l))) := by
  simp [renameQuad, renameTerm]
  exact List.Perm.swap _ _ _

end SophiaProofs.C05

namespace SophiaProofs.C05
open SophiaModel SophiaModel.Rdfc10 SophiaProofs.Rdfc10L SophiaProofs.CnqL

/-! ### the comparison used for the final sort is the code-point order of the lines -/

/-- **`sorted_is_line_order`**: for quads of an RDF dataset (`QuadOK`: IRIs without `>`, labels and
language tags without space, graph names IRIs or blank nodes, no quoted triples / variables — what
the toolkit's own validators guarantee) the term-by-term comparison of `normalize_with`
(`cmp_c14n_terms` over s, p, o, g, first difference wins) equals the code-point comparison of the
rendered N-Quads lines.  (For a *literal* graph name of generalized RDF it does not: `"` < `.`.) -/
theorem sorted_is_line_order {q₁ q₂ : Quad} (h₁ : QuadOK q₁) (h₂ : QuadOK q₂) :
    cmpQuad q₁ q₂ = cmpStr (line q₁) (line q₂) := cmpQuad_eq_line h₁ h₂

/-- … hence the document written by `normalize_with` has its lines in code-point order -/
theorem output_lines_sorted {l : List Quad} (hl : ∀ q ∈ l, QuadOK q) :
    ((sortQuads l).map line).Pairwise (fun a b => strLe a b = true) := sorted_lines hl

example : QuadOK ⟨.bnode ['c', '1', '4', 'n', '0'], .iri ['t', 'a', 'g', ':', 'p'], .lang ['a', ' ', 'b'] ['e', 'n', '-', 'G', 'B'],
    some (.iri ['x', ':', 'g'])⟩ :=
  ⟨by simp [TermOK], by simp [TermOK], by simp [TermOK], ⟨by simp [TermOK], Or.inr ⟨_, rfl⟩⟩⟩

/-! ### completeness: equal canonical documents ⇒ isomorphic datasets -/

/-- `b` labels a blank node that is a component of a quad of `D` -/
def IsLabel (D : List Quad) (b : Str) : Prop := ∃ q ∈ D, Term.bnode b ∈ quadTerms q

/-- isomorphism of datasets (lists of quads without repetition): a renaming of blank nodes,
injective on the labels of `D₁`, maps `D₁` onto `D₂` quad for quad (it is then a bijection between
the two label sets) -/
def Iso (D₁ D₂ : List Quad) : Prop :=
  ∃ f : Str → Str, (∀ a b, IsLabel D₁ a → IsLabel D₁ b → f a = f b → a = b) ∧
    (D₁.map (renameQuad f)).Perm D₂

theorem mapFun_of_get {m : SMap Str} {b c : Str} (h : m.get b = some c) : mapFun m b = c := by
  simp [mapFun, h]

theorem canonId_no_space (k : Nat) : ' ' ∉ canonId k := by
  unfold canonId
  intro h
  rcases List.mem_append.mp h with h | h
  · exact absurd h (by decide)
  · exact decimal_no_space k h

theorem normalizeWith_ok {H : Str → Str} {td : Nat → Nat → Bool} {pl : Nat} {D : List Quad} {s : Str}
    (h : normalizeWith H td pl D = .ok s) :
    ∃ out m, relabelWith H td pl D = .ok (out, m) ∧ s = serialize (sortQuads out) := by
  unfold normalizeWith at h
  cases hr : relabelWith H td pl D with
  | error e => rw [hr, bind_err] at h; cases h
  | ok r =>
    rw [hr, bind_ok] at h
    injection h with h
    exact ⟨r.1, r.2, rfl, h.symm⟩

/-- the relabelled quads of a well-formed dataset are well-formed -/
theorem out_ok {H : Str → Str} {td : Nat → Nat → Bool} {pl : Nat} {D out : List Quad} {m : SMap Str}
    (ok : ∀ q ∈ D, QuadOK q) (h : relabelWith H td pl D = .ok (out, m)) : ∀ q ∈ out, QuadOK q := by
  have ha := relabel_applies h
  have ht := issued_total h
  have hb := (issued_bij h).2
  intro q hq
  rw [ha] at hq
  obtain ⟨q0, hq0, rfl⟩ := List.mem_map.mp hq
  refine quadOK_rename (ok q0 hq0) ?_
  intro t ht' b hb'
  have hsome := ht q0 hq0 t ht' b hb'
  cases hg : m.get b with
  | none => rw [hg] at hsome; cases hsome
  | some c =>
    obtain ⟨k, _, hk⟩ := (hb c).mp ⟨b, hg⟩
    rw [mapFun_of_get hg, hk]
    exact canonId_no_space k

/-- **completeness** (`normalize D₁ = normalize D₂ → D₁ ≅ D₂`), for every hash function and all
limits: two well-formed datasets on which canonicalisation succeeds with the same bytes are
isomorphic.  (No assumption on the hash: a collision can only make *more* datasets share an
output's labelling, never the same bytes, because the bytes contain every quad.) -/
theorem complete {H : Str → Str} {td td' : Nat → Nat → Bool} {pl pl' : Nat} {D₁ D₂ : List Quad} {s : Str}
    (ok₁ : ∀ q ∈ D₁, QuadOK q) (ok₂ : ∀ q ∈ D₂, QuadOK q)
    (h₁ : normalizeWith H td pl D₁ = .ok s) (h₂ : normalizeWith H td' pl' D₂ = .ok s) : Iso D₁ D₂ := by
  obtain ⟨out₁, m₁, r₁, s₁⟩ := normalizeWith_ok h₁
  obtain ⟨out₂, m₂, r₂, s₂⟩ := normalizeWith_ok h₂
  have a₁ := relabel_applies r₁
  have a₂ := relabel_applies r₂
  have t₁ := issued_total r₁
  have t₂ := issued_total r₂
  have inj₁ := (issued_bij r₁).1
  have inj₂ := (issued_bij r₂).1
  -- the two relabelled quad lists are permutations of each other
  have hsort : sortQuads out₁ = sortQuads out₂ := by
    apply serialize_inj
    · intro q hq; exact out_ok ok₁ r₁ q ((sortQuads_perm out₁).mem_iff.mp hq)
    · intro q hq; exact out_ok ok₂ r₂ q ((sortQuads_perm out₂).mem_iff.mp hq)
    · rw [← s₁, ← s₂]
  have hperm : out₁.Perm out₂ :=
    (sortQuads_perm out₁).symm.trans ((List.Perm.of_eq hsort).trans (sortQuads_perm out₂))
  -- inverse of the second map on the labels of D₂
  have hinv : ∀ q ∈ D₂, renameQuad (invFun m₂ ∘ mapFun m₂) q = q := by
    intro q hq
    rw [← renameQuad_id q]
    rw [renameQuad_id q]
    refine (renameQuad_congr (g := id) ?_).trans (renameQuad_id q)
    intro t ht b hb
    have hsome := t₂ q hq t ht b hb
    cases hg : m₂.get b with
    | none => rw [hg] at hsome; cases hsome
    | some c =>
      simp only [Function.comp, mapFun_of_get hg, id]
      exact inj₂ _ _ c (get_invFun hg) hg
  refine ⟨invFun m₂ ∘ mapFun m₁, ?_, ?_⟩
  · -- injective on the labels of D₁
    intro a b ⟨qa, hqa, hta⟩ ⟨qb, hqb, htb⟩ hab
    have sa := t₁ qa hqa _ hta a rfl
    have sb := t₁ qb hqb _ htb b rfl
    cases hga : m₁.get a with
    | none => rw [hga] at sa; cases sa
    | some ca =>
      cases hgb : m₁.get b with
      | none => rw [hgb] at sb; cases sb
      | some cb =>
        simp only [Function.comp, mapFun_of_get hga, mapFun_of_get hgb] at hab
        -- ca and cb are labels of out₁, hence of out₂, hence in the range of m₂
        have inRange : ∀ (q : Quad) (x cx : Str), q ∈ D₁ → Term.bnode x ∈ quadTerms q → m₁.get x = some cx →
            ∃ y, m₂.get y = some cx := by
          intro q x cx hq hx hgx
          have hmem : renameQuad (mapFun m₁) q ∈ out₂ := by
            apply hperm.mem_iff.mp
            rw [a₁]
            exact List.mem_map.mpr ⟨q, hq, rfl⟩
          rw [a₂] at hmem
          obtain ⟨q', hq', he⟩ := List.mem_map.mp hmem
          have hcx : Term.bnode cx ∈ quadTerms (renameQuad (mapFun m₁) q) := by
            rw [quadTerms_rename]
            exact List.mem_map.mpr ⟨_, hx, by simp [renameTerm, mapFun_of_get hgx]⟩
          have he' : applyQuad m₂ q' = renameQuad (mapFun m₁) q := he
          rw [← he', applyQuad, quadTerms_rename] at hcx
          obtain ⟨t', ht', hrt⟩ := List.mem_map.mp hcx
          cases t' with
          | bnode y =>
            have hs := t₂ q' hq' _ ht' y rfl
            cases hgy : m₂.get y with
            | none => rw [hgy] at hs; cases hs
            | some cy =>
              simp only [renameTerm, mapFun_of_get hgy] at hrt
              injection hrt with hrt
              exact ⟨y, by rw [hgy, hrt]⟩
          | iri _ => simp [renameTerm] at hrt
          | lit _ _ => simp [renameTerm] at hrt
          | lang _ _ => simp [renameTerm] at hrt
          | triple _ _ _ => simp [renameTerm] at hrt
          | var _ => simp [renameTerm] at hrt
        obtain ⟨ya, hya⟩ := inRange qa a ca hqa hta hga
        obtain ⟨yb, hyb⟩ := inRange qb b cb hqb htb hgb
        have e1 := get_invFun hya
        have e2 := get_invFun hyb
        rw [hab] at e1
        have : ca = cb := by
          rw [e1] at e2
          injection e2
        subst this
        exact inj₁ a b ca hga hgb
  · -- the renaming maps D₁ onto D₂
    have h1 : D₁.map (renameQuad (invFun m₂ ∘ mapFun m₁)) = out₁.map (renameQuad (invFun m₂)) := by
      rw [a₁, List.map_map]
      congr 1
      funext q
      simp [Function.comp, applyQuad, renameQuad_comp]
    have h2 : out₂.map (renameQuad (invFun m₂)) = D₂ := by
      rw [a₂, List.map_map]
      conv => rhs; rw [← List.map_id D₂]
      apply List.map_congr_left
      intro q hq
      simp only [Function.comp, applyQuad, renameQuad_comp, id]
      exact hinv q hq
    rw [h1, ← h2]
    exact hperm.map _

end SophiaProofs.C05

namespace SophiaProofs.C05
open SophiaModel SophiaModel.Rdfc10 SophiaProofs.Rdfc10L SophiaProofs.CnqL

/-! ### the `unwrap()` of step 6 cannot fail -/

theorem convert_err_label {m : SMap Str} {t : Term} {e : Err} (h : convert m t = .error e) :
    ∃ b, t = .bnode b ∧ m.get b = none := by
  cases t with
  | bnode b =>
    simp only [convert] at h
    cases hg : m.get b with
    | none => exact ⟨b, rfl, hg⟩
    | some c => rw [hg] at h; cases h
  | iri s => simp only [convert] at h; cases h
  | lit l d => simp only [convert] at h; cases h
  | lang l d => simp only [convert] at h; cases h
  | triple s p o => simp only [convert] at h; cases h
  | var s => simp only [convert] at h; cases h

theorem convertQuad_err_label {m : SMap Str} {q : Quad} {e : Err} (h : convertQuad m q = .error e) :
    ∃ c ∈ components q, ∃ b, c.1 = .bnode b ∧ m.get b = none := by
  unfold convertQuad at h
  cases hs : convert m q.s with
  | error e' =>
    obtain ⟨b, hb, hg⟩ := convert_err_label hs
    exact ⟨(q.s, ['s']), by simp [components], b, hb, hg⟩
  | ok s =>
    rw [hs, bind_ok] at h
    cases hp : convert m q.p with
    | error e' =>
      obtain ⟨b, hb, hg⟩ := convert_err_label hp
      exact ⟨(q.p, ['p']), by simp [components], b, hb, hg⟩
    | ok p =>
      rw [hp, bind_ok] at h
      cases ho : convert m q.o with
      | error e' =>
        obtain ⟨b, hb, hg⟩ := convert_err_label ho
        exact ⟨(q.o, ['o']), by simp [components], b, hb, hg⟩
      | ok o =>
        rw [ho, bind_ok] at h
        cases hg : convertG m q.g with
        | ok g => rw [hg, bind_ok] at h; cases h
        | error e' =>
          cases hq : q.g with
          | none => rw [hq] at hg; simp only [convertG] at hg; cases hg
          | some g =>
            rw [hq] at hg
            simp only [convertG] at hg
            cases hc : convert m g with
            | ok g' => rw [hc] at hg; cases hg
            | error e'' =>
              obtain ⟨b, hb, hgb⟩ := convert_err_label hc
              exact ⟨(g, ['g']), by simp [components, hq], b, hb, hgb⟩

/-- **totality, the non-trivial half**: whenever steps 2–5 succeed, the canonical issuer has an
identifier for every blank node of the dataset — the `issued.get(..).unwrap()` of step 6 (modelled
as the outcome `Err.panic`) is unreachable, for every dataset, hash function and limits.
Rests on: the issuer returned by `hash_n_degree_quads` extends the issuer it was given
(`hashNDegree_ext`), step 4 and step 5.3 issue every listed label. -/
theorem step6_never_panics (H : Str → Str) (td : Nat → Nat → Bool) (pl : Nat) (D : List Quad) :
    relabelWith H td pl D ≠ .error .panic := by
  intro h
  unfold relabelWith at h
  cases h2 : step2 D with
  | error e =>
    rw [h2, bind_err] at h
    injection h with h
    have := (step2_err h2).1
    rw [this] at h
    cases h
  | ok b2q =>
    rw [h2, bind_ok] at h
    simp only [] at h
    cases h5 : step5 H b2q (step3 H b2q).2 td pl (b2q.length + 1)
        (step4 (step3 H b2q).1 (Issuer.new "c14n".toList)).1 (step4 (step3 H b2q).1 (Issuer.new "c14n".toList)).2 with
    | error e => rw [h5] at h; simp only [liftH, bind_err] at h; cases h
    | ok canonical =>
      rw [h5] at h
      simp only [liftH, bind_ok] at h
      cases hm : D.mapM (convertQuad canonical.issued) with
      | ok out => rw [hm, bind_ok] at h; cases h
      | error e =>
        obtain ⟨q, hq, hqe⟩ := mapM_error _ _ _ hm
        obtain ⟨c, hc, b, hcb, hnone⟩ := convertQuad_err_label hqe
        have hne : D.flatMap (refsOf b) ≠ [] := by
          intro hnil
          have : q ∈ D.flatMap (refsOf b) := by
            refine List.mem_flatMap.mpr ⟨q, hq, ?_⟩
            unfold refsOf refsIn
            exact List.mem_filterMap.mpr ⟨c, hc, by simp [hcb]⟩
          rw [hnil] at this
          cases this
        have hget := step2_get h2 b
        rw [if_neg hne] at hget
        have := canonical_total h2 h5 b _ hget
        rw [hnone] at this
        cases this

/-- … hence `relabel_with` either succeeds (with a total map, `issued_total`) or returns
`Unsupported` or an error raised inside `hash_n_degree_quads` -/
theorem relabel_outcomes (H : Str → Str) (td : Nat → Nat → Bool) (pl : Nat) (D : List Quad) :
    (∃ r, relabelWith H td pl D = .ok r) ∨ relabelWith H td pl D = .error .unsupported ∨
      ∃ he, relabelWith H td pl D = .error (.hnd he) := by
  cases h : relabelWith H td pl D with
  | ok r => exact Or.inl ⟨r, rfl⟩
  | error e =>
    rcases relabelWith_err h with ⟨he, _⟩ | ⟨he, hh⟩ | hp
    · exact Or.inr (Or.inl (by rw [he]))
    · exact Or.inr (Or.inr ⟨he, by rw [hh]⟩)
    · exact absurd (hp ▸ h) (step6_never_panics H td pl D)

end SophiaProofs.C05

namespace SophiaProofs.C05
open SophiaModel SophiaModel.Rdfc10 SophiaProofs.Rdfc10L SophiaProofs.CnqL

/-! ### soundness (isomorphic ⇒ same bytes) -/

/-- all first-degree hashes of the dataset are pairwise distinct (step 5 has nothing to do) -/
def FirstDegreeDistinct (H : Str → Str) (b2q : SMap (List Quad)) : Prop :=
  (SMap.keys (hashEntries H b2q)).Nodup

/-- **soundness when Hash N-Degree Quads is never entered**: if the first-degree hashes of `D₁`
are pairwise distinct, then every dataset isomorphic to `D₁` (blank nodes renamed by an injective
`f`, quads in any order) is canonicalised successfully to the same bytes as `D₁` — for every hash
function and all limits. -/
theorem sound_distinct_partial (H : Str → Str) (td : Nat → Nat → Bool) (pl : Nat)
    {f : Str → Str} (hf : ∀ a b, f a = f b → a = b) {D₁ D₂ : List Quad}
    (hperm : D₂.Perm (D₁.map (renameQuad f))) {b2q₁ : SMap (List Quad)} (h1 : step2 D₁ = .ok b2q₁)
    (hdist : FirstDegreeDistinct H b2q₁) :
    ∃ s, normalizeWith H td pl D₁ = .ok s ∧ normalizeWith H td pl D₂ = .ok s := by
  obtain ⟨b2q₂, h2⟩ := step2_rename_ok hperm h1
  let F : Str × List Str → Str × List Str := fun e => (e.1, e.2.map f)
  have S1 := step3_h2b H b2q₁ hdist
  have hE := hashEntries_rename H hf hperm h1 h2
  have hdist₂ : (SMap.keys (hashEntries H b2q₂)).Nodup := by
    have hk : (SMap.keys (hashEntries H b2q₂)).Perm (SMap.keys (hashEntries H b2q₁)) := by
      have := hE.map (fun e : Str × List Str => e.1)
      rw [List.map_map] at this
      exact this
    exact (List.Perm.nodup_iff hk).mpr hdist
  have S2 := step3_h2b H b2q₂ hdist₂
  have hsortedF : Sorted ((step3 H b2q₁).1.map F) := by
    unfold Sorted
    rw [List.pairwise_map]
    exact S1.1
  have hh2b : (step3 H b2q₂).1 = (step3 H b2q₁).1.map F :=
    sorted_eq_of_perm S2.1 hsortedF (S2.2.trans (hE.trans (S1.2.map F).symm))
  have hsing : ∀ e ∈ (step3 H b2q₁).1, e.2.length ≤ 1 := by
    intro e he
    have he' := S1.2.mem_iff.mp he
    unfold hashEntries at he'
    obtain ⟨e0, _, rfl⟩ := List.mem_map.mp he'
    simp
  have hrel0 : IssRel f (Issuer.new "c14n".toList) (Issuer.new "c14n".toList) :=
    ⟨rfl, wf_new _, wf_new _, rfl⟩
  obtain ⟨n1, n2, rel⟩ := step4_singletons hf (step3 H b2q₁).1 _ _ hsing hrel0
  have hc2 : canon4 H b2q₂ = step4 ((step3 H b2q₁).1.map F) (Issuer.new "c14n".toList) := by
    unfold canon4; rw [hh2b]
  obtain ⟨out₁, r₁⟩ := relabelWith_distinct (H := H) td pl h1 n1
  obtain ⟨out₂, r₂⟩ := relabelWith_distinct (H := H) td pl h2 (by rw [hc2]; exact n2)
  have a₁ := relabel_applies r₁
  have a₂ := relabel_applies r₂
  have t₁ := issued_total r₁
  have hperm_out : out₂.Perm out₁ := by
    rw [a₁, a₂]
    refine (hperm.map _).trans (List.Perm.of_eq ?_)
    rw [List.map_map]
    apply List.map_congr_left
    intro q hq
    simp only [Function.comp, applyQuad, renameQuad_comp]
    apply renameQuad_congr
    intro t ht b hb
    have hsome := t₁ q hq t ht b hb
    have hget : (canon4 H b2q₂).2.issued.get (f b) = (canon4 H b2q₁).2.issued.get b := by
      rw [hc2]
      exact issRel_get hf rel b
    cases hg : (canon4 H b2q₁).2.issued.get b with
    | none => rw [hg] at hsome; cases hsome
    | some c =>
      simp only [Function.comp, mapFun, hg, hget]
      rfl
  refine ⟨serialize (sortQuads out₁), ?_, ?_⟩
  · unfold normalizeWith; rw [r₁, bind_ok]
  · unfold normalizeWith; rw [r₂, bind_ok, serialize_sort_perm hperm_out]

/-- the hypothesis is satisfiable: the shipped `example2` (two blank nodes told apart by their
predicates) has distinct first-degree hashes under SHA-256 -/
example : ∃ b2q, step2 [⟨.iri "x:p".toList, .iri "x:q".toList, .bnode "e0".toList, none⟩,
      ⟨.iri "x:p".toList, .iri "x:r".toList, .bnode "e1".toList, none⟩] = .ok b2q ∧
    (SMap.keys (hashEntries Sha2.sha256Hex b2q)).length = 2 := by
  refine ⟨_, rfl, ?_⟩
  native_decide

/-- **soundness, unrestricted** — stated, NOT proved: isomorphic datasets are canonicalised to the
same bytes whenever canonicalisation succeeds.  Missing: (a) collision-freeness of `H` on the
inputs that occur — a cryptographic assumption, needed because nodes with equal n-degree hashes
are ordered by enumeration order (step 5.3 is a stable sort of ties) and by label order inside the
hash groups; (b) the automorphism argument "equal n-degree hashes only for nodes exchanged by an
automorphism".  The differential metamorphic oracle of the C05 harness tests exactly this
statement on the implementation. -/
def SoundFull (H : Str → Str) : Prop :=
  ∀ (td : Nat → Nat → Bool) (pl : Nat) (f : Str → Str) (D₁ D₂ : List Quad) (s₁ s₂ : Str),
    (∀ a b, f a = f b → a = b) → D₂.Perm (D₁.map (renameQuad f)) →
    normalizeWith H td pl D₁ = .ok s₁ → normalizeWith H td pl D₂ = .ok s₂ → s₁ = s₂

end SophiaProofs.C05

namespace SophiaProofs.C05
open SophiaModel SophiaModel.Rdfc10 SophiaProofs.CnqL

/-! ### the success hypotheses of the theorems above are satisfiable (real SHA-256, default limits) -/

/-- a 3-cycle through a blank graph name, with a literal: well-formed, needs Hash N-Degree Quads -/
def sample : List Quad :=
  [⟨.bnode ['a'], .iri ['x', ':', 'p'], .bnode ['b'], some (.bnode ['g'])⟩,
   ⟨.bnode ['b'], .iri ['x', ':', 'p'], .bnode ['c'], some (.bnode ['g'])⟩,
   ⟨.bnode ['c'], .iri ['x', ':', 'p'], .bnode ['a'], some (.bnode ['g'])⟩,
   ⟨.bnode ['g'], .iri ['x', ':', 'q'], .lang ['a', ' ', '"'] ['e', 'n'], none⟩]

example : ∀ q ∈ sample, QuadOK q := by
  intro q hq
  simp only [sample, List.mem_cons, List.not_mem_nil, or_false] at hq
  rcases hq with rfl | rfl | rfl | rfl <;>
    exact ⟨by simp [TermOK], by simp [TermOK], by simp [TermOK], by simp [GraphOK, TermOK, isBnode]⟩

example : (relabelWith Sha2.sha256Hex (fun d n => decide (d > n)) 6 sample).toBool = true := by native_decide
example : (normalizeWith Sha2.sha256Hex (fun d n => decide (d > n)) 6 sample).toBool = true := by native_decide

end SophiaProofs.C05

namespace SophiaProofs.C05
open SophiaModel SophiaModel.Rdfc10 SophiaProofs.Rdfc10L SophiaProofs.CnqL

/-! ### explicit errors only; the map's domain is exactly the blank nodes of the dataset -/

/-- audited flag: step 2 of rdfc10.rs rejects non-IRI predicates (regenerated from the source; a regression
flips the flag and fails this obligation — the two theorems below rely on it: with a literal predicate
`hash_related_bnode` used to panic) -/
theorem flag_predicate_must_be_iri : Gen.predicateMustBeIri = true := rfl

/-- **`relabel_with` fails only with an explicit, documented error**: for every dataset, hash function and
limits the outcome is a result, `Unsupported`, or one of the two `ToxicGraph` causes.  None of the
`unwrap()`s of `hash_related_bnode` / `hash_n_degree_quads` / step 6 can fail, and the recursion is
bounded by the number of blank nodes (the model's fuel `#labels + 1` is never exhausted): every
recursion level issues a fresh temporary identifier to a label of the dataset (`hashNDegree_safe`). -/
theorem relabel_outcomes_explicit (H : Str → Str) (td : Nat → Nat → Bool) (pl : Nat) (D : List Quad) :
    (∃ r, relabelWith H td pl D = .ok r) ∨ relabelWith H td pl D = .error .unsupported ∨
      relabelWith H td pl D = .error (.hnd .depth) ∨ relabelWith H td pl D = .error (.hnd .perms) := by
  cases h : relabelWith H td pl D with
  | ok r => exact Or.inl ⟨r, rfl⟩
  | error e =>
    rcases relabelWith_err h with ⟨he, _⟩ | ⟨he, hh⟩ | hp
    · exact Or.inr (Or.inl (by rw [he]))
    · subst hh
      rcases relabelWith_hnd_good flag_predicate_must_be_iri h with hg | hg
      · exact Or.inr (Or.inr (Or.inl (by rw [hg])))
      · exact Or.inr (Or.inr (Or.inr (by rw [hg])))
    · exact absurd (hp ▸ h) (step6_never_panics H td pl D)

theorem comp_mem_quadTerms {q : Quad} {c : Term × Str} (hc : c ∈ components q) : c.1 ∈ quadTerms q := by
  unfold components at hc
  unfold quadTerms
  rcases List.mem_append.mp hc with hc | hc
  · simp only [List.mem_cons, List.not_mem_nil, or_false] at hc
    rcases hc with rfl | rfl | rfl <;> simp
  · cases hg : q.g with
    | none => rw [hg] at hc; cases hc
    | some g =>
      rw [hg] at hc
      simp only [List.mem_cons, List.not_mem_nil, or_false] at hc
      subst hc
      simp [hg]

/-- **the domain of the returned map is exactly the set of blank node labels of the dataset** (with
`issued_bij`: the number of issued identifiers is the number of blank nodes) -/
theorem issued_dom_iff {H : Str → Str} {td : Nat → Nat → Bool} {pl : Nat} {D out : List Quad} {m : SMap Str}
    (h : relabelWith H td pl D = .ok (out, m)) (b : Str) : (m.get b).isSome = true ↔ IsLabel D b := by
  constructor
  · intro hb
    obtain ⟨b2q, h2, hk⟩ := relabelWith_canonKeys flag_predicate_must_be_iri h
    have := hk b hb
    rw [step2_get h2 b] at this
    by_cases hnil : D.flatMap (refsOf b) = []
    · rw [if_pos hnil] at this; cases this
    · obtain ⟨q, hq, c, hc, hcb⟩ := (refs_ne_nil_iff D b).mp hnil
      exact ⟨q, hq, hcb ▸ comp_mem_quadTerms hc⟩
  · rintro ⟨q, hq, ht⟩
    exact issued_total h q hq _ ht b rfl

end SophiaProofs.C05

namespace SophiaProofs.C05
open SophiaModel SophiaModel.Rdfc10 SophiaProofs.Rdfc10L SophiaProofs.CnqL

/-! ### the unrestricted soundness direction is FALSE for the algorithm as specified

Finding C05-rdfc10-ambiguous-tie.  `_:x` and `_:y` below differ only in WHICH IRI-named graph links
them to `_:h` and to `_:m` (`_:m` carries an extra quad, so no automorphism exchanges x and y).
Hash Related Blank Node hashes position, predicate and identifier of the related node — not the
graph name of the quad — so x and y get equal first-degree and equal n-degree hashes and step 5.3
orders them by label.  Swapping the two labels therefore changes the canonical document. -/

def tieDataset (x y : String) : List Quad :=
  let b (s : String) : Term := .bnode s.toList
  let i (s : String) : Term := .iri s.toList
  [⟨b "h", i "x:q", b x, some (i "x:g0")⟩, ⟨b "h", i "x:q", b y, some (i "x:g1")⟩,
   ⟨b "m", i "x:q", b x, some (i "x:g1")⟩, ⟨b "m", i "x:q", b y, some (i "x:g0")⟩,
   ⟨b "m", i "x:r", i "x:o", none⟩]

/-- the renaming that exchanges the labels `x` and `y` -/
def swapXY (l : Str) : Str := if l = ['x'] then ['y'] else if l = ['y'] then ['x'] else l

theorem swapXY_invol (l : Str) : swapXY (swapXY l) = l := by
  unfold swapXY
  by_cases h1 : l = ['x']
  · subst h1; decide
  · by_cases h2 : l = ['y']
    · subst h2; decide
    · simp [h1, h2]

theorem swapXY_inj (a b : Str) (h : swapXY a = swapXY b) : a = b := by
  rw [← swapXY_invol a, ← swapXY_invol b, h]

/-- both labelings are canonicalised successfully (SHA-256, no limits hit) to DIFFERENT documents -/
def tieDiffers : Bool :=
  match normalizeWith Sha2.sha256Hex (fun _ _ => false) 6 (tieDataset "x" "y"),
        normalizeWith Sha2.sha256Hex (fun _ _ => false) 6 ((tieDataset "x" "y").map (renameQuad swapXY)) with
  | .ok a, .ok b => a != b
  | _, _ => false

/-- **`SoundFull` is refuted** for SHA-256 (native evaluation of the model the driver executes; the
implementation agrees with the model on this input in every run: corpus/C05/graph-iri-tie.req) -/
theorem soundFull_refuted : ¬ SoundFull Sha2.sha256Hex := by
  intro h
  have hd : tieDiffers = true := by native_decide
  unfold tieDiffers at hd
  cases h1 : normalizeWith Sha2.sha256Hex (fun _ _ => false) 6 (tieDataset "x" "y") with
  | error e => rw [h1] at hd; cases hd
  | ok a =>
    cases h2 : normalizeWith Sha2.sha256Hex (fun _ _ => false) 6 ((tieDataset "x" "y").map (renameQuad swapXY)) with
    | error e => rw [h1, h2] at hd; cases hd
    | ok b =>
      rw [h1, h2] at hd
      have := h (fun _ _ => false) 6 swapXY (tieDataset "x" "y") ((tieDataset "x" "y").map (renameQuad swapXY)) a b
        swapXY_inj (List.Perm.refl _) h1 h2
      rw [this] at hd
      simp at hd

end SophiaProofs.C05

namespace SophiaProofs.C05
open SophiaModel SophiaModel.Rdfc10 SophiaProofs.Rdfc10L SophiaProofs.CnqL

/-! ### the well-formedness hypothesis is what the toolkit's validators guarantee -/

/-- **`TermOK` is discharged for validated terms**: every term whose IRI / blank node label / language
tag / datatype is accepted by the regexes regenerated from /repo (`IriRef::new`, `BnodeId::new`,
`LanguageTag::new`) satisfies the hypothesis of `complete`, `sorted_is_line_order`,
`impl_eq_spec_partial` (three regex-disjointness obligations decided by the verified procedure
`decideDisj`, evaluated natively as in C09) -/
theorem validated_terms_wellformed {t : Term} (h : Validated t) : TermOK t := termOK_of_validated h

/-- quads of a dataset built through the validating constructors, graph names IRIs or blank nodes -/
structure ValidQuad (q : Quad) : Prop where
  s : Validated q.s
  p : Validated q.p
  o : Validated q.o
  g : match q.g with
    | none => True
    | some g => Validated g ∧ (isBnode g = true ∨ ∃ s, g = .iri s)

theorem quadOK_of_valid {q : Quad} (h : ValidQuad q) : QuadOK q where
  s := termOK_of_validated h.s
  p := termOK_of_validated h.p
  o := termOK_of_validated h.o
  g := by
    have hg := h.g
    unfold GraphOK
    cases hq : q.g with
    | none => trivial
    | some g => rw [hq] at hg; exact ⟨termOK_of_validated hg.1, hg.2⟩

/-- **completeness for datasets of validated terms** (no hypothesis beyond what the toolkit's
constructors enforce): equal canonical bytes ⇒ isomorphic -/
theorem complete_validated {H : Str → Str} {td td' : Nat → Nat → Bool} {pl pl' : Nat} {D₁ D₂ : List Quad} {s : Str}
    (v₁ : ∀ q ∈ D₁, ValidQuad q) (v₂ : ∀ q ∈ D₂, ValidQuad q)
    (h₁ : normalizeWith H td pl D₁ = .ok s) (h₂ : normalizeWith H td' pl' D₂ = .ok s) : Iso D₁ D₂ :=
  complete (fun q hq => quadOK_of_valid (v₁ q hq)) (fun q hq => quadOK_of_valid (v₂ q hq)) h₁ h₂

/-- non-vacuity: a validated quad with a blank graph name and a language-tagged literal -/
example : ValidQuad ⟨.bnode "b0".toList, .iri "http://ex.org/p".toList, .lang "chat".toList "fr-BE".toList, some (.bnode "g".toList)⟩ :=
  ⟨by show Re.matchB _ _ = true; native_decide, by show Re.matchB _ _ = true; native_decide,
   by show Re.matchB _ _ = true; native_decide, ⟨by show Re.matchB _ _ = true; native_decide, Or.inl rfl⟩⟩

end SophiaProofs.C05
