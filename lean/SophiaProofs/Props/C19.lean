/-
C19 — the local resource loader never reads outside its configured directories.

All theorems are about `SophiaModel.Loader.getG` (of which `getW` = code as written, `get'` = repaired
code, `getCur` = what the extractor found in /repo; the driver executes `getCur`), for ALL
configurations, file systems, IRIs and recursion depths.  Symbolic links are outside the model.

The full statement `Confined (getW f)` is FALSE for the code as written: `confined_refuted`
(kernel-checked witnesses `escape_dotdot`, `escape_absolute`).  What does hold:
`confined_partial` (under the decidable side condition `SafeIri`), `retry_confined`,
`pct_not_decoded`, and — for the minimal repair — `confined_repaired` outright.
-/
import SophiaProofs.Lemmas.Loader
import SophiaModel.Gen.LoaderSites

namespace SophiaProofs.C19
open SophiaModel SophiaModel.Loader SophiaProofs.Loader

/-- THE PROPERTY: whenever a loader built by `LocalLoader::new` returns bytes, the path it opened
denotes a location inside the directory of a configured pair whose namespace prefixes the IRI. -/
def Confined (g : Cfg → FS → Str → Outcome) : Prop :=
  ∀ (fs : FS) (caches : List (Str × Str)) (cfg : Cfg) (iri p d ct : Str),
    Loader.new fs caches = .ok cfg → g cfg fs iri = .ok p d ct → ConfinedAt cfg iri p

/-! ### the file system: bytes come from the lexically resolved location -/

/-- `fs::read` returns the content of the file at `osResolve p` (no symlinks): `Inside`/`ConfinedAt`,
which talk about `osResolve`, therefore talk about the file whose bytes are returned. -/
theorem read_reads_resolved (fs : FS) (p d : Str) (h : osRead fs p = .ok d) :
    fs.lookup (osResolve p) = some (.file d) := by
  unfold osRead at h
  split at h
  · rename_i loc d' hs
    injection h with h; subst h
    unfold stat at hs
    split at hs
    · cases hs
    · split at hs
      · cases hs
      · obtain ⟨h1, h2⟩ := walk_file fs _ _ _ _ hs
        unfold osResolve; rw [← h1]; exact h2
  · cases h
  · cases h

/-- `LocalLoader::new` keeps the pairs and establishes the invariant used below -/
theorem new_ok_cfg (fs : FS) : ∀ (caches : List (Str × Str)) (cfg : Cfg),
    Loader.new fs caches = .ok cfg → cfg = caches ∧ CfgOk cfg := by
  intro caches
  induction caches with
  | nil => intro cfg h; simp [Loader.new] at h; subst h; exact ⟨rfl, by intro nd h; cases h⟩
  | cons nd rest ih =>
    intro cfg h
    unfold Loader.new at h
    split at h
    · cases h
    · rename_i x hx
      split at h
      · cases h
      · rename_i xs hxs
        injection h with h; subst h
        obtain ⟨e, hok⟩ := ih xs hxs
        unfold check at hx
        split at hx
        · cases hx
        · rename_i h1
          split at hx
          · cases hx
          · rename_i h2
            split at hx
            · cases hx
            · injection hx with hx; subst hx
              refine ⟨by rw [e], ?_⟩
              intro y hy
              rcases List.mem_cons.1 hy with hy | hy
              · subst hy; exact ⟨by simpa using h1, by simpa using h2⟩
              · exact hok y hy

/-! ### where `get` opens: the characterisation everything else follows from -/

theorem getG_eq_step (P : Params) (n : Nat) (cfg : Cfg) (fs : FS) :
    ∃ r, ∀ iri, getG P n cfg fs iri = getStep P r cfg fs iri := by
  cases n with
  | zero => exact ⟨_, fun _ => rfl⟩
  | succ n => exact ⟨_, fun _ => rfl⟩

/-- If `get` returns bytes it matched the FIRST namespace prefixing the fragment-less IRI, and opened
exactly `dir.join(rem)` or, after a `NotFound` on an extension-less IRI, `dir.join(rem ++ "." ++ ext)`
for an extension of the generated list; with the guard, that remainder passed the guard. -/
theorem getG_opened {P : Params} {n : Nat} {cfg : Cfg} {fs : FS} {iri0 p d ct : Str}
    (hc : CfgOk cfg) (h : getG P n cfg fs iri0 = .ok p d ct) :
    ∃ ns dir rem', findNs cfg (stripFragment iri0) = some (ns, dir) ∧ p = joinPath dir rem' ∧
      osRead fs p = .ok d ∧
      (rem' = (stripFragment iri0).drop ns.length ∨
        ∃ ext ∈ activeExts P.feats, noExt (stripFragment iri0) = true ∧
          rem' = (stripFragment iri0).drop ns.length ++ '.' :: ext) ∧
      (P.guard = true → safeRem rem' = true) := by
  cases n with
  | zero =>
    obtain ⟨ns, dir, hf, h' | h'⟩ := getStep_ok (show getStep P _ cfg fs iri0 = _ from h)
    · exact ⟨ns, dir, _, hf, h'.1, h'.2.1, Or.inl rfl, h'.2.2⟩
    · obtain ⟨_, _, ext, _, he⟩ := h'; cases he
  | succ n =>
    obtain ⟨ns, dir, hf, h' | h'⟩ := getStep_ok (show getStep P _ cfg fs iri0 = _ from h)
    · exact ⟨ns, dir, _, hf, h'.1, h'.2.1, Or.inl rfl, h'.2.2⟩
    · obtain ⟨hne, _, ext, hext, he⟩ := h'
      have hok := activeExts_ok P.feats ext hext
      obtain ⟨_, hs, _, _⟩ := extOk_spec hok
      have hns : '/' ∉ ('.' :: ext) := by simp [hs]
      obtain ⟨r, hr⟩ := getG_eq_step P n cfg fs
      rw [hr] at he
      obtain ⟨ns', dir', hf', h'' | h''⟩ := getStep_ok he
      · rw [strip_alt _ _ hok, findNs_alt cfg hc _ _ hns, hf] at hf'
        injection hf' with hf'; injection hf' with e1 e2; subst e1; subst e2
        have hle : ns.length ≤ (stripFragment iri0).length := (findNs_some hf).2.length_le
        rw [strip_alt _ _ hok, List.drop_append_of_le_length hle] at h''
        exact ⟨ns, dir, _, hf, h''.1, h''.2.1, Or.inr ⟨ext, hext, hne, rfl⟩, h''.2.2⟩
      · rw [strip_alt _ _ hok, noExt_alt _ _ hok] at h''
        cases h''.1

/-- the remainder-level core: a safe remainder, also after the retry suffix, is opened below `dir` -/
theorem opened_inside {P : Params} {n : Nat} {cfg : Cfg} {fs : FS} {iri0 p d ct : Str}
    (hc : CfgOk cfg) (h : getG P n cfg fs iri0 = .ok p d ct)
    (hsafe : P.guard = true ∨ SafeIri cfg iri0) : ConfinedAt cfg iri0 p := by
  obtain ⟨ns, dir, rem', hf, hp, _, hrem, hg⟩ := getG_opened hc h
  obtain ⟨hmem, hpre⟩ := findNs_some hf
  refine ⟨(ns, dir), hmem, hpre, ?_⟩
  rw [hp]
  apply inside_join
  rcases hsafe with hguard | hsafe
  · exact hg hguard
  · have h0 : safeRem ((stripFragment iri0).drop ns.length) = true :=
      hsafe _ (by simp [remainder, hf])
    rcases hrem with e | ⟨ext, hext, _, e⟩
    · rw [e]; exact h0
    · rw [e]; exact safeRem_ext _ _ h0 (activeExts_ok P.feats ext hext)

/-! ### the theorems -/

/-- **confined_partial** (code as written, repaired code, any depth): if the remainder of the IRI after
the first matching namespace has no `..` component and does not start with '/', whatever `get`
returns was read inside the matched directory — including through the extension retry loop. -/
theorem confined_partial (P : Params) (n : Nat) (cfg : Cfg) (fs : FS) (iri p d ct : Str)
    (hc : CfgOk cfg) (hs : SafeIri cfg iri) (h : getG P n cfg fs iri = .ok p d ct) :
    ConfinedAt cfg iri p :=
  opened_inside hc h (Or.inr hs)

/-- **retry_confined**: every alternative IRI `iri.ext` fetched by the conneg loop for a safe IRI is
itself read inside a directory whose namespace prefixes the ORIGINAL IRI. -/
theorem retry_confined (P : Params) (n : Nat) (cfg : Cfg) (fs : FS) (iri ext p d ct : Str)
    (hc : CfgOk cfg) (hs : SafeIri cfg iri) (hext : ext ∈ activeExts P.feats)
    (h : getG P n cfg fs (stripFragment iri ++ '.' :: ext) = .ok p d ct) :
    ConfinedAt cfg iri p := by
  have hok := activeExts_ok P.feats ext hext
  obtain ⟨_, hsl, _, _⟩ := extOk_spec hok
  have hns : '/' ∉ ('.' :: ext) := by simp [hsl]
  have hsafe' : SafeIri cfg (stripFragment iri ++ '.' :: ext) := by
    intro rem hrem
    unfold remainder at hrem
    rw [strip_alt _ _ hok, findNs_alt cfg hc _ _ hns] at hrem
    cases hf : findNs cfg (stripFragment iri) with
    | none => rw [hf] at hrem; cases hrem
    | some nd =>
      rw [hf] at hrem
      injection hrem with hrem
      dsimp only at hrem
      have hle : nd.1.length ≤ (stripFragment iri).length := (findNs_some hf).2.length_le
      rw [List.drop_append_of_le_length hle] at hrem
      rw [← hrem]
      exact safeRem_ext _ _ (hs _ (by simp [remainder, hf])) hok
  obtain ⟨nd, hmem, hpre, hin⟩ := opened_inside hc h (Or.inr hsafe')
  rw [strip_alt _ _ hok] at hpre
  exact ⟨nd, hmem, prefix_of_prefix_append (hc nd hmem).1 hns hpre, hin⟩

/-- **confined_repaired**: the repaired `get'` (reject a remainder with a `..` or root component,
notes/fixes/C19-confine.diff) satisfies the full property, for every IRI. -/
theorem confined_repaired (f : Features) : Confined (get' f) := by
  intro fs caches cfg iri p d ct hnew h
  exact opened_inside (new_ok_cfg fs caches cfg hnew).2 h (Or.inl rfl)

/-- the full property for whatever the extractor found in /repo, provided it found the guard there -/
theorem confined_of_guard (f : Features) (hg : Gen.LoaderExts.guardPresent = true) :
    Confined (getCur f) := by
  intro fs caches cfg iri p d ct hnew h
  exact opened_inside (new_ok_cfg fs caches cfg hnew).2 h (Or.inl hg)

/-- **guard_present**: the table regenerated from /repo's `_local.rs` on every run says that `get` rejects
remainders with a `..`/root component.  If the guard disappears from /repo (or is rewritten into
something the extractor does not recognise as equivalent) THIS obligation fails. -/
theorem guard_present : Gen.LoaderExts.guardPresent = true := by decide

/-- **confined_current**: THE PROPERTY, unconditionally, for the code currently in /repo (`getCur` is what
the driver executes against the real `LocalLoader::get`), every feature set, every IRI. -/
theorem confined_current (f : Features) : Confined (getCur f) := confined_of_guard f guard_present

/-- the dichotomy behind `confined_current`: the generated flag decides the property either way -/
theorem current_status :
    (Gen.LoaderExts.guardPresent = true ∧ ∀ f, Confined (getCur f)) ∨
    (Gen.LoaderExts.guardPresent = false ∧ ¬ Confined (getCur allFeats)) :=
  Or.inl ⟨guard_present, confined_current⟩

/-! ### the property in terms of FILES: the bytes returned are the content of a file below the directory -/

/-- the bytes `d` are the content of a file located at or below the directory of a configured pair whose
namespace prefixes the fragment-less IRI (`lookup` is the abstract file system: no symlinks) -/
def ConfinedFile (cfg : Cfg) (fs : FS) (iri0 d : Str) : Prop :=
  ∃ nd ∈ cfg, nd.1 <+: stripFragment iri0 ∧
    ∃ loc, osResolve nd.2 <+: loc ∧ fs.lookup loc = some (.file d)

/-- **confined_files**: "either reports an error or returns the content of a file located inside the
directory mapped to a configured namespace that prefixes the IRI" — for the code in /repo, all inputs. -/
theorem confined_files (f : Features) (fs : FS) (caches : List (Str × Str)) (cfg : Cfg) (iri p d ct : Str)
    (hnew : Loader.new fs caches = .ok cfg) (h : getCur f cfg fs iri = .ok p d ct) :
    ConfinedFile cfg fs iri d := by
  obtain ⟨nd, hmem, hpre, hin⟩ := confined_current f fs caches cfg iri p d ct hnew h
  obtain ⟨_, _, _, _, hp, hread, _, _⟩ := getG_opened (new_ok_cfg fs caches cfg hnew).2 h
  exact ⟨nd, hmem, hpre, osResolve p, hin, read_reads_resolved fs p d hread⟩

/-! ### every loader a program can hold: `default`, `new`, `add` -/

theorem check_ok {fs : FS} {nd x : Str × Str} (h : check fs nd = .ok x) :
    x = nd ∧ nd.1.getLast? = some '/' ∧ nd.2.head? = some '/' ∧ isDir fs nd.2 = true := by
  unfold check at h
  split at h
  · cases h
  · rename_i h1
    split at h
    · cases h
    · rename_i h2
      split at h
      · cases h
      · rename_i h3
        injection h with h
        exact ⟨h.symm, by simpa using h1, by simpa using h2, by simpa using h3⟩

/-- **reachable_cfgOk**: the hypothesis `CfgOk` of `confined_partial` / `retry_confined` / `getG_opened`
(namespaces end with '/', directories are absolute) holds in EVERY state of a `LocalLoader`:
`Default`, `new` and `add` are the only writers of the private `caches` field. -/
theorem reachable_cfgOk {fs : FS} {cfg : Cfg} (h : Reachable fs cfg) : CfgOk cfg := by
  induction h with
  | default => intro nd h; cases h
  | new hn => exact (new_ok_cfg fs _ _ hn).2
  | add _ ha ih =>
    unfold Loader.add at ha
    split at ha
    · cases ha
    · rename_i x hx
      injection ha with ha; subst ha
      obtain ⟨e, h1, h2, _⟩ := check_ok hx
      intro y hy
      rcases List.mem_append.1 hy with hy | hy
      · exact ih y hy
      · rw [List.mem_singleton.1 hy, e]; exact ⟨h1, h2⟩

/-- `CfgOk` is also NECESSARY: with a namespace that does not end in '/' (which `check` refuses) the
retried IRI `iri.ttl` is served by a DIFFERENT pair than the one that matched `iri`, from a directory whose
namespace does not prefix `iri` — the guarded `get` itself is not confined on such a configuration. -/
theorem cfgOk_necessary :
    let cfg : Cfg := [("http://ex.org/ns/a.t".toList, "/srv/secret".toList), ("http://ex.org/ns/".toList, "/srv/data".toList)]
    let fs : FS := ⟨[(["srv".toList, "data".toList], .dir), (["srv".toList, "secret".toList, "tl".toList], .file "S".toList)]⟩
    ¬ CfgOk cfg ∧
      getCur allFeats cfg fs "http://ex.org/ns/a".toList = .ok "/srv/secret/tl".toList "S".toList "text/turtle".toList ∧
      ¬ ConfinedAt cfg "http://ex.org/ns/a".toList "/srv/secret/tl".toList := by
  refine ⟨?_, by decide, by decide⟩
  intro h
  have := (h _ (List.mem_cons_self ..)).1
  revert this; decide

/-- **confined_reachable**: THE PROPERTY (path level and file level) for every reachable loader state. -/
theorem confined_reachable (f : Features) (fs : FS) (cfg : Cfg) (iri p d ct : Str)
    (hR : Reachable fs cfg) (h : getCur f cfg fs iri = .ok p d ct) :
    ConfinedAt cfg iri p ∧ ConfinedFile cfg fs iri d := by
  have hc := reachable_cfgOk hR
  obtain ⟨nd, hmem, hpre, hin⟩ := opened_inside hc h (Or.inl guard_present)
  obtain ⟨_, _, _, _, hp, hread, _, _⟩ := getG_opened hc h
  exact ⟨⟨nd, hmem, hpre, hin⟩, nd, hmem, hpre, osResolve p, hin, read_reads_resolved fs p d hread⟩

/-! ### IRIs that come from links followed in loaded data -/

theorem stripFragment_idem (s : Str) : stripFragment (stripFragment s) = stripFragment s :=
  strip_of_no_hash _ (hash_not_mem_strip s)

/-- `ConfinedAt` only looks at the fragment-less IRI -/
theorem confinedAt_strip (cfg : Cfg) (iri p : Str) :
    ConfinedAt cfg (stripFragment iri) p ↔ ConfinedAt cfg iri p := by
  unfold ConfinedAt; rw [stripFragment_idem]

theorem confinedFile_strip (cfg : Cfg) (fs : FS) (iri d : Str) :
    ConfinedFile cfg fs (stripFragment iri) d ↔ ConfinedFile cfg fs iri d := by
  unfold ConfinedFile; rw [stripFragment_idem]

/-- **link_confined**: whatever `Resource::get_neighbour` reads when it follows an IRI `t` found in loaded
data, with any notion of "absolute IRI" and any current base, in any reachable loader state, was read
inside a directory whose namespace prefixes `t`: a link has exactly the power of a caller-supplied IRI. -/
theorem link_confined (f : Features) (isAbs : Str → Bool) (fs : FS) (cfg : Cfg)
    (base : Option Str) (t p d ct : Str) (hR : Reachable fs cfg)
    (h : getNeighbour isAbs (getCur f) cfg fs base t = .loaded (.ok p d ct)) :
    ConfinedAt cfg t p ∧ ConfinedFile cfg fs t d := by
  unfold getNeighbour at h
  split at h
  · cases h
  · split at h
    · split at h
      · injection h with h
        unfold getResourceRead at h
        obtain ⟨h1, h2⟩ := confined_reachable f fs cfg _ p d ct hR h
        rw [confinedAt_strip, confinedAt_strip] at h1
        rw [confinedFile_strip, confinedFile_strip] at h2
        exact ⟨h1, h2⟩
      · cases h
    · cases h

/-- **ctx_confined**: a remote JSON-LD context handed to the JSON-LD processor by the document loader that
`get_graph` installs is the content of a file inside a directory whose namespace prefixes its URL. -/
theorem ctx_confined (f : Features) (fs : FS) (cfg : Cfg) (url p d : Str)
    (hR : Reachable fs cfg) (h : ctxFetch (getCur f) cfg fs url = some (p, d)) :
    ConfinedAt cfg url p ∧ ConfinedFile cfg fs url d := by
  unfold ctxFetch at h
  split at h
  · rename_i p' d' ct hg
    split at h
    · injection h with h; injection h with e1 e2; subst e1; subst e2
      exact confined_reachable f fs cfg url _ _ ct hR hg
    · cases h
  · cases h

/-! ### every entry point of `Resource` that follows links -/

theorem getAllTerms_occurs {r : Res} {p x : RTerm} (h : x ∈ getAllTerms r p) : Occurs r.graph x := by
  unfold getAllTerms at h
  obtain ⟨t, ht, e⟩ := List.mem_map.1 h
  exact ⟨t, (List.mem_filter.1 ht).1, Or.inr (Or.inr e.symm)⟩

theorem predAllTerms_occurs {r : Res} {p x : RTerm} (h : x ∈ predAllTerms r p) : Occurs r.graph x := by
  unfold predAllTerms at h
  obtain ⟨t, ht, e⟩ := List.mem_map.1 h
  exact ⟨t, (List.mem_filter.1 ht).1, Or.inl e.symm⟩

theorem unique_mem {α : Type} {l : List α} {x : α} (h : unique l = .ok x) : x ∈ l := by
  match l, h with
  | [y], h => simp [unique] at h; simp [h]

theorem ladderTerms_occurs (first rest : RTerm) : ∀ (n : Nat) (c : Res) (x : RTerm),
    x ∈ ladderTerms first rest n c → Occurs c.graph x := by
  intro n
  induction n with
  | zero => intro c x h; cases h
  | succ n ih =>
    intro c x h
    unfold ladderTerms at h
    split at h
    · cases h
    · rename_i v hv
      have hvo : Occurs c.graph v := getAllTerms_occurs (unique_mem hv)
      split at h
      · rw [List.mem_singleton.1 h]; exact hvo
      · cases h
      · rename_i nx _
        rcases List.mem_cons.1 h with h | h
        · rw [h]; exact hvo
        · exact ih { c with id := nx } x h

theorem getTermItems_occurs {r : Res} {p x : RTerm} {fuel : Nat} (h : x ∈ getTermItems r p fuel) :
    Occurs r.graph x := by
  unfold getTermItems at h
  split at h
  · rename_i id _
    exact ladderTerms_occurs _ _ fuel { r with id := id } x h
  · cases h

/-- one `get_neighbour` call that read something read it inside the directory of a pair whose namespace
prefixes the IRI term it was given -/
theorem neighbour_confined (f : Features) (isAbs : Str → Bool) (fs : FS) (cfg : Cfg) (r : Res) (x : RTerm)
    (p d ct : Str) (hR : Reachable fs cfg)
    (h : neighbour ⟨isAbs, getCur f, cfg, fs⟩ r x = .loaded (.ok p d ct)) :
    ∃ t, x = .iri t ∧ ConfinedAt cfg t p ∧ ConfinedFile cfg fs t d := by
  cases x with
  | iri t => exact ⟨t, rfl, link_confined f isAbs fs cfg r.base t p d ct hR h⟩
  | bnode _ => cases h
  | lit _ => cases h

/-- everything any link-following entry point of `Resource` can perform on resource `r` for predicate `q` -/
def allFollows (E : Env) (r : Res) (q : RTerm) (fuel : Nat) : List Follow :=
  getAllResources E r q ++ predAllResources E r q ++ getResourceItems E r q fuel

/-- the calls performed by the unique-value / any-value entry points are among those of the all-values ones -/
theorem performed_subset (E : Env) (r : Res) (q : RTerm) (fuel : Nat) (F : Follow)
    (h : F ∈ (getResource E r q).2 ∨ F ∈ (getAnyResource E r q).2 ∨ F ∈ (predResource E r q).2 ∨
      F ∈ (predAnyResource E r q).2) : F ∈ allFollows E r q fuel := by
  unfold allFollows getAllResources predAllResources
  have sub : ∀ (k : Nat) (l : List RTerm), F ∈ (l.take k).map (neighbour E r) → F ∈ l.map (neighbour E r) := by
    intro k l hm
    obtain ⟨t, ht, e⟩ := List.mem_map.1 hm
    exact List.mem_map.2 ⟨t, List.mem_of_mem_take ht, e⟩
  rcases h with h | h | h | h
  · exact List.mem_append.2 (Or.inl (List.mem_append.2 (Or.inl (sub 2 _ h))))
  · exact List.mem_append.2 (Or.inl (List.mem_append.2 (Or.inl (sub 1 _ h))))
  · exact List.mem_append.2 (Or.inl (List.mem_append.2 (Or.inr (sub 2 _ h))))
  · exact List.mem_append.2 (Or.inl (List.mem_append.2 (Or.inr (sub 1 _ h))))

/-- **resource_reads_confined** ("... and whether it comes from the caller or from links followed in
loaded data"): whatever `get_resource`, `get_any_resource`, `get_all_resources`, `pred_resource`,
`pred_any_resource`, `pred_all_resources`, `get_resource_items` (any number of steps; and hence their
`_typed` variants, which convert the same `Resource`s) read while following links from ANY graph, for any
resource, predicate, base and reachable loader state, is the content of a file inside the directory of a
pair whose namespace prefixes an IRI that OCCURS IN THE GRAPH. -/
theorem resource_reads_confined (f : Features) (isAbs : Str → Bool) (fs : FS) (cfg : Cfg) (r : Res)
    (q : RTerm) (fuel : Nat) (p d ct : Str) (hR : Reachable fs cfg)
    (h : .loaded (.ok p d ct) ∈ allFollows ⟨isAbs, getCur f, cfg, fs⟩ r q fuel) :
    ∃ t, Occurs r.graph (.iri t) ∧ ConfinedAt cfg t p ∧ ConfinedFile cfg fs t d := by
  unfold allFollows getAllResources predAllResources getResourceItems at h
  have key : ∀ l : List RTerm, (∀ x ∈ l, Occurs r.graph x) →
      Follow.loaded (.ok p d ct) ∈ l.map (neighbour ⟨isAbs, getCur f, cfg, fs⟩ r) →
      ∃ t, Occurs r.graph (.iri t) ∧ ConfinedAt cfg t p ∧ ConfinedFile cfg fs t d := by
    intro l hl hm
    obtain ⟨x, hx, e⟩ := List.mem_map.1 hm
    obtain ⟨t, et, h1, h2⟩ := neighbour_confined f isAbs fs cfg r x p d ct hR e
    exact ⟨t, et ▸ hl x hx, h1, h2⟩
  rcases List.mem_append.1 h with h | h
  · rcases List.mem_append.1 h with h | h
    · exact key _ (fun x hx => getAllTerms_occurs hx) h
    · exact key _ (fun x hx => predAllTerms_occurs hx) h
  · exact key _ (fun x hx => getTermItems_occurs hx) h

/-! ### the "no symbolic links" assumption: exact, and necessary -/

theorem getStepR_osRead (P : Params) (recur : Str → Outcome) (cfg : Cfg) (fs : FS) (iri : Str) :
    getStepR P (osRead fs) recur cfg iri = getStep P recur cfg fs iri := rfl

/-- without links the walk with symbolic links IS the walk of the model, given fuel for every component -/
theorem walkL_no_links (fs : FS) : ∀ (comps : List Str) (n : Nat) (cur : List Str),
    comps.length < n → walkL ⟨fs, []⟩ n cur comps = walk fs cur comps := by
  intro comps
  induction comps with
  | nil =>
    intro n cur h
    cases n with
    | zero => cases h
    | succ n => simp [walkL, walk]
  | cons c rest ih =>
    intro n cur h
    cases n with
    | zero => cases h
    | succ n =>
      have h' : rest.length < n := by simpa using h
      rw [walkL, walk]
      simp only [FSL.linkAt, List.find?_nil, Option.map_none, ih n _ h']

theorem splitSlash_length (s : Str) : (splitSlash s).length ≤ s.length + 1 := by
  induction s with
  | nil => simp [splitSlash]
  | cons c cs ih =>
    unfold splitSlash
    split
    · simp; omega
    · have : (consHead c (splitSlash cs)).length = (splitSlash cs).length := by
        cases h : splitSlash cs with
        | nil => exact absurd h (splitSlash_ne_nil cs)
        | cons a b => simp [consHead]
      rw [this]; simp; omega

theorem length_le_utf8Len (s : Str) : s.length ≤ utf8Len s := by
  induction s with
  | nil => simp [utf8Len]
  | cons c cs ih =>
    have : 1 ≤ c.utf8Size := Char.utf8Size_pos c
    simp [utf8Len] at ih ⊢; omega

/-- **osReadL_no_links**: on a file system without links, `read` with symlink resolution is the model's
`read`, for EVERY path (fuel beyond PATH_MAX suffices: longer paths are ENAMETOOLONG either way) -/
theorem osReadL_no_links (fs : FS) (fuel : Nat) (hf : PATH_MAX < fuel) (p : Str) :
    osReadL ⟨fs, []⟩ fuel p = osRead fs p := by
  unfold osReadL osRead statL stat
  by_cases h0 : '\x00' ∈ p
  · simp [h0]
  · by_cases h1 : utf8Len p ≥ PATH_MAX
    · simp [h0, h1]
    · have hl : (splitSlash p).length < fuel := by
        have := splitSlash_length p; have := length_le_utf8Len p; omega
      simp only [h0, h1, if_false, walkL_no_links fs _ fuel [] hl]

/-- **getCurL_no_links**: the model with symbolic links restricted to link-free file systems is the model
all the theorems are about — "symlinks excluded" is the ONLY difference between the two. -/
theorem getCurL_no_links (f : Features) (cfg : Cfg) (fs : FS) (fuel : Nat) (hf : PATH_MAX < fuel) (iri : Str) :
    getCurL f cfg ⟨fs, []⟩ fuel iri = getCur f cfg fs iri := by
  have e : osReadL ⟨fs, []⟩ fuel = osRead fs := funext (osReadL_no_links fs fuel hf)
  unfold getCurL
  rw [e]
  rfl

/-- **reads_only_in_get**: the premise under which the theorems about `get` speak for the whole crate —
the only file-system accesses of `sophia_resource` (table regenerated from every non-test source file of
resource/src: `fs::`, `File::`, `read*`, `metadata`, `is_dir`, `exists`, `canonicalize`, `include_*!`,
process/net/os/libc/`unsafe` tokens) are `check`'s `is_dir` and the single `read(..)` inside `get`. -/
theorem reads_only_in_get :
    Gen.LoaderSites.sites =
      [("loader/_local.rs", ".is_dir(", 1), ("loader/_local.rs", "read(", 1), ("loader/_local.rs", "std::fs::read", 1)] ∧
    Gen.LoaderSites.readCallsInGet = 1 := by decide

/-! ### refutation of the full statement for the code as written -/

def wCfg : Cfg := [("http://ex.org/ns/".toList, "/srv/data".toList)]
def wFs : FS := ⟨[(["srv".toList, "data".toList], .dir),
                  (["srv".toList, "data".toList, "a.ttl".toList], .file "A".toList),
                  (["srv".toList, "secret.ttl".toList], .file "S".toList),
                  (["etc".toList, "passwd".toList], .file "root:x:0:0".toList)]⟩

/-- `ns ++ "../secret.ttl"` is read from outside the configured directory -/
theorem escape_dotdot :
    Loader.new wFs wCfg = .ok wCfg ∧
    getW allFeats wCfg wFs "http://ex.org/ns/../secret.ttl".toList
      = .ok "/srv/data/../secret.ttl".toList "S".toList "text/turtle".toList ∧
    ¬ ConfinedAt wCfg "http://ex.org/ns/../secret.ttl".toList "/srv/data/../secret.ttl".toList :=
  ⟨by rfl, by decide, by decide⟩

/-- `ns ++ "/abs/path"`: an absolute remainder REPLACES the directory in `PathBuf::join` -/
theorem escape_absolute :
    getW allFeats wCfg wFs "http://ex.org/ns//etc/passwd".toList
      = .ok "/etc/passwd".toList "root:x:0:0".toList "application/octet-stream".toList ∧
    ¬ ConfinedAt wCfg "http://ex.org/ns//etc/passwd".toList "/etc/passwd".toList :=
  ⟨by decide, by decide⟩

/-- the escape also goes through the extension retry: `ns ++ "../secret"` is served from `../secret.ttl` -/
theorem escape_retry :
    getW allFeats wCfg wFs "http://ex.org/ns/../secret#frag".toList
      = .ok "/srv/data/../secret.ttl".toList "S".toList "text/turtle".toList :=
  by decide

/-- **confined_refuted**: the full property is false for the code as written -/
theorem confined_refuted : ¬ Confined (getW allFeats) := by
  intro h
  exact escape_dotdot.2.2 (h wFs wCfg wCfg _ _ _ _ escape_dotdot.1 escape_dotdot.2.1)

/-- the unguarded text is what `getCur` would be if the flag regressed: the refutation applies to it -/
theorem unguarded_refuted (hg : Gen.LoaderExts.guardPresent = false) : ¬ Confined (getCur allFeats) := by
  have e : getCur allFeats = getW allFeats := by unfold getCur getW; rw [hg]
  rw [e]; exact confined_refuted

def lFs : FSL :=
  ⟨⟨[(["srv".toList, "data".toList], .dir), (["srv".toList, "secret".toList, "s.ttl".toList], .file "S".toList)]⟩,
   [(["srv".toList, "data".toList, "lnk".toList], "../secret".toList)]⟩

/-- **symlink_assumption_necessary**: with ONE symbolic link inside the configured directory the guarded
`get` returns bytes for a path that is lexically inside the directory (`ConfinedAt` holds!) while the
file the OS actually reads is outside it: `read_reads_resolved` / `confined_files` cannot be stated for
file systems with links, and the property as worded ("open a path outside") is about lexical paths. The
harness replays this on the real code (`y` requests, root1/lnk_out -> ../secret: `symesc=1`). -/
theorem symlink_assumption_necessary :
    getCurL allFeats wCfg lFs 100 "http://ex.org/ns/lnk/s.ttl".toList
      = .ok "/srv/data/lnk/s.ttl".toList "S".toList "text/turtle".toList ∧
    ConfinedAt wCfg "http://ex.org/ns/lnk/s.ttl".toList "/srv/data/lnk/s.ttl".toList ∧
    statL lFs 100 "/srv/data/lnk/s.ttl".toList
      = .ok (["srv".toList, "secret".toList, "s.ttl".toList], .file "S".toList) ∧
    ¬ (osResolve "/srv/data".toList <+: ["srv".toList, "secret".toList, "s.ttl".toList]) :=
  ⟨by decide, by decide, by rfl, by decide⟩

/-- the repaired code rejects both witnesses -/
theorem repaired_rejects_witnesses :
    get' allFeats wCfg wFs "http://ex.org/ns/../secret.ttl".toList = .err .unsupported ∧
    get' allFeats wCfg wFs "http://ex.org/ns//etc/passwd".toList = .err .unsupported ∧
    get' allFeats wCfg wFs "http://ex.org/ns/a".toList
      = .ok "/srv/data/a.ttl".toList "A".toList "text/turtle".toList :=
  ⟨by decide, by decide, by decide⟩

/-! ### percent-encoding is not decoded -/

def pct2e : Str := "%2e%2e".toList

/-- **pct_not_decoded**: a remainder component `%2e%2e` is a literal name: `dir.join("%2e%2e/rest")`
resolves to the entry named `%2e%2e` BELOW `dir` (no decoding step exists anywhere in `get`), and
such a remainder is as safe as `rest` is. -/
theorem pct_not_decoded (dir rest : Str) :
    osResolve (joinPath dir (pct2e ++ '/' :: rest))
      = resolveFrom (osResolve dir ++ [pct2e]) (splitSlash rest) ∧
    (safeRem rest = true → safeRem (pct2e ++ '/' :: rest) = true) := by
  have hp : pct2e = ['%', '2', 'e', '%', '2', 'e'] := by decide
  have hhead : (pct2e ++ '/' :: rest).head? ≠ some '/' := by rw [hp]; simp
  constructor
  · rw [osResolve_join dir _ hhead, splitSlash_append_slash, resolveFrom_append]
    have e : splitSlash pct2e = [pct2e] := by decide
    have h0 : ¬ (pct2e = [] ∨ pct2e = dot) := by decide
    have h1 : pct2e ≠ dotdot := by decide
    rw [e]
    simp [resolveFrom, rstep, h0, h1]
  · intro h
    obtain ⟨h1, h2⟩ := (safeRem_iff rest).1 h
    rw [safeRem_iff]
    refine ⟨hhead, ?_⟩
    rw [splitSlash_append_slash]
    intro hm
    rcases List.mem_append.1 hm with hm | hm
    · revert hm; decide
    · exact h2 hm

/-! ### recursion depth 1 is the unbounded recursion -/

/-- **fuel_irrelevant**: the retried IRI `iri.ext` has an extension, so the nested `self.get(alt)` never
enters the retry loop again: the model at depth 1 (what the driver runs) equals the model at any
greater depth, i.e. the unbounded recursion of the Rust code. -/
theorem fuel_irrelevant (P : Params) (n : Nat) (cfg : Cfg) (fs : FS) (iri : Str) :
    getG P (n + 1) cfg fs iri = getG P 1 cfg fs iri := by
  show getStep P (getG P n cfg fs) cfg fs iri = getStep P (getG P 0 cfg fs) cfg fs iri
  apply getStep_congr
  intro ext hext
  have hok := activeExts_ok P.feats ext hext
  obtain ⟨r1, h1⟩ := getG_eq_step P n cfg fs
  obtain ⟨r2, h2⟩ := getG_eq_step P 0 cfg fs
  rw [h1, h2]
  apply getStep_noRetry
  rw [strip_alt _ _ hok, noExt_alt _ _ hok]

/-! ### the hypotheses are satisfiable by non-trivial values -/

-- `confined_partial`: a checked configuration, a safe IRI, an `ok` answer (through the retry loop)
example : CfgOk wCfg ∧ SafeIri wCfg "http://ex.org/ns/a#frag".toList ∧
    getW allFeats wCfg wFs "http://ex.org/ns/a#frag".toList
      = .ok "/srv/data/a.ttl".toList "A".toList "text/turtle".toList := ⟨by decide, by decide, by decide⟩
-- ... and the side condition is what fails on the witnesses
example : ¬ SafeIri wCfg "http://ex.org/ns/../secret.ttl".toList ∧
    ¬ SafeIri wCfg "http://ex.org/ns//etc/passwd".toList := ⟨by decide, by decide⟩
-- `retry_confined`: an active extension and an alternative IRI that is found
example : "ttl".toList ∈ activeExts allFeats ∧
    getW allFeats wCfg wFs (stripFragment "http://ex.org/ns/a#frag".toList ++ '.' :: "ttl".toList)
      = .ok "/srv/data/a.ttl".toList "A".toList "text/turtle".toList := ⟨by decide, by decide⟩
-- `pct_not_decoded`: `%2e%2e/secret.ttl` is looked up (and not found) below the directory
example : getW allFeats wCfg wFs "http://ex.org/ns/%2e%2e/secret.ttl".toList = .err .notFound ∧
    osResolve "/srv/data/%2e%2e/secret.ttl".toList
      = ["srv".toList, "data".toList, "%2e%2e".toList, "secret.ttl".toList] := ⟨by decide, by decide⟩
-- `read_reads_resolved` on the escaping path: the bytes are those of /srv/secret.ttl
example : osRead wFs "/srv/data/../secret.ttl".toList = .ok "S".toList ∧
    osResolve "/srv/data/../secret.ttl".toList = ["srv".toList, "secret.ttl".toList] := ⟨by rfl, by decide⟩

-- `confined_files` / `confined_current`: the code in /repo serves a file below the directory, through the retry loop
example : Loader.new wFs wCfg = .ok wCfg ∧
    getCur allFeats wCfg wFs "http://ex.org/ns/a#frag".toList
      = .ok "/srv/data/a.ttl".toList "A".toList "text/turtle".toList ∧
    wFs.lookup ["srv".toList, "data".toList, "a.ttl".toList] = some (.file "A".toList) := ⟨by rfl, by decide, by decide⟩
-- `link_confined`: a link to another document is loaded (and confined), a link into the same document is not
example : getNeighbour (fun _ => true) (getCur allFeats) wCfg wFs (some "http://ex.org/ns/doc.ttl".toList)
      "http://ex.org/ns/a#it".toList = .loaded (.ok "/srv/data/a.ttl".toList "A".toList "text/turtle".toList) ∧
    getNeighbour (fun _ => true) (getCur allFeats) wCfg wFs (some "http://ex.org/ns/doc.ttl".toList)
      "http://ex.org/ns/doc.ttl#other".toList = .sameDoc ∧
    getNeighbour (fun _ => true) (getCur allFeats) wCfg wFs (some "http://ex.org/ns/doc.ttl".toList)
      "http://ex.org/ns/../secret.ttl".toList = .loaded (.err .unsupported) := ⟨by decide, by decide, by decide⟩
-- `reachable_cfgOk` / `confined_reachable`: a loader built with `default` + `add` serves a file
example : Loader.add wFs [] wCfg.head! = .ok wCfg ∧ Reachable wFs wCfg :=
  ⟨by rfl, Reachable.add (nd := wCfg.head!) Reachable.default (by rfl)⟩
-- `resource_reads_confined`: a list of two links, one to a served document, one escaping: the first is read
-- (inside the directory), the second is refused; a two-valued property makes `get_resource` fail AFTER
-- having followed both values
def rG : RGraph :=
  [(.iri "urn:s".toList, .iri "urn:q".toList, .bnode "b0".toList),
   (.bnode "b0".toList, rdfFirst, .iri "http://ex.org/ns/a".toList),
   (.bnode "b0".toList, rdfRest, .bnode "b1".toList),
   (.bnode "b1".toList, rdfFirst, .iri "http://ex.org/ns/../secret.ttl".toList),
   (.iri "urn:s".toList, .iri "urn:p".toList, .iri "http://ex.org/ns/a.ttl".toList),
   (.iri "urn:s".toList, .iri "urn:p".toList, .iri "http://ex.org/ns//etc/passwd".toList)]
def rE : Env := ⟨fun _ => true, getCur allFeats, wCfg, wFs⟩
def rR : Res := ⟨.iri "urn:s".toList, some "http://ex.org/ns/doc.ttl".toList, rG⟩
example : getResourceItems rE rR (.iri "urn:q".toList) 10 =
      [.loaded (.ok "/srv/data/a.ttl".toList "A".toList "text/turtle".toList), .loaded (.err .unsupported)] ∧
    (match (getResource rE rR (.iri "urn:p".toList)).1 with | .error .multiple => true | _ => false) = true ∧
    (getResource rE rR (.iri "urn:p".toList)).2 =
      [.loaded (.ok "/srv/data/a.ttl".toList "A".toList "text/turtle".toList), .loaded (.err .unsupported)] ∧
    (getAnyResource rE rR (.iri "urn:p".toList)).2.length = 1 := ⟨by decide, by decide, by decide, by decide⟩
-- `ctx_confined`: a served JSON-LD context is handed over, a Turtle file is not, an escaping URL is refused
def jFs : FS := ⟨[(["srv".toList, "data".toList], .dir),
                  (["srv".toList, "data".toList, "c.jsonld".toList], .file "{}".toList),
                  (["srv".toList, "data".toList, "a.ttl".toList], .file "A".toList),
                  (["srv".toList, "secret.jsonld".toList], .file "S".toList)]⟩
example : ctxFetch (getCur allFeats) wCfg jFs "http://ex.org/ns/c".toList = some ("/srv/data/c.jsonld".toList, "{}".toList) ∧
    ctxFetch (getCur allFeats) wCfg jFs "http://ex.org/ns/a.ttl".toList = none ∧
    ctxFetch (getCur allFeats) wCfg jFs "http://ex.org/ns/../secret.jsonld".toList = none ∧
    ctxFetch (getW allFeats) wCfg jFs "http://ex.org/ns/../secret.jsonld".toList
      = some ("/srv/data/../secret.jsonld".toList, "S".toList) := ⟨by decide, by decide, by decide, by decide⟩

end SophiaProofs.C19
