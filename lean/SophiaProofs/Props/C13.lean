/-
C13 — SPARQL evaluation returns exactly the algebra's solutions or "not implemented".

Implementation model: `SophiaModel.Sparql` (Model/Sparql.lean, a transcription of sparql/src);
specification: `SophiaModel.SparqlSpec` (Model/SparqlSpec.lean, SPARQL 1.1 §17/§18);
dispatch table: `SophiaModel.Gen.SparqlDispatch`, regenerated from `ExecState::select` /
`SparqlWrapper::query` on every run.  The driver `smd_C13` executes these same definitions next
to the real engine.  Lemmas: SophiaProofs/Lemmas/Sparql.lean.
-/
import SophiaProofs.Lemmas.Sparql
import SophiaProofs.Lemmas.SparqlExpr
import SophiaModel.Gen.SparqlDispatch

namespace SophiaProofs.C13
open SophiaModel SophiaModel.Term SophiaModel.SparqlSpec SophiaModel.Sparql
open SophiaModel.Gen.SparqlDispatch
open SophiaProofs.SparqlL

/-! ## Basic graph patterns -/

/-- **bgp_correct.**  Over a duplicate-free active graph, `ExecState::bgp` (the recursive matcher
with its `Bound` pre-filter, the all-bound existence shortcut, the `first_matches`/`last_match`
split and `populate_bindings` on variables, blank-node placeholders and quoted-triple patterns)
succeeds and returns, one for one and in the same order, the solutions of `[[BGP]]` — one row per
pattern instance mapping, placeholders projected away: nothing missing, nothing spurious,
duplicates exactly as specified. -/
theorem bgp_correct (D : List Quad) (gm : List (Option Term)) (hG : TripleNodup (activeGraph D gm))
    (ps : List TP) :
    ∃ r, Sparql.bgp D ps gm none = .ok r ∧ List.Forall₂ RelRow r.rows (specBgp (activeGraph D gm) ps) := by
  obtain ⟨r, h1, _, h3⟩ := bgp_correct_from D gm hG ps none [] semB_empty
  exact ⟨r, h1, h3⟩

/-- …hence, for every list of variables, the same table as a multiset -/
theorem bgp_multiset (D : List Quad) (gm : List (Option Term)) (hG : TripleNodup (activeGraph D gm))
    (ps : List TP) (xs : List Str) :
    ∃ r, Sparql.bgp D ps gm none = .ok r ∧
      (r.rows.map (fun b => xs.map b.v.get)).Perm
        ((specBgp (activeGraph D gm) ps).map (fun μ => xs.map (fun x => μ.get (.var x)))) := by
  obtain ⟨r, h1, h2⟩ := bgp_correct D gm hG ps
  refine ⟨r, h1, ?_⟩
  rw [forall2_map_eq RelRow _ (fun μ => xs.map (fun x => μ.get (.var x))) (fun b μ h => by simp [h _]) h2]

/-- the hypothesis is what a quad store guarantees for the graph matchers the engine builds -/
theorem single_graph_nodup (D : List Quad) (hD : DataNodup D) (g : Option Term) :
    TripleNodup (activeGraph D [g]) := activeGraph_single_nodup D hD g

/-! ## Group graph patterns and solution modifiers -/

/-- **eval_correct (group graph patterns).**  For `Body` patterns — BGP, UNION, FILTER, BIND,
`GRAPH <iri>` arbitrarily nested, `GRAPH ?x { .. }` over `Inner` patterns (when the dataset has a
named graph; directly under the projection, `Proj.graph`, on every dataset), expressions on which the two expression evaluators agree (`ExprOK`) — the evaluator
and `eval(D(G), P)` produce related rows in the same order, with the same in-scope variables, or
both refuse the same re-binding. -/
theorem body_correct (D : List Quad) (hD : DataNodup D) {N : Prop} (hN : N → (graphNameSet D).isEmpty = false)
    {p : GP} (hp : Body N p) (g : Option Term) :
    (∃ r Ω, select D p [g] none = .ok r ∧ eval D p (activeGraph D [g]) = .ok Ω ∧
        List.Forall₂ RelRow r.rows Ω ∧ ∀ x, x ∈ r.vars ↔ x ∈ inScope p) ∨
    (∃ x, select D p [g] none = .error (.override x) ∧ eval D p (activeGraph D [g]) = .error (.rebind x)) :=
  SparqlL.body_correct D hD hN hp g

/-- **graph_var_correct.**  `GRAPH ?x { P }`: enumerating the de-duplicated graph names and evaluating
`P` with `?x` *pre-bound* (`graph_rec`) gives the algebra's `⋃ₙ Join(eval(D(D[n]), P), {?x ↦ n})` —
for `Inner` patterns (BGP / UNION / `GRAPH <iri>` / FILTERs that do not read `?x`), over *every*
duplicate-free dataset: without named graphs both sides have no solution (since commit d984918;
before it the engine evaluated `P` once against the empty graph, fixed finding
C13-graph-var-no-named-graph).  Outside `Inner` the two differ: finding C13-graph-var-prebound. -/
theorem graph_var_correct (D : List Quad) (hD : DataNodup D)
    {x : Str} {p : GP} (hp : Inner x p) (g : Option Term) :
    ∃ r Ω, select D (.graph (.var x) p) [g] none = .ok r ∧
      eval D (.graph (.var x) p) (activeGraph D [g]) = .ok Ω ∧
      List.Forall₂ RelRow r.rows Ω ∧ (∀ y, y ∈ r.vars → y ∈ inScope (.graph (.var x) p)) ∧
      ((graphNameSet D).isEmpty = false → ∀ y, y ∈ r.vars ↔ y ∈ inScope (.graph (.var x) p)) :=
  SparqlL.graph_var_correct D hD hp g

theorem inner_inFragment {x : Str} {p : GP} (h : Inner x p) : inFragment p = true := by
  induction h <;> simp_all [inFragment]

theorem body_inFragment {N : Prop} {p : GP} (h : Body N p) : inFragment p = true := by
  induction h with
  | bgp ps => rfl
  | union _ _ ihl ihr => simp [inFragment, ihl, ihr]
  | filter e _ _ ih => simpa [inFragment] using ih
  | extend x e _ _ ih => simpa [inFragment] using ih
  | graphIri n _ ih => simpa [inFragment] using ih
  | graphVar x _ hi => simpa [inFragment] using inner_inFragment hi

theorem top_inFragment {N : Prop} {p : GP} (h : Top N p) : inFragment p = true := by
  induction h with
  | proj h => cases h with
    | mk xs hb => simpa [inFragment] using body_inFragment hb
    | ord xs hb => simpa [inFragment] using body_inFragment hb
    | graph x xs hi => simpa [inFragment] using inner_inFragment hi
    | graphOrd x xs hi => simpa [inFragment] using inner_inFragment hi
  | distinct h => cases h with
    | mk xs hb => simpa [inFragment] using body_inFragment hb
    | ord xs hb => simpa [inFragment] using body_inFragment hb
    | graph x xs hi => simpa [inFragment] using inner_inFragment hi
    | graphOrd x xs hi => simpa [inFragment] using inner_inFragment hi
  | slice _ _ _ ih => simpa [inFragment] using ih

def specTable (xs : List Str) (Ω : List Mu) : List (List (Option Term)) :=
  Ω.map (fun μ => xs.map (fun x => μ.get (.var x)))

/-- **eval_correct_partial (whole SELECT queries).**  For `Slice? (Distinct? (Project (OrderBy? body)))`
with no dataset clause the table the caller receives is the algebra's table (same variables, same
rows, same multiplicities — here even the same order, the model's), or both sides refuse.
*Partial*: sub-selects and BIND / nested `GRAPH ?y` / filters reading `?x` inside `GRAPH ?x` are not
covered (a `GRAPH ?x` that is not the whole group needs a named graph in the dataset, only for the
variable list), and the expressions must satisfy `ExprOK`; the unrestricted statement `EvalCorrectFull` is refuted below. -/
theorem eval_correct_partial (D : List Quad) (hD : DataNodup D) {N : Prop} (hN : N → (graphNameSet D).isEmpty = false)
    {p : GP} (hp : Top N p) :
    (∃ r Ω, Sparql.query D (.select none p) = .rows r ∧ evalQuery D (.select none p) = .rows (inScope p) Ω ∧
        r.vars = inScope p ∧ r.table = specTable (inScope p) Ω) ∨
    (∃ x, Sparql.query D (.select none p) = .err (.override x) ∧ evalQuery D (.select none p) = .err (.rebind x)) := by
  rcases top_correct D hD hN hp none with ⟨r, Ω, a1, a2, a3, a4⟩ | ⟨x, a1, a2⟩
  · left
    rw [activeGraph_default] at a2
    refine ⟨r, Ω, by simp [Sparql.query, execNew, a1], by simp [evalQuery, a2, top_inFragment hp], a3, ?_⟩
    unfold Res.table specTable
    rw [a3]
    exact forall2_map_eq (RelX (inScope p)) _ _
      (fun b μ h => List.map_congr_left (fun x hx => h.1 x hx)) a4
  · right
    rw [activeGraph_default] at a2
    exact ⟨x, by simp [Sparql.query, execNew, a1], by simp [evalQuery, a2, top_inFragment hp]⟩

/-- **ask_correct.**  ASK over a group graph pattern answers what the algebra answers. -/
theorem ask_correct (D : List Quad) (hD : DataNodup D) {N : Prop} (hN : N → (graphNameSet D).isEmpty = false)
    {p : GP} (hp : Body N p) :
    (∃ a, Sparql.query D (.ask none p) = .bool a ∧ evalQuery D (.ask none p) = .bool a) ∨
    (∃ x, Sparql.query D (.ask none p) = .err (.override x) ∧ evalQuery D (.ask none p) = .err (.rebind x)) := by
  rcases SparqlL.body_correct D hD hN hp none with ⟨r, Ω, a1, a2, a3, _⟩ | ⟨x, a1, a2⟩
  · left
    rw [activeGraph_default] at a2
    refine ⟨!r.rows.isEmpty, by simp [Sparql.query, execNew, a1], ?_⟩
    have hl := a3.length_eq
    have : Ω.isEmpty = r.rows.isEmpty := by
      cases hr : r.rows <;> cases hΩ : Ω <;> simp_all
    simp [evalQuery, a2, this, body_inFragment hp]
  · right
    rw [activeGraph_default] at a2
    exact ⟨x, by simp [Sparql.query, execNew, a1], by simp [evalQuery, a2, body_inFragment hp]⟩

/-- `ASK { GRAPH ?x { P } }` is answered as the algebra answers it, on every duplicate-free dataset -/
theorem ask_graph_var_correct (D : List Quad) (hD : DataNodup D) {x : Str} {p : GP} (hp : Inner x p) :
    ∃ a, Sparql.query D (.ask none (.graph (.var x) p)) = .bool a ∧
      evalQuery D (.ask none (.graph (.var x) p)) = .bool a := by
  obtain ⟨r, Ω, a1, a2, a3, _⟩ := SparqlL.graph_var_correct D hD hp none
  rw [activeGraph_default] at a2
  have hf : inFragment (.graph (.var x) p) = true := by
    simpa [inFragment] using inner_inFragment hp
  refine ⟨!r.rows.isEmpty, by simp [Sparql.query, execNew, a1], ?_⟩
  have hl := a3.length_eq
  have : Ω.isEmpty = r.rows.isEmpty := by
    cases hr : r.rows <;> cases hΩ : Ω <;> simp_all
  simp [evalQuery, a2, this, hf]

/-- **slice_sound.**  OFFSET/LIMIT returns a sub-list of the unsliced result of the right size. -/
theorem slice_sound (D : List Quad) (p : GP) (start : Nat) (len : Option Nat) (gm : List (Option Term))
    (b : Option Binding) (r' : Res) (h : select D (.slice p start len) gm b = .ok r') :
    ∃ r, select D p gm b = .ok r ∧ r'.vars = r.vars ∧ r'.rows.Sublist r.rows ∧
      r'.rows.length = match len with
        | some n => min n (r.rows.length - start)
        | none => r.rows.length - start := by
  cases hs : select D p gm b with
  | error e => rw [select_slice_err start len hs] at h; cases h
  | ok r =>
    rw [select_slice_ok start len hs] at h
    cases h
    refine ⟨r, rfl, rfl, ?_, ?_⟩
    · cases len with
      | none => exact List.drop_sublist _ _
      | some n => exact (List.take_sublist _ _).trans (List.drop_sublist _ _)
    · cases len <;> simp [sliceRows]

/-! ## Dispatch: everything outside the fragment is refused, never half-answered -/

def GPTag.rustName : GPTag → String
  | .bgp => "Bgp" | .path => "Path" | .join => "Join" | .leftJoin => "LeftJoin" | .filter => "Filter"
  | .union => "Union" | .graph => "Graph" | .extend => "Extend" | .minus => "Minus" | .values => "Values"
  | .orderBy => "OrderBy" | .project => "Project" | .distinct => "Distinct" | .reduced => "Reduced"
  | .slice => "Slice" | .group => "Group" | .service => "Service"

def QTag.rustName : QTag → String
  | .select => "Select" | .construct => "Construct" | .describe => "Describe" | .ask => "Ask"

/-- the arm of `match pattern { .. }` in `ExecState::select` for a constructor -/
def tableAt (t : GPTag) : Option Action := selectTable.lookup (GPTag.rustName t)
def qtableAt (t : QTag) : Option Action := queryTable.lookup (QTag.rustName t)

/-- **dispatch_total.**  every `GraphPattern` / query form has exactly one arm, a handler or
`NotImplemented` -/
theorem dispatch_total : (∀ t : GPTag, ∃ a, tableAt t = some a) ∧ (∀ t : QTag, ∃ a, qtableAt t = some a) := by
  constructor
  · intro t; cases t <;> exact ⟨_, rfl⟩
  · intro t; cases t <;> exact ⟨_, rfl⟩

/-- **unsupported_err.**  where the table says `NotImplemented(w)` the evaluator returns exactly
that error — for every pattern with that constructor, every dataset, graph matcher and binding:
never a partial answer -/
theorem unsupported_err (D : List Quad) (p : GP) (gm : List (Option Term)) (b : Option Binding) (w : String)
    (h : tableAt p.tag = some (.notImplemented w)) : select D p gm b = .error (.notImplemented w) := by
  cases p <;> simp [tableAt, selectTable, GP.tag, GPTag.rustName, List.lookup] at h <;> subst h <;> simp [select]

/-- the constructors of the property's fragment -/
def tagInFragment : GPTag → Bool
  | .bgp | .filter | .union | .graph | .extend | .orderBy | .project | .distinct | .slice => true
  | _ => false

/-- the method `ExecState::select` dispatches each constructor of the fragment to -/
def handlerOf : GPTag → Option String
  | .bgp => some "bgp" | .filter => some "filter" | .union => some "union" | .graph => some "graph"
  | .extend => some "extend" | .orderBy => some "order_by" | .project => some "project"
  | .distinct => some "distinct" | .slice => some "slice"
  | _ => none

/-- **fragment_refused.**  the table refuses every constructor outside the fragment and sends every
constructor inside it to *its own* handler (`Filter` to `filter`, `Union` to `union`, …) -/
theorem fragment_refused (t : GPTag) :
    (tagInFragment t = false → ∃ w, tableAt t = some (.notImplemented w)) ∧
    (tagInFragment t = true → ∃ h, handlerOf t = some h ∧ tableAt t = some (.handler h)) := by
  cases t <;> simp [tagInFragment, handlerOf, tableAt, selectTable, GPTag.rustName, List.lookup]

/-- a pattern with constructor `t` whose sub-patterns are empty BGPs -/
def sample : GPTag → GP
  | .bgp => .bgp [] | .path => .path | .join => .join (.bgp []) (.bgp []) | .leftJoin => .leftJoin (.bgp []) (.bgp [])
  | .filter => .filter (.bound []) (.bgp []) | .union => .union (.bgp []) (.bgp [])
  | .graph => .graph (.iri []) (.bgp []) | .extend => .extend (.bgp []) ['x'] (.bound [])
  | .minus => .minus (.bgp []) (.bgp []) | .values => .values | .orderBy => .orderBy (.bgp [])
  | .project => .project (.bgp []) [] | .distinct => .distinct (.bgp []) | .reduced => .reduced (.bgp [])
  | .slice => .slice (.bgp []) 0 none | .group => .group (.bgp []) | .service => .service (.bgp [])

def isNotImpl : Except Sparql.Err Res → Option String
  | .error (.notImplemented w) => some w
  | _ => none

/-- **dispatch_model.**  the hand-written `select` refuses at a node exactly where (and with the
message with which) the regenerated table does -/
theorem dispatch_model (t : GPTag) :
    (isNotImpl (select [] (sample t) [none] none)).map Action.notImplemented =
      (match tableAt t with | some (.notImplemented w) => some (.notImplemented w) | _ => none) := by
  cases t <;> rfl

/-- **query_dispatch.**  CONSTRUCT / DESCRIBE and any dataset clause with a `named` list are refused
with the table's message; SELECT and ASK go to `select` / `ask` -/
theorem query_dispatch (D : List Quad) :
    (∀ w, qtableAt .construct = some (.notImplemented w) → Sparql.query D .construct = .err (.notImplemented w)) ∧
    (∀ w, qtableAt .describe = some (.notImplemented w) → Sparql.query D .describe = .err (.notImplemented w)) ∧
    (∀ w, fromNamed = .notImplemented w → ∀ (ds : QDataset) (ns : List Str) (p : GP), ds.named = some ns →
        Sparql.query D (.select (some ds) p) = .err (.notImplemented w) ∧
        Sparql.query D (.ask (some ds) p) = .err (.notImplemented w)) ∧
    qtableAt .select = some (.handler "select") ∧ qtableAt .ask = some (.handler "ask") := by
  refine ⟨?_, ?_, ?_, rfl, rfl⟩
  · intro w h; simp [qtableAt, queryTable, QTag.rustName, List.lookup] at h; subst h; rfl
  · intro w h; simp [qtableAt, queryTable, QTag.rustName, List.lookup] at h; subst h; rfl
  · intro w h ds ns p hn
    simp [fromNamed] at h; subst h
    simp [Sparql.query, execNew, hn]

/-- **refusal_both.**  a refused operator anywhere in the pattern (outside EXISTS patterns; inside them: `exists_refused`) makes *both* sides refuse: the evaluator returns an error — never rows or a
boolean — for every dataset, and the specification classifies the query as outside the fragment. -/
theorem refusal_both (D : List Quad) (p : GP) (h : SparqlDev.inFragmentSw p = false) :
    (∃ e, Sparql.query D (.select none p) = .err e) ∧ (∃ e, Sparql.query D (.ask none p) = .err e) ∧
    evalQuery D (.select none p) = .err .unsupported ∧ evalQuery D (.ask none p) = .err .unsupported := by
  obtain ⟨e, he⟩ := refused_never_answers D p h [none] none
  have hf : inFragment p = false := by
    cases hp : inFragment p with
    | false => rfl
    | true => rw [inFragment_sw p hp] at h; cases h
  exact ⟨⟨e, by simp [Sparql.query, execNew, he]⟩, ⟨e, by simp [Sparql.query, execNew, he]⟩,
    by simp [evalQuery, hf], by simp [evalQuery, hf]⟩

/-- the switches regenerated from the source on every run, as the theorems and witnesses of this
file need them: `||`/`&&`, `GRAPH ?g` over no named graph, IF, unary minus and the refusal inside
EXISTS are repaired (e4da433, d984918, 417c435, 8d7de80, f106847); IN is as in findings/C13.json.
A change of any of them fails here. -/
theorem gen_flags :
    orAndLenient = true ∧ graphEmptyFixed = true ∧ ifEbvStrict = true ∧ existsChecked = true ∧
    negChecked = true ∧ inLenient = false := by decide

/-- **exists_refused.**  an operator the engine refuses inside the pattern of FILTER [NOT] EXISTS makes
the whole pattern fail (since f106847: `check_exists` probes it), for every dataset, graph matcher
and binding — with `refusal_both`: a refused operator *anywhere* is never answered. -/
theorem exists_refused (D : List Quad) (neg : Bool) (pat inner : GP) (gm : List (Option Term)) (b : Option Binding)
    (h : SparqlDev.inFragmentSw pat = false) : ∃ e, select D (.filterExists neg pat inner) gm b = .error e := by
  obtain ⟨e, he⟩ := refused_never_answers D pat h [] none
  have hf : existsChecked = true := rfl
  exact ⟨e, by simp [select, hf, he, bind, Except.bind]⟩

/-! ## Totality -/

/-- **no_panic.**  no query form, pattern, dataset, graph matcher or initial binding makes the
evaluator panic (`unwrap` on `None` / `debug_assert!` in `populate_bindings`): the matcher's
pre-filter guarantees the shape `populate_bindings` relies on. -/
theorem no_panic (D : List Quad) (q : Query) : Sparql.query D q ≠ .err .panic := by
  have hnew : ∀ ds e, execNew D ds = .error e → e ≠ .panic := by
    intro ds e h
    cases ds with
    | none => simp [execNew] at h
    | some q =>
      cases hq : q.named with
      | none => simp [execNew, hq] at h
      | some ns => simp [execNew, hq] at h; subst h; simp
  cases q with
  | construct => simp [Sparql.query]
  | describe => simp [Sparql.query]
  | select ds p =>
    simp only [Sparql.query]
    cases hn : execNew D ds with
    | error e => simp only []; intro hc; cases hc; exact hnew ds _ hn rfl
    | ok dm =>
      simp only []
      cases h : select D p dm none with
      | error e => simp only []; intro hc; cases hc; exact select_no_panic D p dm none h
      | ok r => simp
  | ask ds p =>
    simp only [Sparql.query]
    cases hn : execNew D ds with
    | error e => simp only []; intro hc; cases hc; exact hnew ds _ hn rfl
    | ok dm =>
      simp only []
      cases h : select D p dm none with
      | error e => simp only []; intro hc; cases hc; exact select_no_panic D p dm none h
      | ok r => simp

/-! ## Expressions -/

/-- **exprOK_termlevel.**  BOUND, sameTerm, isIRI, isBlank, isLiteral over variables and constants,
closed under `!`, `||` and `&&`, evaluate identically in `expression.rs` and in §17 — including the
three-valued treatment of errors (`?unbound || true` is true on both sides since commit e4da433,
fixed finding C13-logical-or-and-error): such FILTER / BIND expressions satisfy the hypothesis
`ExprOK` of the theorems above.  (The rest of the core — `=`, `<`, STR, LANG, DATATYPE — is tied by
the differential; the effective boolean value of ill-typed literals provably deviates, see below.) -/
theorem exprOK_termlevel {e : Expr} (he : TermLevel e) : ExprOK e := exprOK_termLevel he

/-- `||` / `&&` in the engine are the truth tables of §17.4.1.5/6 over effective boolean values with
errors, whatever the operands: an operand that *raises* an error counts as an error value -/
theorem or_and_tables (b : Binding) (l r : Expr) :
    Sparql.evalExpr b (.or l r) =
      (or3 ((Sparql.evalExpr b l).bind ER.isTruthy) ((Sparql.evalExpr b r).bind ER.isTruthy)).map erBool ∧
    Sparql.evalExpr b (.and l r) =
      (and3 ((Sparql.evalExpr b l).bind ER.isTruthy) ((Sparql.evalExpr b r).bind ER.isTruthy)).map erBool := by
  constructor <;> simp only [Sparql.evalExpr, orAndLenient_true, if_true, orTable_eq_or3, andTable_eq_and3]

/-! ## The unrestricted statement is false: kernel-checked witnesses of the known findings -/

def q (s p o : Term) (g : Option Term) : Quad := ⟨s, p, o, g⟩
def iriT (s : String) : Term := .iri s.toList
def vT (s : String) : Term := .var s.toList
def spo : TP := ⟨vT "s", vT "p", vT "o"⟩

/-- the statement one would like: on every duplicate-free dataset, every ASK query of the fragment
(no dataset clause) is answered as the algebra answers it -/
def EvalCorrectFull : Prop :=
  ∀ (D : List Quad), DataNodup D → ∀ p : GP, inFragment p = true → ∀ a : Bool,
    Sparql.query D (.ask none p) = .bool a → evalQuery D (.ask none p) = .bool a

/-- finding C13-graph-var-prebound: `ASK { GRAPH ?g { ?s ?p ?o FILTER(BOUND(?g)) } }` -/
theorem dev_graph_prebind :
    let D := [q (iriT "x:a") (iriT "x:p") (iriT "x:b") (some (iriT "x:g1"))]
    let p := GP.graph (.var "g".toList) (.filter (.bound "g".toList) (.bgp [spo]))
    Sparql.query D (.ask none p) = .bool true ∧ evalQuery D (.ask none p) = .bool false := ⟨rfl, rfl⟩

theorem evalCorrectFull_refuted : ¬ EvalCorrectFull := by
  intro h
  have := h [q (iriT "x:a") (iriT "x:p") (iriT "x:b") (some (iriT "x:g1"))]
    (List.pairwise_singleton _ _)
    (.graph (.var "g".toList) (.filter (.bound "g".toList) (.bgp [spo]))) rfl true dev_graph_prebind.1
  rw [dev_graph_prebind.2] at this
  cases this

/-- fixed finding C13-graph-var-no-named-graph (commit d984918): `ASK { GRAPH ?g { } }` on the empty
dataset is now false on both sides (it was true in the engine) -/
theorem fixed_empty_named :
    Sparql.query [] (.ask none (.graph (.var "g".toList) (.bgp []))) = .bool false ∧
    evalQuery [] (.ask none (.graph (.var "g".toList) (.bgp []))) = .bool false := ⟨rfl, rfl⟩

/-- finding C13-subselect-leak: `ASK { { SELECT ?s { ?s ?p ?o } } FILTER(BOUND(?p)) }` -/
theorem dev_proj_leak :
    let D := [q (iriT "x:a") (iriT "x:p") (iriT "x:b") none]
    let p := GP.filter (.bound "p".toList) (.project (.bgp [spo]) ["s".toList])
    Sparql.query D (.ask none p) = .bool true ∧ evalQuery D (.ask none p) = .bool false := ⟨rfl, rfl⟩

/-- fixed finding C13-logical-or-and-error (commit e4da433): with `?x` unbound, `?x || true` and
`!(?x && false)` now keep the row (they were errors in the engine, true in §17), and an `||` with
an erroring operand — `sameTerm(?x, ?x) || !BOUND(?y)` — satisfies `ExprOK` -/
theorem fixed_or_strict :
    filterKeeps (.or (.var "x".toList) (.const (boolTerm true))) {} = true ∧
    holds (.or (.var "x".toList) (.const (boolTerm true))) [] = true ∧
    filterKeeps (.not (.and (.var "x".toList) (.const (boolTerm false)))) {} = true ∧
    holds (.not (.and (.var "x".toList) (.const (boolTerm false)))) [] = true ∧
    ExprOK (.or (.sameTerm (.var "x".toList) (.var "x".toList)) (.not (.bound "y".toList))) :=
  ⟨by decide, by decide, by decide, by decide,
   exprOK_termLevel (.or (.sameTerm (.var _) (.var _)) (.not (.bound _)))⟩

/-- finding C13-ebv-illtyped-integer: `!"1a"^^xsd:integer` -/
theorem dev_ebv_illtyped : ¬ ExprOK (.not (.const (.lit "1a".toList xsdInteger))) := by
  intro h
  have := (h {} [] (fun _ => rfl)).1
  revert this
  decide

/-- finding C13-in-first-error: `1 IN (?x, 1)` with `?x` unbound -/
theorem dev_in_strict :
    ¬ ExprOK (.inl (.const (intTerm 1)) (.var "x".toList)
      (.inl (.const (intTerm 1)) (.const (intTerm 1)) (.const (boolTerm false)))) := by
  intro h
  have := (h {} [] (fun _ => rfl)).1
  revert this
  decide

/-- fixed finding C13-if-ebv-error (commit 417c435): `IF(<x:a>, 1, 2)` is an error on both sides (it was
`2` in the engine), i.e. the expression satisfies `ExprOK` -/
theorem fixed_if_ebv : ExprOK (.ite (.const (iriT "x:a")) (.const (intTerm 1)) (.const (intTerm 2))) := by
  intro b μ _
  constructor <;> rfl

/-- fixed finding C13-neg-overflow-panic (commit 8d7de80): `-(-9223372036854775808)` is the integer
9223372036854775808 on both sides (the engine overflowed), and the expression satisfies `ExprOK` -/
theorem fixed_neg_min :
    ExprOK (.neg (.const (intTerm (-9223372036854775808)))) ∧
    SparqlSpec.evalExpr [] (.neg (.const (intTerm (-9223372036854775808)))) = some (intTerm 9223372036854775808) := by
  refine ⟨?_, by decide⟩
  intro b μ _
  have h1 : filterKeeps (.neg (.const (intTerm (-9223372036854775808)))) b =
      filterKeeps (.neg (.const (intTerm (-9223372036854775808)))) {} := rfl
  have h2 : holds (.neg (.const (intTerm (-9223372036854775808)))) μ =
      holds (.neg (.const (intTerm (-9223372036854775808)))) [] := rfl
  have h3 : Sparql.evalExpr b (.neg (.const (intTerm (-9223372036854775808)))) =
      Sparql.evalExpr {} (.neg (.const (intTerm (-9223372036854775808)))) := rfl
  have h4 : SparqlSpec.evalExpr μ (.neg (.const (intTerm (-9223372036854775808)))) =
      SparqlSpec.evalExpr [] (.neg (.const (intTerm (-9223372036854775808)))) := rfl
  rw [h1, h2, h3, h4]
  constructor <;> decide

/-- fixed finding C13-exists-swallows-refusal (commit f106847): `ASK { ?s ?p ?o FILTER NOT EXISTS { ?s ?p ?o
OPTIONAL { ?o ?p ?s } } }` is refused by both sides (the engine answered `true`) -/
theorem fixed_exists_swallow :
    let D := [q (iriT "x:a") (iriT "x:p") (iriT "x:b") none]
    let p := GP.filterExists true (.leftJoin (.bgp [spo]) (.bgp [⟨vT "o", vT "p", vT "s"⟩])) (.bgp [spo])
    Sparql.query D (.ask none p) = .err (.notImplemented "LeftJoin") ∧
    evalQuery D (.ask none p) = .err .unsupported := ⟨rfl, rfl⟩

/-- finding C13-from-default-graphs: `FROM <x:g1> FROM <x:g2>` (dataset clause without `named` list)
over two graphs sharing a triple: two rows, the RDF merge has one -/
theorem dev_from_unmerged :
    let D := [q (iriT "x:a") (iriT "x:p") (iriT "x:b") (some (iriT "x:g1")),
              q (iriT "x:a") (iriT "x:p") (iriT "x:b") (some (iriT "x:g2"))]
    let qq := Query.select (some ⟨["x:g1".toList, "x:g2".toList], none⟩) (.project (.bgp [spo]) ["s".toList])
    (∃ r, Sparql.query D qq = .rows r ∧ r.rows.length = 2) ∧
    (∃ Ω, evalQuery D qq = .rows ["s".toList] Ω ∧ Ω.length = 1) := ⟨⟨_, rfl, rfl⟩, ⟨_, rfl, rfl⟩⟩

/-! ## Value-level expressions: the two evaluators agree (proved, not assumed) -/

/-- **expr_agree.**  On every row that binds regular terms, every expression of the modelled core except
IN — variables, constants, BOUND, `=`, sameTerm, `<` `>` `<=` `>=`, `+ - *`, unary ±, `! && ||`, IF,
COALESCE, STR, LANG, DATATYPE, isIRI, isBlank, isLiteral, arbitrarily nested — is evaluated alike by
expression.rs / value.rs / function.rs (as transcribed) and by SPARQL 1.1 §17: both raise an error, or
both yield the same term with the same value and the same effective boolean value.  "Regular" (`Agree`)
excludes only literals with an invalid xsd:integer / xsd:boolean lexical form; `expr_agree_hyps_needed`,
`dev_ebv_illtyped` and `dev_in_strict` show that neither hypothesis can be dropped. -/
theorem expr_agree {b : Binding} {μ : Mu} (hr : RelRow b μ) (hb : RowAgree b) (e : Expr)
    (hn : noIn e = true) (hc : ConstsAgree e) : OptRel (Sparql.evalExpr b e) (SparqlSpec.evalExpr μ e) :=
  SparqlL.expr_agree hr hb e hn hc

/-- the unconditional statement (all expressions, all rows) -/
def ExprAgreeFull : Prop :=
  ∀ (e : Expr) (b : Binding) (μ : Mu), RelRow b μ → OptRel (Sparql.evalExpr b e) (SparqlSpec.evalExpr μ e)

/-- … is false: `!"1a"^^xsd:integer` is an error in the engine and `true` in §17 (finding C13-ebv-illtyped-integer) -/
theorem expr_agree_hyps_needed : ¬ ExprAgreeFull := by
  intro h
  have := h (.not (.const (.lit "1a".toList xsdInteger))) {} [] (fun _ => rfl)
  have e1 : Sparql.evalExpr {} (.not (.const (.lit "1a".toList xsdInteger))) = none := by decide
  have e2 : SparqlSpec.evalExpr [] (.not (.const (.lit "1a".toList xsdInteger))) = some (boolTerm true) := by decide
  rw [e1, e2] at this
  exact this

/-- **filter_bind_agree.**  consequently FILTER decides alike and BIND binds the same term (or leaves the
variable unbound alike), and the extended row again binds regular terms only -/
theorem filter_bind_agree {b : Binding} {μ : Mu} (hr : RelRow b μ) (hb : RowAgree b) (e : Expr)
    (hn : noIn e = true) (hc : ConstsAgree e) (x : Str) :
    filterKeeps e b = holds e μ ∧ (Sparql.evalExpr b e).map ER.intoTerm = SparqlSpec.evalExpr μ e ∧
    RowAgree (extendRow x e b) := SparqlL.filter_bind_agree hr hb e hn hc x

/-- **integer_lexical.**  the value layer reads integers like XSD: every xsd:integer lexical form is parsed
by `isize::from_str` / `BigInt::from_str` (as transcribed) with the XSD value, and the lexical form the
engine prints for a computed integer is read back as that integer by both -/
theorem integer_lexical :
    (∀ lex i, parseInteger lex = some i → rustParseInt lex = some i) ∧
    (∀ k : Int, parseInteger (toString k).toList = some k ∧ rustParseInt (toString k).toList = some k) :=
  ⟨rustParseInt_of_valid, fun k => ⟨parseInteger_toString k, rustParseInt_toString k⟩⟩

/-- **filter_bind_correct.**  `{ BGP FILTER(e₁) BIND(e₂ AS ?x) … }` with value-level expressions, over a
duplicate-free dataset of regular terms, evaluates to exactly the algebra's solutions: related rows in
the same order.  No `ExprOK` hypothesis — the rows that can arise bind terms of the dataset or values
computed by the expressions, both regular (`bgp_rows_agree`, `filter_bind_agree`). -/
theorem filter_bind_correct (D : List Quad) (hN : DataNodup D) (hR : RegularData D) {p : GP} (hp : Simple p)
    (g : Option Term) :
    ∃ r Ω, select D p [g] none = .ok r ∧ eval D p (activeGraph D [g]) = .ok Ω ∧
      List.Forall₂ (fun b μ => RelRow b μ ∧ RowAgree b) r.rows Ω ∧ ∀ y, y ∈ r.vars → y ∈ inScope p :=
  simple_correct D hN hR hp g

/-- regular terms: valid integers of any size, strings, language strings, `true`/`false`, unknown datatypes,
IRIs, blank nodes, quoted triples of these -/
example : Regular (.triple (iriT "x:a") (iriT "x:p") (.lit "-9223372036854775809".toList xsdInteger)) ∧
    Regular (.lit "x".toList "x:dt".toList) ∧ Regular (.lang "a".toList "EN".toList) ∧
    Regular (.lit "false".toList xsdBoolean) :=
  ⟨⟨trivial, trivial, fun _ => ⟨-9223372036854775809, by decide⟩, fun h => absurd h (by decide)⟩,
   ⟨fun h => absurd h (by decide), fun h => absurd h (by decide)⟩, trivial,
   ⟨fun h => absurd h (by decide), fun _ => Or.inr rfl⟩⟩

/-- `{ ?s ?p ?o FILTER(?o + 1 > 2 && STR(?s) = "x:a") BIND(IF(?o <= 5, ?o * 2, -?o) AS ?z) }` -/
example : Simple (.extend (.filter
    (.and (.cmp .gt (.arith .add (.var "o".toList) (.const (intTerm 1))) (.const (intTerm 2)))
          (.eq (.call .str (.var "s".toList)) (.const (.lit "x:a".toList xsdString))))
    (.bgp [spo])) "z".toList
    (.ite (.cmp .le (.var "o".toList) (.const (intTerm 5))) (.arith .mul (.var "o".toList) (.const (intTerm 2)))
      (.neg (.var "o".toList)))) :=
  .extend _ _ rfl
    ⟨⟨trivial, regular_agree ⟨fun _ => ⟨5, by decide⟩, fun h => absurd h (by decide)⟩⟩,
     ⟨trivial, regular_agree ⟨fun _ => ⟨2, by decide⟩, fun h => absurd h (by decide)⟩⟩, trivial⟩
    (by decide)
    (.filter _ rfl
      ⟨⟨⟨trivial, regular_agree ⟨fun _ => ⟨1, by decide⟩, fun h => absurd h (by decide)⟩⟩,
        regular_agree ⟨fun _ => ⟨2, by decide⟩, fun h => absurd h (by decide)⟩⟩,
       ⟨trivial, regular_agree ⟨fun h => absurd h (by decide), fun h => absurd h (by decide)⟩⟩⟩
      (.bgp _))

example : RegularData [q (iriT "x:a") (iriT "x:p") (.lit "100000000000000000000".toList xsdInteger) none] := by
  intro qd hq
  simp only [List.mem_singleton] at hq
  subst hq
  exact ⟨trivial, trivial, fun _ => ⟨100000000000000000000, by decide⟩, fun h => absurd h (by decide)⟩

/-! ## The hypotheses are satisfiable by non-trivial values -/

example : DataNodup [q (iriT "x:a") (iriT "x:p") (.lang "a".toList "en".toList) none,
                     q (iriT "x:a") (iriT "x:p") (.lang "a".toList "en".toList) (some (iriT "x:g1")),
                     q (.triple (iriT "x:a") (iriT "x:p") (.bnode "n0".toList)) (iriT "x:q") (.lit "1".toList xsdInteger) none] := by
  unfold DataNodup; decide

example : ¬ DataNodup [q (iriT "x:a") (iriT "x:p") (.lang "a".toList "en".toList) none,
                       q (iriT "x:a") (iriT "x:p") (.lang "a".toList "EN".toList) none] := by
  unfold DataNodup; decide

/-- `SELECT DISTINCT ?s ?z { { ?s ?p ?o . _:a ?p << ?s ?q ?o >> FILTER(!BOUND(?x)) } UNION
{ GRAPH <x:g1> { ?s ?p ?o } BIND(isIRI(?o) AS ?z) } UNION { GRAPH ?g { ?s ?p ?o FILTER(isIRI(?o)) } } }
ORDER BY … OFFSET 1 LIMIT 2` -/
example : Top True (.slice (.distinct (.project (.orderBy
    (.union (.union
      (.filter (.not (.bound "x".toList)) (.bgp [spo, ⟨.bnode "a".toList, vT "p", .triple (vT "s") (vT "q") (vT "o")⟩]))
      (.extend (.graph (.iri "x:g1".toList) (.bgp [spo])) "z".toList (.call .isIri (.var "o".toList))))
      (.graph (.var "g".toList) (.filter (.call .isIri (.var "o".toList)) (.bgp [spo])))))
    ["s".toList, "z".toList])) 1 (some 2)) :=
  .slice _ _ (.distinct (.ord _ (.union (.union
    (.filter _ (exprOK_termLevel (.not (.bound _))) (.bgp _))
    (.extend _ _ (exprOK_termLevel (.isIri (.var _))) (.graphIri _ (.bgp _))))
    (.graphVar _ trivial (.filter _ (exprOK_termLevel (.isIri (.var _))) (by decide) (.bgp _))))))

/-- `SELECT DISTINCT ?g { GRAPH ?g { { ?s ?p ?o } UNION { ?o ?p ?s } FILTER(BOUND(?s) || !isIRI(?o)) } }`:
no hypothesis on the dataset (`N := False`) -/
example : Top False (.distinct (.project (.graph (.var "g".toList)
    (.filter (.or (.bound "s".toList) (.not (.call .isIri (.var "o".toList))))
      (.union (.bgp [spo]) (.bgp [⟨vT "o", vT "p", vT "s"⟩])))) ["g".toList])) :=
  .distinct (.graph _ _ (.filter _ (exprOK_termLevel (.or (.bound _) (.not (.isIri (.var _))))) (by decide)
    (.union (.bgp _) (.bgp _))))

/-- a dataset with a named graph, as a `GRAPH ?x` below UNION / FILTER / BIND requires -/
example : (graphNameSet [q (iriT "x:a") (iriT "x:p") (iriT "x:b") (some (iriT "x:g1"))]).isEmpty = false := by decide

/-! ## The attribution tool -/

/-- **evalD_none.**  the evaluator with switchable deviations that the driver uses to *attribute*
oracle failures to known findings (and regressions to fixed ones) is, with every switch off, the specification itself -/
theorem evalD_none (D : List Quad) (qq : Query) : SparqlDev.evalQueryD {} D qq = evalQuery D qq :=
  evalQueryD_none D qq

end SophiaProofs.C13
