/-
C14 — ORDER BY sorts by a consistent order that respects SPARQL's `<`.

Model: SophiaModel/Model/OrderBy.lean (`cmpBindingsWith`, `sparqlOrderBy`, `sparqlCmp`, value parsing and
the numeric coercion lattice), the same definitions the driver `smd_C14` executes against the real
`SELECT … ORDER BY` queries.

Full statement (`OrderTotalPreorder`): the comparator is a total preorder on all admissible terms.
It is FALSE for the code as written: `order_not_transitive` is a kernel-checked strict 3-cycle
(`"9" < "10" < "1a" < "9"` as xsd:integer), `order_not_transitive_welltyped` one among three
well-typed values, `numeric_ties_not_transitive` a non-strict violation inside the numbers
(2^53, 2^53+1 as integers and 2^53 as a double).  What holds is proved below:

  order_total_preorder_partial   total preorder on every operand set inside ONE comparison class
  respects_lt / kind_order / desc_reverse / lexicographic_keys      for the code as written
  bindings_total_preorder        multi-key comparison of rows is a total preorder when every key column is
  sorted_perm / sorted_respects_lt   ORDER BY output (for any sort meeting the std contract) is a sorted
                                 permutation and never puts `b` before `a` when `a < b` in SPARQL
  order_total_preorder_partial_kinds   … also with blank nodes and IRIs next to one class of literals
  sorted_first_key / sorted_kind_order / sorted_respects_lt_first_key / sorted_later_keys_break_ties
                                 the same for ANY key list (ASC or DESC first key, later keys on ties), whole sequence
  NeverPanics                    FULL statement of "sorting never panics": `never_panics_iff_flag` shows it holds iff
                                 `naive_to_fixed` no longer says `unreachable!()` (flag regenerated from /repo: fixed in
                                 c9027e0, so `never_panics : NeverPanics` holds; `datetime_flags_pinned` fails on a
                                 regression and `range_end_panic_witness` names the inputs), `order_by_panics_iff`
                                 characterises the panicking comparisons, `never_panics_partial` /
                                 `bindings_never_panic_partial` prove the clause away from the ends of chrono's range
  stdSmallSort_perm / order_by_small_perm   PERMUTATION clause at full strength for results of at most 20 rows: `stdSmallSort`
                                 is std's `insertion_sort_shift_left` (what `sort_unstable_by` runs for len <= 20; the driver
                                 predicts the exact output order of real queries with it), a permutation for every
                                 comparator; `stdSmallSort_contract` discharges the `SortContract` hypothesis for it
  xsd_dispatch_pinned / tryFromTyped_eq_generated   the datatype dispatch of `try_from_literal` is regenerated from the source
                                 (Gen/XsdDispatch.lean) and proved equal, for all inputs, to the transcription the theorems use
  order_refl_all / order_swap_all / bindings_swap_all / order_laws_except_transitivity
                                 reflexivity and antisymmetry hold on ALL well-formed terms (rows: all key lists);
                                 transitivity is the only law of `OrderTotalPreorder` that fails
  repaired_total_preorder        the FULL statement for a repaired comparator (class rank first, exact
                                 comparison inside a class), with repaired_kind_order and
                                 repaired_respects_cmp_partial — documents the fix
-/
import SophiaProofs.Lemmas.OrderBy

namespace SophiaProofs.C14
open SophiaModel SophiaModel.Term SophiaModel.OrderBy SophiaProofs SophiaProofs.OrderByLemmas Std

/-! ## the comparators -/

-- `cmp a b = sparqlOrderBy a (some b)` (Lemmas/OrderBy.lean): the comparator on two bound values.

/-- comparison of two solutions on the criteria `crit` -/
def rowCmp (crit : List (Str × Bool)) (b1 b2 : Binding) : Ordering := cmpBindingsWith b1 b2 crit

/-- solution values: well-formed terms (C02) whose value can be computed without panicking -/
def Admissible (t : Term) : Prop := t.WF = true ∧ panics t = false

instance (t : Term) : Decidable (Admissible t) := by unfold Admissible; exact inferInstance

/-- FULL STATEMENT of the preorder clause: reflexive-as-`Equal`, antisymmetric up to swap, transitive,
on all admissible terms -/
def OrderTotalPreorder : Prop := TotalPreorderOn cmp Admissible

/-! ## refutation of the full statement for the code as written -/

def xlit (lex dt : String) : Term := .lit lex.toList (xsdPrefix ++ dt.toList)

/-- a strict 3-cycle: `9 < 10` by value, `10 < "1a"` and `"1a" < 9` by `Term::cmp` -/
theorem order_not_transitive :
    ∃ a b c, Admissible a ∧ Admissible b ∧ Admissible c ∧ cmp a b = .lt ∧ cmp b c = .lt ∧ cmp c a = .lt :=
  ⟨xlit "9" "integer", xlit "10" "integer", xlit "1a" "integer", by decide⟩

/-- the same with three well-typed values: `5 < 7` by value, `7^^byte < "x"^^string < 5^^unsignedByte`
by datatype IRI -/
theorem order_not_transitive_welltyped :
    ∃ a b c, (tryFromTerm a).isSome ∧ (tryFromTerm b).isSome ∧ (tryFromTerm c).isSome ∧
      cmp a b = .lt ∧ cmp b c = .lt ∧ cmp c a = .lt :=
  ⟨xlit "5" "unsignedByte", xlit "7" "byte", xlit "x" "string", by decide⟩

theorem not_order_total_preorder : ¬ OrderTotalPreorder := by
  intro h
  obtain ⟨a, b, c, ha, hb, hc, h1, h2, h3⟩ := order_not_transitive
  exact h.no_cycle ha hb hc ⟨h1, h2, h3⟩

/-- inside the numbers the violation is non-strict: `2^53 < 2^53+1` exactly, but both equal the double
`2^53` after `coerce_to_double` (SPARQL's own numeric promotion behaves the same) -/
theorem numeric_ties_not_transitive :
    ∃ a b c, Admissible a ∧ Admissible b ∧ Admissible c ∧ cmp a b = .lt ∧ cmp b c = .eq ∧ cmp c a = .eq := by
  set_option exponentiation.threshold 4000 in
  set_option maxRecDepth 20000 in
  exact ⟨xlit "9007199254740992" "integer", xlit "9007199254740993" "integer", xlit "9007199254740992" "double",
    by decide +kernel⟩

theorem not_order_total_preorder' : ¬ OrderTotalPreorder := by
  intro h
  obtain ⟨a, b, c, ha, hb, hc, h1, h2, h3⟩ := numeric_ties_not_transitive
  have := h.trans b c a hb hc ha (by simp [h2]) (by simp [h3])
  rw [h.swap a b ha hb, h1] at this
  simp at this

/-! ## what holds: one comparison class at a time -/

/-- operand sets inside one comparison class -/
inductive OneClass (S : Term → Prop) : Prop
  /-- IRIs, blank nodes, plain and language-tagged strings, booleans, literals without a value
  (unknown datatype, ill-typed number), ill-formed dateTimes: compared like `Term::cmp` -/
  | termOrdered (h : ∀ t, S t → t.WF = true ∧ TermOrdered t)
  /-- integers (all derived types) and decimals: compared exactly -/
  | exactNum (h : ∀ t, S t → ∃ n p, tryFromTerm t = some (.number n) ∧ exactKey n = some p)
  /-- floats and doubles other than NaN: compared exactly (f32 → f64 is exact) -/
  | floatNum (h : ∀ t, S t → ∃ n f, tryFromTerm t = some (.number n) ∧ floatKey n = some f)
  /-- valid dateTimes that are pairwise comparable (same kind, or more than 14 h apart) -/
  | dateTimes (h : ∀ t, S t → ∃ d, tryFromTerm t = some (.dateTime (some d)))
      (hc : ∀ a b, S a → S b → byValue a b = true)

/-- PARTIAL form of `OrderTotalPreorder`: the comparator is a total preorder on every operand set that
stays inside one comparison class.  (The missing obligation is exactly the mixing of classes: see
`order_not_transitive`, `numeric_ties_not_transitive`.) -/
theorem order_total_preorder_partial (S : Term → Prop) (h : OneClass S) : TotalPreorderOn cmp S := by
  cases h with
  | termOrdered h =>
    refine TotalPreorderOn.of_factor termCmp_totalPreorder id (fun a ha => (h a ha).1) ?_
    intro a b ha hb
    exact cmp_termOrdered a b (h a ha).1 (h b hb).1 (h a ha).2 (h b hb).2
  | exactNum h =>
    let f : Term → Int × Int := fun t => match tryFromTerm t with
      | some (.number n) => (exactKey n).getD (0, 0)
      | _ => (0, 0)
    refine TotalPreorderOn.of_factor (T := fun _ => True) decCmp_totalPreorder f (fun _ _ => trivial) ?_
    intro a b ha hb
    obtain ⟨na, pa, hva, hka⟩ := h a ha
    obtain ⟨nb, pb, hvb, hkb⟩ := h b hb
    rw [cmp_values a b _ _ hva hvb]
    simp only [SparqlValue.partialCmp, partialCmp_exact na nb pa pb hka hkb, Option.getD_some, f, hva, hvb, hka, hkb]
  | floatNum h =>
    let f : Term → FVal := fun t => match tryFromTerm t with
      | some (.number n) => (floatKey n).getD .nan
      | _ => .nan
    refine TotalPreorderOn.of_factor fval_totalPreorder f ?_ ?_
    · intro a ha
      obtain ⟨na, xa, hva, hka⟩ := h a ha
      have := (partialCmp_float na na xa xa hka hka).2.1
      simpa [f, hva, hka] using this
    · intro a b ha hb
      obtain ⟨na, xa, hva, hka⟩ := h a ha
      obtain ⟨nb, xb, hvb, hkb⟩ := h b hb
      obtain ⟨e, nx, ny⟩ := partialCmp_float na nb xa xb hka hkb
      obtain ⟨o, ho⟩ := FVal.partialCmp_some nx ny
      rw [cmp_values a b _ _ hva hvb]
      simp only [SparqlValue.partialCmp, e, ho, Option.getD_some, f, hva, hvb, hka, hkb, fcmp]
  | dateTimes h hc =>
    have key : ∀ a b, S a → S b → ∃ da db o, tryFromTerm a = some (.dateTime (some da)) ∧
        tryFromTerm b = some (.dateTime (some db)) ∧ da.partialCmp db = some o ∧ cmp a b = o := by
      intro a b ha hb
      obtain ⟨da, hva⟩ := h a ha
      obtain ⟨db, hvb⟩ := h b hb
      have hbv := hc a b ha hb
      simp only [byValue, sparqlCmp, hva, hvb, SparqlValue.partialCmp] at hbv
      obtain ⟨o, ho⟩ := Option.isSome_iff_exists.1 hbv
      refine ⟨da, db, o, hva, hvb, ho, ?_⟩
      rw [cmp_values a b _ _ hva hvb]
      simp only [SparqlValue.partialCmp, ho, Option.getD_some]
    refine ⟨fun a ha => ?_, fun a b ha hb => ?_, fun a b d ha hb hd l1 l2 => ?_⟩
    · obtain ⟨da, db, o, hva, hvb, ho, hcmp⟩ := key a a ha ha
      rw [hva] at hvb; cases hvb
      rw [dateTime_refl] at ho; cases ho; exact hcmp
    · obtain ⟨da, db, o, hva, hvb, ho, hcmp⟩ := key a b ha hb
      obtain ⟨db', da', o', hvb', hva', ho', hcmp'⟩ := key b a hb ha
      rw [hva] at hva'; cases hva'; rw [hvb] at hvb'; cases hvb'
      rw [dateTime_swap da db, ho] at ho'
      cases ho'
      rw [hcmp, hcmp']
    · obtain ⟨da, db, o1, hva, hvb, ho1, hc1⟩ := key a b ha hb
      obtain ⟨db', dd, o2, hvb', hvd, ho2, hc2⟩ := key b d hb hd
      obtain ⟨da', dd', o3, hva', hvd', ho3, hc3⟩ := key a d ha hd
      rw [hvb] at hvb'; cases hvb'; rw [hva] at hva'; cases hva'; rw [hvd] at hvd'; cases hvd'
      rw [hc1] at l1; rw [hc2] at l2; rw [hc3]
      exact dateTime_trans da db dd o1 o2 o3 ho1 ho2 ho3 l1 l2

/-! ## `respects_lt`: the ORDER BY comparator extends the comparison behind FILTER's `<` -/

/-- SPARQL's `a < b` as this code base evaluates it (`Less(lhs, rhs)`: `sparql_cmp(..).map(is_lt)`) -/
def sparqlLt (a b : Term) : Prop := sparqlCmp a b = some .lt

theorem respects_lt (a b : Term) (h : sparqlLt a b) : cmp a b = .lt := by
  unfold sparqlLt at h
  simp [cmp, sparqlOrderBy, h]

/-- more generally every outcome of `sparql_cmp` is kept -/
theorem respects_cmp (a b : Term) (o : Ordering) (h : sparqlCmp a b = some o) : cmp a b = o := by
  simp [cmp, sparqlOrderBy, h]

/-! ## `kind_order`: unbound < blank node < IRI < literal -/

-- `kindRank` (Model/OrderBy.lean, the definition the driver's `o.ko` oracle uses): rank of a key value; `none` for
-- quoted triples / variables (not ranked by the property)

theorem kind_order (v1 v2 : Option Term) (r1 r2 : Nat) (h1 : kindRank v1 = some r1) (h2 : kindRank v2 = some r2)
    (hlt : r1 < r2) : keyCmp v1 v2 = .lt := by
  cases v1 with
  | none =>
    cases v2 with
    | none => simp [kindRank] at h1 h2; omega
    | some b => rfl
  | some a =>
    cases v2 with
    | none => cases a <;> simp [kindRank] at h1 h2 <;> omega
    | some b =>
      show sparqlOrderBy a (some b) = .lt
      cases a <;> cases b <;> simp [kindRank] at h1 h2 <;> subst_vars <;>
        first
        | omega
        | (simp only [sparqlOrderBy, sparqlCmp, tryFromTerm, isLiteral]
           simp
           exact C02.cmp_kind _ _ (by simp [Term.kind, Kind.rank]))

/-! ## blank nodes and IRIs next to one class of literals -/

/-- kind rank of a bound key value (4 = not ranked) -/
def rankOf (t : Term) : Nat := (kindRank (some t)).getD 4

theorem rankOf_literal {t : Term} (h : rankOf t = 3) : isLiteral t = true := by
  cases t <;> simp [rankOf, kindRank] at h <;> rfl

theorem novalue_of_rank {t : Term} (h : rankOf t ≠ 3) : tryFromTerm t = none := by
  cases t <;> first | rfl | (simp [rankOf, kindRank] at h)

/-- across kinds the rank decides, whatever the values are -/
theorem cmp_of_rank_lt (a b : Term) (ha : (kindRank (some a)).isSome) (hb : (kindRank (some b)).isSome)
    (h : rankOf a < rankOf b) : cmp a b = .lt := by
  obtain ⟨r1, h1⟩ := Option.isSome_iff_exists.1 ha
  obtain ⟨r2, h2⟩ := Option.isSome_iff_exists.1 hb
  have := kind_order (some a) (some b) r1 r2 h1 h2 (by simpa [rankOf, h1, h2] using h)
  exact this

/-- PARTIAL form of `OrderTotalPreorder`, stronger than `order_total_preorder_partial`: a key column may hold blank
nodes and IRIs next to literals of ONE comparison class (blank nodes and IRIs never take part in a cycle: their
kind rank decides) -/
theorem order_total_preorder_partial_kinds (S : Term → Prop) (hwf : ∀ t, S t → t.WF = true)
    (hk : ∀ t, S t → (kindRank (some t)).isSome) (h : OneClass (fun t => S t ∧ isLiteral t = true)) :
    TotalPreorderOn cmp S := by
  have hclass : ∀ k, TotalPreorderOn cmp (fun a => S a ∧ rankOf a = k) := by
    intro k
    by_cases h3 : k = 3
    · subst h3
      exact (order_total_preorder_partial _ h).mono (fun a ha => ⟨ha.1, rankOf_literal ha.2⟩)
    · exact order_total_preorder_partial _ (.termOrdered (fun t ht =>
        ⟨hwf t ht.1, .novalue t (novalue_of_rank (by rw [ht.2]; exact h3))⟩))
  refine TotalPreorderOn.of_factor (lexRank rankOf cmp S hclass) id (fun _ h => h) ?_
  intro a b ha hb
  simp only [id]
  rcases Nat.lt_trichotomy (rankOf a) (rankOf b) with hlt | heq | hgt
  · rw [Nat.compare_eq_lt.2 hlt, cmp_of_rank_lt a b (hk a ha) (hk b hb) hlt]; rfl
  · rw [heq, Nat.compare_eq_eq.2 rfl]; rfl
  · rw [Nat.compare_eq_gt.2 hgt]
    have hba := cmp_of_rank_lt b a (hk b hb) (hk a ha) hgt
    -- one of the two has no value (ranks differ, so not both are literals): the comparison is `Term::cmp`, which swaps
    have hterm : ∀ x y : Term, x.WF = true → y.WF = true → (tryFromTerm x = none ∨ tryFromTerm y = none) →
        cmp x y = termCmp x y := by
      intro x y hx hy hn
      rcases hn with hn | hn
      · exact cmp_novalue_left x y hx hy hn
      · exact cmp_novalue_right x y hx hy hn
    have hn : tryFromTerm a = none ∨ tryFromTerm b = none := by
      by_cases h3 : rankOf b = 3
      · have : rankOf a ≠ 3 := by
          have hle : rankOf a ≤ 3 := by
            obtain ⟨r, hr⟩ := Option.isSome_iff_exists.1 (hk a ha)
            cases a <;> simp [rankOf, kindRank] at hr ⊢
          omega
        exact Or.inl (novalue_of_rank this)
      · exact Or.inr (novalue_of_rank h3)
    rw [hterm a b (hwf a ha) (hwf b hb) hn, C02.cmp_swap b a (hwf b hb) (hwf a ha),
      ← hterm b a (hwf b hb) (hwf a ha) hn.symm, hba]
    rfl

-- non-vacuity: an IRI, a blank node and two exact numbers in one column
example : TotalPreorderOn cmp (fun t => t = .iri "http://ex.org/a".toList ∨ t = .bnode "b".toList ∨
    t = xlit "9" "integer" ∨ t = xlit "10.50" "decimal") := by
  apply order_total_preorder_partial_kinds
  · rintro t (rfl | rfl | rfl | rfl) <;> decide
  · rintro t (rfl | rfl | rfl | rfl) <;> decide
  · refine .exactNum ?_
    rintro t ⟨(rfl | rfl | rfl | rfl), hl⟩
    · simp [isLiteral] at hl
    · simp [isLiteral] at hl
    · exact ⟨.nativeInt 9, (9, 0), by decide, rfl⟩
    · exact ⟨.decimal 1050 2, (1050, 2), by decide, rfl⟩

/-! ## `desc_reverse`, `lexicographic_keys` -/

/-- flipping every ASC/DESC flag reverses the comparison of any two solutions -/
theorem desc_reverse (b1 b2 : Binding) (crit : List (Str × Bool)) :
    cmpBindingsWith b1 b2 (crit.map (fun p => (p.1, !p.2))) = (cmpBindingsWith b1 b2 crit).swap := by
  induction crit with
  | nil => rfl
  | cons p rest ih =>
    obtain ⟨e, d⟩ := p
    simp only [List.map_cons, cmpBindingsWith, ih, Ordering.swap_then]
    cases d <;> simp

/-- `ORDER BY DESC(?e)` compares exactly opposite to `ORDER BY ASC(?e)` -/
theorem desc_reverse_single (b1 b2 : Binding) (e : Str) :
    cmpBindingsWith b1 b2 [(e, true)] = (cmpBindingsWith b1 b2 [(e, false)]).swap :=
  desc_reverse b1 b2 [(e, false)]

/-- comparison on one criterion, direction applied -/
def critCmp (e : Str) (desc : Bool) (b1 b2 : Binding) : Ordering :=
  if desc then (keyCmp (eval e b1) (eval e b2)).swap else keyCmp (eval e b1) (eval e b2)

/-- the criteria are applied lexicographically: later keys only break ties of earlier ones -/
theorem lexicographic_keys (b1 b2 : Binding) (e : Str) (desc : Bool) (rest : List (Str × Bool)) :
    cmpBindingsWith b1 b2 ((e, desc) :: rest) = (critCmp e desc b1 b2).then (cmpBindingsWith b1 b2 rest) := rfl

theorem lexicographic_keys_strict (b1 b2 : Binding) (e : Str) (desc : Bool) (rest : List (Str × Bool))
    (h : critCmp e desc b1 b2 ≠ .eq) : cmpBindingsWith b1 b2 ((e, desc) :: rest) = critCmp e desc b1 b2 := by
  rw [lexicographic_keys]; cases hc : critCmp e desc b1 b2 <;> simp_all [Ordering.then]

theorem lexicographic_keys_tie (b1 b2 : Binding) (e : Str) (desc : Bool) (rest : List (Str × Bool))
    (h : critCmp e desc b1 b2 = .eq) : cmpBindingsWith b1 b2 ((e, desc) :: rest) = cmpBindingsWith b1 b2 rest := by
  rw [lexicographic_keys, h]; rfl

/-! ## rows: multi-key comparison is a total preorder when every key column is -/

/-- unbound-first lifting of the value comparator -/
theorem keyCmp_totalPreorder (S : Term → Prop) (h : TotalPreorderOn cmp S) :
    TotalPreorderOn keyCmp (fun v => ∀ t, v = some t → S t) := by
  refine ⟨fun a ha => ?_, fun a b ha hb => ?_, fun a b d ha hb hd l1 l2 => ?_⟩
  · cases a with
    | none => rfl
    | some x => exact h.refl x (ha x rfl)
  · cases a <;> cases b <;> try rfl
    rename_i x y
    exact h.swap x y (ha x rfl) (hb y rfl)
  · cases a with
    | none => cases d <;> rfl
    | some x =>
      cases b with
      | none => exact absurd l1 (by simp [keyCmp, sparqlOrderBy])
      | some y =>
        cases d with
        | none => exact absurd l2 (by simp [keyCmp, sparqlOrderBy])
        | some z => exact h.trans x y z (ha x rfl) (hb y rfl) (hd z rfl) l1 l2

/-- the values a criterion takes on the rows `R` -/
def column (R : Binding → Prop) (e : Str) (t : Term) : Prop := ∃ b, R b ∧ eval e b = some t

theorem critCmp_totalPreorder (R : Binding → Prop) (e : Str) (desc : Bool)
    (h : TotalPreorderOn cmp (column R e)) : TotalPreorderOn (critCmp e desc) R := by
  have hk := (keyCmp_totalPreorder _ h).comap (fun b : Binding => eval e b)
  have hk' : TotalPreorderOn (fun b1 b2 : Binding => keyCmp (eval e b1) (eval e b2)) R :=
    hk.mono (fun b hb t ht => ⟨b, hb, ht⟩)
  cases desc with
  | false => exact hk'
  | true => exact hk'.reverse

/-- `cmp_bindings_with` is a total preorder on a set of solutions as soon as, for every criterion,
the value comparator is one on the values that criterion takes -/
theorem bindings_total_preorder (R : Binding → Prop) (crit : List (Str × Bool))
    (h : ∀ e d, (e, d) ∈ crit → TotalPreorderOn cmp (column R e)) : TotalPreorderOn (rowCmp crit) R := by
  induction crit with
  | nil => exact totalPreorderOn_const R
  | cons p rest ih =>
    obtain ⟨e, d⟩ := p
    have h1 := critCmp_totalPreorder R e d (h e d (by simp))
    have h2 := ih (fun e' d' hm => h e' d' (by simp [hm]))
    exact h1.lex h2

/-! ## `sorted_perm` -/

/-- the contract of `slice::sort_unstable_by` (DESIGN §3.3): a permutation of its input, sorted
w.r.t. the comparator whenever that is a total preorder on the elements -/
structure SortContract (sort : (Binding → Binding → Ordering) → List Binding → List Binding) : Prop where
  perm : ∀ c l, (sort c l).Perm l
  sorted : ∀ c l, TotalPreorderOn c (· ∈ l) → (sort c l).Pairwise (fun x y => c x y ≠ .gt)

/-- `order_by`: collect the solutions, `sort_unstable_by(cmp_bindings_with)` -/
def orderBy (sort : (Binding → Binding → Ordering) → List Binding → List Binding)
    (crit : List (Str × Bool)) (rows : List Binding) : List Binding := sort (rowCmp crit) rows

/-- ORDER BY returns a permutation of the unordered solutions; it is sorted w.r.t. the row comparator
whenever every key column stays inside one comparison class -/
theorem sorted_perm (sort) (hs : SortContract sort) (crit : List (Str × Bool)) (rows : List Binding) :
    (orderBy sort crit rows).Perm rows ∧
    ((∀ e d, (e, d) ∈ crit → OneClass (column (· ∈ rows) e)) →
      (orderBy sort crit rows).Pairwise (fun x y => rowCmp crit x y ≠ .gt)) := by
  refine ⟨hs.perm _ _, fun h => hs.sorted _ _ ?_⟩
  exact bindings_total_preorder (· ∈ rows) crit (fun e d hm => order_total_preorder_partial _ (h e d hm))

/-- consequently, with one ascending key whose values stay in one class, no solution is placed before
another one whose key is smaller in the sense of SPARQL's `<` -/
theorem sorted_respects_lt (sort) (hs : SortContract sort) (e : Str) (rows : List Binding)
    (h : OneClass (column (· ∈ rows) e)) :
    (orderBy sort [(e, false)] rows).Pairwise
      (fun x y => ∀ tx ty, eval e x = some tx → eval e y = some ty → ¬ sparqlLt ty tx) := by
  have hp := (sorted_perm sort hs [(e, false)] rows).1
  have hsorted := (sorted_perm sort hs [(e, false)] rows).2 (by
    intro e' d' hm; simp at hm; rw [hm.1]; exact h)
  have hpre := order_total_preorder_partial _ h
  refine (List.pairwise_iff_forall_sublist.2 ?_)
  intro x y hxy tx ty hx hy hlt
  have hne := List.pairwise_iff_forall_sublist.1 hsorted hxy
  have hxm : x ∈ rows := hp.mem_iff.1 (hxy.subset (by simp))
  have hym : y ∈ rows := hp.mem_iff.1 (hxy.subset (by simp))
  have h1 : cmp ty tx = .lt := respects_lt ty tx hlt
  have h2 : cmp tx ty = .gt := by
    rw [hpre.swap ty tx ⟨y, hym, hy⟩ ⟨x, hxm, hx⟩, h1]; rfl
  apply hne
  have : rowCmp [(e, false)] x y = cmp tx ty := by
    simp only [rowCmp, cmpBindingsWith, keyCmp, hx, hy, cmp]
    cases sparqlOrderBy tx (some ty) <;> rfl
  rw [this]; exact h2

/-! ## sequence level for any key list: first key in its direction, kind order, ties -/

/-- sequence level, any key list: in the output no solution precedes one that the FIRST criterion (direction
applied) puts strictly before it -/
theorem sorted_first_key (sort) (hs : SortContract sort) (e : Str) (desc : Bool) (rest : List (Str × Bool))
    (rows : List Binding) (h : ∀ e' d', (e', d') ∈ (e, desc) :: rest → OneClass (column (· ∈ rows) e')) :
    (orderBy sort ((e, desc) :: rest) rows).Pairwise (fun x y => x ∈ rows ∧ y ∈ rows ∧ critCmp e desc x y ≠ .gt) := by
  have hp := (sorted_perm sort hs ((e, desc) :: rest) rows).1
  have hsorted := (sorted_perm sort hs ((e, desc) :: rest) rows).2 h
  refine List.pairwise_iff_forall_sublist.2 ?_
  intro x y hxy
  have hne := List.pairwise_iff_forall_sublist.1 hsorted hxy
  refine ⟨hp.mem_iff.1 (hxy.subset (by simp)), hp.mem_iff.1 (hxy.subset (by simp)), fun hgt => hne ?_⟩
  have := lexicographic_keys_strict x y e desc rest (by rw [hgt]; decide)
  rw [rowCmp, this, hgt]

/-- "unbound < blank node < IRI < literal (reversed for DESC)" for the whole output sequence and the first key -/
theorem sorted_kind_order (sort) (hs : SortContract sort) (e : Str) (desc : Bool) (rest : List (Str × Bool))
    (rows : List Binding) (h : ∀ e' d', (e', d') ∈ (e, desc) :: rest → OneClass (column (· ∈ rows) e')) :
    (orderBy sort ((e, desc) :: rest) rows).Pairwise
      (fun x y => ∀ r1 r2, kindRank (eval e x) = some r1 → kindRank (eval e y) = some r2 →
        ¬ (if desc then r1 < r2 else r2 < r1)) := by
  have hpre := keyCmp_totalPreorder _ (order_total_preorder_partial _ (h e desc (by simp)))
  refine (sorted_first_key sort hs e desc rest rows h).imp ?_
  rintro x y ⟨hx, hy, hne⟩ r1 r2 h1 h2 hlt
  apply hne
  have mx : ∀ t, eval e x = some t → column (· ∈ rows) e t := fun t ht => ⟨x, hx, ht⟩
  have my : ∀ t, eval e y = some t → column (· ∈ rows) e t := fun t ht => ⟨y, hy, ht⟩
  cases desc with
  | false =>
    simp only [Bool.false_eq_true, if_false] at hlt
    have := kind_order (eval e y) (eval e x) r2 r1 h2 h1 hlt
    simp only [critCmp, Bool.false_eq_true, if_false]
    rw [hpre.swap (eval e y) (eval e x) my mx, this]; rfl
  | true =>
    simp only [if_true] at hlt
    have := kind_order (eval e x) (eval e y) r1 r2 h1 h2 hlt
    simp only [critCmp, if_true, this]; rfl

/-- "values that SPARQL's `<` can compare appear in that order (reversed for DESC)" for the whole output sequence
and the first key of any key list -/
theorem sorted_respects_lt_first_key (sort) (hs : SortContract sort) (e : Str) (desc : Bool) (rest : List (Str × Bool))
    (rows : List Binding) (h : ∀ e' d', (e', d') ∈ (e, desc) :: rest → OneClass (column (· ∈ rows) e')) :
    (orderBy sort ((e, desc) :: rest) rows).Pairwise
      (fun x y => ∀ tx ty, eval e x = some tx → eval e y = some ty →
        ¬ (if desc then sparqlLt tx ty else sparqlLt ty tx)) := by
  have hpre := order_total_preorder_partial _ (h e desc (by simp))
  refine (sorted_first_key sort hs e desc rest rows h).imp ?_
  rintro x y ⟨hx, hy, hne⟩ tx ty h1 h2 hlt
  apply hne
  have hk : keyCmp (eval e x) (eval e y) = cmp tx ty := by rw [h1, h2]; rfl
  cases desc with
  | false =>
    simp only [Bool.false_eq_true, if_false] at hlt
    simp only [critCmp, Bool.false_eq_true, if_false, hk]
    rw [hpre.swap ty tx ⟨y, hy, h2⟩ ⟨x, hx, h1⟩, respects_lt ty tx hlt]; rfl
  | true =>
    simp only [if_true] at hlt
    simp only [critCmp, if_true, hk, respects_lt tx ty hlt]; rfl

/-- "later keys break ties" for the whole output sequence: two solutions that tie on the first criterion are
arranged by the remaining ones -/
theorem sorted_later_keys_break_ties (sort) (hs : SortContract sort) (e : Str) (desc : Bool) (rest : List (Str × Bool))
    (rows : List Binding) (h : ∀ e' d', (e', d') ∈ (e, desc) :: rest → OneClass (column (· ∈ rows) e')) :
    (orderBy sort ((e, desc) :: rest) rows).Pairwise
      (fun x y => critCmp e desc x y = .eq → rowCmp rest x y ≠ .gt) := by
  refine ((sorted_perm sort hs ((e, desc) :: rest) rows).2 h).imp ?_
  intro x y hne htie
  rwa [rowCmp, lexicographic_keys_tie x y e desc rest htie] at hne

/-! ## a repaired comparator: class rank first, exact comparison inside a class -/

/-- FULL statement for the repaired comparator: a total preorder on all well-formed terms -/
theorem repaired_total_preorder : TotalPreorderOn repairedCmp (fun t => t.WF = true) := by
  apply lexRank rrank rinner
  intro k
  by_cases h2 : k = 2
  · subst h2
    let f : Term → NumKey := fun t => match rclass t with | .num x => x | _ => .nan
    refine TotalPreorderOn.of_factor numKey_cmp_totalPreorder f ?_ ?_
    · rintro a ⟨_, ha⟩
      rcases rrank_cases a with ⟨x, hx, _⟩ | ⟨x, hx, hr⟩ | ⟨hx, hr, _⟩
      · simp only [f, hx]; exact rclass_num_pos hx
      · omega
      · exact absurd ha hr
    · rintro a b ⟨_, ha⟩ ⟨_, hb⟩
      rcases rrank_cases a with ⟨x, hx, _⟩ | ⟨x, hx, hr⟩ | ⟨hx, hr, _⟩ <;> first | omega | skip
      rcases rrank_cases b with ⟨y, hy, _⟩ | ⟨y, hy, hr⟩ | ⟨hy, hr, _⟩ <;> first | omega | skip
      simp only [rinner, f, hx, hy]
  · by_cases h3 : k = 3
    · subst h3
      let f : Term → Int := fun t => match rclass t with | .time x => x | _ => 0
      refine TotalPreorderOn.of_factor (T := fun _ => True)
        (totalPreorder_of_key (fun x : Int => x) (fun x y => compare x y) _ (fun _ _ _ _ => rfl)) f (fun _ _ => trivial) ?_
      rintro a b ⟨_, ha⟩ ⟨_, hb⟩
      rcases rrank_cases a with ⟨x, hx, hr⟩ | ⟨x, hx, _⟩ | ⟨hx, _, hr⟩ <;> first | omega | skip
      rcases rrank_cases b with ⟨y, hy, hr⟩ | ⟨y, hy, _⟩ | ⟨hy, _, hr⟩ <;> first | omega | skip
      simp only [rinner, f, hx, hy]
    · refine TotalPreorderOn.of_factor termCmp_totalPreorder id (fun a ha => ha.1) ?_
      rintro a b ⟨_, ha⟩ ⟨_, hb⟩
      rcases rrank_cases a with ⟨x, hx, hr⟩ | ⟨x, hx, hr⟩ | ⟨hx, _, _⟩ <;> first | omega | skip
      simp only [rinner, hx, id]

/-- inside one comparison class the repaired comparator returns every outcome of SPARQL's value
comparison (`<`, `=`, `>`); across the exact/float divide this needs monotonicity of IEEE rounding
(true, not proved here) -/
theorem repaired_respects_cmp_partial (a b : Term) (o : Ordering) (h : sparqlCmp a b = some o)
    (hc : OneClass (fun t => t = a ∨ t = b)) : repairedCmp a b = o := by
  have hcmp : cmp a b = o := respects_cmp a b o h
  cases hc with
  | termOrdered hc =>
    obtain ⟨wa, ta⟩ := hc a (Or.inl rfl)
    obtain ⟨wb, tb⟩ := hc b (Or.inr rfl)
    obtain ⟨la, lb⟩ := sparqlCmp_some_literal h
    have ra := rclass_termOrdered ta
    have rb := rclass_termOrdered tb
    rw [cmp_termOrdered a b wa wb ta tb] at hcmp
    simp [repairedCmp, rrank_literal_term ra la, rrank_literal_term rb lb, rinner, ra, rb, hcmp]
  | exactNum hc =>
    obtain ⟨na, pa, hva, hka⟩ := hc a (Or.inl rfl)
    obtain ⟨nb, pb, hvb, hkb⟩ := hc b (Or.inr rfl)
    rw [cmp_values a b _ _ hva hvb] at hcmp
    simp only [SparqlValue.partialCmp, partialCmp_exact na nb pa pb hka hkb, Option.getD_some] at hcmp
    simp [repairedCmp, (rclass_of_number hva).2, (rclass_of_number hvb).2, rinner, (rclass_of_number hva).1,
      (rclass_of_number hvb).1, numKey_cmp_exact na nb pa pb hka hkb, hcmp]
  | floatNum hc =>
    obtain ⟨na, xa, hva, hka⟩ := hc a (Or.inl rfl)
    obtain ⟨nb, xb, hvb, hkb⟩ := hc b (Or.inr rfl)
    obtain ⟨e, nx, ny⟩ := partialCmp_float na nb xa xb hka hkb
    have hs : sparqlCmp a b = xa.partialCmp xb := by
      simp only [sparqlCmp, hva, hvb, SparqlValue.partialCmp, e]
    rw [hs] at h
    have hk : ∀ (n : SparqlNumber) (x : FVal), floatKey n = some x → numKey n = fvalKey x := by
      intro n x hx
      cases n <;> simp_all [floatKey, numKey] <;> (obtain ⟨_, rfl⟩ := hx; rfl)
    simp [repairedCmp, (rclass_of_number hva).2, (rclass_of_number hvb).2, rinner, (rclass_of_number hva).1,
      (rclass_of_number hvb).1, hk na xa hka, hk nb xb hkb, fvalKey_cmp xa xb o h]
  | dateTimes hc _ =>
    clear hcmp
    obtain ⟨da, hva⟩ := hc a (Or.inl rfl)
    obtain ⟨db, hvb⟩ := hc b (Or.inr rfl)
    have hs : sparqlCmp a b = da.partialCmp db := by
      simp only [sparqlCmp, hva, hvb, SparqlValue.partialCmp]
    rw [hs] at h
    simp only [repairedCmp, (rclass_of_dateTime hva).2, (rclass_of_dateTime hvb).2, rinner, (rclass_of_dateTime hva).1,
      (rclass_of_dateTime hvb).1]
    cases da <;> cases db <;> simp only [XsdDateTime.partialCmp] at h <;>
      (repeat' split at h) <;> simp only [Option.some.injEq, reduceCtorEq] at h <;> subst_vars <;>
      simp only [nsPerHour] at * <;>
      first
      | rfl
      | (show compare (_ : Int) _ = Ordering.lt; exact Int.compare_eq_lt.2 (by omega))
      | (show compare (_ : Int) _ = Ordering.gt; exact Int.compare_eq_gt.2 (by omega))

/-- the repaired comparator keeps blank node < IRI < literal -/
theorem repaired_kind_order (x y : Str) (l : Term) (hl : isLiteral l = true) :
    repairedCmp (.bnode x) (.iri y) = .lt ∧ repairedCmp (.iri y) l = .lt ∧ repairedCmp (.bnode x) l = .lt := by
  have hb : rrank (.bnode x) = 0 := by simp [rrank, rclass, tryFromTerm, Term.kind]
  have hi : rrank (.iri y) = 1 := by simp [rrank, rclass, tryFromTerm, Term.kind]
  have h2 := rrank_literal_ge hl
  refine ⟨?_, ?_, ?_⟩ <;> simp only [repairedCmp, hb, hi]
  · rfl
  · rw [Nat.compare_eq_lt.2 (by omega)]; rfl
  · rw [Nat.compare_eq_lt.2 (by omega)]; rfl

/-! ## non-vacuity -/

-- non-vacuity of the four classes
example : OneClass (fun t => t = xlit "9" "integer" ∨ t = xlit "10.50" "decimal") :=
  .exactNum (by
    rintro t (rfl | rfl)
    · exact ⟨.nativeInt 9, (9, 0), by decide, rfl⟩
    · exact ⟨.decimal 1050 2, (1050, 2), by decide, rfl⟩)

set_option exponentiation.threshold 4000 in
set_option maxRecDepth 20000 in
example : OneClass (fun t => t = xlit "1e1" "double" ∨ t = xlit "9" "float" ∨ t = xlit "-INF" "double") :=
  .floatNum (by
    rintro t (rfl | rfl | rfl)
    · exact ⟨.double (.fin (10 * 2 ^ 1074)), .fin (10 * 2 ^ 1074), by decide +kernel, by decide +kernel⟩
    · exact ⟨.float (.fin (9 * 2 ^ 1074)), .fin (9 * 2 ^ 1074), by decide +kernel, by decide +kernel⟩
    · exact ⟨.double .ninf, .ninf, by decide +kernel, by decide +kernel⟩)

example : OneClass (fun t => t = .iri "http://ex.org/a".toList ∨ t = .lit "x".toList xsdString ∨
    t = .lang "x".toList "en".toList ∨ t = xlit "1a" "integer" ∨ t = .lit "maybe".toList xsdBoolean) :=
  .termOrdered (by
    rintro t (rfl | rfl | rfl | rfl | rfl)
    · exact ⟨by decide, .novalue _ rfl⟩
    · exact ⟨by decide, .plain _⟩
    · exact ⟨by decide, .tagged _ _⟩
    · exact ⟨by decide, .novalue _ (by decide)⟩
    · exact ⟨by decide, .boolean _⟩)

def dtA : Term := .lit "2024-01-01T12:00:00".toList xsdDateTime
def dtB : Term := .lit "2024-01-03T12:00:00Z".toList xsdDateTime
example : OneClass (fun t => t = dtA ∨ t = dtB) :=
  .dateTimes (by
    rintro t (rfl | rfl)
    · exact ⟨.naive 1704110400000000000, by decide +kernel⟩
    · exact ⟨.zoned 1704283200000000000, by decide +kernel⟩)
    (by rintro a b (rfl | rfl) (rfl | rfl) <;> decide +kernel)

/-- a sort meeting the contract exists: merge sort on the rows (as elements of the input list) -/
def refSort (c : Binding → Binding → Ordering) (l : List Binding) : List Binding :=
  (l.attach.mergeSort (fun a b => c a.1 b.1 != .gt)).map Subtype.val

theorem refSort_contract : SortContract refSort := by
  refine ⟨fun c l => ?_, fun c l h => ?_⟩
  · unfold refSort
    have := (List.mergeSort_perm l.attach (fun a b => c a.1 b.1 != .gt)).map Subtype.val
    simpa using this
  · unfold refSort
    have hs := List.pairwise_mergeSort (le := fun a b : {x // x ∈ l} => c a.1 b.1 != .gt)
      (fun a b d h1 h2 => by
        have := h.trans a.1 b.1 d.1 a.2 b.2 d.2 (by simpa [Ordering.isLE_iff_ne_gt] using h1)
          (by simpa [Ordering.isLE_iff_ne_gt] using h2)
        simpa [Ordering.isLE_iff_ne_gt] using this)
      (fun a b => by
        have := h.swap a.1 b.1 a.2 b.2
        cases hab : c a.1 b.1 <;> simp_all)
      l.attach
    rw [List.pairwise_map]
    exact hs.imp (fun hab => by simpa using hab)

-- the structural theorems apply to rows with unbound cells and mixed directions
example : rowCmp [("k0".toList, true), ("k1".toList, false)]
    [("k0".toList, xlit "9" "integer")] [("k0".toList, xlit "10" "integer"), ("k1".toList, .iri "x:a".toList)] = .gt := by
  decide
example : kindRank none = some 0 ∧ kindRank (some (.bnode "b".toList)) = some 1 ∧
    kindRank (some (xlit "1a" "integer")) = some 3 := by decide
example : sparqlLt (xlit "9" "integer") (xlit "10.5" "decimal") := by unfold sparqlLt; decide
-- the repaired comparator breaks the cycle of `order_not_transitive`: the ill-typed literal is ranked after the numbers
example : repairedCmp (xlit "9" "integer") (xlit "10" "integer") = .lt ∧
    repairedCmp (xlit "10" "integer") (xlit "1a" "integer") = .lt ∧
    repairedCmp (xlit "9" "integer") (xlit "1a" "integer") = .lt := by decide

/-! ## "sorting never panics" -/

/-- FULL STATEMENT of the panic clause: no comparison of two key values panics -/
def NeverPanics : Prop := ∀ a b : Term, sparqlCmpPanics a b = false

/-- `heterogeneous_cmp(z, n)`: `naive_to_fixed(n, 14)` (always evaluated) or `naive_to_fixed(n, -14)` (evaluated
unless `z < n - 14h`) leaves chrono's range -/
def Overflows (z n : Int) : Prop :=
  n - 14 * nsPerHour < chronoMin ∨ (n - 14 * nsPerHour ≤ z ∧ chronoMax < n + 14 * nsPerHour)

theorem hetPanics_iff (z n : Int) : hetPanics z n = true ↔ Gen.dateTimeOffsetUnreachable = true ∧ Overflows z n := by
  unfold hetPanics Overflows
  simp only [Bool.and_eq_true, Bool.or_eq_true, decide_eq_true_eq, Bool.not_eq_true', decide_eq_false_iff_not, Int.not_lt]

/-- exactly which comparisons panic: a timezoned against a non-timezoned dateTime whose ±14:00 translation
overflows, and only while `naive_to_fixed` says `unreachable!()` -/
theorem order_by_panics_iff (a b : Term) :
    sparqlCmpPanics a b = true ↔
      Gen.dateTimeOffsetUnreachable = true ∧ ∃ z n, Overflows z n ∧
        ((tryFromTerm a = some (.dateTime (some (.zoned z))) ∧ tryFromTerm b = some (.dateTime (some (.naive n)))) ∨
         (tryFromTerm a = some (.dateTime (some (.naive n))) ∧ tryFromTerm b = some (.dateTime (some (.zoned z))))) := by
  unfold sparqlCmpPanics
  cases ha : tryFromTerm a with
  | none => simp
  | some va =>
    cases hb : tryFromTerm b with
    | none => simp
    | some vb =>
      cases va <;> cases vb <;> simp only [SparqlValue.cmpPanics] <;> try (simp; done)
      rename_i d1 d2
      cases d1 <;> cases d2 <;> try (simp; done)
      rename_i x y
      cases x <;> cases y <;> simp only [XsdDateTime.cmpPanics, hetPanics_iff] <;> simp
      intro _
      exact ⟨fun h => ⟨_, _, h, rfl, rfl⟩, by rintro ⟨z, n, h, rfl, rfl⟩; exact h⟩

/-- the panic does not depend on the order of the operands (nor, therefore, on ASC/DESC) -/
theorem panics_symm (a b : Term) : sparqlCmpPanics a b = sparqlCmpPanics b a := by
  rw [Bool.eq_iff_iff, order_by_panics_iff, order_by_panics_iff]
  constructor <;> rintro ⟨hf, z, n, ho, ⟨h1, h2⟩ | ⟨h1, h2⟩⟩
  · exact ⟨hf, z, n, ho, Or.inr ⟨h2, h1⟩⟩
  · exact ⟨hf, z, n, ho, Or.inl ⟨h2, h1⟩⟩
  · exact ⟨hf, z, n, ho, Or.inr ⟨h2, h1⟩⟩
  · exact ⟨hf, z, n, ho, Or.inl ⟨h2, h1⟩⟩

/-- a value outside the 14 h margins at the two ends of chrono's range -/
def SafeRange (t : Term) : Prop :=
  ∀ n, tryFromTerm t = some (.dateTime (some (.naive n))) → chronoMin + 14 * nsPerHour ≤ n ∧ n + 14 * nsPerHour ≤ chronoMax

/-- PARTIAL form of `NeverPanics`: no panic as long as every non-timezoned dateTime keeps 14 h away from the ends
of chrono's range (years -262142 … 262141 are always safe).  The missing obligation is exactly the margin. -/
theorem never_panics_partial (a b : Term) (ha : SafeRange a) (hb : SafeRange b) : sparqlCmpPanics a b = false := by
  rw [Bool.eq_false_iff]
  intro h
  obtain ⟨_, z, n, ho, ⟨_, h2⟩ | ⟨h1, _⟩⟩ := (order_by_panics_iff a b).1 h
  · have := hb n h2; unfold Overflows at ho; omega
  · have := ha n h1; unfold Overflows at ho; omega

/-- rows: `cmp_bindings_with` reaches no panicking comparison when all key values are in the safe range -/
theorem bindings_never_panic_partial (b1 b2 : Binding) (crit : List (Str × Bool))
    (h1 : ∀ e t, eval e b1 = some t → SafeRange t) (h2 : ∀ e t, eval e b2 = some t → SafeRange t) :
    cmpBindingsPanics b1 b2 crit = false := by
  induction crit with
  | nil => rfl
  | cons p rest ih =>
    obtain ⟨e, d⟩ := p
    have hk : keyPanics (eval e b1) (eval e b2) = false := by
      cases hx : eval e b1 <;> cases hy : eval e b2 <;> simp only [keyPanics]
      exact never_panics_partial _ _ (h1 e _ hx) (h2 e _ hy)
    simp [cmpBindingsPanics, hk, ih]

def dtMinNaive : Term := .lit "-262143-01-01T00:00:00".toList xsdDateTime
def dtMaxNaive : Term := .lit "262142-12-31T23:00:00".toList xsdDateTime
def dtMaxZoned : Term := .lit "262142-12-31T23:30:00Z".toList xsdDateTime

theorem value_dtMinNaive : tryFromTerm dtMinNaive = some (.dateTime (some (.naive chronoMin))) := by decide +kernel
theorem value_dtMaxNaive : tryFromTerm dtMaxNaive = some (.dateTime (some (.naive (chronoMax - 3599999999999)))) := by
  decide +kernel
theorem value_dtMaxZoned : tryFromTerm dtMaxZoned = some (.dateTime (some (.zoned (chronoMax - 1799999999999)))) := by
  decide +kernel
theorem value_dtB : tryFromTerm dtB = some (.dateTime (some (.zoned 1704283200000000000))) := by decide +kernel

/-- the two minimal failing inputs of finding C14-datetime-range-end-unreachable panic exactly as long as the
source has the `unreachable!()` (flag regenerated from /repo) -/
theorem range_end_panic_witness :
    sparqlCmpPanics dtMinNaive dtB = Gen.dateTimeOffsetUnreachable ∧
    sparqlCmpPanics dtMaxNaive dtMaxZoned = Gen.dateTimeOffsetUnreachable := by
  constructor
  · simp only [sparqlCmpPanics, value_dtMinNaive, value_dtB, SparqlValue.cmpPanics, XsdDateTime.cmpPanics, hetPanics]
    cases Gen.dateTimeOffsetUnreachable <;> decide
  · simp only [sparqlCmpPanics, value_dtMaxNaive, value_dtMaxZoned, SparqlValue.cmpPanics, XsdDateTime.cmpPanics, hetPanics]
    cases Gen.dateTimeOffsetUnreachable <;> decide

/-- the FULL panic clause holds exactly when `naive_to_fixed` no longer treats the overflow as unreachable: for the
code before c9027e0 (flag `true`) it is refuted by `range_end_panic_witness`; since that fix (flag `false`) it holds
for all inputs (`never_panics`) -/
theorem never_panics_iff_flag : NeverPanics ↔ Gen.dateTimeOffsetUnreachable = false := by
  constructor
  · intro h
    have := h dtMinNaive dtB
    rw [range_end_panic_witness.1] at this
    exact this
  · intro hf a b
    rw [Bool.eq_false_iff]
    intro h
    have := ((order_by_panics_iff a b).1 h).1
    rw [hf] at this
    cases this

/-- the defects of `XsdDateTime::new` (fixed in 9f7e0fe) and of `naive_to_fixed` (fixed in c9027e0) stay fixed: a
regression of any of the three regenerated flags fails this obligation -/
theorem datetime_flags_pinned : Gen.dateTimeYearUnwrap = false ∧ Gen.dateTimeUnicodeDigits = false ∧
    Gen.dateTimeOffsetUnreachable = false := ⟨rfl, rfl, rfl⟩

/-- the FULL panic clause for the code as it is now: no comparison of two key values panics -/
theorem never_panics : NeverPanics := never_panics_iff_flag.2 datetime_flags_pinned.2.2

/-- hence no row comparison reaches a panic, for all rows and key lists -/
theorem bindings_never_panic (b1 b2 : Binding) (crit : List (Str × Bool)) : cmpBindingsPanics b1 b2 crit = false := by
  induction crit with
  | nil => rfl
  | cons p rest ih =>
    obtain ⟨e, d⟩ := p
    have hk : keyPanics (eval e b1) (eval e b2) = false := by
      cases eval e b1 <;> cases eval e b2 <;> simp only [keyPanics]
      exact never_panics _ _
    simp [cmpBindingsPanics, hk, ih]

-- the transcribed constants are chrono's `NaiveDate::MIN` / `MAX`
example : chronoMinDay = daysFromCivil (-262143) 1 1 ∧ chronoMaxDay = daysFromCivil 262142 12 31 := by decide
example : chronoMin = chronoMinDay * 86400 * 1000000000 ∧ chronoMax = (chronoMaxDay + 1) * 86400 * 1000000000 - 1 := by decide
-- non-vacuity: ordinary dateTimes are in the safe range, the range ends are not
example : SafeRange dtA ∧ SafeRange dtB := by
  constructor <;> intro n h
  · have : tryFromTerm dtA = some (.dateTime (some (.naive 1704110400000000000))) := by decide +kernel
    rw [this] at h; cases h; decide
  · rw [value_dtB] at h; cases h
example : ¬ SafeRange dtMinNaive := fun h => by
  have := (h _ value_dtMinNaive).1
  revert this; decide

/-! ## the sort std runs on at most 20 rows (`stdSmallSort` = `insertion_sort_shift_left`) -/

theorem insertTail_perm {α : Type} (lt : α → α → Bool) (x : α) (l : List α) : (insertTail lt x l).Perm (x :: l) := by
  induction l with
  | nil => exact List.Perm.refl _
  | cons y ys ih =>
    unfold insertTail
    split
    · exact ((List.Perm.cons y ih).trans (List.Perm.swap x y ys))
    · exact List.Perm.refl _

theorem insertionSortRev_perm {α : Type} (lt : α → α → Bool) (l acc : List α) :
    (l.foldl (fun acc x => insertTail lt x acc) acc).Perm (l.reverse ++ acc) := by
  induction l generalizing acc with
  | nil => simp
  | cons x xs ih =>
    simp only [List.foldl_cons, List.reverse_cons, List.append_assoc, List.singleton_append]
    exact (ih _).trans (List.Perm.append_left _ (insertTail_perm lt x acc))

/-- PERMUTATION clause at full strength for at most 20 rows: whatever the comparator does (also where it is not
transitive), std's small sort returns a permutation of its input; being a total function it never panics -/
theorem stdSmallSort_perm {α : Type} (c : α → α → Ordering) (l : List α) : (stdSmallSort c l).Perm l := by
  unfold stdSmallSort insertionSortRev
  have := insertionSortRev_perm (fun a b => c a b == .lt) l []
  simp only [List.append_nil] at this
  exact (List.reverse_perm _).trans (this.trans (List.reverse_perm _))

/-- invariant of the insertion: the reversed prefix stays sorted (`b` after `a` in the reversed list means `b` comes
first in the real order) -/
theorem insertTail_sorted {α : Type} (c : α → α → Ordering) (S : α → Prop) (h : TotalPreorderOn c S) (x : α) (l : List α)
    (hx : S x) (hl : ∀ a ∈ l, S a) (hs : l.Pairwise (fun a b => c b a ≠ .gt)) :
    (insertTail (fun a b => c a b == .lt) x l).Pairwise (fun a b => c b a ≠ .gt) := by
  induction l with
  | nil => simp [insertTail]
  | cons y ys ih =>
    have hy : S y := hl y (by simp)
    have hys : ∀ a ∈ ys, S a := fun a ha => hl a (by simp [ha])
    rw [List.pairwise_cons] at hs
    unfold insertTail
    split
    · rename_i hlt
      have hlt' : c x y = .lt := by simpa using hlt
      rw [List.pairwise_cons]
      refine ⟨fun b hb => ?_, ih hys hs.2⟩
      rcases List.mem_cons.1 ((insertTail_perm _ x ys).mem_iff.1 hb) with hb | hb
      · subst hb; simp [hlt']
      · exact hs.1 b hb
    · rename_i hnlt
      have hge : c x y ≠ .lt := by simpa using hnlt
      have hyx : (c y x).isLE = true := by
        rw [h.swap x y hx hy]; cases hxy : c x y <;> simp_all
      rw [List.pairwise_cons]
      refine ⟨fun b hb => ?_, List.pairwise_cons.2 hs⟩
      rcases List.mem_cons.1 hb with hb | hb
      · subst hb; intro hgt; rw [hgt] at hyx; simp at hyx
      · have hby : (c b y).isLE = true := by
          have := hs.1 b hb; cases hc : c b y <;> simp_all
        have := h.trans b y x (hys b hb) hy hx hby hyx
        intro hgt; rw [hgt] at this; simp at this

theorem insertionSortRev_sorted {α : Type} (c : α → α → Ordering) (S : α → Prop) (h : TotalPreorderOn c S)
    (l acc : List α) (hl : ∀ a ∈ l, S a) (ha : ∀ a ∈ acc, S a) (hs : acc.Pairwise (fun a b => c b a ≠ .gt)) :
    (l.foldl (fun acc x => insertTail (fun a b => c a b == .lt) x acc) acc).Pairwise (fun a b => c b a ≠ .gt) := by
  induction l generalizing acc with
  | nil => exact hs
  | cons x xs ih =>
    simp only [List.foldl_cons]
    refine ih _ (fun a h' => hl a (by simp [h'])) ?_ (insertTail_sorted c S h x acc (hl x (by simp)) ha hs)
    intro a h'
    rcases List.mem_cons.1 ((insertTail_perm _ x acc).mem_iff.1 h') with h' | h'
    · subst h'; exact hl _ (by simp)
    · exact ha a h'

/-- std's small sort meets the contract the sequence-level theorems assume: they hold for the algorithm that
actually runs on results of at most 20 rows -/
theorem stdSmallSort_contract : SortContract stdSmallSort := by
  refine ⟨fun c l => stdSmallSort_perm c l, fun c l h => ?_⟩
  unfold stdSmallSort insertionSortRev
  rw [List.pairwise_reverse]
  exact insertionSortRev_sorted c (· ∈ l) h l [] (fun a ha => ha) (by simp) List.Pairwise.nil

/-- `ORDER BY` on at most 20 rows, as executed (`orderBy stdSmallSort`): a permutation for ALL rows and key lists -/
theorem order_by_small_perm (crit : List (Str × Bool)) (rows : List Binding) :
    (orderBy stdSmallSort crit rows).Perm rows := stdSmallSort_perm _ _

/-! ## the datatype dispatch is the one in the source (generated table) -/

/-- the regenerated table of `try_from_literal`'s arms is exactly the table the model transcribes (names, order and
right-hand sides): an edit of any arm in sparql/src/value.rs fails this obligation -/
theorem xsd_dispatch_pinned : Gen.xsdDispatch = XsdKind.all.map (fun k => (kindNameS k, armOfKind k)) := by decide

/-- an `if name == c then some k else …` chain over a table -/
def ifChain : List (Str × XsdKind) → Str → Option XsdKind
  | [], _ => none
  | (c, k) :: tl, n => if n == c then some k else ifChain tl n

theorem ifChain_eq_find (tbl : List (Str × XsdKind)) (n : Str) :
    ifChain tbl n = (tbl.find? (fun p => n == p.1)).map (·.2) := by
  induction tbl with
  | nil => rfl
  | cons p tl ih =>
    obtain ⟨c, k⟩ := p
    simp only [ifChain, List.find?_cons]
    cases h : (n == c) <;> simp [ih]

/-- `xsdKind` is the lookup of the name in the table of arm names -/
theorem xsdKind_eq_find (name : Str) :
    xsdKind name = XsdKind.all.find? (fun k => name == (kindNameS k).toList) := by
  have h1 : xsdKind name = ifChain (XsdKind.all.map (fun k => ((kindNameS k).toList, k))) name := rfl
  rw [h1, ifChain_eq_find, List.find?_map]
  show Option.map _ (Option.map _ (XsdKind.all.find? (fun k => name == (kindNameS k).toList))) = _
  cases XsdKind.all.find? (fun k => name == (kindNameS k).toList) <;> rfl

/-- each arm of `valueOfKind` is the meaning of its descriptor -/
theorem valueOfKind_eq_armSem (lex : Str) (k : XsdKind) : valueOfKind lex k = armSem (armOfKind k) lex := by
  cases k <;> rfl

/-- REFINEMENT: the hand-transcribed dispatch the theorems are about equals, for all lexical forms and datatype IRIs,
the interpretation of the table regenerated from the source -/
theorem tryFromTyped_eq_generated (lex dt : Str) : tryFromTyped lex dt = tryFromTypedGen lex dt := by
  unfold tryFromTyped tryFromTypedGen
  cases xsdName dt with
  | none => rfl
  | some name =>
    simp only [xsdKind_eq_find, xsd_dispatch_pinned, List.find?_map]
    cases h : XsdKind.all.find? ((fun p : String × Gen.XsdArm => name == p.1.toList) ∘ fun k => (kindNameS k, armOfKind k)) with
    | none =>
      have : XsdKind.all.find? (fun k => name == (kindNameS k).toList) = none := h
      simp [this]
    | some k =>
      have : XsdKind.all.find? (fun k => name == (kindNameS k).toList) = some k := h
      simp [this, valueOfKind_eq_armSem]

/-! ## the only law that fails is transitivity: reflexivity and antisymmetry hold for ALL well-formed terms -/

theorem strCmp_swap (a b : Str) : strCmp b a = (strCmp a b).swap := OrientedOrd.eq_swap

theorem fval_swap (x y : FVal) : y.partialCmp x = (x.partialCmp y).map Ordering.swap := by
  cases x <;> cases y <;> simp [FVal.partialCmp, Int.compare_swap]

theorem decCmp_swap (m1 s1 m2 s2 : Int) : decCmp m2 s2 m1 s1 = (decCmp m1 s1 m2 s2).swap := by
  unfold decCmp
  rw [Int.max_comm s2 s1]
  exact OrientedOrd.eq_swap

theorem number_swap (a b : SparqlNumber) : b.partialCmp a = (a.partialCmp b).map Ordering.swap := by
  cases a <;> cases b <;> simp only [SparqlNumber.partialCmp, SparqlNumber.coerceToDecimal, Option.map_some] <;>
    first
    | exact fval_swap _ _
    | (congr 1; exact decCmp_swap _ _ _ _)
    | (congr 1; exact OrientedOrd.eq_swap)

theorem value_swap (a b : SparqlValue) : b.partialCmp a = (a.partialCmp b).map Ordering.swap := by
  cases a <;> cases b <;> try (simp [SparqlValue.partialCmp]; done)
  · simp only [SparqlValue.partialCmp]; exact number_swap _ _
  · rename_i s1 t1 s2 t2
    cases t1 <;> cases t2 <;> simp only [SparqlValue.partialCmp, Option.map_some, Option.map_none]
    · congr 1; exact strCmp_swap _ _
    · congr 1
      rw [Ordering.swap_then]
      congr 1
      · exact strCmp_swap _ _
      · exact strCmp_swap _ _
  · rename_i b1 b2
    cases b1 <;> cases b2 <;> simp only [SparqlValue.partialCmp, Option.map_some, Option.map_none]
    congr 1; exact OrientedOrd.eq_swap
  · rename_i d1 d2
    cases d1 <;> cases d2 <;> simp only [SparqlValue.partialCmp, Option.map_none]
    exact dateTime_swap _ _

theorem sparqlCmp_swap (a b : Term) : sparqlCmp b a = (sparqlCmp a b).map Ordering.swap := by
  unfold sparqlCmp
  cases tryFromTerm a <;> cases tryFromTerm b <;> simp only [] <;>
    first
    | exact value_swap _ _
    | (rw [C02.termEq_symm b a, Bool.and_comm (isLiteral b)]; split <;> simp_all)

/-- antisymmetry of the ORDER BY comparator on ALL well-formed terms -/
theorem order_swap_all (a b : Term) (ha : a.WF = true) (hb : b.WF = true) : cmp b a = (cmp a b).swap := by
  show (sparqlCmp b a).getD (termCmp b a) = ((sparqlCmp a b).getD (termCmp a b)).swap
  rw [sparqlCmp_swap a b]
  cases sparqlCmp a b with
  | none => simp [C02.cmp_swap a b ha hb]
  | some o => simp
/-- reflexivity of the ORDER BY comparator on ALL well-formed terms (also NaN, ill-typed literals, …) -/
theorem order_refl_all (a : Term) (ha : a.WF = true) : cmp a a = .eq := by
  have := order_swap_all a a ha ha
  cases h : cmp a a <;> simp_all

/-- so `OrderTotalPreorder` fails by transitivity ALONE: its two other laws hold on all admissible terms -/
theorem order_laws_except_transitivity :
    (∀ a, Admissible a → cmp a a = .eq) ∧ (∀ a b, Admissible a → Admissible b → cmp b a = (cmp a b).swap) ∧
    ¬ (∀ a b d, Admissible a → Admissible b → Admissible d → (cmp a b).isLE = true → (cmp b d).isLE = true →
        (cmp a d).isLE = true) := by
  refine ⟨fun a ha => order_refl_all a ha.1, fun a b ha hb => order_swap_all a b ha.1 hb.1, fun htr => ?_⟩
  exact not_order_total_preorder ⟨fun a ha => order_refl_all a ha.1, fun a b ha hb => order_swap_all a b ha.1 hb.1, htr⟩

/-- rows: swapping two solutions swaps the outcome, for every key list, whenever the key values are well formed
(what makes the two-row observable of the harness, and std's `is_less`, meaningful) -/
theorem bindings_swap_all (b1 b2 : Binding) (crit : List (Str × Bool))
    (h1 : ∀ e t, eval e b1 = some t → t.WF = true) (h2 : ∀ e t, eval e b2 = some t → t.WF = true) :
    cmpBindingsWith b2 b1 crit = (cmpBindingsWith b1 b2 crit).swap := by
  induction crit with
  | nil => rfl
  | cons p rest ih =>
    obtain ⟨e, d⟩ := p
    have hk : keyCmp (eval e b2) (eval e b1) = (keyCmp (eval e b1) (eval e b2)).swap := by
      cases hx : eval e b1 <;> cases hy : eval e b2 <;> try rfl
      exact order_swap_all _ _ (h1 e _ hx) (h2 e _ hy)
    simp only [cmpBindingsWith, hk, ih, Ordering.swap_then]
    cases d <;> simp

/-- the sequence-level theorems instantiated with the sort that actually runs on at most 20 rows -/
theorem order_by_small_sorted (crit : List (Str × Bool)) (rows : List Binding)
    (h : ∀ e d, (e, d) ∈ crit → OneClass (column (· ∈ rows) e)) :
    (orderBy stdSmallSort crit rows).Pairwise (fun x y => rowCmp crit x y ≠ .gt) :=
  (sorted_perm stdSmallSort stdSmallSort_contract crit rows).2 h

-- non-vacuity of the small sort: the cycle of `order_not_transitive` is still permuted, not lost
example : stdSmallSort cmp [xlit "1a" "integer", xlit "10" "integer", xlit "9" "integer"] =
    [xlit "10" "integer", xlit "1a" "integer", xlit "9" "integer"] := by decide

end SophiaProofs.C14
