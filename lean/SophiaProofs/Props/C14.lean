/-
C14 — ORDER BY sorts by a consistent order that respects SPARQL's `<`.

Model: SophiaModel/Model/OrderBy.lean (`cmpBindingsWith`, `sparqlOrderBy`, `sparqlCmp`, value parsing and
the numeric coercion lattice), the same definitions the driver `smd_C14` executes against the real
`SELECT … ORDER BY` queries.

Full statement (`OrderTotalPreorder`): the comparator is a total preorder on all admissible terms.
It is FALSE for the code as written: `order_not_transitive` is a kernel-checked strict 3-cycle
(`"9" < "10" < "1a" < "9"` as xsd:integer), `order_not_transitive_welltyped` one among three
well-typed values, `numeric_ties_not_transitive` a non-strict violation inside the numbers
(2^53, 2^53+1 as integers and 2^53 as a double).  What holds is proved below:

  order_total_preorder_partial   total preorder on every operand set inside ONE comparison class
  respects_lt / kind_order / desc_reverse / lexicographic_keys      for the code as written
  bindings_total_preorder        multi-key comparison of rows is a total preorder when every key column is
  sorted_perm / sorted_respects_lt   ORDER BY output (for any sort meeting the std contract) is a sorted
                                 permutation and never puts `b` before `a` when `a < b` in SPARQL
  repaired_total_preorder        the FULL statement for a repaired comparator (class rank first, exact
                                 comparison inside a class), with repaired_kind_order and
                                 repaired_respects_cmp_partial — documents the fix
-/
import SophiaProofs.Lemmas.OrderBy

namespace SophiaProofs.C14
open SophiaModel SophiaModel.Term SophiaModel.OrderBy SophiaProofs SophiaProofs.OrderByLemmas Std

/-! ## the comparators -/

-- `cmp a b = sparqlOrderBy a (some b)` (Lemmas/OrderBy.lean): the comparator on two bound values.

/-- comparison of two solutions on the criteria `crit` -/
def rowCmp (crit : List (Str × Bool)) (b1 b2 : Binding) : Ordering := cmpBindingsWith b1 b2 crit

/-- solution values: well-formed terms (C02) whose value can be computed without panicking -/
def Admissible (t : Term) : Prop := t.WF = true ∧ panics t = false

instance (t : Term) : Decidable (Admissible t) := by unfold Admissible; exact inferInstance

/-- FULL STATEMENT of the preorder clause: reflexive-as-`Equal`, antisymmetric up to swap, transitive,
on all admissible terms -/
def OrderTotalPreorder : Prop := TotalPreorderOn cmp Admissible

/-! ## refutation of the full statement for the code as written -/

def xlit (lex dt : String) : Term := .lit lex.toList (xsdPrefix ++ dt.toList)

/-- a strict 3-cycle: `9 < 10` by value, `10 < "1a"` and `"1a" < 9` by `Term::cmp` -/
theorem order_not_transitive :
    ∃ a b c, Admissible a ∧ Admissible b ∧ Admissible c ∧ cmp a b = .lt ∧ cmp b c = .lt ∧ cmp c a = .lt :=
  ⟨xlit "9" "integer", xlit "10" "integer", xlit "1a" "integer", by decide⟩

/-- the same with three well-typed values: `5 < 7` by value, `7^^byte < "x"^^string < 5^^unsignedByte`
by datatype IRI -/
theorem order_not_transitive_welltyped :
    ∃ a b c, (tryFromTerm a).isSome ∧ (tryFromTerm b).isSome ∧ (tryFromTerm c).isSome ∧
      cmp a b = .lt ∧ cmp b c = .lt ∧ cmp c a = .lt :=
  ⟨xlit "5" "unsignedByte", xlit "7" "byte", xlit "x" "string", by decide⟩

theorem not_order_total_preorder : ¬ OrderTotalPreorder := by
  intro h
  obtain ⟨a, b, c, ha, hb, hc, h1, h2, h3⟩ := order_not_transitive
  exact h.no_cycle ha hb hc ⟨h1, h2, h3⟩

/-- inside the numbers the violation is non-strict: `2^53 < 2^53+1` exactly, but both equal the double
`2^53` after `coerce_to_double` (SPARQL's own numeric promotion behaves the same) -/
theorem numeric_ties_not_transitive :
    ∃ a b c, Admissible a ∧ Admissible b ∧ Admissible c ∧ cmp a b = .lt ∧ cmp b c = .eq ∧ cmp c a = .eq := by
  set_option exponentiation.threshold 4000 in
  set_option maxRecDepth 20000 in
  exact ⟨xlit "9007199254740992" "integer", xlit "9007199254740993" "integer", xlit "9007199254740992" "double",
    by decide +kernel⟩

theorem not_order_total_preorder' : ¬ OrderTotalPreorder := by
  intro h
  obtain ⟨a, b, c, ha, hb, hc, h1, h2, h3⟩ := numeric_ties_not_transitive
  have := h.trans b c a hb hc ha (by simp [h2]) (by simp [h3])
  rw [h.swap a b ha hb, h1] at this
  simp at this

/-! ## what holds: one comparison class at a time -/

/-- operand sets inside one comparison class -/
inductive OneClass (S : Term → Prop) : Prop
  /-- IRIs, blank nodes, plain and language-tagged strings, booleans, literals without a value
  (unknown datatype, ill-typed number), ill-formed dateTimes: compared like `Term::cmp` -/
  | termOrdered (h : ∀ t, S t → t.WF = true ∧ TermOrdered t)
  /-- integers (all derived types) and decimals: compared exactly -/
  | exactNum (h : ∀ t, S t → ∃ n p, tryFromTerm t = some (.number n) ∧ exactKey n = some p)
  /-- floats and doubles other than NaN: compared exactly (f32 → f64 is exact) -/
  | floatNum (h : ∀ t, S t → ∃ n f, tryFromTerm t = some (.number n) ∧ floatKey n = some f)
  /-- valid dateTimes that are pairwise comparable (same kind, or more than 14 h apart) -/
  | dateTimes (h : ∀ t, S t → ∃ d, tryFromTerm t = some (.dateTime (some d)))
      (hc : ∀ a b, S a → S b → byValue a b = true)

/-- PARTIAL form of `OrderTotalPreorder`: the comparator is a total preorder on every operand set that
stays inside one comparison class.  (The missing obligation is exactly the mixing of classes: see
`order_not_transitive`, `numeric_ties_not_transitive`.) -/
theorem order_total_preorder_partial (S : Term → Prop) (h : OneClass S) : TotalPreorderOn cmp S := by
  cases h with
  | termOrdered h =>
    refine TotalPreorderOn.of_factor termCmp_totalPreorder id (fun a ha => (h a ha).1) ?_
    intro a b ha hb
    exact cmp_termOrdered a b (h a ha).1 (h b hb).1 (h a ha).2 (h b hb).2
  | exactNum h =>
    let f : Term → Int × Int := fun t => match tryFromTerm t with
      | some (.number n) => (exactKey n).getD (0, 0)
      | _ => (0, 0)
    refine TotalPreorderOn.of_factor (T := fun _ => True) decCmp_totalPreorder f (fun _ _ => trivial) ?_
    intro a b ha hb
    obtain ⟨na, pa, hva, hka⟩ := h a ha
    obtain ⟨nb, pb, hvb, hkb⟩ := h b hb
    rw [cmp_values a b _ _ hva hvb]
    simp only [SparqlValue.partialCmp, partialCmp_exact na nb pa pb hka hkb, Option.getD_some, f, hva, hvb, hka, hkb]
  | floatNum h =>
    let f : Term → FVal := fun t => match tryFromTerm t with
      | some (.number n) => (floatKey n).getD .nan
      | _ => .nan
    refine TotalPreorderOn.of_factor fval_totalPreorder f ?_ ?_
    · intro a ha
      obtain ⟨na, xa, hva, hka⟩ := h a ha
      have := (partialCmp_float na na xa xa hka hka).2.1
      simpa [f, hva, hka] using this
    · intro a b ha hb
      obtain ⟨na, xa, hva, hka⟩ := h a ha
      obtain ⟨nb, xb, hvb, hkb⟩ := h b hb
      obtain ⟨e, nx, ny⟩ := partialCmp_float na nb xa xb hka hkb
      obtain ⟨o, ho⟩ := FVal.partialCmp_some nx ny
      rw [cmp_values a b _ _ hva hvb]
      simp only [SparqlValue.partialCmp, e, ho, Option.getD_some, f, hva, hvb, hka, hkb, fcmp]
  | dateTimes h hc =>
    have key : ∀ a b, S a → S b → ∃ da db o, tryFromTerm a = some (.dateTime (some da)) ∧
        tryFromTerm b = some (.dateTime (some db)) ∧ da.partialCmp db = some o ∧ cmp a b = o := by
      intro a b ha hb
      obtain ⟨da, hva⟩ := h a ha
      obtain ⟨db, hvb⟩ := h b hb
      have hbv := hc a b ha hb
      simp only [byValue, sparqlCmp, hva, hvb, SparqlValue.partialCmp] at hbv
      obtain ⟨o, ho⟩ := Option.isSome_iff_exists.1 hbv
      refine ⟨da, db, o, hva, hvb, ho, ?_⟩
      rw [cmp_values a b _ _ hva hvb]
      simp only [SparqlValue.partialCmp, ho, Option.getD_some]
    refine ⟨fun a ha => ?_, fun a b ha hb => ?_, fun a b d ha hb hd l1 l2 => ?_⟩
    · obtain ⟨da, db, o, hva, hvb, ho, hcmp⟩ := key a a ha ha
      rw [hva] at hvb; cases hvb
      rw [dateTime_refl] at ho; cases ho; exact hcmp
    · obtain ⟨da, db, o, hva, hvb, ho, hcmp⟩ := key a b ha hb
      obtain ⟨db', da', o', hvb', hva', ho', hcmp'⟩ := key b a hb ha
      rw [hva] at hva'; cases hva'; rw [hvb] at hvb'; cases hvb'
      rw [dateTime_swap da db, ho] at ho'
      cases ho'
      rw [hcmp, hcmp']
    · obtain ⟨da, db, o1, hva, hvb, ho1, hc1⟩ := key a b ha hb
      obtain ⟨db', dd, o2, hvb', hvd, ho2, hc2⟩ := key b d hb hd
      obtain ⟨da', dd', o3, hva', hvd', ho3, hc3⟩ := key a d ha hd
      rw [hvb] at hvb'; cases hvb'; rw [hva] at hva'; cases hva'; rw [hvd] at hvd'; cases hvd'
      rw [hc1] at l1; rw [hc2] at l2; rw [hc3]
      exact dateTime_trans da db dd o1 o2 o3 ho1 ho2 ho3 l1 l2

/-! ## `respects_lt`: the ORDER BY comparator extends the comparison behind FILTER's `<` -/

/-- SPARQL's `a < b` as this code base evaluates it (`Less(lhs, rhs)`: `sparql_cmp(..).map(is_lt)`) -/
def sparqlLt (a b : Term) : Prop := sparqlCmp a b = some .lt

theorem respects_lt (a b : Term) (h : sparqlLt a b) : cmp a b = .lt := by
  unfold sparqlLt at h
  simp [cmp, sparqlOrderBy, h]

/-- more generally every outcome of `sparql_cmp` is kept -/
theorem respects_cmp (a b : Term) (o : Ordering) (h : sparqlCmp a b = some o) : cmp a b = o := by
  simp [cmp, sparqlOrderBy, h]

/-! ## `kind_order`: unbound < blank node < IRI < literal -/

/-- rank of a key value; `none` for quoted triples / variables (not ranked by the property) -/
def kindRank : Option Term → Option Nat
  | none => some 0
  | some (.bnode _) => some 1
  | some (.iri _) => some 2
  | some (.lit _ _) => some 3
  | some (.lang _ _) => some 3
  | _ => none

theorem kind_order (v1 v2 : Option Term) (r1 r2 : Nat) (h1 : kindRank v1 = some r1) (h2 : kindRank v2 = some r2)
    (hlt : r1 < r2) : keyCmp v1 v2 = .lt := by
  cases v1 with
  | none =>
    cases v2 with
    | none => simp [kindRank] at h1 h2; omega
    | some b => rfl
  | some a =>
    cases v2 with
    | none => cases a <;> simp [kindRank] at h1 h2 <;> omega
    | some b =>
      show sparqlOrderBy a (some b) = .lt
      cases a <;> cases b <;> simp [kindRank] at h1 h2 <;> subst_vars <;>
        first
        | omega
        | (simp only [sparqlOrderBy, sparqlCmp, tryFromTerm, isLiteral]
           simp
           exact C02.cmp_kind _ _ (by simp [Term.kind, Kind.rank]))

/-! ## `desc_reverse`, `lexicographic_keys` -/

/-- flipping every ASC/DESC flag reverses the comparison of any two solutions -/
theorem desc_reverse (b1 b2 : Binding) (crit : List (Str × Bool)) :
    cmpBindingsWith b1 b2 (crit.map (fun p => (p.1, !p.2))) = (cmpBindingsWith b1 b2 crit).swap := by
  induction crit with
  | nil => rfl
  | cons p rest ih =>
    obtain ⟨e, d⟩ := p
    simp only [List.map_cons, cmpBindingsWith, ih, Ordering.swap_then]
    cases d <;> simp

/-- `ORDER BY DESC(?e)` compares exactly opposite to `ORDER BY ASC(?e)` -/
theorem desc_reverse_single (b1 b2 : Binding) (e : Str) :
    cmpBindingsWith b1 b2 [(e, true)] = (cmpBindingsWith b1 b2 [(e, false)]).swap :=
  desc_reverse b1 b2 [(e, false)]

/-- comparison on one criterion, direction applied -/
def critCmp (e : Str) (desc : Bool) (b1 b2 : Binding) : Ordering :=
  if desc then (keyCmp (eval e b1) (eval e b2)).swap else keyCmp (eval e b1) (eval e b2)

/-- the criteria are applied lexicographically: later keys only break ties of earlier ones -/
theorem lexicographic_keys (b1 b2 : Binding) (e : Str) (desc : Bool) (rest : List (Str × Bool)) :
    cmpBindingsWith b1 b2 ((e, desc) :: rest) = (critCmp e desc b1 b2).then (cmpBindingsWith b1 b2 rest) := rfl

theorem lexicographic_keys_strict (b1 b2 : Binding) (e : Str) (desc : Bool) (rest : List (Str × Bool))
    (h : critCmp e desc b1 b2 ≠ .eq) : cmpBindingsWith b1 b2 ((e, desc) :: rest) = critCmp e desc b1 b2 := by
  rw [lexicographic_keys]; cases hc : critCmp e desc b1 b2 <;> simp_all [Ordering.then]

theorem lexicographic_keys_tie (b1 b2 : Binding) (e : Str) (desc : Bool) (rest : List (Str × Bool))
    (h : critCmp e desc b1 b2 = .eq) : cmpBindingsWith b1 b2 ((e, desc) :: rest) = cmpBindingsWith b1 b2 rest := by
  rw [lexicographic_keys, h]; rfl

/-! ## rows: multi-key comparison is a total preorder when every key column is -/

/-- unbound-first lifting of the value comparator -/
theorem keyCmp_totalPreorder (S : Term → Prop) (h : TotalPreorderOn cmp S) :
    TotalPreorderOn keyCmp (fun v => ∀ t, v = some t → S t) := by
  refine ⟨fun a ha => ?_, fun a b ha hb => ?_, fun a b d ha hb hd l1 l2 => ?_⟩
  · cases a with
    | none => rfl
    | some x => exact h.refl x (ha x rfl)
  · cases a <;> cases b <;> try rfl
    rename_i x y
    exact h.swap x y (ha x rfl) (hb y rfl)
  · cases a with
    | none => cases d <;> rfl
    | some x =>
      cases b with
      | none => exact absurd l1 (by simp [keyCmp, sparqlOrderBy])
      | some y =>
        cases d with
        | none => exact absurd l2 (by simp [keyCmp, sparqlOrderBy])
        | some z => exact h.trans x y z (ha x rfl) (hb y rfl) (hd z rfl) l1 l2

/-- the values a criterion takes on the rows `R` -/
def column (R : Binding → Prop) (e : Str) (t : Term) : Prop := ∃ b, R b ∧ eval e b = some t

theorem critCmp_totalPreorder (R : Binding → Prop) (e : Str) (desc : Bool)
    (h : TotalPreorderOn cmp (column R e)) : TotalPreorderOn (critCmp e desc) R := by
  have hk := (keyCmp_totalPreorder _ h).comap (fun b : Binding => eval e b)
  have hk' : TotalPreorderOn (fun b1 b2 : Binding => keyCmp (eval e b1) (eval e b2)) R :=
    hk.mono (fun b hb t ht => ⟨b, hb, ht⟩)
  cases desc with
  | false => exact hk'
  | true => exact hk'.reverse

/-- `cmp_bindings_with` is a total preorder on a set of solutions as soon as, for every criterion,
the value comparator is one on the values that criterion takes -/
theorem bindings_total_preorder (R : Binding → Prop) (crit : List (Str × Bool))
    (h : ∀ e d, (e, d) ∈ crit → TotalPreorderOn cmp (column R e)) : TotalPreorderOn (rowCmp crit) R := by
  induction crit with
  | nil => exact totalPreorderOn_const R
  | cons p rest ih =>
    obtain ⟨e, d⟩ := p
    have h1 := critCmp_totalPreorder R e d (h e d (by simp))
    have h2 := ih (fun e' d' hm => h e' d' (by simp [hm]))
    exact h1.lex h2

/-! ## `sorted_perm` -/

/-- the contract of `slice::sort_unstable_by` (DESIGN §3.3): a permutation of its input, sorted
w.r.t. the comparator whenever that is a total preorder on the elements -/
structure SortContract (sort : (Binding → Binding → Ordering) → List Binding → List Binding) : Prop where
  perm : ∀ c l, (sort c l).Perm l
  sorted : ∀ c l, TotalPreorderOn c (· ∈ l) → (sort c l).Pairwise (fun x y => c x y ≠ .gt)

/-- `order_by`: collect the solutions, `sort_unstable_by(cmp_bindings_with)` -/
def orderBy (sort : (Binding → Binding → Ordering) → List Binding → List Binding)
    (crit : List (Str × Bool)) (rows : List Binding) : List Binding := sort (rowCmp crit) rows

/-- ORDER BY returns a permutation of the unordered solutions; it is sorted w.r.t. the row comparator
whenever every key column stays inside one comparison class -/
theorem sorted_perm (sort) (hs : SortContract sort) (crit : List (Str × Bool)) (rows : List Binding) :
    (orderBy sort crit rows).Perm rows ∧
    ((∀ e d, (e, d) ∈ crit → OneClass (column (· ∈ rows) e)) →
      (orderBy sort crit rows).Pairwise (fun x y => rowCmp crit x y ≠ .gt)) := by
  refine ⟨hs.perm _ _, fun h => hs.sorted _ _ ?_⟩
  exact bindings_total_preorder (· ∈ rows) crit (fun e d hm => order_total_preorder_partial _ (h e d hm))

/-- consequently, with one ascending key whose values stay in one class, no solution is placed before
another one whose key is smaller in the sense of SPARQL's `<` -/
theorem sorted_respects_lt (sort) (hs : SortContract sort) (e : Str) (rows : List Binding)
    (h : OneClass (column (· ∈ rows) e)) :
    (orderBy sort [(e, false)] rows).Pairwise
      (fun x y => ∀ tx ty, eval e x = some tx → eval e y = some ty → ¬ sparqlLt ty tx) := by
  have hp := (sorted_perm sort hs [(e, false)] rows).1
  have hsorted := (sorted_perm sort hs [(e, false)] rows).2 (by
    intro e' d' hm; simp at hm; rw [hm.1]; exact h)
  have hpre := order_total_preorder_partial _ h
  refine (List.pairwise_iff_forall_sublist.2 ?_)
  intro x y hxy tx ty hx hy hlt
  have hne := List.pairwise_iff_forall_sublist.1 hsorted hxy
  have hxm : x ∈ rows := hp.mem_iff.1 (hxy.subset (by simp))
  have hym : y ∈ rows := hp.mem_iff.1 (hxy.subset (by simp))
  have h1 : cmp ty tx = .lt := respects_lt ty tx hlt
  have h2 : cmp tx ty = .gt := by
    rw [hpre.swap ty tx ⟨y, hym, hy⟩ ⟨x, hxm, hx⟩, h1]; rfl
  apply hne
  have : rowCmp [(e, false)] x y = cmp tx ty := by
    simp only [rowCmp, cmpBindingsWith, keyCmp, hx, hy, cmp]
    cases sparqlOrderBy tx (some ty) <;> rfl
  rw [this]; exact h2

/-! ## a repaired comparator: class rank first, exact comparison inside a class -/

/-- FULL statement for the repaired comparator: a total preorder on all well-formed terms -/
theorem repaired_total_preorder : TotalPreorderOn repairedCmp (fun t => t.WF = true) := by
  apply lexRank rrank rinner
  intro k
  by_cases h2 : k = 2
  · subst h2
    let f : Term → NumKey := fun t => match rclass t with | .num x => x | _ => .nan
    refine TotalPreorderOn.of_factor numKey_cmp_totalPreorder f ?_ ?_
    · rintro a ⟨_, ha⟩
      rcases rrank_cases a with ⟨x, hx, _⟩ | ⟨x, hx, hr⟩ | ⟨hx, hr, _⟩
      · simp only [f, hx]; exact rclass_num_pos hx
      · omega
      · exact absurd ha hr
    · rintro a b ⟨_, ha⟩ ⟨_, hb⟩
      rcases rrank_cases a with ⟨x, hx, _⟩ | ⟨x, hx, hr⟩ | ⟨hx, hr, _⟩ <;> first | omega | skip
      rcases rrank_cases b with ⟨y, hy, _⟩ | ⟨y, hy, hr⟩ | ⟨hy, hr, _⟩ <;> first | omega | skip
      simp only [rinner, f, hx, hy]
  · by_cases h3 : k = 3
    · subst h3
      let f : Term → Int := fun t => match rclass t with | .time x => x | _ => 0
      refine TotalPreorderOn.of_factor (T := fun _ => True)
        (totalPreorder_of_key (fun x : Int => x) (fun x y => compare x y) _ (fun _ _ _ _ => rfl)) f (fun _ _ => trivial) ?_
      rintro a b ⟨_, ha⟩ ⟨_, hb⟩
      rcases rrank_cases a with ⟨x, hx, hr⟩ | ⟨x, hx, _⟩ | ⟨hx, _, hr⟩ <;> first | omega | skip
      rcases rrank_cases b with ⟨y, hy, hr⟩ | ⟨y, hy, _⟩ | ⟨hy, _, hr⟩ <;> first | omega | skip
      simp only [rinner, f, hx, hy]
    · refine TotalPreorderOn.of_factor termCmp_totalPreorder id (fun a ha => ha.1) ?_
      rintro a b ⟨_, ha⟩ ⟨_, hb⟩
      rcases rrank_cases a with ⟨x, hx, hr⟩ | ⟨x, hx, hr⟩ | ⟨hx, _, _⟩ <;> first | omega | skip
      simp only [rinner, hx, id]

/-- inside one comparison class the repaired comparator returns every outcome of SPARQL's value
comparison (`<`, `=`, `>`); across the exact/float divide this needs monotonicity of IEEE rounding
(true, not proved here) -/
theorem repaired_respects_cmp_partial (a b : Term) (o : Ordering) (h : sparqlCmp a b = some o)
    (hc : OneClass (fun t => t = a ∨ t = b)) : repairedCmp a b = o := by
  have hcmp : cmp a b = o := respects_cmp a b o h
  cases hc with
  | termOrdered hc =>
    obtain ⟨wa, ta⟩ := hc a (Or.inl rfl)
    obtain ⟨wb, tb⟩ := hc b (Or.inr rfl)
    obtain ⟨la, lb⟩ := sparqlCmp_some_literal h
    have ra := rclass_termOrdered ta
    have rb := rclass_termOrdered tb
    rw [cmp_termOrdered a b wa wb ta tb] at hcmp
    simp [repairedCmp, rrank_literal_term ra la, rrank_literal_term rb lb, rinner, ra, rb, hcmp]
  | exactNum hc =>
    obtain ⟨na, pa, hva, hka⟩ := hc a (Or.inl rfl)
    obtain ⟨nb, pb, hvb, hkb⟩ := hc b (Or.inr rfl)
    rw [cmp_values a b _ _ hva hvb] at hcmp
    simp only [SparqlValue.partialCmp, partialCmp_exact na nb pa pb hka hkb, Option.getD_some] at hcmp
    simp [repairedCmp, (rclass_of_number hva).2, (rclass_of_number hvb).2, rinner, (rclass_of_number hva).1,
      (rclass_of_number hvb).1, numKey_cmp_exact na nb pa pb hka hkb, hcmp]
  | floatNum hc =>
    obtain ⟨na, xa, hva, hka⟩ := hc a (Or.inl rfl)
    obtain ⟨nb, xb, hvb, hkb⟩ := hc b (Or.inr rfl)
    obtain ⟨e, nx, ny⟩ := partialCmp_float na nb xa xb hka hkb
    have hs : sparqlCmp a b = xa.partialCmp xb := by
      simp only [sparqlCmp, hva, hvb, SparqlValue.partialCmp, e]
    rw [hs] at h
    have hk : ∀ (n : SparqlNumber) (x : FVal), floatKey n = some x → numKey n = fvalKey x := by
      intro n x hx
      cases n <;> simp_all [floatKey, numKey] <;> (obtain ⟨_, rfl⟩ := hx; rfl)
    simp [repairedCmp, (rclass_of_number hva).2, (rclass_of_number hvb).2, rinner, (rclass_of_number hva).1,
      (rclass_of_number hvb).1, hk na xa hka, hk nb xb hkb, fvalKey_cmp xa xb o h]
  | dateTimes hc _ =>
    clear hcmp
    obtain ⟨da, hva⟩ := hc a (Or.inl rfl)
    obtain ⟨db, hvb⟩ := hc b (Or.inr rfl)
    have hs : sparqlCmp a b = da.partialCmp db := by
      simp only [sparqlCmp, hva, hvb, SparqlValue.partialCmp]
    rw [hs] at h
    simp only [repairedCmp, (rclass_of_dateTime hva).2, (rclass_of_dateTime hvb).2, rinner, (rclass_of_dateTime hva).1,
      (rclass_of_dateTime hvb).1]
    cases da <;> cases db <;> simp only [XsdDateTime.partialCmp] at h <;>
      (repeat' split at h) <;> simp only [Option.some.injEq, reduceCtorEq] at h <;> subst_vars <;>
      simp only [nsPerHour] at * <;>
      first
      | rfl
      | (show compare (_ : Int) _ = Ordering.lt; exact Int.compare_eq_lt.2 (by omega))
      | (show compare (_ : Int) _ = Ordering.gt; exact Int.compare_eq_gt.2 (by omega))

/-- the repaired comparator keeps blank node < IRI < literal -/
theorem repaired_kind_order (x y : Str) (l : Term) (hl : isLiteral l = true) :
    repairedCmp (.bnode x) (.iri y) = .lt ∧ repairedCmp (.iri y) l = .lt ∧ repairedCmp (.bnode x) l = .lt := by
  have hb : rrank (.bnode x) = 0 := by simp [rrank, rclass, tryFromTerm, Term.kind]
  have hi : rrank (.iri y) = 1 := by simp [rrank, rclass, tryFromTerm, Term.kind]
  have h2 := rrank_literal_ge hl
  refine ⟨?_, ?_, ?_⟩ <;> simp only [repairedCmp, hb, hi]
  · rfl
  · rw [Nat.compare_eq_lt.2 (by omega)]; rfl
  · rw [Nat.compare_eq_lt.2 (by omega)]; rfl

/-! ## non-vacuity -/

-- non-vacuity of the four classes
example : OneClass (fun t => t = xlit "9" "integer" ∨ t = xlit "10.50" "decimal") :=
  .exactNum (by
    rintro t (rfl | rfl)
    · exact ⟨.nativeInt 9, (9, 0), by decide, rfl⟩
    · exact ⟨.decimal 1050 2, (1050, 2), by decide, rfl⟩)

set_option exponentiation.threshold 4000 in
set_option maxRecDepth 20000 in
example : OneClass (fun t => t = xlit "1e1" "double" ∨ t = xlit "9" "float" ∨ t = xlit "-INF" "double") :=
  .floatNum (by
    rintro t (rfl | rfl | rfl)
    · exact ⟨.double (.fin (10 * 2 ^ 1074)), .fin (10 * 2 ^ 1074), by decide +kernel, by decide +kernel⟩
    · exact ⟨.float (.fin (9 * 2 ^ 1074)), .fin (9 * 2 ^ 1074), by decide +kernel, by decide +kernel⟩
    · exact ⟨.double .ninf, .ninf, by decide +kernel, by decide +kernel⟩)

example : OneClass (fun t => t = .iri "http://ex.org/a".toList ∨ t = .lit "x".toList xsdString ∨
    t = .lang "x".toList "en".toList ∨ t = xlit "1a" "integer" ∨ t = .lit "maybe".toList xsdBoolean) :=
  .termOrdered (by
    rintro t (rfl | rfl | rfl | rfl | rfl)
    · exact ⟨by decide, .novalue _ rfl⟩
    · exact ⟨by decide, .plain _⟩
    · exact ⟨by decide, .tagged _ _⟩
    · exact ⟨by decide, .novalue _ (by decide)⟩
    · exact ⟨by decide, .boolean _⟩)

def dtA : Term := .lit "2024-01-01T12:00:00".toList xsdDateTime
def dtB : Term := .lit "2024-01-03T12:00:00Z".toList xsdDateTime
example : OneClass (fun t => t = dtA ∨ t = dtB) :=
  .dateTimes (by
    rintro t (rfl | rfl)
    · exact ⟨.naive 1704110400000000000, by decide +kernel⟩
    · exact ⟨.zoned 1704283200000000000, by decide +kernel⟩)
    (by rintro a b (rfl | rfl) (rfl | rfl) <;> decide +kernel)

/-- a sort meeting the contract exists: merge sort on the rows (as elements of the input list) -/
def refSort (c : Binding → Binding → Ordering) (l : List Binding) : List Binding :=
  (l.attach.mergeSort (fun a b => c a.1 b.1 != .gt)).map Subtype.val

theorem refSort_contract : SortContract refSort := by
  refine ⟨fun c l => ?_, fun c l h => ?_⟩
  · unfold refSort
    have := (List.mergeSort_perm l.attach (fun a b => c a.1 b.1 != .gt)).map Subtype.val
    simpa using this
  · unfold refSort
    have hs := List.pairwise_mergeSort (le := fun a b : {x // x ∈ l} => c a.1 b.1 != .gt)
      (fun a b d h1 h2 => by
        have := h.trans a.1 b.1 d.1 a.2 b.2 d.2 (by simpa [Ordering.isLE_iff_ne_gt] using h1)
          (by simpa [Ordering.isLE_iff_ne_gt] using h2)
        simpa [Ordering.isLE_iff_ne_gt] using this)
      (fun a b => by
        have := h.swap a.1 b.1 a.2 b.2
        cases hab : c a.1 b.1 <;> simp_all)
      l.attach
    rw [List.pairwise_map]
    exact hs.imp (fun hab => by simpa using hab)

-- the structural theorems apply to rows with unbound cells and mixed directions
example : rowCmp [("k0".toList, true), ("k1".toList, false)]
    [("k0".toList, xlit "9" "integer")] [("k0".toList, xlit "10" "integer"), ("k1".toList, .iri "x:a".toList)] = .gt := by
  decide
example : kindRank none = some 0 ∧ kindRank (some (.bnode "b".toList)) = some 1 ∧
    kindRank (some (xlit "1a" "integer")) = some 3 := by decide
example : sparqlLt (xlit "9" "integer") (xlit "10.5" "decimal") := by unfold sparqlLt; decide
-- the repaired comparator breaks the cycle of `order_not_transitive`: the ill-typed literal is ranked after the numbers
example : repairedCmp (xlit "9" "integer") (xlit "10" "integer") = .lt ∧
    repairedCmp (xlit "10" "integer") (xlit "1a" "integer") = .lt ∧
    repairedCmp (xlit "9" "integer") (xlit "1a" "integer") = .lt := by decide

end SophiaProofs.C14
