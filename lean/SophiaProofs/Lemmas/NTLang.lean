/-
Links between the character-class predicates of `SophiaModel/Model/NT.lean` (`iriOk`,
`labelOk`, `tagOk`) and the grammar's terminals written as regular expressions (`NT.G.*`), so
that the verified regex decision procedure can relate them to the toolkit's validators.
-/
import SophiaProofs.Lemmas.NT

set_option linter.unusedSimpArgs false
set_option linter.unnecessarySimpa false

namespace SophiaProofs.NTL
open SophiaModel SophiaModel.NT SophiaModel.Re

theorem matches_star_cls {rs : List (Nat × Nat)} : ∀ w : List Nat,
    Matches (.star (.cls rs)) w → ∀ x ∈ w, inCls rs x = true := by
  intro w
  induction w with
  | nil => intro _ x hx; cases hx
  | cons c w ih =>
    intro h x hx
    rw [matches_star_cons] at h
    obtain ⟨u, v, rfl, h1, h2⟩ := h
    rw [matches_cls] at h1
    obtain ⟨d, hd, hin⟩ := h1
    simp only [List.cons.injEq] at hd
    obtain ⟨rfl, rfl⟩ := hd
    rcases List.mem_cons.1 hx with rfl | hx'
    · exact hin
    · exact ih h2 x (by simpa using hx')

/-- decomposition of a match of `star a` into matches of `a` -/
theorem matches_star_pieces {a : Re} {w : List Nat} (h : Matches (.star a) w) :
    ∃ ps : List (List Nat), w = ps.flatten ∧ ∀ p ∈ ps, Matches a p := by
  generalize hr : Re.star a = r at h
  induction h with
  | eps => cases hr
  | cls _ => cases hr
  | cat _ _ => cases hr
  | altL _ => cases hr
  | altR _ => cases hr
  | star0 => exact ⟨[], rfl, by simp⟩
  | @starS a' u v h1 _ _ ih2 =>
    cases hr
    obtain ⟨ps, rfl, hps⟩ := ih2 rfl
    exact ⟨u :: ps, by simp, by
      intro p hp
      rcases List.mem_cons.1 hp with rfl | hp'
      · exact h1
      · exact hps p hp'⟩

theorem char_eq_of_toNat (c d : Char) (h : c.toNat = d.toNat) : c = d := by
  apply Char.ext
  apply UInt32.toNat_inj.1
  exact h

/-! ### IRIs -/

theorem iriOk_of_matches (s : Str) (h : Matches G.IRIREF_RAW (natStr s)) : iriOk s = true := by
  have := matches_star_cls _ h
  simp only [iriOk, List.all_eq_true, iriCharOk]
  intro c hc
  exact this c.toNat (by simp [natStr]; exact ⟨c, hc, rfl⟩)

/-! ### labels -/

theorem isLabelCh_of_cls (d : Char) (h : inCls ((0x2E, 0x2E) :: pnCharsR) d.toNat = true) : isLabelCh d = true := by
  simp only [inCls, List.any_cons, Bool.or_eq_true, Bool.and_eq_true, decide_eq_true_eq] at h
  rcases h with ⟨h1, h2⟩ | h
  · have : d = '.' := char_eq_of_toNat d '.' (by show d.toNat = 46; omega)
    simp [isLabelCh, this]
  · simp only [isLabelCh, isPnChars, inCls, Bool.or_eq_true]
    left
    simpa [Bool.and_eq_true, decide_eq_true_eq] using h

theorem isLabelCh_of_pn (d : Char) (h : inCls pnCharsR d.toNat = true) : isLabelCh d = true := by
  simp [isLabelCh, isPnChars, h]

theorem labelOk_of_matches (l : Str) (h : Matches G.BLANK_NODE_LABEL (natStr l)) : labelOk l = true := by
  simp only [G.BLANK_NODE_LABEL, Re.opt] at h
  rw [matches_cat] at h
  obtain ⟨u, v, huv, hu, hv⟩ := h
  rw [matches_cls] at hu
  obtain ⟨a, rfl, ha⟩ := hu
  cases l with
  | nil => simp [natStr] at huv
  | cons c body =>
    simp only [natStr, List.map_cons, List.cons_append, List.nil_append, List.cons.injEq] at huv
    obtain ⟨rfl, hbody⟩ := huv
    simp only [labelOk, Bool.and_eq_true, bne_iff_ne, ne_eq, List.all_eq_true]
    rw [matches_alt] at hv
    rcases hv with hv | hv
    · rw [matches_cat] at hv
      obtain ⟨x, y, rfl, hx, hy⟩ := hv
      rw [matches_cls] at hy
      obtain ⟨b, rfl, hb⟩ := hy
      have hxs := matches_star_cls _ hx
      refine ⟨⟨ha, ?_⟩, ?_⟩
      · intro d hd
        have : d.toNat ∈ x ++ [b] := by rw [← hbody]; exact List.mem_map.2 ⟨d, hd, rfl⟩
        rcases List.mem_append.1 this with h1 | h1
        · exact isLabelCh_of_cls d (hxs _ h1)
        · simp only [List.mem_singleton] at h1
          exact isLabelCh_of_pn d (h1 ▸ hb)
      · intro hl
        have : (List.map Char.toNat body).getLast? = some ('.' : Char).toNat := by
          rw [List.getLast?_map, hl]; rfl
        rw [hbody] at this
        simp only [List.getLast?_append, List.getLast?_singleton, Option.some_or, Option.some.injEq] at this
        rw [this] at hb
        exact absurd hb (by decide)
    · rw [matches_eps] at hv
      subst hv
      have : body = [] := by simpa using hbody
      subst this
      exact ⟨⟨ha, by simp⟩, by simp⟩

/-! ### language tags -/

theorem splitDash_app (A : Str) (hA : ∀ c ∈ A, c ≠ '-') (rest h : Str) (t : List Str)
    (hr : splitDash rest = h :: t) : splitDash (A ++ rest) = (A ++ h) :: t := by
  induction A with
  | nil => simpa using hr
  | cons c A ih =>
    have hc : c ≠ '-' := hA c (by simp)
    have := ih (fun x hx => hA x (by simp [hx]))
    simp [splitDash, hc, this]

theorem splitDash_subs (subs : List Str) (hs : ∀ s ∈ subs, ∀ c ∈ s, c ≠ '-') :
    splitDash (subs.flatMap (fun s => '-' :: s)) = [] :: subs := by
  induction subs with
  | nil => rfl
  | cons s ss ih =>
    have ih' := ih (fun x hx => hs x (by simp [hx]))
    simp only [List.flatMap_cons, List.cons_append, splitDash, if_true]
    rw [splitDash_app s (hs s (by simp)) _ [] ss ih']
    simp

theorem alnum_ne_dash (c : Char) (h : isAlnum c = true) : c ≠ '-' := by
  intro e; subst e; exact absurd h (by decide)

theorem alpha_ne_dash (c : Char) (h : isAlpha c = true) : c ≠ '-' := alnum_ne_dash c (isAlpha_isAlnum c h)

/-- a word of `plus (cls rs)` is non-empty and all in the class -/
theorem matches_plus_cls {rs : List (Nat × Nat)} {w : List Nat} (h : Matches (Re.plus (.cls rs)) w) :
    w ≠ [] ∧ ∀ x ∈ w, inCls rs x = true := by
  simp only [Re.plus] at h
  rw [matches_cat] at h
  obtain ⟨u, v, rfl, hu, hv⟩ := h
  rw [matches_cls] at hu
  obtain ⟨a, rfl, ha⟩ := hu
  refine ⟨by simp, ?_⟩
  intro x hx
  rcases List.mem_append.1 hx with h1 | h1
  · simp only [List.mem_singleton] at h1; exact h1 ▸ ha
  · exact matches_star_cls _ hv x h1

/-- pull a `List Nat` decomposition of `natStr t` back to `t` -/
theorem natStr_append {t : Str} {u v : List Nat} (h : natStr t = u ++ v) :
    ∃ A B, t = A ++ B ∧ natStr A = u ∧ natStr B = v := by
  have := List.map_eq_append_iff.1 h
  obtain ⟨A, B, rfl, h1, h2⟩ := this
  exact ⟨A, B, rfl, h1, h2⟩

theorem mem_natStr {s : Str} {c : Char} (h : c ∈ s) : c.toNat ∈ natStr s := List.mem_map.2 ⟨c, h, rfl⟩

theorem subtags_of_pieces (ps : List (List Nat)) (hps : ∀ p ∈ ps, Matches (.cat G.dash (Re.plus G.alnum)) p) :
    ∀ B : Str, natStr B = ps.flatten →
      ∃ subs : List Str, B = subs.flatMap (fun s => '-' :: s) ∧ ∀ s ∈ subs, subtagOk s = true := by
  induction ps with
  | nil =>
    intro B hB
    have : B = [] := by simpa [natStr] using hB
    exact ⟨[], by simp [this], by simp⟩
  | cons p ps ih =>
    intro B hB
    rw [List.flatten_cons] at hB
    obtain ⟨P, B', rfl, hP, hB'⟩ := natStr_append hB
    obtain ⟨subs, rfl, hsubs⟩ := ih (fun q hq => hps q (by simp [hq])) B' hB'
    have hp := hps p (by simp)
    rw [matches_cat] at hp
    obtain ⟨d, sub, rfl, hd, hsub⟩ := hp
    simp only [G.dash, Re.chr] at hd
    rw [matches_cls] at hd
    obtain ⟨dn, rfl, hdn⟩ := hd
    obtain ⟨hne, hall⟩ := matches_plus_cls hsub
    cases P with
    | nil => simp [natStr] at hP
    | cons c S =>
      simp only [natStr, List.map_cons, List.cons_append, List.nil_append, List.cons.injEq] at hP
      obtain ⟨hc, hS⟩ := hP
      have hc' : c = '-' := by
        apply char_eq_of_toNat
        simp only [inCls, List.any_cons, List.any_nil, Bool.or_false, Bool.and_eq_true, decide_eq_true_eq] at hdn
        rw [hc]; show dn = 45
        have : ('-' : Char).toNat = 45 := rfl
        omega
      subst hc'
      refine ⟨S :: subs, by simp, ?_⟩
      intro s hs
      rcases List.mem_cons.1 hs with rfl | hs'
      · simp only [subtagOk, Bool.and_eq_true, Bool.not_eq_true', List.all_eq_true]
        refine ⟨?_, ?_⟩
        · cases s with
          | nil => simp at hS; exact absurd hS hne
          | cons _ _ => rfl
        · intro x hx
          have : x.toNat ∈ sub := by rw [← hS]; exact List.mem_map.2 ⟨x, hx, rfl⟩
          exact hall _ this
      · exact hsubs s hs'

theorem tagOk_of_matches (t : Str) (h : Matches G.LANGTAG (natStr t)) : tagOk t = true := by
  simp only [G.LANGTAG] at h
  rw [matches_cat] at h
  obtain ⟨u, v, huv, hu, hv⟩ := h
  obtain ⟨A, B, rfl, hA, hB⟩ := natStr_append huv
  obtain ⟨hune, huall⟩ := matches_plus_cls hu
  obtain ⟨ps, rfl, hps⟩ := matches_star_pieces hv
  obtain ⟨subs, rfl, hsubs⟩ := subtags_of_pieces ps hps B hB
  have hAalpha : ∀ c ∈ A, isAlpha c = true := by
    intro c hc
    exact huall _ (by rw [← hA]; exact mem_natStr hc)
  have hsplit : splitDash (A ++ subs.flatMap (fun s => '-' :: s)) = A :: subs := by
    have h2 := splitDash_subs subs (by
      intro s hs c hc
      have := hsubs s hs
      simp only [subtagOk, Bool.and_eq_true, List.all_eq_true] at this
      exact alnum_ne_dash c (this.2 c hc))
    have := splitDash_app A (fun c hc => alpha_ne_dash c (hAalpha c hc)) _ [] subs h2
    simpa using this
  have hAne : A.isEmpty = false := by
    cases A with
    | nil => simp [natStr] at hA; exact absurd hA hune
    | cons _ _ => rfl
  simp only [tagOk, hsplit, hAne, Bool.not_false, Bool.true_and, Bool.and_eq_true, List.all_eq_true]
  exact ⟨hAalpha, hsubs⟩

end SophiaProofs.NTL
