/-
Every blank node of the dataset receives a canonical identifier when step 5 succeeds: the
`unwrap()` of step 6 cannot fail.  Needs: the issuer returned by `hash_n_degree_quads` extends the
one it was given.
-/
import SophiaProofs.Lemmas.Rdfc10B2q

namespace SophiaProofs.Rdfc10L
open SophiaModel SophiaModel.Rdfc10

/-! ### issuers only grow -/

def Ext (i j : Issuer) : Prop := ∀ x, x ∈ i.order → x ∈ j.order

theorem Ext.refl (i : Issuer) : Ext i i := fun _ h => h
theorem Ext.trans {i j k : Issuer} (h1 : Ext i j) (h2 : Ext j k) : Ext i k := fun x h => h2 x (h1 x h)

theorem ext_issue (i : Issuer) (b : Str) : Ext i (i.issue b).2 := by
  unfold Issuer.issue
  split
  · exact Ext.refl i
  · intro x hx
    exact List.mem_append_left _ hx

theorem mem_order_of_get {i : Issuer} (h : IssuerWF i) {b id : Str} (hg : i.get b = some id) : b ∈ i.order := by
  obtain ⟨k, hk, _⟩ := (h.get_iff b id).mp hg
  exact List.mem_of_getElem? hk

theorem get_of_mem_order {i : Issuer} (h : IssuerWF i) {b : Str} (hb : b ∈ i.order) : (i.get b).isSome := by
  obtain ⟨k, hk, hk'⟩ := List.mem_iff_getElem.mp hb
  have : i.order[k]? = some b := by rw [List.getElem?_eq_getElem hk, hk']
  rw [(h.get_iff b _).mpr ⟨k, this, rfl⟩]
  rfl

theorem mem_issue (i : Issuer) (b : Str) (h : IssuerWF i) : b ∈ (i.issue b).2.order := by
  unfold Issuer.issue
  cases hg : i.issued.get b with
  | some id => exact mem_order_of_get h hg
  | none => simp

theorem ext_issueAll (l : List Str) : ∀ i : Issuer, Ext i (issueAll i l) := by
  induction l with
  | nil => intro i; exact Ext.refl i
  | cons b l ih => intro i; exact (ext_issue i b).trans (ih _)

theorem mem_issueAll (l : List Str) : ∀ i : Issuer, IssuerWF i → ∀ x ∈ l, x ∈ (issueAll i l).order := by
  induction l with
  | nil => intro i _ x hx; cases hx
  | cons b l ih =>
    intro i h x hx
    rcases List.mem_cons.mp hx with rfl | hx
    · exact ext_issueAll l _ _ (mem_issue i _ h)
    · exact ih _ (wf_issue i b h) x hx

/-! ### `hash_n_degree_quads` returns an extension of its issuer -/

theorem step544_ext (c : Ctx) (p : List Str) : ∀ acc : Issuer × Str × List Str, Ext acc.1 (p.foldl (step544 c) acc).1 := by
  induction p with
  | nil => intro acc; exact Ext.refl _
  | cons r p ih =>
    intro acc
    rw [List.foldl_cons]
    refine Ext.trans ?_ (ih _)
    unfold step544
    split
    · exact Ext.refl _
    · exact ext_issue _ _

theorem step545_ext {recur : Str → Issuer → Except HErr (Str × Issuer)}
    (hr : ∀ rel ic x, recur rel ic = .ok x → Ext ic x.2) (base : Issuer) (cp : Str)
    (acc : Option (Issuer × Str)) (rel : Str) (x : Option (Issuer × Str))
    (hacc : ∀ a, acc = some a → Ext base a.1) (h : step545 recur cp acc rel = .ok x) :
    ∀ a, x = some a → Ext base a.1 := by
  unfold step545 at h
  cases acc with
  | none => injection h with h; subst h; intro a ha; cases ha
  | some a0 =>
    obtain ⟨ic, path⟩ := a0
    simp only [] at h
    cases hrec : recur rel ic with
    | error e => rw [hrec, bind_err] at h; cases h
    | ok res =>
      rw [hrec, bind_ok] at h
      split at h
      · injection h with h; subst h; intro a ha; cases ha
      · injection h with h
        subst h
        intro a ha
        injection ha with ha
        subst ha
        exact (hacc _ rfl).trans (hr rel ic res hrec)

theorem permBody_ext (c : Ctx) {recur : Str → Issuer → Except HErr (Str × Issuer)}
    (hr : ∀ rel ic x, recur rel ic = .ok x → Ext ic x.2) (base : Issuer) (ch : Chosen) (p : List Str) (x : Chosen)
    (hch : ∀ i, ch.issuer = some i → Ext base i) (h : permBody c recur base ch p = .ok x) :
    ∀ i, x.issuer = some i → Ext base i := by
  unfold permBody at h
  simp only [] at h
  split at h
  · injection h with h; subst h; exact hch
  · cases hf : List.foldlM (step545 recur ch.path) (some ((List.foldl (step544 c) (base, [], []) p).1,
        (List.foldl (step544 c) (base, [], []) p).2.1)) (List.foldl (step544 c) (base, [], []) p).2.2 with
    | error e => rw [hf, bind_err] at h; cases h
    | ok r =>
      rw [hf, bind_ok] at h
      have hinv := foldlM_inv (fun (acc : Option (Issuer × Str)) => ∀ a, acc = some a → Ext base a.1)
        (step545 recur ch.path) (fun s a s' hs hstep => step545_ext hr base ch.path s a s' hs hstep) _ _ r
        (by intro a ha; injection ha with ha; subst ha; exact step544_ext c p (base, [], [])) hf
      cases r with
      | none => injection h with h; subst h; exact hch
      | some a =>
        obtain ⟨ic, path⟩ := a
        simp only [] at h
        split at h
        · injection h with h
          subst h
          intro i hi
          injection hi with hi
          subst hi
          exact hinv _ rfl
        · injection h with h; subst h; exact hch

theorem hnEntry_ext (c : Ctx) {recur : Str → Issuer → Except HErr (Str × Issuer)}
    (hr : ∀ rel ic x, recur rel ic = .ok x → Ext ic x.2) (issuer : Issuer)
    (acc : Str × Option Issuer) (e : Str × List Str) (x : Str × Option Issuer)
    (hacc : Ext issuer (acc.2.getD issuer)) (h : hnEntry c recur issuer acc e = .ok x) :
    Ext issuer (x.2.getD issuer) := by
  unfold hnEntry at h
  split at h
  · cases h
  · cases hf : List.foldlM (permBody c recur (acc.2.getD issuer)) ⟨[], none⟩ (heapPerms e.2) with
    | error err => rw [hf, bind_err] at h; cases h
    | ok ch =>
      rw [hf, bind_ok] at h
      injection h with h
      subst h
      have hinv := foldlM_inv (fun (ch : Chosen) => ∀ i, ch.issuer = some i → Ext (acc.2.getD issuer) i)
        (permBody c recur (acc.2.getD issuer))
        (fun s a s' hs hstep => permBody_ext c hr (acc.2.getD issuer) s a s' hs hstep) _ _ ch
        (by intro i hi; cases hi) hf
      simp only []
      cases hci : ch.issuer with
      | none => exact Ext.refl _
      | some i => exact hacc.trans (hinv i hci)

theorem hashNDegree_ext (c : Ctx) : ∀ (fuel : Nat) (ident : Str) (issuer : Issuer) (depth : Nat) (x : Str × Issuer),
    hashNDegree c fuel ident issuer depth = .ok x → Ext issuer x.2 := by
  intro fuel
  induction fuel with
  | zero => intro ident issuer depth x h; simp only [hashNDegree] at h; cases h
  | succ fuel ih =>
    intro ident issuer depth x h
    simp only [hashNDegree] at h
    split at h
    · cases h
    · cases hb : buildHn c ident issuer with
      | error e => rw [hb, bind_err] at h; cases h
      | ok hn =>
        rw [hb, bind_ok] at h
        cases hf : List.foldlM (hnEntry c (fun rel ic => hashNDegree c fuel rel ic (depth + 1)) issuer) ([], none) hn with
        | error e => rw [hf, bind_err] at h; cases h
        | ok r =>
          rw [hf, bind_ok] at h
          injection h with h
          subst h
          exact foldlM_inv (fun (acc : Str × Option Issuer) => Ext issuer (acc.2.getD issuer))
            (hnEntry c (fun rel ic => hashNDegree c fuel rel ic (depth + 1)) issuer)
            (fun s a s' hs hstep => hnEntry_ext c (fun rel ic x hx => ih rel ic (depth + 1) x hx) issuer s a s' hs hstep)
            hn _ r (Ext.refl _) hf

end SophiaProofs.Rdfc10L

namespace SophiaProofs.Rdfc10L
open SophiaModel SophiaModel.Rdfc10

/-! ### steps 2–5 reach every blank node -/

/-- `b` is listed in some entry of a label-list map -/
def Listed (m : SMap (List Str)) (b : Str) : Prop := ∃ e ∈ m, b ∈ e.2

theorem upsert_push_mem (k x : Str) : ∀ m : SMap (List Str), Listed (m.upsert k (pushAt x)) x
  | [] => ⟨(k, [x]), by simp [SMap.upsert, pushAt], by simp⟩
  | (k', v) :: rest => by
    unfold SMap.upsert
    split
    · exact ⟨(k, pushAt x none), List.mem_cons_self, by simp [pushAt]⟩
    · exact ⟨(k', pushAt x (some v)), List.mem_cons_self, by simp [pushAt]⟩
    · obtain ⟨e, he, hx⟩ := upsert_push_mem k x rest
      exact ⟨e, List.mem_cons_of_mem _ he, hx⟩

theorem upsert_push_mono (k x b : Str) : ∀ m : SMap (List Str), Listed m b → Listed (m.upsert k (pushAt x)) b
  | [], ⟨_, he, _⟩ => by cases he
  | (k', v) :: rest, ⟨e, he, hb⟩ => by
    unfold SMap.upsert
    split
    · exact ⟨e, List.mem_cons_of_mem _ he, hb⟩
    · rcases List.mem_cons.mp he with rfl | he
      · exact ⟨(k', pushAt x (some v)), List.mem_cons_self, by simp [pushAt]; exact Or.inl hb⟩
      · exact ⟨e, List.mem_cons_of_mem _ he, hb⟩
    · rcases List.mem_cons.mp he with rfl | he
      · exact ⟨(k', v), List.mem_cons_self, hb⟩
      · obtain ⟨e', he', hb'⟩ := upsert_push_mono k x b rest ⟨e, he, hb⟩
        exact ⟨e', List.mem_cons_of_mem _ he', hb'⟩

theorem step3_listed (H : Str → Str) : ∀ (l : SMap (List Quad)) (acc : SMap (List Str) × SMap Str),
    let r := l.foldl (fun (acc : SMap (List Str) × SMap Str) (e : Str × List Quad) =>
        let h := hashFirstDegree H e.1 e.2
        (acc.1.upsert h (pushAt e.1), acc.2.upsert e.1 (fun _ => h))) acc
    (∀ b, Listed acc.1 b → Listed r.1 b) ∧ ∀ e ∈ l, Listed r.1 e.1
  | [], acc => ⟨fun _ h => h, fun _ h => nomatch h⟩
  | e :: l, acc => by
    intro r
    have ih := step3_listed H l (acc.1.upsert (hashFirstDegree H e.1 e.2) (pushAt e.1),
      acc.2.upsert e.1 (fun _ => hashFirstDegree H e.1 e.2))
    refine ⟨fun b hb => ih.1 b (upsert_push_mono _ _ _ _ hb), ?_⟩
    intro e' he'
    rcases List.mem_cons.mp he' with rfl | he'
    · exact ih.1 _ (upsert_push_mem _ _ _)
    · exact ih.2 e' he'

theorem mem_of_get {α : Type} : ∀ (m : SMap α) (b : Str) (v : α), SMap.get m b = some v → (b, v) ∈ m
  | [], b, v, h => by rw [get_nil] at h; cases h
  | (k, v0) :: rest, b, v, h => by
    rw [get_cons] at h
    by_cases hb : b = k
    · subst hb
      simp only [if_true] at h
      injection h with h
      subst h
      exact List.mem_cons_self
    · simp only [hb, if_false] at h
      exact List.mem_cons_of_mem _ (mem_of_get rest b v h)

/-- after step 4 every listed label is either still listed (ambiguous hash) or has its canonical identifier -/
theorem step4_covers (h2b : SMap (List Str)) (c : Issuer) (hc : IssuerWF c) :
    ∀ b, Listed h2b b → Listed (step4 h2b c).1 b ∨ b ∈ (step4 h2b c).2.order := by
  unfold step4
  have key : ∀ (l : SMap (List Str)) (acc : SMap (List Str) × Issuer), IssuerWF acc.2 →
      let r := l.foldl (fun (acc : SMap (List Str) × Issuer) (e : Str × List Str) =>
        if e.2.length > 1 then (acc.1 ++ [e], acc.2)
        else match e.2 with
          | b :: _ => (acc.1, acc.2.issue' b)
          | [] => acc) acc
      (∀ b, (Listed acc.1 b ∨ b ∈ acc.2.order) → (Listed r.1 b ∨ b ∈ r.2.order)) ∧
        ∀ b, Listed l b → (Listed r.1 b ∨ b ∈ r.2.order) := by
    intro l
    induction l with
    | nil =>
      intro acc _
      exact ⟨fun _ h => h, fun b ⟨_, he, _⟩ => nomatch he⟩
    | cons e l ih =>
      intro acc hacc
      simp only [List.foldl_cons]
      by_cases hlen : e.2.length > 1
      · simp only [hlen, if_true]
        have := ih (acc.1 ++ [e], acc.2) hacc
        refine ⟨fun b hb => this.1 b ?_, fun b hb => ?_⟩
        · rcases hb with ⟨e', he', hb'⟩ | hb
          · exact Or.inl ⟨e', List.mem_append_left _ he', hb'⟩
          · exact Or.inr hb
        · obtain ⟨e', he', hb'⟩ := hb
          rcases List.mem_cons.mp he' with rfl | he'
          · exact this.1 b (Or.inl ⟨e', by simp, hb'⟩)
          · exact this.2 b ⟨e', he', hb'⟩
      · simp only [hlen, if_false]
        cases he2 : e.2 with
        | nil =>
          simp only []
          have := ih acc hacc
          refine ⟨this.1, fun b hb => ?_⟩
          obtain ⟨e', he', hb'⟩ := hb
          rcases List.mem_cons.mp he' with rfl | he'
          · rw [he2] at hb'; cases hb'
          · exact this.2 b ⟨e', he', hb'⟩
        | cons b0 rest =>
          simp only []
          have := ih (acc.1, acc.2.issue' b0) (wf_issue _ _ hacc)
          refine ⟨fun b hb => this.1 b ?_, fun b hb => ?_⟩
          · rcases hb with hb | hb
            · exact Or.inl hb
            · exact Or.inr (ext_issue _ _ _ hb)
          · obtain ⟨e', he', hb'⟩ := hb
            rcases List.mem_cons.mp he' with rfl | he'
            · have hrest : rest = [] := by
                rw [he2] at hlen
                cases rest with
                | nil => rfl
                | cons _ _ => simp at hlen
              rw [he2, hrest] at hb'
              have : b = b0 := by simpa using hb'
              subst this
              exact this.1 b (Or.inr (mem_issue _ _ hacc))
            · exact this.2 b ⟨e', he', hb'⟩
  intro b hb
  exact (key h2b ([], c) hc).2 b hb

theorem foldl_issueAll_covers (l : List (Str × Issuer)) :
    ∀ c : Issuer, IssuerWF c →
      Ext c (l.foldl (fun can r => issueAll can r.2.order) c) ∧
      ∀ r ∈ l, ∀ x ∈ r.2.order, x ∈ (l.foldl (fun can r => issueAll can r.2.order) c).order := by
  induction l with
  | nil => intro c _; exact ⟨Ext.refl _, fun _ h => nomatch h⟩
  | cons r l ih =>
    intro c hc
    have := ih (issueAll c r.2.order) (wf_issueAll _ _ hc)
    refine ⟨(ext_issueAll _ _).trans this.1, ?_⟩
    intro r' hr' x hx
    rcases List.mem_cons.mp hr' with rfl | hr'
    · exact this.1 x (mem_issueAll _ _ hc x hx)
    · exact this.2 r' hr' x hx

theorem step5Group_covers {H b2q b2h td pl fuel} {c c' : Issuer} {e : Str × List Str} (hc : IssuerWF c)
    (h : step5Group H b2q b2h td pl fuel c e = .ok c') : Ext c c' ∧ ∀ n ∈ e.2, n ∈ c'.order := by
  unfold step5Group at h
  simp only [] at h
  cases hh : (e.2.foldlM (fun (acc : List (Str × Issuer)) n => do
      let r ← hashNDegree ⟨H, b2q, b2h, c, td, pl⟩ fuel n ((Issuer.new ['b']).issue' n) 0
      Except.ok (acc ++ [r])) []) with
  | error err => rw [hh, bind_err] at h; cases h
  | ok hpl =>
    rw [hh, bind_ok] at h
    injection h with h
    subst h
    have hcov : ∀ (l : List Str) (acc r : List (Str × Issuer)),
        l.foldlM (fun (acc : List (Str × Issuer)) n => do
          let r ← hashNDegree ⟨H, b2q, b2h, c, td, pl⟩ fuel n ((Issuer.new ['b']).issue' n) 0
          Except.ok (acc ++ [r])) acc = .ok r →
        (∀ x ∈ acc, x ∈ r) ∧ ∀ n ∈ l, ∃ x ∈ r, n ∈ x.2.order := by
      intro l
      induction l with
      | nil =>
        intro acc r hr
        rw [foldlM_nil] at hr
        injection hr with hr
        subst hr
        exact ⟨fun _ h => h, fun _ h => nomatch h⟩
      | cons n l ih =>
        intro acc r hr
        cases hn : hashNDegree ⟨H, b2q, b2h, c, td, pl⟩ fuel n ((Issuer.new ['b']).issue' n) 0 with
        | error err =>
          rw [foldlM_cons_err _ _ err _ _ (by rw [hn]; rfl)] at hr
          cases hr
        | ok rn =>
          rw [foldlM_cons_ok _ _ (acc ++ [rn]) _ _ (by rw [hn]; rfl)] at hr
          obtain ⟨h1, h2⟩ := ih _ _ hr
          refine ⟨fun x hx => h1 x (List.mem_append_left _ hx), ?_⟩
          intro m hm
          rcases List.mem_cons.mp hm with rfl | hm
          · refine ⟨rn, h1 rn (by simp), ?_⟩
            exact hashNDegree_ext _ _ _ _ _ _ hn _ (mem_issue _ _ (wf_new _))
          · exact h2 m hm
    obtain ⟨_, hall⟩ := hcov e.2 [] hpl hh
    have hfold := foldl_issueAll_covers (sortByHash hpl) c hc
    refine ⟨hfold.1, ?_⟩
    intro n hn
    obtain ⟨x, hx, hnx⟩ := hall n hn
    exact hfold.2 x (List.mem_mergeSort.mpr hx) n hnx

theorem step5_covers {H b2q b2h td pl fuel} : ∀ (h2b : SMap (List Str)) (c c' : Issuer), IssuerWF c →
    step5 H b2q b2h td pl fuel h2b c = .ok c' →
    Ext c c' ∧ ∀ b, Listed h2b b → b ∈ c'.order
  | [], c, c', _, h => by
    unfold step5 at h
    rw [foldlM_nil] at h
    injection h with h
    subst h
    exact ⟨Ext.refl _, fun b ⟨_, he, _⟩ => nomatch he⟩
  | e :: l, c, c', hc, h => by
    unfold step5 at h
    cases hg : step5Group H b2q b2h td pl fuel c e with
    | error err => rw [foldlM_cons_err _ _ _ _ _ hg] at h; cases h
    | ok c1 =>
      rw [foldlM_cons_ok _ _ _ _ _ hg] at h
      obtain ⟨hext1, hcov1⟩ := step5Group_covers hc hg
      obtain ⟨hpl, hc1eq⟩ := step5Group_ok hg
      have hwf1 : IssuerWF c1 := by rw [hc1eq]; exact foldl_issueAll_wf _ _ hc
      obtain ⟨hext2, hcov2⟩ := step5_covers l c1 c' hwf1 h
      refine ⟨hext1.trans hext2, ?_⟩
      intro b ⟨e', he', hb⟩
      rcases List.mem_cons.mp he' with rfl | he'
      · exact hext2 b (hcov1 b hb)
      · exact hcov2 b ⟨e', he', hb⟩

/-- **totality of the canonical issuer**: when steps 2–5 succeed, every label filed by step 2 has
a canonical identifier -/
theorem canonical_total {H : Str → Str} {td : Nat → Nat → Bool} {pl : Nat} {D : List Quad}
    {b2q : SMap (List Quad)} {canonical : Issuer} (_h2 : step2 D = .ok b2q)
    (h5 : step5 H b2q (step3 H b2q).2 td pl (b2q.length + 1) (canon4 H b2q).1 (canon4 H b2q).2 = .ok canonical)
    (b : Str) (qs : List Quad) (hb : b2q.get b = some qs) : (canonical.issued.get b).isSome := by
  have h3 : Listed (step3 H b2q).1 b := by
    unfold step3
    exact (step3_listed H b2q ([], [])).2 (b, qs) (mem_of_get _ _ _ hb)
  have hwf4 : IssuerWF (canon4 H b2q).2 := step4_wf _ _ (wf_new _)
  have h5c := step5_covers _ _ _ hwf4 h5
  have hwf : IssuerWF canonical := (step5_wf _ _ _ h5 hwf4).1
  have : b ∈ canonical.order := by
    rcases step4_covers (step3 H b2q).1 (Issuer.new "c14n".toList) (wf_new _) b h3 with h | h
    · exact h5c.2 b h
    · exact h5c.1 b h
  exact get_of_mem_order hwf this

end SophiaProofs.Rdfc10L
