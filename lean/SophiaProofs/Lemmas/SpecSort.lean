/-
Bridges between the two models' orderings and sorts: the transcription's `cpLess`/`sortBy`
(insertion sort) and the implementation model's `cmpStr`/`mergeSort`.
-/
import SophiaProofs.Lemmas.Sound
import SophiaModel.Model.Rdfc10Spec

namespace SophiaProofs.SpecL
open SophiaModel SophiaModel.Rdfc10 SophiaProofs.Rdfc10L SophiaProofs.CnqL
open Rdfc10Spec (cpLess cpLeq insertBy sortBy)

theorem cpLess_iff : ∀ a b : Str, cpLess a b = true ↔ cmpStr a b = .lt
  | [], [] => by simp [cpLess, cmpStr]
  | _ :: _, [] => by simp [cpLess, cmpStr]
  | [], _ :: _ => by simp [cpLess, cmpStr]
  | a :: as, b :: bs => by
    unfold cpLess cmpStr
    by_cases h1 : a.toNat < b.toNat
    · simp [h1]
    · by_cases h2 : b.toNat < a.toNat
      · have : ¬ a.toNat = b.toNat := by omega
        simp [h1, h2, this]
      · have : a.toNat = b.toNat := by omega
        simp [h1, h2, this, cpLess_iff as bs]

theorem cpLeq_eq_strLe (a b : Str) : cpLeq a b = strLe a b := by
  unfold cpLeq strLe
  cases h : cmpStr a b with
  | gt =>
    have := (cpLess_iff b a).mpr (cmpStr_gt_iff.mp h)
    simp [this]
  | lt =>
    have : cpLess b a = false := by
      cases hc : cpLess b a with
      | false => rfl
      | true =>
        have := (cpLess_iff b a).mp hc
        rw [cmpStr_swap a b, h] at this
        cases this
    simp [this]
  | eq =>
    have : cpLess b a = false := by
      cases hc : cpLess b a with
      | false => rfl
      | true =>
        have := (cpLess_iff b a).mp hc
        rw [cmpStr_swap a b, h] at this
        cases this
    simp [this]

/-! ### insertion sort -/

theorem insertBy_perm {α : Type} (key : α → Str) (x : α) : ∀ l : List α, (insertBy key x l).Perm (x :: l)
  | [] => List.Perm.refl _
  | y :: ys => by
    unfold insertBy
    split
    · exact List.Perm.refl _
    · exact ((insertBy_perm key x ys).cons y).trans (List.Perm.swap _ _ _)

theorem sortBy_perm {α : Type} (key : α → Str) : ∀ l : List α, (sortBy key l).Perm l
  | [] => List.Perm.refl _
  | x :: l => by
    unfold sortBy
    rw [List.foldr_cons]
    exact (insertBy_perm key x _).trans ((sortBy_perm key l).cons x)

theorem insertBy_sorted {α : Type} (key : α → Str) (x : α) :
    ∀ l : List α, l.Pairwise (fun a b => strLe (key a) (key b) = true) →
      (insertBy key x l).Pairwise (fun a b => strLe (key a) (key b) = true)
  | [], _ => by simp [insertBy]
  | y :: ys, h => by
    have hh := List.pairwise_cons.mp h
    unfold insertBy
    split
    · rename_i hle
      rw [cpLeq_eq_strLe] at hle
      refine List.pairwise_cons.mpr ⟨?_, h⟩
      intro z hz
      rcases List.mem_cons.mp hz with rfl | hz
      · exact hle
      · exact strLe_trans hle (hh.1 z hz)
    · rename_i hle
      rw [cpLeq_eq_strLe] at hle
      have hyx : strLe (key y) (key x) = true := by
        have := strLe_total (key x) (key y)
        simp only [Bool.or_eq_true] at this
        rcases this with h | h
        · exact absurd h hle
        · exact h
      refine List.pairwise_cons.mpr ⟨?_, insertBy_sorted key x ys hh.2⟩
      intro z hz
      rcases List.mem_cons.mp ((insertBy_perm key x ys).mem_iff.mp hz) with rfl | hz
      · exact hyx
      · exact hh.1 z hz

theorem sortBy_sorted {α : Type} (key : α → Str) :
    ∀ l : List α, (sortBy key l).Pairwise (fun a b => strLe (key a) (key b) = true)
  | [] => List.Pairwise.nil
  | x :: l => by
    unfold sortBy
    rw [List.foldr_cons]
    exact insertBy_sorted key x _ (sortBy_sorted key l)

/-- both models sort strings to the same list -/
theorem sortBy_id_eq (l : List Str) : sortBy id l = sortStrs l := by
  unfold sortStrs
  apply List.Perm.eq_of_pairwise (le := fun a b => strLe a b = true)
  · intro a b _ _ hab hba; exact strLe_antisymm hab hba
  · exact sortBy_sorted id l
  · exact List.pairwise_mergeSort (le := strLe) (fun a b c => strLe_trans) strLe_total l
  · exact (sortBy_perm id l).trans (List.mergeSort_perm l _).symm

/-- two lists sorted by a key, permutations of each other, with pairwise distinct keys, are equal -/
theorem sorted_by_key_unique {α : Type} (key : α → Str) {l₁ l₂ : List α}
    (h₁ : l₁.Pairwise (fun a b => strLe (key a) (key b) = true))
    (h₂ : l₂.Pairwise (fun a b => strLe (key a) (key b) = true))
    (hp : l₁.Perm l₂) (hnd : (l₁.map key).Nodup) : l₁ = l₂ := by
  apply List.Perm.eq_of_pairwise (le := fun a b => strLe (key a) (key b) = true) _ h₁ h₂ hp
  intro a b ha hb hab hba
  have hk := strLe_antisymm hab hba
  have hb' : b ∈ l₁ := hp.mem_iff.mpr hb
  -- equal keys in a list with distinct keys: equal elements
  have : ∀ (l : List α), (l.map key).Nodup → a ∈ l → b ∈ l → key a = key b → a = b := by
    intro l
    induction l with
    | nil => intro _ h; cases h
    | cons x l ih =>
      intro hnd ha hb hk
      rw [List.map_cons, List.nodup_cons] at hnd
      rcases List.mem_cons.mp ha with hax | ha
      · rcases List.mem_cons.mp hb with hbx | hb
        · rw [hax, hbx]
        · exact absurd (List.mem_map.mpr ⟨b, hb, by rw [← hk, hax]⟩) hnd.1
      · rcases List.mem_cons.mp hb with hbx | hb
        · exact absurd (List.mem_map.mpr ⟨a, ha, by rw [hk, hbx]⟩) hnd.1
        · exact ih hnd.2 ha hb hk
  exact this l₁ hnd ha hb' hk

end SophiaProofs.SpecL
