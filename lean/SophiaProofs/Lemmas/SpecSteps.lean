/-
Steps 2–3 of the transcription of the Recommendation (`Rdfc10Spec`, no deviations) computed in
terms of the implementation model's: on RDF datasets in which no quad mentions a blank node twice,
both file the same quads under every label and compute the same first-degree hashes.
-/
import SophiaProofs.Lemmas.SpecSort

namespace SophiaProofs.SpecL
open SophiaModel SophiaModel.Rdfc10 SophiaProofs.Rdfc10L SophiaProofs.CnqL
open Rdfc10Spec (lookup addTo blankLabel blankNodesOf relatedPositions addOnce isRdfQuad)

/-! ### insertion-ordered association lists -/

theorem lookup_addTo_self {β : Type} (k : Str) (x : β) :
    ∀ m : List (Str × List β), lookup k (addTo k x m) = some ((lookup k m).getD [] ++ [x])
  | [] => by simp [addTo, lookup]
  | (k', v) :: r => by
    unfold addTo
    by_cases h : k = k'
    · simp [h, lookup]
    · simp [h, lookup, lookup_addTo_self k x r]

theorem lookup_addTo_ne {β : Type} (k k' : Str) (x : β) (hne : k' ≠ k) :
    ∀ m : List (Str × List β), lookup k' (addTo k x m) = lookup k' m
  | [] => by simp [addTo, lookup, hne]
  | (k0, v) :: r => by
    unfold addTo
    by_cases h : k = k0
    · subst h; simp [lookup, hne]
    · by_cases h' : k' = k0
      · simp [h, lookup, h']
      · simp [h, lookup, h', lookup_addTo_ne k k' x hne r]

theorem keys_addTo {β : Type} (k : Str) (x : β) :
    ∀ m : List (Str × List β), (addTo k x m).map (·.1) = if k ∈ m.map (·.1) then m.map (·.1) else m.map (·.1) ++ [k]
  | [] => by simp [addTo]
  | (k0, v) :: r => by
    unfold addTo
    by_cases h : k = k0
    · subst h; simp
    · have h' : ¬ k0 = k := fun e => h e.symm
      simp only [h, if_false, List.map_cons, keys_addTo k x r, List.mem_cons, false_or]
      split <;> simp

theorem lookup_none_iff {β : Type} (k : Str) : ∀ m : List (Str × β), lookup k m = none ↔ k ∉ m.map (·.1)
  | [] => by simp [lookup]
  | (k0, v) :: r => by
    unfold lookup
    by_cases h : k = k0
    · simp [h]
    · simp [h, lookup_none_iff k r]

/-! ### the blank nodes of a quad -/

theorem mem_foldl_addOnce (x : Str) : ∀ (l acc : List Str), x ∈ l.foldl (fun acc b => addOnce b acc) acc ↔ x ∈ acc ∨ x ∈ l
  | [], acc => by simp
  | b :: l, acc => by
    rw [List.foldl_cons, mem_foldl_addOnce x l]
    unfold addOnce
    split
    · rename_i hb
      constructor
      · rintro (h | h)
        · exact Or.inl h
        · exact Or.inr (List.mem_cons_of_mem _ h)
      · rintro (h | h)
        · exact Or.inl h
        · rcases List.mem_cons.mp h with rfl | h
          · exact Or.inl hb
          · exact Or.inr h
    · simp only [List.mem_append, List.mem_cons, List.not_mem_nil, or_false]
      constructor
      · rintro ((h | h) | h)
        · exact Or.inl h
        · exact Or.inr (Or.inl h)
        · exact Or.inr (Or.inr h)
      · rintro (h | h | h)
        · exact Or.inl (Or.inl h)
        · exact Or.inl (Or.inr h)
        · exact Or.inr h

theorem nodup_foldl_addOnce : ∀ (l acc : List Str), acc.Nodup → (l.foldl (fun acc b => addOnce b acc) acc).Nodup
  | [], _, h => h
  | b :: l, acc, h => by
    rw [List.foldl_cons]
    apply nodup_foldl_addOnce l
    unfold addOnce
    split
    · exact h
    · rename_i hb
      rw [List.nodup_append]
      refine ⟨h, by simp, ?_⟩
      intro a ha b' hb'
      simp only [List.mem_cons, List.not_mem_nil, or_false] at hb'
      subst hb'
      intro e; subst e; exact hb ha

theorem blankNodesOf_nodup (q : Quad) : (blankNodesOf q).Nodup :=
  nodup_foldl_addOnce _ _ List.nodup_nil

theorem mem_blankNodesOf (q : Quad) (b : Str) :
    b ∈ blankNodesOf q ↔ ∃ c ∈ relatedPositions q, c.1 = Term.bnode b := by
  unfold blankNodesOf
  rw [mem_foldl_addOnce]
  simp only [List.not_mem_nil, false_or, List.mem_filterMap]
  constructor
  · rintro ⟨c, hc, hb⟩
    refine ⟨c, hc, ?_⟩
    cases ht : c.1 <;> simp [blankLabel, ht] at hb
    rw [hb]
  · rintro ⟨c, hc, hb⟩
    exact ⟨c, hc, by simp [blankLabel, hb]⟩

/-- an RDF quad mentions `b` (as subject, object or graph name) iff the implementation files it under `b` -/
theorem mem_blankNodesOf_iff_refs {q : Quad} (hq : isRdfQuad q = true) (b : Str) :
    b ∈ blankNodesOf q ↔ refsOf b q ≠ [] := by
  rw [mem_blankNodesOf]
  have hp : ∃ p, q.p = .iri p := by
    unfold isRdfQuad at hq
    cases hqp : q.p <;> simp [hqp] at hq
    exact ⟨_, rfl⟩
  obtain ⟨p, hp⟩ := hp
  constructor
  · rintro ⟨c, hc, hcb⟩ hnil
    have hmem : q ∈ refsOf b q := by
      unfold refsOf refsIn
      refine List.mem_filterMap.mpr ?_
      unfold relatedPositions at hc
      unfold components
      rcases List.mem_append.mp hc with hc | hc
      · simp only [List.mem_cons, List.not_mem_nil, or_false] at hc
        rcases hc with rfl | rfl
        · exact ⟨(q.s, ['s']), by simp, by simp only [] at hcb; simp [hcb]⟩
        · exact ⟨(q.o, ['o']), by simp, by simp only [] at hcb; simp [hcb]⟩
      · cases hg : q.g with
        | none => rw [hg] at hc; cases hc
        | some g =>
          rw [hg] at hc
          simp only [List.mem_cons, List.not_mem_nil, or_false] at hc
          subst hc
          exact ⟨(g, ['g']), by simp, by simp only [] at hcb; simp [hcb]⟩
    rw [hnil] at hmem
    cases hmem
  · intro hne
    cases hl : refsOf b q with
    | nil => exact absurd hl hne
    | cons x xs =>
      have hx : x ∈ refsOf b q := by rw [hl]; exact List.mem_cons_self
      unfold refsOf refsIn at hx
      obtain ⟨c, hc, hcc⟩ := List.mem_filterMap.mp hx
      have hcb : c.1 = Term.bnode b := by
        by_cases h : c.1 = Term.bnode b
        · exact h
        · simp [h] at hcc
      unfold components at hc
      unfold relatedPositions
      rcases List.mem_append.mp hc with hc | hc
      · simp only [List.mem_cons, List.not_mem_nil, or_false] at hc
        rcases hc with rfl | rfl | rfl
        · exact ⟨(q.s, 's'), by simp, hcb⟩
        · simp only [] at hcb; rw [hp] at hcb; cases hcb
        · exact ⟨(q.o, 'o'), by simp, hcb⟩
      · cases hg : q.g with
        | none => rw [hg] at hc; cases hc
        | some g =>
          rw [hg] at hc
          simp only [List.mem_cons, List.not_mem_nil, or_false] at hc
          subst hc
          exact ⟨(g, 'g'), by simp, hcb⟩

/-- no quad mentions the same blank node twice (the case in which the two readings of step 2.1 coincide) -/
def NoSelfRef (q : Quad) : Prop := ∀ b, (refsOf b q).length ≤ 1

theorem refsOf_all_eq (b : Str) (q : Quad) : ∀ x ∈ refsOf b q, x = q := by
  intro x hx
  unfold refsOf refsIn at hx
  obtain ⟨c, _, hcc⟩ := List.mem_filterMap.mp hx
  split at hcc
  · injection hcc with hcc; exact hcc.symm
  · cases hcc

theorem refsOf_eq_of_noSelfRef {q : Quad} (hq : isRdfQuad q = true) (hn : NoSelfRef q) (b : Str) :
    refsOf b q = if b ∈ blankNodesOf q then [q] else [] := by
  by_cases hb : b ∈ blankNodesOf q
  · rw [if_pos hb]
    have hne := (mem_blankNodesOf_iff_refs hq b).mp hb
    cases hl : refsOf b q with
    | nil => exact absurd hl hne
    | cons x xs =>
      have hx : x = q := refsOf_all_eq b q x (by rw [hl]; exact List.mem_cons_self)
      have hlen := hn b
      rw [hl] at hlen
      cases xs with
      | nil => rw [hx]
      | cons _ _ => simp at hlen
  · rw [if_neg hb]
    have : ¬ refsOf b q ≠ [] := fun h => hb ((mem_blankNodesOf_iff_refs hq b).mpr h)
    exact Classical.not_not.mp this

end SophiaProofs.SpecL

namespace SophiaProofs.SpecL
open SophiaModel SophiaModel.Rdfc10 SophiaProofs.Rdfc10L SophiaProofs.CnqL
open Rdfc10Spec (lookup addTo blankLabel blankNodesOf relatedPositions addOnce isRdfQuad Deviations)

/-! ### step 2 of the transcription -/

theorem spec_step2_inner {β : Type} (q : β) : ∀ (bs : List Str) (m : List (Str × List β)), bs.Nodup → ∀ b,
    lookup b (bs.foldl (fun m b => addTo b q m) m) =
      if b ∈ bs then some ((lookup b m).getD [] ++ [q]) else lookup b m
  | [], m, _, b => by simp
  | x :: bs, m, hnd, b => by
    rw [List.nodup_cons] at hnd
    rw [List.foldl_cons, spec_step2_inner q bs _ hnd.2 b]
    by_cases hbx : b = x
    · subst hbx
      simp [hnd.1, lookup_addTo_self]
    · by_cases hb : b ∈ bs
      · simp [hb, hbx, lookup_addTo_ne _ _ _ hbx]
      · simp [hb, hbx, lookup_addTo_ne _ _ _ hbx]

theorem spec_step2_fold : ∀ (D : List Quad) (m : List (Str × List Quad)) (b : Str),
    lookup b (D.foldl (fun m q => (blankNodesOf q).foldl (fun m b => addTo b q m) m) m) =
      match D.filter (fun q => decide (b ∈ blankNodesOf q)) with
      | [] => lookup b m
      | l => some ((lookup b m).getD [] ++ l)
  | [], m, b => by simp
  | q :: D, m, b => by
    rw [List.foldl_cons, spec_step2_fold D _ b, spec_step2_inner q _ m (blankNodesOf_nodup q) b]
    by_cases hb : b ∈ blankNodesOf q
    · simp only [hb, if_true, List.filter_cons, decide_true]
      cases hf : D.filter (fun q => decide (b ∈ blankNodesOf q)) with
      | nil => simp
      | cons x xs => simp
    · simp only [hb, if_false, List.filter_cons, decide_false]
      rfl

/-- `blank node to quads map` of the transcription, label by label -/
theorem spec_step2_lookup (D : List Quad) (b : Str) :
    lookup b (Rdfc10Spec.step2 Deviations.none D) =
      match D.filter (fun q => decide (b ∈ blankNodesOf q)) with
      | [] => none
      | l => some l := by
  unfold Rdfc10Spec.step2
  simp only [Deviations.none, Bool.false_eq_true, if_false]
  rw [spec_step2_fold D [] b]
  cases D.filter (fun q => decide (b ∈ blankNodesOf q)) <;> simp [lookup]

theorem keys_nodup_foldl_addTo {β : Type} (q : β) : ∀ (bs : List Str) (m : List (Str × List β)),
    (m.map (·.1)).Nodup → ((bs.foldl (fun m b => addTo b q m) m).map (·.1)).Nodup
  | [], _, h => h
  | x :: bs, m, h => by
    rw [List.foldl_cons]
    apply keys_nodup_foldl_addTo q bs
    rw [keys_addTo]
    split
    · exact h
    · rename_i hx
      rw [List.nodup_append]
      refine ⟨h, by simp, ?_⟩
      intro a ha b' hb'
      simp only [List.mem_cons, List.not_mem_nil, or_false] at hb'
      subst hb'
      intro e; subst e; exact hx ha

theorem spec_step2_keys_nodup (D : List Quad) : ((Rdfc10Spec.step2 Deviations.none D).map (·.1)).Nodup := by
  unfold Rdfc10Spec.step2
  simp only [Deviations.none, Bool.false_eq_true, if_false]
  have : ∀ (D : List Quad) (m : List (Str × List Quad)), (m.map (·.1)).Nodup →
      ((D.foldl (fun m q => (blankNodesOf q).foldl (fun m b => addTo b q m) m) m).map (·.1)).Nodup := by
    intro D
    induction D with
    | nil => intro m h; exact h
    | cons q D ih => intro m h; rw [List.foldl_cons]; exact ih _ (keys_nodup_foldl_addTo q _ m h)
  exact this D [] List.nodup_nil

/-- on RDF datasets without self-referencing quads both models file the same quads under each label -/
theorem refs_eq_filter {D : List Quad} (hD : ∀ q ∈ D, isRdfQuad q = true ∧ NoSelfRef q) (b : Str) :
    D.flatMap (refsOf b) = D.filter (fun q => decide (b ∈ blankNodesOf q)) := by
  induction D with
  | nil => rfl
  | cons q D ih =>
    have hq := hD q List.mem_cons_self
    rw [List.flatMap_cons, ih (fun q' hq' => hD q' (List.mem_cons_of_mem _ hq')),
      refsOf_eq_of_noSelfRef hq.1 hq.2 b, List.filter_cons]
    by_cases hb : b ∈ blankNodesOf q <;> simp [hb]

theorem spec_lookup_eq_get {D : List Quad} (hD : ∀ q ∈ D, isRdfQuad q = true ∧ NoSelfRef q)
    {b2q : SMap (List Quad)} (h2 : step2 D = .ok b2q) (b : Str) :
    lookup b (Rdfc10Spec.step2 Deviations.none D) = b2q.get b := by
  rw [spec_step2_lookup, step2_get h2, refs_eq_filter hD]
  cases D.filter (fun q => decide (b ∈ blankNodesOf q)) <;> simp

theorem spec_keys_perm {D : List Quad} (hD : ∀ q ∈ D, isRdfQuad q = true ∧ NoSelfRef q)
    {b2q : SMap (List Quad)} (h2 : step2 D = .ok b2q) :
    ((Rdfc10Spec.step2 Deviations.none D).map (·.1)).Perm (SMap.keys b2q) := by
  refine (List.perm_ext_iff_of_nodup (spec_step2_keys_nodup D) (keys_nodup (step2_spec h2).1)).mpr ?_
  intro k
  have h1 := lookup_none_iff k (Rdfc10Spec.step2 Deviations.none D)
  rw [spec_lookup_eq_get hD h2] at h1
  constructor
  · intro hk
    cases hg : b2q.get k with
    | none => exact absurd hk (h1.mp hg)
    | some v => exact mem_keys_of_get b2q k v hg
  · intro hk
    have := isSome_get_of_mem_keys b2q k hk
    cases hg : b2q.get k with
    | none => rw [hg] at this; cases this
    | some v =>
      apply Classical.byContradiction
      intro hn
      rw [h1.mpr hn] at hg
      cases hg

/-! ### first-degree hashes agree -/

theorem firstDegreeTerm_eq (ref : Str) (t : Term) :
    Rdfc10Spec.firstDegreeTerm ref t ++ [' '] = nqForHash ref t := by
  cases t with
  | bnode b =>
    simp only [Rdfc10Spec.firstDegreeTerm, blankLabel, nqForHash]
    split <;> rfl
  | iri _ => rfl
  | lit _ _ => rfl
  | lang _ _ => rfl
  | triple _ _ _ => rfl
  | var _ => rfl

theorem nquad_firstDegree_eq (ref : Str) (q : Quad) :
    Rdfc10Spec.nquad (Rdfc10Spec.firstDegreeTerm ref) q = lineForHash ref q := by
  unfold Rdfc10Spec.nquad Rdfc10Spec.quadTerms lineForHash
  cases q.g with
  | none => simp [firstDegreeTerm_eq]
  | some g => simp [firstDegreeTerm_eq]

theorem nquad_nqTerm_eq (q : Quad) : Rdfc10Spec.nquad Cnq.nqTerm q = line q := by
  unfold Rdfc10Spec.nquad Rdfc10Spec.quadTerms line Cnq.nq
  cases q.g with
  | none => simp
  | some g => simp

theorem spec_hash_eq {D : List Quad} (hD : ∀ q ∈ D, isRdfQuad q = true ∧ NoSelfRef q)
    {b2q : SMap (List Quad)} (h2 : step2 D = .ok b2q) (H : Str → Str) (st : Rdfc10Spec.State)
    (hst : st.bnodeToQuads = Rdfc10Spec.step2 Deviations.none D) (b : Str) :
    Rdfc10Spec.hashFirstDegreeQuads H st b = hashFirstDegree H b ((b2q.get b).getD []) := by
  unfold Rdfc10Spec.hashFirstDegreeQuads hashFirstDegree
  simp only []
  rw [hst, spec_lookup_eq_get hD h2, sortBy_id_eq]
  congr 3
  apply List.map_congr_left
  intro q _
  exact nquad_firstDegree_eq b q

end SophiaProofs.SpecL
