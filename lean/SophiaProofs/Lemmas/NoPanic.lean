/-
`hash_n_degree_quads` never runs out of the model's recursion fuel and none of its `unwrap()`s can
fail, once step 2 succeeded (and predicates are IRIs): every recursion level issues a new
identifier to a label of the dataset, so the depth is bounded by the number of blank nodes.
-/
import SophiaProofs.Lemmas.Total

namespace SophiaProofs.Rdfc10L
open SophiaModel SophiaModel.Rdfc10

/-! ### small list facts -/

theorem nodup_subset_length_le {α : Type} [DecidableEq α] : ∀ (l k : List α), l.Nodup → (∀ x ∈ l, x ∈ k) → l.length ≤ k.length
  | [], _, _, _ => Nat.zero_le _
  | a :: t, k, hnd, hsub => by
    rw [List.nodup_cons] at hnd
    have ha : a ∈ k := hsub a List.mem_cons_self
    have ht : ∀ x ∈ t, x ∈ k.erase a := by
      intro x hx
      have hxa : x ≠ a := fun e => hnd.1 (e ▸ hx)
      exact (List.mem_erase_of_ne hxa).mpr (hsub x (List.mem_cons_of_mem _ hx))
    have := nodup_subset_length_le t (k.erase a) hnd.2 ht
    rw [List.length_erase_of_mem ha] at this
    have hpos : 0 < k.length := List.length_pos_of_mem ha
    simp only [List.length_cons]
    omega

theorem wf_order_nodup {i : Issuer} (h : IssuerWF i) : i.order.Nodup := by
  rw [List.Nodup, List.pairwise_iff_getElem]
  intro a b ha hb hab he
  have h1 : i.order[a]? = some i.order[a] := List.getElem?_eq_getElem ha
  have h2 : i.order[b]? = some i.order[a] := by rw [he]; exact List.getElem?_eq_getElem hb
  have g1 := (h.get_iff i.order[a] (i.pfx ++ decimal a)).mpr ⟨a, h1, rfl⟩
  have g2 := (h.get_iff i.order[a] (i.pfx ++ decimal b)).mpr ⟨b, h2, rfl⟩
  rw [g1] at g2
  injection g2 with g2
  have := decimal_inj (List.append_cancel_left g2)
  omega

/-! ### the permutations only contain elements of the list -/

theorem mem_swap {α : Type} (l : List α) (i j : Nat) (x : α) (h : x ∈ swap l i j) : x ∈ l := by
  unfold swap at h
  split at h
  · rename_i a b ha hb
    rcases List.mem_or_eq_of_mem_set h with h | h
    · rcases List.mem_or_eq_of_mem_set h with h | h
      · exact h
      · rw [h]; exact List.mem_of_getElem? hb
    · rw [h]; exact List.mem_of_getElem? ha
  · exact h

theorem heap_mem {α : Type} : ∀ (size : Nat) (v : List α),
    (∀ p ∈ (heap size v).1, ∀ x ∈ p, x ∈ v) ∧ (∀ x ∈ (heap size v).2, x ∈ v)
  | 0, v => And.intro (fun _ h => by cases h) (fun _ h => h)
  | 1, v => ⟨fun p hp x hx => by
      simp only [heap, List.mem_cons, List.not_mem_nil, or_false] at hp
      rw [hp] at hx; exact hx, fun _ h => h⟩
  | size + 2, v => by
    unfold heap
    have key : ∀ (is : List Nat) (acc : List (List α) × List α),
        ((∀ p ∈ acc.1, ∀ x ∈ p, x ∈ v) ∧ (∀ x ∈ acc.2, x ∈ v)) →
        let r := is.foldl (fun (acc : List (List α) × List α) i =>
          let r := heap (size + 1) acc.2
          let v' := if (size + 2) % 2 = 1 then swap r.2 0 (size + 1) else swap r.2 i (size + 1)
          (acc.1 ++ r.1, v')) acc
        (∀ p ∈ r.1, ∀ x ∈ p, x ∈ v) ∧ (∀ x ∈ r.2, x ∈ v) := by
      intro is
      induction is with
      | nil => intro acc h; exact h
      | cons i is ih =>
        intro acc h
        rw [List.foldl_cons]
        apply ih
        have hr := heap_mem (size + 1) acc.2
        constructor
        · intro p hp x hx
          rcases List.mem_append.mp hp with hp | hp
          · exact h.1 p hp x hx
          · exact h.2 x (hr.1 p hp x hx)
        · intro x hx
          simp only [] at hx
          split at hx
          · exact h.2 x (hr.2 x (mem_swap _ _ _ x hx))
          · exact h.2 x (hr.2 x (mem_swap _ _ _ x hx))
    exact key _ ([], v) (And.intro (fun _ h => by cases h) (fun _ h => h))

theorem mem_heapPerms {α : Type} (l p : List α) (hp : p ∈ heapPerms l) : ∀ x ∈ p, x ∈ l := by
  unfold heapPerms at hp
  split at hp
  · cases hp
  · exact (heap_mem l.length l).1 p hp

/-! ### folds that cannot fail -/

/-- if every step from a `P`-state on an element of the list succeeds (with one of the errors excluded) into a
`P`-state, the fold succeeds into a `P`-state -/
theorem foldlM_ok_inv {ε σ α : Type} (P : σ → Prop) (f : σ → α → Except ε σ) :
    ∀ (l : List α) (s : σ), P s → (∀ s a, a ∈ l → P s → ∃ s', f s a = .ok s' ∧ P s') →
      ∃ r, List.foldlM f s l = .ok r ∧ P r
  | [], s, hs, _ => ⟨s, rfl, hs⟩
  | a :: l, s, hs, hstep => by
    obtain ⟨s', hf, hs'⟩ := hstep s a List.mem_cons_self hs
    rw [foldlM_cons_ok f s s' a l hf]
    exact foldlM_ok_inv P f l s' hs' (fun s a ha => hstep s a (List.mem_cons_of_mem _ ha))

/-- the same when steps may fail, but only with "good" errors -/
theorem foldlM_good_inv {ε σ α : Type} (P : σ → Prop) (G : ε → Prop) (f : σ → α → Except ε σ) :
    ∀ (l : List α) (s : σ), P s →
      (∀ s a, a ∈ l → P s → (∃ s', f s a = .ok s' ∧ P s') ∨ (∃ e, f s a = .error e ∧ G e)) →
      (∃ r, List.foldlM f s l = .ok r ∧ P r) ∨ (∃ e, List.foldlM f s l = .error e ∧ G e)
  | [], s, hs, _ => Or.inl ⟨s, rfl, hs⟩
  | a :: l, s, hs, hstep => by
    rcases hstep s a List.mem_cons_self hs with ⟨s', hf, hs'⟩ | ⟨e, hf, he⟩
    · rw [foldlM_cons_ok f s s' a l hf]
      exact foldlM_good_inv P G f l s' hs' (fun s a ha => hstep s a (List.mem_cons_of_mem _ ha))
    · rw [foldlM_cons_err f s e a l hf]
      exact Or.inr ⟨e, rfl, he⟩

end SophiaProofs.Rdfc10L

namespace SophiaProofs.Rdfc10L
open SophiaModel SophiaModel.Rdfc10

/-! ### the invariants -/

/-- what steps 2–3 guarantee about the read-only state -/
structure Closed (c : Ctx) : Prop where
  sorted : Sorted c.b2q
  rel : ∀ b qs, c.b2q.get b = some qs → ∀ q ∈ qs, ∀ cp ∈ components q, ∀ x, cp.1 = Term.bnode x →
    (c.b2q.get x).isSome = true
  iri : ∀ b qs, c.b2q.get b = some qs → ∀ q ∈ qs, ∃ p, q.p = Term.iri p
  b2h : ∀ x, (c.b2q.get x).isSome = true → (c.b2h.get x).isSome = true

def IsKey (c : Ctx) (x : Str) : Prop := (c.b2q.get x).isSome = true

/-- the errors `hash_n_degree_quads` is allowed to return -/
def Good (e : HErr) : Prop := e = .depth ∨ e = .perms

structure Inv (c : Ctx) (i : Issuer) : Prop where
  wf : IssuerWF i
  keys : ∀ x ∈ i.order, IsKey c x

theorem mem_keys_of_isSome {α : Type} : ∀ (m : SMap α) (b : Str), (SMap.get m b).isSome = true → b ∈ SMap.keys m
  | [], b, h => by rw [get_nil] at h; cases h
  | (k, v) :: rest, b, h => by
    rw [get_cons] at h
    by_cases hb : b = k
    · subst hb; simp [SMap.keys]
    · simp only [hb, if_false] at h
      simp only [SMap.keys, List.map_cons, List.mem_cons]
      exact Or.inr (mem_keys_of_isSome rest b h)

theorem inv_len {c : Ctx} {i : Issuer} (h : Inv c i) : i.order.length ≤ c.b2q.length := by
  have := nodup_subset_length_le i.order (SMap.keys c.b2q) (wf_order_nodup h.wf)
    (fun x hx => mem_keys_of_isSome _ _ (h.keys x hx))
  simpa [SMap.keys] using this

theorem issue_order (i : Issuer) (b : Str) :
    ((i.issue b).1.2 = false ∧ (i.issue b).2 = i) ∨ ((i.issue b).1.2 = true ∧ (i.issue b).2.order = i.order ++ [b]) := by
  unfold Issuer.issue
  split
  · exact Or.inl ⟨rfl, rfl⟩
  · exact Or.inr ⟨rfl, rfl⟩

theorem prefix_issue (i : Issuer) (b : Str) : i.order <+: (i.issue b).2.order := by
  rcases issue_order i b with ⟨_, h⟩ | ⟨_, h⟩
  · rw [h]; exact List.prefix_refl _
  · rw [h]; exact List.prefix_append _ _

theorem inv_issue {c : Ctx} {i : Issuer} (h : Inv c i) {b : Str} (hk : IsKey c b) : Inv c (i.issue b).2 := by
  refine ⟨wf_issue i b h.wf, ?_⟩
  rcases issue_order i b with ⟨_, he⟩ | ⟨_, he⟩
  · rw [he]; exact h.keys
  · rw [he]
    intro x hx
    rcases List.mem_append.mp hx with hx | hx
    · exact h.keys x hx
    · simp only [List.mem_cons, List.not_mem_nil, or_false] at hx
      rw [hx]; exact hk

theorem inv_new_issue {c : Ctx} (p : Str) {n : Str} (hk : IsKey c n) : Inv c ((Issuer.new p).issue' n) :=
  inv_issue ⟨wf_new p, fun _ h => nomatch h⟩ hk

/-! ### Hash Related Blank Node, steps 1–3 -/

theorem hashRelated_ok {c : Ctx} (hc : Closed c) {related : Str} {q : Quad} {p : Str} (hq : q.p = Term.iri p)
    (hk : IsKey c related) (issuer : Issuer) (pos : Str) : ∃ h, hashRelated c related q issuer pos = .ok h := by
  have hb := hc.b2h related hk
  unfold hashRelated
  rw [hq]
  cases hh : c.b2h.get related with
  | none => rw [hh] at hb; cases hb
  | some hv =>
    by_cases hpos : pos ≠ ['g']
    · simp only [bind_ok]
      cases c.canonical.get related with
      | some cid => simp only [if_pos hpos]; exact ⟨_, rfl⟩
      | none =>
        cases issuer.get related with
        | some tid => simp only [if_pos hpos]; exact ⟨_, rfl⟩
        | none => simp only [if_pos hpos]; exact ⟨_, rfl⟩
    · simp only [bind_ok]
      cases c.canonical.get related with
      | some cid => simp only [if_neg hpos]; exact ⟨_, rfl⟩
      | none =>
        cases issuer.get related with
        | some tid => simp only [if_neg hpos]; exact ⟨_, rfl⟩
        | none => simp only [if_neg hpos]; exact ⟨_, rfl⟩

/-- every label listed in a related-hash map is a label of the dataset -/
def ListedKeys (c : Ctx) (hn : SMap (List Str)) : Prop := ∀ e ∈ hn, ∀ r ∈ e.2, IsKey c r

theorem upsert_push_elems (k x : Str) : ∀ (m : SMap (List Str)) (e : Str × List Str),
    e ∈ m.upsert k (pushAt x) → ∀ r ∈ e.2, r = x ∨ ∃ e' ∈ m, r ∈ e'.2
  | [], e, he, r, hr => by
    simp only [SMap.upsert, pushAt, List.mem_cons, List.not_mem_nil, or_false] at he
    subst he
    simp only [List.mem_cons, List.not_mem_nil, or_false] at hr
    exact Or.inl hr
  | (k', v) :: rest, e, he, r, hr => by
    unfold SMap.upsert at he
    split at he
    · rcases List.mem_cons.mp he with rfl | he
      · simp only [pushAt, List.mem_cons, List.not_mem_nil, or_false] at hr
        exact Or.inl hr
      · exact Or.inr ⟨e, he, hr⟩
    · rcases List.mem_cons.mp he with rfl | he
      · simp only [pushAt, List.mem_append, List.mem_cons, List.not_mem_nil, or_false] at hr
        rcases hr with hr | hr
        · exact Or.inr ⟨(k', v), List.mem_cons_self, hr⟩
        · exact Or.inl hr
      · exact Or.inr ⟨e, List.mem_cons_of_mem _ he, hr⟩
    · rcases List.mem_cons.mp he with rfl | he
      · exact Or.inr ⟨(k', v), List.mem_cons_self, hr⟩
      · rcases upsert_push_elems k x rest e he r hr with h | ⟨e', he', hr'⟩
        · exact Or.inl h
        · exact Or.inr ⟨e', List.mem_cons_of_mem _ he', hr'⟩

theorem hnComp_ok {c : Ctx} (hc : Closed c) {ident : Str} {qs : List Quad} (hq : c.b2q.get ident = some qs)
    (issuer : Issuer) {q : Quad} (hqm : q ∈ qs) {cp : Term × Str} (hcp : cp ∈ components q)
    {hn : SMap (List Str)} (hhn : ListedKeys c hn) :
    ∃ hn', hnComp c ident issuer q hn cp = .ok hn' ∧ ListedKeys c hn' := by
  unfold hnComp
  cases ht : cp.1 with
  | bnode b =>
    simp only []
    by_cases hb : b = ident
    · simp only [hb, if_true]; exact ⟨hn, rfl, hhn⟩
    · simp only [hb, if_false]
      obtain ⟨p, hp⟩ := hc.iri ident qs hq q hqm
      have hk : IsKey c b := hc.rel ident qs hq q hqm cp hcp b ht
      obtain ⟨h, hh⟩ := hashRelated_ok hc hp hk issuer cp.2
      rw [hh, bind_ok]
      refine ⟨_, rfl, ?_⟩
      intro e he r hr
      rcases upsert_push_elems h b hn e he r hr with rfl | ⟨e', he', hr'⟩
      · exact hk
      · exact hhn e' he' r hr'
  | iri _ => exact ⟨hn, rfl, hhn⟩
  | lit _ _ => exact ⟨hn, rfl, hhn⟩
  | lang _ _ => exact ⟨hn, rfl, hhn⟩
  | triple _ _ _ => exact ⟨hn, rfl, hhn⟩
  | var _ => exact ⟨hn, rfl, hhn⟩

theorem buildHn_ok {c : Ctx} (hc : Closed c) {ident : Str} (hk : IsKey c ident) (issuer : Issuer) :
    ∃ hn, buildHn c ident issuer = .ok hn ∧ ListedKeys c hn := by
  unfold buildHn
  cases hq : c.b2q.get ident with
  | none => unfold IsKey at hk; rw [hq] at hk; cases hk
  | some qs =>
    simp only []
    apply foldlM_ok_inv (ListedKeys c)
    · intro e he; cases he
    · intro hn q hqm hhn
      apply foldlM_ok_inv (ListedKeys c) _ _ _ hhn
      intro hn' cp hcp hhn'
      exact hnComp_ok hc hq issuer hqm hcp hhn'

end SophiaProofs.Rdfc10L

namespace SophiaProofs.Rdfc10L
open SophiaModel SophiaModel.Rdfc10

/-! ### step 5 of Hash N-Degree Quads -/

/-- what a recursive call may do when its issuer has more than `L` identifiers -/
def RecOK (c : Ctx) (recur : Str → Issuer → Except HErr (Str × Issuer)) (L : Nat) : Prop :=
  ∀ rel ic, Inv c ic → IsKey c rel → L < ic.order.length →
    (∃ x, recur rel ic = .ok x ∧ ic.order <+: x.2.order ∧ Inv c x.2) ∨ (∃ e, recur rel ic = .error e ∧ Good e)

theorem step544_inv (c : Ctx) (base : Issuer) : ∀ (p : List Str) (acc : Issuer × Str × List Str),
    (∀ r ∈ p, IsKey c r) → base.order <+: acc.1.order → Inv c acc.1 → (∀ r ∈ acc.2.2, IsKey c r) →
    (acc.2.2 ≠ [] → base.order.length < acc.1.order.length) →
    let s := p.foldl (step544 c) acc
    base.order <+: s.1.order ∧ Inv c s.1 ∧ (∀ r ∈ s.2.2, IsKey c r) ∧ (s.2.2 ≠ [] → base.order.length < s.1.order.length)
  | [], acc, _, h1, h2, h3, h4 => ⟨h1, h2, h3, h4⟩
  | r :: p, acc, hp, h1, h2, h3, h4 => by
    intro s
    have hr : IsKey c r := hp r List.mem_cons_self
    have hp' : ∀ r ∈ p, IsKey c r := fun x hx => hp x (List.mem_cons_of_mem _ hx)
    show _ ∧ _
    simp only [s, List.foldl_cons]
    unfold step544
    split
    · exact step544_inv c base p _ hp' h1 h2 h3 h4
    · apply step544_inv c base p _ hp'
      · exact List.IsPrefix.trans h1 (prefix_issue _ _)
      · exact inv_issue h2 hr
      · simp only []
        split
        · intro x hx
          rcases List.mem_append.mp hx with hx | hx
          · exact h3 x hx
          · simp only [List.mem_cons, List.not_mem_nil, or_false] at hx
            rw [hx]; exact hr
        · exact h3
      · simp only []
        rcases issue_order acc.1 r with ⟨hf, he⟩ | ⟨ht, he⟩
        · rw [hf, he]
          simpa using h4
        · intro _
          rw [he, List.length_append]
          have := List.IsPrefix.length_le h1
          simp
          omega

theorem step545_safe {c : Ctx} {recur : Str → Issuer → Except HErr (Str × Issuer)} {L : Nat} (hr : RecOK c recur L)
    (ic0 : Issuer) (cp : Str) (acc : Option (Issuer × Str)) (rel : Str) (hk : IsKey c rel)
    (hacc : ∀ a, acc = some a → L < a.1.order.length ∧ Inv c a.1 ∧ ic0.order <+: a.1.order) :
    (∃ acc', step545 recur cp acc rel = .ok acc' ∧
        ∀ a, acc' = some a → L < a.1.order.length ∧ Inv c a.1 ∧ ic0.order <+: a.1.order) ∨
      (∃ e, step545 recur cp acc rel = .error e ∧ Good e) := by
  unfold step545
  cases acc with
  | none => exact Or.inl ⟨none, rfl, fun a ha => nomatch ha⟩
  | some a0 =>
    obtain ⟨ic, path⟩ := a0
    obtain ⟨hL, hinv, hpre⟩ := hacc (ic, path) rfl
    simp only []
    rcases hr rel ic hinv hk hL with ⟨x, hx, hxp, hxi⟩ | ⟨e, he, hg⟩
    · rw [hx, bind_ok]
      split
      · exact Or.inl ⟨none, rfl, fun a ha => nomatch ha⟩
      · refine Or.inl ⟨_, rfl, ?_⟩
        intro a ha
        injection ha with ha
        subst ha
        refine ⟨?_, hxi, List.IsPrefix.trans hpre hxp⟩
        have hle := List.IsPrefix.length_le hxp
        have hL' : L < ic.order.length := hL
        show L < x.2.order.length
        omega
    · rw [he, bind_err]
      exact Or.inr ⟨e, rfl, hg⟩

theorem permBody_safe {c : Ctx} {recur : Str → Issuer → Except HErr (Str × Issuer)} {L : Nat} (hr : RecOK c recur L)
    (base : Issuer) (hbase : Inv c base) (hL : L ≤ base.order.length) (ch : Chosen) (p : List Str)
    (hp : ∀ r ∈ p, IsKey c r) (hch : ∀ i, ch.issuer = some i → base.order <+: i.order ∧ Inv c i) :
    (∃ ch', permBody c recur base ch p = .ok ch' ∧ ∀ i, ch'.issuer = some i → base.order <+: i.order ∧ Inv c i) ∨
      (∃ e, permBody c recur base ch p = .error e ∧ Good e) := by
  unfold permBody
  simp only []
  have h4 := step544_inv c base p (base, [], []) hp (List.prefix_refl _) hbase (fun _ h => nomatch h) (fun h => absurd rfl h)
  simp only [] at h4
  obtain ⟨hpre, hinv, hkeys, hlen⟩ := h4
  split
  · exact Or.inl ⟨ch, rfl, hch⟩
  · have hfold := foldlM_good_inv
      (fun (acc : Option (Issuer × Str)) => ∀ a, acc = some a → L < a.1.order.length ∧ Inv c a.1 ∧
        (List.foldl (step544 c) (base, [], []) p).1.order <+: a.1.order) Good
      (step545 recur ch.path) (List.foldl (step544 c) (base, [], []) p).2.2
      (some ((List.foldl (step544 c) (base, [], []) p).1, (List.foldl (step544 c) (base, [], []) p).2.1))
    by_cases hnil : (List.foldl (step544 c) (base, [], []) p).2.2 = []
    · rw [hnil, foldlM_nil, bind_ok]
      simp only []
      split
      · refine Or.inl ⟨_, rfl, ?_⟩
        intro i hi
        injection hi with hi
        subst hi
        exact ⟨hpre, hinv⟩
      · exact Or.inl ⟨ch, rfl, hch⟩
    · have hgt : L < (List.foldl (step544 c) (base, [], []) p).1.order.length := by
        have := hlen hnil
        omega
      rcases hfold (by
          intro a ha
          injection ha with ha
          subst ha
          exact ⟨hgt, hinv, List.prefix_refl _⟩)
        (fun s rel hrel hs => step545_safe hr _ ch.path s rel (hkeys rel hrel) hs) with ⟨r, hr', hP⟩ | ⟨e, he, hg⟩
      · rw [hr', bind_ok]
        cases r with
        | none => exact Or.inl ⟨ch, rfl, hch⟩
        | some a =>
          obtain ⟨ic, path⟩ := a
          simp only []
          obtain ⟨_, hi2, hp2⟩ := hP (ic, path) rfl
          split
          · refine Or.inl ⟨_, rfl, ?_⟩
            intro i hi
            injection hi with hi
            subst hi
            exact ⟨List.IsPrefix.trans hpre hp2, hi2⟩
          · exact Or.inl ⟨ch, rfl, hch⟩
      · rw [he, bind_err]
        exact Or.inr ⟨e, rfl, hg⟩

theorem hnEntry_safe {c : Ctx} {recur : Str → Issuer → Except HErr (Str × Issuer)} (issuer : Issuer)
    (hiss : Inv c issuer) (hr : RecOK c recur issuer.order.length) (acc : Str × Option Issuer) (e : Str × List Str)
    (he : ∀ r ∈ e.2, IsKey c r)
    (hacc : issuer.order <+: (acc.2.getD issuer).order ∧ Inv c (acc.2.getD issuer)) :
    (∃ acc', hnEntry c recur issuer acc e = .ok acc' ∧
        issuer.order <+: (acc'.2.getD issuer).order ∧ Inv c (acc'.2.getD issuer)) ∨
      (∃ err, hnEntry c recur issuer acc e = .error err ∧ Good err) := by
  unfold hnEntry
  split
  · exact Or.inr ⟨.perms, rfl, Or.inr rfl⟩
  · have hL : issuer.order.length ≤ (acc.2.getD issuer).order.length := List.IsPrefix.length_le hacc.1
    rcases foldlM_good_inv
        (fun (ch : Chosen) => ∀ i, ch.issuer = some i → (acc.2.getD issuer).order <+: i.order ∧ Inv c i) Good
        (permBody c recur (acc.2.getD issuer)) (heapPerms e.2) ⟨[], none⟩ (fun i hi => nomatch hi)
        (fun ch p hp hch => permBody_safe hr _ hacc.2 hL ch p
          (fun r hr' => he r (mem_heapPerms e.2 p hp r hr')) hch) with ⟨ch, hch, hP⟩ | ⟨err, herr, hg⟩
    · rw [hch, bind_ok]
      refine Or.inl ⟨_, rfl, ?_⟩
      simp only []
      cases hci : ch.issuer with
      | none => exact ⟨List.prefix_refl _, hiss⟩
      | some i =>
        obtain ⟨h1, h2⟩ := hP i hci
        exact ⟨List.IsPrefix.trans hacc.1 h1, h2⟩
    · rw [herr, bind_err]
      exact Or.inr ⟨err, rfl, hg⟩

end SophiaProofs.Rdfc10L

namespace SophiaProofs.Rdfc10L
open SophiaModel SophiaModel.Rdfc10

/-- **Hash N-Degree Quads is safe**: with enough fuel for the identifiers still to be issued, the only
errors are the two documented `ToxicGraph` causes; a result extends the issuer by labels of the dataset -/
theorem hashNDegree_safe {c : Ctx} (hc : Closed c) : ∀ (fuel : Nat) (ident : Str) (issuer : Issuer) (depth : Nat),
    IsKey c ident → Inv c issuer → c.b2q.length < fuel + issuer.order.length →
    (∃ x, hashNDegree c fuel ident issuer depth = .ok x ∧ issuer.order <+: x.2.order ∧ Inv c x.2) ∨
      (∃ e, hashNDegree c fuel ident issuer depth = .error e ∧ Good e) := by
  intro fuel
  induction fuel with
  | zero =>
    intro ident issuer depth _ hinv hlen
    have := inv_len hinv
    omega
  | succ fuel ih =>
    intro ident issuer depth hk hinv hlen
    simp only [hashNDegree]
    split
    · exact Or.inr ⟨.depth, rfl, Or.inl rfl⟩
    · obtain ⟨hn, hb, hkeys⟩ := buildHn_ok hc hk issuer
      rw [hb, bind_ok]
      have hrec : RecOK c (fun rel ic => hashNDegree c fuel rel ic (depth + 1)) issuer.order.length := by
        intro rel ic hic hrel hL
        exact ih rel ic (depth + 1) hrel hic (by omega)
      rcases foldlM_good_inv
          (fun (acc : Str × Option Issuer) => issuer.order <+: (acc.2.getD issuer).order ∧ Inv c (acc.2.getD issuer)) Good
          (hnEntry c (fun rel ic => hashNDegree c fuel rel ic (depth + 1)) issuer) hn ([], none)
          ⟨List.prefix_refl _, hinv⟩
          (fun acc e he hacc => hnEntry_safe issuer hinv hrec acc e (hkeys e he) hacc) with ⟨r, hr, hP⟩ | ⟨e, he, hg⟩
      · rw [hr, bind_ok]
        exact Or.inl ⟨_, rfl, hP.1, hP.2⟩
      · rw [he, bind_err]
        exact Or.inr ⟨e, rfl, hg⟩

/-! ### step 5 as a whole -/

/-- the canonical issuer only ever holds labels of the dataset -/
def CanonKeys (b2q : SMap (List Quad)) (i : Issuer) : Prop := ∀ x ∈ i.order, (b2q.get x).isSome = true

theorem canonKeys_issue {b2q : SMap (List Quad)} {i : Issuer} (h : CanonKeys b2q i) {b : Str}
    (hb : (b2q.get b).isSome = true) : CanonKeys b2q (i.issue' b) := by
  unfold Issuer.issue'
  rcases issue_order i b with ⟨_, he⟩ | ⟨_, he⟩
  · rw [he]; exact h
  · intro x hx
    rw [he] at hx
    rcases List.mem_append.mp hx with hx | hx
    · exact h x hx
    · simp only [List.mem_cons, List.not_mem_nil, or_false] at hx
      rw [hx]; exact hb

theorem canonKeys_issueAll {b2q : SMap (List Quad)} : ∀ (l : List Str) (i : Issuer), CanonKeys b2q i →
    (∀ x ∈ l, (b2q.get x).isSome = true) → CanonKeys b2q (issueAll i l)
  | [], i, h, _ => h
  | b :: l, i, h, hl => canonKeys_issueAll l _ (canonKeys_issue h (hl b List.mem_cons_self))
      (fun x hx => hl x (List.mem_cons_of_mem _ hx))

theorem step5Group_safe {H : Str → Str} {b2q : SMap (List Quad)} {b2h : SMap Str} {td : Nat → Nat → Bool} {pl : Nat}
    (hcl : ∀ can, Closed ⟨H, b2q, b2h, can, td, pl⟩) (can : Issuer) (hcan : CanonKeys b2q can)
    (e : Str × List Str) (he : ∀ n ∈ e.2, (b2q.get n).isSome = true) :
    (∃ can', step5Group H b2q b2h td pl (b2q.length + 1) can e = .ok can' ∧ CanonKeys b2q can') ∨
      (∃ err, step5Group H b2q b2h td pl (b2q.length + 1) can e = .error err ∧ Good err) := by
  unfold step5Group
  simp only []
  rcases foldlM_good_inv
      (fun (acc : List (Str × Issuer)) => ∀ r ∈ acc, ∀ x ∈ r.2.order, (b2q.get x).isSome = true) Good
      (fun (acc : List (Str × Issuer)) n => do
        let r ← hashNDegree ⟨H, b2q, b2h, can, td, pl⟩ (b2q.length + 1) n ((Issuer.new ['b']).issue' n) 0
        Except.ok (acc ++ [r])) e.2 [] (fun _ h => nomatch h)
      (by
        intro acc n hn hacc
        have hk : IsKey ⟨H, b2q, b2h, can, td, pl⟩ n := he n hn
        have hinv := inv_new_issue (c := ⟨H, b2q, b2h, can, td, pl⟩) ['b'] hk
        have hlen : (⟨H, b2q, b2h, can, td, pl⟩ : Ctx).b2q.length <
            (b2q.length + 1) + ((Issuer.new ['b']).issue' n).order.length := by
          show b2q.length < _
          omega
        rcases hashNDegree_safe (hcl can) (b2q.length + 1) n _ 0 hk hinv hlen with ⟨x, hx, _, hxi⟩ | ⟨err, herr, hg⟩
        · refine Or.inl ⟨acc ++ [x], by rw [hx]; rfl, ?_⟩
          intro r hr
          rcases List.mem_append.mp hr with hr | hr
          · exact hacc r hr
          · simp only [List.mem_cons, List.not_mem_nil, or_false] at hr
            rw [hr]; exact hxi.keys
        · exact Or.inr ⟨err, by rw [herr]; rfl, hg⟩) with ⟨hpl, hh, hP⟩ | ⟨err, herr, hg⟩
  · rw [hh, bind_ok]
    refine Or.inl ⟨_, rfl, ?_⟩
    have : ∀ (l : List (Str × Issuer)) (cn : Issuer), CanonKeys b2q cn →
        (∀ r ∈ l, ∀ x ∈ r.2.order, (b2q.get x).isSome = true) →
        CanonKeys b2q (l.foldl (fun can r => issueAll can r.2.order) cn) := by
      intro l
      induction l with
      | nil => intro cn h _; exact h
      | cons r l ih =>
        intro cn h hl
        exact ih _ (canonKeys_issueAll _ _ h (hl r List.mem_cons_self)) (fun r' hr' => hl r' (List.mem_cons_of_mem _ hr'))
    exact this _ _ hcan (fun r hr => hP r (List.mem_mergeSort.mp hr))
  · rw [herr, bind_err]
    exact Or.inr ⟨err, rfl, hg⟩

theorem step5_safe {H : Str → Str} {b2q : SMap (List Quad)} {b2h : SMap Str} {td : Nat → Nat → Bool} {pl : Nat}
    (hcl : ∀ can, Closed ⟨H, b2q, b2h, can, td, pl⟩) (h2b : SMap (List Str))
    (hh : ∀ e ∈ h2b, ∀ n ∈ e.2, (b2q.get n).isSome = true) (can : Issuer) (hcan : CanonKeys b2q can) :
    (∃ can', step5 H b2q b2h td pl (b2q.length + 1) h2b can = .ok can' ∧ CanonKeys b2q can') ∨
      (∃ err, step5 H b2q b2h td pl (b2q.length + 1) h2b can = .error err ∧ Good err) := by
  unfold step5
  exact foldlM_good_inv (CanonKeys b2q) Good _ h2b can hcan
    (fun cn e he hcn => step5Group_safe hcl cn hcn e (hh e he))

end SophiaProofs.Rdfc10L
