/-
Property C10: the ownership model REFINES the value-level model of the stores (`SophiaModel.Store`, the model
C01's theorems are about).  Read through the heap, a term index is a list of terms (`TIndex.view`), and
`get_index` / `ensure_index` / `insert` / `remove` / `Clone::clone` of the ownership model compute, on that
view, exactly what the value-level functions compute — as long as the index invariant `IxInv` holds, i.e. in
every reachable world.  This is the theorem behind the driver's oracle `o.k.C` (content vs. a value-semantics
specification).
-/
import SophiaProofs.Lemmas.HeapWorld

namespace SophiaProofs.HeapP
open SophiaModel SophiaModel.Term SophiaModel.Store SophiaModel.Heap

/-- the term list a `SimpleTermIndex` denotes: what `get_term(0..len)` reads -/
def TIndex.view (h : Heap.Heap) (ix : TIndex) : List Term := ix.i2t.map (keyTerm h)

theorem hstore_view (h : Heap.Heap) (s : HStore) :
    s.view h = { shape := s.shape, max := s.max, terms := TIndex.view h s.ix, idx := s.idx } := rfl

/-- the view only depends on the cells the index owns -/
theorem view_same {h h' : Heap.Heap} {ix : TIndex} (inv : IxInv h ix) (hs : Same h h' ix.owned) :
    TIndex.view h' ix = TIndex.view h ix := by
  apply List.map_congr_left
  intro t ht
  simp only [keyTerm, inv.read_same hs ht]

theorem view_ext {h h' : Heap.Heap} {ix : TIndex} (inv : IxInv h ix) (e : Ext h h') :
    TIndex.view h' ix = TIndex.view h ix :=
  view_same inv (Same.of_ext e (fun _ ha => inv.lt ha))

/-- two lists of the same length on which the predicates agree position by position -/
theorem findIdx?_congr {α β : Type} {l : List α} {l' : List β} {p : α → Bool} {q : β → Bool}
    (hl : l'.length = l.length) (hpq : ∀ (i : Nat) (a : α) (b : β), l[i]? = some a → l'[i]? = some b → p a = q b) :
    l.findIdx? p = l'.findIdx? q := by
  induction l generalizing l' with
  | nil =>
    cases l' with
    | nil => rfl
    | cons b l' => simp at hl
  | cons a l ih =>
    cases l' with
    | nil => simp at hl
    | cons b l' =>
      have h0 : p a = q b := hpq 0 a b rfl rfl
      simp only [List.findIdx?_cons, h0]
      cases q b with
      | true => rfl
      | false =>
        simp only [Bool.false_eq_true, if_false]
        rw [ih (by simpa using hl) (fun i x y hx hy => hpq (i + 1) x y (by simpa using hx) (by simpa using hy))]

/-- in a list whose second components are `s, s+1, …` the second component of the first hit is its position -/
theorem find_snd_eq_findIdx {α : Type} (l : List (α × Nat)) (p : α × Nat → Bool) (s : Nat)
    (hl : l.map (·.2) = List.range' s l.length) :
    (l.find? p).map (·.2) = (l.findIdx? p).map (· + s) := by
  induction l generalizing s with
  | nil => rfl
  | cons e l ih =>
    simp only [List.map_cons, List.length_cons, List.range'_succ, List.cons.injEq] at hl
    obtain ⟨he, hl⟩ := hl
    simp only [List.find?_cons, List.findIdx?_cons]
    cases hp : p e with
    | true => simp [he]
    | false =>
      simp only [Bool.false_eq_true, if_false]
      rw [ih (s + 1) hl]
      cases l.findIdx? p with
      | none => rfl
      | some i => simp; omega

/-- R1: `get_index` of the ownership model = `get_index` of the value-level model on the view -/
theorem getIndex_refines {h : Heap.Heap} {ix : TIndex} (inv : IxInv h ix) (t : Term) :
    ix.getIndex h t = Store.getIndex (TIndex.view h ix) t := by
  have hk : ix.t2i.map (·.2) = List.range' 0 ix.t2i.length := by
    rw [inv.keys, List.range_eq_range', inv.pair.1]
  have h1 := find_snd_eq_findIdx ix.t2i (fun e => termEq (keyTerm h e.1) t) 0 hk
  simp only [Nat.add_zero, Option.map_id'] at h1
  have h1' : (ix.t2i.find? (fun e => termEq (keyTerm h e.1) t)).map (·.2) =
      ix.t2i.findIdx? (fun e => termEq (keyTerm h e.1) t) := by
    rw [h1]
  unfold TIndex.getIndex Store.getIndex TIndex.view
  rw [h1']
  apply findIdx?_congr (by simp [inv.pair.1])
  intro i e x he hx
  simp only [List.getElem?_map, Option.map_eq_some_iff] at hx
  obtain ⟨tr, htr, rfl⟩ := hx
  obtain ⟨_, _, y, hy1, hy2⟩ := inv.pair.2 i e tr he htr
  simp only [keyTerm, hy1, hy2]

/-- R2: `ensure_index` of the ownership model = `ensure_index` of the value-level model on the views: refused
together (and then the view is unchanged), or the same index and the new view is the value-level new term list -/
theorem ensureIndex_refines {h : Heap.Heap} {ix : TIndex} (own : Bool) (max : Nat) (t : Term) (inv : IxInv h ix) :
    Store.ensureIndex max (TIndex.view h ix) t =
      (match (ix.ensureIndex own max h t).2.2 with
       | none => none
       | some i => some (TIndex.view (ix.ensureIndex own max h t).1 (ix.ensureIndex own max h t).2.1, i)) ∧
    ((ix.ensureIndex own max h t).2.2 = none →
      TIndex.view (ix.ensureIndex own max h t).1 (ix.ensureIndex own max h t).2.1 = TIndex.view h ix) := by
  have nk := allocTerm_spec own h t
  have inv1 : IxInv (allocTerm own h t).1 ix := inv.ext nk.fresh.ext
  have v1 : TIndex.view (allocTerm own h t).1 ix = TIndex.view h ix := view_ext inv nk.fresh.ext
  have g1 := getIndex_refines inv1 t
  rw [v1] at g1
  have eDrop : Ext h ((allocTerm own h t).1.freeAll (allocTerm own h t).2.ownedIds) :=
    freeAll_ext nk.fresh.ext (fun a ha => (nk.fresh.mem.1 ha).1)
  have vDrop := view_ext inv eDrop
  have hlen : (TIndex.view h ix).length = ix.i2t.length := by simp [TIndex.view]
  unfold TIndex.ensureIndex Store.ensureIndex
  simp only
  cases hg : ix.getIndex (allocTerm own h t).1 t with
  | some i =>
    rw [hg] at g1
    simp only [← g1, vDrop]
    exact ⟨trivial, fun hc => by cases hc⟩
  | none =>
    rw [hg] at g1
    simp only [← g1, hlen]
    by_cases hfull : ix.i2t.length ≥ max
    · simp only [hfull, if_true, vDrop]
      exact ⟨trivial, fun _ => trivial⟩
    · simp only [hfull, if_false]
      have bt := asSimple_spec nk.owned nk.content
      have e2 : Ext h (asSimple (allocTerm own h t).1 (allocTerm own h t).2).1 := nk.fresh.ext.trans bt.fresh.ext
      refine ⟨?_, fun hc => by cases hc⟩
      have : TIndex.view (asSimple (allocTerm own h t).1 (allocTerm own h t).2).1
          { t2i := ix.t2i ++ [((allocTerm own h t).2, ix.i2t.length)],
            i2t := ix.i2t ++ [(asSimple (allocTerm own h t).1 (allocTerm own h t).2).2] } = TIndex.view h ix ++ [t] := by
        have hv := view_ext inv e2
        simp only [TIndex.view, List.map_append, List.map_cons, List.map_nil] at hv ⊢
        rw [hv]
        simp [keyTerm, bt.content]
      rw [this]

/-- R3: the chain of `ensure_index` calls of one insertion -/
theorem ensureAllH_refines (own : Bool) (max n : Nat) (names : List GName) (cs : List Nat) {h : Heap.Heap} {ix : TIndex}
    (acc : List (Nat × Nat)) (inv : IxInv h ix) :
    Store.ensureAll max n names cs (TIndex.view h ix) acc =
      (TIndex.view (ensureAllH own max names cs h ix acc).1 (ensureAllH own max names cs h ix acc).2.1,
       (ensureAllH own max names cs h ix acc).2.2) := by
  induction cs generalizing h ix acc with
  | nil => rfl
  | cons c cs ih =>
    unfold ensureAllH Store.ensureAll
    cases hn : names.getD c none with
    | none => simp only; exact ih _ inv
    | some t =>
      simp only
      have st := ensureIndex_step own max t inv
      obtain ⟨r1, r2⟩ := ensureIndex_refines own max t inv
      rw [r1]
      cases hr : (ix.ensureIndex own max h t).2.2 with
      | none =>
        have hv := r2 hr
        have : ix.ensureIndex own max h t = ((ix.ensureIndex own max h t).1, (ix.ensureIndex own max h t).2.1, none) := by
          rw [← hr]
        rw [this]
        simp only [hv]
      | some i =>
        have : ix.ensureIndex own max h t = ((ix.ensureIndex own max h t).1, (ix.ensureIndex own max h t).2.1, some i) := by
          rw [← hr]
        rw [this]
        simp only
        exact ih _ st.inv

/-- R4: `insert` of the ownership model, read through the heap, is `insert` of the value-level model -/
theorem insert_refines {h : Heap.Heap} {s : HStore} (own : Bool) (q : Quad) (inv : IxInv h s.ix) :
    Store.insert (s.view h) q = ((s.insert own h q).2.1.view (s.insert own h q).1, (s.insert own h q).2.2) := by
  have r := ensureAllH_refines own s.max s.shape.n (quadNames s.shape.n q) s.shape.lookupOrder (h := h) (ix := s.ix) [] inv
  unfold HStore.insert Store.insert
  simp only [hstore_view] at r ⊢
  rw [r]
  generalize ensureAllH own s.max (quadNames s.shape.n q) s.shape.lookupOrder h s.ix [] = e
  obtain ⟨h', ix', o⟩ := e
  cases o with
  | none => rfl
  | some a =>
    simp only
    cases hi : s.idx with
    | nil => rfl
    | cons prim rest =>
      cases hp : s.shape.perms with
      | nil => rfl
      | cons p0 ps =>
        simp only
        by_cases hch : (oinsert (layout p0 (rowOfAssoc s.shape.n a)) prim).2 = true
        · simp only [hch, if_true]
        · simp only [hch, Bool.false_eq_true, if_false]

theorem lookupAllH_refines {h : Heap.Heap} {ix : TIndex} (inv : IxInv h ix) (max : Nat) (names : List GName)
    (cs : List Nat) (acc : List (Nat × Nat)) :
    lookupAllH max h ix names cs acc = Store.lookupAll max (TIndex.view h ix) names cs acc := by
  induction cs generalizing acc with
  | nil => rfl
  | cons c cs ih =>
    unfold lookupAllH Store.lookupAll Store.getNameIndex
    cases names.getD c none with
    | none => simp only; exact ih _
    | some t =>
      simp only [getIndex_refines inv t]
      cases Store.getIndex (TIndex.view h ix) t with
      | none => rfl
      | some i => exact ih _

/-- R5: `remove` -/
theorem remove_refines {h : Heap.Heap} {s : HStore} (q : Quad) (inv : IxInv h s.ix) :
    Store.remove (s.view h) q = ((s.remove h q).1.view h, (s.remove h q).2) := by
  unfold HStore.remove Store.remove
  simp only [hstore_view, lookupAllH_refines inv]
  cases Store.lookupAll s.max (TIndex.view h s.ix) (quadNames s.shape.n q) s.shape.lookupOrder [] with
  | none => rfl
  | some a =>
    simp only
    cases hi : s.idx with
    | nil => simp [hstore_view, hi]
    | cons prim rest =>
      cases hp : s.shape.perms with
      | nil => simp [hstore_view, hi]
      | cons p0 ps =>
        simp only
        by_cases hch : (oremove (layout p0 (rowOfAssoc s.shape.n a)) prim).2 = true
        · simp only [hch, if_true]
        · simp only [hch, Bool.false_eq_true, if_false]
          simp [hstore_view, hi]

/-- R6: the manual `Clone`, read through the heap, is a COPY: the clone's view is the original's view, term by
term and exactly (not only up to `Term::eq`) -/
theorem cloneIndex_view {h h' : Heap.Heap} {ix ix' : TIndex} (inv : IxInv h ix)
    (hc : cloneIndex .manual h ix = (h', some ix')) : TIndex.view h' ix' = TIndex.view h ix := by
  obtain ⟨h2, ix2, hc2, he, _, inv', _, hp, _⟩ := cloneIndex_manual_spec inv
  rw [hc2] at hc
  simp only [Prod.mk.injEq, Option.some.injEq] at hc
  obtain ⟨rfl, rfl⟩ := hc
  have kp := cloneKeys_pos inv.keysOwned inv.keysRead
  -- the new keys
  have hks : ix2.t2i = (cloneKeys h ix.t2i).2 := by
    have := hc2
    simp only [cloneIndex] at this
    split at this
    · simp only [Prod.mk.injEq, Option.some.injEq] at this
      rw [← this.2]
    · simp at this
  have e1 : Ext (cloneKeys h ix.t2i).1 h2 := by
    have := hc2
    simp only [cloneIndex] at this
    split at this
    · next ok =>
      simp only [Prod.mk.injEq, Option.some.injEq] at this
      rw [← this.1]
      exact (rebuildI2t_spec (h := (cloneKeys h ix.t2i).1) (ks := (cloneKeys h ix.t2i).2) (ts := ix.i2t)
        (fun e' he' => ⟨(cloneKeys_spec inv.keysOwned inv.keysRead).owned e' he', (cloneKeys_spec inv.keysOwned inv.keysRead).bwd e' he'⟩)
        (fun t ht => by
          obtain ⟨e, he0, x, h1, h2'⟩ := inv.sync t ht
          obtain ⟨e', he', _, y, h3, h4⟩ := (cloneKeys_spec inv.keysOwned inv.keysRead).fwd e he0
          have ext1 := (cloneKeys_spec inv.keysOwned inv.keysRead).fresh.ext
          have := readTerm?_ext ext1 h1
          rw [h3] at this; cases this
          exact ⟨e', he', _, h4, readTerm?_ext ext1 h2'⟩)).2.fresh.ext
    · simp at this
  rw [← view_ext inv he]
  unfold TIndex.view
  apply List.ext_getElem?
  intro j
  simp only [List.getElem?_map]
  by_cases hj : j < ix.i2t.length
  · have hj2 : j < ix2.i2t.length := by rw [hp.1]; exact hj
    have hjk : j < ix.t2i.length := by rw [← inv.pair.1]; exact hj
    have hjk2 : j < ix2.t2i.length := by rw [← inv'.pair.1]; exact hj2
    rw [List.getElem?_eq_getElem hj, List.getElem?_eq_getElem hj2]
    simp only [Option.map_some, Option.some.injEq]
    -- entry j of the original, key j of the original, key j of the clone, entry j of the clone all read the same term
    obtain ⟨_, _, x, hx1, hx2⟩ := inv.pair.2 j _ _ (List.getElem?_eq_getElem hjk) (List.getElem?_eq_getElem hj)
    obtain ⟨_, _, y, hy1, hy2⟩ := inv'.pair.2 j _ _ (List.getElem?_eq_getElem hjk2) (List.getElem?_eq_getElem hj2)
    have hk2 : (cloneKeys h ix.t2i).2[j]? = some ix2.t2i[j] := by rw [← hks]; exact List.getElem?_eq_getElem hjk2
    obtain ⟨_, z, hz1, hz2⟩ := kp.2 j _ _ (List.getElem?_eq_getElem hjk) hk2
    rw [hx1] at hz1; cases hz1
    have := readTerm?_ext e1 hz2
    rw [hy1] at this; cases this
    simp only [keyTerm, hy2, readTerm?_ext he hx2]
  · have hj2 : ¬ j < ix2.i2t.length := by rw [hp.1]; exact hj
    rw [List.getElem?_eq_none (Nat.le_of_not_lt hj), List.getElem?_eq_none (Nat.le_of_not_lt hj2)]

/-! ### the world of stores refines the world of values -/

/-- named stores over a heap, read as named values -/
def vof (h : Heap.Heap) (st : List (Nat × HStore)) : VWorld := st.map (fun e => (e.1, e.2.view h))

theorem vview_eq (w : World) : w.vview = vof w.heap w.stores := rfl

theorem vget (w : World) (n : Nat) : w.vview.get n = (w.get n).map (fun s => s.view w.heap) := by
  unfold World.vview VWorld.get World.get
  rw [List.find?_map]
  have : ((fun x : Nat × St => x.1 == n) ∘ fun e : Nat × HStore => (e.1, e.2.view w.heap)) = (fun x => x.1 == n) := rfl
  rw [this]
  cases List.find? (fun x : Nat × HStore => x.1 == n) w.stores <;> rfl

theorem vof_heap {h h' : Heap.Heap} {st : List (Nat × HStore)}
    (hv : ∀ e ∈ st, e.2.view h' = e.2.view h) : vof h' st = vof h st := by
  apply List.map_congr_left
  intro e he
  rw [hv e he]

theorem vof_set {h h' : Heap.Heap} {st : List (Nat × HStore)} (a : Nat) (s' : HStore)
    (hv : ∀ e ∈ st, e.1 ≠ a → e.2.view h' = e.2.view h) :
    vof h' (st.map (fun e => if e.1 == a then (a, s') else e)) = VWorld.set (vof h st) a (s'.view h') := by
  simp only [vof, VWorld.set, List.map_map]
  apply List.map_congr_left
  intro e he
  simp only [Function.comp]
  by_cases hea : (e.1 == a) = true
  · simp [hea]
  · simp only [hea, Bool.false_eq_true, if_false]
    rw [hv e he (by simpa using hea)]

theorem vof_add {h h' : Heap.Heap} {st : List (Nat × HStore)} (b : Nat) (c : HStore)
    (hv : ∀ e ∈ st, e.2.view h' = e.2.view h) :
    vof h' (st ++ [(b, c)]) = VWorld.add (vof h st) b (c.view h') := by
  simp only [vof, VWorld.add, List.map_append, List.map_cons, List.map_nil]
  rw [show st.map (fun e => (e.1, e.2.view h')) = st.map (fun e => (e.1, e.2.view h)) from
    List.map_congr_left (fun e he => by rw [hv e he])]

theorem vof_del {h h' : Heap.Heap} {st : List (Nat × HStore)} (a : Nat)
    (hv : ∀ e ∈ st, e.1 ≠ a → e.2.view h' = e.2.view h) :
    vof h' (st.filter (·.1 != a)) = VWorld.del (vof h st) a := by
  simp only [vof, VWorld.del, List.filter_map]
  apply List.map_congr_left
  intro e he
  have := (List.mem_filter.1 he)
  rw [hv e this.1 (by simpa using this.2)]

theorem view_of_ext {w : World} (inv : WInv w) {h' : Heap.Heap} (e : Ext w.heap h') :
    ∀ x ∈ w.stores, x.2.view h' = x.2.view w.heap := fun x hx => by
  rw [hstore_view, hstore_view, view_ext (inv.ix x hx) e]

theorem view_of_same {w : World} (inv : WInv w) {h' : Heap.Heap} {x : Nat × HStore} (hx : x ∈ w.stores)
    (hs : Same w.heap h' x.2.ix.owned) : x.2.view h' = x.2.view w.heap := by
  rw [hstore_view, hstore_view, view_same (inv.ix x hx) hs]

theorem uniq_fst {β : Type} {l : List (Nat × β)} (nd : (l.map (·.1)).Nodup) {e1 e2 : Nat × β}
    (h1 : e1 ∈ l) (h2 : e2 ∈ l) (h : e1.1 = e2.1) : e1 = e2 := by
  induction l with
  | nil => cases h1
  | cons x l ih =>
    simp only [List.map_cons, List.nodup_cons, List.mem_map, not_exists, not_and] at nd
    simp only [List.mem_cons] at h1 h2
    rcases h1 with rfl | h1 <;> rcases h2 with rfl | h2
    · rfl
    · exact absurd h.symm (nd.1 e2 h2)
    · exact absurd h (nd.1 e1 h1)
    · exact ih nd.2 h1 h2

theorem vset_self {v : VWorld} {a : Nat} {s : St} (hg : v.get a = some s) (hn : (v.map (·.1)).Nodup) :
    v.set a s = v := by
  unfold VWorld.set
  conv => rhs; rw [← List.map_id v]
  apply List.map_congr_left
  intro e he
  by_cases hea : (e.1 == a) = true
  · simp only [hea, if_true, id]
    have hea' : e.1 = a := by simpa using hea
    -- `e` is the entry `get` finds
    unfold VWorld.get at hg
    cases hf : v.find? (·.1 == a) with
    | none => rw [hf] at hg; cases hg
    | some f =>
      rw [hf] at hg
      simp only [Option.map_some, Option.some.injEq] at hg
      have hfm := List.mem_of_find?_eq_some hf
      have hfa : f.1 = a := by simpa using List.find?_some hf
      have : f = e := uniq_fst hn hfm he (by rw [hfa, hea'])
      subst this
      exact Prod.ext hfa.symm hg.symm
  · rw [if_neg hea]; rfl

/-- `vview_step`: every operation of the ownership model, read through the heap, is the same operation of the
value-semantics specification — `clone` is a COPY, an operation on one name leaves every other value alone, a
refused insertion leaves the value as far as it got, moves rename — in every world satisfying the invariant. -/
theorem vview_step {w : World} (inv : WInv w) (op : Op) :
    (World.step .manual w op).1.vview = VWorld.step w.vview op := by
  have hnames : (w.vview.map (·.1)).Nodup := by
    simp only [World.vview, List.map_map]; exact inv.names
  cases op with
  | new a shape max =>
    simp only [World.step, VWorld.step, vget]
    cases hg : w.get a with
    | some _ => rfl
    | none => exact vof_add a _ (fun _ _ => rfl)
  | ins a q =>
    simp only [World.step, VWorld.step, vget]
    cases hg : w.get a with
    | none => rfl
    | some s =>
      simp only [Option.map_some]
      have hsn : (s.view w.heap).shape.n = s.shape.n := rfl
      by_cases h0 : s.shape.n = 0
      · simp only [hsn, h0, if_true]
      · simp only [hsn, h0, if_false]
        have ii := inv.ix _ (get_mem hg)
        have st := insert_step w.own q ii
        have rf := insert_refines w.own q ii
        rw [rf]
        have hv := view_of_ext inv st.ext
        rcases hins : s.insert w.own w.heap q with ⟨h', s', o⟩
        rw [hins] at hv
        cases o <;> exact vof_set a s' (fun e he _ => hv e he)
  | ens a t =>
    simp only [World.step, VWorld.step, vget]
    cases hg : w.get a with
    | none => rfl
    | some s =>
      simp only [Option.map_some]
      have ii := inv.ix _ (get_mem hg)
      have st := ensureIndex_step w.own s.max t ii
      obtain ⟨r1, r2⟩ := ensureIndex_refines w.own s.max t ii
      have hterms : (s.view w.heap).terms = TIndex.view w.heap s.ix := rfl
      have hmax : (s.view w.heap).max = s.max := rfl
      rw [hterms, hmax, r1]
      have hv := view_of_ext inv st.ext
      rcases hens : s.ix.ensureIndex w.own s.max w.heap t with ⟨h', ix', o⟩
      rw [hens] at hv r2
      cases o with
      | none =>
        simp only
        have e1 : ({ s with ix := ix' } : HStore).view h' = s.view w.heap := by
          rw [hstore_view, hstore_view]; simp only [r2 rfl]
        refine Eq.trans (vof_set a _ (fun e he _ => hv e he)) ?_
        show VWorld.set (vof w.heap w.stores) a (({ s with ix := ix' } : HStore).view h') = w.vview
        rw [e1]
        exact vset_self (by rw [← vview_eq, vget, hg]; rfl) hnames
      | some i =>
        simp only
        exact vof_set a _ (fun e he _ => hv e he)
  | rem a q =>
    simp only [World.step, VWorld.step, vget]
    cases hg : w.get a with
    | none => rfl
    | some s =>
      simp only [Option.map_some]
      have hsn : (s.view w.heap).shape.n = s.shape.n := rfl
      by_cases h0 : s.shape.n = 0
      · simp only [hsn, h0, if_true]
      · simp only [hsn, h0, if_false]
        rw [remove_refines q (inv.ix _ (get_mem hg))]
        exact vof_set a _ (fun _ _ _ => rfl)
  | clone a b =>
    simp only [World.step, VWorld.step, vget]
    cases hga : w.get a with
    | none => rfl
    | some s =>
      cases hgb : w.get b with
      | some _ => rfl
      | none =>
        simp only [Option.map_some, Option.map_none]
        obtain ⟨h', c, hc, he, _, _, _, _, h1, h2, h3⟩ := cloneStore_manual_spec (inv.ix _ (get_mem hga))
        rw [hc]
        simp only
        have hcv : c.view h' = s.view w.heap := by
          have hix : cloneIndex .manual w.heap s.ix = (h', some c.ix) := by
            have := hc
            simp only [World.cloneStore] at this
            split at this
            · next ix' heq =>
              simp only [Prod.mk.injEq, Option.some.injEq] at this
              rw [heq, ← this.2, this.1]
            · simp at this
          rw [hstore_view, hstore_view, cloneIndex_view (inv.ix _ (get_mem hga)) hix, h1, h2, h3]
        rw [← hcv]
        exact vof_add b c (view_of_ext inv he)
  | cloneFrom a b =>
    simp only [World.step, VWorld.step, vget]
    cases hga : w.get a with
    | none => rfl
    | some s =>
      cases hgb : w.get b with
      | none => rfl
      | some old =>
        simp only [Option.map_some]
        by_cases hab : (a == b) = true
        · simp only [hab, if_true]
        · simp only [hab, Bool.false_eq_true, if_false]
          obtain ⟨h', c, hc, he, _, hi, hf, _, h1, h2, h3⟩ := cloneStore_manual_spec (inv.ix _ (get_mem hga))
          rw [hc]
          simp only
          have hmb := get_mem hgb
          have oldInv := inv.ix _ hmb
          have hfree : ∀ x, x ∉ old.ix.owned → (h'.freeAll old.ix.owned).cells[x]? = h'.cells[x]? :=
            fun x hx => freeAll_get_other _ hx
          have hcv : c.view h' = s.view w.heap := by
            have hix : cloneIndex .manual w.heap s.ix = (h', some c.ix) := by
              have := hc
              simp only [World.cloneStore] at this
              split at this
              · next ix' heq =>
                simp only [Prod.mk.injEq, Option.some.injEq] at this
                rw [heq, ← this.2, this.1]
              · simp at this
            rw [hstore_view, hstore_view, cloneIndex_view (inv.ix _ (get_mem hga)) hix, h1, h2, h3]
          have hcv2 : c.view (h'.freeAll old.ix.owned) = c.view h' := by
            rw [hstore_view, hstore_view, view_same hi
              (fun x hx => hfree x (fun hxo => Nat.lt_irrefl _ (Nat.lt_of_lt_of_le (oldInv.lt hxo) (hf x hx))))]
          rw [← hcv, ← hcv2]
          refine vof_set b c (fun e hem hne => ?_)
          have hs1 : Same w.heap h' e.2.ix.owned := Same.of_ext he (fun _ ha => (inv.ix e hem).lt ha)
          refine view_of_same inv hem (fun x hx => ?_)
          show (h'.freeAll old.ix.owned).cells[x]? = w.heap.cells[x]?
          rw [hfree x (fun hxo => inv.disj _ hmb e hem (Ne.symm hne) x hxo hx)]
          exact hs1 x hx
  | drop a =>
    simp only [World.step, VWorld.step, vget]
    cases hg : w.get a with
    | none => rfl
    | some s =>
      simp only [Option.map_some]
      have hm := get_mem hg
      refine vof_del a (fun e hem hne => view_of_same inv hem (fun x hx => ?_))
      exact freeAll_get_other _ (fun hxo => inv.disj _ hm e hem (Ne.symm hne) x hxo hx)
  | swap a b =>
    simp only [World.step, VWorld.step, vget]
    cases hga : w.get a with
    | none => rfl
    | some sa =>
      cases hgb : w.get b with
      | none => rfl
      | some sb =>
        simp only [Option.map_some]
        by_cases hab : (a == b) = true
        · simp only [hab, if_true]
        · simp only [hab, Bool.false_eq_true, if_false]
          show vof w.heap ((w.stores.map (fun e => if e.1 == a then (a, sb) else e)).map
            (fun e => if e.1 == b then (b, sa) else e)) = _
          rw [vof_set (h := w.heap) b sa (fun _ _ _ => rfl), vof_set (h := w.heap) a sb (fun _ _ _ => rfl)]
          rfl
  | mv a b =>
    simp only [World.step, VWorld.step, vget]
    cases hga : w.get a with
    | none => rfl
    | some s =>
      cases hgb : w.get b with
      | some _ => rfl
      | none =>
        simp only [Option.map_some, Option.map_none]
        show vof w.heap (w.stores.filter (·.1 != a) ++ [(b, s)]) = _
        rw [vof_add (h := w.heap) b s (fun _ _ => rfl), vof_del (h := w.heap) a (fun _ _ _ => rfl)]
        rfl
  | box a =>
    simp only [World.step, VWorld.step]
    cases hg : w.get a with
    | none => rfl
    | some s =>
      simp only
      show vof w.heap (w.stores.map (fun e => if e.1 == a then (a, { s with boxed := !s.boxed }) else e)) = _
      rw [vof_set (h := w.heap) a _ (fun _ _ _ => rfl)]
      exact vset_self (by rw [← vview_eq, vget, hg]; rfl) hnames
  | take a b =>
    simp only [World.step, VWorld.step, vget]
    cases hga : w.get a with
    | none => rfl
    | some s =>
      cases hgb : w.get b with
      | some _ => rfl
      | none =>
        simp only [Option.map_some, Option.map_none]
        show vof w.heap (w.stores.map (fun e => if e.1 == a then (a, HStore.new s.shape s.max) else e) ++ [(b, s)]) = _
        rw [vof_add (h := w.heap) b s (fun _ _ => rfl), vof_set (h := w.heap) a _ (fun _ _ _ => rfl)]
        rfl
  | grow a =>
    simp only [World.step, VWorld.step]
    split <;> rfl
  | readAll a =>
    simp only [World.step, VWorld.step]
    cases hg : w.get a with
    | none => rfl
    | some s =>
      have : s.readAll w.heap = w.heap := by
        simp [HStore.readAll, readable_of_inv (inv.ix _ (get_mem hg))]
      simp only [this]
  | via own => rfl

end SophiaProofs.HeapP
