/-
C15 for arbitrary pure closures and any item type: the same induction (chain, then script) as in
Lemmas/Source.lean, over `GAdapter`.
-/
import SophiaProofs.Lemmas.Source

namespace SophiaProofs.SourceLemmas
open SophiaModel SophiaModel.Source

variable {σ ι ε κ εk : Type}

def gChainWrap (c : List (GAdapter ι)) (f : Sink κ ι εk) : Sink κ ι εk := fun k i =>
  match gChainFn c i with
  | none => (k, .ok ())
  | some y => f k y

theorem gApply_tryForSome (a : GAdapter ι) (S : Source σ ι ε) (f : Sink κ ι εk) (s : σ) (k : κ) :
    (a.apply S).tryForSomeItem f s k = S.tryForSomeItem (gChainWrap [a] f) s k := by
  have hw : ∀ g : ι → Option ι, (∀ i, a.fn i = g i) →
      gChainWrap [a] f = fun k i => match g i with
        | none => (k, .ok ())
        | some y => f k y := by
    intro g hg
    funext k i
    simp only [gChainWrap, gChainFn, hg]
    cases g i <;> simp
  cases a with
  | filterItems p | filterTriples p =>
    rw [hw (fun i => if p i then some i else none) (fun i => rfl)]
    simp only [GAdapter.apply, Source.filterItems, Source.filterTriples]
    congr 1
    funext k i
    cases hp : p i
    · simp
    · simp only [if_true]
      rcases h : f k i with ⟨k', r⟩
      cases r with
      | error e => rfl
      | ok u => cases u; rfl
  | mapItems g | mapTriples g | convert g =>
    rw [hw (fun i => some (g i)) (fun i => rfl)]
    rfl
  | filterMapItems g | filterMapTriples g =>
    rw [hw g (fun i => rfl)]
    simp only [GAdapter.apply, Source.filterMapItems, Source.filterMapTriples]
    refine congrArg (fun h => S.tryForSomeItem h s k) ?_
    funext k i
    cases g i <;> rfl

theorem gApply_fuel (a : GAdapter ι) (S : Source σ ι ε) : (a.apply S).fuel = S.fuel := by
  cases a <;> rfl

theorem gChainWrap_cons (a : GAdapter ι) (rest : List (GAdapter ι)) (f : Sink κ ι εk) :
    gChainWrap [a] (gChainWrap rest f) = gChainWrap (a :: rest) f := by
  funext k i
  simp only [gChainWrap, gChainFn]
  cases a.fn i <;> simp [Option.bind]

theorem gApplyChain_tryForSome (c : List (GAdapter ι)) (S : Source σ ι ε) (f : Sink κ ι εk) (s : σ) (k : κ) :
    (gApplyChain c S).tryForSomeItem f s k = S.tryForSomeItem (gChainWrap c f) s k := by
  induction c generalizing S with
  | nil =>
    have : gChainWrap ([] : List (GAdapter ι)) f = f := by funext k i; simp [gChainWrap, gChainFn]
    simp [gApplyChain, this]
  | cons a rest ih =>
    have : gApplyChain (a :: rest) S = gApplyChain rest (a.apply S) := rfl
    rw [this, ih, gApply_tryForSome, gChainWrap_cons]

theorem gApplyChain_fuel (c : List (GAdapter ι)) (S : Source σ ι ε) : (gApplyChain c S).fuel = S.fuel := by
  induction c generalizing S with
  | nil => rfl
  | cons a rest ih =>
    have : gApplyChain (a :: rest) S = gApplyChain rest (a.apply S) := rfl
    rw [this, ih, gApply_fuel]

theorem feed_gChainWrap (c : List (GAdapter ι)) (f : Sink κ ι εk) (k : κ) (items : List ι) :
    feed (gChainWrap c f) k items = feed f k (items.filterMap (gChainFn c)) := by
  induction items generalizing k with
  | nil => simp [feed]
  | cons i is ih =>
    simp only [feed]
    cases h : gChainFn c i with
    | none =>
      simp only [gChainWrap, h, List.filterMap_cons]
      exact ih k
    | some y =>
      simp only [gChainWrap, h, List.filterMap_cons, feed]
      rcases hf : f k y with ⟨k', r⟩
      cases r with
      | error e => rfl
      | ok u =>
        cases u
        exact ih k'

theorem gLoop_spec (c : List (GAdapter ι)) (f : Sink κ ι εk) (sc : List (Ev ι ε)) (n : Nat) (k : κ)
    (hn : sc.length < n) :
    (tryForEachLoop (gApplyChain c rioSource) f n sc k).2 =
      specResult f k ((Ev.itemsOf sc).filterMap (gChainFn c)) (Ev.errorOf sc) := by
  induction sc generalizing n k with
  | nil =>
    cases n with
    | zero => omega
    | succ n =>
      simp [tryForEachLoop, gApplyChain_tryForSome, rio_nil, specResult, Ev.itemsOf, Ev.errorOf, feed]
  | cons ev rest ih =>
    cases n with
    | zero => omega
    | succ n =>
      have hn' : rest.length < n := by simp at hn; omega
      cases ev with
      | ok is =>
        simp only [tryForEachLoop, gApplyChain_tryForSome, rio_ok, Ev.itemsOf, Ev.errorOf,
          List.filterMap_append, specResult, feed_append, feed_gChainWrap]
        rcases hf : feed f k (is.filterMap (gChainFn c)) with ⟨k', r⟩
        cases r with
        | error e => rfl
        | ok u =>
          cases u
          have := ih n k' hn'
          simp only [specResult] at this
          simpa using this
      | err is e =>
        simp only [tryForEachLoop, gApplyChain_tryForSome, rio_err, Ev.itemsOf, Ev.errorOf,
          specResult, feed_gChainWrap]
        rcases hf : feed f k (is.filterMap (gChainFn c)) with ⟨k', r⟩
        cases r with
        | error e => rfl
        | ok u => cases u; rfl

/-- the protocol family is the generic construction on its closures -/
theorem toG_apply (a : Adapter) (S : Source σ Item ε) : a.toG.apply S = a.apply S := by
  cases a <;> rfl

theorem toG_fn (a : Adapter) (i : Item) : a.toG.fn i = a.fn i := by
  cases a <;> rfl

end SophiaProofs.SourceLemmas
