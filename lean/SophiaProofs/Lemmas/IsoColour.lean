/-
Lemmas about the isomorphism model, part 2: colour histograms (`make_equivalence_classes`, `HashMap::eq`)
and the correspondence of colours under a relabelling of blank nodes.
-/
import SophiaProofs.Lemmas.Iso
import Batteries.Data.List.Perm
namespace SophiaProofs.Iso
open SophiaModel SophiaModel.Term SophiaModel.Iso SophiaProofs Std

/-! ### `make_equivalence_classes` and `HashMap<u64, usize>::eq` -/

def hist (vals : List UInt64) (e : EqCl) : EqCl := vals.foldl bump e

theorem eqClasses_eq_hist (m : CMap) : eqClasses m = hist (m.map Prod.snd) [] := by
  simp [eqClasses, hist, List.foldl_map]

theorem lookup_bump (e : EqCl) (v k : UInt64) :
    (bump e v).lookup k = if k = v then some ((e.lookup k).getD 0 + 1) else e.lookup k := by
  induction e with
  | nil =>
    by_cases hk : k = v
    · subst hk; simp [bump, List.lookup]
    · have : (k == v) = false := by simpa using hk
      simp [bump, List.lookup, hk, this]
  | cons kv rest ih =>
    obtain ⟨x, n⟩ := kv
    simp only [bump]
    by_cases hx : x = v
    · subst hx
      by_cases hk : k = x
      · subst hk; simp [List.lookup]
      · have : (k == x) = false := by simpa using hk
        simp [List.lookup, hk, this]
    · have hxv : (x == v) = false := by simpa using hx
      simp only [hxv, Bool.false_eq_true, if_false]
      by_cases hkx : k = x
      · subst hkx
        simp [List.lookup, hx]
      · have h1 : (k == x) = false := by simpa using hkx
        simp only [List.lookup, h1]
        exact ih

theorem keys_bump (e : EqCl) (v : UInt64) :
    (bump e v).map Prod.fst = if v ∈ e.map Prod.fst then e.map Prod.fst else e.map Prod.fst ++ [v] := by
  induction e with
  | nil => simp [bump]
  | cons kv rest ih =>
    obtain ⟨k, s⟩ := kv
    simp only [bump]
    by_cases hk : k = v
    · subst hk; simp
    · have hkb : (k == v) = false := by simpa using hk
      have hbk : ¬ v = k := fun h => hk h.symm
      simp only [hkb, Bool.false_eq_true, if_false, List.map_cons, ih, List.mem_cons, hbk, false_or]
      split <;> simp

theorem lookup_hist (vals : List UInt64) (e : EqCl) (k : UInt64) :
    (hist vals e).lookup k =
      if vals.count k = 0 then e.lookup k else some ((e.lookup k).getD 0 + vals.count k) := by
  induction vals generalizing e with
  | nil => simp [hist]
  | cons v vs ih =>
    simp only [hist, List.foldl_cons] at ih ⊢
    rw [ih, lookup_bump, List.count_cons]
    by_cases hk : k = v
    · subst hk
      simp only [if_true, beq_self_eq_true, Option.getD_some]
      by_cases hc : List.count k vs = 0
      · simp [hc]
      · simp only [hc, if_false, Nat.succ_ne_zero, Option.some.injEq]; omega
    · have : (v == k) = false := by simpa using fun e : v = k => hk e.symm
      simp [hk, this]

theorem keys_hist_nodup (vals : List UInt64) (e : EqCl) (h : (e.map Prod.fst).Nodup) :
    ((hist vals e).map Prod.fst).Nodup := by
  induction vals generalizing e with
  | nil => simpa [hist] using h
  | cons v vs ih =>
    simp only [hist, List.foldl_cons] at ih ⊢
    apply ih
    rw [keys_bump]
    split
    · exact h
    · rename_i hb
      rw [List.nodup_append]
      refine ⟨h, by simp, ?_⟩
      intro a ha x hx
      simp only [List.mem_singleton] at hx
      subst hx
      intro e; subst e; exact hb ha

theorem lookup_isSome_iff {β : Type} (e : List (UInt64 × β)) (k : UInt64) :
    (e.lookup k).isSome = true ↔ k ∈ e.map Prod.fst := by
  induction e with
  | nil => simp [List.lookup]
  | cons kv rest ih =>
    obtain ⟨x, n⟩ := kv
    by_cases hk : k = x
    · subst hk; simp [List.lookup]
    · have : (k == x) = false := by simpa using hk
      simp [List.lookup, this, ih, hk]

theorem mem_of_lookup {β : Type} (e : List (UInt64 × β)) (k : UInt64) (n : β) (h : e.lookup k = some n) :
    (k, n) ∈ e := by
  induction e with
  | nil => simp [List.lookup] at h
  | cons kv rest ih =>
    obtain ⟨x, m⟩ := kv
    by_cases hk : k = x
    · subst hk; simp [List.lookup] at h; simp [h]
    · have : (k == x) = false := by simpa using hk
      simp only [List.lookup, this] at h
      exact List.mem_cons_of_mem _ (ih h)

theorem lookup_of_mem {β : Type} (e : List (UInt64 × β)) (hn : (e.map Prod.fst).Nodup) (k : UInt64) (n : β)
    (h : (k, n) ∈ e) : e.lookup k = some n := by
  induction e with
  | nil => simp at h
  | cons kv rest ih =>
    obtain ⟨x, m⟩ := kv
    simp only [List.map_cons, List.nodup_cons] at hn
    rcases List.mem_cons.1 h with h' | h'
    · cases h'; simp [List.lookup]
    · have : ¬ k = x := by
        intro e; subst e
        exact hn.1 (List.mem_map.2 ⟨(k, n), h', rfl⟩)
      have : (k == x) = false := by simpa using this
      simp only [List.lookup, this]
      exact ih hn.2 h'

/-- `HashMap::eq` on maps with distinct keys is extensional equality of `get` -/
theorem eqclEq_iff (e1 e2 : EqCl) (n1 : (e1.map Prod.fst).Nodup) (n2 : (e2.map Prod.fst).Nodup) :
    eqclEq e1 e2 = true ↔ ∀ k, e1.lookup k = e2.lookup k := by
  simp only [eqclEq, Bool.and_eq_true, beq_iff_eq, List.all_eq_true]
  constructor
  · rintro ⟨hl, hall⟩ k
    cases h1 : e1.lookup k with
    | some n => exact (hall (k, n) (mem_of_lookup e1 k n h1)).symm
    | none =>
      have hsub : e1.map Prod.fst ⊆ e2.map Prod.fst := by
        intro x hx
        obtain ⟨⟨x', n⟩, hmem, rfl⟩ := List.mem_map.1 hx
        have := hall (x', n) hmem
        exact (lookup_isSome_iff e2 x').1 (by simp [this])
      have hperm : (e1.map Prod.fst).Perm (e2.map Prod.fst) :=
        (List.subperm_of_subset n1 hsub).perm_of_length_le (by simp [hl])
      cases h2 : e2.lookup k with
      | none => rfl
      | some n =>
        have : k ∈ e1.map Prod.fst := hperm.symm.subset ((lookup_isSome_iff e2 k).1 (by simp [h2]))
        have := (lookup_isSome_iff e1 k).2 this
        simp [h1] at this
  · intro h
    constructor
    · have : (e1.map Prod.fst).Perm (e2.map Prod.fst) := by
        rw [List.perm_ext_iff_of_nodup n1 n2]
        intro k
        rw [← lookup_isSome_iff, ← lookup_isSome_iff, h k]
      simpa using this.length_eq
    · rintro ⟨k, n⟩ hmem
      simp only
      rw [← h k, lookup_of_mem e1 n1 k n hmem]

theorem eqclEq_symm (e1 e2 : EqCl) (n1 : (e1.map Prod.fst).Nodup) (n2 : (e2.map Prod.fst).Nodup) :
    eqclEq e1 e2 = eqclEq e2 e1 := by
  rw [Bool.eq_iff_iff, eqclEq_iff e1 e2 n1 n2, eqclEq_iff e2 e1 n2 n1]
  exact ⟨fun h k => (h k).symm, fun h k => (h k).symm⟩

theorem keys_eqClasses_nodup (m : CMap) : ((eqClasses m).map Prod.fst).Nodup := by
  rw [eqClasses_eq_hist]; exact keys_hist_nodup _ [] (by simp)

/-- maps whose value lists are permutations of each other have equal colour histograms -/
theorem eqClasses_of_perm (m1 m2 : CMap) (hp : (m1.map Prod.snd).Perm (m2.map Prod.snd)) :
    eqclEq (eqClasses m1) (eqClasses m2) = true ∧ (eqClasses m1).length = (eqClasses m2).length := by
  have hk : ∀ k, (eqClasses m1).lookup k = (eqClasses m2).lookup k := by
    intro k
    rw [eqClasses_eq_hist, eqClasses_eq_hist, lookup_hist, lookup_hist, hp.count_eq k]
  have h := (eqclEq_iff _ _ (keys_eqClasses_nodup m1) (keys_eqClasses_nodup m2)).2 hk
  refine ⟨h, ?_⟩
  simp only [eqclEq, Bool.and_eq_true, beq_iff_eq] at h
  exact h.1

/-! ### relabelling of blank nodes -/

/-- rename every blank node (at any depth) -/
def relabel (β : Str → Str) : Term → Term
  | .bnode b => .bnode (β b)
  | .triple s p o => .triple (relabel β s) (relabel β p) (relabel β o)
  | t => t

def relabelQ (β : Str → Str) (q : Quad) : Quad := mapQ (relabel β) q

def InjOn (β : Str → Str) (L : List Str) : Prop := ∀ a ∈ L, ∀ b ∈ L, β a = β b → a = b

/-- the blank node labels inside one term -/
def tBnodes (t : Term) : List Str := (constituents t).filterMap bnodeId

theorem tBnodes_triple (s p o : Term) : tBnodes (.triple s p o) = tBnodes s ++ (tBnodes p ++ tBnodes o) := by
  simp only [tBnodes, constituents]
  rw [List.filterMap_cons_none (by rfl)]
  simp [List.filterMap_append]

theorem tBnodes_relabel (β : Str → Str) (t : Term) : tBnodes (relabel β t) = (tBnodes t).map β := by
  induction t with
  | triple s p o ihs ihp iho => simp [relabel, tBnodes_triple, ihs, ihp, iho]
  | _ => simp [relabel, tBnodes, constituents, List.filterMap_cons, bnodeId]

theorem quadBnodes_eq (q : Quad) :
    quadBnodes q = tBnodes q.s ++ (tBnodes q.p ++ (tBnodes q.o ++ (match q.g with | none => [] | some g => tBnodes g))) := by
  cases hg : q.g <;> simp [quadBnodes, iterSpog, tBnodes, hg, List.filterMap_append]

theorem quadBnodes_relabelQ (β : Str → Str) (q : Quad) : quadBnodes (relabelQ β q) = (quadBnodes q).map β := by
  rw [quadBnodes_eq, quadBnodes_eq]
  cases hg : q.g <;> simp [relabelQ, mapQ, hg, tBnodes_relabel]

theorem labels_map_relabelQ (β : Str → Str) (d : List Quad) : labels (d.map (relabelQ β)) = (labels d).map β := by
  induction d with
  | nil => rfl
  | cons q qs ih =>
    simp only [labels, List.map_cons, List.flatMap_cons, List.map_append] at ih ⊢
    rw [ih, quadBnodes_relabelQ]

theorem relabel_WF (β : Str → Str) (t : Term) : (relabel β t).WF = t.WF := by
  induction t with
  | triple s p o ihs ihp iho => simp [relabel, WF, ihs, ihp, iho]
  | _ => simp [relabel, WF]

theorem relabelQ_WFq (β : Str → Str) (q : Quad) (h : WFq q) : WFq (relabelQ β q) := by
  obtain ⟨a1, a2, a3, a4⟩ := h
  refine ⟨by simpa [relabelQ, mapQ, relabel_WF] using a1, by simpa [relabelQ, mapQ, relabel_WF] using a2,
    by simpa [relabelQ, mapQ, relabel_WF] using a3, ?_⟩
  intro g hg
  cases hq : q.g with
  | none => simp [relabelQ, mapQ, hq] at hg
  | some g' =>
    simp only [relabelQ, mapQ, hq, Option.map_some, Option.some.injEq] at hg
    subst hg
    rw [relabel_WF]; exact a4 g' hq

theorem mem_labels_of_mem {d : List Quad} {q : Quad} {c : Str} (hq : q ∈ d) (hc : c ∈ quadBnodes q) :
    c ∈ labels d := List.mem_flatMap.2 ⟨q, hq, hc⟩

theorem contains_map_inj (β : Str → Str) (L M : List Str) (hinj : InjOn β L) (hM : ∀ c ∈ M, c ∈ L) (b : Str)
    (hb : b ∈ L) : (M.map β).contains (β b) = M.contains b := by
  rw [Bool.eq_iff_iff]
  simp only [List.contains_iff_mem, List.mem_map]
  constructor
  · rintro ⟨c, hc, e⟩
    rw [← hinj c (hM c hc) b hb e]; exact hc
  · intro h; exact ⟨b, h, rfl⟩

/-- the quads of the relabelled dataset mentioning `β b` are the images of those mentioning `b` -/
theorem mentions_relabel (β : Str → Str) (d : List Quad) (hinj : InjOn β (labels d)) (b : Str) (hb : b ∈ labels d) :
    mentions (d.map (relabelQ β)) (β b) = (mentions d b).map (relabelQ β) := by
  simp only [mentions, List.filter_map]
  congr 1
  apply List.filter_congr
  intro q hq
  simp only [Function.comp, quadBnodes_relabelQ]
  exact contains_map_inj β (labels d) (quadBnodes q) hinj (fun c hc => mem_labels_of_mem hq hc) b hb

/-! ### hashes correspond -/

theorem evTerm_relabel (β : Str → Str) (L : List Str) (hinj : InjOn β L) (m1 m2 : CMap)
    (hcol : ∀ c ∈ L, colour m2 (β c) = colour m1 c) (b : Str) (hb : b ∈ L) (t : Term) (pos : Char)
    (ht : ∀ c ∈ tBnodes t, c ∈ L) : evTerm m2 (β b) pos (relabel β t) = evTerm m1 b pos t := by
  induction t generalizing pos with
  | bnode c =>
    have hc : c ∈ L := ht c (by simp [tBnodes, constituents, bnodeId])
    have : (β c == β b) = (c == b) := by
      rw [Bool.eq_iff_iff]; simp only [beq_iff_eq]
      exact ⟨hinj c hc b hb, fun e => e ▸ rfl⟩
    simp [relabel, evTerm, hcol c hc, this]
  | triple s p o ihs ihp iho =>
    rw [tBnodes_triple] at ht
    simp only [relabel, evTerm]
    rw [ihs 's' (fun c hc => ht c (by simp [hc])), ihp 'p' (fun c hc => ht c (by simp [hc])),
      iho 'o' (fun c hc => ht c (by simp [hc]))]
  | _ => simp [relabel, evTerm]

theorem evQuad_relabel (β : Str → Str) (L : List Str) (hinj : InjOn β L) (m1 m2 : CMap)
    (hcol : ∀ c ∈ L, colour m2 (β c) = colour m1 c) (b : Str) (hb : b ∈ L) (q : Quad)
    (hq : ∀ c ∈ quadBnodes q, c ∈ L) : evQuad m2 (β b) (relabelQ β q) = evQuad m1 b q := by
  rw [quadBnodes_eq] at hq
  have e := evTerm_relabel β L hinj m1 m2 hcol b hb
  simp only [evQuad, relabelQ, mapQ]
  rw [e q.s 's' (fun c hc => hq c (by simp [hc])), e q.p 'p' (fun c hc => hq c (by simp [hc])),
    e q.o 'o' (fun c hc => hq c (by simp [hc]))]
  cases hg : q.g with
  | none => simp
  | some g =>
    simp only [Option.map_some]
    rw [e g 'g' (fun c hc => hq c (by simp [hg, hc]))]

theorem xor_fold_perm (l1 l2 : List UInt64) (hp : l1.Perm l2) (acc : UInt64) :
    l1.foldl (· ^^^ ·) acc = l2.foldl (· ^^^ ·) acc := by
  apply hp.foldl_eq'
  intro x _ y _ z
  rw [UInt64.xor_assoc, UInt64.xor_comm x y, ← UInt64.xor_assoc]

theorem nodup_map_of_injOn (β : Str → Str) (L : List Str) (hinj : InjOn β L) (hn : L.Nodup) : (L.map β).Nodup := by
  induction L with
  | nil => simp
  | cons a L ih =>
    simp only [List.map_cons, List.nodup_cons, List.mem_map, not_exists, not_and] at hn ⊢
    refine ⟨?_, ih (fun x hx y hy => hinj x (by simp [hx]) y (by simp [hy])) hn.2⟩
    intro x hx e
    have := hinj x (by simp [hx]) a (by simp) e
    subst this
    exact hn.1 hx

/-- the setting of `iso_relabel`: `d2` is a permutation of the `β`-image of `d1`, `β` injective on the labels -/
structure Relabelled (β : Str → Str) (d1 d2 : List Quad) : Prop where
  inj : InjOn β (labels d1)
  perm : d2.Perm (d1.map (relabelQ β))

theorem Relabelled.keys_perm {β : Str → Str} {d1 d2 : List Quad} (R : Relabelled β d1 d2) :
    ((makeB2q d2).map Prod.fst).Perm (((makeB2q d1).map Prod.fst).map β) := by
  have hinj' : InjOn β ((makeB2q d1).map Prod.fst) := fun x hx y hy =>
    R.inj x ((mem_keys_makeB2q d1 x).1 hx) y ((mem_keys_makeB2q d1 y).1 hy)
  rw [List.perm_ext_iff_of_nodup (keys_makeB2q_nodup d2)
    (nodup_map_of_injOn β _ hinj' (keys_makeB2q_nodup d1))]
  intro c
  rw [mem_keys_makeB2q]
  have hl : c ∈ labels d2 ↔ c ∈ labels (d1.map (relabelQ β)) := (R.perm.flatMap_right quadBnodes).mem_iff
  rw [hl, labels_map_relabelQ, List.mem_map, List.mem_map]
  constructor
  · rintro ⟨a, ha, e⟩; exact ⟨a, (mem_keys_makeB2q d1 a).2 ha, e⟩
  · rintro ⟨a, ha, e⟩; exact ⟨a, (mem_keys_makeB2q d1 a).1 ha, e⟩

theorem Relabelled.mentions_perm {β : Str → Str} {d1 d2 : List Quad} (R : Relabelled β d1 d2) (b : Str)
    (hb : b ∈ labels d1) : (mentions d2 (β b)).Perm ((mentions d1 b).map (relabelQ β)) := by
  rw [← mentions_relabel β d1 R.inj b hb]
  exact R.perm.filter _

/-- one round of `make_map` preserves "the colour of `β b` in `d2` is the colour of `b` in `d1`" -/
theorem Relabelled.colour_step {β : Str → Str} {d1 d2 : List Quad} (R : Relabelled β d1 d2) (h : List Ev → UInt64)
    (m1 m2 : CMap) (hcol : ∀ c ∈ labels d1, colour m2 (β c) = colour m1 c) (b : Str) (hb : b ∈ labels d1) :
    colour (makeMap h d2 (makeB2q d2) m2) (β b) = colour (makeMap h d1 (makeB2q d1) m1) b := by
  rw [colour_makeMap_makeB2q, colour_makeMap_makeB2q]
  rw [xor_fold_perm _ _ ((R.mentions_perm b hb).map (fun q => hashQuadWith h q m2 (β b)))]
  rw [List.map_map]
  congr 1
  apply List.map_congr_left
  intro q hq
  have hqd : q ∈ d1 := (List.mem_filter.1 hq).1
  simp only [Function.comp, hashQuadWith]
  rw [evQuad_relabel β (labels d1) R.inj m1 m2 hcol b hb q (fun c hc => mem_labels_of_mem hqd hc)]

theorem Relabelled.colour_init {β : Str → Str} {d1 d2 : List Quad} (R : Relabelled β d1 d2) (b : Str)
    (hb : b ∈ labels d1) : colour (initMap (makeB2q d2)) (β b) = colour (initMap (makeB2q d1)) b := by
  rw [colour_initMap, colour_initMap, look_makeB2q, look_makeB2q, idxFrom_length, idxFrom_length,
    (R.mentions_perm b hb).length_eq, List.length_map]

/-- maps over the two key sets whose colours correspond have value lists that are permutations -/
theorem Relabelled.vals_perm {β : Str → Str} {d1 d2 : List Quad} (R : Relabelled β d1 d2) (m1 m2 : CMap)
    (k1 : m1.map Prod.fst = (makeB2q d1).map Prod.fst) (k2 : m2.map Prod.fst = (makeB2q d2).map Prod.fst)
    (hcol : ∀ c ∈ labels d1, colour m2 (β c) = colour m1 c) : (m1.map Prod.snd).Perm (m2.map Prod.snd) := by
  rw [vals_eq_colours m1 (k1 ▸ keys_makeB2q_nodup d1), vals_eq_colours m2 (k2 ▸ keys_makeB2q_nodup d2), k1, k2]
  refine List.Perm.symm ((R.keys_perm.map (colour m2)).trans ?_)
  rw [List.map_map]
  apply List.Perm.of_eq
  apply List.map_congr_left
  intro c hc
  exact hcol c ((mem_keys_makeB2q d1 c).1 hc)

/-- colour refinement never separates a dataset from a relabelled copy: whatever the hash function and the
fuel, the loop does not answer `false` -/
theorem Relabelled.refine_ne_false {β : Str → Str} {d1 d2 : List Quad} (R : Relabelled β d1 d2)
    (h : List Ev → UInt64) (fuel : Nat) (m1 m2 : CMap) (old1 old2 : Nat)
    (k1 : m1.map Prod.fst = (makeB2q d1).map Prod.fst) (k2 : m2.map Prod.fst = (makeB2q d2).map Prod.fst)
    (hcol : ∀ c ∈ labels d1, colour m2 (β c) = colour m1 c) :
    refine h d1 d2 (makeB2q d1) (makeB2q d2) fuel m1 m2 old1 old2 ≠ some false := by
  induction fuel generalizing m1 m2 old1 old2 with
  | zero => simp [refine]
  | succ fuel ih =>
    have hcol' := R.colour_step h m1 m2 hcol
    have k1' := keys_makeMap h d1 (makeB2q d1) m1
    have k2' := keys_makeMap h d2 (makeB2q d2) m2
    have hv := R.vals_perm _ _ k1' k2' hcol'
    obtain ⟨he, _⟩ := eqClasses_of_perm _ _ hv
    simp only [refine]
    split
    · simp [he]
    · split
      · simp [he]
      · exact ih _ _ _ _ k1' k2' hcol'

/-! ### the `unwrap` in `hash_term_with` cannot fail -/

theorem lookup_isSome_iff_str {β : Type} (e : List (Str × β)) (k : Str) :
    (e.lookup k).isSome = true ↔ k ∈ e.map Prod.fst := by
  induction e with
  | nil => simp [List.lookup]
  | cons kv rest ih =>
    obtain ⟨x, n⟩ := kv
    by_cases hk : k = x
    · subst hk; simp [List.lookup]
    · have : (k == x) = false := by simpa using hk
      simp [List.lookup, this, ih, hk]

/-- every colour map of the loop has the keys of `make_b2q_map(d)` (`keys_initMap`, `keys_makeMap`), and
every label met while hashing a quad of `d` is such a key: `map.get(bnid)` is always `Some` -/
theorem colour_covered (d : List Quad) (m : CMap) (hk : m.map Prod.fst = (makeB2q d).map Prod.fst)
    (q : Quad) (hq : q ∈ d) (c : Str) (hc : c ∈ quadBnodes q) : (m.lookup c).isSome = true := by
  rw [lookup_isSome_iff_str, hk, mem_keys_makeB2q]
  exact mem_labels_of_mem hq hc

/-- the labels whose colour `hash_term_with` reads are exactly the blank node labels of the term -/
theorem evTerm_congr (m1 m2 : CMap) (ctx : Str) (pos : Char) (t : Term)
    (h : ∀ c ∈ tBnodes t, colour m1 c = colour m2 c) : evTerm m1 ctx pos t = evTerm m2 ctx pos t := by
  induction t generalizing pos with
  | bnode c => simp [evTerm, h c (by simp [tBnodes, constituents, bnodeId])]
  | triple s p o ihs ihp iho =>
    rw [tBnodes_triple] at h
    simp only [evTerm]
    rw [ihs 's' (fun c hc => h c (by simp [hc])), ihp 'p' (fun c hc => h c (by simp [hc])),
      iho 'o' (fun c hc => h c (by simp [hc]))]
  | _ => simp [evTerm]

/-! ### the blank-count gate is subsumed by the final histogram comparison -/

theorem nodup_of_keys_nodup {β : Type} (e : List (UInt64 × β)) (h : (e.map Prod.fst).Nodup) : e.Nodup := by
  induction e with
  | nil => simp
  | cons kv rest ih =>
    simp only [List.map_cons, List.nodup_cons] at h ⊢
    exact ⟨fun hm => h.1 (List.mem_map.2 ⟨kv, hm, rfl⟩), ih h.2⟩

theorem sum_bump (e : EqCl) (v : UInt64) : ((bump e v).map Prod.snd).sum = (e.map Prod.snd).sum + 1 := by
  induction e with
  | nil => simp [bump]
  | cons kv rest ih =>
    obtain ⟨k, n⟩ := kv
    simp only [bump]
    split
    · simp only [List.map_cons, List.sum_cons]; omega
    · simp only [List.map_cons, List.sum_cons, ih]; omega

theorem sum_hist (vals : List UInt64) (e : EqCl) :
    ((hist vals e).map Prod.snd).sum = (e.map Prod.snd).sum + vals.length := by
  induction vals generalizing e with
  | nil => simp [hist]
  | cons v vs ih =>
    simp only [hist, List.foldl_cons, List.length_cons] at ih ⊢
    rw [ih, sum_bump]; omega

/-- equal histograms count the same number of blank nodes -/
theorem length_eq_of_eqclEq (m1 m2 : CMap) (h : eqclEq (eqClasses m1) (eqClasses m2) = true) :
    m1.length = m2.length := by
  have n1 := keys_eqClasses_nodup m1
  have n2 := keys_eqClasses_nodup m2
  have hk := (eqclEq_iff _ _ n1 n2).1 h
  have hp : (eqClasses m1).Perm (eqClasses m2) := by
    rw [List.perm_ext_iff_of_nodup (nodup_of_keys_nodup _ n1) (nodup_of_keys_nodup _ n2)]
    rintro ⟨k, n⟩
    constructor
    · intro hm; exact mem_of_lookup _ k n (hk k ▸ lookup_of_mem _ n1 k n hm)
    · intro hm; exact mem_of_lookup _ k n ((hk k).symm ▸ lookup_of_mem _ n2 k n hm)
  have hs := (hp.map Prod.snd).sum_nat
  rw [eqClasses_eq_hist, eqClasses_eq_hist, sum_hist, sum_hist] at hs
  simpa using hs

/-- hence the loop never answers `true` when the two datasets have different numbers of blank nodes:
the explicit `b2q1.len() != b2q2.len()` test only saves time -/
theorem refine_ne_true_of_bcount (h : List Ev → UInt64) (d1 d2 : List Quad) (b1 b2 : B2Q) (hne : b1.length ≠ b2.length)
    (fuel : Nat) (m1 m2 : CMap) (o1 o2 : Nat) : refine h d1 d2 b1 b2 fuel m1 m2 o1 o2 ≠ some true := by
  induction fuel generalizing m1 m2 o1 o2 with
  | zero => simp [refine]
  | succ fuel ih =>
    have hf : eqclEq (eqClasses (makeMap h d1 b1 m1)) (eqClasses (makeMap h d2 b2 m2)) = false := by
      cases hc : eqclEq (eqClasses (makeMap h d1 b1 m1)) (eqClasses (makeMap h d2 b2 m2))
      · rfl
      · exfalso; apply hne
        have := length_eq_of_eqclEq _ _ hc
        simpa [makeMap] using this
    simp only [refine]
    split
    · simp [hf]
    · split
      · simp [hf]
      · exact ih _ _ _ _

end SophiaProofs.Iso
