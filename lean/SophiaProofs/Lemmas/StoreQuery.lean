/-
Query correctness of `SophiaModel.Store` (model of `sophia_inmem`): for EVERY arm of EVERY arm
table satisfying the decidable obligations `descOK`, `quads_matching` / `triples_matching` returns
exactly the stored quads that match the pattern, each once (`quadsMatching_spec`), and the default
`contains` is membership (`contains_spec`).
-/
import SophiaProofs.Lemmas.StoreDefs
import SophiaProofs.Lemmas.StoreMut
import SophiaProofs.Lemmas.StoreScan

namespace SophiaProofs.StoreP
open SophiaModel SophiaModel.Term SophiaModel.Store
open SophiaProofs.C02 (termEq_refl termEq_symm termEq_trans)

/-! ## 0. small list facts -/

theorem getD_of_lt {α : Type} {l : List α} {j : Nat} (d : α) (h : j < l.length) :
    l.getD j d = l[j] := by
  rw [List.getD_eq_getElem?_getD, List.getElem?_eq_getElem h, Option.getD_some]

theorem getD_irrel {α : Type} {l : List α} {j : Nat} (d d' : α) (h : j < l.length) :
    l.getD j d = l.getD j d' := by
  rw [getD_of_lt d h, getD_of_lt d' h]

theorem getElem?_of_getD {α : Type} {l : List α} {j : Nat} (d : α) (h : j < l.length) :
    l[j]? = some (l.getD j d) := by
  rw [getD_of_lt d h, List.getElem?_eq_getElem h]

theorem map_getD {α β : Type} (f : α → β) {l : List α} {j : Nat} (d : α) (d' : β)
    (h : j < l.length) : (l.map f).getD j d' = f (l.getD j d) := by
  rw [getD_of_lt d h, getD_of_lt d' (by simpa using h), List.getElem_map]

theorem layout_getD {perm : List Nat} {c : Row} {j : Nat} (h : j < perm.length) :
    (layout perm c).getD j 0 = c.getD (perm.getD j 0) 0 := by
  unfold layout
  rw [map_getD _ 0 0 h]

theorem lt_of_getD_ne {α : Type} {l : List α} {j : Nat} {d : α} (h : l.getD j d ≠ d) :
    j < l.length := by
  rcases Nat.lt_or_ge j l.length with h' | h'
  · exact h'
  · rw [List.getD_eq_getElem?_getD, List.getElem?_eq_none h'] at h
    exact absurd rfl h

theorem all_zipIdx {α : Type} (l : List α) (F : α × Nat → Bool) :
    l.zipIdx.all F = true ↔ ∀ i (h : i < l.length), F (l[i], i) = true := by
  rw [List.all_eq_true]
  constructor
  · intro hall i hi
    apply hall
    rw [List.mem_zipIdx_iff_getElem?]
    exact List.getElem?_eq_getElem hi
  · intro hall x hx
    rw [List.mem_zipIdx_iff_getElem?] at hx
    obtain ⟨hlt, he⟩ := List.getElem?_eq_some_iff.1 hx
    have := hall x.2 hlt
    rw [he] at this
    exact this

theorem nodup_map_on {α β : Type} (f : α → β) : ∀ (l : List α),
    (∀ x ∈ l, ∀ y ∈ l, f x = f y → x = y) → l.Nodup → (l.map f).Nodup
  | [], _, _ => by simp
  | a :: l, hinj, hnd => by
    rw [List.nodup_cons] at hnd
    rw [List.map_cons, List.nodup_cons]
    refine ⟨?_, nodup_map_on f l (fun x hx y hy => hinj x (by simp [hx]) y (by simp [hy])) hnd.2⟩
    intro hm
    obtain ⟨y, hy, hfy⟩ := List.mem_map.1 hm
    have := hinj y (by simp [hy]) a (by simp) hfy
    subst this
    exact hnd.1 hy

theorem mapM_some_getElem? {α β : Type} (f : α → Option β) : ∀ (l : List α) (r : List β),
    l.mapM f = some r → ∀ (i : Nat) (a : α), l[i]? = some a → ∃ b, f a = some b ∧ r[i]? = some b
  | [], _, _, i, a, ha => by simp at ha
  | x :: l, r, h, i, a, ha => by
    rw [List.mapM_cons] at h
    cases hx : f x with
    | none => simp [hx] at h
    | some b =>
      cases hl : l.mapM f with
      | none => simp [hx, hl] at h
      | some bs =>
        simp [hx, hl] at h
        subst h
        cases i with
        | zero =>
          simp at ha; subst ha
          exact ⟨b, hx, by simp⟩
        | succ i =>
          simp at ha
          simpa using mapM_some_getElem? f l bs hl i a ha

theorem mapM_none_mem {α β : Type} (f : α → Option β) : ∀ (l : List α),
    l.mapM f = none → ∃ a ∈ l, f a = none
  | [], h => by simp at h
  | x :: l, h => by
    rw [List.mapM_cons] at h
    cases hx : f x with
    | none => exact ⟨x, by simp, hx⟩
    | some b =>
      cases hl : l.mapM f with
      | none =>
        obtain ⟨a, ha, hfa⟩ := mapM_none_mem f l hl
        exact ⟨a, by simp [ha], hfa⟩
      | some bs => simp [hx, hl] at h

/-- a list of length `n ∈ {3, 4}` that contains every position holds nothing else -/
theorem isPerm_lt {n : Nat} {p : List Nat} (hn : n = 3 ∨ n = 4) (hp : IsPerm n p = true) :
    ∀ x ∈ p, x < n := by
  have hl := isPerm_length hp
  have hm := isPerm_mem hp
  rcases hn with rfl | rfl
  · obtain ⟨a, b, c, rfl⟩ := len3 hl
    have h0 := hm 0 (by omega); have h1 := hm 1 (by omega); have h2 := hm 2 (by omega)
    simp only [List.mem_cons, List.not_mem_nil, or_false] at h0 h1 h2
    intro x hx
    simp only [List.mem_cons, List.not_mem_nil, or_false] at hx
    omega
  · obtain ⟨a, b, c, e, rfl⟩ := len4 hl
    have h0 := hm 0 (by omega); have h1 := hm 1 (by omega); have h2 := hm 2 (by omega)
    have h3 := hm 3 (by omega)
    simp only [List.mem_cons, List.not_mem_nil, or_false] at h0 h1 h2 h3
    intro x hx
    simp only [List.mem_cons, List.not_mem_nil, or_false] at hx
    omega

theorem sameSet_of_mem {a b : List Quad} (h : ∀ x, x ∈ a ↔ x ∈ b) : SameSet a b := by
  intro q
  rw [Bool.eq_iff_iff, qmem_iff, qmem_iff]
  constructor
  · rintro ⟨x, hx, he⟩; exact ⟨x, (h x).1 hx, he⟩
  · rintro ⟨x, hx, he⟩; exact ⟨x, (h x).2 hx, he⟩

/-! ## 1. constants: "row component = index of the constant" ⇔ "the matcher matches the name" -/

/-- a matcher exposing a constant whose index is `i` matches the name behind a stored index `v`
exactly when `v = i` (`v` a term index, or `max` = the default graph) -/
theorem const_match {max : Nat} {terms : List Term} (hti : TIInv max terms) {m : GM} {g : GName}
    {i v : Nat} (hc : m.constant = some g) (hi : getNameIndex max terms g = some i)
    (hv : v < terms.length ∨ v = max) : m.matches (terms[v]?) = true ↔ v = i := by
  rw [gm_constant_sound hc]
  cases g with
  | none =>
    simp only [getNameIndex, Option.some.injEq] at hi
    subst hi
    constructor
    · intro h
      cases ht : terms[v]? with
      | none =>
        have := List.getElem?_eq_none_iff.1 ht
        rcases hv with hv | hv
        · omega
        · exact hv
      | some y => rw [ht] at h; simp [gnameEq] at h
    · rintro rfl
      rw [List.getElem?_eq_none hti.1]; rfl
  | some t =>
    simp only [getNameIndex] at hi
    obtain ⟨x, hx, hxt⟩ := getIndex_some hi
    constructor
    · intro h
      cases ht : terms[v]? with
      | none => rw [ht] at h; simp [gnameEq] at h
      | some y =>
        rw [ht, gnameEq_some_some] at h
        have := getIndex_of_mem hti ht (by rw [termEq_symm]; exact h)
        rw [hi] at this
        cases this; rfl
    · rintro rfl
      rw [hx, gnameEq_some_some, termEq_symm]; exact hxt

/-- a matcher whose constant is not in the term index matches no stored name -/
theorem const_none {max : Nat} {terms : List Term} {m : GM} {g : GName}
    (hc : m.constant = some g) (hi : getNameIndex max terms g = none) (v : Nat) :
    m.matches (terms[v]?) = false := by
  rw [gm_constant_sound hc]
  cases g with
  | none => simp [getNameIndex] at hi
  | some t =>
    simp only [getNameIndex] at hi
    cases ht : terms[v]? with
    | none => rfl
    | some y =>
      rw [gnameEq_some_some, termEq_symm]
      exact getIndex_none hi y (List.mem_of_getElem? ht)

/-! ## 2. ranges with a bound prefix -/

/-- upper bound `MAX..`, except that after a position where the row stays strictly below `MAX`
anything goes (the `[gi, MAX, MAX, ZERO]` of GenericLightDataset) -/
theorem lexLe_upper (max : Nat) : ∀ (r hi : Row), r.length = hi.length → (∀ v ∈ r, v ≤ max) →
    (∀ j, j < hi.length → hi.getD j 0 = max ∨
      ∃ j', j' < j ∧ hi.getD j' 0 = max ∧ r.getD j' 0 < max) →
    lexLe r hi = true
  | [], _, _, _, _ => rfl
  | a :: as, [], h, _, _ => by simp at h
  | a :: as, b :: bs, hl, hv, hh => by
    have hb : b = max := by
      rcases hh 0 (by simp) with h | ⟨j', hj', _⟩
      · simpa using h
      · omega
    subst hb
    have ha : a ≤ b := hv a (by simp)
    simp only [lexLe]
    by_cases hlt : a < b
    · simp [hlt]
    · have hnlt : ¬ b < a := by omega
      simp only [hlt, hnlt, if_false]
      apply lexLe_upper b as bs (by simpa using hl) (fun v hv' => hv v (by simp [hv']))
      intro j hj
      rcases hh (j + 1) (by simpa using hj) with h | ⟨j', hj', h1, h2⟩
      · left; simpa using h
      · cases j' with
        | zero => simp at h2; omega
        | succ j'' => right; exact ⟨j'', by omega, by simpa using h1, by simpa using h2⟩

theorem lexLe_allzero : ∀ (a r : Row), a.length ≤ r.length → (∀ v ∈ a, v = 0) → lexLe a r = true
  | [], _, _, _ => rfl
  | x :: xs, [], h, _ => by simp at h
  | x :: xs, y :: ys, hl, hz => by
    have hx : x = 0 := hz x (by simp)
    subst hx
    simp only [lexLe]
    by_cases hy : 0 < y
    · simp [hy]
    · simp only [hy, Nat.not_lt_zero, if_false]
      exact lexLe_allzero xs ys (by simpa using hl) (fun v hv => hz v (by simp [hv]))

/-- `lo..=hi` with a common prefix of length `m`, `ZERO` padding below and (tolerant) `MAX` padding
above: exactly the rows carrying the prefix -/
theorem between_iff (max : Nat) (lo hi r : Row) (m : Nat) (hlo : lo.length = r.length)
    (hhi : hi.length = r.length) (hm : m ≤ r.length)
    (hpre : ∀ j, j < m → lo.getD j 0 = hi.getD j 0)
    (hz : ∀ j, m ≤ j → j < r.length → lo.getD j 0 = 0)
    (hv : ∀ v ∈ r, v ≤ max)
    (hup : ∀ j, m ≤ j → j < r.length → hi.getD j 0 = max ∨
      ∃ j', m ≤ j' ∧ j' < j ∧ hi.getD j' 0 = max ∧ r.getD j' 0 < max) :
    (lexLe lo r && lexLe r hi) = true ↔ ∀ j, j < m → r.getD j 0 = lo.getD j 0 := by
  have htake : lo.take m = hi.take m := by
    apply List.ext_getElem?
    intro i
    rw [List.getElem?_take, List.getElem?_take]
    by_cases hi' : i < m
    · rw [if_pos hi', if_pos hi', getElem?_of_getD 0 (show i < lo.length by omega),
        getElem?_of_getD 0 (show i < hi.length by omega), hpre i hi']
    · rw [if_neg hi', if_neg hi']
  have e2 : lo.take m ++ hi.drop m = hi := by rw [htake]; exact List.take_append_drop m hi
  have hs := lexLe_prefix_split (lo.take m) (lo.drop m) (hi.drop m) r
  rw [List.take_append_drop, e2] at hs
  have hlen : (lo.take m).length = m := by rw [List.length_take]; omega
  have h1 : lexLe (lo.drop m) (r.drop m) = true := by
    apply lexLe_allzero
    · simp; omega
    · intro v hv'
      obtain ⟨k, hk⟩ := List.mem_iff_getElem?.1 hv'
      rw [List.getElem?_drop] at hk
      obtain ⟨hk1, hk2⟩ := List.getElem?_eq_some_iff.1 hk
      have := hz (m + k) (by omega) (by omega)
      rw [getD_of_lt 0 hk1, hk2] at this
      exact this
  have h2 : lexLe (r.drop m) (hi.drop m) = true := by
    apply lexLe_upper max
    · simp; omega
    · intro v hv'; exact hv v (List.mem_of_mem_drop hv')
    · intro j hj
      have hj' : m + j < r.length := by simp at hj; omega
      have e : ∀ (l : Row) (k : Nat), (l.drop m).getD k 0 = l.getD (m + k) 0 := by
        intro l k
        rw [List.getD_eq_getElem?_getD, List.getD_eq_getElem?_getD, List.getElem?_drop]
      rcases hup (m + j) (by omega) hj' with h | ⟨j', hj1, hj2, hj3, hj4⟩
      · left; rw [e]; exact h
      · right
        refine ⟨j' - m, by omega, ?_, ?_⟩
        · rw [e, show m + (j' - m) = j' by omega]; exact hj3
        · rw [e, show m + (j' - m) = j' by omega]; exact hj4
  rw [hs, hlen, h1, h2, Bool.and_true, Bool.and_true, beq_iff_eq]
  constructor
  · intro h j hj
    have := congrArg (fun l => l[j]?) h
    simp only [List.getElem?_take, if_pos hj] at this
    rw [List.getD_eq_getElem?_getD, List.getD_eq_getElem?_getD, this]
  · intro h
    apply List.ext_getElem?
    intro i
    rw [List.getElem?_take, List.getElem?_take]
    by_cases hi' : i < m
    · rw [if_pos hi', if_pos hi', getElem?_of_getD 0 (show i < lo.length by omega),
        getElem?_of_getD 0 (show i < r.length by omega), h i hi']
    · rw [if_neg hi', if_neg hi']

/-! ## 3. what `armOK` says about an arm, in usable form -/

/-- number of leading layout positions the arm binds -/
def prefLen (n : Nat) : IterKind → Nat
  | .once => n
  | .rangeFilter => n - 1
  | .cached k => n - k

structure ArmFacts (n : Nat) (perm : List Nat) (a : Arm) : Prop where
  blen : a.bound.length = n
  lolen : a.lo.length = n
  hilen : a.hi.length = n
  mle : prefLen n a.kind ≤ n
  pre : ∀ j, j < prefLen n a.kind → a.bound.getD (perm.getD j 0) none = some true ∧
      a.lo.getD j .zero = .pos (perm.getD j 0) ∧ a.hi.getD j .zero = .pos (perm.getD j 0)
  post : ∀ j, prefLen n a.kind ≤ j → j < n → a.lo.getD j .zero = .zero ∧
      (a.hi.getD j .zero = .max ∨ ∃ j', prefLen n a.kind ≤ j' ∧ j' < j ∧
        a.hi.getD j' .zero = .max ∧ isGPos n (perm.getD j' 0) = false)
  out : a.out.length = n ∧ ∀ c, c < n → perm.getD (a.out.getD c n) n = c
  k_rf : a.kind = .rangeFilter → a.matchers = [perm.getD (n - 1) 0]
  k_c : ∀ k, a.kind = .cached k → k ≤ n ∧
      a.matchers = (List.range k).map (fun j => perm.getD (n - k + j) 0)

theorem boundsOK_spec {n : Nat} {bound : List (Option Bool)} {perm : List Nat} {lo hi : List Bnd}
    (h : boundsOK n bound perm lo hi = true) :
    lo.length = n ∧ hi.length = n ∧ ∀ j, j < n →
      (bound.getD (perm.getD j 0) none = some true →
        lo.getD j .zero = .pos (perm.getD j 0) ∧ hi.getD j .zero = .pos (perm.getD j 0)) ∧
      (bound.getD (perm.getD j 0) none ≠ some true →
        lo.getD j .max = .zero ∧ (hi.getD j .zero = .max ∨ ∃ j', j' < j ∧
          bound.getD (perm.getD j' 0) none ≠ some true ∧ hi.getD j' .zero = .max ∧
          isGPos n (perm.getD j' 0) = false)) := by
  simp only [boundsOK, Bool.and_eq_true, beq_iff_eq, List.all_eq_true, List.mem_range] at h
  obtain ⟨⟨h1, h2⟩, h3⟩ := h
  refine ⟨h1, h2, fun j hj => ?_⟩
  have h3j := h3 j hj
  constructor
  · intro hb
    rw [if_pos hb] at h3j
    simp only [Bool.and_eq_true, beq_iff_eq] at h3j
    exact ⟨h3j.1.1, h3j.1.2⟩
  · intro hb
    rw [if_neg hb] at h3j
    simp only [Bool.and_eq_true, Bool.or_eq_true, beq_iff_eq, List.any_eq_true, List.mem_range,
      bne_iff_ne, Bool.not_eq_true'] at h3j
    refine ⟨h3j.1, ?_⟩
    rcases h3j.2 with h | ⟨j', hj', ⟨hb', hm⟩, hg⟩
    · exact Or.inl h
    · exact Or.inr ⟨j', hj', hb', hm, hg⟩

theorem armFacts_of_armOK {d : StoreDesc} {a : Arm} (h : armOK d a = true)
    (hn : d.n = 3 ∨ d.n = 4) (hperm : IsPerm d.n (d.insertLayouts.getD a.index []) = true) :
    a.index < d.insertLayouts.length ∧ ArmFacts d.n (d.insertLayouts.getD a.index []) a := by
  obtain ⟨bound, index, lo, hi, kind, matchers, out⟩ := a
  simp only [armOK, Bool.and_eq_true, beq_iff_eq, decide_eq_true_eq] at h
  obtain ⟨⟨⟨⟨⟨hbl, hidx⟩, hb⟩, hol⟩, hout⟩, hk⟩ := h
  refine ⟨hidx, ?_⟩
  generalize d.insertLayouts.getD index [] = perm at *
  generalize d.n = n at *
  have hpl : perm.length = n := isPerm_length hperm
  have hplt := isPerm_lt hn hperm
  obtain ⟨hlol, hhil, hbs⟩ := boundsOK_spec hb
  have hout' := out_inverts_of_check (by simpa using hol) hout
  -- the shared part, from "positions below `m` are bound, the others are not"
  have mk : ∀ m, m = prefLen n kind → m ≤ n →
      (∀ j, j < m → bound.getD (perm.getD j 0) none = some true) →
      (∀ j, m ≤ j → j < n → bound.getD (perm.getD j 0) none ≠ some true) →
      (kind = .rangeFilter → matchers = [perm.getD (n - 1) 0]) →
      (∀ k, kind = .cached k → k ≤ n ∧
        matchers = (List.range k).map (fun j => perm.getD (n - k + j) 0)) →
      ArmFacts n perm ⟨bound, index, lo, hi, kind, matchers, out⟩ := by
    intro m hm hmle hpre hpost hrf hc
    subst hm
    refine ⟨hbl, hlol, hhil, hmle, ?_, ?_, hout', hrf, hc⟩
    · intro j hj
      dsimp only at hj ⊢
      have hb' := hpre j hj
      exact ⟨hb', ((hbs j (by omega)).1 hb').1, ((hbs j (by omega)).1 hb').2⟩
    · intro j hj1 hj2
      dsimp only at hj1 ⊢
      obtain ⟨hz, hu⟩ := (hbs j hj2).2 (hpost j hj1 hj2)
      refine ⟨by rw [getD_irrel (l := lo) Bnd.zero Bnd.max (by omega)]; exact hz, ?_⟩
      rcases hu with hu | ⟨j', hj', hb', hm', hg⟩
      · exact Or.inl hu
      · refine Or.inr ⟨j', ?_, hj', hm', hg⟩
        rcases Nat.lt_or_ge j' (prefLen n kind) with hlt | hge
        · exact absurd (hpre j' hlt) hb'
        · exact hge
  cases kind with
  | once =>
    simp only [Bool.and_eq_true, List.all_eq_true, beq_iff_eq] at hk
    apply mk n rfl (Nat.le_refl n)
    · intro j hj
      have hlt : perm.getD j 0 < bound.length := by
        rw [hbl]; exact hplt _ (by rw [getD_of_lt 0 (by omega)]; exact List.getElem_mem _)
      rw [getD_of_lt none hlt]
      exact hk.2 _ (List.getElem_mem _)
    · intro j hj1 hj2; omega
    · intro h; cases h
    · intro k h; cases h
  | rangeFilter =>
    simp only [Bool.and_eq_true, List.all_eq_true, beq_iff_eq, List.mem_range, bne_iff_ne] at hk
    obtain ⟨⟨hm, hpre⟩, hpost⟩ := hk
    apply mk (n - 1) rfl (Nat.sub_le n 1) hpre
    · intro j hj1 hj2
      have : j = n - 1 := by omega
      subst this; exact hpost
    · intro _
      rw [hm, getD_irrel n 0 (by omega)]
    · intro k h; cases h
  | cached k =>
    simp only [Bool.and_eq_true, List.all_eq_true, beq_iff_eq, List.mem_range, bne_iff_ne,
      decide_eq_true_eq] at hk
    obtain ⟨⟨⟨hkn, hm⟩, hpre⟩, hpost⟩ := hk
    apply mk (n - k) rfl (Nat.sub_le n k) hpre
    · intro j hj1 hj2
      have := hpost (j - (n - k)) (by omega)
      rwa [show n - k + (j - (n - k)) = j by omega] at this
    · intro h; cases h
    · intro k' h
      cases h
      refine ⟨hkn, ?_⟩
      rw [hm]
      apply List.map_congr_left
      intro j hj
      rw [List.mem_range] at hj
      exact getD_irrel n 0 (by omega)

/-! ## 4. matching a decoded row -/

/-- the canonical row `c` passes every matcher of the pattern -/
def RM (n : Nat) (terms : List Term) (p : Pat) (c : Row) : Prop :=
  ∀ pos, pos < n → (p.at pos).matches (terms[c.getD pos 0]?) = true

theorem quadNames_of_quadOfNames {n : Nat} (hn : n = 3 ∨ n = 4) {ns : List GName} {q : Quad}
    (h : quadOfNames n ns = some q) : quadNames n q = ns := by
  rcases hn with rfl | rfl
  · unfold quadOfNames at h
    simp only [show ¬ (3 : Nat) = 4 by decide, if_false] at h
    split at h
    · cases h; simp [quadNames]
    · cases h
  · unfold quadOfNames at h
    simp only [if_true] at h
    split at h
    · cases h; simp [quadNames]
    · cases h

/-- `quadMatched` on what a row decodes to = every matcher accepts the name behind its component -/
theorem quadMatched_decode {n max : Nat} {terms : List Term} {p : Pat} {c : Row} {q : Quad}
    (hn : n = 3 ∨ n = 4) (hl : terms.length ≤ max) (hd : decode n max terms c = some q) :
    quadMatched n p q = true ↔ RM n terms p c := by
  unfold decode at hd
  have hq := quadNames_of_quadOfNames hn hd
  unfold quadMatched
  rw [hq, all_zipIdx]
  simp only [List.length_map, List.length_range, List.getElem_map, List.getElem_range,
    getName_eq hl, ite_self]
  rfl

/-! ## 5. `resolveConsts` -/

/-- every position the arm binds has a constant with a known index, recorded in `consts` -/
def ConstsOK (max : Nat) (terms : List Term) (p : Pat) (bound : List (Option Bool))
    (consts : List (Option Nat)) : Prop :=
  ∀ c, bound.getD c none = some true →
    ∃ g i, (p.at c).constant = some g ∧ getNameIndex max terms g = some i ∧
      consts.getD c none = some i

theorem getElem?_of_getD_some {α : Type} {l : List (Option α)} {c : Nat} {x : α}
    (h : l.getD c none = some x) : l[c]? = some (some x) := by
  have hc : c < l.length := lt_of_getD_ne (by rw [h]; exact fun e => by cases e)
  rw [getElem?_of_getD none hc, h]

theorem armFits_const {bound : List (Option Bool)} {n : Nat} {p : Pat}
    (hfit : armFits bound ((List.range n).map (fun c => (p.at c).constant.isSome)) = true)
    (hbl : bound.length = n) {c : Nat} (hb : bound.getD c none = some true) :
    ∃ g, (p.at c).constant = some g := by
  have hb' := getElem?_of_getD_some hb
  have hc : c < n := by rw [← hbl]; exact (List.getElem?_eq_some_iff.1 hb').1
  unfold armFits at hfit
  rw [List.all_eq_true] at hfit
  have := hfit (some true, (p.at c).constant.isSome) (by
    apply List.mem_of_getElem? (i := c)
    rw [List.getElem?_zip_eq_some]
    exact ⟨hb', by simp [hc]⟩)
  simp only [beq_iff_eq] at this
  exact Option.isSome_iff_exists.1 this.symm

theorem resolveConsts_some {s : St} {p : Pat} {bound : List (Option Bool)}
    {consts : List (Option Nat)} (h : resolveConsts s p bound = some consts)
    (hfit : ∀ c, bound.getD c none = some true → ∃ g, (p.at c).constant = some g) :
    ConstsOK s.max s.terms p bound consts := by
  intro c hb
  obtain ⟨g, hg⟩ := hfit c hb
  have hb' := getElem?_of_getD_some hb
  have hz : (bound.zipIdx)[c]? = some (some true, c) := by
    rw [List.getElem?_zipIdx, hb']; simp
  unfold resolveConsts at h
  obtain ⟨b, hfb, hcb⟩ := mapM_some_getElem? _ _ _ h c _ hz
  simp only [hg, beq_self_eq_true, if_true] at hfb
  cases hi : getNameIndex s.max s.terms g with
  | none => simp [hi] at hfb
  | some i =>
    simp only [hi, Option.some.injEq] at hfb
    subst hfb
    exact ⟨g, i, hg, hi, by rw [List.getD_eq_getElem?_getD, hcb]; rfl⟩

theorem resolveConsts_none {s : St} {p : Pat} {bound : List (Option Bool)}
    (h : resolveConsts s p bound = none) :
    ∃ c, bound.getD c none = some true ∧ ∃ g, (p.at c).constant = some g ∧
      getNameIndex s.max s.terms g = none := by
  unfold resolveConsts at h
  obtain ⟨⟨b, c⟩, hm, hf⟩ := mapM_none_mem _ _ h
  rw [List.mem_zipIdx_iff_getElem?] at hm
  dsimp only at hm hf
  by_cases hb : b = some true
  · subst hb
    simp only [beq_self_eq_true, if_true] at hf
    cases hg : (p.at c).constant with
    | none => simp [hg] at hf
    | some g =>
      cases hi : getNameIndex s.max s.terms g with
      | some i => simp [hg, hi] at hf
      | none =>
        exact ⟨c, by rw [List.getD_eq_getElem?_getD, hm]; rfl, g, hg, hi⟩
  · have : (b == some true) = false := by simpa using hb
    simp [this] at hf

/-! ## 6. the rows an arm selects -/

/-- the layout rows `runArm` keeps (its `let rows`) -/
def armRows (s : St) (p : Pat) (arm : Arm) (consts : List (Option Nat)) : List Row :=
  let ix := s.idx.getD arm.index []
  let lo := arm.lo.map (bndVal s.max consts)
  let hi := arm.hi.map (bndVal s.max consts)
  match arm.kind with
  | .once => if ix.contains lo then [lo] else []
  | .rangeFilter =>
    (range lo hi ix).filter (fun r =>
      let i := r.getD (s.shape.n - 1) 0
      match arm.matchers with
      | [c] => (p.at c).matches (if isGPos s.shape.n c then getName s.max s.terms i else s.terms[i]?)
      | _ => true)
  | .cached k => cachedScan s.max s.terms (arm.matchers.map p.at) (s.shape.n - k) (range lo hi ix)

theorem runArm_eq (s : St) (p : Pat) (arm : Arm) (consts : List (Option Nat)) :
    runArm s p arm consts =
      ((armRows s p arm consts).map (toCanon arm.out)).filterMap
        (decode s.shape.n s.max s.terms) := rfl

/-- whatever the iterator kind: the rows kept are those of the index within the bounds whose
non-bound layout positions pass their matchers; none is produced twice -/
theorem armRows_spec {s : St} {p : Pat} {arm : Arm} {consts : List (Option Nat)} {perm : List Nat}
    (hl : s.terms.length ≤ s.max) (hn : s.shape.n = 3 ∨ s.shape.n = 4)
    (hF : ArmFacts s.shape.n perm arm) (hnd : (s.idx.getD arm.index []).Nodup) :
    (armRows s p arm consts).Nodup ∧ ∀ r, r ∈ armRows s p arm consts ↔
      (r ∈ s.idx.getD arm.index [] ∧
       (lexLe (arm.lo.map (bndVal s.max consts)) r &&
          lexLe r (arm.hi.map (bndVal s.max consts))) = true ∧
       ∀ j, prefLen s.shape.n arm.kind ≤ j → j < s.shape.n →
         (p.at (perm.getD j 0)).matches (s.terms[r.getD j 0]?) = true) := by
  obtain ⟨bound, index, lo, hi, kind, matchers, out⟩ := arm
  obtain ⟨hbl, hlol, hhil, hmle, hpre, hpost, hout, hrf, hc⟩ := hF
  dsimp only at hbl hlol hhil hmle hpre hpost hout hrf hc hnd ⊢
  cases kind with
  | once =>
    have hlohi : hi = lo := by
      apply List.ext_getElem (by omega)
      intro j h1 h2
      obtain ⟨_, ha, hb⟩ := hpre j (by simp only [prefLen]; omega)
      rw [getD_of_lt Bnd.zero h2] at ha
      rw [getD_of_lt Bnd.zero h1] at hb
      rw [ha, hb]
    subst hlohi
    simp only [armRows]
    rw [once_eq_filter _ _ hnd]
    refine ⟨List.filter_sublist.nodup hnd, fun r => ?_⟩
    rw [List.mem_filter, beq_iff_eq]
    constructor
    · rintro ⟨h1, rfl⟩
      refine ⟨h1, by simp [lexLe_refl], fun j hj1 hj2 => ?_⟩
      simp only [prefLen] at hj1; omega
    · rintro ⟨h1, h2, _⟩
      simp only [Bool.and_eq_true] at h2
      exact ⟨h1, lexLe_antisymm _ _ h2.2 h2.1⟩
  | rangeFilter =>
    have hm := hrf rfl
    subst hm
    simp only [armRows, range]
    refine ⟨List.filter_sublist.nodup (List.filter_sublist.nodup hnd), fun r => ?_⟩
    rw [List.mem_filter, List.mem_filter, getName_eq hl, ite_self]
    constructor
    · rintro ⟨⟨h1, h2⟩, h3⟩
      refine ⟨h1, h2, fun j hj1 hj2 => ?_⟩
      simp only [prefLen] at hj1
      have : j = s.shape.n - 1 := by omega
      subst this; exact h3
    · rintro ⟨h1, h2, h3⟩
      exact ⟨⟨h1, h2⟩, h3 _ (by simp only [prefLen]; omega) (by omega)⟩
  | cached k =>
    obtain ⟨hkn, hm⟩ := hc k rfl
    subst hm
    simp only [armRows, range]
    rw [cachedScan_eq_filter]
    refine ⟨List.filter_sublist.nodup (List.filter_sublist.nodup hnd), fun r => ?_⟩
    rw [List.mem_filter, List.mem_filter]
    unfold allMatch
    rw [all_zipIdx]
    simp only [List.length_map, List.length_range, List.getElem_map, List.getElem_range,
      getName_eq hl, prefLen]
    constructor
    · rintro ⟨⟨h1, h2⟩, h3⟩
      refine ⟨h1, h2, fun j hj1 hj2 => ?_⟩
      have := h3 (j - (s.shape.n - k)) (by omega)
      rwa [show s.shape.n - k + (j - (s.shape.n - k)) = j by omega] at this
    · rintro ⟨h1, h2, h3⟩
      exact ⟨⟨h1, h2⟩, fun i hi => h3 _ (by omega) (by omega)⟩

/-! ## 7. a primary row passes the arm's tests on its layout ⇔ it matches the pattern -/

theorem rowOK_getD {n max len : Nat} {c : Row} (hc : RowOK n max len c) {pos : Nat}
    (hp : pos < n) : c.getD pos 0 < len ∨ (isGPos n pos = true ∧ c.getD pos 0 = max) :=
  hc.2 pos _ (getElem?_of_getD 0 (by rw [hc.1]; exact hp))

theorem layout_pass_iff {n max : Nat} {terms : List Term} {p : Pat} {arm : Arm}
    {consts : List (Option Nat)} {perm : List Nat} {c : Row}
    (hti : TIInv max terms) (hn : n = 3 ∨ n = 4) (hperm : IsPerm n perm = true)
    (hF : ArmFacts n perm arm) (hC : ConstsOK max terms p arm.bound consts)
    (hc : RowOK n max terms.length c) :
    ((lexLe (arm.lo.map (bndVal max consts)) (layout perm c) &&
        lexLe (layout perm c) (arm.hi.map (bndVal max consts))) = true ∧
      ∀ j, prefLen n arm.kind ≤ j → j < n →
        (p.at (perm.getD j 0)).matches (terms[(layout perm c).getD j 0]?) = true)
    ↔ RM n terms p c := by
  have hpl : perm.length = n := isPerm_length hperm
  have hplt : ∀ j, j < n → perm.getD j 0 < n := fun j hj =>
    isPerm_lt hn hperm _ (by rw [getD_of_lt 0 (by omega)]; exact List.getElem_mem _)
  have hcv : ∀ pos, pos < n → c.getD pos 0 ≤ max := by
    intro pos hp
    rcases rowOK_getD hc hp with h | ⟨_, h⟩
    · have := hti.1; omega
    · omega
  have hrl : (layout perm c).length = n := by rw [layout_length, hpl]
  have hrj : ∀ j, j < n → (layout perm c).getD j 0 = c.getD (perm.getD j 0) 0 :=
    fun j hj => layout_getD (by omega)
  -- the range test is the test of the bound prefix
  have hrange : (lexLe (arm.lo.map (bndVal max consts)) (layout perm c) &&
        lexLe (layout perm c) (arm.hi.map (bndVal max consts))) = true ↔
      ∀ j, j < prefLen n arm.kind →
        c.getD (perm.getD j 0) 0 = (consts.getD (perm.getD j 0) none).getD 0 := by
    have hlov : ∀ j, j < n → (arm.lo.map (bndVal max consts)).getD j 0 =
        bndVal max consts (arm.lo.getD j .zero) :=
      fun j hj => map_getD _ _ _ (by rw [hF.lolen]; exact hj)
    have hhiv : ∀ j, j < n → (arm.hi.map (bndVal max consts)).getD j 0 =
        bndVal max consts (arm.hi.getD j .zero) :=
      fun j hj => map_getD _ _ _ (by rw [hF.hilen]; exact hj)
    rw [between_iff max _ _ _ (prefLen n arm.kind) (by simp [hF.lolen, hrl])
      (by simp [hF.hilen, hrl]) (by rw [hrl]; exact hF.mle)]
    · constructor
      · intro h j hj
        have hjn : j < n := Nat.lt_of_lt_of_le hj hF.mle
        have := h j hj
        rw [hrj j hjn, hlov j hjn, (hF.pre j hj).2.1] at this
        exact this
      · intro h j hj
        have hjn : j < n := Nat.lt_of_lt_of_le hj hF.mle
        rw [hrj j hjn, hlov j hjn, (hF.pre j hj).2.1]
        exact h j hj
    · intro j hj
      have hjn : j < n := Nat.lt_of_lt_of_le hj hF.mle
      rw [hlov j hjn, hhiv j hjn, (hF.pre j hj).2.1, (hF.pre j hj).2.2]
    · intro j hj1 hj2
      rw [hrl] at hj2
      rw [hlov j hj2, (hF.post j hj1 hj2).1]; rfl
    · intro v hv
      unfold layout at hv
      obtain ⟨x, hx, rfl⟩ := List.mem_map.1 hv
      exact hcv x (isPerm_lt hn hperm x hx)
    · intro j hj1 hj2
      rw [hrl] at hj2
      rcases (hF.post j hj1 hj2).2 with h | ⟨j', h1, h2, h3, h4⟩
      · left; rw [hhiv j hj2, h]; rfl
      · right
        have hj'n : j' < n := by omega
        refine ⟨j', h1, h2, by rw [hhiv j' hj'n, h3]; rfl, ?_⟩
        rw [hrj j' hj'n]
        rcases rowOK_getD hc (hplt j' hj'n) with h | ⟨hg, _⟩
        · have := hti.1; omega
        · rw [h4] at hg; cases hg
  -- bound positions: "component = index of the constant" ⇔ "the matcher accepts the name"
  have hbound : ∀ j, j < prefLen n arm.kind →
      (c.getD (perm.getD j 0) 0 = (consts.getD (perm.getD j 0) none).getD 0 ↔
        (p.at (perm.getD j 0)).matches (terms[c.getD (perm.getD j 0) 0]?) = true) := by
    intro j hj
    have hjn : j < n := Nat.lt_of_lt_of_le hj hF.mle
    obtain ⟨g, i, hg, hi, hci⟩ := hC _ (hF.pre j hj).1
    rw [hci, Option.getD_some]
    refine (const_match hti hg hi ?_).symm
    rcases rowOK_getD hc (hplt j hjn) with h | ⟨_, h⟩
    · exact Or.inl h
    · exact Or.inr h
  rw [hrange]
  constructor
  · rintro ⟨h1, h2⟩ pos hp
    obtain ⟨j, hj⟩ := List.mem_iff_getElem?.1 (isPerm_mem hperm pos hp)
    obtain ⟨hjl, hje⟩ := List.getElem?_eq_some_iff.1 hj
    have hjn : j < n := by omega
    have hpj : perm.getD j 0 = pos := by rw [getD_of_lt 0 hjl]; exact hje
    rcases Nat.lt_or_ge j (prefLen n arm.kind) with hlt | hge
    · have := (hbound j hlt).1 (h1 j hlt)
      rwa [hpj] at this
    · have := h2 j hge hjn
      rwa [hrj j hjn, hpj] at this
  · intro h
    refine ⟨fun j hj => (hbound j hj).2 (h _ (hplt j (Nat.lt_of_lt_of_le hj hF.mle))), ?_⟩
    intro j _ hjn
    rw [hrj j hjn]
    exact h _ (hplt j hjn)

/-! ## 8. one arm -/

theorem mem_abs_filter {s : St} (h : Inv s) (p : Pat) (q : Quad) :
    q ∈ (abs s).filter (quadMatched s.shape.n p) ↔
      ∃ c ∈ s.idx.getD 0 [], RM s.shape.n s.terms p c ∧
        decode s.shape.n s.max s.terms c = some q := by
  rw [List.mem_filter, abs_eq, List.mem_filterMap]
  constructor
  · rintro ⟨⟨c, hc, hd⟩, hm⟩
    exact ⟨c, hc, (quadMatched_decode h.n_ok h.ti.1 hd).1 hm, hd⟩
  · rintro ⟨c, hc, hm, hd⟩
    exact ⟨⟨c, hc, hd⟩, (quadMatched_decode h.n_ok h.ti.1 hd).2 hm⟩

/-- an arm satisfying the table obligations, run with the resolved constants, yields exactly the
stored quads matching the pattern, each once -/
theorem runArm_spec {s : St} (h : Inv s) (p : Pat) (arm : Arm) (consts : List (Option Nat))
    (hidx : arm.index < s.shape.perms.length)
    (hF : ArmFacts s.shape.n (s.shape.perms.getD arm.index []) arm)
    (hC : ConstsOK s.max s.terms p arm.bound consts) :
    (∀ q, q ∈ runArm s p arm consts ↔ q ∈ (abs s).filter (quadMatched s.shape.n p)) ∧
    NodupQ (runArm s p arm consts) := by
  have hpermmem : s.shape.perms.getD arm.index [] ∈ s.shape.perms := by
    rw [getD_of_lt _ hidx]; exact List.getElem_mem _
  have hixlt : arm.index < s.idx.length := by rw [h.idx_len]; exact hidx
  have hix : s.idx[arm.index]? = some (s.idx.getD arm.index []) := getElem?_of_getD _ hixlt
  have hsame := h.same arm.index _ hix
  have hnd : (s.idx.getD arm.index []).Nodup := h.nodup _ (List.mem_of_getElem? hix)
  obtain ⟨perm, hpe⟩ : ∃ perm, s.shape.perms.getD arm.index [] = perm := ⟨_, rfl⟩
  rw [hpe] at hF hsame hpermmem
  have hperm : IsPerm s.shape.n perm = true := (List.all_eq_true.1 h.shape_ok.1) perm hpermmem
  obtain ⟨hrnd, hrows⟩ := armRows_spec (p := p) (consts := consts) h.ti.1 h.n_ok hF hnd
  have hcanon : ∀ c ∈ s.idx.getD 0 [], toCanon arm.out (layout perm c) = c :=
    fun c hc => toCanon_layout' _ _ _ c (h.rows_ok c hc).1 hF.out
  -- the canonical rows the arm yields are the primary rows matching the pattern
  have hL : ∀ c', c' ∈ (armRows s p arm consts).map (toCanon arm.out) ↔
      c' ∈ s.idx.getD 0 [] ∧ RM s.shape.n s.terms p c' := by
    intro c'
    rw [List.mem_map]
    constructor
    · rintro ⟨r, hr, rfl⟩
      obtain ⟨hr1, hr2, hr3⟩ := (hrows r).1 hr
      obtain ⟨c, hc, rfl⟩ := (hsame r).1 hr1
      rw [hcanon c hc]
      exact ⟨hc, (layout_pass_iff h.ti h.n_ok hperm hF hC (h.rows_ok c hc)).1 ⟨hr2, hr3⟩⟩
    · rintro ⟨hc, hm⟩
      obtain ⟨hr2, hr3⟩ := (layout_pass_iff h.ti h.n_ok hperm hF hC (h.rows_ok c' hc)).2 hm
      exact ⟨layout perm c', (hrows _).2 ⟨(hsame _).2 ⟨c', hc, rfl⟩, hr2, hr3⟩, hcanon c' hc⟩
  refine ⟨fun q => ?_, ?_⟩
  · rw [mem_abs_filter h, runArm_eq, List.mem_filterMap]
    constructor
    · rintro ⟨c, hc, hd⟩
      exact ⟨c, ((hL c).1 hc).1, ((hL c).1 hc).2, hd⟩
    · rintro ⟨c, hc, hm, hd⟩
      exact ⟨c, (hL c).2 ⟨hc, hm⟩, hd⟩
  · rw [runArm_eq]
    apply nodupQ_filterMap h.n_ok h.ti
    · apply nodup_map_on _ _ _ hrnd
      intro r1 hr1 r2 hr2 he
      obtain ⟨c1, hc1, rfl⟩ := (hsame r1).1 ((hrows r1).1 hr1).1
      obtain ⟨c2, hc2, rfl⟩ := (hsame r2).1 ((hrows r2).1 hr2).1
      rw [hcanon c1 hc1, hcanon c2 hc2] at he
      rw [he]
    · intro c hc
      exact h.rows_ok c ((hL c).1 hc).1

/-! ## 9. the whole table -/

theorem pats_complete : ∀ (k : Nat) (l : List Bool), l.length = k → l ∈ tableComplete.pats k
  | 0, l, h => by
    cases l with
    | nil => simp [tableComplete.pats]
    | cons a l => simp at h
  | k + 1, [], h => by simp at h
  | k + 1, b :: l, h => by
    have := pats_complete k l (by simpa using h)
    simp only [tableComplete.pats, List.mem_flatMap]
    exact ⟨l, this, by cases b <;> simp⟩

theorem descOK_spec {d : StoreDesc} (hd : descOK d = true) :
    (d.n = 3 ∨ d.n = 4) ∧ (∀ a ∈ d.arms, armOK d a = true) ∧ tableComplete d = true := by
  simp only [descOK, Bool.and_eq_true, Bool.or_eq_true, beq_iff_eq, List.all_eq_true] at hd
  exact ⟨hd.1.1.1.1.1.1.1.1.1.1, hd.1.2, hd.2⟩

/-- membership form: the result holds exactly the stored quads that match, and no two of its
entries are `Term::eq`-equal -/
theorem quadsMatching_mem {d : StoreDesc} {s : St} (hd : descOK d = true) (hs : s.shape = d.shape)
    (h : Inv s) (p : Pat) :
    (∀ q, q ∈ quadsMatching d.arms s p ↔ q ∈ (abs s).filter (quadMatched d.n p)) ∧
    NodupQ (quadsMatching d.arms s p) := by
  have hn : d.n = s.shape.n := by rw [hs]; rfl
  have hpm : d.insertLayouts = s.shape.perms := by rw [hs]; rfl
  obtain ⟨_, harms, hcomp⟩ := descOK_spec hd
  unfold quadsMatching
  dsimp only
  split
  · next hf =>
    exfalso
    rw [List.find?_eq_none] at hf
    unfold tableComplete at hcomp
    rw [List.all_eq_true] at hcomp
    have := hcomp _ (pats_complete d.n
      ((List.range s.shape.n).map (fun c => (p.at c).constant.isSome)) (by simp [hn]))
    rw [List.any_eq_true] at this
    obtain ⟨a, ha, hfit⟩ := this
    exact hf a ha hfit
  · next arm hf =>
    have hmem := List.mem_of_find?_eq_some hf
    have hfit := List.find?_some hf
    have hok := harms arm hmem
    have hperm : IsPerm d.n (d.insertLayouts.getD arm.index []) = true := by
      have hlt : arm.index < d.insertLayouts.length := by
        simp only [armOK, Bool.and_eq_true, decide_eq_true_eq] at hok
        exact hok.1.1.1.1.2
      rw [hn, hpm] at *
      rw [getD_of_lt _ hlt]
      exact (List.all_eq_true.1 h.shape_ok.1) _ (List.getElem_mem _)
    obtain ⟨hidx, hF⟩ := armFacts_of_armOK hok (by rw [hn]; exact h.n_ok) hperm
    rw [hn, hpm] at hF
    rw [hpm] at hidx
    rw [hn]
    split
    · next hr =>
      obtain ⟨c, hb, g, hg, hi⟩ := resolveConsts_none hr
      have hc : c < s.shape.n := by rw [← hF.blen]; exact lt_of_getD_ne (by rw [hb]; simp)
      refine ⟨fun q => ?_, trivial⟩
      rw [mem_abs_filter h]
      constructor
      · intro hq; cases hq
      · rintro ⟨c', _, hm, _⟩
        have := hm c hc
        rw [const_none hg hi] at this
        cases this
    · next consts hr =>
      exact runArm_spec h p arm consts hidx hF
        (resolveConsts_some hr (fun c hb => armFits_const hfit hF.blen hb))

/-- **Query correctness.** For every store description whose generated tables satisfy the decidable
obligations `descOK` (all four do: `C01.tables_ok`), on every state satisfying the representation
invariant, `quads_matching` / `triples_matching` returns exactly the stored quads that match the
pattern (as a set modulo `Term::eq`), each once. -/
theorem quadsMatching_spec {d : StoreDesc} {s : St} (hd : descOK d = true) (hs : s.shape = d.shape)
    (h : Inv s) (p : Pat) (hp : p.ms.length = d.n) :
    SameSet (quadsMatching d.arms s p) ((abs s).filter (quadMatched d.n p)) ∧
    NodupQ (quadsMatching d.arms s p) := by
  have _ := hp
  exact ⟨sameSet_of_mem (quadsMatching_mem hd hs h p).1, (quadsMatching_mem hd hs h p).2⟩

/-! ## 10. `contains` -/

/-- the pattern `([s], [p], [o], [g])` matches exactly the quads `Term::eq` to `q` -/
theorem exact_matched {n : Nat} (hn : n = 3 ∨ n = 4) (q x : Quad)
    (hg : n = 3 → q.g = none ∧ x.g = none) :
    quadMatched n (exactPat n q) x = quadEq q x := by
  rcases hn with rfl | rfl
  · obtain ⟨hq, hx⟩ := hg rfl
    simp [quadMatched, exactPat, quadNames, Pat.at, isGPos, GM.matches, TM.matches, quadEq, hq, hx,
      gnameEq, Bool.and_assoc]
  · simp only [quadMatched, exactPat, quadNames, Pat.at, isGPos, GM.matches, TM.matches, quadEq,
      if_true, List.zipIdx_cons, List.zipIdx_nil, List.map_cons, List.map_nil, List.all_cons,
      List.all_nil, List.getD_cons_zero, List.getD_cons_succ, Option.toList_some, List.any_cons,
      List.any_nil, Bool.or_false, Bool.and_true, Nat.zero_add, Nat.reduceAdd, Nat.reduceEqDiff,
      decide_true, decide_false, Bool.true_and, Bool.false_eq_true, if_false]
    cases gnameEq q.g x.g <;> cases termEq q.s x.s <;> cases termEq q.p x.p <;>
      cases termEq q.o x.o <;> rfl

theorem exactPat_length {n : Nat} (hn : n = 3 ∨ n = 4) (q : Quad) : (exactPat n q).ms.length = n := by
  simp [exactPat, quadNames_length hn]

theorem abs_g_none {s : St} (h : Inv s) {x : Quad} (hx : x ∈ abs s) (h3 : s.shape.n = 3) :
    x.g = none := by
  rw [abs_eq, List.mem_filterMap] at hx
  obtain ⟨c, hc, hd⟩ := hx
  obtain ⟨q', hq', _, hg⟩ := decode_rep h.n_ok h.ti.1 (h.rows_ok c hc)
  rw [hd] at hq'; cases hq'
  exact hg h3

/-- the default `contains` (`quads_matching([s], [p], [o], [g]).next().is_some()`) is membership -/
theorem contains_spec {d : StoreDesc} {s : St} (hd : descOK d = true) (hs : s.shape = d.shape)
    (h : Inv s) (q : Quad) (hg : d.n = 3 → q.g = none) :
    contains d.arms s q = qmem q (abs s) := by
  have hn : d.n = s.shape.n := by rw [hs]; rfl
  obtain ⟨hm, _⟩ := quadsMatching_mem hd hs h (exactPat s.shape.n q)
  have hex : ∀ x ∈ abs s, quadMatched d.n (exactPat s.shape.n q) x = quadEq x q := by
    intro x hx
    rw [hn, exact_matched h.n_ok q x (fun h3 => ⟨hg (hn.trans h3), abs_g_none h hx h3⟩),
      quadEq_symm]
  have hne : ∀ L : List Quad, (!L.isEmpty) = true ↔ ∃ x, x ∈ L := by
    intro L; cases L <;> simp
  unfold contains
  rw [Bool.eq_iff_iff, qmem_iff, hne]
  constructor
  · rintro ⟨x, hx⟩
    obtain ⟨hxa, hxm⟩ := List.mem_filter.1 ((hm x).1 hx)
    exact ⟨x, hxa, by rw [← hex x hxa]; exact hxm⟩
  · rintro ⟨x, hxa, he⟩
    exact ⟨x, (hm x).2 (List.mem_filter.2 ⟨hxa, by rw [hex x hxa]; exact he⟩)⟩

/-! ## 11. the hypotheses are satisfiable -/

section examples
open SophiaModel.Gen

/-- `descOK` alone: the theorem applies to all four generated tables -/
theorem gen_tables_ok :
    descOK genericLightDataset = true ∧ descOK genericFastDataset = true ∧
    descOK genericLightGraph = true ∧ descOK genericFastGraph = true := by decide

/-- a fresh store of each generated description satisfies the hypotheses, for every pattern -/
example (p : Pat) (hp : p.ms.length = 4) :
    SameSet (quadsMatching genericFastDataset.arms (St.new genericFastDataset.shape maxU16) p) [] ∧
    NodupQ (quadsMatching genericFastDataset.arms (St.new genericFastDataset.shape maxU16) p) := by
  obtain ⟨h1, h2, h3, _⟩ := shapeOK_spec (sh := genericFastDataset.shape) (by decide)
  exact quadsMatching_spec gen_tables_ok.2.1 rfl (inv_new _ _ h1 h2 h3) p hp

example : Inv (St.new genericLightDataset.shape maxU32) := by
  obtain ⟨h1, h2, h3, _⟩ := shapeOK_spec (sh := genericLightDataset.shape) (by decide)
  exact inv_new _ _ h1 h2 h3
example : Inv (St.new genericLightGraph.shape maxU32) := by
  obtain ⟨h1, h2, h3, _⟩ := shapeOK_spec (sh := genericLightGraph.shape) (by decide)
  exact inv_new _ _ h1 h2 h3
example : Inv (St.new genericFastGraph.shape maxU16) := by
  obtain ⟨h1, h2, h3, _⟩ := shapeOK_spec (sh := genericFastGraph.shape) (by decide)
  exact inv_new _ _ h1 h2 h3

/-- a store after arbitrary insertions / removals (here: two of each kind) still satisfies them -/
example (q₁ q₂ q₃ : Quad) (p : Pat) (hp : p.ms.length = 3) :
    let s := (remove (insert (insert (St.new genericFastGraph.shape maxU32) q₁).1 q₂).1 q₃).1
    SameSet (quadsMatching genericFastGraph.arms s p) ((abs s).filter (quadMatched 3 p)) ∧
    NodupQ (quadsMatching genericFastGraph.arms s p) := by
  obtain ⟨h1, h2, h3, h4⟩ := shapeOK_spec (sh := genericFastGraph.shape) (by decide)
  intro s
  have hlo := lookupOrderOK_new (max := maxU32) h4
  have hi : Inv s :=
    inv_remove (inv_insert (inv_insert (inv_new _ _ h1 h2 h3) hlo) (lookupOrderOK_insert _ hlo))
      (lookupOrderOK_insert _ (lookupOrderOK_insert _ hlo))
  have hsh : s.shape = genericFastGraph.shape := by
    show (remove _ q₃).1.shape = _
    rw [remove_shape, insert_shape, insert_shape]; rfl
  exact quadsMatching_spec gen_tables_ok.2.2.2 hsh hi p hp

/-- … and such a store is non-empty and the query non-trivial: a concrete dataset with two quads,
queried through a `rangeFilter` arm on a secondary index (`g s ? o` ↦ `gosp`) -/
example :
    let a : Term := .iri ['a']; let b : Term := .iri ['b']; let c : Term := .bnode ['c']
    let s := (insert (insert (St.new genericFastDataset.shape maxU16) ⟨a, b, c, none⟩).1 ⟨a, a, c, some b⟩).1
    quadsMatching genericFastDataset.arms s
        ⟨[.opt (some none), .gn (.arr [a]), .gn (.kind .iri), .gn (.opt (some c))]⟩ =
      [⟨a, b, c, none⟩] ∧
    contains genericFastDataset.arms s ⟨a, a, c, some b⟩ = true ∧
    contains genericFastDataset.arms s ⟨a, a, c, none⟩ = false := by decide

end examples

end SophiaProofs.StoreP
