/-
Property C10, the size discipline of `SimpleTermIndex`: after ANY history, under EITHER `Clone`,
every index has exactly one key per `i2t` entry, the key made for entry `j` is mapped to `j`, and
there are never more than `MAX` entries — a refused insertion (`TermIndexFullError`) leaves no entry
behind.  Purely structural (no heap reasoning): it is about which lists grow when.
-/
import SophiaProofs.Lemmas.HeapWorld

namespace SophiaProofs.HeapP
open SophiaModel SophiaModel.Term SophiaModel.Store SophiaModel.Heap

/-- keys and entries are in step: the `j`-th key is mapped to `j`, there is one key per entry, and at
most `max` entries -/
structure SizedIx (max : Nat) (ix : TIndex) : Prop where
  keys : ix.t2i.map (·.2) = List.range ix.i2t.length
  le : ix.i2t.length ≤ max

theorem SizedIx.empty (max : Nat) : SizedIx max {} := ⟨rfl, Nat.zero_le _⟩

theorem SizedIx.len {max : Nat} {ix : TIndex} (s : SizedIx max ix) : ix.t2i.length = ix.i2t.length := by
  have := congrArg List.length s.keys
  simpa using this

theorem ensureIndex_sized {max : Nat} {ix : TIndex} (own : Bool) (h : Heap.Heap) (t : Term) (s : SizedIx max ix) :
    SizedIx max (ix.ensureIndex own max h t).2.1 := by
  simp only [TIndex.ensureIndex]
  split
  · exact s
  · split
    · exact s
    · next hlt =>
      refine ⟨?_, ?_⟩
      · simp only [List.map_append, List.map_cons, List.map_nil, List.length_append, List.length_cons,
          List.length_nil, Nat.zero_add, List.range_succ, s.keys]
      · simp only [List.length_append, List.length_cons, List.length_nil, Nat.zero_add]
        omega

theorem insert_max (own : Bool) (h : Heap.Heap) (s : HStore) (q : Quad) : (s.insert own h q).2.1.max = s.max := by
  unfold HStore.insert
  simp only
  split
  · rfl
  · split
    · split <;> rfl
    · rfl

theorem remove_max (h : Heap.Heap) (s : HStore) (q : Quad) : (s.remove h q).1.max = s.max := by
  unfold HStore.remove
  simp only
  split
  · rfl
  · split
    · split <;> rfl
    · rfl

theorem cloneKeys_snd (h : Heap.Heap) (ks : List (TermRef × Nat)) :
    (cloneKeys h ks).2.map (·.2) = ks.map (·.2) := by
  induction ks generalizing h with
  | nil => rfl
  | cons e ks ih => obtain ⟨k, i⟩ := e; simp only [cloneKeys, List.map_cons]; rw [ih]

theorem cloneTerms_length (h : Heap.Heap) (ts : List TermRef) : (cloneTerms h ts).2.length = ts.length := by
  induction ts generalizing h with
  | nil => rfl
  | cons t ts ih => simp only [cloneTerms, List.length_cons]; rw [ih]

/-- when the manual impl did not panic it rebuilt one entry per entry -/
theorem rebuildI2t_length (ks : List (TermRef × Nat)) (h : Heap.Heap) (ts : List TermRef)
    (ok : (rebuildI2t ks h ts).2.2 = true) : (rebuildI2t ks h ts).2.1.length = ts.length := by
  induction ts generalizing h with
  | nil => rfl
  | cons t ts ih =>
    simp only [rebuildI2t] at ok ⊢
    split at ok
    · cases ok
    · next e heq =>
      simp only [List.length_cons]
      rw [ih _ ok]

/-- `Clone::clone` of an index, whichever way the source defines it, keeps the size discipline -/
theorem cloneIndex_sized (ck : CloneKind) {max : Nat} (h : Heap.Heap) {ix ix' : TIndex} {h' : Heap.Heap}
    (s : SizedIx max ix) (hc : cloneIndex ck h ix = (h', some ix')) : SizedIx max ix' := by
  cases ck with
  | derived =>
    simp only [cloneIndex, Prod.mk.injEq, Option.some.injEq] at hc
    obtain ⟨_, rfl⟩ := hc
    exact ⟨by simp only [cloneKeys_snd, cloneTerms_length, s.keys], by simp only [cloneTerms_length]; exact s.le⟩
  | manual =>
    simp only [cloneIndex] at hc
    split at hc
    · next ok =>
      simp only [Prod.mk.injEq, Option.some.injEq] at hc
      obtain ⟨_, rfl⟩ := hc
      have hl := rebuildI2t_length _ _ _ ok
      exact ⟨by simp only [cloneKeys_snd, hl, s.keys], by simp only [hl]; exact s.le⟩
    · simp at hc

/-! ### a structural predicate on indexes, carried through every operation of a world

`P max ix` only has to survive `ensure_index` and (for the operations that clone) `Clone::clone`; every
other operation hands indexes on unchanged or creates empty ones. -/

structure IxPred (P : Nat → TIndex → Prop) : Prop where
  empty : ∀ max, P max {}
  ensure : ∀ (own : Bool) max ix (h : Heap.Heap) (t : Term), P max ix → P max (ix.ensureIndex own max h t).2.1

/-- `Clone::clone` as the source defines it (`ck`) preserves `P` -/
def ClonePred (P : Nat → TIndex → Prop) (ck : CloneKind) : Prop :=
  ∀ max (h : Heap.Heap) ix h' ix', P max ix → cloneIndex ck h ix = (h', some ix') → P max ix'

/-- every store of the world satisfies `P` for its own `max` -/
def WP (P : Nat → TIndex → Prop) (w : World) : Prop := ∀ e ∈ w.stores, P e.2.max e.2.ix

def cloneFreeOp : Op → Bool
  | .clone _ _ => false
  | .cloneFrom _ _ => false
  | _ => true

section
variable {P : Nat → TIndex → Prop}

theorem WP.init : WP P {} := by intro e he; cases he

theorem WP.with_heap {w : World} (s : WP P w) (h : Heap.Heap) : WP P { w with heap := h } := s

theorem WP.set {w : World} (s : WP P w) {n : Nat} {st : HStore} (hs : P st.max st.ix) :
    WP P (w.set n st) := by
  intro e he
  rcases mem_set he with ⟨rfl, _⟩ | ⟨h1, _⟩
  · exact hs
  · exact s e h1

theorem WP.add {w : World} (s : WP P w) {n : Nat} {st : HStore} (hs : P st.max st.ix) :
    WP P (w.add n st) := by
  intro e he
  simp only [World.add, List.mem_append, List.mem_singleton] at he
  rcases he with h1 | rfl
  · exact s e h1
  · exact hs

theorem WP.del {w : World} (s : WP P w) (n : Nat) : WP P (w.del n) := by
  intro e he
  simp only [World.del, List.mem_filter] at he
  exact s e he.1

theorem ensureAllH_pred (ip : IxPred P) (own : Bool) (max : Nat) (names : List GName) (cs : List Nat) (h : Heap.Heap) {ix : TIndex}
    (acc : List (Nat × Nat)) (s : P max ix) : P max (ensureAllH own max names cs h ix acc).2.1 := by
  induction cs generalizing h ix acc with
  | nil => exact s
  | cons c cs ih =>
    simp only [ensureAllH]
    split
    · exact ih h _ s
    · next t _ =>
      have h1 := ip.ensure own max _ h t s
      split
      · next h' ix' heq => rw [heq] at h1; exact h1
      · next h' ix' i heq => rw [heq] at h1; exact ih h' _ h1

theorem cloneStore_pred {ck : CloneKind} (cp : ClonePred P ck) (h : Heap.Heap) {st c : HStore} {h' : Heap.Heap}
    (hs : P st.max st.ix) (hc : World.cloneStore ck h st = (h', some c)) : P c.max c.ix := by
  simp only [World.cloneStore] at hc
  split at hc
  · next ix' heq =>
    simp only [Prod.mk.injEq, Option.some.injEq] at hc
    obtain ⟨_, rfl⟩ := hc
    exact cp _ h _ _ _ hs heq
  · simp at hc

/-- every operation preserves `P` on every store — cloning operations provided `Clone` preserves it -/
theorem WP.step (ip : IxPred P) (ck : CloneKind) {w : World} (s : WP P w) (op : Op)
    (hc : cloneFreeOp op = true ∨ ClonePred P ck) : WP P (World.step ck w op).1 := by
  cases op with
  | new a shape max =>
    simp only [World.step]
    split
    · exact s
    · exact s.add (ip.empty _)
  | ins a q =>
    simp only [World.step]
    cases hg : w.get a with
    | none => exact s
    | some st =>
      have hst := s _ (get_mem hg)
      have key : P (st.insert w.own w.heap q).2.1.max (st.insert w.own w.heap q).2.1.ix := by
        rw [insert_max, (insert_ix w.own w.heap st q).2]
        exact ensureAllH_pred ip _ _ _ _ _ _ hst
      simp only
      split
      · exact s
      · split
        · next h' s' heq => rw [heq] at key; exact (s.with_heap h').set key
        · next h' s' b heq => rw [heq] at key; exact (s.with_heap h').set key
  | ens a t =>
    simp only [World.step]
    cases hg : w.get a with
    | none => exact s
    | some st =>
      have hst := s _ (get_mem hg)
      have key := ip.ensure w.own st.max _ w.heap t hst
      simp only
      split
      · next h' ix' heq => rw [heq] at key; exact (s.with_heap h').set key
      · next h' ix' i heq => rw [heq] at key; exact (s.with_heap h').set key
  | rem a q =>
    simp only [World.step]
    cases hg : w.get a with
    | none => exact s
    | some st =>
      have hst := s _ (get_mem hg)
      simp only
      split
      · exact s
      · refine WP.set s ?_
        rw [remove_max, remove_ix]; exact hst
  | clone a b =>
    rcases hc with hc | hc
    · cases hc
    simp only [World.step]
    split
    · next st hga hgb =>
      have hst := s _ (get_mem hga)
      split
      · next h' c heq => exact (s.with_heap h').add (cloneStore_pred hc _ hst heq)
      · exact s.with_heap _
    · exact s
  | cloneFrom a b =>
    rcases hc with hc | hc
    · cases hc
    simp only [World.step]
    split
    · next st old hga hgb =>
      have hst := s _ (get_mem hga)
      split
      · exact s
      · split
        · next h' c heq => exact (s.with_heap _).set (cloneStore_pred hc _ hst heq)
        · exact s.with_heap _
    · exact s
  | drop a =>
    simp only [World.step]
    split
    · exact (s.with_heap _).del a
    · exact s
  | swap a b =>
    simp only [World.step]
    split
    · next sa sb hga hgb =>
      split
      · exact s
      · exact (s.set (s _ (get_mem hgb))).set (s _ (get_mem hga))
    · exact s
  | mv a b =>
    simp only [World.step]
    split
    · next st hga hgb => exact (s.del a).add (s _ (get_mem hga))
    · exact s
  | box a =>
    simp only [World.step]
    split
    · next st hga => exact s.set (s _ (get_mem hga))
    · exact s
  | take a b =>
    simp only [World.step]
    split
    · next st hga hgb => exact (s.set (ip.empty _)).add (s _ (get_mem hga))
    · exact s
  | grow a =>
    simp only [World.step]
    split <;> exact s
  | readAll a =>
    simp only [World.step]
    split
    · exact s.with_heap _
    · exact s
  | via own => exact s

theorem WP.run (ip : IxPred P) (ck : CloneKind) {w : World} (s : WP P w) (ops : List Op)
    (hc : ops.all cloneFreeOp = true ∨ ClonePred P ck) : WP P (World.run ck w ops) := by
  induction ops generalizing w with
  | nil => exact s
  | cons op ops ih =>
    have h1 : cloneFreeOp op = true ∨ ClonePred P ck := by
      rcases hc with h | h
      · simp only [List.all_cons, Bool.and_eq_true] at h; exact Or.inl h.1
      · exact Or.inr h
    have h2 : ops.all cloneFreeOp = true ∨ ClonePred P ck := by
      rcases hc with h | h
      · simp only [List.all_cons, Bool.and_eq_true] at h; exact Or.inl h.2
      · exact Or.inr h
    exact ih (s.step ip ck op h1) h2

end

/-! ### instance 1: the size discipline, under either `Clone` -/

theorem sizedPred : IxPred SizedIx := ⟨SizedIx.empty, fun own _ _ h t s => ensureIndex_sized own h t s⟩

theorem sizedClone (ck : CloneKind) : ClonePred SizedIx ck := fun _ h _ _ _ s hc => cloneIndex_sized ck h s hc

/-- every store of the world keeps the size discipline for its own `max` -/
abbrev WSized (w : World) : Prop := WP SizedIx w

theorem WSized.init : WSized {} := WP.init

theorem WSized.run (ck : CloneKind) {w : World} (s : WSized w) (ops : List Op) : WSized (World.run ck w ops) :=
  WP.run sizedPred ck s ops (Or.inr (sizedClone ck))

/-- in a list whose second components are `s, s+1, …` the first element with second component `s + i`
is the one at position `i` -/
theorem find_snd_range' {α : Type} (l : List (α × Nat)) (s n : Nat) (hl : l.map (·.2) = List.range' s n)
    (i : Nat) (hi : i < n) : l.find? (fun e => e.2 == s + i) = l[i]? := by
  induction l generalizing s n i with
  | nil =>
    have : n = 0 := by simpa using (congrArg List.length hl).symm
    omega
  | cons e l ih =>
    cases n with
    | zero => omega
    | succ n =>
      simp only [List.map_cons, List.range'_succ, List.cons.injEq] at hl
      obtain ⟨he, hl⟩ := hl
      cases i with
      | zero => simp [he]
      | succ i =>
        have hne : (e.2 == s + (i + 1)) = false := by rw [he]; simp
        simp only [List.find?_cons, hne, List.getElem?_cons_succ]
        have := ih (s + 1) n hl i (by omega)
        rw [show s + 1 + i = s + (i + 1) by omega] at this
        exact this

/-- with the size discipline, the audit finds a key for every entry (never `n`) -/
theorem keyAt_of_sized {max : Nat} {ix : TIndex} (s : SizedIx max ix) {i : Nat} (hi : i < ix.i2t.length) :
    ∃ k, ix.keyAt i = some k ∧ ix.t2i[i]? = some (k, i) := by
  have hk := s.keys
  rw [List.range_eq_range'] at hk
  have hf := find_snd_range' ix.t2i 0 _ hk i hi
  simp only [Nat.zero_add] at hf
  have hlt : i < ix.t2i.length := by rw [s.len]; exact hi
  have hget : ix.t2i[i]? = some ix.t2i[i] := List.getElem?_eq_getElem hlt
  have hsnd : (ix.t2i[i]).2 = i := by
    have := congrArg (fun l => l[i]?) s.keys
    simp only [List.getElem?_map, hget, Option.map_some, List.getElem?_range hi] at this
    exact Option.some.inj this
  refine ⟨(ix.t2i[i]).1, ?_, ?_⟩
  · simp only [TIndex.keyAt, hf, hget, Option.map_some]
  · rw [hget]
    exact congrArg some (Prod.ext rfl hsnd)

/-! ### instance 2: key `j` and entry `j` belong together (clone-free histories, either `Clone`) -/

/-- the `j`-th key has the shape of the `j`-th entry and owns every buffer the entry borrows -/
def PairedIx (_max : Nat) (ix : TIndex) : Prop :=
  Pointwise (fun (e : TermRef × Nat) (t : TermRef) => e.1.sameShape t = true ∧ insideKey e.1 t = true) ix.t2i ix.i2t

theorem pairedPred : IxPred PairedIx := by
  refine ⟨fun _ => Pointwise.nil _, fun own max ix h t s => ?_⟩
  simp only [TIndex.ensureIndex]
  split
  · exact s
  · split
    · exact s
    · exact Pointwise.snoc s (asSimple_paired _ (allocTerm_spec own h t).owned)

/-- with both disciplines the audit vector is clean: for every entry the key mapped to it is found, has
its shape, and contains its pointers -/
theorem audit_clean_of {max : Nat} {ix : TIndex} (s : SizedIx max ix) (p : PairedIx max ix) :
    ∀ q ∈ ix.audit, q = (true, true) := by
  intro q hq
  simp only [TIndex.audit, List.mem_map, List.mem_range] at hq
  obtain ⟨i, hi, rfl⟩ := hq
  obtain ⟨k, hk, hg⟩ := keyAt_of_sized s hi
  have := p.2 i (k, i) ix.i2t[i] hg (List.getElem?_eq_getElem hi)
  simp only [TIndex.auditEntry, hk, List.getElem?_eq_getElem hi, this.1, this.2, Bool.and_self]

theorem bothPred : IxPred (fun max ix => SizedIx max ix ∧ PairedIx max ix) :=
  ⟨fun max => ⟨sizedPred.empty max, pairedPred.empty max⟩,
   fun own max ix h t s => ⟨sizedPred.ensure own max ix h t s.1, pairedPred.ensure own max ix h t s.2⟩⟩

end SophiaProofs.HeapP
