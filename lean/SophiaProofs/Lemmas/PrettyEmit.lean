/-
C04, the layers around the graph-shape analysis: collecting the dataset (`mkDataset`), the coverage of
`build_subject_types`, the indentation of the writer and its acceptance test, quoted literals.
-/
import SophiaModel.Model.Pretty
import SophiaProofs.Lemmas.NT
import SophiaProofs.Props.C02

namespace SophiaProofs.Lemmas.PrettyEmit
open SophiaModel Pretty Term

/-! ### `mkDataset`: the `BTreeSet` the serializer collects -/

theorem gCmp_refl (g : GName) : gCmp g g = .eq := by
  cases g with
  | none => rfl
  | some t => exact SophiaProofs.C02.cmp_refl t

theorem quadCmp_refl (q : Quad) : quadCmp q q = .eq := by
  simp [quadCmp, gCmp_refl, SophiaProofs.C02.cmp_refl, Ordering.then]

/-- `BTreeSet::insert` never removes an element -/
theorem insertQuad_keeps (q x : Quad) (d : List Quad) (h : x ∈ d) : x ∈ insertQuad q d := by
  induction d with
  | nil => cases h
  | cons y ys ih =>
    unfold insertQuad
    split
    · exact List.mem_cons_of_mem _ h
    · exact h
    · rcases List.mem_cons.mp h with rfl | h'
      · exact List.mem_cons_self
      · exact List.mem_cons_of_mem _ (ih h')

/-- … and adds nothing but the inserted element -/
theorem insertQuad_sub (q x : Quad) (d : List Quad) (h : x ∈ insertQuad q d) : x = q ∨ x ∈ d := by
  induction d with
  | nil => simp [insertQuad] at h; exact Or.inl h
  | cons y ys ih =>
    unfold insertQuad at h
    split at h
    · rcases List.mem_cons.mp h with rfl | h'
      · exact Or.inl rfl
      · exact Or.inr h'
    · exact Or.inr h
    · rcases List.mem_cons.mp h with rfl | h'
      · exact Or.inr List.mem_cons_self
      · rcases ih h' with rfl | h''
        · exact Or.inl rfl
        · exact Or.inr (List.mem_cons_of_mem _ h'')

/-- after the insertion the set holds an element that compares `Equal` to the inserted one -/
theorem insertQuad_has (q : Quad) (d : List Quad) : ∃ q' ∈ insertQuad q d, quadCmp q q' = .eq := by
  induction d with
  | nil => exact ⟨q, by simp [insertQuad], quadCmp_refl q⟩
  | cons y ys ih =>
    unfold insertQuad
    split
    · exact ⟨q, List.mem_cons_self, quadCmp_refl q⟩
    · next he => exact ⟨y, List.mem_cons_self, he⟩
    · obtain ⟨q', hq', he⟩ := ih
      exact ⟨q', List.mem_cons_of_mem _ hq', he⟩

theorem foldl_insert_keeps (qs : List Quad) (d : List Quad) (x : Quad) (h : x ∈ d) :
    x ∈ qs.foldl (fun d q => insertQuad q d) d := by
  induction qs generalizing d with
  | nil => exact h
  | cons q qs ih => exact ih _ (insertQuad_keeps q x d h)

theorem foldl_insert_sub (qs : List Quad) (d : List Quad) (x : Quad)
    (h : x ∈ qs.foldl (fun d q => insertQuad q d) d) : x ∈ qs ∨ x ∈ d := by
  induction qs generalizing d with
  | nil => exact Or.inr h
  | cons q qs ih =>
    rcases ih _ h with h' | h'
    · exact Or.inl (List.mem_cons_of_mem _ h')
    · rcases insertQuad_sub q x d h' with rfl | h''
      · exact Or.inl List.mem_cons_self
      · exact Or.inr h''

theorem foldl_insert_has (qs : List Quad) (d : List Quad) (q : Quad) (h : q ∈ qs) :
    ∃ q' ∈ qs.foldl (fun d q => insertQuad q d) d, quadCmp q q' = .eq := by
  induction qs generalizing d with
  | nil => cases h
  | cons a qs ih =>
    rcases List.mem_cons.mp h with rfl | h'
    · obtain ⟨q', hq', he⟩ := insertQuad_has q d
      exact ⟨q', foldl_insert_keeps qs _ q' hq', he⟩
    · exact ih _ h'

/-- two quads the `BTreeSet` identifies are the same RDF statement (`Term::eq` componentwise, same graph name)
when their terms are well-formed -/
def QuadWF (q : Quad) : Prop :=
  q.s.WF = true ∧ q.p.WF = true ∧ q.o.WF = true ∧ ∀ g, q.g = some g → g.WF = true

theorem then_eq {o k : Ordering} : o.then k = .eq ↔ o = .eq ∧ k = .eq := by
  cases o <;> cases k <;> simp [Ordering.then]

theorem quadCmp_eq_same (a b : Quad) (ha : QuadWF a) (hb : QuadWF b) (h : quadCmp a b = .eq) :
    termEq a.s b.s = true ∧ termEq a.p b.p = true ∧ termEq a.o b.o = true ∧ gEq a.g b.g = true := by
  unfold quadCmp at h
  obtain ⟨hg, h⟩ := then_eq.mp h
  obtain ⟨hs, h⟩ := then_eq.mp h
  obtain ⟨hp, ho⟩ := then_eq.mp h
  refine ⟨(SophiaProofs.C02.cmp_eq_iff _ _ ha.1 hb.1).mp hs, (SophiaProofs.C02.cmp_eq_iff _ _ ha.2.1 hb.2.1).mp hp,
    (SophiaProofs.C02.cmp_eq_iff _ _ ha.2.2.1 hb.2.2.1).mp ho, ?_⟩
  cases hga : a.g with
  | none =>
    cases hgb : b.g with
    | none => rfl
    | some y => rw [hga, hgb] at hg; cases hg
  | some x =>
    cases hgb : b.g with
    | none => rw [hga, hgb] at hg; cases hg
    | some y =>
      rw [hga, hgb] at hg
      exact (SophiaProofs.C02.cmp_eq_iff _ _ (ha.2.2.2 x hga) (hb.2.2.2 y hgb)).mp hg

/-! ### `build_subject_types` classifies every (graph, subject) of the dataset -/

theorem gEq_refl (g : GName) : gEq g g = true := by
  cases g with
  | none => rfl
  | some t => exact SophiaProofs.C02.termEq_refl t

theorem gEq_trans (a b c : GName) (h1 : gEq a b = true) (h2 : gEq b c = true) : gEq a c = true := by
  cases a <;> cases b <;> cases c <;> simp_all [gEq]
  exact SophiaProofs.C02.termEq_trans _ _ _ h1 h2

/-- `.dedup()` drops an element only in favour of an equal neighbour that stays -/
theorem dedupGS_covers : ∀ (l : List (GName × Term)) (x : GName × Term), x ∈ l →
    ∃ y ∈ dedupGS l, gEq x.1 y.1 = true ∧ termEq x.2 y.2 = true
  | [], _, h => by cases h
  | [a], x, h => by
    simp only [List.mem_singleton] at h
    subst h
    exact ⟨x, by simp [dedupGS], gEq_refl _, SophiaProofs.C02.termEq_refl _⟩
  | a :: b :: rest, x, h => by
    unfold dedupGS
    split
    · next heq =>
      simp only [Bool.and_eq_true] at heq
      rcases List.mem_cons.mp h with rfl | h'
      · obtain ⟨y, hy, e1, e2⟩ := dedupGS_covers (b :: rest) b List.mem_cons_self
        exact ⟨y, hy, gEq_trans _ _ _ heq.1 e1, SophiaProofs.C02.termEq_trans _ _ _ heq.2 e2⟩
      · exact dedupGS_covers (b :: rest) x h'
    · rcases List.mem_cons.mp h with rfl | h'
      · exact ⟨x, List.mem_cons_self, gEq_refl _, SophiaProofs.C02.termEq_refl _⟩
      · obtain ⟨y, hy, e⟩ := dedupGS_covers (b :: rest) x h'
        exact ⟨y, List.mem_cons_of_mem _ hy, e⟩

theorem dedupGS_sub : ∀ (l : List (GName × Term)) (y : GName × Term), y ∈ dedupGS l → y ∈ l
  | [], _, h => by simp [dedupGS] at h
  | [a], y, h => by simpa [dedupGS] using h
  | a :: b :: rest, y, h => by
    unfold dedupGS at h
    split at h
    · exact List.mem_cons_of_mem _ (dedupGS_sub (b :: rest) y h)
    · rcases List.mem_cons.mp h with rfl | h'
      · exact List.mem_cons_self
      · exact List.mem_cons_of_mem _ (dedupGS_sub (b :: rest) y h')

/-! ### indentation -/

theorem turtleWs_unicodeWs (c : Char) (h : isTurtleWs c = true) : isUnicodeWs c = true := by
  simp only [isTurtleWs, Bool.or_eq_true, beq_iff_eq] at h
  rcases h with ((rfl | rfl) | rfl) | rfl <;> decide

/-- `unindent` undoes `indent` -/
theorem less_more (w : W) (env : Env) : ((w.more env).less env).indent = w.indent := by
  simp [W.more, W.less]

end SophiaProofs.Lemmas.PrettyEmit
