/-
ASCII case folding on `Char` (for the language-tag theorems of Props/C02.lean).
-/
import SophiaModel.Basic.TermOrder

namespace SophiaProofs
open SophiaModel

theorem char_le_iff (a b : Char) : a ≤ b ↔ a.toNat ≤ b.toNat := by
  rw [Char.le_def, UInt32.le_iff_toNat_le]; rfl

theorem toNat_ofNat_small (n : Nat) (h : n < 0xd800) : (Char.ofNat n).toNat = n := by
  simp [Char.ofNat, Nat.isValidChar, h, Char.toNat, Char.ofNatAux]

/-- `char::to_ascii_uppercase` -/
def upperAscii (c : Char) : Char :=
  if 'a' ≤ c ∧ c ≤ 'z' then Char.ofNat (c.toNat - 32) else c

/-- `to_ascii_lowercase` is idempotent -/
theorem lowerAscii_idem (c : Char) : lowerAscii (lowerAscii c) = lowerAscii c := by
  unfold lowerAscii
  split
  · rename_i h
    rw [char_le_iff, char_le_iff] at h
    have hA : ('A' : Char).toNat = 65 := by decide
    have hZ : ('Z' : Char).toNat = 90 := by decide
    rw [hA, hZ] at h
    have h1 := toNat_ofNat_small (c.toNat + 32) (by omega)
    have : ¬ ('A' ≤ Char.ofNat (c.toNat + 32) ∧ Char.ofNat (c.toNat + 32) ≤ 'Z') := by
      rw [char_le_iff, char_le_iff, h1, hA, hZ]; omega
    simp [this]
  · rfl

/-- lower-casing forgets an upper-casing -/
theorem lower_upper (c : Char) : lowerAscii (upperAscii c) = lowerAscii c := by
  have hA : ('A' : Char).toNat = 65 := by decide
  have hZ : ('Z' : Char).toNat = 90 := by decide
  have ha : ('a' : Char).toNat = 97 := by decide
  have hz : ('z' : Char).toNat = 122 := by decide
  unfold upperAscii
  split
  · rename_i h
    rw [char_le_iff, char_le_iff, ha, hz] at h
    have h1 := toNat_ofNat_small (c.toNat - 32) (by omega)
    have hu : 'A' ≤ Char.ofNat (c.toNat - 32) ∧ Char.ofNat (c.toNat - 32) ≤ 'Z' := by
      rw [char_le_iff, char_le_iff, h1, hA, hZ]; omega
    have hc : ¬ ('A' ≤ c ∧ c ≤ 'Z') := by
      rw [char_le_iff, char_le_iff, hA, hZ]; omega
    unfold lowerAscii
    rw [if_pos hu, if_neg hc, h1]
    have : c.toNat - 32 + 32 = c.toNat := by omega
    rw [this]
    exact Char.ofNat_toNat c
  · rfl

end SophiaProofs
