/-
Lemmas about `Rfc3986.split` / `recompose` (Model/Resolve3986.lean) used by Props/C09.lean:
the Appendix-B split is lossless, and the split of the three "same-document" reference shapes.
-/
import SophiaModel.Model.Resolve3986
import SophiaModel.Model.OxiriResolve

namespace SophiaProofs.Resolve
open SophiaModel Rfc3986

theorem spanNot_rest (stops : List Char) (s : Str) :
    (spanNot stops s).2 = [] ∨ ∃ c r, (spanNot stops s).2 = c :: r ∧ c ∈ stops := by
  induction s with
  | nil => left; rfl
  | cons c cs ih =>
    unfold spanNot
    by_cases h : c ∈ stops
    · right; exact ⟨c, cs, by simp [h], h⟩
    · simpa [h] using ih

/-- fragment part of what is left after the query -/
def fragOf : Str → Option Str
  | '#' :: r => some r
  | _ => none

def showFrag : Option Str → Str
  | some f => '#' :: f
  | none => []

theorem frag_lossless (q : Str) : (spanNot ['#'] q).1 ++ showFrag (fragOf (spanNot ['#'] q).2) = q := by
  have h := spanNot_append ['#'] q
  rcases spanNot_rest ['#'] q with h0 | ⟨c, r, hc, hm⟩
  · rw [h0] at h ⊢; simpa [fragOf, showFrag] using h
  · have : c = '#' := by simpa using hm
    subst this
    rw [hc] at h ⊢; simpa [fragOf, showFrag] using h

theorem split_empty : split [] = { scheme := none, authority := none, path := [], query := none, fragment := none } := by
  rfl

theorem split_fragment (f : Str) :
    split ('#' :: f) = { scheme := none, authority := none, path := [], query := none, fragment := some f } := by
  simp [split, spanNot]

theorem split_query (q : Str) :
    split ('?' :: q) = { scheme := none, authority := none, path := [], query := some (spanNot ['#'] q).1,
                         fragment := fragOf (spanNot ['#'] q).2 } := by
  simp [split, spanNot, fragOf]
  split <;> split <;> simp_all


theorem ox_empty (b : Str) : OxiriResolve.resolve b [] = some (Rfc3986.resolve b []) := by
  simp only [OxiriResolve.resolve, Rfc3986.resolve, split_empty, transform, recompose]
  generalize split b = p
  obtain ⟨sc, au, pa, qu, fr⟩ := p
  cases sc <;> cases au <;> cases qu <;> simp

theorem ox_fragment (b f : Str) : OxiriResolve.resolve b ('#' :: f) = some (Rfc3986.resolve b ('#' :: f)) := by
  simp only [OxiriResolve.resolve, Rfc3986.resolve, split_fragment, transform, recompose, OxiriResolve.hasScheme]
  generalize split b = p
  obtain ⟨sc, au, pa, qu, fr⟩ := p
  cases sc <;> cases au <;> cases qu <;> simp [OxiriResolve.isAlpha]

theorem ox_query (b q : Str) : OxiriResolve.resolve b ('?' :: q) = some (Rfc3986.resolve b ('?' :: q)) := by
  have hq := frag_lossless q
  simp only [OxiriResolve.resolve, Rfc3986.resolve, split_query, transform, recompose, OxiriResolve.hasScheme]
  generalize split b = p
  obtain ⟨sc, au, pa, qu, fr⟩ := p
  cases sc <;> cases au <;> cases qu <;> simp [OxiriResolve.isAlpha] <;>
    (generalize fragOf (spanNot ['#'] q).snd = o at hq ⊢; cases o <;> simp [showFrag] at hq ⊢ <;> exact hq.symm)

def schemeStep (s : Str) : Option Str × Str :=
  match (spanNot [':', '/', '?', '#'] s).1, (spanNot [':', '/', '?', '#'] s).2 with
  | _ :: _, ':' :: r => (some (spanNot [':', '/', '?', '#'] s).1, r)
  | _, _ => (none, s)

def authStep (s1 : Str) : Option Str × Str :=
  match s1 with
  | '/' :: '/' :: r => (some (spanNot ['/', '?', '#'] r).1, (spanNot ['/', '?', '#'] r).2)
  | _ => (none, s1)

def queryStep (s3 : Str) : Option Str × Str :=
  match s3 with
  | '?' :: r => (some (spanNot ['#'] r).1, (spanNot ['#'] r).2)
  | _ => (none, s3)

theorem split_staged (s : Str) : split s =
    let s1 := (schemeStep s).2
    let s2 := (authStep s1).2
    let s3 := (spanNot ['?', '#'] s2).2
    let s4 := (queryStep s3).2
    { scheme := (schemeStep s).1, authority := (authStep s1).1, path := (spanNot ['?', '#'] s2).1,
      query := (queryStep s3).1, fragment := fragOf s4 } := by
  unfold split schemeStep authStep queryStep
  simp only []
  congr 1

theorem schemeStep_lossless (s : Str) :
    (match (schemeStep s).1 with | some x => x ++ [':'] | none => []) ++ (schemeStep s).2 = s := by
  have h := spanNot_append [':', '/', '?', '#'] s
  unfold schemeStep
  generalize (spanNot [':', '/', '?', '#'] s).1 = pre at h ⊢
  generalize (spanNot [':', '/', '?', '#'] s).2 = rest at h ⊢
  cases pre with
  | nil => simp
  | cons a t =>
    cases rest with
    | nil => simp
    | cons c r =>
      by_cases hc : c = ':'
      · subst hc; simpa using h
      · simp [hc]

theorem authStep_lossless (s : Str) :
    (match (authStep s).1 with | some a => '/' :: '/' :: a | none => []) ++ (authStep s).2 = s := by
  unfold authStep
  match s with
  | '/' :: '/' :: r => simpa using spanNot_append ['/', '?', '#'] r
  | [] => simp
  | [c] => by_cases c = '/' <;> simp_all
  | c :: d :: r =>
    by_cases h1 : c = '/' <;> by_cases h2 : d = '/'
    · subst h1; subst h2; simpa using spanNot_append ['/', '?', '#'] r
    all_goals simp [h1, h2]

theorem queryStep_lossless (s : Str) (hs : s = [] ∨ ∃ c r, s = c :: r ∧ c ∈ ['?', '#']) :
    (match (queryStep s).1 with | some q => '?' :: q | none => []) ++ showFrag (fragOf (queryStep s).2) = s := by
  unfold queryStep
  rcases hs with h0 | ⟨c, r, hc, hm⟩
  · subst h0; simp [fragOf, showFrag]
  · subst hc
    have : c = '?' ∨ c = '#' := by simpa using hm
    rcases this with h | h <;> subst h
    · simpa using frag_lossless r
    · simp [fragOf, showFrag]

theorem recompose_split (s : Str) : recompose (split s) = s := by
  rw [split_staged]
  simp only [recompose]
  have h1 := schemeStep_lossless s
  have h2 := authStep_lossless (schemeStep s).2
  have h3 := spanNot_append ['?', '#'] (authStep (schemeStep s).2).2
  have h4 := queryStep_lossless _ (spanNot_rest ['?', '#'] (authStep (schemeStep s).2).2)
  conv => rhs; rw [← h1, ← h2, ← h3, ← h4]
  simp only [List.append_assoc]
  generalize (authStep (schemeStep s).snd).fst = o2
  generalize fragOf (queryStep (spanNot ['?', '#'] (authStep (schemeStep s).snd).snd).snd).snd = o4
  generalize (schemeStep s).fst = o1
  generalize (queryStep (spanNot ['?', '#'] (authStep (schemeStep s).snd).snd).snd).fst = o3
  cases o1 <;> cases o2 <;> cases o3 <;> cases o4 <;> simp [showFrag]

theorem resolve_empty_ref (b : Str) : Rfc3986.resolve b [] ++ showFrag (split b).fragment = b := by
  have h := recompose_split b
  simp only [Rfc3986.resolve, split_empty, transform, recompose] at h ⊢
  generalize split b = p at h ⊢
  obtain ⟨sc, au, pa, qu, fr⟩ := p
  cases sc <;> cases au <;> cases qu <;> cases fr <;> simpa [showFrag] using h

end SophiaProofs.Resolve
