/-
C18: the serialiser's pieces satisfy the conditions of the tokeniser lemma; text-level round trip.
-/
import SophiaProofs.Lemmas.XmlTokenize

set_option linter.unusedSimpArgs false
namespace SophiaProofs.XmlDoc
open SophiaModel SophiaModel.XmlGlue SophiaProofs.XmlGlueL SophiaProofs.XmlRT SophiaProofs.XmlTok

def isText : Ev → Bool
  | .text _ => true
  | _ => false

/-- no two adjacent Text events, given whether the previous event was one -/
def sepEvFrom (prevText : Bool) : List Ev → Bool
  | [] => true
  | e :: r => !(prevText && isText e) && sepEvFrom (isText e) r

/-- is the last event (or, for the empty list, the previous one) a Text event? -/
def endsText (prevText : Bool) : List Ev → Bool
  | [] => prevText
  | e :: r => endsText (isText e) r

theorem sepEvFrom_append (x y : List Ev) : ∀ b, sepEvFrom b (x ++ y) = (sepEvFrom b x && sepEvFrom (endsText b x) y) := by
  induction x with
  | nil => intro b; simp [sepEvFrom, endsText]
  | cons e r ih => intro b; simp [sepEvFrom, endsText, ih, Bool.and_assoc]

theorem endsText_append (x y : List Ev) : ∀ b, endsText b (x ++ y) = endsText (endsText b x) y := by
  induction x with
  | nil => intro b; rfl
  | cons e r ih => intro b; simp [endsText, ih]

/-- a well-separated block: no adjacent texts, does not start or end with a text -/
def Block (evs : List Ev) : Prop := sepEvFrom true evs = true ∧ endsText false evs = false

theorem Block.sep {evs : List Ev} (h : Block evs) (b : Bool) : sepEvFrom b evs = true := by
  cases b with
  | true => exact h.1
  | false =>
    cases evs with
    | nil => rfl
    | cons e r => have := h.1; simp only [sepEvFrom, Bool.true_and, Bool.false_and, Bool.not_false, Bool.and_eq_true] at this ⊢; exact this.2

theorem Block.ends {evs : List Ev} (h : Block evs) (b : Bool) (hb : b = false) : endsText b evs = false := by
  subst hb; exact h.2

theorem Block.nil : Block [] := ⟨rfl, rfl⟩

theorem Block.append {x y : List Ev} (hx : Block x) (hy : Block y) : Block (x ++ y) := by
  refine ⟨?_, ?_⟩
  · rw [sepEvFrom_append, hx.1, Bool.true_and]
    exact hy.sep _
  · rw [endsText_append, hx.2]; exact hy.2

theorem block_openDesc (cur : Option Owned) (s : RSubject) (o : Owned) (evs : List Ev)
    (h : openDesc cur s = some (o, evs)) : Block evs := by
  unfold openDesc at h
  split at h
  · cases cur <;> simp at h; obtain ⟨_, rfl⟩ := h; exact Block.nil
  · cases s <;> simp at h <;> obtain ⟨_, rfl⟩ := h <;> cases cur <;> exact ⟨rfl, rfl⟩

theorem block_propEvs (p : Str) (o : RObject) (evs : List Ev) (h : propEvs p o = some evs) : Block evs := by
  cases o <;> simp [propEvs] at h <;> subst h <;> exact ⟨rfl, rfl⟩

theorem block_formatTriple (cur : Option Owned) (t : RTriple) (cur' : Option Owned) (evs : List Ev)
    (h : formatTriple cur t = some (cur', evs)) : Block evs := by
  obtain ⟨s, p, o⟩ := t
  simp only [formatTriple] at h
  cases h1 : openDesc cur s with
  | none => simp [h1] at h
  | some r1 =>
    obtain ⟨owned, evs1⟩ := r1
    cases h2 : propEvs p o with
    | none => simp [h1, h2] at h
    | some evs2 =>
      simp only [h1, h2, Option.some.injEq, Prod.mk.injEq] at h
      obtain ⟨_, rfl⟩ := h
      exact (block_openDesc _ _ _ _ h1).append (block_propEvs _ _ _ h2)

theorem block_formatAll (rts : List RTriple) : ∀ (cur cur' : Option Owned) (evs : List Ev),
    formatAll cur rts = some (cur', evs) → Block evs := by
  induction rts with
  | nil => intro cur cur' evs h; simp [formatAll] at h; obtain ⟨_, rfl⟩ := h; exact Block.nil
  | cons t ts ih =>
    intro cur cur' evs h
    simp only [formatAll] at h
    cases h1 : formatTriple cur t with
    | none => simp [h1] at h
    | some r1 =>
      obtain ⟨c1, e1⟩ := r1
      cases h2 : formatAll c1 ts with
      | none => simp [h1, h2] at h
      | some r2 =>
        obtain ⟨c2, e2⟩ := r2
        simp only [h1, h2, Option.some.injEq, Prod.mk.injEq] at h
        obtain ⟨_, rfl⟩ := h
        exact (block_formatTriple _ _ _ _ h1).append (ih _ _ _ h2)

theorem block_events (ts : List Triple) (evs : List Ev) (h : events ts = some evs) : Block evs := by
  unfold events at h
  cases h1 : formatAll none (ts.filterMap convertTriple) with
  | none => simp [h1] at h
  | some r =>
    obtain ⟨cur, body⟩ := r
    simp only [h1, Option.some.injEq] at h
    subst h
    refine (Block.append (Block.append ⟨by decide, by decide⟩ (block_formatAll _ _ _ _ h1)) ?_)
    cases cur <;> exact ⟨rfl, rfl⟩

/-! the writer keeps texts separated -/

theorem writeFrom_sepOK (size : Nat) (evs : List Ev) :
    ∀ (st : Ind) (e : Ev), sepEvFrom (isText e) evs = true → (isText e = true → st.slb = false) →
      sepOK (.ev e :: writeFrom size st evs) = true := by
  induction evs with
  | nil => intro st e _ _; rfl
  | cons e' es ih =>
    intro st e hsep hst
    simp only [sepEvFrom, Bool.and_eq_true, Bool.not_eq_true', Bool.and_eq_false_iff] at hsep
    obtain ⟨hadj, hrest⟩ := hsep
    cases e' with
    | text s =>
      have he : isText e = false := by rcases hadj with h | h; exact h; simp [isText] at h
      simp only [writeFrom, writeEv, List.cons_append, List.nil_append, sepOK, Bool.and_eq_true]
      refine ⟨?_, ih _ _ hrest (fun _ => rfl)⟩
      cases e <;> simp_all [isTexty, isText]
    | start n a =>
      simp only [writeFrom, writeEv, wrapped]
      cases hs : st.slb
      · simp only [Bool.false_eq_true, if_false, List.cons_append, List.nil_append, sepOK, Bool.and_eq_true]
        exact ⟨by simp [isTexty], ih _ _ hrest (by simp [isText])⟩
      · simp only [if_true, List.cons_append, List.nil_append, sepOK, Bool.and_eq_true]
        refine ⟨?_, by simp [isTexty], ih _ _ hrest (by simp [isText])⟩
        cases e <;> simp_all [isTexty, isText]
    | empty n a =>
      simp only [writeFrom, writeEv, wrapped]
      cases hs : st.slb
      · simp only [Bool.false_eq_true, if_false, List.cons_append, List.nil_append, sepOK, Bool.and_eq_true]
        exact ⟨by simp [isTexty], ih _ _ hrest (by simp [isText])⟩
      · simp only [if_true, List.cons_append, List.nil_append, sepOK, Bool.and_eq_true]
        refine ⟨?_, by simp [isTexty], ih _ _ hrest (by simp [isText])⟩
        cases e <;> simp_all [isTexty, isText]
    | decl =>
      simp only [writeFrom, writeEv, wrapped]
      cases hs : st.slb
      · simp only [Bool.false_eq_true, if_false, List.cons_append, List.nil_append, sepOK, Bool.and_eq_true]
        exact ⟨by simp [isTexty], ih _ _ hrest (by simp [isText])⟩
      · simp only [if_true, List.cons_append, List.nil_append, sepOK, Bool.and_eq_true]
        refine ⟨?_, by simp [isTexty], ih _ _ hrest (by simp [isText])⟩
        cases e <;> simp_all [isTexty, isText]
    | close n =>
      simp only [writeFrom, writeEv, wrapped]
      cases hs : st.slb
      · simp only [Bool.false_eq_true, if_false, List.cons_append, List.nil_append, sepOK, Bool.and_eq_true]
        exact ⟨by simp [isTexty], ih _ _ hrest (by simp [isText])⟩
      · simp only [if_true, List.cons_append, List.nil_append, sepOK, Bool.and_eq_true]
        refine ⟨?_, by simp [isTexty], ih _ _ hrest (by simp [isText])⟩
        cases e <;> simp_all [isTexty, isText]

theorem sepOK_tail (a : Piece) (l : List Piece) (h : sepOK (a :: l) = true) : sepOK l = true := by
  cases l with
  | nil => rfl
  | cons b r => simp only [sepOK, Bool.and_eq_true] at h; exact h.2

theorem map_ev_sepOK (evs : List Ev) : ∀ b, sepEvFrom b evs = true → sepOK (evs.map Piece.ev) = true := by
  induction evs with
  | nil => intro _ _; rfl
  | cons e r ih =>
    intro b h
    simp only [sepEvFrom, Bool.and_eq_true] at h
    cases r with
    | nil => rfl
    | cons e' r' =>
      have h2 := h.2
      simp only [sepEvFrom, Bool.and_eq_true, Bool.not_eq_true', Bool.and_eq_false_iff] at h2
      simp only [List.map_cons, sepOK, Bool.and_eq_true]
      refine ⟨?_, ih _ h.2⟩
      rcases h2.1 with h3 | h3
      · cases e <;> simp_all [isTexty, isText]
      · cases e' <;> simp_all [isTexty, isText]

theorem writeAll_sepOK (ind : Option Nat) (evs : List Ev) (h : Block evs) : sepOK (writeAll ind evs) = true := by
  cases ind with
  | none => exact map_ev_sepOK evs false (h.sep false)
  | some size =>
    exact sepOK_tail _ _ (writeFrom_sepOK size evs ⟨false, 0⟩ .decl (h.sep _) (by simp [isText]))

/-! every piece the serialiser emits is well-formed for the tokeniser -/

theorem nameChar_good (c : Char) (h : isNameChar c = true) : goodNameChar c = true := by
  by_cases h1 : c = ' '; · subst h1; revert h; decide
  by_cases h2 : c = '\t'; · subst h2; revert h; decide
  by_cases h3 : c = '\n'; · subst h3; revert h; decide
  by_cases h4 : c = '\r'; · subst h4; revert h; decide
  by_cases h5 : c = '>'; · subst h5; revert h; decide
  by_cases h6 : c = '/'; · subst h6; revert h; decide
  by_cases h7 : c = '='; · subst h7; revert h; decide
  simp [goodNameChar, isWs, h1, h2, h3, h4, h5, h6, h7]

theorem ncname_goodName (loc : Str) (h : isNCName loc = true) : goodName loc = true := by
  have hch := ncname_chars' loc h
  cases loc with
  | nil => simp [isNCName] at h
  | cons d ds =>
    simp only [goodName, Bool.and_eq_true, bne_iff_ne, ne_eq, List.all_eq_true]
    refine ⟨?_, fun x hx => nameChar_good x (hch x hx).1⟩
    intro hd; subst hd
    have := (hch '?' (by simp)).1
    revert this; decide

theorem propName_good (p : Str) : goodName (propName p).1 = true ∧ goodKey (propName p).2.1 = true := by
  by_cases hl : (splitIri p).2 = []
  · have : propName p = ("prop:".toList, ("xmlns:prop".toList, (splitIri p).1)) := by simp [propName, hl]
    rw [this]; exact ⟨rfl, rfl⟩
  · obtain ⟨hnc, _⟩ := splitIri_valid p (splitIri p).1 (splitIri p).2 rfl hl
    have : propName p = ((splitIri p).2, ("xmlns".toList, (splitIri p).1)) := by
      have : (splitIri p).2.isEmpty = false := by
        cases h : (splitIri p).2 with
        | nil => exact absurd h hl
        | cons _ _ => rfl
      simp [propName, this]
    rw [this]; exact ⟨ncname_goodName _ hnc, rfl⟩

theorem good_openDesc (cur : Option Owned) (s : RSubject) (o : Owned) (evs : List Ev)
    (h : openDesc cur s = some (o, evs)) : ∀ e ∈ evs, goodEv e = true := by
  unfold openDesc at h
  split at h
  · cases cur <;> simp at h; obtain ⟨_, rfl⟩ := h; simp
  · cases s <;> simp at h <;> obtain ⟨_, rfl⟩ := h <;> cases cur <;> intro e he <;> simp at he <;>
      (try rcases he with rfl | rfl) <;> (try subst he) <;> rfl

theorem good_propEvs (p : Str) (o : RObject) (evs : List Ev) (h : propEvs p o = some evs) :
    ∀ e ∈ evs, goodEv e = true := by
  obtain ⟨hn, hk⟩ := propName_good p
  cases o <;> simp [propEvs] at h <;> subst h <;> intro e he <;> simp at he
  all_goals first
    | (subst he; simp [goodEv, hn, hk]; try decide)
    | (rcases he with rfl | rfl | rfl <;> simp [goodEv, hn, hk] <;> try decide)

theorem good_formatTriple (cur : Option Owned) (t : RTriple) (cur' : Option Owned) (evs : List Ev)
    (h : formatTriple cur t = some (cur', evs)) : ∀ e ∈ evs, goodEv e = true := by
  obtain ⟨s, p, o⟩ := t
  simp only [formatTriple] at h
  cases h1 : openDesc cur s with
  | none => simp [h1] at h
  | some r1 =>
    obtain ⟨owned, evs1⟩ := r1
    cases h2 : propEvs p o with
    | none => simp [h1, h2] at h
    | some evs2 =>
      simp only [h1, h2, Option.some.injEq, Prod.mk.injEq] at h
      obtain ⟨_, rfl⟩ := h
      intro e he
      simp only [List.mem_append] at he
      rcases he with he | he
      · exact good_openDesc _ _ _ _ h1 e he
      · exact good_propEvs _ _ _ h2 e he

theorem good_formatAll (rts : List RTriple) : ∀ (cur cur' : Option Owned) (evs : List Ev),
    formatAll cur rts = some (cur', evs) → ∀ e ∈ evs, goodEv e = true := by
  induction rts with
  | nil => intro cur cur' evs h; simp [formatAll] at h; obtain ⟨_, rfl⟩ := h; simp
  | cons t ts ih =>
    intro cur cur' evs h
    simp only [formatAll] at h
    cases h1 : formatTriple cur t with
    | none => simp [h1] at h
    | some r1 =>
      obtain ⟨c1, e1⟩ := r1
      cases h2 : formatAll c1 ts with
      | none => simp [h1, h2] at h
      | some r2 =>
        obtain ⟨c2, e2⟩ := r2
        simp only [h1, h2, Option.some.injEq, Prod.mk.injEq] at h
        obtain ⟨_, rfl⟩ := h
        intro e he
        simp only [List.mem_append] at he
        rcases he with he | he
        · exact good_formatTriple _ _ _ _ h1 e he
        · exact ih _ _ _ h2 e he

theorem good_events (ts : List Triple) (evs : List Ev) (h : events ts = some evs) : ∀ e ∈ evs, goodEv e = true := by
  unfold events at h
  cases h1 : formatAll none (ts.filterMap convertTriple) with
  | none => simp [h1] at h
  | some r =>
    obtain ⟨cur, body⟩ := r
    simp only [h1, Option.some.injEq] at h
    subst h
    intro e he
    simp only [List.mem_append] at he
    rcases he with (he | he) | he
    · simp [startEvs] at he; rcases he with rfl | rfl <;> rfl
    · exact good_formatAll _ _ _ _ h1 e he
    · cases cur <;> simp [finishEvs] at he
      · subst he; rfl
      · rcases he with rfl | rfl <;> rfl

theorem mem_writeFrom (size : Nat) (evs : List Ev) : ∀ st p, p ∈ writeFrom size st evs →
    (∃ k, p = .ws k) ∨ ∃ e ∈ evs, p = .ev e := by
  induction evs with
  | nil => intro st p h; simp [writeFrom] at h
  | cons e es ih =>
    intro st p h
    simp only [writeFrom, List.mem_append] at h
    rcases h with h | h
    · cases e <;> simp only [writeEv, wrapped] at h <;> (try split at h) <;> simp at h <;>
        first
        | (rcases h with rfl | rfl; exact Or.inl ⟨_, rfl⟩; exact Or.inr ⟨_, by simp, rfl⟩)
        | (subst h; exact Or.inr ⟨_, by simp, rfl⟩)
    · rcases ih _ p h with h' | ⟨e', he', rfl⟩
      · exact Or.inl h'
      · exact Or.inr ⟨e', by simp [he'], rfl⟩

theorem good_writeAll (ind : Option Nat) (evs : List Ev) (h : ∀ e ∈ evs, goodEv e = true) :
    ∀ p ∈ writeAll ind evs, goodPiece p = true := by
  intro p hp
  cases ind with
  | none =>
    simp only [writeAll, List.mem_map] at hp
    obtain ⟨e, he, rfl⟩ := hp
    exact h e he
  | some size =>
    rcases mem_writeFrom size evs _ p hp with ⟨k, rfl⟩ | ⟨e, he, rfl⟩
    · rfl
    · exact h e he

/-- **the tokeniser recovers exactly the writer's pieces, for every graph and indentation** -/
theorem tokenize_serialize (n : Nat) (ts : List Triple) (ps : List Piece) (h : pieces n ts = some ps) :
    tokenize ((render ps).length + 1) (render ps) = some (toks ps) := by
  simp only [pieces] at h
  cases he : events ts with
  | none => simp [he] at h
  | some evs =>
    simp only [he, Option.map_some, Option.some.injEq] at h
    subst h
    exact tokenize_render _ (good_writeAll _ evs (good_events ts evs he))
      (writeAll_sepOK _ evs (block_events ts evs he)) _ (Nat.lt_succ_self _)

end SophiaProofs.XmlDoc
