import SophiaProofs.Lemmas.JsonLdRender
import SophiaProofs.Lemmas.JsonLdMark

/-!
The traversal half of the C12 round trip for datasets without list vocabulary (default AND named graphs):
`GInv`, the invariant of `process_quads` that discharges the side conditions of `entries_roundtrip` (`@type` values
are nodes, node ids have two leading ASCII bytes, no id is `" "`) and describes the `@graph` links (sound: a value
`Node(i, s)` under `@graph` of node `g` is the slot (g, s); complete: every non-empty named-graph slot is listed by its
graph's node); `jsonifyAll_rt2`: the document has one top-level node object per non-empty default-graph slot, with its
`@graph` children, and the reader gives back exactly the quads these slots hold; `mem_rootQ_iff`: that is every slot.
-/

namespace SophiaProofs.JsonLdLemmas
open SophiaModel SophiaModel.JsonLd
open SophiaModel.JsonLd.RdfObject (startsBn)

/-- absolute IRIs as far as the engine can tell: a letter (the scheme), then another ASCII character (every
scheme character and `:` are ASCII); what `&id[..2]` needs -/
def iriAbs : Str → Bool
  | c :: d :: _ => c.isAlpha && decide (d.toNat < 0x80)
  | _ => false

def termAbs : Term → Bool
  | .iri s => iriAbs s
  | _ => true

def quadAbs (q : Quad) : Bool :=
  termAbs q.s && termAbs q.p && termAbs q.o && (match q.g with | none => true | some g => termAbs g)

theorem iriAbs_ok {s : Str} (h : iriAbs s = true) : iriOk s = true := by
  match s, h with
  | c :: d :: _, h => simp [iriAbs] at h; simp [iriOk, h.1]

theorem termAbs_ok {t : Term} (h : termAbs t = true) : termOk t = true := by
  cases t <;> simp_all [termAbs, termOk]
  exact iriAbs_ok h

theorem quadAbs_ok {q : Quad} (h : quadAbs q = true) : quadOk q = true := by
  simp only [quadAbs, Bool.and_eq_true] at h
  simp only [quadOk, Bool.and_eq_true]
  refine ⟨⟨⟨termAbs_ok h.1.1.1, termAbs_ok h.1.1.2⟩, termAbs_ok h.1.2⟩, ?_⟩
  cases hg : q.g with
  | none => rfl
  | some g => rw [hg] at h; exact termAbs_ok h.2

theorem isAlpha_ascii {c : Char} (h : c.isAlpha = true) : c.toNat < 0x80 := by
  simp only [Char.isAlpha, Char.isUpper, Char.isLower, Bool.or_eq_true, Bool.and_eq_true, decide_eq_true_eq] at h
  have : c.toNat = c.val.toNat := rfl
  rcases h with h | h
  · have := h.2; simp [UInt32.le_iff_toNat_le] at this; omega
  · have := h.2; simp [UInt32.le_iff_toNat_le] at this; omega

theorem prefix2_iriAbs {s : Str} (h : iriAbs s = true) : (prefix2 s).isSome = true := by
  match s, h with
  | c :: d :: _, h =>
    simp only [iriAbs, Bool.and_eq_true, decide_eq_true_eq] at h
    have hc := isAlpha_ascii h.1
    simp [prefix2, hc, h.2]


/-! ### side conditions on the stored values -/

/-- side conditions on one stored value under key `k` -/
def ValOk (k : Id) (v : RdfObject) : Prop :=
  (k = kType → v.isNode = true) ∧ ∀ i id, v = .node i id → (prefix2 id).isSome = true

theorem mem_modify {α : Type} (f : α → α) : ∀ (l : List α) (i : Nat) (y : α), y ∈ l.modify i f → y ∈ l ∨ ∃ x ∈ l, y = f x
  | [], _, y, h => by simp at h
  | a :: l, 0, y, h => by
    simp only [List.modify_zero_cons, List.mem_cons] at h
    rcases h with rfl | h
    · exact Or.inr ⟨a, List.mem_cons_self, rfl⟩
    · exact Or.inl (List.mem_cons_of_mem _ h)
  | a :: l, i + 1, y, h => by
    simp only [List.modify_succ_cons, List.mem_cons] at h
    rcases h with rfl | h
    · exact Or.inl List.mem_cons_self
    · rcases mem_modify f l i y h with h | ⟨x, hx, rfl⟩
      · exact Or.inl (List.mem_cons_of_mem _ h)
      · exact Or.inr ⟨x, List.mem_cons_of_mem _ hx, rfl⟩

theorem startsBn_prefix2 {id : Id} (h : startsBn id = true) : (prefix2 id).isSome = true := by
  unfold startsBn at h
  split at h
  · simp [prefix2]
  · cases h

/-- the value `process_quads` files for a quad, and the key it files it under, satisfy the side conditions -/
theorem valOk_predKey (o : Opts) (E : Engine) (g : Id) (q : Quad) (hj : isJsonLd q = true) (hq : quadAbs q = true) :
    ValOk (predKey o q (E.makeRdfObject q.o g).2) (E.makeRdfObject q.o g).2 := by
  have hparts : isSubject q.s = true ∧ isIri q.p = true ∧ isObject q.o = true := by
    simp only [isJsonLd, Bool.and_eq_true] at hj; exact ⟨hj.1.1.1, hj.1.1.2, hj.1.2⟩
  have habs : termAbs q.s = true ∧ termAbs q.p = true ∧ termAbs q.o = true := by
    simp only [quadAbs, Bool.and_eq_true] at hq; exact ⟨hq.1.1.1, hq.1.1.2, hq.1.2⟩
  constructor
  · intro hkt
    unfold predKey at hkt
    split at hkt
    · rename_i hc
      simp only [Bool.and_eq_true] at hc
      have := hc.1.2
      revert this
      cases (E.makeRdfObject q.o g).2 <;> simp [RdfObject.isIri, RdfObject.isNode]
    · -- the predicate itself would be "@type": not an IRI
      exfalso
      obtain ⟨p, hp⟩ := (isIri_spec q.p).mp hparts.2.1
      have hpa := habs.2.1
      rw [hp] at hkt hpa
      simp only [asId] at hkt
      simp only [termAbs] at hpa
      rw [hkt] at hpa
      revert hpa; decide
  · intro i id hv
    cases ho : q.o with
    | iri s =>
      have ha : iriAbs s = true := by have := habs.2.2; rw [ho] at this; simpa [termAbs] using this
      rw [ho] at hv
      simp only [Engine.makeRdfObject, asId, RdfObject.node.injEq] at hv
      rw [← hv.2]; exact prefix2_iriAbs ha
    | bnode b =>
      rw [ho] at hv
      simp only [Engine.makeRdfObject, asId, RdfObject.node.injEq] at hv
      rw [← hv.2]; exact startsBn_prefix2 rfl
    | lit l d => rw [ho] at hv; simp [Engine.makeRdfObject] at hv
    | lang l t => rw [ho] at hv; simp [Engine.makeRdfObject] at hv
    | triple a b c => rw [ho] at hparts; simp [isObject] at hparts
    | var v => rw [ho] at hparts; simp [isObject] at hparts

/-! ### quads held by the slots -/

theorem slotQuads_eq_triples (gs : Id × Id) : ∀ m : NodeMap,
    slotQuads gs m = (slotTriples (idTerm gs.2) m).map (fun t => (⟨t.1, t.2.1, t.2.2, graphTerm gs.1⟩ : Quad))
  | [] => rfl
  | (k, vs) :: rest => by
    simp only [slotQuads, slotTriples, List.map_append, slotQuads_eq_triples gs rest]
    congr 1
    split
    · rfl
    · simp [mkQuad, List.map_map, Function.comp_def]

/-- quads held by slot `i` -/
def slotQ (E : Engine) (i : Nat) : List Quad := slotQuads (E.gsId.getD i ([], [])) (E.node.getD i [])

theorem graphTerm_dflt : graphTerm dflt = none := by decide

theorem denotes_iff_slotQ {E : Engine} (ha : Aligned E) (q : Quad) :
    Denotes E q ↔ q ∈ (List.range E.node.length).flatMap (slotQ E) := by
  simp only [List.mem_flatMap, List.mem_range, slotQ]
  constructor
  · rintro ⟨i, gs, m, h1, h2, h3⟩
    have hi : i < E.node.length := (List.getElem?_eq_some_iff.mp h2).1
    refine ⟨i, hi, ?_⟩
    simp [List.getD_eq_getElem?_getD, h1, h2, h3]
  · rintro ⟨i, hi, h3⟩
    have hi' : i < E.gsId.length := ha ▸ hi
    refine ⟨i, E.gsId[i], E.node[i], List.getElem?_eq_getElem hi', List.getElem?_eq_getElem hi, ?_⟩
    simpa [List.getD_eq_getElem?_getD, List.getElem?_eq_getElem hi', List.getElem?_eq_getElem hi] using h3

/-! ### named graphs: the `@graph` links -/

theorem lookup_mapPushIfNew (k k' : Id) (x : RdfObject) : ∀ m : NodeMap,
    lookup k (mapPushIfNew k' x m) =
      if k' == k then some (vecPushIfNew ((lookup k m).getD []) x) else lookup k m
  | [] => by
    by_cases h : (k' == k) = true
    · simp [mapPushIfNew, lookup, h, vecPushIfNew]
    · simp [mapPushIfNew, lookup, h]
  | (k0, vs) :: rest => by
    unfold mapPushIfNew
    by_cases h0 : (k0 == k') = true
    · have : k0 = k' := eq_of_beq h0
      subst this
      by_cases h : (k0 == k) = true
      · simp [lookup, h]
      · simp [lookup, h]
    · have h0' : (k0 == k') = false := by simpa using h0
      simp only [h0', Bool.false_eq_true, if_false]
      by_cases h : (k0 == k) = true
      · have hk : k0 = k := eq_of_beq h
        subst hk
        have : (k' == k0) = false := by
          cases hc : k' == k0
          · rfl
          · have := eq_of_beq hc; subst this; simp at h0'
        simp [lookup, this]
      · simp [lookup, h, lookup_mapPushIfNew k k' x rest]

/-- values of the `@graph` key -/
def graphVals (m : NodeMap) : List RdfObject := (lookup kGraph m).getD []

theorem graphVals_push_other {k : Id} (x : RdfObject) (m : NodeMap) (hk : k ≠ kGraph) :
    graphVals (mapPushIfNew k x m) = graphVals m := by
  have : (k == kGraph) = false := by
    cases hc : k == kGraph
    · rfl
    · exact absurd (eq_of_beq hc) hk
  simp [graphVals, lookup_mapPushIfNew, this]

theorem graphVals_push_graph (x : RdfObject) (m : NodeMap) :
    graphVals (mapPushIfNew kGraph x m) = vecPushIfNew (graphVals m) x := by
  simp [graphVals, lookup_mapPushIfNew]

def ValsOk (m : NodeMap) : Prop := ∀ k vs, (k, vs) ∈ m → ∀ v ∈ vs, ValOk k v

/-- slot `i` (if it is in a named graph) is listed under the `@graph` key of its graph's node -/
def Linked (E : Engine) (i : Nat) : Prop :=
  ∃ gs : Id × Id, E.gsId[i]? = some gs ∧
    ((gs.1 == dflt) = true ∨
      ∃ (j : Nat) (mj : NodeMap), E.gsId[j]? = some (dflt, gs.1) ∧ E.node[j]? = some mj ∧ RdfObject.node i gs.2 ∈ graphVals mj)

structure GInv (E : Engine) : Prop where
  aligned : Aligned E
  ids : ∀ gs ∈ E.gsId, (gs.2 == dflt) = false
  maps : ∀ m ∈ E.node, ValsOk m
  sound : ∀ (j : Nat) (gs : Id × Id) (m : NodeMap), E.gsId[j]? = some gs → E.node[j]? = some m → ∀ v ∈ graphVals m,
    ∃ (i2 : Nat) (s2 : Id), v = .node i2 s2 ∧ E.gsId[i2]? = some (gs.2, s2)
  complete : ∀ (i : Nat) (m : NodeMap), E.node[i]? = some m → m ≠ [] → Linked E i

theorem ginv_init : GInv {} :=
  ⟨rfl, fun _ h => by simp at h, fun _ h => by simp at h, fun j gs m h => by simp at h,
   fun i m h => by simp at h⟩

theorem linked_index {E : Engine} (g s : Id) {i : Nat} (h : Linked E i) : Linked (E.index g s).1 i := by
  obtain ⟨gs, h1, h2⟩ := h
  have hext := index_ext E g s
  refine ⟨gs, hext.get h1, ?_⟩
  rcases h2 with h2 | ⟨j, mj, h3, h4, h5⟩
  · exact Or.inl h2
  · refine Or.inr ⟨j, mj, hext.get h3, ?_, h5⟩
    unfold Engine.index
    split
    · exact h4
    · exact getElem?_append_some _ _ _ _ h4

theorem ginv_index {E : Engine} (h : GInv E) (g s : Id) (hs : (s == dflt) = false) : GInv (E.index g s).1 := by
  have hext := index_ext E g s
  refine ⟨index_aligned h.aligned _ _, ?_, ?_, ?_, ?_⟩
  · unfold Engine.index
    split
    · exact h.ids
    · intro gs hgs
      simp only [List.mem_append, List.mem_singleton] at hgs
      rcases hgs with hgs | rfl
      · exact h.ids gs hgs
      · exact hs
  · unfold Engine.index
    split
    · exact h.maps
    · intro m hm
      simp only [List.mem_append, List.mem_singleton] at hm
      rcases hm with hm | rfl
      · exact h.maps m hm
      · intro k vs hk; simp at hk
  · intro j gs m h1 h2 v hv
    -- either an old slot, or the new (empty) one
    have hold : E.node[j]? = some m ∨ m = [] := by
      revert h2
      unfold Engine.index
      split
      · exact Or.inl
      · intro h2
        by_cases hj : j < E.node.length
        · rw [List.getElem?_append_left hj] at h2; exact Or.inl h2
        · have hj2 : E.node.length ≤ j := Nat.le_of_not_lt hj
          rw [List.getElem?_append_right hj2] at h2
          cases hd : j - E.node.length with
          | zero => rw [hd] at h2; right; simpa using h2.symm
          | succ n => rw [hd] at h2; simp at h2
    rcases hold with hold | rfl
    · have hj : j < E.gsId.length := h.aligned ▸ (List.getElem?_eq_some_iff.mp hold).1
      have h1' : E.gsId[j]? = some gs := by
        obtain ⟨ext, hg⟩ := hext.gs
        rw [hg, List.getElem?_append_left hj] at h1; exact h1
      obtain ⟨i2, s2, e1, e2⟩ := h.sound j gs m h1' hold v hv
      exact ⟨i2, s2, e1, hext.get e2⟩
    · simp [graphVals, lookup] at hv
  · intro i m h2 hne
    have hold : E.node[i]? = some m := by
      revert h2
      unfold Engine.index
      split
      · exact id
      · intro h2
        by_cases hj : i < E.node.length
        · rw [List.getElem?_append_left hj] at h2; exact h2
        · have hj2 : E.node.length ≤ i := Nat.le_of_not_lt hj
          rw [List.getElem?_append_right hj2] at h2
          cases hd : i - E.node.length with
          | zero => rw [hd] at h2; exact absurd (by simpa using h2.symm) hne
          | succ n => rw [hd] at h2; simp at h2
    exact linked_index g s (h.complete i m hold hne)


theorem node_push_get (E : Engine) (i : Nat) (k : Id) (x : RdfObject) (j : Nat) :
    (E.push i k x).node[j]? = if i = j then (E.node[j]?).map (mapPushIfNew k x) else E.node[j]? := by
  simp only [Engine.push, List.getElem?_modify]
  split <;> simp

theorem graphVals_mono (k : Id) (x : RdfObject) (m : NodeMap) {v : RdfObject} (hv : v ∈ graphVals m) :
    v ∈ graphVals (mapPushIfNew k x m) := by
  by_cases hk : k = kGraph
  · subst hk
    rw [graphVals_push_graph]
    exact (mem_vecPushIfNew_iff _ _ _).mpr (Or.inl hv)
  · rw [graphVals_push_other x m hk]; exact hv

theorem linked_push {E : Engine} (i : Nat) (k : Id) (x : RdfObject) {a : Nat} (h : Linked E a) :
    Linked (E.push i k x) a := by
  obtain ⟨gs, h1, h2⟩ := h
  refine ⟨gs, h1, ?_⟩
  rcases h2 with h2 | ⟨j, mj, h3, h4, h5⟩
  · exact Or.inl h2
  · by_cases hij : i = j
    · subst hij
      exact Or.inr ⟨i, mapPushIfNew k x mj, h3, by rw [node_push_get]; simp [h4], graphVals_mono k x mj h5⟩
    · exact Or.inr ⟨j, mj, h3, by rw [node_push_get]; simp [hij, h4], h5⟩

theorem valsOk_push {m : NodeMap} (hm : ValsOk m) {k : Id} {x : RdfObject} (hx : ValOk k x) :
    ValsOk (mapPushIfNew k x m) := by
  induction m with
  | nil =>
    intro k' vs' hmem
    simp only [mapPushIfNew, List.mem_singleton, Prod.mk.injEq] at hmem
    obtain ⟨rfl, rfl⟩ := hmem
    exact fun v hv => by simp at hv; subst hv; exact hx
  | cons e rest ih =>
    obtain ⟨k0, vs0⟩ := e
    have hrest : ValsOk rest := fun k' vs' h' => hm k' vs' (List.mem_cons_of_mem _ h')
    have h0 := hm k0 vs0 List.mem_cons_self
    intro k' vs' hmem
    unfold mapPushIfNew at hmem
    split at hmem
    · rename_i hkk
      have hkk' : k0 = k := by simpa using hkk
      simp only [List.mem_cons, Prod.mk.injEq] at hmem
      rcases hmem with ⟨rfl, rfl⟩ | hmem
      · intro v hv
        rcases (mem_vecPushIfNew_iff vs0 x v).mp hv with hv | rfl
        · exact h0 v hv
        · rw [hkk']; exact hx
      · exact hrest k' vs' hmem
    · simp only [List.mem_cons, Prod.mk.injEq] at hmem
      rcases hmem with ⟨rfl, rfl⟩ | hmem
      · exact h0
      · exact ih hrest k' vs' hmem

theorem ginv_maps_push {E : Engine} (h : GInv E) (i : Nat) {k : Id} {x : RdfObject} (hx : ValOk k x) :
    ∀ m ∈ (E.push i k x).node, ValsOk m := by
  intro m hm
  simp only [Engine.push] at hm
  rcases mem_modify _ _ _ _ hm with hm | ⟨m0, hm0, rfl⟩
  · exact h.maps m hm
  · exact valsOk_push (h.maps m0 hm0) hx

/-- pushing a property value (any key but `@graph`) into a slot that is linked -/
theorem ginv_push_prop {E : Engine} (h : GInv E) (i : Nat) {k : Id} {x : RdfObject} (hk : k ≠ kGraph)
    (hx : ValOk k x) (hl : Linked E i) : GInv (E.push i k x) := by
  refine ⟨push_aligned h.aligned _ _ _, h.ids, ginv_maps_push h i hx, ?_, ?_⟩
  · intro j gs m h1 h2 v hv
    rw [node_push_get] at h2
    by_cases hij : i = j
    · subst hij
      simp only [if_true] at h2
      cases hm0 : E.node[i]? with
      | none => rw [hm0] at h2; simp at h2
      | some m0 =>
        rw [hm0] at h2
        have : m = mapPushIfNew k x m0 := by simpa using h2.symm
        subst this
        rw [graphVals_push_other x m0 hk] at hv
        exact h.sound i gs m0 h1 hm0 v hv
    · simp only [hij, if_false] at h2
      exact h.sound j gs m h1 h2 v hv
  · intro a m h2 hne
    rw [node_push_get] at h2
    by_cases hia : i = a
    · subst hia; exact linked_push _ _ _ hl
    · simp only [hia, if_false] at h2
      exact linked_push _ _ _ (h.complete a m h2 hne)

theorem kGraph_ne_kType : kGraph ≠ kType := by decide

/-- the `@graph` link: slot `i` = (g, s) is listed in slot `j` = (" ", g) -/
theorem ginv_push_graph {E : Engine} (h : GInv E) {j i : Nat} {g s : Id} (hj : E.gsId[j]? = some (dflt, g))
    (hi : E.gsId[i]? = some (g, s)) (hs : (prefix2 s).isSome = true) :
    GInv (E.push j kGraph (.node i s)) ∧ Linked (E.push j kGraph (.node i s)) i := by
  have hx : ValOk kGraph (.node i s) :=
    ⟨fun hk => absurd hk kGraph_ne_kType, fun i' id hv => by cases hv; exact hs⟩
  have hjlt : j < E.node.length := h.aligned ▸ (List.getElem?_eq_some_iff.mp hj).1
  constructor
  · refine ⟨push_aligned h.aligned _ _ _, h.ids, ginv_maps_push h j hx, ?_, ?_⟩
    · intro j' gs m h1 h2 v hv
      rw [node_push_get] at h2
      by_cases hjj : j = j'
      · subst hjj
        simp only [if_true] at h2
        cases hm0 : E.node[j]? with
        | none => rw [hm0] at h2; simp at h2
        | some m0 =>
          rw [hm0] at h2
          have : m = mapPushIfNew kGraph (.node i s) m0 := by simpa using h2.symm
          subst this
          rw [graphVals_push_graph] at hv
          have hgs : gs = (dflt, g) := by
            have h1' : E.gsId[j]? = some gs := h1
            rw [hj] at h1'; exact (Option.some.inj h1').symm
          rcases (mem_vecPushIfNew_iff _ _ _).mp hv with hv | rfl
          · exact h.sound j gs m0 h1 hm0 v hv
          · exact ⟨i, s, rfl, by rw [hgs]; exact hi⟩
      · simp only [hjj, if_false] at h2
        exact h.sound j' gs m h1 h2 v hv
    · intro a m h2 hne
      rw [node_push_get] at h2
      by_cases hja : j = a
      · subst hja
        exact ⟨(dflt, g), hj, Or.inl (by simp)⟩
      · simp only [hja, if_false] at h2
        exact linked_push _ _ _ (h.complete a m h2 hne)
  · refine ⟨(g, s), hi, Or.inr ⟨j, mapPushIfNew kGraph (.node i s) E.node[j], hj, ?_, ?_⟩⟩
    · rw [node_push_get]; simp [List.getElem?_eq_getElem hjlt]
    · rw [graphVals_push_graph]
      exact (mem_vecPushIfNew_iff _ _ _).mpr (Or.inr rfl)


theorem iriAbs_ne_dflt {s : Str} (h : iriAbs s = true) : (s == dflt) = false := by
  cases hc : s == dflt
  · rfl
  · have := eq_of_beq hc
    subst this
    revert h; decide

theorem asId_ne_dflt {t : Term} (hs : isSubject t = true) (ha : termAbs t = true) : (asId t == dflt) = false := by
  cases t with
  | iri s => exact iriAbs_ne_dflt (by simpa [termAbs, asId] using ha)
  | bnode b =>
    cases hc : (asId (Term.bnode b) == dflt)
    · rfl
    · have := eq_of_beq hc
      simp [asId, dflt] at this
  | lit _ _ => simp [isSubject] at hs
  | lang _ _ => simp [isSubject] at hs
  | triple _ _ _ => simp [isSubject] at hs
  | var _ => simp [isSubject] at hs

theorem asId_prefix2 {t : Term} (hs : isSubject t = true) (ha : termAbs t = true) : (prefix2 (asId t)).isSome = true := by
  cases t with
  | iri s => exact prefix2_iriAbs (by simpa [termAbs, asId] using ha)
  | bnode b => exact startsBn_prefix2 rfl
  | lit _ _ => simp [isSubject] at hs
  | lang _ _ => simp [isSubject] at hs
  | triple _ _ _ => simp [isSubject] at hs
  | var _ => simp [isSubject] at hs

theorem ginv_noteSeed (o : Opts) (q : Quad) (i : Nat) {E : Engine} (h : GInv E) : GInv (noteSeed o q i E) := by
  unfold noteSeed
  repeat (first | exact h | exact ⟨h.aligned, h.ids, h.maps, h.sound, h.complete⟩ | split)

theorem ginv_noteParent (q : Quad) (i : Nat) {E : Engine} (h : GInv E) : GInv (noteParent q i E) := by
  unfold noteParent
  repeat (first | exact h | exact ⟨h.aligned, h.ids, h.maps, h.sound, h.complete⟩ | split)

/-- after the `index` / `@graph` link statements, the subject's slot is linked -/
theorem ginv_linkGraph {E : Engine} (h : GInv E) (q : Quad) (hj : isJsonLd q = true) (hq : quadAbs q = true) :
    GInv (linkGraph E q).1 ∧ Linked (linkGraph E q).1 (linkGraph E q).2 := by
  have hsub : isSubject q.s = true := by
    simp only [isJsonLd, Bool.and_eq_true] at hj; exact hj.1.1.1
  have hsabs : termAbs q.s = true := by
    simp only [quadAbs, Bool.and_eq_true] at hq; exact hq.1.1.1
  have hsid := asId_ne_dflt hsub hsabs
  unfold linkGraph
  cases hg : q.g with
  | none =>
    have hgid : graphId q = dflt := by simp [graphId, hg]
    refine ⟨ginv_index h _ _ hsid, ⟨(graphId q, asId q.s), index_get _ _ _, Or.inl (by simp [hgid])⟩⟩
  | some g =>
    have hgsub : isSubject g = true := by
      simp only [isJsonLd, hg, Bool.and_eq_true] at hj; exact hj.2
    have hgabs : termAbs g = true := by
      simp only [quadAbs, hg, Bool.and_eq_true] at hq; exact hq.2
    have hgid : graphId q = asId g := by simp [graphId, hg]
    have h1 := ginv_index h (graphId q) (asId q.s) hsid
    have h2 := ginv_index h1 dflt (graphId q) (by rw [hgid]; exact asId_ne_dflt hgsub hgabs)
    exact ginv_push_graph h2 (index_get _ _ _) ((index_ext _ _ _).get (index_get E _ _)) (asId_prefix2 hsub hsabs)

theorem ginv_step (o : Opts) {E : Engine} (h : GInv E) (q : Quad) (hq : quadAbs q = true) :
    GInv (processQuad o E q) := by
  by_cases hj : isJsonLd q = true
  · have hparts : isSubject q.s = true ∧ isIri q.p = true ∧ isObject q.o = true := by
      simp only [isJsonLd, Bool.and_eq_true] at hj; exact ⟨hj.1.1.1, hj.1.1.2, hj.1.2⟩
    have habs : termAbs q.s = true ∧ termAbs q.p = true ∧ termAbs q.o = true := by
      simp only [quadAbs, Bool.and_eq_true] at hq; exact ⟨hq.1.1.1, hq.1.1.2, hq.1.2⟩
    obtain ⟨h1, hl1⟩ := ginv_linkGraph h q hj hq
    have h2 : GInv ((linkGraph E q).1.makeRdfObject q.o (graphId q)).1 ∧
        Linked ((linkGraph E q).1.makeRdfObject q.o (graphId q)).1 (linkGraph E q).2 := by
      cases ho : q.o with
      | iri s =>
        simp only [Engine.makeRdfObject]
        have : termAbs (Term.iri s) = true := by rw [← ho]; exact habs.2.2
        exact ⟨ginv_index h1 _ _ (asId_ne_dflt rfl this), linked_index _ _ hl1⟩
      | bnode b =>
        simp only [Engine.makeRdfObject]
        exact ⟨ginv_index h1 _ _ (asId_ne_dflt rfl rfl), linked_index _ _ hl1⟩
      | lit l d => exact ⟨h1, hl1⟩
      | lang l t => exact ⟨h1, hl1⟩
      | triple a b c => rw [ho] at hparts; simp [isObject] at hparts
      | var v => rw [ho] at hparts; simp [isObject] at hparts
    have hk := keyPred_predKey o ((linkGraph E q).1.makeRdfObject q.o (graphId q)).2 hparts.2.1 (termAbs_ok habs.2.1)
    have hkne : predKey o q ((linkGraph E q).1.makeRdfObject q.o (graphId q)).2 ≠ kGraph := by
      intro he; rw [he] at hk; simp at hk
    have hval := valOk_predKey o (linkGraph E q).1 (graphId q) q hj hq
    have hE : processQuad o E q =
        noteParent q (linkGraph E q).2 (noteSeed o q (linkGraph E q).2
          (((linkGraph E q).1.makeRdfObject q.o (graphId q)).1.push (linkGraph E q).2
            (predKey o q ((linkGraph E q).1.makeRdfObject q.o (graphId q)).2)
            ((linkGraph E q).1.makeRdfObject q.o (graphId q)).2)) := by
      simp [processQuad, hj]
    rw [hE]
    exact ginv_noteParent _ _ (ginv_noteSeed _ _ _ (ginv_push_prop h2.1 _ hkne hval h2.2))
  · have hE : processQuad o E q = E := by simp [processQuad, hj]
    rw [hE]; exact h

theorem ginv_foldl (o : Opts) : ∀ (D : List Quad) (E : Engine), GInv E → (∀ q ∈ D, quadAbs q = true) →
    GInv (D.foldl (processQuad o) E)
  | [], _, h, _ => h
  | q :: D, E, h, hq => by
    rw [List.foldl_cons]
    exact ginv_foldl o D _ (ginv_step o h q (hq q List.mem_cons_self)) (fun x hx => hq x (List.mem_cons_of_mem _ hx))

theorem ginv_processQuads (o : Opts) (D : List Quad) (hq : ∀ q ∈ D, quadAbs q = true) : GInv (processQuads o D) :=
  ginv_foldl o D {} ginv_init hq


/-! ### rendering: root nodes and their `@graph` children -/

def childQ (E : Engine) : RdfObject → List Quad
  | .node i2 _ => slotQ E i2
  | _ => []

/-- what the root loop renders for slot `i`: nothing for a named-graph slot; for a default-graph slot its own
quads and those of the slots listed under `@graph` -/
def rootQ (E : Engine) (i : Nat) : List Quad :=
  if (E.gsId.getD i ([], [])).1 == dflt then
    slotQ E i ++ (graphVals (E.node.getD i [])).flatMap (childQ E)
  else []

theorem graphTerm_of_ne {g : Id} (h : (g == dflt) = false) : graphTerm g = some (idTerm g) := by
  simp [graphTerm, h]

/-- the literals of a map survive the `rdf_direction` option (see `LitOk`) -/
def LitsOk (o : Opts) (m : NodeMap) : Prop := ∀ k vs, (k, vs) ∈ m → k ≠ kGraph → ∀ v ∈ vs, LitOk o v

def SlotOk (o : Opts) (m : NodeMap) : Prop := ValsOk m ∧ LitsOk o m

theorem SlotOk.entries {o : Opts} {m : NodeMap} (h : SlotOk o m) :
    ∀ k vs, (k, vs) ∈ m → ∀ v ∈ vs, (k = kType → v.isNode = true) ∧
      (∀ i id, v = .node i id → (prefix2 id).isSome = true) ∧ (k ≠ kGraph → LitOk o v) :=
  fun k vs hk v hv => ⟨(h.1 k vs hk v hv).1, (h.1 k vs hk v hv).2, fun hkg => h.2 k vs hk hkg v hv⟩

/-- the `filter_map` over the `@graph` values of the node `sj` -/
theorem jsonifyGraph_rt (o : Opts) (E : Engine) (base : Str) (hd : o.dir = .compound → E.compound = [])
    (hln : E.listNode = [])
    (sj : Id) (hsj : (sj == dflt) = false) :
    ∀ (ng : List RdfObject) (n : Nat),
      (∀ v ∈ ng, ∃ i2 s2, v = .node i2 s2 ∧ E.gsId.getD i2 ([], []) = (sj, s2) ∧ SlotOk o (E.node.getD i2 [])) →
      ∃ ns, jsonifyGraph o E ng = .ok ns ∧ nodesRdf o base (some (idTerm sj)) ns n = (ng.flatMap (childQ E), n)
  | [], n, _ => ⟨[], rfl, rfl⟩
  | v :: rest, n, h => by
    obtain ⟨ns, h1, h2⟩ := jsonifyGraph_rt o E base hd hln sj hsj rest n (fun w hw => h w (List.mem_cons_of_mem _ hw))
    obtain ⟨i2, s2, rfl, hgs, hm⟩ := h v List.mem_cons_self
    unfold jsonifyGraph jsonifyInner skipped
    simp only [List.flatMap_cons, childQ, slotQ, h1]
    generalize E.node.getD i2 [] = m at hm ⊢
    rw [hgs]
    cases m with
    | nil => exact ⟨ns, by simp, by simp [slotQuads, h2]⟩
    | cons e m' =>
      obtain ⟨es, he1, he2⟩ := entries_roundtrip o E base (idTerm s2) hd hln (e :: m') n hm.entries
      refine ⟨⟨s2, es⟩ :: ns, ?_, ?_⟩
      · have hl0 : lookup s2 ([] : List (Id × Nat)) = none := rfl
        have hcc : ¬ (o.dir = .compound ∧ i2 ∈ E.compound) := fun ⟨c1, c2⟩ => by rw [hd c1] at c2; cases c2
        simp [hln, hcc, hl0, he1]
      · simp only [nodesRdf, nodeRdf, he2, h2, slotQuads_eq_triples, graphTerm_of_ne hsj]

def RootOk (o : Opts) (E : Engine) (i : Nat) : Prop :=
  SlotOk o (E.node.getD i []) ∧ ((E.gsId.getD i ([], [])).2 == dflt) = false ∧
    ∀ v ∈ graphVals (E.node.getD i []), ∃ i2 s2, v = .node i2 s2 ∧
      E.gsId.getD i2 ([], []) = ((E.gsId.getD i ([], [])).2, s2) ∧ SlotOk o (E.node.getD i2 [])

theorem jsonifyAll_rt2 (o : Opts) (E : Engine) (base : Str) (hd : o.dir = .compound → E.compound = [])
    (hln : E.listNode = []) :
    ∀ (is : List Nat) (n : Nat), (∀ i ∈ is, RootOk o E i) →
      ∃ doc, jsonifyAll o E is = .ok doc ∧ docRdf o base doc n = (is.flatMap (rootQ E), n)
  | [], n, _ => ⟨[], rfl, rfl⟩
  | i :: rest, n, h => by
    obtain ⟨doc, h1, h2⟩ := jsonifyAll_rt2 o E base hd hln rest n (fun j hj => h j (List.mem_cons_of_mem _ hj))
    obtain ⟨hm, hs, hch⟩ := h i List.mem_cons_self
    unfold jsonifyAll jsonifyRoot skipped
    simp only [List.flatMap_cons, rootQ, slotQ, h1]
    generalize E.node.getD i [] = m at hm hch ⊢
    generalize E.gsId.getD i ([], []) = gs at hs hch ⊢
    obtain ⟨g, s⟩ := gs
    simp only at hs hch ⊢
    have hl0 : lookup s ([] : List (Id × Nat)) = none := rfl
    have hcc : ¬ (o.dir = .compound ∧ i ∈ E.compound) := fun ⟨c1, c2⟩ => by rw [hd c1] at c2; cases c2
    by_cases hg : (g == dflt) = true
    · have hgd : g = dflt := eq_of_beq hg
      subst hgd
      cases m with
      | nil => exact ⟨doc, by simp, by simp [slotQuads, graphVals, lookup, h2]⟩
      | cons e m' =>
        obtain ⟨es, he1, he2⟩ := entries_roundtrip o E base (idTerm s) hd hln (e :: m') n hm.entries
        cases hlk : lookup kGraph (e :: m') with
        | none =>
          refine ⟨⟨⟨s, es⟩, none⟩ :: doc, ?_, ?_⟩
          · simp [hln, hcc, hl0, he1]
          · simp [docRdf, nodeRdf, he2, h2, slotQuads_eq_triples, graphTerm_dflt, graphVals, hlk]
        | some ng =>
          have hgv : graphVals (e :: m') = ng := by simp [graphVals, hlk]
          rw [hgv] at hch
          obtain ⟨ns, hn1, hn2⟩ := jsonifyGraph_rt o E base hd hln s hs ng n hch
          refine ⟨⟨⟨s, es⟩, some ns⟩ :: doc, ?_, ?_⟩
          · simp [hln, hcc, hl0, he1, hn1]
          · simp [docRdf, nodeRdf, he2, h2, hn2, slotQuads_eq_triples, graphTerm_dflt, hgv, List.append_assoc]
    · have hg' : (g == dflt) = false := by simpa using hg
      have hne : g ≠ dflt := by intro h0; subst h0; simp at hg'
      refine ⟨doc, ?_, ?_⟩
      · simp [hne]
      · simp [hg', h2]


theorem getD_of_getElem? {α : Type} {l : List α} {i : Nat} {x d : α} (h : l[i]? = some x) : l.getD i d = x := by
  simp [List.getD_eq_getElem?_getD, h]

theorem rootOk_of_ginv {o : Opts} {E : Engine} (h : GInv E) (hl : ∀ m ∈ E.node, LitsOk o m) {i : Nat}
    (hi : i < E.node.length) : RootOk o E i := by
  have hi2 : i < E.gsId.length := h.aligned ▸ hi
  have hn : E.node[i]? = some E.node[i] := List.getElem?_eq_getElem hi
  have hg : E.gsId[i]? = some E.gsId[i] := List.getElem?_eq_getElem hi2
  rw [RootOk, getD_of_getElem? hn, getD_of_getElem? hg]
  refine ⟨⟨h.maps _ (List.getElem_mem hi), hl _ (List.getElem_mem hi)⟩, h.ids _ (List.getElem_mem hi2), fun v hv => ?_⟩
  obtain ⟨i2, s2, rfl, h2⟩ := h.sound i _ _ hg hn v hv
  have hi2' : i2 < E.node.length := h.aligned.symm ▸ (List.getElem?_eq_some_iff.mp h2).1
  refine ⟨i2, s2, rfl, getD_of_getElem? h2, ?_⟩
  rw [getD_of_getElem? (List.getElem?_eq_getElem hi2')]
  exact ⟨h.maps _ (List.getElem_mem hi2'), hl _ (List.getElem_mem hi2')⟩

theorem mem_rootQ_iff {E : Engine} (h : GInv E) (q : Quad) :
    q ∈ (List.range E.node.length).flatMap (rootQ E) ↔ q ∈ (List.range E.node.length).flatMap (slotQ E) := by
  simp only [List.mem_flatMap, List.mem_range]
  constructor
  · rintro ⟨i, hi, hq⟩
    have hi2 : i < E.gsId.length := h.aligned ▸ hi
    have hn : E.node[i]? = some E.node[i] := List.getElem?_eq_getElem hi
    have hg : E.gsId[i]? = some E.gsId[i] := List.getElem?_eq_getElem hi2
    unfold rootQ at hq
    split at hq
    · rcases List.mem_append.mp hq with hq | hq
      · exact ⟨i, hi, hq⟩
      · obtain ⟨v, hv, hqv⟩ := List.mem_flatMap.mp hq
        rw [getD_of_getElem? hn] at hv
        obtain ⟨i2, s2, rfl, h2⟩ := h.sound i _ _ hg hn v hv
        exact ⟨i2, h.aligned.symm ▸ (List.getElem?_eq_some_iff.mp h2).1, hqv⟩
    · cases hq
  · rintro ⟨i, hi, hq⟩
    have hn : E.node[i]? = some E.node[i] := List.getElem?_eq_getElem hi
    have hne : E.node[i] ≠ [] := by
      intro h0
      simp only [slotQ, getD_of_getElem? hn, h0, slotQuads] at hq
      cases hq
    obtain ⟨gs, hg, hl⟩ := h.complete i _ hn hne
    rcases hl with hl | ⟨j, mj, hj1, hj2, hj3⟩
    · refine ⟨i, hi, ?_⟩
      unfold rootQ
      rw [getD_of_getElem? hg, hl]
      exact List.mem_append_left _ hq
    · refine ⟨j, (List.getElem?_eq_some_iff.mp hj2).1, ?_⟩
      unfold rootQ
      rw [getD_of_getElem? hj1, getD_of_getElem? hj2]
      simp only [beq_self_eq_true, if_true]
      exact List.mem_append_right _ (List.mem_flatMap.mpr ⟨_, hj3, hq⟩)

/-! ### `rdf_direction`: when the option cannot matter -/

theorem index_compound (E : Engine) (g s : Id) : (E.index g s).1.compound = E.compound := by
  unfold Engine.index; split <;> rfl

theorem linkGraph_compound (E : Engine) (q : Quad) : (linkGraph E q).1.compound = E.compound := by
  unfold linkGraph
  cases q.g with
  | none => exact index_compound _ _ _
  | some g => simp only [Engine.push]; rw [index_compound, index_compound]

theorem makeRdfObject_compound (E : Engine) (t : Term) (g : Id) : (E.makeRdfObject t g).1.compound = E.compound := by
  cases t <;> simp only [Engine.makeRdfObject] <;> first | rfl | exact index_compound _ _ _

theorem processQuad_compound (o : Opts) (E : Engine) (q : Quad) (hq : isIriC rdfDirection q.p = false) :
    (processQuad o E q).compound = E.compound := by
  unfold processQuad
  split
  · rfl
  · simp only
    have h1 : ∀ (i : Nat) (E' : Engine), (noteParent q i E').compound = E'.compound := by
      intro i E'; unfold noteParent; split <;> rfl
    have h2 : ∀ (i : Nat) (E' : Engine), (noteSeed o q i E').compound = E'.compound := by
      intro i E'; unfold noteSeed
      split
      · split
        · rfl
        · split
          · rename_i hc; simp [hq] at hc
          · rfl
      · rfl
    rw [h1, h2]
    simp only [Engine.push]
    rw [makeRdfObject_compound, linkGraph_compound]

theorem nodir_no_compound (o : Opts) (D : List Quad) (h : ∀ q ∈ D, isIriC rdfDirection q.p = false) :
    (processQuads o D).compound = [] := by
  have : ∀ (D : List Quad) (E : Engine), (∀ q ∈ D, isIriC rdfDirection q.p = false) →
      (D.foldl (processQuad o) E).compound = E.compound := by
    intro D
    induction D with
    | nil => intro E _; rfl
    | cons q D ih =>
      intro E hD
      rw [List.foldl_cons, ih _ (fun x hx => hD x (List.mem_cons_of_mem _ hx)),
        processQuad_compound o E q (hD q List.mem_cons_self)]
  exact this D {} h

theorem mkQuad_mem_slotQuads (gs : Id × Id) {k : Id} {vs : List RdfObject} {v : RdfObject} (hk : k ≠ kGraph)
    (hv : v ∈ vs) : ∀ m : NodeMap, (k, vs) ∈ m → mkQuad gs k v ∈ slotQuads gs m
  | [], h => by cases h
  | (k0, vs0) :: rest, h => by
    simp only [slotQuads, List.mem_append]
    rcases List.mem_cons.mp h with h | h
    · injection h with h1 h2
      subst h1; subst h2
      left
      have : (k == kGraph) = false := by
        cases hc : k == kGraph
        · rfl
        · exact absurd (eq_of_beq hc) hk
      simp only [this, Bool.false_eq_true, if_false]
      exact List.mem_map.mpr ⟨v, hv, rfl⟩
    · exact Or.inr (mkQuad_mem_slotQuads gs hk hv rest h)

/-- every literal the engine holds is the object of an input quad -/
theorem stored_typed_from_input {E : Engine} (ha : Aligned E) {m : NodeMap} (hm : m ∈ E.node) {k : Id}
    {vs : List RdfObject} (hk : (k, vs) ∈ m) (hkg : k ≠ kGraph) {lex dt : Str} (hv : RdfObject.typed lex dt ∈ vs) :
    ∃ q, Denotes E q ∧ q.o = .lit lex dt := by
  obtain ⟨i, hi, rfl⟩ := List.mem_iff_getElem.mp hm
  have hi2 : i < E.gsId.length := ha ▸ hi
  exact ⟨mkQuad E.gsId[i] k (.typed lex dt),
    ⟨i, E.gsId[i], E.node[i], List.getElem?_eq_getElem hi2, List.getElem?_eq_getElem hi,
      mkQuad_mem_slotQuads _ hkg hv _ hk⟩, rfl⟩

end SophiaProofs.JsonLdLemmas
