/-
C17 lemma library, part 7: the path branches under an INPUT-side condition (`cleanSuffixes`, `pathInputCase` in
Model/Relativize.lean) instead of a condition on the emitted tail.
-/
import SophiaProofs.Lemmas.RelativizePath
import SophiaProofs.Lemmas.RelativizeUtf8

namespace SophiaProofs.Relativize
open SophiaModel SophiaModel.Rfc3986 SophiaModel.Relativize

theorem lcp_get {a b : Octets} {k : Nat} (h : k < lcp a b) : b[k]? = a[k]? := by
  have ht := lcp_take (a := a) (b := b) (k := k + 1) (by omega)
  have h1 : (a.take (k + 1))[k]? = a[k]? := by simp
  have h2 : (b.take (k + 1))[k]? = b[k]? := by simp
  rw [← h1, ← h2, ht]

theorem tp_nonempty {t : Octets} (h1 : t ≠ []) (h2 : startsQH t = false) : (spanNot ['?', '#'] t).1 ≠ [] := by
  cases t with
  | nil => exact absurd rfl h1
  | cons c r =>
    unfold spanNot
    split
    · rename_i hc
      simp at hc
      rcases hc with rfl | rfl <;> simp [startsQH] at h2
    · simp

theorem cleanTail_of_cleanRel {ins : Ins} {t : Octets} (hr : cleanRel t = true)
    (hins : (∃ k, ins = .up k ∧ 1 ≤ k) ∨ ins = .dotSlash ∨ (ins = .nothing ∧ t ≠ [] ∧ startsQH t = false)) :
    cleanTail ins t = true := by
  unfold cleanRel at hr
  simp only [Bool.and_eq_true, Bool.or_eq_true] at hr
  obtain ⟨hnd, hrest⟩ := hr
  unfold cleanTail
  rcases hins with ⟨k, rfl, hk⟩ | rfl | ⟨rfl, hne, hq⟩
  · show (noDotSegs (spanNot ['?', '#'] t).1 && decide (k ≥ 1)) = true
    rw [hnd]; simpa using hk
  · show (noDotSegs (spanNot ['?', '#'] t).1 && true) = true
    rw [hnd]; rfl
  · have := tp_nonempty hne hq
    rcases hrest with he | hrest
    · simp at he; exact absurd he this
    · show (noDotSegs (spanNot ['?', '#'] t).1 && (!(spanNot ['?', '#'] t).1.isEmpty &&
          !startsWith '/' (spanNot ['?', '#'] t).1 && !startsWith ':' (spanNot [':', '/', '?', '#'] t).2)) = true
      have he : (!(spanNot ['?', '#'] t).1.isEmpty) = true := by simpa using this
      rw [hnd, he, hrest.1, hrest.2]; rfl


theorem base_get_cut {base : Octets} {c k : Nat} (hcut : CutOK (preStr (split base)) (split base).path c k) :
    base[c - 1]? = some '/' := by
  obtain ⟨h1, h2, h3, _⟩ := hcut
  have hd := base_decomp base
  have hg := get_path (preStr (split base)) (split base).path (queryStr (split base) ++ fragStr (split base))
    (c - (preStr (split base)).length - 1) '/' h3
  rw [← List.append_assoc, ← hd] at hg
  rwa [show (preStr (split base)).length + (c - (preStr (split base)).length - 1) = c - 1 by omega] at hg

theorem drop_ne_nil {l : Octets} {k : Nat} (h1 : k ≤ l.length) (h2 : l.length ≠ k) : l.drop k ≠ [] := by
  intro h
  have := congrArg List.length h
  simp at this
  omega

theorem count_drop_mono (P : Octets) {a b : Nat} (h : a ≤ b) : (P.drop b).count '/' ≤ (P.drop a).count '/' := by
  have : P.drop a = (P.drop a).take (b - a) ++ P.drop b := by
    have h1 := (List.take_append_drop (b - a) (P.drop a)).symm
    rw [List.drop_drop, show a + (b - a) = b by omega] at h1
    exact h1
  rw [this, List.count_append]
  omega

/-- cuts with fewer base slashes after them lie further right -/
theorem cut_order {S P : Octets} {c1 k1 c2 k2 : Nat} (h1 : CutOK S P c1 k1) (h2 : CutOK S P c2 k2) (hk : k1 < k2) :
    c2 ≤ c1 := by
  apply Nat.le_of_not_gt
  intro hlt
  have := count_drop_mono P (a := c1 - S.length) (b := c2 - S.length) (by omega)
  rw [h1.2.2.2, h2.2.2.2] at this
  omega

/-- `pathBranch_cut` with the INPUT-side condition `hclean` turned into `cleanTail` of the emitted tail -/
theorem pathBranch_cut_clean {base : Octets} {n : Nat} {iri : Octets} {ins : Ins} {t : Octets}
    (hs : (split base).scheme.isSome)
    (h : pathBranch (new base n) iri (lcp base iri) = .some ins t)
    (hpr : (new base n).pseudoroot > (preStr (split base)).length)
    (hclean : ∀ c, (new base n).pseudoroot ≤ c → (preStr (split base)).length < c → c ≤ lcp base iri →
      base[c - 1]? = some '/' → cleanRel (iri.drop c) = true) :
    ∃ c k, CutOK (preStr (split base)) (split base).path c k ∧ c ≤ lcp base iri ∧ t = iri.drop c ∧ InsOK ins k t ∧
      cleanTail ins t = true := by
  obtain ⟨cuts1, cuts2⟩ := new_cuts base n hs
  obtain ⟨hl, hc⟩ := pathBranch_cases h
  have hli := lcp_le_right base iri
  have clean_at : ∀ c k, CutOK (preStr (split base)) (split base).path c k → (new base n).pseudoroot ≤ c →
      c ≤ lcp base iri → cleanRel (iri.drop c) = true := by
    intro c k hcut hge hle
    exact hclean c hge hcut.1 hle (base_get_cut hcut)
  have hcutpr := cuts2 hpr
  have slash_ge : ∀ (nb slash : Nat), (new base n).slashes[nb]? = some slash → (new base n).pseudoroot ≤ slash + 1 := by
    intro nb slash hget
    have hlt : nb < (new base n).slashes.length := (List.getElem?_eq_some_iff.mp hget).1
    exact cut_order (cuts1 nb slash hget) hcutpr hlt
  rcases hc with ⟨slash, hfb, hsl, hi⟩ | ⟨nb, slash, hnb, hfb, hsl, hi⟩ | ⟨_, hemp, t1, hsl1, hsl, hi⟩ | ⟨_, hne, hsl, hi⟩
  · obtain ⟨_, _, hget, hgt, _⟩ := firstBelow_bounds hfb
    have hcut := cuts1 0 slash (by simpa using hget)
    have ht := sliceFrom_some hsl
    have hcl := clean_at _ _ hcut (slash_ge 0 slash (by simpa using hget)) (by omega)
    rw [← ht] at hcl
    refine ⟨slash + 1, 0, hcut, by omega, ht, ?_, ?_⟩
    · split at hi
      · rename_i hcond
        right; left
        refine ⟨rfl, hi, ?_⟩
        simp only [Bool.or_eq_true, decide_eq_true_eq] at hcond
        rcases hcond with hlen | hq
        · left; rw [ht]; exact drop_eq_nil_of_length hlen
        · right; exact hq
      · right; right; exact ⟨rfl, hi⟩
    · apply cleanTail_of_cleanRel hcl
      split at hi
      · right; left; exact hi
      · rename_i hcond
        right; right
        simp only [Bool.or_eq_true, decide_eq_true_eq, not_or] at hcond
        refine ⟨hi, ?_, by simpa using hcond.2⟩
        rw [ht]; exact drop_ne_nil (by omega) hcond.1
  · obtain ⟨_, _, hget, hgt, _⟩ := firstBelow_bounds hfb
    have hcut := cuts1 nb slash (by simpa using hget)
    have ht := sliceFrom_some hsl
    have hcl := clean_at _ _ hcut (slash_ge nb slash (by simpa using hget)) (by omega)
    rw [← ht] at hcl
    refine ⟨slash + 1, nb, hcut, by omega, ht, ?_, ?_⟩
    · left; exact ⟨hi, by omega⟩
    · exact cleanTail_of_cleanRel hcl (Or.inl ⟨nb, hi, by omega⟩)
  · have ht := sliceFrom_some hsl
    have ht1 := sliceFrom_some hsl1
    have hcut : CutOK (preStr (split base)) (split base).path (new base n).pseudoroot 0 := by
      simpa [hemp] using cuts2 hpr
    have hcl := clean_at _ _ hcut (Nat.le_refl _) hl
    rw [← ht] at hcl
    -- the octet before pseudoroot is the '/' of the base, also in the IRI
    have hslash : startsSlash t1 = true := by
      have hb := base_get_cut hcut
      have hi' : iri[(new base n).pseudoroot - 1]? = some '/' := by
        rw [lcp_get (a := base) (b := iri) (by omega)]; exact hb
      rw [ht1]
      have : (iri.drop ((new base n).pseudoroot - 1))[0]? = some '/' := by
        rw [List.getElem?_drop]; simpa using hi'
      cases hd : iri.drop ((new base n).pseudoroot - 1) with
      | nil => rw [hd] at this; simp at this
      | cons x xs => rw [hd] at this; simp at this; subst this; rfl
    refine ⟨(new base n).pseudoroot, 0, hcut, hl, ht, ?_, ?_⟩
    · split at hi
      · rename_i hcond
        right; left
        refine ⟨rfl, hi, ?_⟩
        simp only [Bool.and_eq_true, Bool.or_eq_true, decide_eq_true_eq] at hcond
        rcases hcond.2 with hlen | hq
        · left; rw [ht]; exact drop_eq_nil_of_length hlen
        · right; exact hq
      · right; right; exact ⟨rfl, hi⟩
    · apply cleanTail_of_cleanRel hcl
      split at hi
      · right; left; exact hi
      · rename_i hcond
        right; right
        simp only [hslash, Bool.true_and, Bool.or_eq_true, decide_eq_true_eq, not_or] at hcond
        refine ⟨hi, ?_, by simpa using hcond.2⟩
        rw [ht]; exact drop_ne_nil (by omega) hcond.1
  · have ht := sliceFrom_some hsl
    have hcut := cuts2 hpr
    have hcl := clean_at _ _ hcut (Nat.le_refl _) hl
    rw [← ht] at hcl
    have hlen : 1 ≤ (new base n).slashes.length := by
      cases hsl' : (new base n).slashes with
      | nil => exact absurd hsl' hne
      | cons a b => simp
    refine ⟨(new base n).pseudoroot, (new base n).slashes.length, hcut, hl, ht, ?_, ?_⟩
    · left; exact ⟨hi, hlen⟩
    · exact cleanTail_of_cleanRel hcl (Or.inl ⟨_, hi, hlen⟩)


theorem cleanSuffixes_spec {lo : Nat} {base iri : Octets} (hs : (split base).scheme.isSome)
    (h : cleanSuffixes lo base iri = true) :
    ∀ c, lo ≤ c → (preStr (split base)).length < c → c ≤ lcp base iri → base[c - 1]? = some '/' →
      cleanRel (iri.drop c) = true := by
  intro c h0 h1 h2 h3
  unfold cleanSuffixes at h
  simp only [List.all_eq_true, List.mem_range] at h
  have := h c (by omega)
  rw [pathBegin_eq hs] at this
  simpa [h0, h1, h3] using this

/-- a rooted base path puts `pseudoroot` strictly inside the path -/
theorem pseudoroot_gt_of_rooted {base : Octets} (n : Nat) (hs : (split base).scheme.isSome)
    (hroot : startsSlash (split base).path = true) : (new base n).pseudoroot > (preStr (split base)).length := by
  obtain ⟨P', hP⟩ : ∃ P', (split base).path = '/' :: P' := by
    cases hp : (split base).path with
    | nil => rw [hp] at hroot; simp [startsSlash] at hroot
    | cons x xs =>
      rw [hp] at hroot
      unfold startsSlash at hroot
      split at hroot
      · rename_i heq; injection heq with h1 h2; subst h1; exact ⟨xs, rfl⟩
      · cases hroot
  have hd := base_decomp base
  rcases new_pseudoroot_cases base n hs with h | ⟨_, h⟩
  · exact h
  · rw [List.append_assoc, List.append_assoc] at hd
    rw [drop_of_decomp hd, hP] at h
    simp [startsSlash] at h

/-- `inverse_path_input` with `pseudoroot` inside the path instead of a rooted path (covers rootless bases too) -/
theorem inverse_path_input {base : Octets} {n : Nat} {iri : Octets}
    (hs : (split base).scheme.isSome) (hb : utf8Shaped 0 base = true) (hi : utf8Shaped 0 iri = true)
    (hbd : noDotSegs (split base).path = true)
    (hpr : (new base n).pseudoroot > (preStr (split base)).length)
    (hl0 : lcp base iri ≥ (new base n).pseudoroot) (hl1 : lcp base iri ≤ (new base n).path_end)
    (hl2 : lcp base iri < (new base n).query_end)
    (hl3 : lcp base iri < (new base n).path_end ∨
      (iri.length ≠ (new base n).path_end ∧ startsQH (iri.drop (new base n).path_end) = false))
    (hclean : cleanSuffixes (new base n).pseudoroot base iri = true) :
    ∃ ins t, relativize (new base n) iri = .some ins t ∧ resolve base (ins.str ++ t) = iri ∧
      (split (ins.str ++ t)).scheme = none ∧ (split (ins.str ++ t)).authority = none ∧
      countDotDot (ins.str ++ t) ≤ n := by
  have hbase := new_base base n
  have hpne : (split base).path ≠ [] := by
    intro hp
    have := (new_empty_path base n hs hp).2.1
    omega
  have hx : authEndsMultibyteNoPath base = false := by
    unfold authEndsMultibyteNoPath
    cases hp : (split base).path with
    | nil => exact absurd hp hpne
    | cons x xs => simp only [hp]; cases (split base).authority <;> simp
  have h1 : relativize (new base n) iri ≠ .none := some_inside (by rw [hbase]; exact hl0)
  have h2 := no_panic_utf8 (n := n) hs hb hi hx
  cases h : relativize (new base n) iri with
  | panic => exact absurd h h2
  | none => exact absurd h h1
  | some ins t =>
    refine ⟨ins, t, rfl, ?_⟩
    have hpe := new_path_end base n hs
    have hqe := new_query_end base n hs
    have hle : (new base n).path_end ≤ (new base n).query_end := by
      rw [hpe, hqe]; simp [List.length_append]
    rcases relativize_cases h with ⟨_, c1, _⟩ | ⟨_, _, c2, _⟩ | ⟨_, _, c3, hsl, hq⟩ | ⟨_, _, _, hp⟩
    · rw [hbase] at c1; omega
    · rw [hbase] at c2; omega
    · rw [hbase] at c3
      rcases hl3 with hlt | ⟨hne, hnq⟩
      · omega
      · rcases hq with hq | hq
        · exact absurd hq hne
        · rw [sliceFrom_some hsl, hnq] at hq; cases hq
    · rw [hbase] at hp
      obtain ⟨c, k, hcut, hcl, ht, hins, hct⟩ := pathBranch_cut_clean hs hp hpr (cleanSuffixes_spec hs hclean)
      have hiri := iri_of_cut hcl
      rw [← ht] at hiri
      obtain ⟨r1, r2, r3, r4⟩ := core hbd hcut hiri hins hct
      refine ⟨r1, r2, r3, ?_⟩
      rw [r4]
      cases ins with
      | nothing => simp [insUps]
      | dotSlash => simp [insUps]
      | up j => exact (inserted_le h).2

/-- the directory-extension case from the inputs -/
theorem inverse_extension_input {base : Octets} {n : Nat} {iri : Octets}
    (hb : utf8Shaped 0 base = true) (hi : utf8Shaped 0 iri = true) (hc : extInputCase base n iri = true) :
    ∃ ins t, relativize (new base n) iri = .some ins t ∧ resolve base (ins.str ++ t) = iri ∧
      (split (ins.str ++ t)).scheme = none ∧ (split (ins.str ++ t)).authority = none ∧
      countDotDot (ins.str ++ t) ≤ n := by
  unfold extInputCase at hc
  simp only [Bool.and_eq_true, decide_eq_true_eq, beq_iff_eq, Bool.not_eq_true', List.isEmpty_eq_false_iff] at hc
  obtain ⟨⟨⟨⟨⟨⟨⟨hs, hbd⟩, hq⟩, hdir⟩, hl⟩, hcr⟩, hne⟩, hqh⟩ := hc
  have hbase := new_base base n
  obtain ⟨bqe, _⟩ := new_qe_pe_boundary base n hs
  have h : relativize (new base n) iri = .some .nothing (iri.drop (new base n).query_end) := by
    unfold relativize
    simp only [hbase, hl, if_true]
    rw [withSlice_of_boundary (icb_transfer hb hi hl bqe)]
  have hct : cleanTail .nothing (iri.drop (new base n).query_end) = true :=
    cleanTail_of_cleanRel hcr (Or.inr (Or.inr ⟨rfl, hne, hqh⟩))
  obtain ⟨r1, r2, r3, r4⟩ := inverse_extension hs hbd h hl (by simpa using hq) hdir hct
  exact ⟨_, _, h, r1, r2, r3, by rw [r4]; simp [insUps]⟩


theorem lcp_self_append' (x a b : Octets) : lcp (x ++ a) (x ++ b) ≥ x.length := by
  rw [lcp_append_left]; omega

/-- same document from the inputs: `cleanCase` holds (regions Q / F) -/
theorem same_doc_clean {base : Octets} {n : Nat} {iri : Octets} {t : Octets}
    (hs : (split base).scheme.isSome)
    (h1 : (split iri).scheme = (split base).scheme) (h2 : (split iri).authority = (split base).authority)
    (h3 : (split iri).path = (split base).path)
    (hq : (split iri).query = (split base).query ∨ (split base).query = none ∨
      ((split iri).query.isSome ∧ lcp base iri < (new base n).query_end))
    (ht : relativize (new base n) iri = .some .nothing t) :
    cleanCase base n iri = true := by
  have hpe := new_path_end base n hs
  have hqe := new_query_end base n hs
  have hd := base_decomp base
  have hdi := base_decomp iri
  have hpre : preStr (split iri) = preStr (split base) := by
    simp [preStr, schemeStr, authStr, h1, h2]
  rw [hpre, h3] at hdi
  have hlp : lcp base iri ≥ (new base n).path_end := by
    rw [hpe]; conv => lhs; rw [hd, hdi]
    rw [List.append_assoc, List.append_assoc _ _ (fragStr (split iri))]
    exact lcp_self_append' _ _ _
  have hdropp : iri.drop (new base n).path_end = queryStr (split iri) ++ fragStr (split iri) := by
    rw [hpe]; conv => lhs; rw [hdi]
    rw [List.append_assoc, List.drop_left]
  unfold cleanCase
  simp only [ht, hs, Bool.true_and]
  rcases hq with hq | hq | ⟨hqi, hlt⟩
  · have hQ : queryStr (split iri) = queryStr (split base) := by simp [queryStr, hq]
    rw [hQ] at hdi
    have hl : lcp base iri ≥ (new base n).query_end := by
      rw [hqe]; conv => lhs; rw [hd, hdi]
      exact lcp_self_append' _ _ _
    have hdrop : iri.drop (new base n).query_end = fragStr (split iri) := by
      rw [hqe]; conv => lhs; rw [hdi]
      rw [List.drop_left]
    have hF : ((iri.drop (new base n).query_end).isEmpty || startsWith '#' (iri.drop (new base n).query_end)) = true := by
      rw [hdrop]; unfold fragStr fragO
      cases (split iri).fragment <;> simp [startsWith]
    simp [hl, hF]
  · have hQb : queryStr (split base) = [] := by simp [queryStr, queryO, hq]
    have hqp : (new base n).query_end = (new base n).path_end := by rw [hqe, hpe, hQb]; simp
    cases hqi : (split iri).query with
    | none =>
      have hF : ((iri.drop (new base n).query_end).isEmpty || startsWith '#' (iri.drop (new base n).query_end)) = true := by
        rw [hqp, hdropp]; unfold queryStr fragStr queryO fragO
        rw [hqi]
        cases (split iri).fragment <;> simp [startsWith]
      have hl' : lcp base iri ≥ (new base n).query_end := by rw [hqp]; exact hlp
      simp [hl', hF]
    | some q =>
      have hQ : startsWith '?' (iri.drop (new base n).path_end) = true := by
        rw [hdropp]; unfold queryStr queryO; rw [hqi]; simp [startsWith]
      simp [hlp, hQ, hq]
  · have hQ : startsWith '?' (iri.drop (new base n).path_end) = true := by
      rw [hdropp]; unfold queryStr queryO
      cases hq' : (split iri).query with
      | none => rw [hq'] at hqi; cases hqi
      | some q => simp [startsWith]
    simp [hlp, hQ, hlt]


/-- with an empty base path every branch emits the IRI from the end of the authority on -/
theorem empty_path_tail {base : Octets} {n : Nat} {iri : Octets} {ins : Ins} {t : Octets}
    (hs : (split base).scheme.isSome) (hp : (split base).path = [])
    (h : relativize (new base n) iri = .some ins t)
    (hreg : (lcp base iri ≥ (new base n).query_end ∧ (split base).query = none) ∨
      (lcp base iri < (new base n).query_end ∧ lcp base iri ≤ (new base n).path_end)) :
    t = iri.drop (preStr (split base)).length := by
  have hbase := new_base base n
  obtain ⟨hsl0, hpr, hpe⟩ := new_empty_path base n hs hp
  have hqe := new_query_end base n hs
  rcases relativize_cases h with ⟨_, h1, hsl⟩ | ⟨_, h2a, h2, _⟩ | ⟨_, _, _, hsl, _⟩ | ⟨_, _, _, hpb⟩
  · rw [hbase] at h1
    rcases hreg with ⟨_, hq⟩ | ⟨hlt, _⟩
    · have hqe' : (new base n).query_end = (preStr (split base)).length := by
        rw [hqe, hp]; simp [queryStr, queryO, hq]
      rw [← hqe']; exact sliceFrom_some hsl
    · omega
  · rw [hbase] at h2 h2a
    rcases hreg with ⟨hge, hq⟩ | ⟨_, hle⟩
    · have : (new base n).query_end = (new base n).path_end := by
        rw [hqe, hpe, hp]; simp [queryStr, queryO, hq]
      omega
    · omega
  · rw [← hpe]; exact sliceFrom_some hsl
  · rw [hbase] at hpb
    obtain ⟨hl, hc⟩ := pathBranch_cases hpb
    rw [hsl0] at hc
    rcases hc with ⟨slash, hfb, _⟩ | ⟨nb, slash, _, hfb, _⟩ | ⟨_, _, t1, _, hsl, _⟩ | ⟨_, hne, _⟩
    · simp [firstBelow] at hfb
    · simp [firstBelow] at hfb
    · rw [← hpr]; exact sliceFrom_some hsl
    · exact absurd rfl hne

theorem inverse_empty_path_input {base : Octets} {n : Nat} {iri : Octets}
    (hb : utf8Shaped 0 base = true) (hi : utf8Shaped 0 iri = true) (hc : emptyPathInputCase base n iri = true) :
    ∃ ins t, relativize (new base n) iri = .some ins t ∧ resolve base (ins.str ++ t) = iri ∧
      (split (ins.str ++ t)).scheme = none ∧ (split (ins.str ++ t)).authority = none ∧
      countDotDot (ins.str ++ t) ≤ n := by
  unfold emptyPathInputCase at hc
  simp only [Bool.and_eq_true, Bool.or_eq_true, decide_eq_true_eq, Bool.not_eq_true', List.isEmpty_iff,
    Option.isNone_iff_eq_none] at hc
  obtain ⟨⟨⟨⟨⟨⟨⟨hs, hp⟩, hx⟩, hl⟩, hreg⟩, ht1⟩, ht2⟩, hnd⟩ := hc
  rw [pathBegin_eq hs] at hl ht1 ht2 hnd
  have hbase := new_base base n
  obtain ⟨_, hpr, _⟩ := new_empty_path base n hs hp
  have h1 : relativize (new base n) iri ≠ .none := some_inside (by rw [hbase, hpr]; exact hl)
  have h2 := no_panic_utf8 (n := n) hs hb hi hx
  cases h : relativize (new base n) iri with
  | panic => exact absurd h h2
  | none => exact absurd h h1
  | some ins t =>
    have htd := empty_path_tail hs hp h hreg
    rw [← htd] at ht1 ht2 hnd
    obtain ⟨t', ht'⟩ := startsWith_cons ht1
    have ht2' : startsWith '/' t' = false := by rw [ht'] at ht2; simpa using ht2
    obtain ⟨r1, r2, r3, r4⟩ := inverse_empty_path hs hp h hreg t' ht' ht2' hnd
    refine ⟨ins, t, rfl, r1, r2, r3, ?_⟩
    rw [r4]
    cases ins with
    | nothing => simp [insUps]
    | dotSlash => simp [insUps]
    | up j => exact (inserted_le h).2

end SophiaProofs.Relativize
