/-
C17 lemma library, part 7: the path branches under an INPUT-side condition (`cleanSuffixes`, `pathInputCase` in
Model/Relativize.lean) instead of a condition on the emitted tail.
-/
import SophiaProofs.Lemmas.RelativizePath
import SophiaProofs.Lemmas.RelativizeUtf8

namespace SophiaProofs.Relativize
open SophiaModel SophiaModel.Rfc3986 SophiaModel.Relativize

theorem lcp_get {a b : Octets} {k : Nat} (h : k < lcp a b) : b[k]? = a[k]? := by
  have ht := lcp_take (a := a) (b := b) (k := k + 1) (by omega)
  have h1 : (a.take (k + 1))[k]? = a[k]? := by simp
  have h2 : (b.take (k + 1))[k]? = b[k]? := by simp
  rw [← h1, ← h2, ht]

theorem tp_nonempty {t : Octets} (h1 : t ≠ []) (h2 : startsQH t = false) : (spanNot ['?', '#'] t).1 ≠ [] := by
  cases t with
  | nil => exact absurd rfl h1
  | cons c r =>
    unfold spanNot
    split
    · rename_i hc
      simp at hc
      rcases hc with rfl | rfl <;> simp [startsQH] at h2
    · simp

theorem cleanTail_of_cleanRel {ins : Ins} {t : Octets} (hr : cleanRel t = true)
    (hins : (∃ k, ins = .up k ∧ 1 ≤ k) ∨ ins = .dotSlash ∨ (ins = .nothing ∧ t ≠ [] ∧ startsQH t = false)) :
    cleanTail ins t = true := by
  unfold cleanRel at hr
  simp only [Bool.and_eq_true, Bool.or_eq_true] at hr
  obtain ⟨hnd, hrest⟩ := hr
  unfold cleanTail
  rcases hins with ⟨k, rfl, hk⟩ | rfl | ⟨rfl, hne, hq⟩
  · show (noDotSegs (spanNot ['?', '#'] t).1 && decide (k ≥ 1)) = true
    rw [hnd]; simpa using hk
  · show (noDotSegs (spanNot ['?', '#'] t).1 && true) = true
    rw [hnd]; rfl
  · have := tp_nonempty hne hq
    rcases hrest with he | hrest
    · simp at he; exact absurd he this
    · show (noDotSegs (spanNot ['?', '#'] t).1 && (!(spanNot ['?', '#'] t).1.isEmpty &&
          !startsWith '/' (spanNot ['?', '#'] t).1 && !startsWith ':' (spanNot [':', '/', '?', '#'] t).2)) = true
      have he : (!(spanNot ['?', '#'] t).1.isEmpty) = true := by simpa using this
      rw [hnd, he, hrest.1, hrest.2]; rfl


theorem base_get_cut {base : Octets} {c k : Nat} (hcut : CutOK (preStr (split base)) (split base).path c k) :
    base[c - 1]? = some '/' := by
  obtain ⟨h1, h2, h3, _⟩ := hcut
  have hd := base_decomp base
  have hg := get_path (preStr (split base)) (split base).path (queryStr (split base) ++ fragStr (split base))
    (c - (preStr (split base)).length - 1) '/' h3
  rw [← List.append_assoc, ← hd] at hg
  rwa [show (preStr (split base)).length + (c - (preStr (split base)).length - 1) = c - 1 by omega] at hg

theorem drop_ne_nil {l : Octets} {k : Nat} (h1 : k ≤ l.length) (h2 : l.length ≠ k) : l.drop k ≠ [] := by
  intro h
  have := congrArg List.length h
  simp at this
  omega

/-- `pathBranch_cut` with the INPUT-side condition `hclean` turned into `cleanTail` of the emitted tail -/
theorem pathBranch_cut_clean {base : Octets} {n : Nat} {iri : Octets} {ins : Ins} {t : Octets}
    (hs : (split base).scheme.isSome)
    (h : pathBranch (new base n) iri (lcp base iri) = .some ins t)
    (hpr : (new base n).pseudoroot > (preStr (split base)).length)
    (hclean : ∀ c, (preStr (split base)).length < c → c ≤ lcp base iri → base[c - 1]? = some '/' →
      cleanRel (iri.drop c) = true) :
    ∃ c k, CutOK (preStr (split base)) (split base).path c k ∧ c ≤ lcp base iri ∧ t = iri.drop c ∧ InsOK ins k t ∧
      cleanTail ins t = true := by
  obtain ⟨cuts1, cuts2⟩ := new_cuts base n hs
  obtain ⟨hl, hc⟩ := pathBranch_cases h
  have hli := lcp_le_right base iri
  have clean_at : ∀ c k, CutOK (preStr (split base)) (split base).path c k → c ≤ lcp base iri →
      cleanRel (iri.drop c) = true := by
    intro c k hcut hle
    exact hclean c hcut.1 hle (base_get_cut hcut)
  rcases hc with ⟨slash, hfb, hsl, hi⟩ | ⟨nb, slash, hnb, hfb, hsl, hi⟩ | ⟨_, hemp, t1, hsl1, hsl, hi⟩ | ⟨_, hne, hsl, hi⟩
  · obtain ⟨_, _, hget, hgt, _⟩ := firstBelow_bounds hfb
    have hcut := cuts1 0 slash (by simpa using hget)
    have ht := sliceFrom_some hsl
    have hcl := clean_at _ _ hcut (by omega)
    rw [← ht] at hcl
    refine ⟨slash + 1, 0, hcut, by omega, ht, ?_, ?_⟩
    · split at hi
      · rename_i hcond
        right; left
        refine ⟨rfl, hi, ?_⟩
        simp only [Bool.or_eq_true, decide_eq_true_eq] at hcond
        rcases hcond with hlen | hq
        · left; rw [ht]; exact drop_eq_nil_of_length hlen
        · right; exact hq
      · right; right; exact ⟨rfl, hi⟩
    · apply cleanTail_of_cleanRel hcl
      split at hi
      · right; left; exact hi
      · rename_i hcond
        right; right
        simp only [Bool.or_eq_true, decide_eq_true_eq, not_or] at hcond
        refine ⟨hi, ?_, by simpa using hcond.2⟩
        rw [ht]; exact drop_ne_nil (by omega) hcond.1
  · obtain ⟨_, _, hget, hgt, _⟩ := firstBelow_bounds hfb
    have hcut := cuts1 nb slash (by simpa using hget)
    have ht := sliceFrom_some hsl
    have hcl := clean_at _ _ hcut (by omega)
    rw [← ht] at hcl
    refine ⟨slash + 1, nb, hcut, by omega, ht, ?_, ?_⟩
    · left; exact ⟨hi, by omega⟩
    · exact cleanTail_of_cleanRel hcl (Or.inl ⟨nb, hi, by omega⟩)
  · have ht := sliceFrom_some hsl
    have ht1 := sliceFrom_some hsl1
    have hcut : CutOK (preStr (split base)) (split base).path (new base n).pseudoroot 0 := by
      simpa [hemp] using cuts2 hpr
    have hcl := clean_at _ _ hcut hl
    rw [← ht] at hcl
    -- the octet before pseudoroot is the '/' of the base, also in the IRI
    have hslash : startsSlash t1 = true := by
      have hb := base_get_cut hcut
      have hi' : iri[(new base n).pseudoroot - 1]? = some '/' := by
        rw [lcp_get (a := base) (b := iri) (by omega)]; exact hb
      rw [ht1]
      have : (iri.drop ((new base n).pseudoroot - 1))[0]? = some '/' := by
        rw [List.getElem?_drop]; simpa using hi'
      cases hd : iri.drop ((new base n).pseudoroot - 1) with
      | nil => rw [hd] at this; simp at this
      | cons x xs => rw [hd] at this; simp at this; subst this; rfl
    refine ⟨(new base n).pseudoroot, 0, hcut, hl, ht, ?_, ?_⟩
    · split at hi
      · rename_i hcond
        right; left
        refine ⟨rfl, hi, ?_⟩
        simp only [Bool.and_eq_true, Bool.or_eq_true, decide_eq_true_eq] at hcond
        rcases hcond.2 with hlen | hq
        · left; rw [ht]; exact drop_eq_nil_of_length hlen
        · right; exact hq
      · right; right; exact ⟨rfl, hi⟩
    · apply cleanTail_of_cleanRel hcl
      split at hi
      · right; left; exact hi
      · rename_i hcond
        right; right
        simp only [hslash, Bool.true_and, Bool.or_eq_true, decide_eq_true_eq, not_or] at hcond
        refine ⟨hi, ?_, by simpa using hcond.2⟩
        rw [ht]; exact drop_ne_nil (by omega) hcond.1
  · have ht := sliceFrom_some hsl
    have hcut := cuts2 hpr
    have hcl := clean_at _ _ hcut hl
    rw [← ht] at hcl
    have hlen : 1 ≤ (new base n).slashes.length := by
      cases hsl' : (new base n).slashes with
      | nil => exact absurd hsl' hne
      | cons a b => simp
    refine ⟨(new base n).pseudoroot, (new base n).slashes.length, hcut, hl, ht, ?_, ?_⟩
    · left; exact ⟨hi, hlen⟩
    · exact cleanTail_of_cleanRel hcl (Or.inl ⟨_, hi, hlen⟩)


theorem cleanSuffixes_spec {base iri : Octets} (hs : (split base).scheme.isSome) (h : cleanSuffixes base iri = true) :
    ∀ c, (preStr (split base)).length < c → c ≤ lcp base iri → base[c - 1]? = some '/' →
      cleanRel (iri.drop c) = true := by
  intro c h1 h2 h3
  unfold cleanSuffixes at h
  simp only [List.all_eq_true, List.mem_range] at h
  have := h c (by omega)
  rw [pathBegin_eq hs] at this
  simpa [h1, h3] using this

/-- INPUT-side version of the path branches: rooted dot-free base path, common prefix ending strictly inside the base
path at or after `pseudoroot`, clean suffixes -/
theorem inverse_path_input {base : Octets} {n : Nat} {iri : Octets}
    (hs : (split base).scheme.isSome) (hb : utf8Shaped 0 base = true) (hi : utf8Shaped 0 iri = true)
    (hroot : startsSlash (split base).path = true) (hbd : noDotSegs (split base).path = true)
    (hl0 : lcp base iri ≥ (new base n).pseudoroot) (hl1 : lcp base iri < (new base n).path_end)
    (hclean : cleanSuffixes base iri = true) :
    ∃ ins t, relativize (new base n) iri = .some ins t ∧ resolve base (ins.str ++ t) = iri ∧
      (split (ins.str ++ t)).scheme = none ∧ (split (ins.str ++ t)).authority = none ∧
      countDotDot (ins.str ++ t) ≤ n := by
  have hbase := new_base base n
  obtain ⟨P', hP⟩ : ∃ P', (split base).path = '/' :: P' := by
    cases hp : (split base).path with
    | nil => rw [hp] at hroot; simp [startsSlash] at hroot
    | cons x xs =>
      rw [hp] at hroot
      unfold startsSlash at hroot
      split at hroot
      · rename_i heq; injection heq with h1 h2; subst h1; exact ⟨xs, rfl⟩
      · cases hroot
  have hx : authEndsMultibyteNoPath base = false := by
    unfold authEndsMultibyteNoPath
    simp only [hP]
    cases (split base).authority <;> simp
  have hd := base_decomp base
  have hpr : (new base n).pseudoroot > (preStr (split base)).length := by
    rcases new_pseudoroot_cases base n hs with h | ⟨_, h⟩
    · exact h
    · rw [List.append_assoc, List.append_assoc] at hd
      rw [drop_of_decomp hd, hP] at h
      simp [startsSlash] at h
  have h1 : relativize (new base n) iri ≠ .none := some_inside (by rw [hbase]; exact hl0)
  have h2 := no_panic_utf8 (n := n) hs hb hi hx
  cases h : relativize (new base n) iri with
  | panic => exact absurd h h2
  | none => exact absurd h h1
  | some ins t =>
    refine ⟨ins, t, rfl, ?_⟩
    have hpe := new_path_end base n hs
    have hqe := new_query_end base n hs
    have hle : (new base n).path_end ≤ (new base n).query_end := by
      rw [hpe, hqe]; simp [List.length_append]
    rcases relativize_cases h with ⟨_, c1, _⟩ | ⟨_, _, c2, _⟩ | ⟨_, _, c3, _⟩ | ⟨_, _, _, hp⟩
    · rw [hbase] at c1; omega
    · rw [hbase] at c2; omega
    · rw [hbase] at c3; omega
    · rw [hbase] at hp
      obtain ⟨c, k, hcut, hcl, ht, hins, hct⟩ := pathBranch_cut_clean hs hp hpr (cleanSuffixes_spec hs hclean)
      have hiri := iri_of_cut hcl
      rw [← ht] at hiri
      obtain ⟨r1, r2, r3, r4⟩ := core hbd hcut hiri hins hct
      refine ⟨r1, r2, r3, ?_⟩
      rw [r4]
      cases ins with
      | nothing => simp [insUps]
      | dotSlash => simp [insUps]
      | up j => exact (inserted_le h).2

end SophiaProofs.Relativize
