/-
Order-preserving, injective encoding of terms into `List Nat`; transfers the comparator laws of
`List Nat` (core `Std.TransOrd`, `Std.LawfulEqOrd`) to `Term::cmp`.
-/
import SophiaModel.Basic.TermOrder

namespace SophiaProofs
open SophiaModel SophiaModel.Term Std

/-- string with a terminator smaller than every symbol -/
def encS (s : Str) : List Nat := s.map (fun c => c.toNat + 1) ++ [0]

def enc : Term → List Nat
  | .iri s => 1 :: encS s
  | .bnode s => 0 :: encS s
  | .var s => 4 :: encS s
  | .lit l d => 2 :: (encS d ++ (encS [] ++ encS l))
  | .lang l t => 2 :: (encS rdfLangString ++ (encS (foldTag t) ++ encS l))
  | .triple s p o => 3 :: (enc s ++ (enc p ++ enc o))

theorem compare_succ (a b : Nat) : compare (a + 1) (b + 1) = compare a b := by
  simp only [Nat.compare_eq_ite_lt]
  by_cases h : a < b <;> by_cases h' : b < a <;> simp [h, h'] <;> omega

theorem compare_succ_zero (a : Nat) : compare (a + 1) 0 = .gt := by
  simp [Nat.compare_eq_ite_lt]

theorem compare_zero_succ (a : Nat) : compare 0 (a + 1) = .lt := by
  simp [Nat.compare_eq_ite_lt]

theorem encS_cmp (a b : Str) (r1 r2 : List Nat) :
    compare (encS a ++ r1) (encS b ++ r2) = (strCmp a b).then (compare r1 r2) := by
  induction a generalizing b with
  | nil =>
    cases b with
    | nil => simp [encS, strCmp, List.compare_cons_cons, List.compare_nil_nil]
    | cons y ys =>
      simp [encS, strCmp, List.compare_cons_cons, List.compare_nil_cons, compare_zero_succ]
  | cons x xs ih =>
    cases b with
    | nil =>
      simp [encS, strCmp, List.compare_cons_cons, List.compare_cons_nil, compare_succ_zero]
    | cons y ys =>
      have := ih ys
      simp only [encS, strCmp, List.map_cons, List.cons_append, List.compare_cons_cons,
        compare_succ, Ordering.then_assoc] at this ⊢
      rw [this]

theorem encS_cmp' (a b : Str) : compare (encS a) (encS b) = strCmp a b := by
  have := encS_cmp a b [] []
  simpa [List.compare_nil_nil] using this

theorem strCmp_ne_of_ne {a b : Str} (h : a ≠ b) : strCmp a b ≠ .eq := by
  intro he
  unfold strCmp at he
  have := LawfulEqOrd.eq_of_compare he
  exact h ((List.map_inj_right (fun x y hxy => Char.toNat_inj.1 hxy)).1 this)

theorem strCmp_refl (a : Str) : strCmp a a = .eq := by
  unfold strCmp; exact ReflOrd.compare_self

/-- main lemma: `Term::cmp` is the lexicographic order of the encodings -/
theorem enc_cmp (a b : Term) (ha : a.WF = true) (hb : b.WF = true) (r1 r2 : List Nat) :
    compare (enc a ++ r1) (enc b ++ r2) = (termCmp a b).then (compare r1 r2) := by
  induction a generalizing b r1 r2 with
  | iri s => cases b <;> simp [enc, termCmp, kind, Kind.rank, List.compare_cons_cons, encS_cmp, Nat.compare_eq_ite_lt]
  | bnode s => cases b <;> simp [enc, termCmp, kind, Kind.rank, List.compare_cons_cons, encS_cmp, Nat.compare_eq_ite_lt]
  | var s => cases b <;> simp [enc, termCmp, kind, Kind.rank, List.compare_cons_cons, encS_cmp, Nat.compare_eq_ite_lt]
  | lit l d =>
    cases b with
    | lit l2 d2 =>
      simp [enc, termCmp, List.compare_cons_cons, encS_cmp, List.append_assoc, strCmp_refl, Ordering.then_assoc]
    | lang l2 t2 =>
      have hd : d ≠ rdfLangString := by simpa [WF] using ha
      have hne := strCmp_ne_of_ne hd
      simp only [enc, termCmp, List.cons_append, List.compare_cons_cons, List.append_assoc, encS_cmp,
        Nat.compare_eq_ite_lt, Nat.lt_irrefl, ite_false, Ordering.then_assoc, Ordering.eq_then]
      cases h : strCmp d rdfLangString <;> simp_all
    | _ => simp [enc, termCmp, kind, Kind.rank, List.compare_cons_cons, Nat.compare_eq_ite_lt]
  | lang l t =>
    cases b with
    | lit l2 d2 =>
      have hd : d2 ≠ rdfLangString := by simpa [WF] using hb
      have hne := strCmp_ne_of_ne (Ne.symm hd)
      simp only [enc, termCmp, List.cons_append, List.compare_cons_cons, List.append_assoc, encS_cmp,
        Nat.compare_eq_ite_lt, Nat.lt_irrefl, ite_false, Ordering.then_assoc, Ordering.eq_then]
      cases h : strCmp rdfLangString d2 <;> simp_all
    | lang l2 t2 =>
      simp [enc, termCmp, tagCmp, List.compare_cons_cons, encS_cmp, List.append_assoc, strCmp_refl,
        Ordering.then_assoc]
    | _ => simp [enc, termCmp, kind, Kind.rank, List.compare_cons_cons, Nat.compare_eq_ite_lt]
  | triple s p o ihs ihp iho =>
    cases b with
    | triple s2 p2 o2 =>
      simp only [WF, Bool.and_eq_true] at ha hb
      simp only [enc, termCmp, List.cons_append, List.compare_cons_cons, List.append_assoc,
        Nat.compare_eq_ite_lt, Nat.lt_irrefl, ite_false, Ordering.eq_then]
      rw [ihs s2 ha.1.1 hb.1.1, ihp p2 ha.1.2 hb.1.2, iho o2 ha.2 hb.2]
      simp [Ordering.then_assoc]
    | _ => simp [enc, termCmp, kind, Kind.rank, List.compare_cons_cons, Nat.compare_eq_ite_lt]

theorem termCmp_eq_enc (a b : Term) (ha : a.WF = true) (hb : b.WF = true) :
    termCmp a b = compare (enc a) (enc b) := by
  have := enc_cmp a b ha hb [] []
  simpa [List.compare_nil_nil] using this.symm

end SophiaProofs
