/-
`cmpQuad` (the closure given to `sort_unstable_by` in `normalize_with`) is a total preorder for
all quads, so `List.mergeSort` really sorts by it; on well-formed quads the sorted lines are in
code-point order.
-/
import SophiaProofs.Lemmas.CnqInj

namespace SophiaProofs.CnqL
open SophiaModel SophiaModel.Rdfc10 SophiaProofs.Rdfc10L

/-- laws of a three-way comparison that make `· ≠ gt` a total preorder -/
structure GoodCmp {α : Type} (f : α → α → Ordering) : Prop where
  refl : ∀ a, f a a = .eq
  swap : ∀ a b, f b a = (f a b).swap
  lt_trans : ∀ a b c, f a b = .lt → f b c = .lt → f a c = .lt
  eq_left : ∀ a b, f a b = .eq → ∀ c, f a c = f b c

namespace GoodCmp
variable {α : Type} {f g : α → α → Ordering}

theorem eq_right (hf : GoodCmp f) (a b c : α) (h : f b c = .eq) : f a c = f a b := by
  have h1 : f c b = .eq := by rw [hf.swap b c, h]; rfl
  have h2 := hf.eq_left c b h1 a
  rw [hf.swap a c, hf.swap a b] at h2
  cases hac : f a c <;> cases hab : f a b <;> simp_all [Ordering.swap]

theorem then_eq {o k : Ordering} : o.then k = .eq ↔ o = .eq ∧ k = .eq := by
  cases o <;> cases k <;> simp [Ordering.then]

theorem then_lt {o k : Ordering} : o.then k = .lt ↔ o = .lt ∨ (o = .eq ∧ k = .lt) := by
  cases o <;> cases k <;> simp [Ordering.then]

theorem thenCmp (hf : GoodCmp f) (hg : GoodCmp g) : GoodCmp (fun a b => (f a b).then (g a b)) where
  refl a := by simp [hf.refl, hg.refl, Ordering.then]
  swap a b := by
    simp only [hf.swap a b, hg.swap a b]
    cases f a b <;> cases g a b <;> rfl
  eq_left a b h c := by
    obtain ⟨h1, h2⟩ := then_eq.mp h
    simp only [hf.eq_left a b h1 c, hg.eq_left a b h2 c]
  lt_trans a b c h1 h2 := by
    apply then_lt.mpr
    rcases then_lt.mp h1 with h1 | ⟨h1, h1'⟩ <;> rcases then_lt.mp h2 with h2 | ⟨h2, h2'⟩
    · exact Or.inl (hf.lt_trans a b c h1 h2)
    · exact Or.inl (by rw [hf.eq_right a b c h2]; exact h1)
    · exact Or.inl (by rw [hf.eq_left a b h1 c]; exact h2)
    · exact Or.inr ⟨by rw [hf.eq_left a b h1 c]; exact h2, hg.lt_trans a b c h1' h2'⟩

theorem le_total (hf : GoodCmp f) (a b : α) : (f a b != .gt || f b a != .gt) = true := by
  rw [hf.swap a b]
  cases f a b <;> rfl

theorem le_trans (hf : GoodCmp f) (a b c : α) (h1 : (f a b != .gt) = true) (h2 : (f b c != .gt) = true) :
    (f a c != .gt) = true := by
  cases hab : f a b with
  | gt => rw [hab] at h1; cases h1
  | eq => rw [hf.eq_left a b hab c]; exact h2
  | lt =>
    cases hbc : f b c with
    | gt => rw [hbc] at h2; cases h2
    | eq => rw [hf.eq_right a b c hbc, hab]; rfl
    | lt => rw [hf.lt_trans a b c hab hbc]; rfl

end GoodCmp

theorem good_key {α : Type} (k : α → Str) : GoodCmp (fun a b => cmpStr (k a) (k b)) where
  refl a := cmpStr_refl _
  swap a b := cmpStr_swap _ _
  lt_trans a b c := cmpStr_lt_trans _ _ _
  eq_left a b h c := by rw [cmpStr_eq_iff.mp h]

theorem cmpQuad_good : GoodCmp cmpQuad := by
  have h : cmpQuad = fun a b =>
      (cmpStr (Cnq.nq a.s) (Cnq.nq b.s)).then
        ((cmpStr (Cnq.nq a.p) (Cnq.nq b.p)).then
          ((cmpStr (Cnq.nq a.o) (Cnq.nq b.o)).then
            (cmpStr (match a.g with | some t => Cnq.nq t | none => []) (match b.g with | some t => Cnq.nq t | none => [])))) := by
    funext a b; rfl
  rw [h]
  exact (good_key _).thenCmp ((good_key _).thenCmp ((good_key _).thenCmp (good_key _)))

/-- `mergeSort` by `cmpQuad` sorts (for all quads, well-formed or not) -/
theorem sortQuads_pairwise (l : List Quad) : (sortQuads l).Pairwise (fun a b => (cmpQuad a b != .gt) = true) :=
  List.pairwise_mergeSort (le := fun a b => cmpQuad a b != .gt)
    (fun a b c => cmpQuad_good.le_trans a b c) (fun a b => cmpQuad_good.le_total a b) l

theorem sortQuads_perm (l : List Quad) : (sortQuads l).Perm l := List.mergeSort_perm l _

/-- on well-formed quads the rendered lines come out in code-point order -/
theorem sorted_lines {l : List Quad} (hl : ∀ q ∈ l, QuadOK q) :
    ((sortQuads l).map line).Pairwise (fun a b => strLe a b = true) := by
  rw [List.pairwise_map]
  refine (sortQuads_pairwise l).imp_of_mem ?_
  intro a b ha hb hab
  have ha' := hl a ((sortQuads_perm l).mem_iff.mp ha)
  have hb' := hl b ((sortQuads_perm l).mem_iff.mp hb)
  rw [cmpQuad_eq_line ha' hb'] at hab
  exact hab

end SophiaProofs.CnqL
