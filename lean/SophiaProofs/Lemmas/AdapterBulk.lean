/-
Lemmas for C11: the DEFAULT bulk methods of `MutableGraph` / `MutableDataset` (`insert_all`, `remove_all`,
`remove_matching`, `retain_matching`: `Adapter.Defaults`) run on a mutable VIEW, whose own `insert` /
`remove` forward one quad to the wrapped store (or refuse it).  For every lawful implementation of the
wrapped store they refine the plain-list specification of C01 (`specInsertAll`, `specRemoveAll`).
-/
import SophiaProofs.Lemmas.Adapter

namespace SophiaProofs.AdapterP
open SophiaModel SophiaModel.Term SophiaModel.Store SophiaModel.Adapter SophiaProofs.StoreP

variable {σ : Type} {I : Impl σ}

/-- the view's `remove` hands the quad `f t` to the wrapped store's `remove` — or, when `f t = none`
(a quad of a named graph given to a graph-as-dataset), answers `false` without touching the store -/
def RemIs (I : Impl σ) (rem : σ → Quad → σ × MutRes) (f : Quad → Option Quad) : Prop :=
  ∀ s t, rem s t = match f t with
    | some q => ((I.remove s q).1, .ok (I.remove s q).2)
    | none => (s, .ok false)

/-- the view's `insert` hands the quad `f t` to the wrapped store's `insert` -/
def InsIs (I : Impl σ) (ins : σ → Quad → σ × MutRes) (f : Quad → Quad) : Prop :=
  ∀ s t, ins s t = ((I.insert s (f t)).1, MutRes.ofOption (I.insert s (f t)).2)

theorem defaults_removeAll_nil (rem : σ → Quad → σ × MutRes) (s : σ) (c : Nat) :
    Defaults.removeAll rem s [] c = (s, .ok c) := rfl

theorem defaults_removeAll_ok {rem : σ → Quad → σ × MutRes} {s s1 : σ} {t : Quad} {b : Bool}
    (h : rem s t = (s1, .ok b)) (ts : List Quad) (c : Nat) :
    Defaults.removeAll rem s (t :: ts) c = Defaults.removeAll rem s1 ts (if b then c + 1 else c) := by
  show (match rem s t with
    | (s', .ok b) => Defaults.removeAll rem s' ts (if b then c + 1 else c)
    | (s', .errInner) => (s', .errInner)
    | (s', .errOnlyDefaultGraph) => (s', .errOnlyDefaultGraph)) = _
  rw [h]

theorem defaults_insertAll_nil (ins : σ → Quad → σ × MutRes) (s : σ) (c : Nat) :
    Defaults.insertAll ins s [] c = (s, .ok c) := rfl

theorem defaults_insertAll_ok {ins : σ → Quad → σ × MutRes} {s s1 : σ} {t : Quad} {b : Bool}
    (h : ins s t = (s1, .ok b)) (ts : List Quad) (c : Nat) :
    Defaults.insertAll ins s (t :: ts) c = Defaults.insertAll ins s1 ts (if b then c + 1 else c) := by
  show (match ins s t with
    | (s', .ok b) => Defaults.insertAll ins s' ts (if b then c + 1 else c)
    | (s', .errInner) => (s', .errInner)
    | (s', .errOnlyDefaultGraph) => (s', .errOnlyDefaultGraph)) = _
  rw [h]

theorem defaults_insertAll_err {ins : σ → Quad → σ × MutRes} {s s1 : σ} {t : Quad}
    (h : ins s t = (s1, .errInner)) (ts : List Quad) (c : Nat) :
    Defaults.insertAll ins s (t :: ts) c = (s1, .errInner) := by
  show (match ins s t with
    | (s', .ok b) => Defaults.insertAll ins s' ts (if b then c + 1 else c)
    | (s', .errInner) => (s', .errInner)
    | (s', .errOnlyDefaultGraph) => (s', .errOnlyDefaultGraph)) = _
  rw [h]

theorem filterMap_cons_some {α β : Type} {f : α → Option β} {a : α} {b : β} (l : List α) (h : f a = some b) :
    (a :: l).filterMap f = b :: l.filterMap f := by
  simp [h]

theorem filterMap_cons_none {α β : Type} {f : α → Option β} {a : α} (l : List α) (h : f a = none) :
    (a :: l).filterMap f = l.filterMap f := by
  simp [h]

/-- **`remove_all` through a view, any lawful collection** (vectors included): it never fails, the
invariant is kept, and the store holds the old quads minus every quad `Term::eq` to a forwarded one -/
theorem removeAll_lawful (L : Lawful I) {rem : σ → Quad → σ × MutRes} {f : Quad → Option Quad}
    (hrem : RemIs I rem f) (hf : ∀ t q, f t = some q → I.n = 3 → q.g = none) :
    ∀ (ts : List Quad) {s : σ} (c : Nat), L.Inv s →
      ∃ s' c', Defaults.removeAll rem s ts c = (s', .ok c') ∧ L.Inv s' ∧
        SameSet (I.quads s') ((I.quads s).filter (fun x => !qmem x (ts.filterMap f)))
  | [], s, c, hs => by
    refine ⟨s, c, rfl, hs, SameSet.of_eq ?_⟩
    rw [List.filter_eq_self.2]
    intro x _; rfl
  | t :: ts, s, c, hs => by
    cases hft : f t with
    | none =>
      have h1 : rem s t = (s, .ok false) := by rw [hrem s t, hft]
      obtain ⟨s', c', he, hi, hS⟩ := removeAll_lawful L hrem hf ts c hs
      refine ⟨s', c', ?_, hi, ?_⟩
      · rw [defaults_removeAll_ok h1]; exact he
      · rw [filterMap_cons_none ts hft]; exact hS
    | some q =>
      have h1 : rem s t = ((I.remove s q).1, .ok (I.remove s q).2) := by rw [hrem s t, hft]
      have hq := hf t q hft
      have hs1 := L.rem_inv q hs
      have hab := L.rem_ok q hs hq
      obtain ⟨s', c', he, hi, hS⟩ := removeAll_lawful L hrem hf ts (if (I.remove s q).2 then c + 1 else c) hs1
      refine ⟨s', c', ?_, hi, ?_⟩
      · rw [defaults_removeAll_ok h1]; exact he
      · rw [filterMap_cons_some ts hft]
        refine hS.trans ((SameSet.filter (resp_not_qmem _) hab).trans ?_)
        intro y
        rw [qmem_filter (resp_not_qmem _), qmem_filter (resp_not_quadEq q),
          qmem_filter (resp_not_qmem (q :: ts.filterMap f)), qmem_cons, quadEq_symm q y]
        cases quadEq y q <;> cases qmem y (ts.filterMap f) <;> cases qmem y (I.quads s) <;> rfl

/-- **`remove_all` through a view, set stores**: moreover the count is the one the plain-list
specification computes (the number of forwarded quads present at their turn) -/
theorem removeAll_lawfulSet (L : LawfulSet I) {rem : σ → Quad → σ × MutRes} {f : Quad → Option Quad}
    (hrem : RemIs I rem f) (hf : ∀ t q, f t = some q → I.n = 3 → q.g = none) :
    ∀ (ts : List Quad) {s : σ} (c : Nat) (d : List Quad), L.Inv s → SameSet (I.quads s) d →
      ∃ s', Defaults.removeAll rem s ts c = (s', .ok (specRemoveAll d (ts.filterMap f) c).2) ∧ L.Inv s' ∧
        SameSet (I.quads s') (specRemoveAll d (ts.filterMap f) c).1
  | [], s, c, d, hs, hd => ⟨s, rfl, hs, hd⟩
  | t :: ts, s, c, d, hs, hd => by
    cases hft : f t with
    | none =>
      have h1 : rem s t = (s, .ok false) := by rw [hrem s t, hft]
      obtain ⟨s', he, hi, hS⟩ := removeAll_lawfulSet L hrem hf ts c d hs hd
      refine ⟨s', ?_, hi, ?_⟩
      · rw [defaults_removeAll_ok h1, filterMap_cons_none ts hft]; exact he
      · rw [filterMap_cons_none ts hft]; exact hS
    | some q =>
      have h1 : rem s t = ((I.remove s q).1, .ok (I.remove s q).2) := by rw [hrem s t, hft]
      have hq := hf t q hft
      have hs1 := L.rem_inv q hs
      have hab := L.rem_ok q hs hq
      have hfl := L.rem_flag q hs hq
      have hd1 : SameSet (I.quads (I.remove s q).1) (Spec.remove d q).1 := hab.trans (spec_remove_fst hd q)
      obtain ⟨s', he, hi, hS⟩ := removeAll_lawfulSet L hrem hf ts (if (I.remove s q).2 then c + 1 else c) _ hs1 hd1
      have hb : (Spec.remove d q).2 = (I.remove s q).2 := by rw [spec_remove_snd hd q, hfl]
      refine ⟨s', ?_, hi, ?_⟩
      · rw [defaults_removeAll_ok h1, filterMap_cons_some ts hft, specRemoveAll_cons, hb]; exact he
      · rw [filterMap_cons_some ts hft, specRemoveAll_cons, hb]; exact hS

/-- **`insert_all` through a view, any lawful collection**: either every element was inserted (the store
holds the old quads plus the forwarded ones) or the wrapped store's own error ended it — then the invariant
still holds and the store holds the old quads plus those forwarded BEFORE the failing one -/
theorem insertAll_lawful (L : Lawful I) {ins : σ → Quad → σ × MutRes} {f : Quad → Quad}
    (hins : InsIs I ins f) (hf : ∀ t, I.n = 3 → (f t).g = none) :
    ∀ (ts : List Quad) {s : σ} (c : Nat), L.Inv s →
      (∃ s' c', Defaults.insertAll ins s ts c = (s', .ok c') ∧ L.Inv s' ∧
        SameSet (I.quads s') ((ts.map f).reverse ++ I.quads s)) ∨
      (∃ s' k, Defaults.insertAll ins s ts c = (s', .errInner) ∧ L.Inv s' ∧ k < ts.length ∧
        SameSet (I.quads s') (((ts.take k).map f).reverse ++ I.quads s))
  | [], s, c, hs => Or.inl ⟨s, c, rfl, hs, SameSet.refl _⟩
  | t :: ts, s, c, hs => by
    have h1 := hins s t
    have hs1 := L.ins_inv (f t) hs (hf t)
    cases hi : I.insert s (f t) with
    | mk s1 o =>
      rw [hi] at h1 hs1
      cases o with
      | none =>
        refine Or.inr ⟨s1, 0, defaults_insertAll_err h1 ts c, hs1, Nat.succ_pos _, ?_⟩
        exact SameSet.of_eq (L.ins_err hs hi)
      | some b =>
        have hS1 := L.ins_ok hs (hf t) hi
        have h1' : ins s t = (s1, .ok b) := h1
        rcases insertAll_lawful L hins hf ts (if b then c + 1 else c) hs1 with
          ⟨s', c', he, hinv, hS⟩ | ⟨s', k, he, hinv, hk, hS⟩
        · refine Or.inl ⟨s', c', ?_, hinv, ?_⟩
          · rw [defaults_insertAll_ok h1']; exact he
          · refine hS.trans ?_
            rw [List.map_cons, List.reverse_cons, List.append_assoc]
            exact SameSet.append_left _ hS1
        · refine Or.inr ⟨s', k + 1, ?_, hinv, Nat.succ_lt_succ hk, ?_⟩
          · rw [defaults_insertAll_ok h1']; exact he
          · refine hS.trans ?_
            rw [List.take_succ_cons, List.map_cons, List.reverse_cons, List.append_assoc]
            exact SameSet.append_left _ hS1

/-- **`insert_all` through a view, set stores**: on success the count and the content are those of the
plain-list specification -/
theorem insertAll_lawfulSet (L : LawfulSet I) {ins : σ → Quad → σ × MutRes} {f : Quad → Quad}
    (hins : InsIs I ins f) (hf : ∀ t, I.n = 3 → (f t).g = none) :
    ∀ (ts : List Quad) {s s' : σ} (c c' : Nat) (d : List Quad), L.Inv s → SameSet (I.quads s) d →
      Defaults.insertAll ins s ts c = (s', .ok c') →
      c' = (specInsertAll d (ts.map f) c).2 ∧ SameSet (I.quads s') (specInsertAll d (ts.map f) c).1
  | [], s, s', c, c', d, _, hd, h => by
    have h' : (s, BulkRes.ok c) = (s', BulkRes.ok c') := h
    cases h'
    exact ⟨rfl, hd⟩
  | t :: ts, s, s', c, c', d, hs, hd, h => by
    have h1 := hins s t
    have hs1 := L.ins_inv (f t) hs (hf t)
    cases hi : I.insert s (f t) with
    | mk s1 o =>
      rw [hi] at h1 hs1
      cases o with
      | none =>
        rw [defaults_insertAll_err h1] at h
        cases h
      | some b =>
        have h1' : ins s t = (s1, .ok b) := h1
        rw [defaults_insertAll_ok h1'] at h
        have hS1 := L.ins_ok hs (hf t) hi
        have hfl := L.ins_flag hs (hf t) hi
        have hd1 : SameSet (I.quads s1) (Spec.insert d (f t)).1 := hS1.trans (spec_insert_fst hd (f t))
        have hb : (Spec.insert d (f t)).2 = b := by rw [spec_insert_snd hd (f t), hfl]
        have := insertAll_lawfulSet L hins hf ts (if b then c + 1 else c) c' _ hs1 hd1 h
        rw [List.map_cons, specInsertAll_cons, hb]
        exact this

/-- what `specRemoveAll` leaves, as a filter -/
theorem specRemoveAll_fst : ∀ (qs : List Quad) (d : List Quad) (c : Nat),
    SameSet (specRemoveAll d qs c).1 (d.filter (fun x => !qmem x qs))
  | [], d, c => by
    refine SameSet.of_eq ?_
    show d = _
    rw [List.filter_eq_self.2]
    intro x _; rfl
  | q :: qs, d, c => by
    rw [specRemoveAll_cons]
    refine (specRemoveAll_fst qs _ _).trans ?_
    have h1 := (spec_remove_fst (SameSet.refl d) q).symm
    refine (SameSet.filter (resp_not_qmem qs) h1).trans ?_
    intro y
    rw [qmem_filter (resp_not_qmem _), qmem_filter (resp_not_quadEq q),
      qmem_filter (resp_not_qmem (q :: qs)), qmem_cons, quadEq_symm q y]
    cases quadEq y q <;> cases qmem y qs <;> cases qmem y d <;> rfl

/-- the triple pattern respects `Term::eq` -/
theorem tripleMatched_resp (sm pm om : TM) : Resp (Spec.tripleMatched sm pm om) := by
  intro a b h
  obtain ⟨h1, h2, h3, _⟩ := quadEq_parts h
  unfold Spec.tripleMatched
  rw [TM.matches_congr sm h1, TM.matches_congr pm h2, TM.matches_congr om h3]

theorem resp_and {f g : Quad → Bool} (hf : Resp f) (hg : Resp g) : Resp (fun x => f x && g x) := by
  intro a b h
  show (f a && g a) = (f b && g b)
  rw [hf a b h, hg a b h]

/-! ## views of a dataset / graph: which quad an element handed to the view stands for -/

open SophiaModel.Gen.AdapterFlags

/-- the quad a triple handed to the view of graph `g` stands for -/
def withG (g : GName) (t : Quad) : Quad := ⟨t.s, t.p, t.o, g⟩

theorem dg_remIs (hcall : datasetGraphRemoveCalls = .remove) (g : GName) :
    RemIs I (fun s t => DatasetGraph.remove I s g t) (fun t => some (withG g t)) := by
  intro s t
  show DatasetGraph.remove I s g t = _
  unfold DatasetGraph.remove
  rw [hcall]; rfl

theorem dg_insIs (hcall : datasetGraphInsertCalls = .insert) (g : GName) : InsIs I (fun s t => DatasetGraph.insert I s g t) (withG g) := by
  intro s t
  show DatasetGraph.insert I s g t = _
  unfold DatasetGraph.insert
  rw [hcall]; rfl

theorem filterMap_some_map {α β : Type} (f : α → β) (l : List α) : l.filterMap (fun t => some (f t)) = l.map f := by
  induction l with
  | nil => rfl
  | cons a l ih => simp [ih]

/-- a quad of another graph is none of the quads handed to the view of `g` -/
theorem qmem_withG_other (g : GName) (ts : List Quad) (x : Quad) (hx : gnameEq g x.g = false) :
    qmem x (ts.map (withG g)) = false := by
  rw [qmem_false_iff]
  intro y hy
  obtain ⟨t, _, rfl⟩ := List.mem_map.1 hy
  simp [quadEq, withG, hx]

/-- whatever a bulk removal through the view of `g` removes, the other graphs keep their quads and views -/
theorem others_untouched_of_filter {l l' : List Quad} (g : GName) (ts : List Quad)
    (h : SameSet l' (l.filter (fun x => !qmem x (ts.map (withG g))))) :
    (∀ x : Quad, gnameEq g x.g = false → qmem x l' = qmem x l) ∧
    (∀ g' : GName, gnameEq g g' = false → SameSet (Spec.graph g' l') (Spec.graph g' l)) := by
  have h1 : ∀ x : Quad, gnameEq g x.g = false → qmem x l' = qmem x l := by
    intro x hx
    rw [h x, qmem_filter (resp_not_qmem _), qmem_withG_other g ts x hx]; rfl
  refine ⟨h1, fun g' hg' => ?_⟩
  refine (sameSet_graph g' h).trans (SameSet.of_eq ?_)
  unfold Spec.graph
  rw [List.filter_filter]
  congr 1
  apply List.filter_congr
  intro x _
  cases hx : gnameEq g' x.g with
  | false => rfl
  | true =>
    have : gnameEq g x.g = false := by
      cases hgx : gnameEq g x.g with
      | false => rfl
      | true =>
        have h2 : gnameEq x.g g' = true := by rw [gnameEq_symm]; exact hx
        have := gnameEq_trans _ _ _ hgx h2
        rw [this] at hg'; cases hg'
    rw [qmem_withG_other g ts x this]; rfl

theorem quadEq_withG {x : Quad} {g : GName} (hg : gnameEq g x.g = true) :
    quadEq (withG g (intoTriple x)) x = true := by
  have h := quadEq_refl x
  simp only [quadEq, Bool.and_eq_true] at h ⊢
  exact ⟨h.1, hg⟩

theorem quadEq_withG' {x : Quad} {g : GName} (hg : gnameEq g x.g = true) :
    quadEq x (withG g (intoTriple x)) = true := by
  rw [quadEq_symm]; exact quadEq_withG hg

/-- which quads of the store stand behind the triples a pattern query through the view of `g` collects -/
theorem qmem_collected {s : σ} (g : GName) (P : Quad → Bool)
    (hP : Resp P) (hPg : ∀ (t : Quad) (g' : GName), P ⟨t.s, t.p, t.o, g'⟩ = P t)
    (ts : List Quad) (hts : ∀ t, t ∈ ts ↔ (t ∈ Spec.graph g (I.quads s) ∧ P t = true)) :
    ∀ x ∈ I.quads s, qmem x (ts.map (withG g)) = (gnameEq g x.g && P x) := by
  intro x hx
  rw [Bool.eq_iff_iff, qmem_iff, Bool.and_eq_true]
  constructor
  · rintro ⟨y, hy, he⟩
    obtain ⟨t, ht, rfl⟩ := List.mem_map.1 hy
    have hg : gnameEq g x.g = true := (quadEq_parts he).2.2.2
    refine ⟨hg, ?_⟩
    rw [← hP _ _ he]
    show P ⟨t.s, t.p, t.o, g⟩ = true
    rw [hPg]; exact ((hts t).1 ht).2
  · rintro ⟨hg, hp⟩
    have ht : intoTriple x ∈ ts := by
      refine (hts _).2 ⟨?_, ?_⟩
      · exact List.mem_map.2 ⟨x, List.mem_filter.2 ⟨hx, hg⟩, rfl⟩
      · have := hPg x none
        cases x with
        | mk a b c g0 => exact this.trans hp
    exact ⟨withG g (intoTriple x), List.mem_map.2 ⟨_, ht, rfl⟩, quadEq_withG hg⟩

theorem nodupQ_iff_pairwise : ∀ (l : List Quad), NodupQ l ↔ l.Pairwise (fun a b => quadEq a b = false)
  | [] => by simp [NodupQ]
  | q :: l => by
    rw [List.pairwise_cons, ← nodupQ_iff_pairwise l]
    show (qmem q l = false ∧ NodupQ l) ↔ _
    rw [qmem_false_iff]
    constructor
    · rintro ⟨h1, h2⟩
      exact ⟨fun a ha => by rw [quadEq_symm]; exact h1 a ha, h2⟩
    · rintro ⟨h1, h2⟩
      exact ⟨fun a ha => by rw [quadEq_symm]; exact h1 a ha, h2⟩

/-- the triples a view of `g` shows, put back in `g`, are pairwise different quads (set stores) -/
theorem nodupQ_collected (L : LawfulSet I) {s : σ} (hs : L.Inv s) (g : GName) (P : Quad → Bool)
    (ts : List Quad) (hts : ts.Perm ((Spec.graph g (I.quads s)).filter P)) :
    NodupQ (ts.map (withG g)) := by
  rw [nodupQ_iff_pairwise, List.pairwise_map]
  have hsym : ∀ {x y : Quad}, quadEq (withG g x) (withG g y) = false → quadEq (withG g y) (withG g x) = false :=
    fun h => by rw [quadEq_symm]; exact h
  rw [List.Perm.pairwise_iff (R := fun a b => quadEq (withG g a) (withG g b) = false) hsym hts]
  apply List.Pairwise.filter
  unfold Spec.graph
  rw [List.pairwise_map]
  have hnd := (nodupQ_iff_pairwise _).1 ((L.nodup hs).filter (fun q => gnameEq g q.g))
  refine List.Pairwise.imp_of_mem ?_ hnd
  intro a b ha hb hab
  have hga := (List.mem_filter.1 ha).2
  have hgb := (List.mem_filter.1 hb).2
  cases hq : quadEq (withG g (intoTriple a)) (withG g (intoTriple b)) with
  | false => rfl
  | true =>
    obtain ⟨h1, h2, h3, _⟩ := quadEq_parts hq
    have hgab : gnameEq a.g b.g = true := by
      have : gnameEq a.g g = true := by rw [gnameEq_symm]; exact hga
      exact gnameEq_trans _ _ _ this hgb
    have : quadEq a b = true := by
      simp only [quadEq, Bool.and_eq_true]
      exact ⟨⟨⟨h1, h2⟩, h3⟩, hgab⟩
    rw [this] at hab; cases hab

/-- the triple a quad handed to a graph-as-dataset stands for: none for a quad of a named graph -/
def asTriple (q : Quad) : Option Quad := if q.g.isNone then some ⟨q.s, q.p, q.o, none⟩ else none

theorem gad_remIs (hcall : graphAsDatasetRemoveCalls = .remove) : RemIs I (GraphAsDataset.remove I) asTriple := by
  intro s q
  unfold GraphAsDataset.remove asTriple
  cases q.g with
  | none => simp only [Option.isNone_none, if_true]; rw [hcall]; rfl
  | some g => rfl

theorem defaults_insertAll_congr {ins ins' : σ → Quad → σ × MutRes} :
    ∀ (ts : List Quad) (s : σ) (c : Nat), (∀ t ∈ ts, ∀ s, ins s t = ins' s t) →
      Defaults.insertAll ins s ts c = Defaults.insertAll ins' s ts c
  | [], _, _, _ => rfl
  | t :: ts, s, c, h => by
    have h1 := h t (by simp) s
    have ih : ∀ s1 c1, Defaults.insertAll ins s1 ts c1 = Defaults.insertAll ins' s1 ts c1 :=
      fun s1 c1 => defaults_insertAll_congr ts s1 c1 (fun x hx => h x (by simp [hx]))
    show (match ins s t with
      | (s', .ok b) => Defaults.insertAll ins s' ts (if b then c + 1 else c)
      | (s', .errInner) => (s', .errInner)
      | (s', .errOnlyDefaultGraph) => (s', .errOnlyDefaultGraph)) =
      (match ins' s t with
      | (s', .ok b) => Defaults.insertAll ins' s' ts (if b then c + 1 else c)
      | (s', .errInner) => (s', .errInner)
      | (s', .errOnlyDefaultGraph) => (s', .errOnlyDefaultGraph))
    rw [h1]
    cases ins' s t with
    | mk s1 r => cases r with
      | ok b => exact ih _ _
      | errInner => rfl
      | errOnlyDefaultGraph => rfl

/-- an operation on a dataset implementation: direct `insert` / `remove`, or through `graph_mut(g)` — single
or one of the four default bulk methods -/
inductive GOp where
  | ins (q : Quad)
  | rem (q : Quad)
  | vIns (g : GName) (t : Quad)
  | vRem (g : GName) (t : Quad)
  | vInsAll (g : GName) (ts : List Quad)
  | vRemAll (g : GName) (ts : List Quad)
  | vRemM (g : GName) (sm pm om : TM)
  | vRetM (g : GName) (sm pm om : TM)

def resOk : MutRes → Bool
  | .ok _ => true
  | _ => false

def bulkOk : BulkRes → Bool
  | .ok _ => true
  | _ => false

/-- one operation through the ADAPTER model: the state afterwards, and whether it succeeded -/
def stepG (I : Impl σ) (s : σ) : GOp → σ × Bool
  | .ins q => ((I.insert s q).1, (I.insert s q).2.isSome)
  | .rem q => ((I.remove s q).1, true)
  | .vIns g t => ((DatasetGraph.insert I s g t).1, resOk (DatasetGraph.insert I s g t).2)
  | .vRem g t => ((DatasetGraph.remove I s g t).1, resOk (DatasetGraph.remove I s g t).2)
  | .vInsAll g ts => ((DatasetGraph.insertAll I s g ts).1, bulkOk (DatasetGraph.insertAll I s g ts).2)
  | .vRemAll g ts => ((DatasetGraph.removeAll I s g ts).1, bulkOk (DatasetGraph.removeAll I s g ts).2)
  | .vRemM g sm pm om => ((DatasetGraph.removeMatching I s g sm pm om).1, bulkOk (DatasetGraph.removeMatching I s g sm pm om).2)
  | .vRetM g sm pm om => ((DatasetGraph.retainMatching I s g sm pm om).1, bulkOk (DatasetGraph.retainMatching I s g sm pm om).2)

/-- a history; stops at the first failing operation (the store's own error) -/
def runG (I : Impl σ) : σ → List GOp → σ × Bool
  | s, [] => (s, true)
  | s, op :: ops => if (stepG I s op).2 then runG I (stepG I s op).1 ops else ((stepG I s op).1, false)

/-- what the property demands of each operation, on a plain list of quads: the view of `g` stands for
"the quads of the store named `g`" -/
def specG (d : List Quad) : GOp → List Quad
  | .ins q => (Spec.insert d q).1
  | .rem q => (Spec.remove d q).1
  | .vIns g t => (Spec.insert d (withG g t)).1
  | .vRem g t => (Spec.remove d (withG g t)).1
  | .vInsAll g ts => (specInsertAll d (ts.map (withG g)) 0).1
  | .vRemAll g ts => (specRemoveAll d (ts.map (withG g)) 0).1
  | .vRemM g sm pm om => d.filter (fun q => !(gnameEq g q.g && Spec.tripleMatched sm pm om q))
  | .vRetM g sm pm om => d.filter (fun q => !gnameEq g q.g || Spec.tripleMatched sm pm om q)

theorem resp_remM (g : GName) (sm pm om : TM) :
    Resp (fun q => !(gnameEq g q.g && Spec.tripleMatched sm pm om q)) :=
  (resp_and (resp_graphSel g) (tripleMatched_resp sm pm om)).not

theorem resp_retM (g : GName) (sm pm om : TM) :
    Resp (fun q => !gnameEq g q.g || Spec.tripleMatched sm pm om q) := by
  intro a b h
  show (!gnameEq g a.g || Spec.tripleMatched sm pm om a) = (!gnameEq g b.g || Spec.tripleMatched sm pm om b)
  have h1 : gnameEq g a.g = gnameEq g b.g := resp_graphSel g a b h
  rw [h1, tripleMatched_resp sm pm om a b h]

/-- the wrapped store's `insert` never fails (std collections: `MutationError = Infallible`) -/
def NoErr (I : Impl σ) : Prop := ∀ s q, (I.insert s q).2 ≠ none

theorem insertAll_noErr {ins : σ → Quad → σ × MutRes} {f : Quad → Quad} (hins : InsIs I ins f) (hne : NoErr I) :
    ∀ (ts : List Quad) (s : σ) (c : Nat), bulkOk (Defaults.insertAll ins s ts c).2 = true
  | [], _, _ => rfl
  | t :: ts, s, c => by
    have h1 := hins s t
    cases hi : I.insert s (f t) with
    | mk s1 o =>
      rw [hi] at h1
      cases o with
      | none => exact absurd (by rw [hi]) (hne s (f t))
      | some b =>
        have h1' : ins s t = (s1, .ok b) := h1
        rw [defaults_insertAll_ok h1']
        exact insertAll_noErr hins hne ts s1 _

theorem setImpl_noErr (n : Nat) : NoErr (setImpl n) := by
  intro s q h
  cases h

/-! ## vectors: lawful BAGS (multiplicities) -/

/-- number of copies of `x` (modulo `Term::eq`) in a collection -/
def mult (x : Quad) (l : List Quad) : Nat := (l.filter (quadEq · x)).length

/-- An implementation behaves like a BAG of quads (vectors: repetitions allowed, flags "not significant"):
`insert` / `remove` of `q` leave the copies of every other quad alone; `insert` leaves at least one copy of `q`
and loses none; `remove` of a present `q` loses at least one copy (all of them: `Vec<Spog<T>>`, `Vec<[T; 3]>`;
the first one: `Vec<Gspo<T>>`). -/
structure LawfulBag {σ : Type} (I : Impl σ) extends LawfulRead I where
  ins_inv : ∀ {s : σ} (q : Quad), Inv s → (I.n = 3 → q.g = none) → Inv (I.insert s q).1
  rem_inv : ∀ {s : σ} (q : Quad), Inv s → Inv (I.remove s q).1
  ins_others : ∀ {s : σ} (q x : Quad), Inv s → quadEq q x = false →
    mult x (I.quads (I.insert s q).1) = mult x (I.quads s)
  ins_self : ∀ {s : σ} (q : Quad), Inv s →
    1 ≤ mult q (I.quads (I.insert s q).1) ∧ mult q (I.quads s) ≤ mult q (I.quads (I.insert s q).1)
  rem_others : ∀ {s : σ} (q x : Quad), Inv s → quadEq q x = false →
    mult x (I.quads (I.remove s q).1) = mult x (I.quads s)
  rem_self : ∀ {s : σ} (q : Quad), Inv s →
    mult q (I.quads (I.remove s q).1) < mult q (I.quads s) ∨
      (mult q (I.quads s) = 0 ∧ mult q (I.quads (I.remove s q).1) = 0)

theorem mult_append (x : Quad) (a b : List Quad) : mult x (a ++ b) = mult x a + mult x b := by
  simp [mult, List.filter_append]

theorem mult_filter_ne (q x : Quad) (h : quadEq q x = false) (l : List Quad) :
    mult x (l.filter (fun y => !quadEq y q)) = mult x l := by
  unfold mult
  rw [List.filter_filter]
  congr 1
  apply List.filter_congr
  intro y _
  cases hy : quadEq y x with
  | false => rfl
  | true =>
    have : quadEq y q = false := by
      cases hq : quadEq y q with
      | false => rfl
      | true =>
        have h1 : quadEq q y = true := by rw [quadEq_symm]; exact hq
        rw [quadEq_trans _ _ _ h1 hy] at h; cases h
    simp [this]

theorem mult_filter_self (q : Quad) (l : List Quad) : mult q (l.filter (fun y => !quadEq y q)) = 0 := by
  unfold mult
  rw [List.filter_filter, List.length_eq_zero_iff, List.filter_eq_nil_iff]
  intro y _
  cases quadEq y q <;> simp

theorem mult_eraseP_ne (q x : Quad) (h : quadEq q x = false) : ∀ l : List Quad,
    mult x (l.eraseP (quadEq · q)) = mult x l
  | [] => rfl
  | y :: l => by
    cases hy : quadEq y q with
    | true =>
      rw [List.eraseP_cons_of_pos (by simpa using hy)]
      have : quadEq y x = false := by
        cases hx : quadEq y x with
        | false => rfl
        | true =>
          have h1 : quadEq q y = true := by rw [quadEq_symm]; exact hy
          rw [quadEq_trans _ _ _ h1 hx] at h; cases h
      simp [mult, this]
    | false =>
      rw [List.eraseP_cons_of_neg (by simp [hy])]
      have ih := mult_eraseP_ne q x h l
      unfold mult at ih ⊢
      rw [List.filter_cons, List.filter_cons]
      cases quadEq y x <;> simp [ih]

theorem mult_eraseP_self (q : Quad) : ∀ l : List Quad, l.any (quadEq · q) = true →
    mult q (l.eraseP (quadEq · q)) + 1 = mult q l
  | [], h => by cases h
  | y :: l, h => by
    cases hy : quadEq y q with
    | true =>
      rw [List.eraseP_cons_of_pos (by simpa using hy)]
      simp [mult, hy]
    | false =>
      rw [List.eraseP_cons_of_neg (by simp [hy])]
      have h' : l.any (quadEq · q) = true := by simpa [List.any_cons, hy] using h
      have ih := mult_eraseP_self q l h'
      unfold mult at ih ⊢
      rw [List.filter_cons, List.filter_cons, hy]
      simpa using ih

theorem mult_zero_of_not_any (q : Quad) (l : List Quad) (h : l.any (quadEq · q) = false) : mult q l = 0 := by
  unfold mult
  rw [List.length_eq_zero_iff, List.filter_eq_nil_iff]
  intro y hy
  have := (List.any_eq_false.1 h) y hy
  simpa using this

theorem mult_pos_of_any (q : Quad) (l : List Quad) (h : l.any (quadEq · q) = true) : 0 < mult q l := by
  obtain ⟨y, hy, hq⟩ := List.any_eq_true.1 h
  unfold mult
  exact List.length_pos_of_mem (List.mem_filter.2 ⟨hy, hq⟩)

theorem mult_singleton_self (q : Quad) : mult q [q] = 1 := by
  simp [mult, quadEq_refl]

theorem mult_singleton_ne (q x : Quad) (h : quadEq q x = false) : mult x [q] = 0 := by
  simp [mult, h]

/-- `Vec<Spog<T>>`, `Vec<[T; 3]>` -/
def vecLawfulBag (n : Nat) (hn : n = 3 ∨ n = 4) : LawfulBag (vecImpl n) where
  toLawfulRead := (vecLawful n hn).toLawfulRead
  ins_inv := (vecLawful n hn).ins_inv
  rem_inv := (vecLawful n hn).rem_inv
  ins_others := by
    intro d q x _ h
    show mult x (d ++ [q]) = mult x d
    rw [mult_append, mult_singleton_ne q x h]; rfl
  ins_self := by
    intro d q _
    show 1 ≤ mult q (d ++ [q]) ∧ mult q d ≤ mult q (d ++ [q])
    rw [mult_append, mult_singleton_self]; omega
  rem_others := by
    intro d q x _ h
    exact mult_filter_ne q x h d
  rem_self := by
    intro d q _
    show mult q (d.filter (fun y => !quadEq y q)) < mult q d ∨ _
    rw [mult_filter_self]
    cases hm : mult q d with
    | zero => exact Or.inr ⟨hm, mult_filter_self q d⟩
    | succ k => exact Or.inl (Nat.succ_pos k)

/-- `Vec<Gspo<T>>` -/
def vecFirstLawfulBag (n : Nat) (hn : n = 3 ∨ n = 4) : LawfulBag (vecFirstImpl n) where
  toLawfulRead := vecFirstLawfulRead n hn
  ins_inv := by
    intro d q hI hq h3 x hx
    have hx' : x ∈ d ++ [q] := hx
    rcases List.mem_append.1 hx' with hx | hx
    · exact hI h3 x hx
    · rw [List.mem_singleton.1 hx]; exact hq h3
  rem_inv := by
    intro d q hI h3 x hx
    have hx' : x ∈ (if d.any (quadEq · q) then (d.eraseP (quadEq · q), true) else (d, false)).1 := hx
    split at hx'
    · exact hI h3 x (List.mem_of_mem_eraseP hx')
    · exact hI h3 x hx'
  ins_others := by
    intro d q x _ h
    show mult x (d ++ [q]) = mult x d
    rw [mult_append, mult_singleton_ne q x h]; rfl
  ins_self := by
    intro d q _
    show 1 ≤ mult q (d ++ [q]) ∧ mult q d ≤ mult q (d ++ [q])
    rw [mult_append, mult_singleton_self]; omega
  rem_others := by
    intro d q x _ h
    show mult x (if d.any (quadEq · q) then (d.eraseP (quadEq · q), true) else (d, false)).1 = mult x d
    split
    · exact mult_eraseP_ne q x h d
    · rfl
  rem_self := by
    intro d q _
    show mult q (if d.any (quadEq · q) then (d.eraseP (quadEq · q), true) else (d, false)).1 < mult q d ∨ _
    cases ha : d.any (quadEq · q) with
    | true =>
      simp only [if_true]
      have := mult_eraseP_self q d ha
      exact Or.inl (by omega)
    | false =>
      simp only [Bool.false_eq_true, if_false]
      refine Or.inr ⟨mult_zero_of_not_any q d ha, ?_⟩
      show mult q (if d.any (quadEq · q) then (d.eraseP (quadEq · q), true) else (d, false)).1 = 0
      rw [ha]
      exact mult_zero_of_not_any q d ha

end SophiaProofs.AdapterP
