import SophiaModel.Model.JsonLd

/-!
Invariants of `processQuads` needed by the C12 theorems:
slots are only ever appended, every seed / recorded parent is a slot whose node id is the subject
of an `rdf:rest` quad, every blank object is a key of `unique_parent`.
-/
namespace SophiaProofs.JsonLdLemmas
open SophiaModel SophiaModel.JsonLd
open SophiaModel.JsonLd.RdfObject (startsBn)

/-! ### association lists -/

theorem lookup_updParent_self (key : Id) (par : Nat × Id) :
    ∀ l, (lookup key (updParent key par l)).isSome = true
  | [] => by simp [updParent, lookup]
  | (k', v) :: rest => by
    by_cases h : (k' == key) = true
    · simp [updParent, lookup, h]
    · simp [updParent, lookup, h, lookup_updParent_self key par rest]

theorem lookup_updParent_keep (key : Id) (par : Nat × Id) (k : Id) :
    ∀ l, (lookup k l).isSome = true → (lookup k (updParent key par l)).isSome = true
  | [], h => by simp [lookup] at h
  | (k', v) :: rest, h => by
    by_cases hk : (k' == key) = true
    · by_cases hk2 : (k' == k) = true
      · simp [updParent, lookup, hk, hk2]
      · simp [updParent, lookup, hk, hk2] at h ⊢
        exact h
    · by_cases hk2 : (k' == k) = true
      · simp [updParent, lookup, hk, hk2]
      · simp [updParent, lookup, hk, hk2] at h ⊢
        exact lookup_updParent_keep key par k rest h

theorem lookup_updParent_some (key : Id) (par : Nat × Id) (k : Id) (x : Nat × Id) :
    ∀ l, lookup k (updParent key par l) = some (some x) → lookup k l = some (some x) ∨ x = par
  | [], h => by
    by_cases hk : (key == k) = true
    · simp [updParent, lookup, hk] at h
      exact Or.inr h.symm
    · simp [updParent, lookup, hk] at h
  | (k', v) :: rest, h => by
    by_cases hk : (k' == key) = true
    · by_cases hk2 : (k' == k) = true
      · simp only [updParent, hk, if_true, lookup, hk2] at h ⊢
        cases v with
        | none => simp at h
        | some p =>
          by_cases hp : (p != par) = true
          · simp [hp] at h
          · simp [hp] at h
            left; rw [h]
      · simp only [updParent, hk, if_true, lookup, hk2] at h ⊢
        left; exact h
    · by_cases hk2 : (k' == k) = true
      · simp [updParent, lookup, hk, hk2] at h ⊢
        left; exact h
      · simp [updParent, lookup, hk, hk2] at h ⊢
        exact lookup_updParent_some key par k x rest h

theorem mem_vecPushIfNew {α : Type} [BEq α] (v : List α) (x i : α) (h : i ∈ vecPushIfNew v x) :
    i ∈ v ∨ i = x := by
  unfold vecPushIfNew at h
  split at h
  · exact Or.inl h
  · rcases List.mem_append.mp h with h | h
    · exact Or.inl h
    · exact Or.inr (by simpa using h)

/-! ### slots are append-only -/

/-- `E'` comes from `E` by `index` / `push` steps -/
structure Ext (E E' : Engine) : Prop where
  gs : ∃ ext, E'.gsId = E.gsId ++ ext
  up : E'.uniqueParent = E.uniqueParent
  ls : E'.listSeeds = E.listSeeds

theorem Ext.refl (E : Engine) : Ext E E := ⟨⟨[], by simp⟩, rfl, rfl⟩

theorem Ext.trans {A B C : Engine} (h1 : Ext A B) (h2 : Ext B C) : Ext A C := by
  obtain ⟨e1, h1g⟩ := h1.gs
  obtain ⟨e2, h2g⟩ := h2.gs
  exact ⟨⟨e1 ++ e2, by rw [h2g, h1g, List.append_assoc]⟩, h2.up.trans h1.up, h2.ls.trans h1.ls⟩

theorem getElem?_append_some {α : Type} (l ext : List α) (i : Nat) (x : α) (h : l[i]? = some x) :
    (l ++ ext)[i]? = some x := by
  have hi : i < l.length := (List.getElem?_eq_some_iff.mp h).1
  rw [List.getElem?_append_left hi]; exact h

theorem Ext.get {E E' : Engine} (h : Ext E E') {i : Nat} {x : Id × Id} (hi : E.gsId[i]? = some x) :
    E'.gsId[i]? = some x := by
  obtain ⟨ext, hg⟩ := h.gs
  rw [hg]; exact getElem?_append_some _ _ _ _ hi

theorem findSlot_some (g s : Id) :
    ∀ (l : List (Id × Id)) (k i : Nat), findSlot g s l k = some i → k ≤ i ∧ l[i - k]? = some (g, s)
  | [], _, _, h => by simp [findSlot] at h
  | (g', s') :: rest, k, i, h => by
    unfold findSlot at h
    split at h
    · rename_i hc
      have hi : k = i := by simpa using h
      subst hi
      simp only [Bool.and_eq_true, beq_iff_eq] at hc
      simp [hc.1, hc.2]
    · have ⟨hle, hget⟩ := findSlot_some g s rest (k + 1) i h
      refine ⟨by omega, ?_⟩
      have : i - k = (i - (k + 1)) + 1 := by omega
      rw [this]; simpa using hget

theorem index_ext (E : Engine) (g s : Id) : Ext E (E.index g s).1 := by
  unfold Engine.index
  split
  · exact Ext.refl E
  · exact ⟨⟨[(g, s)], rfl⟩, rfl, rfl⟩

theorem index_get (E : Engine) (g s : Id) : (E.index g s).1.gsId[(E.index g s).2]? = some (g, s) := by
  unfold Engine.index
  split
  · rename_i i h
    simpa using (findSlot_some g s E.gsId 0 i h).2
  · simp

theorem push_ext (E : Engine) (i : Nat) (k : Id) (x : RdfObject) : Ext E (E.push i k x) :=
  ⟨⟨[], by simp [Engine.push]⟩, rfl, rfl⟩

theorem makeRdfObject_ext (E : Engine) (t : Term) (g : Id) : Ext E (E.makeRdfObject t g).1 := by
  cases t <;> simp only [Engine.makeRdfObject] <;> first | exact Ext.refl E | exact index_ext E g _

theorem linkGraph_ext (E : Engine) (q : Quad) : Ext E (linkGraph E q).1 := by
  unfold linkGraph
  cases q.g with
  | none => exact index_ext E _ _
  | some g =>
    exact (index_ext E _ _).trans ((index_ext _ _ _).trans (push_ext _ _ _ _))

theorem linkGraph_get (E : Engine) (q : Quad) :
    (linkGraph E q).1.gsId[(linkGraph E q).2]? = some (graphId q, asId q.s) := by
  unfold linkGraph
  cases q.g with
  | none => exact index_get E _ _
  | some g =>
    exact ((index_ext _ _ _).trans (push_ext _ _ _ _)).get (index_get E _ _)

theorem noteSeed_gsId (o : Opts) (q : Quad) (i : Nat) (E : Engine) : (noteSeed o q i E).gsId = E.gsId := by
  unfold noteSeed; repeat (first | rfl | split)

theorem noteSeed_up (o : Opts) (q : Quad) (i : Nat) (E : Engine) :
    (noteSeed o q i E).uniqueParent = E.uniqueParent := by
  unfold noteSeed; repeat (first | rfl | split)

theorem noteParent_gsId (q : Quad) (i : Nat) (E : Engine) : (noteParent q i E).gsId = E.gsId := by
  unfold noteParent; repeat (first | rfl | split)

theorem noteParent_ls (q : Quad) (i : Nat) (E : Engine) : (noteParent q i E).listSeeds = E.listSeeds := by
  unfold noteParent; repeat (first | rfl | split)

/-! ### the invariant -/

/-- `id` is the id of the subject of an expressible `rdf:rest` quad of `P` -/
def RestSubjId (P : List Quad) (id : Id) : Prop :=
  ∃ q ∈ P, isJsonLd q = true ∧ isIriC rdfRest q.p = true ∧ asId q.s = id

theorem RestSubjId.mono {P P' : List Quad} (h : ∀ q ∈ P, q ∈ P') {id : Id} : RestSubjId P id → RestSubjId P' id
  | ⟨q, hq, h1, h2, h3⟩ => ⟨q, h q hq, h1, h2, h3⟩

structure Inv (E : Engine) (P : List Quad) : Prop where
  seeds : ∀ i ∈ E.listSeeds, ∃ g s, E.gsId[i]? = some (g, s) ∧ startsBn s = true ∧ RestSubjId P s
  parents : ∀ k ip pp, lookup k E.uniqueParent = some (some (ip, pp)) →
    ∃ g s, E.gsId[ip]? = some (g, s) ∧ (pp = rdfRest → RestSubjId P s)
  keys : ∀ q ∈ P, isJsonLd q = true → isBnode q.o = true → (lookup (asId q.o) E.uniqueParent).isSome = true

theorem inv_init : Inv {} [] :=
  ⟨fun i h => by simp at h, fun k ip pp h => by simp [lookup] at h, fun q h => by simp at h⟩

theorem asId_iri_eq {t : Term} {c : Str} (ht : isIri t = true) (h : asId t = c) : isIriC c t = true := by
  cases t <;> simp_all [isIri, asId, isIriC]

theorem startsBn_asId_bnode {t : Term} (h : isBnode t = true) : startsBn (asId t) = true := by
  cases t <;> simp_all [isBnode, asId, startsBn]

theorem inv_step (o : Opts) {E : Engine} {P : List Quad} (q : Quad) (h : Inv E P) :
    Inv (processQuad o E q) (P ++ [q]) := by
  have hmono : ∀ x ∈ P, x ∈ P ++ [q] := fun x hx => List.mem_append_left _ hx
  by_cases hj : isJsonLd q = true
  · -- the quad is processed
    have hE : processQuad o E q =
        noteParent q (linkGraph E q).2 (noteSeed o q (linkGraph E q).2
          (((linkGraph E q).1.makeRdfObject q.o (graphId q)).1.push (linkGraph E q).2
            (predKey o q ((linkGraph E q).1.makeRdfObject q.o (graphId q)).2)
            ((linkGraph E q).1.makeRdfObject q.o (graphId q)).2)) := by
      simp [processQuad, hj]
    rw [hE]
    generalize hE3 : (((linkGraph E q).1.makeRdfObject q.o (graphId q)).1.push (linkGraph E q).2
            (predKey o q ((linkGraph E q).1.makeRdfObject q.o (graphId q)).2)
            ((linkGraph E q).1.makeRdfObject q.o (graphId q)).2) = E3
    have hext : Ext E E3 := by
      rw [← hE3]
      exact (linkGraph_ext E q).trans ((makeRdfObject_ext _ _ _).trans (push_ext _ _ _ _))
    have hget : E3.gsId[(linkGraph E q).2]? = some (graphId q, asId q.s) := by
      rw [← hE3]
      exact ((makeRdfObject_ext _ _ _).trans (push_ext _ _ _ _)).get (linkGraph_get E q)
    generalize (linkGraph E q).2 = is at hget ⊢
    have hq : q ∈ P ++ [q] := by simp
    -- facts about the two bookkeeping steps
    have hgs : (noteParent q is (noteSeed o q is E3)).gsId = E3.gsId := by
      rw [noteParent_gsId, noteSeed_gsId]
    have hjs : isSubject q.s = true ∧ isIri q.p = true := by
      simp only [isJsonLd, Bool.and_eq_true] at hj; exact ⟨hj.1.1.1, hj.1.1.2⟩
    refine ⟨?_, ?_, ?_⟩
    · -- seeds
      intro i hi
      have hi' : i ∈ E.listSeeds ∨ (i = is ∧ isBnode q.s = true ∧ isIriC rdfRest q.p = true) := by
        rw [noteParent_ls] at hi
        unfold noteSeed at hi
        split at hi
        · rename_i hb
          split at hi
          · rename_i hc
            simp only [Bool.and_eq_true] at hc
            rcases mem_vecPushIfNew _ _ _ hi with h1 | h1
            · left; rw [← hext.ls]; exact h1
            · right; exact ⟨h1, hb, hc.1⟩
          · split at hi <;> (left; rw [← hext.ls]; exact hi)
        · left; rw [← hext.ls]; exact hi
      rcases hi' with hi' | ⟨rfl, hb, hr⟩
      · obtain ⟨g, s, h1, h2, h3⟩ := h.seeds i hi'
        exact ⟨g, s, by rw [hgs]; exact hext.get h1, h2, h3.mono hmono⟩
      · exact ⟨_, _, by rw [hgs]; exact hget, startsBn_asId_bnode hb, q, hq, hj, hr, rfl⟩
    · -- parents
      intro k ip pp hl
      have hl' : lookup k E.uniqueParent = some (some (ip, pp)) ∨ (ip, pp) = (is, asId q.p) := by
        unfold noteParent at hl
        split at hl
        · have hup : (noteSeed o q is E3).uniqueParent = E.uniqueParent := by
            rw [noteSeed_up, hext.up]
          simp only [hup] at hl
          exact lookup_updParent_some _ _ _ _ _ hl
        · have hup : (noteSeed o q is E3).uniqueParent = E.uniqueParent := by
            rw [noteSeed_up, hext.up]
          rw [hup] at hl; exact Or.inl hl
      rcases hl' with hl' | hl'
      · obtain ⟨g, s, h1, h2⟩ := h.parents k ip pp hl'
        exact ⟨g, s, by rw [hgs]; exact hext.get h1, fun hp => (h2 hp).mono hmono⟩
      · have h1 : ip = is := congrArg Prod.fst hl'
        have h2 : pp = asId q.p := congrArg Prod.snd hl'
        subst h1
        exact ⟨_, _, by rw [hgs]; exact hget,
          fun hp => ⟨q, hq, hj, asId_iri_eq hjs.2 (h2 ▸ hp), rfl⟩⟩
    · -- keys
      intro q' hq' hj' hb'
      have hup : (noteSeed o q is E3).uniqueParent = E.uniqueParent := by
        rw [noteSeed_up, hext.up]
      rcases List.mem_append.mp hq' with hq' | hq'
      · have := h.keys q' hq' hj' hb'
        unfold noteParent
        split
        · simp only [hup]; exact lookup_updParent_keep _ _ _ _ this
        · rw [hup]; exact this
      · have : q' = q := by simpa using hq'
        subst this
        unfold noteParent
        simp only [hb', if_true]
        exact lookup_updParent_self _ _ _
  · -- the quad is skipped
    have hE : processQuad o E q = E := by simp [processQuad, hj]
    rw [hE]
    refine ⟨?_, ?_, ?_⟩
    · intro i hi
      obtain ⟨g, s, h1, h2, h3⟩ := h.seeds i hi
      exact ⟨g, s, h1, h2, h3.mono hmono⟩
    · intro k ip pp hl
      obtain ⟨g, s, h1, h2⟩ := h.parents k ip pp hl
      exact ⟨g, s, h1, fun hp => (h2 hp).mono hmono⟩
    · intro q' hq' hj' hb'
      rcases List.mem_append.mp hq' with hq' | hq'
      · exact h.keys q' hq' hj' hb'
      · have : q' = q := by simpa using hq'
        subst this
        exact absurd hj' hj

theorem inv_foldl (o : Opts) : ∀ (D : List Quad) (E : Engine) (P : List Quad), Inv E P →
    Inv (D.foldl (processQuad o) E) (P ++ D)
  | [], E, P, h => by simpa using h
  | q :: D, E, P, h => by
    have := inv_foldl o D (processQuad o E q) (P ++ [q]) (inv_step o q h)
    simpa using this

theorem inv_processQuads (o : Opts) (D : List Quad) : Inv (processQuads o D) D := by
  have := inv_foldl o D {} [] inv_init
  simpa [processQuads] using this

end SophiaProofs.JsonLdLemmas
