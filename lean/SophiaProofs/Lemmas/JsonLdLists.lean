import SophiaProofs.Lemmas.JsonLdTerm

/-!
Marked lists.  `OInv`: where blank-node values are stored, and what `unique_parent` records about them (every stored
occurrence is recorded; a `Some((slot, key))` entry means that slot / key is the ONLY place the label occurs).
`Marked`: the suppression condition `mark_list_node` establishes for every label it puts into `list_node`
(`markAll_marked`).  `render_no_panic` and the `jsonify*_no_panic` chain: with these, `convert_rdf_object`,
`populate_list`, `make_node_object` and `jsonify` never reach a panicking expression (`&id[..2]`,
`map[RDF_FIRST][0]`, `map[RDF_REST][0]`, `node[RDF_VALUE][0]`, `unreachable!()`).
-/

namespace SophiaProofs.JsonLdLemmas
open SophiaModel SophiaModel.JsonLd
open SophiaModel.JsonLd.RdfObject (startsBn)

/-! ### occurrences of stored values -/

/-- `v` is stored in slot `i` under key `k` -/
def Occ (E : Engine) (i : Nat) (k : Id) (v : RdfObject) : Prop :=
  ∃ (m : NodeMap) (vs : List RdfObject), E.node[i]? = some m ∧ (k, vs) ∈ m ∧ v ∈ vs

theorem lookup_mem {β : Type} (k : Id) : ∀ (m : List (Id × β)) (v : β), lookup k m = some v → (k, v) ∈ m
  | [], _, h => by simp [lookup] at h
  | (k', v') :: rest, v, h => by
    unfold lookup at h
    split at h
    · rename_i hk
      have : k' = k := eq_of_beq hk
      subst this
      injection h with h; subst h
      exact List.mem_cons_self
    · exact List.mem_cons_of_mem _ (lookup_mem k rest v h)

theorem mem_mapPushIfNew {k : Id} {x : RdfObject} : ∀ {m : NodeMap} {k' : Id} {vs' : List RdfObject} {v : RdfObject},
    (k', vs') ∈ mapPushIfNew k x m → v ∈ vs' → (∃ vs0, (k', vs0) ∈ m ∧ v ∈ vs0) ∨ (k' = k ∧ v = x)
  | [], k', vs', v, hm, hv => by
    simp only [mapPushIfNew, List.mem_singleton, Prod.mk.injEq] at hm
    obtain ⟨rfl, rfl⟩ := hm
    simp at hv
    exact Or.inr ⟨rfl, hv⟩
  | (k0, vs0) :: rest, k', vs', v, hm, hv => by
    unfold mapPushIfNew at hm
    split at hm
    · rename_i hkk
      have hkk' : k0 = k := by simpa using hkk
      simp only [List.mem_cons, Prod.mk.injEq] at hm
      rcases hm with ⟨rfl, rfl⟩ | hm
      · rcases (mem_vecPushIfNew_iff vs0 x v).mp hv with hv | rfl
        · exact Or.inl ⟨vs0, List.mem_cons_self, hv⟩
        · exact Or.inr ⟨hkk', rfl⟩
      · exact Or.inl ⟨vs', List.mem_cons_of_mem _ hm, hv⟩
    · simp only [List.mem_cons, Prod.mk.injEq] at hm
      rcases hm with ⟨rfl, rfl⟩ | hm
      · exact Or.inl ⟨_, List.mem_cons_self, hv⟩
      · rcases mem_mapPushIfNew hm hv with ⟨vs1, h1, h2⟩ | h
        · exact Or.inl ⟨vs1, List.mem_cons_of_mem _ h1, h2⟩
        · exact Or.inr h

theorem occ_push {E : Engine} {i0 : Nat} {k0 : Id} {x : RdfObject} {i : Nat} {k : Id} {v : RdfObject}
    (h : Occ (E.push i0 k0 x) i k v) : Occ E i k v ∨ (i = i0 ∧ k = k0 ∧ v = x) := by
  obtain ⟨m, vs, h1, h2, h3⟩ := h
  rw [node_push_get] at h1
  by_cases hi : i0 = i
  · subst hi
    simp only [if_true] at h1
    cases hm0 : E.node[i0]? with
    | none => rw [hm0] at h1; simp at h1
    | some m0 =>
      rw [hm0] at h1
      have : m = mapPushIfNew k0 x m0 := by simpa using h1.symm
      subst this
      rcases mem_mapPushIfNew h2 h3 with ⟨vs0, e1, e2⟩ | ⟨e1, e2⟩
      · exact Or.inl ⟨m0, vs0, hm0, e1, e2⟩
      · exact Or.inr ⟨rfl, e1, e2⟩
  · simp only [hi, if_false] at h1
    exact Or.inl ⟨m, vs, h1, h2, h3⟩

theorem occ_index {E : Engine} {g s : Id} {i : Nat} {k : Id} {v : RdfObject}
    (h : Occ (E.index g s).1 i k v) : Occ E i k v := by
  obtain ⟨m, vs, h1, h2, h3⟩ := h
  revert h1
  unfold Engine.index
  split
  · intro h1; exact ⟨m, vs, h1, h2, h3⟩
  · intro h1
    by_cases hj : i < E.node.length
    · rw [List.getElem?_append_left hj] at h1; exact ⟨m, vs, h1, h2, h3⟩
    · rw [List.getElem?_append_right (Nat.le_of_not_lt hj)] at h1
      cases hd : i - E.node.length with
      | zero => rw [hd] at h1; have : m = [] := by simpa using h1.symm
                subst this; simp at h2
      | succ n => rw [hd] at h1; simp at h1


theorem lookup_updParent_same (key : Id) (par : Nat × Id) : ∀ l : List (Id × Option (Nat × Id)),
    lookup key (updParent key par l) =
      match lookup key l with
      | none => some (some par)
      | some none => some none
      | some (some p) => if p != par then some none else some (some p)
  | [] => by simp [updParent, lookup]
  | (k', v) :: rest => by
    unfold updParent
    by_cases hk : (k' == key) = true
    · simp only [hk, if_true, lookup]
      cases v with
      | none => rfl
      | some p => simp only; split <;> rfl
    · have hk' : (k' == key) = false := by simpa using hk
      simp only [hk', Bool.false_eq_true, if_false, lookup]
      exact lookup_updParent_same key par rest

structure OInv (E : Engine) : Prop where
  /-- a node value stored under a real key carries the slot of its id in the graph of the slot it is stored in -/
  slot : ∀ (i : Nat) (k : Id) (j : Nat) (id : Id) (gs : Id × Id), Occ E i k (.node j id) → k ≠ kGraph →
    E.gsId[i]? = some gs → E.gsId[j]? = some (gs.1, id)
  /-- every stored occurrence of a blank node is recorded in `unique_parent`: as that very (slot, key), or as `None` -/
  recd : ∀ (i : Nat) (k : Id) (j : Nat) (id : Id), Occ E i k (.node j id) → k ≠ kGraph → startsBn id = true →
    lookup id E.uniqueParent = some none ∨ lookup id E.uniqueParent = some (some (i, k))

theorem oinv_init : OInv {} :=
  ⟨fun i k j id gs h => by obtain ⟨m, vs, h1, _⟩ := h; simp at h1,
   fun i k j id h => by obtain ⟨m, vs, h1, _⟩ := h; simp at h1⟩

theorem iriAbs_not_bn {s : Str} (h : iriAbs s = true) : startsBn s = false := by
  match s, h with
  | c :: d :: _, h =>
    simp only [iriAbs, Bool.and_eq_true] at h
    unfold startsBn
    split
    · rename_i heq
      injection heq with h1 _
      subst h1
      have : Char.isAlpha '_' = false := by decide
      rw [this] at h; exact absurd h.1 (by simp)
    · rfl

theorem occ_linkGraph {E : Engine} (q : Quad) {i : Nat} {k : Id} {v : RdfObject}
    (h : Occ (linkGraph E q).1 i k v) (hk : k ≠ kGraph) : Occ E i k v := by
  unfold linkGraph at h
  cases hg : q.g with
  | none => rw [hg] at h; exact occ_index h
  | some g =>
    rw [hg] at h
    simp only at h
    rcases occ_push h with h | ⟨_, hk', _⟩
    · exact occ_index (occ_index h)
    · exact absurd hk' hk

theorem occ_makeRdfObject {E : Engine} (t : Term) (g : Id) {i : Nat} {k : Id} {v : RdfObject}
    (h : Occ (E.makeRdfObject t g).1 i k v) : Occ E i k v := by
  cases t <;> simp only [Engine.makeRdfObject] at h <;> first | exact h | exact occ_index h

theorem oinv_step (o : Opts) {E : Engine} (h : OInv E) (ha : Aligned E) (q : Quad) (hq : quadAbs q = true) :
    OInv (processQuad o E q) := by
  by_cases hj : isJsonLd q = true
  · have hE : processQuad o E q =
        noteParent q (linkGraph E q).2 (noteSeed o q (linkGraph E q).2
          (((linkGraph E q).1.makeRdfObject q.o (graphId q)).1.push (linkGraph E q).2
            (predKey o q ((linkGraph E q).1.makeRdfObject q.o (graphId q)).2)
            ((linkGraph E q).1.makeRdfObject q.o (graphId q)).2)) := by
      simp [processQuad, hj]
    rw [hE]
    have habs : termAbs q.o = true := by
      simp only [quadAbs, Bool.and_eq_true] at hq; exact hq.1.2
    have hextL : Ext E (linkGraph E q).1 := linkGraph_ext E q
    have hextR : Ext (linkGraph E q).1 ((linkGraph E q).1.makeRdfObject q.o (graphId q)).1 := makeRdfObject_ext _ _ _
    have hgetR : ((linkGraph E q).1.makeRdfObject q.o (graphId q)).1.gsId[(linkGraph E q).2]? =
        some (graphId q, asId q.s) := hextR.get (linkGraph_get E q)
    have hF3 := makeRdfObject_node (linkGraph E q).1 q.o (graphId q)
    have hoccR : ∀ {i k v}, Occ ((linkGraph E q).1.makeRdfObject q.o (graphId q)).1 i k v → k ≠ kGraph → Occ E i k v :=
      fun h1 hk => occ_linkGraph q (occ_makeRdfObject _ _ h1) hk
    have hext : Ext E ((linkGraph E q).1.makeRdfObject q.o (graphId q)).1 := hextL.trans hextR
    -- what the object is
    have hobj : ∀ j id, ((linkGraph E q).1.makeRdfObject q.o (graphId q)).2 = .node j id → id = asId q.o ∧
        (startsBn id = true → isBnode q.o = true ∧
          predKey o q ((linkGraph E q).1.makeRdfObject q.o (graphId q)).2 = asId q.p) := by
      intro j id hR
      cases ho : q.o with
      | iri s =>
        rw [ho] at hR habs
        simp only [Engine.makeRdfObject, RdfObject.node.injEq] at hR
        refine ⟨hR.2.symm, fun hb => ?_⟩
        rw [← hR.2] at hb
        have := iriAbs_not_bn (s := s) (by simpa [termAbs] using habs)
        simp [asId, this] at hb
      | bnode b =>
        rw [ho] at hR
        simp only [Engine.makeRdfObject, RdfObject.node.injEq] at hR
        refine ⟨hR.2.symm, fun _ => ⟨rfl, ?_⟩⟩
        simp [predKey, Engine.makeRdfObject, RdfObject.isIri, asId, startsBn]
      | lit l d => rw [ho] at hR; simp [Engine.makeRdfObject] at hR
      | lang l t => rw [ho] at hR; simp [Engine.makeRdfObject] at hR
      | triple a b c =>
        simp only [isJsonLd, Bool.and_eq_true] at hj; rw [ho] at hj; simp [isObject] at hj
      | var v =>
        simp only [isJsonLd, Bool.and_eq_true] at hj; rw [ho] at hj; simp [isObject] at hj
    generalize hR : (linkGraph E q).1.makeRdfObject q.o (graphId q) = R at hgetR hF3 hoccR hext hobj ⊢
    generalize (linkGraph E q).2 = is at hgetR ⊢
    generalize hkey : predKey o q R.2 = key at hobj ⊢
    have hgs : (noteParent q is (noteSeed o q is (R.1.push is key R.2))).gsId = R.1.gsId := by
      rw [noteParent_gsId, noteSeed_gsId]; rfl
    have hnd : (noteParent q is (noteSeed o q is (R.1.push is key R.2))).node = (R.1.push is key R.2).node := by
      rw [noteParent_node, noteSeed_node]
    have hocc : ∀ {i k v}, Occ (noteParent q is (noteSeed o q is (R.1.push is key R.2))) i k v → k ≠ kGraph →
        Occ E i k v ∨ (i = is ∧ k = key ∧ v = R.2) := by
      intro i k v ho hk
      have ho' : Occ (R.1.push is key R.2) i k v := by
        obtain ⟨m, vs, h1, h2, h3⟩ := ho
        exact ⟨m, vs, by rw [← hnd]; exact h1, h2, h3⟩
      rcases occ_push ho' with h1 | h1
      · exact Or.inl (hoccR h1 hk)
      · exact Or.inr h1
    have hup : (noteParent q is (noteSeed o q is (R.1.push is key R.2))).uniqueParent =
        if isBnode q.o then updParent (asId q.o) (is, asId q.p) E.uniqueParent else E.uniqueParent := by
      unfold noteParent
      split
      · simp only [noteSeed_up]; show updParent _ _ R.1.uniqueParent = _; rw [hext.up]
      · rw [noteSeed_up]; show R.1.uniqueParent = _; rw [hext.up]
    refine ⟨?_, ?_⟩
    · intro i k j id gs ho hk hgsi
      rw [hgs] at hgsi ⊢
      rcases hocc ho hk with h1 | ⟨rfl, rfl, hv⟩
      · -- an old occurrence: slot `i` existed before
        have hil : i < E.gsId.length := by
          obtain ⟨m, vs, e1, _⟩ := h1
          exact ha ▸ (List.getElem?_eq_some_iff.mp e1).1
        have hgi : E.gsId[i]? = some E.gsId[i] := List.getElem?_eq_getElem hil
        have hgs' := hext.get hgi
        rw [hgsi] at hgs'
        injection hgs' with hgs'
        subst hgs'
        exact hext.get (h.slot i k j id _ h1 hk hgi)
      · rw [hgetR] at hgsi
        injection hgsi with hgsi
        rw [← hgsi]
        exact hF3 j id hv.symm
    · intro i k j id ho hk hb
      rw [hup]
      rcases hocc ho hk with h1 | ⟨rfl, rfl, hv⟩
      · have hold := h.recd i k j id h1 hk hb
        split
        · by_cases hid : id = asId q.o
          · subst hid
            rw [lookup_updParent_same]
            rcases hold with hold | hold
            · rw [hold]; exact Or.inl rfl
            · rw [hold]; simp only; split
              · exact Or.inl rfl
              · exact Or.inr rfl
          · rw [lookup_updParent_ne _ _ _ hid]; exact hold
        · exact hold
      · obtain ⟨hid, hrest⟩ := hobj j id hv.symm
        obtain ⟨hbn, hkp⟩ := hrest hb
        subst hid
        rw [hbn, if_pos rfl, lookup_updParent_same, ← hkp]
        -- whatever was there: absent -> this one; None -> None; Some p -> p itself (equal) or None
        cases hl : lookup (asId q.o) E.uniqueParent with
        | none => exact Or.inr rfl
        | some v =>
          cases v with
          | none => exact Or.inl rfl
          | some p =>
            simp only
            split
            · exact Or.inl rfl
            · rename_i hne
              have : p = (i, k) := by simpa using hne
              rw [this]; exact Or.inr rfl
  · have hE : processQuad o E q = E := by simp [processQuad, hj]
    rw [hE]; exact h


theorem oinv_foldl (o : Opts) : ∀ (D : List Quad) (E : Engine), PInv E → OInv E → (∀ q ∈ D, quadAbs q = true) →
    OInv (D.foldl (processQuad o) E)
  | [], _, _, h, _ => h
  | q :: D, E, hp, h, hq => by
    rw [List.foldl_cons]
    exact oinv_foldl o D _ (pinv_step o hp q) (oinv_step o h hp.aligned q (hq q List.mem_cons_self))
      (fun x hx => hq x (List.mem_cons_of_mem _ hx))

theorem oinv_processQuads (o : Opts) (D : List Quad) (hq : ∀ q ∈ D, quadAbs q = true) : OInv (processQuads o D) :=
  oinv_foldl o D {} pinv_init oinv_init hq

/-! ### what `mark_list_node` marks -/

/-- the `rdf:rest` value of a marked cell: `rdf:nil`, or a marked cell of the same graph -/
def TgtOk (E : Engine) (ln : List (Id × Nat)) (g : Id) (t : RdfObject) : Prop :=
  (∃ a, t = .node a rdfNil) ∨
    ∃ (c : Nat) (idc : Id), t = .node c idc ∧ (lookup idc ln).isSome = true ∧ E.gsId[c]? = some (g, idc)

/-- **the suppression condition**: a label is in `list_node` only if, in ONE graph `g`, its slot is a blank node of
list shape (`is_list_node`), the label's unique parent (the value stored in `list_node`) is a slot of the same graph,
and its single `rdf:rest` value is `rdf:nil` or again such a cell of `g` -/
def Marked (E : Engine) (ln : List (Id × Nat)) : Prop :=
  ∀ (id : Id) (ip : Nat), lookup id ln = some ip →
    ∃ (g : Id) (j : Nat) (pp ps : Id), E.gsId[j]? = some (g, id) ∧ startsBn id = true ∧
      lookup id E.uniqueParent = some (some (ip, pp)) ∧ E.gsId[ip]? = some (g, ps) ∧
      isListNode (E.node.getD j []) = true ∧ ∃ t, restVals E j = [t] ∧ TgtOk E ln g t

theorem lookup_insert {β : Type} (k k' : Id) (v : β) : ∀ l : List (Id × β),
    lookup k (JsonLd.insert k' v l) = if k' == k then some v else lookup k l
  | [] => by simp [JsonLd.insert, lookup]
  | (k0, v0) :: rest => by
    unfold JsonLd.insert
    by_cases h0 : (k0 == k') = true
    · have : k0 = k' := eq_of_beq h0
      subst this
      by_cases h : (k0 == k) = true <;> simp [lookup, h]
    · have h0' : (k0 == k') = false := by simpa using h0
      simp only [h0', Bool.false_eq_true, if_false]
      by_cases h : (k0 == k) = true
      · have hk : k0 = k := eq_of_beq h
        subst hk
        have : (k' == k0) = false := by
          cases hc : k' == k0
          · rfl
          · have := eq_of_beq hc; subst this; simp at h0'
        simp [lookup, this]
      · simp [lookup, h, lookup_insert k k' v rest]

theorem TgtOk.mono {E : Engine} {ln : List (Id × Nat)} {g : Id} {t : RdfObject} (k : Id) (v : Nat)
    (h : TgtOk E ln g t) : TgtOk E (JsonLd.insert k v ln) g t := by
  rcases h with h | ⟨c, idc, h1, h2, h3⟩
  · exact Or.inl h
  · refine Or.inr ⟨c, idc, h1, ?_, h3⟩
    rw [lookup_insert]; split
    · rfl
    · exact h2

theorem markListNode_marked (o : Opts) (E : Engine) (hp : PInv E) :
    ∀ (fuel inode : Nat) (ln ln' : List (Id × Nat)) (tgt : RdfObject),
      Marked E ln → tgt ∈ restVals E inode →
      (∀ g s, E.gsId[inode]? = some (g, s) → startsBn s = true ∧ TgtOk E ln g tgt) →
      markListNode o E fuel inode ln = .ok ln' → Marked E ln'
  | 0, _, _, _, _, _, _, _, h => by simp [markListNode] at h
  | fuel + 1, inode, ln, ln', tgt, hM, hmem, hbn, hres => by
    unfold markListNode at hres
    cases hgs : E.gsId[inode]? with
    | none => rw [hgs] at hres; simp at hres
    | some gs =>
      obtain ⟨gId, sId⟩ := gs
      rw [hgs] at hres
      simp only at hres
      cases hl : lookup sId E.uniqueParent with
      | none => rw [hl] at hres; simp only at hres; split at hres <;> simp at hres; subst hres; exact hM
      | some v =>
        rw [hl] at hres
        cases v with
        | none => simp at hres; subst hres; exact hM
        | some par =>
          obtain ⟨iparent, pp⟩ := par
          simp only at hres
          split at hres
          · simp at hres; subst hres; exact hM
          · cases hpg : E.gsId[iparent]? with
            | none => rw [hpg] at hres; simp at hres
            | some pgs =>
              obtain ⟨pgId, psId⟩ := pgs
              rw [hpg] at hres
              simp only at hres
              split at hres
              · rename_i hsame
                have hg : pgId = gId := eq_of_beq hsame
                subst hg
                split at hres
                · rename_i hlist
                  obtain ⟨hsbn, htg⟩ := hbn _ _ hgs
                  obtain ⟨x, hx⟩ := isListNode_rest hlist
                  have hrv : restVals E inode = [x] := by unfold restVals; rw [hx]; rfl
                  have hxt : x = tgt := by rw [hrv] at hmem; exact (List.mem_singleton.mp hmem).symm
                  subst hxt
                  -- the table after the insertion
                  have hM' : Marked E (JsonLd.insert sId iparent ln) := by
                    intro id ip hlk
                    rw [lookup_insert] at hlk
                    split at hlk
                    · rename_i hid
                      have : sId = id := eq_of_beq hid
                      subst this
                      injection hlk with hlk; subst hlk
                      exact ⟨pgId, inode, pp, psId, hgs, hsbn, hl, hpg, hlist, x, hrv, htg.mono _ _⟩
                    · obtain ⟨g, j, pp', ps, e1, e2, e3, e4, e5, t, e6, e7⟩ := hM id ip hlk
                      exact ⟨g, j, pp', ps, e1, e2, e3, e4, e5, t, e6, e7.mono _ _⟩
                  split at hres
                  · rename_i hcont
                    simp only [Bool.and_eq_true, beq_iff_eq] at hcont
                    obtain ⟨hpbn, hpr⟩ := hcont
                    subst hpr
                    obtain ⟨g, s, j, m, e1, e2, e3, e4⟩ := hp.parent sId iparent rdfRest hl
                    rw [hpg] at e1
                    have hgg : g = pgId := by injection e1 with e1; exact (congrArg Prod.fst e1).symm
                    subst hgg
                    have hj : j = inode := hp.uniq j inode _ e2 hgs
                    subst hj
                    have hmem' : RdfObject.node j sId ∈ restVals E iparent := by
                      simp only [restVals, getD_of_getElem? e3]; exact e4
                    refine markListNode_marked o E hp fuel iparent _ ln' _ hM' hmem' ?_ hres
                    intro g' s' hgs'
                    rw [hpg] at hgs'
                    injection hgs' with hgs'
                    cases hgs'
                    refine ⟨hpbn, Or.inr ⟨j, sId, rfl, ?_, hgs⟩⟩
                    rw [lookup_insert]; simp
                  · simp at hres; subst hres; exact hM'
                · simp at hres; subst hres; exact hM
              · simp at hres; subst hres; exact hM


theorem markAll_marked (o : Opts) (E : Engine) (D : List Quad) (hp : PInv E) (hi : Inv E D) :
    ∀ (seeds : List Nat) (ln ln' : List (Id × Nat)), (∀ i ∈ seeds, i ∈ E.listSeeds) → Marked E ln →
      markAll o E seeds ln = .ok ln' → Marked E ln'
  | [], ln, ln', _, hM, h => by simp [markAll] at h; subst h; exact hM
  | i :: rest, ln, ln', h, hM, hres => by
    unfold markAll at hres
    have him := h i List.mem_cons_self
    obtain ⟨a, m, hm1, hm2⟩ := hp.seedNil i him
    obtain ⟨g, s, hg1, hg2, _⟩ := hi.seeds i him
    cases hm : markListNode o E (E.gsId.length + 1) i ln with
    | error e => rw [hm] at hres; simp at hres
    | ok ln1 =>
      rw [hm] at hres
      have h1 := markListNode_marked o E hp (E.gsId.length + 1) i ln ln1 (.node a rdfNil) hM
        (by simp only [restVals, getD_of_getElem? hm1]; exact hm2)
        (fun g' s' hgs' => by
          rw [hg1] at hgs'; injection hgs' with hgs'; cases hgs'
          exact ⟨hg2, Or.inl ⟨a, rfl⟩⟩) hm
      exact markAll_marked o E D hp hi rest ln1 ln' (fun j hj => h j (List.mem_cons_of_mem _ hj)) h1 hres

theorem marked_nil (E : Engine) : Marked E [] := fun id ip h => by simp [lookup] at h

/-! ### rendering cannot panic -/

/-- `j` is the slot, in the graph of its unique parent, of a label in `list_node` -/
def CellSlot (R : Engine) (j : Nat) : Prop :=
  ∃ (g id : Id) (ip : Nat) (pp ps : Id), R.gsId[j]? = some (g, id) ∧ lookup id R.listNode = some ip ∧
    lookup id R.uniqueParent = some (some (ip, pp)) ∧ R.gsId[ip]? = some (g, ps)

theorem cell_facts {R : Engine} (hM : Marked R R.listNode)
    (huniq : ∀ (i j : Nat) (x : Id × Id), R.gsId[i]? = some x → R.gsId[j]? = some x → i = j)
    {j : Nat} (h : CellSlot R j) :
    ∃ g id, R.gsId[j]? = some (g, id) ∧ isListNode (R.node.getD j []) = true ∧
      ∃ t, restVals R j = [t] ∧ TgtOk R R.listNode g t := by
  obtain ⟨g, id, ip, pp, ps, h1, h2, h3, h4⟩ := h
  obtain ⟨g', j', pp', ps', e1, _, e3, e4, e5, t, e6, e7⟩ := hM id ip h2
  rw [h3] at e3
  rw [h4] at e4
  injection e4 with e4
  have hg : g' = g := (congrArg Prod.fst e4).symm
  subst hg
  have hj : j' = j := huniq j' j _ e1 h1
  subst hj
  exact ⟨g', id, h1, e5, t, e6, e7⟩

theorem prefix2_bn {id : Id} (h : prefix2 id = some ['_', ':']) : startsBn id = true := by
  match id, h with
  | [c], h => simp only [prefix2] at h; split at h <;> simp at h
  | c :: d :: rest, h =>
    simp only [prefix2] at h
    split at h
    · split at h
      · simp at h; obtain ⟨rfl, rfl⟩ := h; rfl
      · simp at h
    · split at h <;> simp at h

theorem isListNode_first {m : NodeMap} (h : isListNode m = true) : ∃ x, lookup rdfFirst m = some [x] := by
  unfold isListNode at h
  simp only [Bool.and_eq_true] at h
  have hr := h.1.1.2
  split at hr
  · rename_i v hv
    have : v.length = 1 := by simpa using hr
    match v, this with
    | [x], _ => exact ⟨x, hv⟩
  · cases hr

theorem isCompound_vals {m : NodeMap} (h : isCompoundLiteral m = true) :
    (∃ x, lookup rdfDirection m = some [x]) ∧ (∃ x, lookup rdfValue m = some [x]) := by
  unfold isCompoundLiteral at h
  simp only [Bool.and_eq_true] at h
  have hd := h.1.1.2
  have hv := h.1.2
  constructor
  · split at hd
    · exact ⟨_, by assumption⟩
    · cases hd
  · split at hv
    · exact ⟨_, by assumption⟩
    · cases hv

theorem rdfFirst_ne_kGraph : rdfFirst ≠ kGraph := by decide
theorem rdfRest_ne_kGraph : rdfRest ≠ kGraph := by decide

structure RenderOk (o : Opts) (R : Engine) : Prop where
  aligned : Aligned R
  uniq : ∀ (i j : Nat) (x : Id × Id), R.gsId[i]? = some x → R.gsId[j]? = some x → i = j
  occ : OInv R
  marked : Marked R R.listNode
  vals : ∀ m ∈ R.node, ValsOk m
  comp : o.dir = .compound → ∀ i, R.compound.contains i = true → isCompoundLiteral (R.node.getD i []) = true

theorem occ_valOk {o : Opts} {R : Engine} (h : RenderOk o R) {i : Nat} {k : Id} {v : RdfObject} (ho : Occ R i k v) : ValOk k v := by
  obtain ⟨m, vs, h1, h2, h3⟩ := ho
  exact h.vals m (List.mem_of_getElem? h1) k vs h2 v h3

theorem render_no_panic (o : Opts) (R : Engine) (h : RenderOk o R) :
    ∀ n : Nat,
      (∀ (v : RdfObject) (i : Nat) (k : Id), Occ R i k v → k ≠ kGraph → isPanic (convert o R n v) = false) ∧
      (∀ j : Nat, CellSlot R j → isPanic (populateList o R n j) = false) := by
  intro n
  induction n with
  | zero =>
    constructor
    · intro v i k ho hk
      cases v with
      | langString l t => unfold convert; rfl
      | typed l d => unfold convert; rfl
      | node inode id =>
        unfold convert
        split
        · rfl
        · have hp2 := (occ_valOk h ho).2 inode id rfl
          cases hpp : prefix2 id with
          | none => rw [hpp] at hp2; cases hp2
          | some p =>
            simp only
            split
            · rfl
            · split
              · rfl
              · split
                · rename_i hc
                  simp only [Bool.and_eq_true] at hc
                  obtain ⟨⟨x, hx⟩, ⟨y, hy⟩⟩ := isCompound_vals (h.comp (eq_of_beq hc.1) inode hc.2)
                  simp only [first0, hx, hy]; rfl
                · rfl
    · intro j _; unfold populateList; rfl
  | succ n ih =>
    obtain ⟨ihc, ihp⟩ := ih
    constructor
    · intro v i k ho hk
      cases v with
      | langString l t => unfold convert; rfl
      | typed l d => unfold convert; rfl
      | node inode id =>
        unfold convert
        split
        · rfl
        · have hp2 := (occ_valOk h ho).2 inode id rfl
          cases hpp : prefix2 id with
          | none => rw [hpp] at hp2; cases hp2
          | some p =>
            simp only
            split
            · rfl
            · rename_i hpb
              have hpb' : p = ['_', ':'] := by simpa using hpb
              subst hpb'
              have hbn := prefix2_bn hpp
              split
              · rename_i hln
                -- the occurrence of a marked label sits in its unique parent: `inode` is the marked slot
                obtain ⟨ip, hip⟩ := Option.isSome_iff_exists.mp hln
                obtain ⟨g, j', pp, ps, e1, _, e3, e4, _⟩ := h.marked id ip hip
                have hrec := h.occ.recd i k inode id ho hk hbn
                rw [e3] at hrec
                rcases hrec with hrec | hrec
                · cases hrec
                · injection hrec with hrec; injection hrec with hrec
                  have hi : ip = i := congrArg Prod.fst hrec
                  subst hi
                  have hslot := h.occ.slot ip k inode id _ ho hk e4
                  have hcell : CellSlot R inode := ⟨g, id, ip, pp, ps, hslot, hip, e3, e4⟩
                  have hthis := ihp inode hcell
                  cases hpl : populateList o R n inode with
                  | ok items => rfl
                  | error e => rw [hpl] at hthis; cases e <;> first | (simp [isPanic] at hthis; done) | rfl
              · split
                · rename_i hc
                  simp only [Bool.and_eq_true] at hc
                  obtain ⟨⟨x, hx⟩, ⟨y, hy⟩⟩ := isCompound_vals (h.comp (eq_of_beq hc.1) inode hc.2)
                  simp only [first0, hx, hy]; rfl
                · rfl
    · intro j hcell
      obtain ⟨g, id, hgs, hlist, t, hrv, htg⟩ := cell_facts h.marked h.uniq hcell
      have hjl : j < R.node.length := h.aligned.symm ▸ (List.getElem?_eq_some_iff.mp hgs).1
      have hnode : R.node[j]? = some (R.node.getD j []) := by
        rw [List.getD_eq_getElem?_getD, List.getElem?_eq_getElem hjl]; rfl
      obtain ⟨f, hf⟩ := isListNode_first hlist
      have hrest : lookup rdfRest (R.node.getD j []) = some [t] := by
        unfold restVals at hrv
        cases hl : lookup rdfRest (R.node.getD j []) with
        | none => rw [hl] at hrv; cases hrv
        | some vs => rw [hl] at hrv; simp at hrv; rw [hrv]
      have hoccf : Occ R j rdfFirst f := ⟨_, [f], hnode, lookup_mem _ _ _ hf, List.mem_singleton.mpr rfl⟩
      have hocct : Occ R j rdfRest t := ⟨_, [t], hnode, lookup_mem _ _ _ hrest, List.mem_singleton.mpr rfl⟩
      have hcf := ihc f j rdfFirst hoccf rdfFirst_ne_kGraph
      unfold populateList
      simp only [first0, hf, hrest]
      cases hcv : convert o R n f with
      | error e => rw [hcv] at hcf; cases e <;> first | (simp [isPanic] at hcf; done) | rfl
      | ok v =>
        simp only
        rcases htg with ⟨a, rfl⟩ | ⟨c, idc, rfl, hlc, hgc⟩
        · simp [isPanic]
        · simp only
          split
          · -- the next cell: marked, in the same graph, its unique parent is `j`
            obtain ⟨ipc, hipc⟩ := Option.isSome_iff_exists.mp hlc
            obtain ⟨gc, jc, ppc, psc, c1, cbn, c3, c4, _⟩ := h.marked idc ipc hipc
            have hrec := h.occ.recd j rdfRest c idc hocct rdfRest_ne_kGraph cbn
            rw [c3] at hrec
            rcases hrec with hrec | hrec
            · cases hrec
            · injection hrec with hrec; injection hrec with hrec
              have hi : ipc = j := congrArg Prod.fst hrec
              subst hi
              rw [hgs] at c4
              injection c4 with c4
              have hg : gc = g := (congrArg Prod.fst c4).symm
              subst hg
              have hcellc : CellSlot R c := ⟨gc, idc, ipc, ppc, psc, hgc, hipc, c3, by rw [hgs, c4]⟩
              have hthis := ihp c hcellc
              cases hpl : populateList o R n c with
              | ok tl => rfl
              | error e => rw [hpl] at hthis; cases e <;> first | (simp [isPanic] at hthis; done) | rfl
          · rfl


theorem convertAll_no_panic (o : Opts) (R : Engine) (h : RenderOk o R) (i : Nat) (k : Id) (hk : k ≠ kGraph) :
    ∀ vals : List RdfObject, (∀ v ∈ vals, Occ R i k v) → isPanic (convertAll o R vals) = false
  | [], _ => rfl
  | v :: rest, hv => by
    have h1 := (render_no_panic o R h (convFuel R)).1 v i k (hv v List.mem_cons_self) hk
    have h2 := convertAll_no_panic o R h i k hk rest (fun w hw => hv w (List.mem_cons_of_mem _ hw))
    unfold convertAll
    cases hc : convert o R (convFuel R) v with
    | error e => rw [hc] at h1; cases e <;> first | (simp [isPanic] at h1; done) | rfl
    | ok x =>
      simp only
      cases hr : convertAll o R rest with
      | error e => rw [hr] at h2; cases e <;> first | (simp [isPanic] at h2; done) | rfl
      | ok xs => rfl

theorem makeEntries_no_panic (o : Opts) (R : Engine) (h : RenderOk o R) (i : Nat) (m0 : NodeMap)
    (hm0 : R.node[i]? = some m0) : ∀ m : NodeMap, (∀ e ∈ m, e ∈ m0) → isPanic (makeEntries o R m) = false
  | [], _ => rfl
  | (k, vals) :: rest, hsub => by
    have ih := makeEntries_no_panic o R h i m0 hm0 rest (fun e he => hsub e (List.mem_cons_of_mem _ he))
    have hin : (k, vals) ∈ m0 := hsub _ List.mem_cons_self
    unfold makeEntries
    split
    · exact ih
    · rename_i hkg
      have hkg' : k ≠ kGraph := by intro he; subst he; simp at hkg
      split
      · -- "@type": every value is a node
        rename_i hkt
        have hkt' : k = kType := eq_of_beq hkt
        obtain ⟨ids, hids, _⟩ := typeIds_ok vals (fun v hv =>
          (h.vals m0 (List.mem_of_getElem? hm0) k vals hin v hv).1 hkt')
        simp only [hids]
        cases hr : makeEntries o R rest with
        | error e => rw [hr] at ih; cases e <;> first | (simp [isPanic] at ih; done) | rfl
        | ok r => rfl
      · have hc := convertAll_no_panic o R h i k hkg' vals (fun v hv => ⟨m0, vals, hm0, hin, hv⟩)
        cases hcv : convertAll o R vals with
        | error e => rw [hcv] at hc; cases e <;> first | (simp [isPanic] at hc; done) | rfl
        | ok vs =>
          simp only
          cases hr : makeEntries o R rest with
          | error e => rw [hr] at ih; cases e <;> first | (simp [isPanic] at ih; done) | rfl
          | ok r => rfl

theorem makeEntries_slot_no_panic (o : Opts) (R : Engine) (h : RenderOk o R) (i : Nat) :
    isPanic (makeEntries o R (R.node.getD i [])) = false := by
  cases hn : R.node[i]? with
  | none => simp [List.getD_eq_getElem?_getD, hn, makeEntries, isPanic]
  | some m0 =>
    rw [getD_of_getElem? hn]
    exact makeEntries_no_panic o R h i m0 hn m0 (fun _ he => he)

theorem jsonifyInner_no_panic (o : Opts) (R : Engine) (h : RenderOk o R) (i : Nat) :
    isPanic (jsonifyInner o R i) = false := by
  have hm := makeEntries_slot_no_panic o R h i
  unfold jsonifyInner
  split
  · rfl
  · cases hc : makeEntries o R (R.node.getD i []) with
    | error e => rw [hc] at hm; cases e <;> first | (simp [isPanic] at hm; done) | rfl
    | ok es => rfl

theorem jsonifyGraph_no_panic (o : Opts) (R : Engine) (h : RenderOk o R) :
    ∀ ng : List RdfObject, isPanic (jsonifyGraph o R ng) = false
  | [] => rfl
  | .node i2 _ :: rest => by
    have h1 := jsonifyInner_no_panic o R h i2
    have h2 := jsonifyGraph_no_panic o R h rest
    unfold jsonifyGraph
    cases hc : jsonifyInner o R i2 with
    | error e => rw [hc] at h1; cases e <;> first | (simp [isPanic] at h1; done) | rfl
    | ok r =>
      simp only
      cases hr : jsonifyGraph o R rest with
      | error e => rw [hr] at h2; cases e <;> first | (simp [isPanic] at h2; done) | rfl
      | ok rs => rfl
  | .langString _ _ :: rest => by unfold jsonifyGraph; exact jsonifyGraph_no_panic o R h rest
  | .typed _ _ :: rest => by unfold jsonifyGraph; exact jsonifyGraph_no_panic o R h rest

theorem jsonifyRoot_no_panic (o : Opts) (R : Engine) (h : RenderOk o R) (i : Nat) :
    isPanic (jsonifyRoot o R i) = false := by
  have hm := makeEntries_slot_no_panic o R h i
  unfold jsonifyRoot
  split
  · rfl
  · simp only
    cases hc : makeEntries o R (R.node.getD i []) with
    | error e => rw [hc] at hm; cases e <;> first | (simp [isPanic] at hm; done) | rfl
    | ok es =>
      simp only
      split
      · rfl
      · rename_i ng _
        have hg := jsonifyGraph_no_panic o R h ng
        cases hgc : jsonifyGraph o R ng with
        | error e => rw [hgc] at hg; cases e <;> first | (simp [isPanic] at hg; done) | rfl
        | ok g => rfl

theorem jsonifyAll_no_panic (o : Opts) (R : Engine) (h : RenderOk o R) :
    ∀ is : List Nat, isPanic (jsonifyAll o R is) = false
  | [] => rfl
  | i :: rest => by
    have h1 := jsonifyRoot_no_panic o R h i
    have h2 := jsonifyAll_no_panic o R h rest
    unfold jsonifyAll
    cases hc : jsonifyRoot o R i with
    | error e => rw [hc] at h1; cases e <;> first | (simp [isPanic] at h1; done) | rfl
    | ok r =>
      simp only
      cases hr : jsonifyAll o R rest with
      | error e => rw [hr] at h2; cases e <;> first | (simp [isPanic] at h2; done) | rfl
      | ok rs => rfl

end SophiaProofs.JsonLdLemmas
