/- Helper lemmas for Props/C04.lean (leaf writers of `SophiaModel.Pretty`). -/
import SophiaModel.Model.Pretty
import SophiaModel.Model.TurtleTokens
import SophiaModel.Gen.Regexes

namespace SophiaProofs.Lemmas.Pretty
open SophiaModel Re Pretty

/-! ### `getCheckedPrefixedPair` -/

abbrev Acc := Nat × Option (Str × Str)

def pickStep (iri : Str) (check : Str → Bool) (acc : Acc) (pn : Str × Str) : Acc :=
  let (matched, found) := acc
  let n := pn.2
  if n.isPrefixOf iri && n.length > matched then
    let suffix := iri.drop n.length
    if check suffix then (n.length, some (pn.1, suffix)) else (matched, found)
  else (matched, found)

theorem pick_eq (pm : List (Str × Str)) (iri : Str) (check : Str → Bool) :
    getCheckedPrefixedPair pm iri check = (pm.foldl (pickStep iri check) (0, none)).2 := rfl

def Inv (pm0 : List (Str × Str)) (iri : Str) (check : Str → Bool) (acc : Acc) : Prop :=
  match acc.2 with
  | none => acc.1 = 0
  | some (p, suf) => ∃ ns, (p, ns) ∈ pm0 ∧ ns ++ suf = iri ∧ check suf = true ∧ acc.1 = ns.length

theorem append_drop_of_isPrefixOf (n iri : Str) (h : n.isPrefixOf iri = true) : n ++ iri.drop n.length = iri := by
  have : n <+: iri := List.isPrefixOf_iff_prefix.mp h
  exact List.prefix_iff_eq_append.mp this

theorem inv_step (pm0 : List (Str × Str)) (iri : Str) (check : Str → Bool) (acc : Acc) (pn : Str × Str)
    (hmem : pn ∈ pm0) (h : Inv pm0 iri check acc) : Inv pm0 iri check (pickStep iri check acc pn) := by
  obtain ⟨matched, found⟩ := acc
  obtain ⟨p, n⟩ := pn
  unfold pickStep
  simp only
  split
  · rename_i hc
    split
    · rename_i hchk
      simp only [Bool.and_eq_true] at hc
      exact ⟨n, hmem, append_drop_of_isPrefixOf n iri hc.1, hchk, rfl⟩
    · exact h
  · exact h

theorem inv_fold (pm0 : List (Str × Str)) (iri : Str) (check : Str → Bool) (l : List (Str × Str))
    (hsub : ∀ x ∈ l, x ∈ pm0) (acc : Acc) (h : Inv pm0 iri check acc) :
    Inv pm0 iri check (l.foldl (pickStep iri check) acc) := by
  induction l generalizing acc with
  | nil => exact h
  | cons x xs ih =>
    simp only [List.foldl_cons]
    exact ih (fun y hy => hsub y (List.mem_cons_of_mem _ hy)) _
      (inv_step pm0 iri check acc x (hsub x List.mem_cons_self) h)

theorem pick_inv (pm : List (Str × Str)) (iri : Str) (check : Str → Bool) :
    Inv pm iri check (pm.foldl (pickStep iri check) (0, none)) :=
  inv_fold pm iri check pm (fun _ h => h) (0, none) rfl

theorem pick_sound (pm : List (Str × Str)) (iri : Str) (check : Str → Bool) (p suf : Str)
    (h : getCheckedPrefixedPair pm iri check = some (p, suf)) :
    ∃ ns, (p, ns) ∈ pm ∧ ns ++ suf = iri ∧ check suf = true := by
  have hi := pick_inv pm iri check
  rw [pick_eq] at h
  unfold Inv at hi
  rw [h] at hi
  obtain ⟨ns, h1, h2, h3, _⟩ := hi
  exact ⟨ns, h1, h2, h3⟩

theorem nodup_keys_unique (pm : List (Str × Str)) (hd : (pm.map (·.1)).Nodup) (p ns ns' : Str)
    (h : (p, ns) ∈ pm) (h' : (p, ns') ∈ pm) : ns = ns' := by
  induction pm with
  | nil => cases h
  | cons x xs ih =>
    simp only [List.map_cons, List.nodup_cons, List.mem_map, not_exists, not_and] at hd
    rcases List.mem_cons.mp h with h1 | h1 <;> rcases List.mem_cons.mp h' with h2 | h2
    · rw [← h1] at h2; exact ((Prod.mk.inj h2).2).symm
    · exact absurd (by rw [← h1]) (hd.1 (p, ns') h2)
    · exact absurd (by rw [← h2]) (hd.1 (p, ns) h1)
    · exact ih hd.2 h1 h2

/-- what "a candidate the loop would have liked" means -/
def good (iri : Str) (check : Str → Bool) (pn : Str × Str) : Prop :=
  pn.2.isPrefixOf iri = true ∧ check (iri.drop pn.2.length) = true

theorem step_mono (iri : Str) (check : Str → Bool) (acc : Acc) (pn : Str × Str) :
    acc.1 ≤ (pickStep iri check acc pn).1 := by
  obtain ⟨matched, found⟩ := acc
  unfold pickStep
  simp only
  split
  · rename_i hc
    split
    · simp only [Bool.and_eq_true, decide_eq_true_eq] at hc
      exact Nat.le_of_lt hc.2
    · exact Nat.le_refl _
  · exact Nat.le_refl _

theorem fold_mono (iri : Str) (check : Str → Bool) (l : List (Str × Str)) (acc : Acc) :
    acc.1 ≤ (l.foldl (pickStep iri check) acc).1 := by
  induction l generalizing acc with
  | nil => exact Nat.le_refl _
  | cons x xs ih => exact Nat.le_trans (step_mono iri check acc x) (ih _)

theorem step_covers (iri : Str) (check : Str → Bool) (acc : Acc) (pn : Str × Str) (hg : good iri check pn) :
    pn.2.length ≤ (pickStep iri check acc pn).1 := by
  obtain ⟨matched, found⟩ := acc
  obtain ⟨hp, hc⟩ := hg
  unfold pickStep
  simp only
  by_cases hlt : pn.2.length > matched
  · simp [hp, hlt, hc]
  · simp only [hp, hlt, decide_false, Bool.and_false, Bool.false_eq_true, ↓reduceIte]
    exact Nat.le_of_not_lt hlt

theorem fold_covers (iri : Str) (check : Str → Bool) (l : List (Str × Str)) (acc : Acc) :
    ∀ pn ∈ l, good iri check pn → pn.2.length ≤ (l.foldl (pickStep iri check) acc).1 := by
  induction l generalizing acc with
  | nil => intro pn h; cases h
  | cons x xs ih =>
    intro pn hmem hg
    simp only [List.foldl_cons]
    rcases List.mem_cons.mp hmem with h | h
    · subst h
      exact Nat.le_trans (step_covers iri check acc pn hg) (fold_mono iri check xs _)
    · exact ih _ pn h hg

theorem pick_longest (pm : List (Str × Str)) (iri : Str) (check : Str → Bool) (p suf : Str)
    (h : getCheckedPrefixedPair pm iri check = some (p, suf)) :
    ∀ p' ns', (p', ns') ∈ pm → ns'.isPrefixOf iri = true → check (iri.drop ns'.length) = true →
      ns'.length ≤ iri.length - suf.length := by
  intro p' ns' hmem hp hc
  have hcov : ns'.length ≤ _ := fold_covers iri check pm (0, none) (p', ns') hmem ⟨hp, hc⟩
  have hi := pick_inv pm iri check
  rw [pick_eq] at h
  unfold Inv at hi
  rw [h] at hi
  obtain ⟨ns, _, h2, _, h4⟩ := hi
  rw [h4] at hcov
  have : iri.length = ns.length + suf.length := by rw [← h2, List.length_append]
  omega

/-! ### backslash -/

theorem matches_star_any (w : List Nat) (h : ∀ c ∈ w, c ≤ 0x10FFFF) :
    Matches (.star (.cls [(0, 0x10FFFF)])) w := by
  induction w with
  | nil => exact .star0
  | cons c cs ih =>
    have hc : c ≤ 0x10FFFF := h c List.mem_cons_self
    have h1 : Matches (.cls [(0, 0x10FFFF)]) [c] := .cls (by simp [inCls, hc])
    exact Matches.starS (u := [c]) h1 (ih (fun x hx => h x (List.mem_cons_of_mem _ hx)))

theorem char_le (c : Char) : c.toNat ≤ 0x10FFFF := by
  have := c.valid
  rcases this with h | h
  · have : c.toNat < 0xD800 := h
    omega
  · have : c.toNat < 0x110000 := h.2
    omega

theorem hasBackslash_of_mem (s : Str) (h : '\\' ∈ s) : Matches TurtleTokens.hasBackslash (s.map Char.toNat) := by
  obtain ⟨a, b, rfl⟩ := List.append_of_mem h
  have ha : Matches (.star (.cls [(0, 0x10FFFF)])) (a.map Char.toNat) :=
    matches_star_any _ (by intro c hc; obtain ⟨x, _, rfl⟩ := List.mem_map.mp hc; exact char_le x)
  have hb : Matches (.star (.cls [(0, 0x10FFFF)])) (b.map Char.toNat) :=
    matches_star_any _ (by intro c hc; obtain ⟨x, _, rfl⟩ := List.mem_map.mp hc; exact char_le x)
  have hm : Matches (chr '\\') ['\\'.toNat] := .cls (by decide)
  have : (a ++ '\\' :: b).map Char.toNat = a.map Char.toNat ++ (['\\'.toNat] ++ b.map Char.toNat) := by simp
  rw [this]
  exact Matches.cat ha (Matches.cat hm hb)

/-! ### bare literals -/

/-- datatypes whose shorthand test is proved safe on the checked tree -/
def shorthandProved (dt : Str) : Prop :=
  dt = xsdInteger ∨ dt = xsdBoolean
  ∨ (dt = xsdDecimal ∧ witnessP okIncl Gen.TTL_DECIMAL TurtleTokens.DECIMAL = none)
  ∨ (dt = xsdDouble ∧ witnessP okIncl Gen.TTL_DOUBLE TurtleTokens.DOUBLE = none)

theorem bare_sound (dt lex : Str)
    (hI : ∀ w, Matches Gen.TTL_INTEGER w → Matches TurtleTokens.INTEGER w)
    (hB : ∀ w, Matches Gen.TTL_BOOLEAN w → Matches TurtleTokens.BOOLEAN w)
    (hD : witnessP okIncl Gen.TTL_DECIMAL TurtleTokens.DECIMAL = none →
      ∀ w, Matches Gen.TTL_DECIMAL w → Matches TurtleTokens.DECIMAL w)
    (hE : witnessP okIncl Gen.TTL_DOUBLE TurtleTokens.DOUBLE = none →
      ∀ w, Matches Gen.TTL_DOUBLE w → Matches TurtleTokens.DOUBLE w)
    (hp : shorthandProved dt) (h : shorthand dt lex = true) : turtleTokenOk dt lex = true := by
  have e1 : (xsdInteger == xsdDecimal) = false := by decide
  have e2 : (xsdInteger == xsdDouble) = false := by decide
  have e3 : (xsdInteger == xsdBoolean) = false := by decide
  have e4 : (xsdDecimal == xsdInteger) = false := by decide
  have e5 : (xsdDecimal == xsdDouble) = false := by decide
  have e6 : (xsdDecimal == xsdBoolean) = false := by decide
  have e7 : (xsdDouble == xsdInteger) = false := by decide
  have e8 : (xsdDouble == xsdDecimal) = false := by decide
  have e9 : (xsdDouble == xsdBoolean) = false := by decide
  have e10 : (xsdBoolean == xsdInteger) = false := by decide
  have e11 : (xsdBoolean == xsdDecimal) = false := by decide
  have e12 : (xsdBoolean == xsdDouble) = false := by decide
  unfold shorthand at h
  unfold turtleTokenOk
  rcases hp with rfl | rfl | ⟨rfl, hn⟩ | ⟨rfl, hn⟩
  · simp only [beq_self_eq_true, e1, e2, e3, Bool.true_and, Bool.false_and, Bool.or_false] at h ⊢
    exact (matchB_iff _ _).mpr (hI _ ((matchB_iff _ _).mp h))
  · simp only [beq_self_eq_true, e10, e11, e12, Bool.true_and, Bool.false_and, Bool.false_or] at h ⊢
    exact (matchB_iff _ _).mpr (hB _ ((matchB_iff _ _).mp h))
  · simp only [beq_self_eq_true, e4, e5, e6, Bool.true_and, Bool.false_and, Bool.false_or, Bool.or_false] at h ⊢
    exact (matchB_iff _ _).mpr (hD hn _ ((matchB_iff _ _).mp h))
  · simp only [beq_self_eq_true, e7, e8, e9, Bool.true_and, Bool.false_and, Bool.false_or, Bool.or_false] at h ⊢
    exact (matchB_iff _ _).mpr (hE hn _ ((matchB_iff _ _).mp h))

/-- the shorthand test is only ever true for the four datatypes with a Turtle shorthand -/
theorem shorthand_dt (dt lex : Str) (h : shorthand dt lex = true) :
    dt = xsdInteger ∨ dt = xsdDecimal ∨ dt = xsdDouble ∨ dt = xsdBoolean := by
  unfold shorthand at h
  simp only [Bool.or_eq_true, Bool.and_eq_true, beq_iff_eq] at h
  rcases h with ((⟨h, _⟩ | ⟨h, _⟩) | ⟨h, _⟩) | ⟨h, _⟩
  · exact Or.inl h
  · exact Or.inr (Or.inl h)
  · exact Or.inr (Or.inr (Or.inl h))
  · exact Or.inr (Or.inr (Or.inr h))

/-- FULL statement of bare-literal safety from the four token inclusions -/
theorem bare_sound_full (dt lex : Str)
    (hI : ∀ w, Matches Gen.TTL_INTEGER w → Matches TurtleTokens.INTEGER w)
    (hB : ∀ w, Matches Gen.TTL_BOOLEAN w → Matches TurtleTokens.BOOLEAN w)
    (hD : ∀ w, Matches Gen.TTL_DECIMAL w → Matches TurtleTokens.DECIMAL w)
    (hE : ∀ w, Matches Gen.TTL_DOUBLE w → Matches TurtleTokens.DOUBLE w)
    (h : shorthand dt lex = true) : turtleTokenOk dt lex = true := by
  rcases shorthand_dt dt lex h with rfl | rfl | rfl | rfl
  · exact bare_sound _ lex hI hB (fun _ => hD) (fun _ => hE) (Or.inl rfl) h
  · -- decimal: replay `bare_sound`'s case with the inclusion itself
    have e4 : (xsdDecimal == xsdInteger) = false := by decide
    have e5 : (xsdDecimal == xsdDouble) = false := by decide
    have e6 : (xsdDecimal == xsdBoolean) = false := by decide
    unfold shorthand at h
    unfold turtleTokenOk
    simp only [beq_self_eq_true, e4, e5, e6, Bool.true_and, Bool.false_and, Bool.false_or, Bool.or_false] at h ⊢
    exact (matchB_iff _ _).mpr (hD _ ((matchB_iff _ _).mp h))
  · have e7 : (xsdDouble == xsdInteger) = false := by decide
    have e8 : (xsdDouble == xsdDecimal) = false := by decide
    have e9 : (xsdDouble == xsdBoolean) = false := by decide
    unfold shorthand at h
    unfold turtleTokenOk
    simp only [beq_self_eq_true, e7, e8, e9, Bool.true_and, Bool.false_and, Bool.false_or, Bool.or_false] at h ⊢
    exact (matchB_iff _ _).mpr (hE _ ((matchB_iff _ _).mp h))
  · exact bare_sound _ lex hI hB (fun _ => hD) (fun _ => hE) (Or.inr (Or.inl rfl)) h

end SophiaProofs.Lemmas.Pretty
