import SophiaProofs.Lemmas.JsonLd

/-!
Helper lemmas for the C12 theorems: the marking phase cannot hit the `unique_parent[..]` panic under the
invariants of `processQuads`; skipped quads leave the engine unchanged; characterisations of `is_subject` /
`is_object`; no `rdf:rest` quad, no seed.
-/
namespace SophiaProofs.JsonLdLemmas
open SophiaModel SophiaModel.JsonLd
open SophiaModel.JsonLd.RdfObject (startsBn)

def isPanic {α : Type} : Res α → Bool
  | .error .panic => true
  | _ => false

theorem markListNode_no_panic (o : Opts) (E : Engine) (D : List Quad)
    (hpar : ∀ k ip pp, lookup k E.uniqueParent = some (some (ip, pp)) →
      ∃ g s, E.gsId[ip]? = some (g, s) ∧ (pp = rdfRest → RestSubjId D s))
    (hkey : Gen.JsonLdFlags.uniqueParentGet = true ∨
      ∀ s, startsBn s = true → RestSubjId D s → (lookup s E.uniqueParent).isSome = true) :
    ∀ (fuel inode : Nat) (ln : List (Id × Nat)),
      (∃ g s, E.gsId[inode]? = some (g, s) ∧ startsBn s = true ∧ RestSubjId D s) →
      isPanic (markListNode o E fuel inode ln) = false
  | 0, _, _, _ => by simp [markListNode, isPanic]
  | fuel + 1, inode, ln, ⟨g, s, hgs, hbn, hrs⟩ => by
    unfold markListNode
    simp only [hgs]
    cases hl : lookup s E.uniqueParent with
    | none =>
      rcases hkey with hf | hk
      · simp [hf, isPanic]
      · have := hk s hbn hrs
        rw [hl] at this; simp at this
    | some v =>
      cases v with
      | none => simp [isPanic]
      | some par =>
        obtain ⟨ip, pp⟩ := par
        obtain ⟨pg, ps, hpg, hps⟩ := hpar s ip pp hl
        simp only [hpg]
        split
        · simp [isPanic]
        · split
          · split
            · split
              · rename_i hc
                simp only [Bool.and_eq_true, beq_iff_eq] at hc
                exact markListNode_no_panic o E D hpar hkey fuel ip _ ⟨pg, ps, hpg, hc.1, hps hc.2⟩
              · simp [isPanic]
            · simp [isPanic]
          · simp [isPanic]

theorem markAll_no_panic (o : Opts) (E : Engine) (D : List Quad)
    (hpar : ∀ k ip pp, lookup k E.uniqueParent = some (some (ip, pp)) →
      ∃ g s, E.gsId[ip]? = some (g, s) ∧ (pp = rdfRest → RestSubjId D s))
    (hkey : Gen.JsonLdFlags.uniqueParentGet = true ∨
      ∀ s, startsBn s = true → RestSubjId D s → (lookup s E.uniqueParent).isSome = true) :
    ∀ (seeds : List Nat) (ln : List (Id × Nat)),
      (∀ i ∈ seeds, ∃ g s, E.gsId[i]? = some (g, s) ∧ startsBn s = true ∧ RestSubjId D s) →
      isPanic (markAll o E seeds ln) = false
  | [], _, _ => by simp [markAll, isPanic]
  | i :: rest, ln, h => by
    unfold markAll
    have h1 := markListNode_no_panic o E D hpar hkey (E.gsId.length + 1) i ln (h i List.mem_cons_self)
    cases hm : markListNode o E (E.gsId.length + 1) i ln with
    | ok ln' =>
      exact markAll_no_panic o E D hpar hkey rest ln' (fun j hj => h j (List.mem_cons_of_mem _ hj))
    | error e =>
      rw [hm] at h1
      cases e <;> simp [isPanic] at h1 ⊢

theorem processQuad_skip (o : Opts) (E : Engine) (q : Quad) (h : isJsonLd q = false) :
    processQuad o E q = E := by simp [processQuad, h]

theorem foldl_filter (o : Opts) : ∀ (D : List Quad) (E : Engine),
    D.foldl (processQuad o) E = (D.filter isJsonLd).foldl (processQuad o) E
  | [], _ => rfl
  | q :: D, E => by
    cases h : isJsonLd q with
    | true => simp [List.filter, h, foldl_filter o D]
    | false => simp [List.filter, h, processQuad_skip o E q h, foldl_filter o D]

theorem isSubject_spec (t : Term) : isSubject t = true ↔ (∃ s, t = .iri s) ∨ (∃ b, t = .bnode b) := by
  cases t <;> simp [isSubject]

theorem isIri_spec (t : Term) : isIri t = true ↔ ∃ s, t = .iri s := by
  cases t <;> simp [isIri]

theorem isObject_spec (t : Term) : isObject t = true ↔
    (∃ s, t = .iri s) ∨ (∃ b, t = .bnode b) ∨ (∃ l d, t = .lit l d) ∨ (∃ l g, t = .lang l g) := by
  cases t <;> simp [isObject]

theorem nolist_no_seeds (o : Opts) (D : List Quad) (h : ∀ q ∈ D, isIriC rdfRest q.p = false) :
    (processQuads o D).listSeeds = [] := by
  have inv := inv_processQuads o D
  cases hl : (processQuads o D).listSeeds with
  | nil => rfl
  | cons i rest =>
    obtain ⟨_, _, _, _, q, hq, _, hr, _⟩ := inv.seeds i (by rw [hl]; exact List.mem_cons_self)
    rw [h q hq] at hr; cases hr

end SophiaProofs.JsonLdLemmas
