/-
C17 lemma library, part 3: the same-document branches of `relativize` (fragment / query tails).
-/
import SophiaProofs.Lemmas.RelativizeSplit

namespace SophiaProofs.Relativize
open SophiaModel SophiaModel.Rfc3986 SophiaModel.Relativize

/-- number of "../" inserted -/
def insUps : Ins → Nat
  | .up k => k
  | _ => 0

theorem cdd_dotdots (k : Nat) (t : Octets) : countDotDot (dotdots k ++ t) = k + countDotDot t := by
  induction k with
  | zero => simp [dotdots]
  | succ k ih => simp [dotdots, countDotDot, ih]; omega

theorem cdd_zero {t : Octets} (h : noDotSegs (spanNot ['?', '#'] t).1 = true) : countDotDot t = 0 := by
  unfold countDotDot
  split
  · exfalso; simp [spanNot, noDotSegs, splitSlash, isDotSeg] at h
  · exfalso; simp [spanNot, noDotSegs, splitSlash, isDotSeg] at h
  · exfalso; simp [spanNot, noDotSegs, splitSlash, isDotSeg] at h
  · exfalso; simp [spanNot, noDotSegs, splitSlash, isDotSeg] at h
  · rfl

theorem split_nil : split [] = ⟨none, none, [], none, none⟩ := by simp [split, spanNot]
theorem split_hash (f : Str) : split ('#' :: f) = ⟨none, none, [], none, some f⟩ := by simp [split, spanNot]
theorem split_qmark (rest : Str) : split ('?' :: rest) =
    ⟨none, none, [], some (spanNot ['#'] rest).1, stage5 (spanNot ['#'] rest).2⟩ := by
  rw [split_eq]; simp [stage1, stage2, stage4, spanNot]

theorem transform_samedoc_none (b : Parts) (f : Option Str) :
    transform b ⟨none, none, [], none, f⟩ = ⟨b.scheme, b.authority, b.path, b.query, f⟩ := by
  simp [transform]

theorem transform_samedoc_some (b : Parts) (q : Str) (f : Option Str) :
    transform b ⟨none, none, [], some q, f⟩ = ⟨b.scheme, b.authority, b.path, some q, f⟩ := by
  simp [transform]

theorem recompose_parts (sc au : Option Str) (p : Str) (q f : Option Str) :
    recompose ⟨sc, au, p, q, f⟩ = schemeO sc ++ authO au ++ p ++ queryO q ++ fragO f := by
  rw [recompose_eq]; rfl

/-- branch 1 with an empty or fragment tail (region F) -/
theorem inverse_fragment {base : Octets} {n : Nat} {iri : Octets} {ins : Ins} {t : Octets}
    (hs : (split base).scheme.isSome)
    (h : relativize (new base n) iri = .some ins t)
    (hl : lcp base iri ≥ (new base n).query_end)
    (ht : t = [] ∨ ∃ f, t = '#' :: f) :
    resolve base (ins.str ++ t) = iri ∧
      (split (ins.str ++ t)).scheme = none ∧ (split (ins.str ++ t)).authority = none ∧
      countDotDot (ins.str ++ t) = insUps ins := by
  have hb := new_base base n
  rw [new_query_end base n hs] at hl
  rcases relativize_cases h with ⟨hi, _, hsl⟩ | ⟨_, h2, _⟩ | ⟨_, h2, _⟩ | ⟨h2, _⟩
  · subst hi
    rw [new_query_end base n hs] at hsl
    have htd := sliceFrom_some hsl
    have hd := base_decomp base
    have hiri : iri = (preStr (split base) ++ (split base).path ++ queryStr (split base)) ++ t := by
      rw [htd]
      apply lcp_prefix (a := fragStr (split base))
      rw [← hd]; exact hl
    unfold resolve
    simp only [Ins.str, List.nil_append]
    rcases ht with rfl | ⟨f, rfl⟩
    · refine ⟨?_, by rw [split_nil], by rw [split_nil], by simp [countDotDot, insUps]⟩
      rw [split_nil, transform_samedoc_none, recompose_parts]
      rw [hiri]; simp [preStr, schemeStr, authStr, queryStr, fragO]
    · refine ⟨?_, by rw [split_hash], by rw [split_hash], by simp [countDotDot, insUps]⟩
      rw [split_hash, transform_samedoc_none, recompose_parts]
      rw [hiri]; simp [preStr, schemeStr, authStr, queryStr, fragO]
  · rw [hb, new_query_end base n hs] at h2; omega
  · rw [hb, new_query_end base n hs] at h2; omega
  · rw [hb, new_query_end base n hs] at h2; omega

theorem startsWith_cons {c : Char} {t : Octets} (h : startsWith c t = true) : ∃ r, t = c :: r := by
  cases t with
  | nil => simp [startsWith] at h
  | cons x xs => simp [startsWith] at h; exact ⟨xs, by rw [h]⟩

/-- a query tail that follows the complete common path (region Q) -/
theorem inverse_query {base : Octets} {n : Nat} {iri : Octets} {ins : Ins} {t : Octets}
    (hs : (split base).scheme.isSome)
    (h : relativize (new base n) iri = .some ins t)
    (hl : lcp base iri ≥ (new base n).path_end)
    (hq : startsWith '?' (iri.drop (new base n).path_end) = true)
    (hb : lcp base iri < (new base n).query_end ∨ (split base).query = none) :
    resolve base (ins.str ++ t) = iri ∧
      (split (ins.str ++ t)).scheme = none ∧ (split (ins.str ++ t)).authority = none ∧
      countDotDot (ins.str ++ t) = insUps ins := by
  have hbase := new_base base n
  have hqe := new_query_end base n hs
  have hpe := new_path_end base n hs
  have hd := base_decomp base
  have hiri : iri = (preStr (split base) ++ (split base).path) ++ iri.drop (new base n).path_end := by
    rw [hpe]
    apply lcp_prefix (a := queryStr (split base) ++ fragStr (split base))
    rw [← List.append_assoc, ← hd, ← hpe]; exact hl
  -- in every branch that can be taken, ins = nothing and t = iri.drop path_end
  have key : ins = .nothing ∧ t = iri.drop (new base n).path_end := by
    rcases relativize_cases h with ⟨hi, h1, hsl⟩ | ⟨hi, _, _, hsl⟩ | ⟨hi, _, _, hsl, _⟩ | ⟨_, h2, h3, _⟩
    · refine ⟨hi, ?_⟩
      rw [hbase] at h1
      have hqn : (split base).query = none := by
        rcases hb with hb | hb
        · omega
        · exact hb
      have : (new base n).query_end = (new base n).path_end := by
        rw [hqe, hpe]; simp [queryStr, queryO, hqn]
      rw [← this]; exact sliceFrom_some hsl
    · exact ⟨hi, sliceFrom_some hsl⟩
    · exact ⟨hi, sliceFrom_some hsl⟩
    · rw [hbase] at h2 h3
      obtain ⟨u, hu, _, hqh⟩ := h3 (by omega)
      rw [sliceFrom_some hu] at hqh
      obtain ⟨r, hr⟩ := startsWith_cons hq
      rw [hr] at hqh
      simp [startsQH] at hqh
  obtain ⟨hi, ht⟩ := key
  subst hi
  obtain ⟨rest, hrest⟩ := startsWith_cons hq
  rw [← ht] at hrest hiri
  subst hrest
  refine ⟨?_, by simp only [Ins.str, List.nil_append]; rw [split_qmark],
    by simp only [Ins.str, List.nil_append]; rw [split_qmark], by simp [Ins.str, countDotDot, insUps]⟩
  unfold resolve
  simp only [Ins.str, List.nil_append]
  rw [split_qmark, transform_samedoc_some, recompose_parts]
  conv => rhs; rw [hiri]
  have e1 := spanNot_append ['#'] rest
  have e2 := stage5_spec _ (spanNot_snd ['#'] rest)
  simp only [preStr, schemeStr, authStr, queryO, List.append_assoc, List.cons_append]
  rw [← e2, e1]

theorem withSlice_ne_none {iri : Octets} {k : Nat} {f : Octets → Outcome} (hf : ∀ u, f u ≠ .none) :
    withSlice iri k f ≠ .none := by
  unfold withSlice
  cases sliceFrom iri k with
  | none => simp
  | some u => exact hf u

theorem queryO_fragO_starts (q f : Option Str) :
    queryO q ++ fragO f = [] ∨ startsQH (queryO q ++ fragO f) = true := by
  cases q <;> cases f <;> simp [queryO, fragO, startsQH]

/-- an IRI with the scheme, authority and path of the base is always relativised (or panics): never `None` -/
theorem same_doc_ne_none {base : Octets} {n : Nat} {iri : Octets}
    (hs : (split base).scheme.isSome)
    (h1 : (split iri).scheme = (split base).scheme) (h2 : (split iri).authority = (split base).authority)
    (h3 : (split iri).path = (split base).path) :
    relativize (new base n) iri ≠ .none := by
  have hbase := new_base base n
  have hpe := new_path_end base n hs
  have hd := base_decomp base
  have hdi := base_decomp iri
  have hpre : preStr (split iri) = preStr (split base) := by
    simp [preStr, schemeStr, authStr, h1, h2]
  rw [hpre, h3] at hdi
  have hl : lcp base iri ≥ (new base n).path_end := by
    rw [hpe]
    conv => lhs; rw [hd, hdi]
    rw [List.append_assoc, List.append_assoc _ _ (fragStr (split iri)), lcp_append_left]
    omega
  have hdrop : iri.drop (new base n).path_end = queryStr (split iri) ++ fragStr (split iri) := by
    rw [hpe]
    conv => lhs; rw [hdi]
    rw [List.append_assoc, List.drop_left]
  have hlen : iri.length = (new base n).path_end + (queryStr (split iri) ++ fragStr (split iri)).length := by
    rw [hpe]
    conv => lhs; rw [hdi]
    simp [List.length_append]; omega
  unfold relativize
  simp only [hbase]
  split
  · exact withSlice_ne_none (by intro u; simp)
  · split
    · exact withSlice_ne_none (by intro u; simp)
    · split
      · unfold withSlice
        cases hsl : sliceFrom iri (new base n).path_end with
        | none => simp
        | some u =>
          have hu := sliceFrom_some hsl
          rw [hdrop] at hu
          simp only
          rcases queryO_fragO_starts (split iri).query (split iri).fragment with he | he
          · have : iri.length = (new base n).path_end := by
              rw [hlen]; simp [queryStr, fragStr, he]
            simp [this]
          · have : startsQH u = true := by rw [hu]; exact he
            simp [this]
      · omega

end SophiaProofs.Relativize
