/-
Helper lemmas for C14: total preorders given by comparators (restricted to a set), closure under
reversal / unbound-first lifting / lexicographic combination, and the exact number orders.
-/
import SophiaModel.Model.OrderBy
import SophiaProofs.Props.C02

namespace SophiaProofs.OrderByLemmas
open SophiaModel SophiaModel.Term SophiaModel.OrderBy Std SophiaProofs

/-- `c` is a total preorder on the elements satisfying `S`: reflexive-as-`eq`, antisymmetric up to
swapping the arguments, transitive -/
structure TotalPreorderOn {α : Type} (c : α → α → Ordering) (S : α → Prop) : Prop where
  refl : ∀ a, S a → c a a = .eq
  swap : ∀ a b, S a → S b → c b a = (c a b).swap
  trans : ∀ a b d, S a → S b → S d → (c a b).isLE = true → (c b d).isLE = true → (c a d).isLE = true

theorem TotalPreorderOn.mono {α : Type} {c : α → α → Ordering} {S T : α → Prop}
    (h : TotalPreorderOn c S) (hTS : ∀ a, T a → S a) : TotalPreorderOn c T :=
  ⟨fun a ha => h.refl a (hTS a ha), fun a b ha hb => h.swap a b (hTS a ha) (hTS b hb),
   fun a b d ha hb hd => h.trans a b d (hTS a ha) (hTS b hb) (hTS d hd)⟩

/-- strict transitivity follows -/
theorem TotalPreorderOn.lt_trans {α : Type} {c : α → α → Ordering} {S : α → Prop}
    (h : TotalPreorderOn c S) {a b d : α} (ha : S a) (hb : S b) (hd : S d)
    (h1 : c a b = .lt) (h2 : c b d = .lt) : c a d = .lt := by
  have hle := h.trans a b d ha hb hd (by simp [h1]) (by simp [h2])
  cases had : c a d with
  | lt => rfl
  | gt => simp [had] at hle
  | eq =>
    -- then d ≤ a ≤ b, contradicting b < d
    have hda : (c d a).isLE = true := by rw [h.swap a d ha hd, had]; rfl
    have hdb := h.trans d a b hd ha hb hda (by simp [h1])
    rw [h.swap b d hb hd, h2] at hdb
    simp at hdb

/-- no strict 3-cycle inside a total preorder -/
theorem TotalPreorderOn.no_cycle {α : Type} {c : α → α → Ordering} {S : α → Prop}
    (h : TotalPreorderOn c S) {a b d : α} (ha : S a) (hb : S b) (hd : S d) :
    ¬ (c a b = .lt ∧ c b d = .lt ∧ c d a = .lt) := by
  rintro ⟨h1, h2, h3⟩
  have := h.lt_trans ha hb hd h1 h2
  rw [h.swap d a hd ha, h3] at this
  simp at this

/-- a comparator induced by a key into a type with a lawful `Ord` is a total preorder everywhere -/
theorem totalPreorder_of_key {α β : Type} [Ord β] [TransOrd β] (key : α → β) (c : α → α → Ordering)
    (S : α → Prop) (hc : ∀ a b, S a → S b → c a b = compare (key a) (key b)) : TotalPreorderOn c S := by
  refine ⟨fun a ha => ?_, fun a b ha hb => ?_, fun a b d ha hb hd h1 h2 => ?_⟩
  · rw [hc a a ha ha]; exact ReflOrd.compare_self
  · rw [hc a b ha hb, hc b a hb ha]; exact OrientedOrd.eq_swap
  · rw [hc a b ha hb] at h1; rw [hc b d hb hd] at h2; rw [hc a d ha hd]
    exact TransOrd.isLE_trans h1 h2

/-- reversal (DESC) preserves total preorders -/
theorem TotalPreorderOn.reverse {α : Type} {c : α → α → Ordering} {S : α → Prop}
    (h : TotalPreorderOn c S) : TotalPreorderOn (fun a b => (c a b).swap) S := by
  refine ⟨fun a ha => by simp [h.refl a ha], fun a b ha hb => by simp [h.swap a b ha hb],
    fun a b d ha hb hd h1 h2 => ?_⟩
  have e1 : (c b a).isLE = true := by rw [h.swap a b ha hb]; exact h1
  have e2 : (c d b).isLE = true := by rw [h.swap b d hb hd]; exact h2
  have := h.trans d b a hd hb ha e2 e1
  rw [h.swap a d ha hd] at this
  simpa using this

theorem isLE_then {o1 o2 : Ordering} : (o1.then o2).isLE = true ↔ o1 = .lt ∨ (o1 = .eq ∧ o2.isLE = true) := by
  cases o1 <;> simp [Ordering.then]

/-- lexicographic combination (`then`) of two total preorders on the same set -/
theorem TotalPreorderOn.lex {α : Type} {c1 c2 : α → α → Ordering} {S : α → Prop}
    (h1 : TotalPreorderOn c1 S) (h2 : TotalPreorderOn c2 S) :
    TotalPreorderOn (fun a b => (c1 a b).then (c2 a b)) S := by
  refine ⟨fun a ha => by simp [h1.refl a ha, h2.refl a ha, Ordering.then],
    fun a b ha hb => by simp only [h1.swap a b ha hb, h2.swap a b ha hb, Ordering.swap_then],
    fun a b d ha hb hd e1 e2 => ?_⟩
  rw [isLE_then] at e1 e2 ⊢
  rcases e1 with e1 | ⟨e1, e1'⟩ <;> rcases e2 with e2 | ⟨e2, e2'⟩
  · exact Or.inl (h1.lt_trans ha hb hd e1 e2)
  · -- a < b, b ~ d
    left
    have hle := h1.trans a b d ha hb hd (by simp [e1]) (by simp [e2])
    cases had : c1 a d with
    | lt => rfl
    | gt => simp [had] at hle
    | eq =>
      have hda : (c1 d a).isLE = true := by rw [h1.swap a d ha hd, had]; rfl
      have hbd : (c1 d b).isLE = true := by rw [h1.swap b d hb hd, e2]; rfl
      have hdb : (c1 b d).isLE = true := by simp [e2]
      have := h1.trans b d a hb hd ha hdb hda
      rw [h1.swap a b ha hb, e1] at this
      simp at this
  · left
    have hle := h1.trans a b d ha hb hd (by simp [e1]) (by simp [e2])
    cases had : c1 a d with
    | lt => rfl
    | gt => simp [had] at hle
    | eq =>
      have hda : (c1 d a).isLE = true := by rw [h1.swap a d ha hd, had]; rfl
      have hab : (c1 a b).isLE = true := by simp [e1]
      have := h1.trans d a b hd ha hb hda hab
      rw [h1.swap b d hb hd, e2] at this
      simp at this
  · right
    refine ⟨?_, h2.trans a b d ha hb hd e1' e2'⟩
    have hle := h1.trans a b d ha hb hd (by simp [e1]) (by simp [e2])
    have hba : (c1 b a).isLE = true := by rw [h1.swap a b ha hb, e1]; rfl
    have hdb : (c1 d b).isLE = true := by rw [h1.swap b d hb hd, e2]; rfl
    have hge := h1.trans d b a hd hb ha hdb hba
    rw [h1.swap a d ha hd] at hge
    cases had : c1 a d <;> simp_all

/-- a comparator pulled back along a function -/
theorem TotalPreorderOn.comap {α β : Type} {c : β → β → Ordering} {S : β → Prop}
    (h : TotalPreorderOn c S) (f : α → β) : TotalPreorderOn (fun a b => c (f a) (f b)) (fun a => S (f a)) :=
  ⟨fun _ ha => h.refl _ ha, fun _ _ ha hb => h.swap _ _ ha hb, fun _ _ _ ha hb hd => h.trans _ _ _ ha hb hd⟩

/-- transport along a key function on which the comparator factors (on the set) -/
theorem TotalPreorderOn.of_factor {α β : Type} {c : α → α → Ordering} {c' : β → β → Ordering} {S : α → Prop}
    {T : β → Prop} (h : TotalPreorderOn c' T) (f : α → β) (hT : ∀ a, S a → T (f a))
    (hc : ∀ a b, S a → S b → c a b = c' (f a) (f b)) : TotalPreorderOn c S := by
  refine ⟨fun a ha => ?_, fun a b ha hb => ?_, fun a b d ha hb hd h1 h2 => ?_⟩
  · rw [hc a a ha ha]; exact h.refl _ (hT a ha)
  · rw [hc a b ha hb, hc b a hb ha]; exact h.swap _ _ (hT a ha) (hT b hb)
  · rw [hc a b ha hb] at h1; rw [hc b d hb hd] at h2; rw [hc a d ha hd]
    exact h.trans _ _ _ (hT a ha) (hT b hb) (hT d hd) h1 h2

/-- the constant-`eq` comparator -/
theorem totalPreorderOn_const {α : Type} (S : α → Prop) : TotalPreorderOn (fun _ _ : α => Ordering.eq) S :=
  ⟨fun _ _ => rfl, fun _ _ _ _ => rfl, fun _ _ _ _ _ _ _ _ => rfl⟩

/-! ## exact number orders -/

theorem compare_mul_pos (a b c : Int) (hc : 0 < c) : compare (a * c) (b * c) = compare a b := by
  rcases Int.lt_trichotomy a b with h | h | h
  · rw [Int.compare_eq_lt.2 h, Int.compare_eq_lt.2 (Int.mul_lt_mul_of_pos_right h hc)]
  · subst h; simp
  · rw [Int.compare_eq_gt.2 h, Int.compare_eq_gt.2 (Int.mul_lt_mul_of_pos_right h hc)]

theorem ten_pow_pos (n : Nat) : (0 : Int) < 10 ^ n := Int.pow_pos (by decide)

theorem decCmp_eq_at (m1 s1 m2 s2 S : Int) (h1 : s1 ≤ S) (h2 : s2 ≤ S) :
    decCmp m1 s1 m2 s2 = compare (m1 * 10 ^ (S - s1).toNat) (m2 * 10 ^ (S - s2).toNat) := by
  unfold decCmp
  have hs : max s1 s2 ≤ S := Int.max_le.2 ⟨h1, h2⟩
  have e1 : (S - s1).toNat = (max s1 s2 - s1).toNat + (S - max s1 s2).toNat := by omega
  have e2 : (S - s2).toNat = (max s1 s2 - s2).toNat + (S - max s1 s2).toNat := by omega
  rw [e1, e2, Int.pow_add, Int.pow_add, ← Int.mul_assoc, ← Int.mul_assoc, compare_mul_pos _ _ _ (ten_pow_pos _)]

/-- `BigDecimal::cmp` is a total preorder on (int_val, scale) pairs -/
theorem decCmp_totalPreorder : TotalPreorderOn (fun p q : Int × Int => decCmp p.1 p.2 q.1 q.2) (fun _ => True) := by
  refine ⟨fun a _ => ?_, fun a b _ _ => ?_, fun a b d _ _ _ h1 h2 => ?_⟩
  · simp [decCmp]
  · show decCmp b.1 b.2 a.1 a.2 = (decCmp a.1 a.2 b.1 b.2).swap
    rw [decCmp_eq_at b.1 b.2 a.1 a.2 (max a.2 b.2) (by omega) (by omega),
        decCmp_eq_at a.1 a.2 b.1 b.2 (max a.2 b.2) (by omega) (by omega)]
    exact OrientedOrd.eq_swap
  · have hS1 : a.2 ≤ max a.2 (max b.2 d.2) := by omega
    have hS2 : b.2 ≤ max a.2 (max b.2 d.2) := by omega
    have hS3 : d.2 ≤ max a.2 (max b.2 d.2) := by omega
    simp only [decCmp_eq_at _ _ _ _ _ hS1 hS2] at h1
    simp only [decCmp_eq_at _ _ _ _ _ hS2 hS3] at h2
    simp only [decCmp_eq_at _ _ _ _ _ hS1 hS3]
    exact TransOrd.isLE_trans h1 h2

/-- exact key of an integer / decimal number -/
def exactKey : SparqlNumber → Option (Int × Int)
  | .nativeInt i | .bigInt i => some (i, 0)
  | .decimal m s => some (m, s)
  | _ => none

theorem decCmp_int (x y : Int) : decCmp x 0 y 0 = compare x y := by simp [decCmp]

theorem partialCmp_exact (a b : SparqlNumber) (p q : Int × Int) (ha : exactKey a = some p) (hb : exactKey b = some q) :
    a.partialCmp b = some (decCmp p.1 p.2 q.1 q.2) := by
  cases a <;> cases b <;> simp_all [exactKey, SparqlNumber.partialCmp, SparqlNumber.coerceToDecimal] <;>
    (obtain ⟨rfl, rfl⟩ := ha; obtain ⟨rfl, rfl⟩ := hb; simp [decCmp_int])

/-- float key -/
def floatKey : SparqlNumber → Option FVal
  | .float f | .double f => if f = .nan then none else some f
  | _ => none

def fcmp (a b : FVal) : Ordering := (a.partialCmp b).getD .eq

theorem partialCmp_float (a b : SparqlNumber) (x y : FVal) (ha : floatKey a = some x) (hb : floatKey b = some y) :
    a.partialCmp b = x.partialCmp y ∧ x ≠ .nan ∧ y ≠ .nan := by
  cases a <;> cases b <;> simp_all [floatKey, SparqlNumber.partialCmp, SparqlNumber.coerceToDouble, SparqlNumber.coerceToFloat] <;>
    (obtain ⟨h1, rfl⟩ := ha; obtain ⟨h2, rfl⟩ := hb; simp_all)

theorem fval_totalPreorder : TotalPreorderOn fcmp (fun f => f ≠ .nan) := by
  refine ⟨fun a ha => ?_, fun a b ha hb => ?_, fun a b d ha hb hd h1 h2 => ?_⟩
  · cases a <;> simp_all [fcmp, FVal.partialCmp]
  · cases a <;> cases b <;> simp_all [fcmp, FVal.partialCmp, Int.compare_swap]
  · cases a <;> cases b <;> cases d <;> simp_all [fcmp, FVal.partialCmp, Int.isLE_compare]
    omega


/-! ## xsd:dateTime: the ±14 h rule is transitive on pairwise comparable values -/

def dcmp (a b : XsdDateTime) : Ordering := (a.partialCmp b).getD .eq

theorem dateTime_refl (a : XsdDateTime) : a.partialCmp a = some .eq := by
  cases a <;> simp [XsdDateTime.partialCmp]

theorem dateTime_swap (a b : XsdDateTime) : b.partialCmp a = (a.partialCmp b).map Ordering.swap := by
  cases a <;> cases b <;> simp only [XsdDateTime.partialCmp] <;>
    first
    | (simp only [Option.map, Int.compare_swap]; done)
    | ((repeat' split) <;> first | rfl | (exfalso; simp only [nsPerHour] at *; omega))

theorem dateTime_trans (a b d : XsdDateTime) (o1 o2 o3 : Ordering) (h1 : a.partialCmp b = some o1)
    (h2 : b.partialCmp d = some o2) (h3 : a.partialCmp d = some o3) (l1 : o1.isLE = true) (l2 : o2.isLE = true) :
    o3.isLE = true := by
  cases a <;> cases b <;> cases d <;> simp only [XsdDateTime.partialCmp] at h1 h2 h3 <;>
    (repeat' split at h1) <;> (repeat' split at h2) <;> (repeat' split at h3) <;>
    simp only [Option.some.injEq, reduceCtorEq] at h1 h2 h3 <;> subst_vars <;>
    simp only [Int.isLE_compare, nsPerHour] at * <;>
    first | rfl | omega | (exfalso; omega) | (exfalso; revert l1; decide) | (exfalso; revert l2; decide)

/-! ## terms -/

def xsdString : Str := xsdPrefix ++ XsdName.string_
def xsdBoolean : Str := xsdPrefix ++ XsdName.boolean_
def xsdDateTime : Str := xsdPrefix ++ XsdName.dateTime

theorem xsdName_append (name : Str) : xsdName (xsdPrefix ++ name) = some name := by
  unfold xsdName
  rw [if_pos (by rw [List.isPrefixOf_iff_prefix]; exact List.prefix_append _ _)]
  simp

theorem kind_string : xsdKind XsdName.string_ = some .string := by decide
theorem kind_boolean : xsdKind XsdName.boolean_ = some .boolean := by decide
theorem kind_dateTime : xsdKind XsdName.dateTime = some .dateTime := by decide

theorem value_plain (lex : Str) : tryFromTerm (.lit lex xsdString) = some (.string lex none) := by
  simp only [tryFromTerm, tryFromTyped, xsdString, xsdName_append, kind_string, valueOfKind]
theorem value_boolean (lex : Str) : tryFromTerm (.lit lex xsdBoolean) = some (.boolean (parseBool lex)) := by
  simp only [tryFromTerm, tryFromTyped, xsdBoolean, xsdName_append, kind_boolean, valueOfKind]
theorem value_dateTime (lex : Str) : tryFromTerm (.lit lex xsdDateTime) =
    some (.dateTime (match parseDateTime lex with | .ok d => some d | _ => none)) := by
  simp only [tryFromTerm, tryFromTyped, xsdDateTime, xsdName_append, kind_dateTime]
  rfl

/-- terms whose ORDER BY comparison coincides with `Term::cmp` -/
inductive TermOrdered : Term → Prop
  | novalue (t : Term) (h : tryFromTerm t = none) : TermOrdered t
  | plain (lex : Str) : TermOrdered (.lit lex xsdString)
  | tagged (lex tag : Str) : TermOrdered (.lang lex tag)
  | boolean (lex : Str) : TermOrdered (.lit lex xsdBoolean)
  | badDateTime (lex : Str) (h : ∀ d, parseDateTime lex ≠ .ok d) : TermOrdered (.lit lex xsdDateTime)

def cmp (a b : Term) : Ordering := sparqlOrderBy a (some b)

theorem parseBool_cases (lex : Str) : (parseBool lex = some true ∧ lex = "true".toList) ∨
    (parseBool lex = some false ∧ lex = "false".toList) ∨ parseBool lex = none := by
  unfold parseBool
  by_cases h1 : (lex == "true".toList) = true
  · left; rw [if_pos h1]; exact ⟨rfl, beq_iff_eq.1 h1⟩
  · rw [if_neg h1]
    by_cases h2 : (lex == "false".toList) = true
    · right; left; rw [if_pos h2]; exact ⟨rfl, beq_iff_eq.1 h2⟩
    · right; right; rw [if_neg h2]

theorem cmp_novalue_left (a b : Term) (ha : a.WF = true) (hb : b.WF = true) (h : tryFromTerm a = none) :
    cmp a b = termCmp a b := by
  unfold cmp sparqlOrderBy sparqlCmp
  simp only [h]
  split
  · rename_i he
    simp only [Option.getD_some]
    simp only [Bool.and_eq_true] at he
    exact ((C02.cmp_eq_iff a b ha hb).2 he.2).symm
  · simp

theorem cmp_novalue_right (a b : Term) (ha : a.WF = true) (hb : b.WF = true) (h : tryFromTerm b = none) :
    cmp a b = termCmp a b := by
  unfold cmp sparqlOrderBy sparqlCmp
  cases hta : tryFromTerm a <;> simp only [h] <;>
  · split
    · rename_i he
      simp only [Option.getD_some]
      simp only [Bool.and_eq_true] at he
      exact ((C02.cmp_eq_iff a b ha hb).2 he.2).symm
    · simp

theorem cmp_values (a b : Term) (va vb : SparqlValue) (ha : tryFromTerm a = some va) (hb : tryFromTerm b = some vb) :
    cmp a b = (va.partialCmp vb).getD (termCmp a b) := by
  unfold cmp sparqlOrderBy sparqlCmp
  simp only [ha, hb]

theorem cmp_termOrdered (a b : Term) (ha : a.WF = true) (hb : b.WF = true) (ta : TermOrdered a) (tb : TermOrdered b) :
    cmp a b = termCmp a b := by
  cases ta with
  | novalue _ h => exact cmp_novalue_left a b ha hb h
  | plain l1 =>
    cases tb with
    | novalue _ h => exact cmp_novalue_right _ b ha hb h
    | plain l2 =>
      rw [cmp_values _ _ _ _ (value_plain l1) (value_plain l2)]
      simp [SparqlValue.partialCmp, termCmp, strCmp_refl]
    | tagged l2 t2 => rw [cmp_values _ _ _ _ (value_plain l1) rfl]; simp [SparqlValue.partialCmp]
    | boolean l2 => rw [cmp_values _ _ _ _ (value_plain l1) (value_boolean l2)]; simp [SparqlValue.partialCmp]
    | badDateTime l2 h => rw [cmp_values _ _ _ _ (value_plain l1) (value_dateTime l2)]; simp [SparqlValue.partialCmp]
  | tagged l1 t1 =>
    cases tb with
    | novalue _ h => exact cmp_novalue_right _ b ha hb h
    | plain l2 => rw [cmp_values _ _ _ _ rfl (value_plain l2)]; simp [SparqlValue.partialCmp]
    | tagged l2 t2 => rw [cmp_values _ _ _ _ rfl rfl]; simp [SparqlValue.partialCmp, termCmp]
    | boolean l2 => rw [cmp_values _ _ _ _ rfl (value_boolean l2)]; simp [SparqlValue.partialCmp]
    | badDateTime l2 h => rw [cmp_values _ _ _ _ rfl (value_dateTime l2)]; simp [SparqlValue.partialCmp]
  | boolean l1 =>
    cases tb with
    | novalue _ h => exact cmp_novalue_right _ b ha hb h
    | plain l2 => rw [cmp_values _ _ _ _ (value_boolean l1) (value_plain l2)]; simp [SparqlValue.partialCmp]
    | tagged l2 t2 => rw [cmp_values _ _ _ _ (value_boolean l1) rfl]; simp [SparqlValue.partialCmp]
    | boolean l2 =>
      rw [cmp_values _ _ _ _ (value_boolean l1) (value_boolean l2)]
      rcases parseBool_cases l1 with ⟨h1, e1⟩ | ⟨h1, e1⟩ | h1 <;> rcases parseBool_cases l2 with ⟨h2, e2⟩ | ⟨h2, e2⟩ | h2 <;>
        simp only [h1, h2, SparqlValue.partialCmp, Option.getD_some, Option.getD_none]
      all_goals (subst_vars; simp only [termCmp, xsdBoolean, strCmp_refl, Ordering.then]; try decide)
    | badDateTime l2 h => rw [cmp_values _ _ _ _ (value_boolean l1) (value_dateTime l2)]; simp [SparqlValue.partialCmp]
  | badDateTime l1 h1 =>
    have hv : tryFromTerm (.lit l1 xsdDateTime) = some (.dateTime none) := by
      rw [value_dateTime]; cases hp : parseDateTime l1 <;> simp_all
    cases tb with
    | novalue _ h => exact cmp_novalue_right _ b ha hb h
    | plain l2 => rw [cmp_values _ _ _ _ hv (value_plain l2)]; simp [SparqlValue.partialCmp]
    | tagged l2 t2 => rw [cmp_values _ _ _ _ hv rfl]; simp [SparqlValue.partialCmp]
    | boolean l2 => rw [cmp_values _ _ _ _ hv (value_boolean l2)]; simp [SparqlValue.partialCmp]
    | badDateTime l2 h => rw [cmp_values _ _ _ _ hv (value_dateTime l2)]; simp [SparqlValue.partialCmp]

/-! ## the repaired comparator (class rank first, exact comparison inside a class) and its helper lemmas -/

theorem termCmp_totalPreorder : TotalPreorderOn termCmp (fun t => t.WF = true) :=
  ⟨fun a ha => (C02.cmp_eq_iff a a ha ha).2 (C02.termEq_refl a),
   fun a b ha hb => C02.cmp_swap a b ha hb,
   fun a b d ha hb hd => C02.cmp_trans a b d ha hb hd⟩

theorem FVal.partialCmp_some {x y : FVal} (hx : x ≠ .nan) (hy : y ≠ .nan) : ∃ o, x.partialCmp y = some o := by
  cases x <;> cases y <;> simp_all [FVal.partialCmp]

/-- well-formed number keys: positive denominators -/
def numKeyPos : NumKey → Prop
  | .fin _ d => 0 < d
  | _ => True

theorem fvalKey_pos (f : FVal) : numKeyPos (fvalKey f) := by
  cases f <;> simp [fvalKey, numKeyPos, Nat.pow_pos]

theorem numKey_pos (n : SparqlNumber) : numKeyPos (numKey n) := by
  cases n <;> simp only [numKey] <;> first | exact fvalKey_pos _ | skip
  all_goals first | (simp [numKeyPos]; done) | skip
  split <;> simp [numKeyPos, Nat.pow_pos]

theorem numKey_cmp_totalPreorder : TotalPreorderOn NumKey.cmp numKeyPos := by
  refine ⟨fun a _ => ?_, fun a b ha hb => ?_, fun a b d ha hb hd l1 l2 => ?_⟩
  · cases a <;> simp [NumKey.cmp, NumKey.rank]
  · cases a <;> cases b <;> simp [NumKey.cmp, NumKey.rank, Int.compare_swap, Nat.compare_swap] <;> rfl
  · cases a <;> cases b <;> cases d <;>
      simp_all [NumKey.cmp, NumKey.rank, Nat.isLE_compare]
    rename_i n1 d1 n2 d2 n3 d3
    simp only [numKeyPos] at ha hb hd
    have p1 : (0 : Int) < d1 := by exact_mod_cast ha
    have p2 : (0 : Int) < d2 := by exact_mod_cast hb
    have p3 : (0 : Int) < d3 := by exact_mod_cast hd
    rw [← compare_mul_pos _ _ _ p3] at l1
    rw [← compare_mul_pos _ _ _ p1] at l2
    rw [← compare_mul_pos _ _ _ p2]
    have e1 : n2 * (d1 : Int) * d3 = n2 * d3 * d1 := by ac_rfl
    have e2 : n3 * (d2 : Int) * d1 = n3 * d1 * d2 := by ac_rfl
    have e3 : n1 * (d2 : Int) * d3 = n1 * d3 * d2 := by ac_rfl
    rw [e1] at l1; rw [e2] at l2; rw [e3] at l1
    exact TransOrd.isLE_trans l1 l2

/-- lexicographic combination of a rank with a comparator that is a total preorder inside every rank class -/
theorem lexRank {α : Type} (r : α → Nat) (inner : α → α → Ordering) (S : α → Prop)
    (h : ∀ k, TotalPreorderOn inner (fun a => S a ∧ r a = k)) :
    TotalPreorderOn (fun a b => (compare (r a) (r b)).then (inner a b)) S := by
  refine ⟨fun a ha => ?_, fun a b ha hb => ?_, fun a b d ha hb hd l1 l2 => ?_⟩
  · simp [(h (r a)).refl a ⟨ha, rfl⟩]
  · rcases Nat.lt_trichotomy (r a) (r b) with hlt | heq | hgt
    · simp [Nat.compare_eq_lt.2 hlt, Nat.compare_eq_gt.2 hlt, Ordering.then]
    · have := (h (r a)).swap a b ⟨ha, rfl⟩ ⟨hb, heq.symm⟩
      simp [heq, this, Ordering.then]
    · simp [Nat.compare_eq_lt.2 hgt, Nat.compare_eq_gt.2 hgt, Ordering.then]
  · rw [isLE_then] at l1 l2 ⊢
    simp only [Nat.compare_eq_lt, Nat.compare_eq_eq] at l1 l2 ⊢
    rcases l1 with l1 | ⟨e1, l1⟩ <;> rcases l2 with l2 | ⟨e2, l2⟩
    · left; omega
    · left; omega
    · left; omega
    · right
      refine ⟨by omega, ?_⟩
      exact (h (r a)).trans a b d ⟨ha, rfl⟩ ⟨hb, e1.symm⟩ ⟨hd, by omega⟩ l1 l2

inductive RClass where
  | num (k : NumKey)
  | time (t : Int)
  | term

/-- class of a term for the repaired order: numbers by exact value, valid dateTimes by their
timeline position (a timezone-less value read as UTC: this respects the ±14 h rule), the rest by `Term::cmp` -/
def rclass (t : Term) : RClass :=
  match tryFromTerm t with
  | some (.number n) => .num (numKey n)
  | some (.dateTime (some (.naive x))) => .time x
  | some (.dateTime (some (.zoned x))) => .time x
  | _ => .term

def rrank (t : Term) : Nat :=
  match rclass t with
  | .num _ => 2
  | .time _ => 3
  | .term => match t.kind with
    | .bnode => 0 | .iri => 1 | .literal => 4 | .triple => 5 | .variable => 6

def rinner (a b : Term) : Ordering :=
  match rclass a, rclass b with
  | .num x, .num y => NumKey.cmp x y
  | .time x, .time y => compare x y
  | _, _ => termCmp a b

/-- the repaired comparator -/
def repairedCmp (a b : Term) : Ordering := (compare (rrank a) (rrank b)).then (rinner a b)

theorem rclass_num_pos {t : Term} {k : NumKey} (h : rclass t = .num k) : numKeyPos k := by
  unfold rclass at h
  split at h <;> first | (cases h; exact numKey_pos _) | cases h

theorem rrank_cases (t : Term) :
    (∃ k, rclass t = .num k ∧ rrank t = 2) ∨ (∃ x, rclass t = .time x ∧ rrank t = 3) ∨
    (rclass t = .term ∧ rrank t ≠ 2 ∧ rrank t ≠ 3) := by
  unfold rrank
  cases h : rclass t with
  | num k => exact Or.inl ⟨k, rfl, rfl⟩
  | time x => exact Or.inr (Or.inl ⟨x, rfl, rfl⟩)
  | term => refine Or.inr (Or.inr ⟨rfl, ?_⟩); cases t.kind <;> simp


theorem numKey_exact (n : SparqlNumber) (p : Int × Int) (h : exactKey n = some p) (S : Int) (hS0 : 0 ≤ S) (hS : p.2 ≤ S) :
    ∃ N D E : Int, numKey n = .fin N D.toNat ∧ 0 < D ∧ 0 < E ∧ N * E = p.1 * 10 ^ (S - p.2).toNat ∧ D * E = 10 ^ S.toNat := by
  cases n <;> simp only [exactKey, Option.some.injEq, reduceCtorEq] at h <;> subst h
  · exact ⟨_, 1, 10 ^ S.toNat, rfl, by decide, ten_pow_pos _, by simp, by simp⟩
  · exact ⟨_, 1, 10 ^ S.toNat, rfl, by decide, ten_pow_pos _, by simp, by simp⟩
  · rename_i m s
    simp only [numKey]
    split
    · rename_i hs
      refine ⟨m, 10 ^ s.toNat, 10 ^ (S - s).toNat, ?_, ten_pow_pos _, ten_pow_pos _, rfl, ?_⟩
      · congr 1
      · rw [← Int.pow_add]; congr 1; simp at hS; omega
    · rename_i hs
      refine ⟨m * 10 ^ (-s).toNat, 1, 10 ^ S.toNat, rfl, by decide, ten_pow_pos _, ?_, by simp⟩
      rw [Int.mul_assoc, ← Int.pow_add]; congr 2; simp at hS; omega

theorem numKey_cmp_exact (na nb : SparqlNumber) (pa pb : Int × Int) (ha : exactKey na = some pa)
    (hb : exactKey nb = some pb) : NumKey.cmp (numKey na) (numKey nb) = decCmp pa.1 pa.2 pb.1 pb.2 := by
  have hS0 : (0 : Int) ≤ max 0 (max pa.2 pb.2) := by omega
  obtain ⟨N1, D1, E1, h1, d1, e1, m1, t1⟩ := numKey_exact na pa ha _ hS0 (by omega)
  obtain ⟨N2, D2, E2, h2, d2, e2, m2, t2⟩ := numKey_exact nb pb hb _ hS0 (by omega)
  rw [h1, h2, decCmp_eq_at _ _ _ _ (max 0 (max pa.2 pb.2)) (by omega) (by omega)]
  simp only [NumKey.cmp, Int.toNat_of_nonneg (Int.le_of_lt d1), Int.toNat_of_nonneg (Int.le_of_lt d2)]
  rw [← m1, ← m2, ← compare_mul_pos (N1 * D2) (N2 * D1) (E1 * E2) (Int.mul_pos e1 e2),
    ← compare_mul_pos (N1 * E1) (N2 * E2) (10 ^ (max 0 (max pa.2 pb.2)).toNat) (ten_pow_pos _)]
  have x1 : N1 * D2 * (E1 * E2) = N1 * E1 * (D2 * E2) := by ac_rfl
  have x2 : N2 * D1 * (E1 * E2) = N2 * E2 * (D1 * E1) := by ac_rfl
  rw [x1, x2, t1, t2]

theorem rclass_of_number {t : Term} {n : SparqlNumber} (h : tryFromTerm t = some (.number n)) :
    rclass t = .num (numKey n) ∧ rrank t = 2 := by
  have : rclass t = .num (numKey n) := by simp [rclass, h]
  exact ⟨this, by simp [rrank, this]⟩

theorem rclass_of_dateTime {t : Term} {d : XsdDateTime} (h : tryFromTerm t = some (.dateTime (some d))) :
    rclass t = .time (match d with | .naive x => x | .zoned x => x) ∧ rrank t = 3 := by
  have : rclass t = .time (match d with | .naive x => x | .zoned x => x) := by
    cases d <;> simp [rclass, h]
  exact ⟨this, by simp [rrank, this]⟩

theorem fvalKey_cmp (x y : FVal) (o : Ordering) (h : x.partialCmp y = some o) :
    NumKey.cmp (fvalKey x) (fvalKey y) = o := by
  cases x <;> cases y <;> simp_all [FVal.partialCmp, fvalKey, NumKey.cmp, NumKey.rank]
  · exact h ▸ rfl
  · exact h ▸ rfl
  · exact h ▸ rfl
  · exact h ▸ rfl
  · exact h ▸ rfl
  · exact h ▸ rfl
  · rename_i k1 k2
    rw [← h]
    exact compare_mul_pos _ _ _ (by exact_mod_cast Nat.pow_pos (by decide : 0 < 2))

theorem rclass_termOrdered {t : Term} (h : TermOrdered t) : rclass t = .term := by
  cases h with
  | novalue _ h => simp [rclass, h]
  | plain l => simp [rclass, value_plain]
  | tagged l tg => simp [rclass, tryFromTerm]
  | boolean l => simp [rclass, value_boolean]
  | badDateTime l h =>
    have hv : tryFromTerm (.lit l xsdDateTime) = some (.dateTime none) := by
      rw [value_dateTime]; cases hp : parseDateTime l <;> simp_all
    simp [rclass, hv]

theorem sparqlCmp_some_literal {a b : Term} {o : Ordering} (h : sparqlCmp a b = some o) :
    isLiteral a = true ∧ isLiteral b = true := by
  unfold sparqlCmp at h
  cases a <;> cases b <;> simp_all [tryFromTerm, isLiteral]

theorem rrank_literal_term {t : Term} (h : rclass t = .term) (hl : isLiteral t = true) : rrank t = 4 := by
  cases t <;> simp_all [rrank, isLiteral, Term.kind]

theorem rrank_literal_ge {t : Term} (hl : isLiteral t = true) : 2 ≤ rrank t := by
  rcases rrank_cases t with ⟨_, _, h⟩ | ⟨_, _, h⟩ | ⟨h, _, _⟩
  · omega
  · omega
  · rw [rrank_literal_term h hl]; omega


end SophiaProofs.OrderByLemmas
