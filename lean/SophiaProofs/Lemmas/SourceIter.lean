/-
Helper lemmas for C15, buffering iterators (`MapSource::into_iter`, `FilterMapSource::into_iter`):
the fill loop over a script, `next` in terms of the pending results, simulation of the iterator used
as a `Source` by the list iterator over these pending results.
-/
import SophiaProofs.Lemmas.Source

namespace SophiaProofs.SourceLemmas
open SophiaModel SophiaModel.Source

variable {ε κ εk : Type}

theorem chainFn_append (c1 c2 : List Adapter) (i : Item) :
    chainFn (c1 ++ c2) i = (chainFn c1 i).bind (chainFn c2) := by
  induction c1 generalizing i with
  | nil => simp [chainFn]
  | cons a rest ih =>
    simp only [List.cons_append, chainFn]
    cases a.fn i with
    | none => rfl
    | some y => simpa using ih y

theorem chainItems_chain_append (c1 c2 : List Adapter) (xs : List Item) :
    chainItems (c1 ++ c2) xs = chainItems c2 (chainItems c1 xs) := by
  simp only [chainItems, List.filterMap_filterMap]
  congr 1
  funext i
  rw [chainFn_append]

/-- the pushing closure in terms of the adapter's meaning -/
theorem push_eq (a : Adapter) (b : List (Except ε Item)) (i : Item) :
    a.push b i = match a.fn i with
      | some t => b ++ [.ok t]
      | none => b := by
  cases a with
  | mapItems f | mapTriples f | mapQuads f => rfl
  | filterMapItems p f | filterMapTriples p f | filterMapQuads p f =>
    simp only [Adapter.push, Adapter.fn, filterMapPush]
    cases fmEval p f i <;> rfl
  | filterItems p | filterTriples p | filterQuads p =>
    simp only [Adapter.push, Adapter.fn, filterMapPush]
    cases p.eval i <;> rfl
  | toQuads | toTriples => rfl

theorem foldl_push (a : Adapter) (b : List (Except ε Item)) (xs : List Item) :
    xs.foldl a.push b = b ++ (xs.filterMap a.fn).map .ok := by
  induction xs generalizing b with
  | nil => simp
  | cons x xs ih =>
    simp only [List.foldl_cons, ih, push_eq, List.filterMap_cons]
    cases a.fn x <;> simp

/-- one `for_some_item` of the buffering iterator on `c1(script)` -/
theorem forSome_push_nil (c1 : List Adapter) (a : Adapter) (buf : List (Except ε Item)) :
    forSomeItem (applyChain c1 rioSource) a.push ([] : List (Ev Item ε)) buf = ([], buf, .ok false) := by
  simp [forSomeItem, applyChain_tryForSome, rio_nil]

theorem forSome_push_ok (c1 : List Adapter) (a : Adapter) (buf : List (Except ε Item)) (is : List Item)
    (rest : List (Ev Item ε)) :
    forSomeItem (applyChain c1 rioSource) a.push (.ok is :: rest) buf =
      (rest, buf ++ (is.filterMap (chainFn (c1 ++ [a]))).map .ok, .ok true) := by
  have h : chainItems (c1 ++ [a]) is = (chainItems c1 is).filterMap a.fn := by
    rw [chainItems_chain_append]
    simp [chainItems, chainFn]
  simp only [forSomeItem, applyChain_tryForSome, rio_ok, feed_chainWrap]
  rw [feed_infallible, foldl_push]
  simp only [chainItems] at h
  simp [h, chainItems]

theorem forSome_push_err (c1 : List Adapter) (a : Adapter) (buf : List (Except ε Item)) (is : List Item) (e : ε)
    (rest : List (Ev Item ε)) :
    forSomeItem (applyChain c1 rioSource) a.push (.err is e :: rest) buf =
      (rest, buf ++ (is.filterMap (chainFn (c1 ++ [a]))).map .ok, .error e) := by
  have h : chainItems (c1 ++ [a]) is = (chainItems c1 is).filterMap a.fn := by
    rw [chainItems_chain_append]
    simp [chainItems, chainFn]
  simp only [forSomeItem, applyChain_tryForSome, rio_err, feed_chainWrap]
  rw [feed_infallible, foldl_push]
  simp only [chainItems] at h
  simp [h, chainItems, StreamError.innerInto]

theorem fillLoop_stop {σ ι ι' : Type} (S : Source σ ι ε) (push : List (Except ε ι') → ι → List (Except ε ι'))
    (n : Nat) (s : σ) (buf : List (Except ε ι')) (rem : Bool) (h : (buf.isEmpty && rem) = false) :
    fillLoop S push n s buf rem = (s, buf) := by
  cases n with
  | zero => rfl
  | succ n => simp [fillLoop, h]

/-- the fill loop on a script: nothing is lost, nothing reordered, and it only stops with an empty
buffer when nothing at all is left -/
theorem fill_spec (c1 : List Adapter) (a : Adapter) (sc : List (Ev Item ε)) (n : Nat)
    (buf : List (Except ε Item)) (hn : sc.length < n) :
    let r := fillLoop (applyChain c1 rioSource) a.push n sc buf true
    r.2 ++ resultsOf (chainFn (c1 ++ [a])) r.1 = buf ++ resultsOf (chainFn (c1 ++ [a])) sc ∧
    (r.2 = [] → buf ++ resultsOf (chainFn (c1 ++ [a])) sc = []) := by
  induction sc generalizing n buf with
  | nil =>
    cases n with
    | zero => omega
    | succ n =>
      cases buf with
      | nil =>
        simp only [fillLoop, List.isEmpty_nil, Bool.and_self, if_true, forSome_push_nil]
        rw [fillLoop_stop _ _ _ _ _ _ (by simp)]
        simp [resultsOf]
      | cons x xs => simp [fillLoop]
  | cons ev rest ih =>
    cases n with
    | zero => omega
    | succ n =>
      have hn' : rest.length < n := by simp at hn; omega
      cases buf with
      | cons x xs => simp [fillLoop]
      | nil =>
        cases ev with
        | ok is =>
          simp only [fillLoop, List.isEmpty_nil, Bool.and_self, if_true, forSome_push_ok]
          have := ih n ([] ++ (is.filterMap (chainFn (c1 ++ [a]))).map .ok) hn'
          simpa [resultsOf] using this
        | err is e =>
          simp only [fillLoop, List.isEmpty_nil, Bool.and_self, if_true, forSome_push_err]
          rw [fillLoop_stop _ _ _ _ _ _ (by simp)]
          simp [resultsOf]

/-- everything the iterator in state `st` will still yield -/
def pending (c1 : List Adapter) (a : Adapter) (st : IterSt (List (Ev Item ε)) Item ε) : List (Except ε Item) :=
  st.buffer ++ resultsOf (chainFn (c1 ++ [a])) st.source

/-- `next` pops exactly the head of the pending results -/
theorem iterNext_pending (c1 : List Adapter) (a : Adapter) (st : IterSt (List (Ev Item ε)) Item ε) :
    match pending c1 a st with
    | [] => (iterNext (applyChain c1 rioSource) a.push st).1 = none ∧
            pending c1 a (iterNext (applyChain c1 rioSource) a.push st).2 = []
    | x :: xs => (iterNext (applyChain c1 rioSource) a.push st).1 = some x ∧
            pending c1 a (iterNext (applyChain c1 rioSource) a.push st).2 = xs := by
  have hf := fill_spec c1 a st.source ((applyChain c1 rioSource).fuel st.source) st.buffer
    (by rw [applyChain_fuel]; exact Nat.lt_succ_self _)
  simp only [iterNext, pending]
  rcases hr : fillLoop (applyChain c1 rioSource) a.push ((applyChain c1 rioSource).fuel st.source)
      st.source st.buffer true with ⟨s', b'⟩
  rw [hr] at hf
  simp only at hf
  cases b' with
  | nil =>
    have h0 := hf.2 rfl
    rw [h0]
    dsimp only
    simp only [List.nil_append] at hf
    exact ⟨rfl, by simp [hf.1, h0]⟩
  | cons x rest =>
    rw [← hf.1]
    dsimp only
    exact ⟨rfl, rfl⟩

/-- the iterator used as a `Source` is simulated by the list iterator over its pending results -/
theorem intoIter_sim (c1 : List Adapter) (a : Adapter) (f : Sink κ Item εk)
    (st : IterSt (List (Ev Item ε)) Item ε) (k : κ) :
    iterSource.tryForSomeItem f (pending c1 a st) k =
      (pending c1 a ((intoIterSource (applyChain c1 rioSource) a).tryForSomeItem f st k).1,
       ((intoIterSource (applyChain c1 rioSource) a).tryForSomeItem f st k).2.1,
       ((intoIterSource (applyChain c1 rioSource) a).tryForSomeItem f st k).2.2) := by
  have h := iterNext_pending c1 a st
  simp only [intoIterSource, ofIter]
  rcases hn : iterNext (applyChain c1 rioSource) a.push st with ⟨o, st'⟩
  rw [hn] at h
  cases hp : pending c1 a st with
  | nil =>
    rw [hp] at h
    simp only at h
    rcases h with ⟨h1, h2⟩
    subst h1
    simp [iterSource, ofStep, iterStep, h2]
  | cons x xs =>
    rw [hp] at h
    simp only at h
    rcases h with ⟨h1, h2⟩
    subst h1
    cases x with
    | error e => simp [iterSource, ofStep, iterStep, feed, h2]
    | ok t =>
      simp only [iterSource, ofStep, iterStep, feed]
      rcases f k t with ⟨k', r⟩
      cases r with
      | error e => simp [h2]
      | ok u => cases u; simp [h2]

theorem intoIter_loop (c1 : List Adapter) (a : Adapter) (c2 : List Adapter) (f : Sink κ Item εk) (n : Nat)
    (st : IterSt (List (Ev Item ε)) Item ε) (k : κ) :
    (tryForEachLoop (applyChain c2 (intoIterSource (applyChain c1 rioSource) a)) f n st k).2 =
      (tryForEachLoop (applyChain c2 iterSource) f n (pending c1 a st) k).2 := by
  induction n generalizing st k with
  | zero => rfl
  | succ n ih =>
    simp only [tryForEachLoop, applyChain_tryForSome, intoIter_sim c1 a]
    rcases h : (intoIterSource (applyChain c1 rioSource) a).tryForSomeItem (chainWrap c2 f) st k with ⟨s', k', r⟩
    cases r with
    | error e => rfl
    | ok b =>
      cases b with
      | false => rfl
      | true => exact ih s' k'

theorem resultsOf_length (h : Item → Option Item) (sc : List (Ev Item ε)) :
    (resultsOf h sc).length ≤ Ev.bound sc := by
  induction sc with
  | nil => simp [resultsOf, Ev.bound]
  | cons ev rest ih =>
    cases ev with
    | ok is =>
      have := List.length_filterMap_le h is
      simp only [resultsOf, Ev.bound, List.length_append, List.length_map]
      omega
    | err is e =>
      have := List.length_filterMap_le h is
      simp only [resultsOf, Ev.bound, List.length_append, List.length_map, List.length_cons]
      omega

theorem itemsOf_okPrefix (xs : List Item) (rest : List (Except ε Item)) :
    Ev.itemsOf ((xs.map (Except.ok (ε := ε)) ++ rest).map Ev.ofResult) = xs ++ Ev.itemsOf (rest.map Ev.ofResult) ∧
    Ev.errorOf ((xs.map (Except.ok (ε := ε)) ++ rest).map Ev.ofResult) = Ev.errorOf (rest.map Ev.ofResult) := by
  induction xs with
  | nil => simp
  | cons x xs ih =>
    simp only [List.map_cons, List.cons_append, Ev.ofResult, Ev.itemsOf, Ev.errorOf]
    exact ⟨by rw [ih.1]; rfl, ih.2⟩

/-- up to its first error the iterator yields the meaning of the chain on the items before the
fault (those of the failing step included), then that error -/
theorem results_items (h : Item → Option Item) (sc : List (Ev Item ε)) :
    Ev.itemsOf ((resultsOf h sc).map Ev.ofResult) = (Ev.itemsOf sc).filterMap h ∧
    Ev.errorOf ((resultsOf h sc).map Ev.ofResult) = Ev.errorOf sc := by
  induction sc with
  | nil => simp [resultsOf, Ev.itemsOf, Ev.errorOf]
  | cons ev rest ih =>
    cases ev with
    | ok is =>
      have := itemsOf_okPrefix (ε := ε) (is.filterMap h) (resultsOf h rest)
      simp only [resultsOf, Ev.itemsOf, Ev.errorOf, List.filterMap_append]
      rw [this.1, this.2, ih.1, ih.2]
      exact ⟨rfl, rfl⟩
    | err is e =>
      have := itemsOf_okPrefix (ε := ε) (is.filterMap h) (.error e :: resultsOf h rest)
      simp only [resultsOf, Ev.itemsOf, Ev.errorOf]
      rw [this.1, this.2]
      simp [Ev.ofResult, Ev.itemsOf, Ev.errorOf]

end SophiaProofs.SourceLemmas
