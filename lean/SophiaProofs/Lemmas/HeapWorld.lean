/-
Worlds of named stores over one heap: the global invariant `WInv` (every index satisfies `IxInv`,
no buffer is owned by two stores, no UB so far) is preserved by every operation of
`World.step .manual`; frame property (an operation never changes what a store it does not name
returns).  Property C10.
-/
import SophiaProofs.Lemmas.HeapIndex

namespace SophiaProofs.HeapP
open SophiaModel SophiaModel.Term SophiaModel.Store SophiaModel.Heap

structure WInv (w : World) : Prop where
  ix : ∀ e ∈ w.stores, IxInv w.heap e.2.ix
  names : (w.stores.map (·.1)).Nodup
  /-- no buffer has owners in two different stores -/
  disj : ∀ e1 ∈ w.stores, ∀ e2 ∈ w.stores, e1.1 ≠ e2.1 → ∀ a ∈ e1.2.ix.owned, a ∉ e2.2.ix.owned
  ub : w.heap.ub = false

theorem WInv.init : WInv {} := ⟨by simp, by simp, by simp, rfl⟩

/-! ### association lists -/

theorem uniq_of_nodup {l : List (Nat × HStore)} (nd : (l.map (·.1)).Nodup) {e1 e2 : Nat × HStore}
    (h1 : e1 ∈ l) (h2 : e2 ∈ l) (he : e1.1 = e2.1) : e1 = e2 := by
  induction l with
  | nil => cases h1
  | cons x l ih =>
    simp only [List.map_cons, List.nodup_cons, List.mem_map, not_exists, not_and] at nd
    simp only [List.mem_cons] at h1 h2
    rcases h1 with rfl | h1 <;> rcases h2 with rfl | h2
    · rfl
    · exact absurd he.symm (nd.1 e2 h2)
    · exact absurd he (nd.1 e1 h1)
    · exact ih nd.2 h1 h2

theorem get_mem {w : World} {n : Nat} {s : HStore} (h : w.get n = some s) : (n, s) ∈ w.stores := by
  unfold World.get at h
  cases hf : w.stores.find? (fun e => e.1 == n) with
  | none => simp [hf] at h
  | some e =>
    rw [hf] at h
    simp only [Option.map_some, Option.some.injEq] at h
    have h1 : e.1 = n := by simpa using List.find?_some hf
    have h2 := List.mem_of_find?_eq_some hf
    rw [← h, ← h1]; exact h2

theorem get_none_ne {w : World} {n : Nat} (h : w.get n = none) : ∀ e ∈ w.stores, e.1 ≠ n := by
  unfold World.get at h
  simp only [Option.map_eq_none_iff] at h
  intro e he
  have := List.find?_eq_none.1 h e he
  simpa using this

theorem get_of_mem {w : World} (nd : (w.stores.map (·.1)).Nodup) {n : Nat} {s : HStore}
    (h : (n, s) ∈ w.stores) : w.get n = some s := by
  cases hg : w.get n with
  | none => exact absurd rfl (get_none_ne hg _ h)
  | some s' =>
    have := uniq_of_nodup nd (get_mem hg) h rfl
    simp at this; rw [this]

theorem find_map_other {l : List (Nat × HStore)} {n m : Nat} (f : Nat × HStore → Nat × HStore)
    (hf : ∀ e, (f e).1 = e.1) (hfo : ∀ e, e.1 ≠ m → f e = e) (hn : n ≠ m) :
    ((l.map f).find? (fun e => e.1 == n)).map (·.2) = (l.find? (fun e => e.1 == n)).map (·.2) := by
  induction l with
  | nil => rfl
  | cons x l ih =>
    simp only [List.map_cons, List.find?_cons, hf]
    by_cases hx : (x.1 == n) = true
    · have : x.1 ≠ m := by
        have : x.1 = n := by simpa using hx
        rw [this]; exact hn
      simp only [hx]; rw [hfo x this]
    · have hx' : (x.1 == n) = false := by simpa using hx
      simp only [hx']; exact ih

theorem set_fn_fst (n : Nat) (s : HStore) (e : Nat × HStore) : (if (e.1 == n) = true then (n, s) else e).1 = e.1 := by
  by_cases he : (e.1 == n) = true
  · rw [if_pos he]; exact (by simpa using he : e.1 = n).symm
  · rw [if_neg he]

theorem get_set_other (w : World) {a n : Nat} (s : HStore) (hn : n ≠ a) : (w.set a s).get n = w.get n := by
  unfold World.get World.set
  apply find_map_other (m := a)
  · exact set_fn_fst a s
  · intro e he
    have : ¬ (e.1 == a) = true := by simpa using he
    rw [if_neg this]
  · exact hn

theorem get_add_other (w : World) {b n : Nat} (s : HStore) (hn : n ≠ b) : (w.add b s).get n = w.get n := by
  unfold World.get World.add
  have hb : (b == n) = false := by simpa using Ne.symm hn
  simp only [List.find?_append]
  cases w.stores.find? (fun e => e.1 == n) with
  | none => simp [hb]
  | some e => simp

theorem get_del_other (w : World) {a n : Nat} (hn : n ≠ a) : (w.del a).get n = w.get n := by
  unfold World.get World.del
  congr 1
  induction w.stores with
  | nil => rfl
  | cons x l ih =>
    by_cases hx : x.1 == n
    · have : (x.1 != a) = true := by
        have : x.1 = n := by simpa using hx
        simp [this, hn]
      simp [this, hx]
    · by_cases hxa : (x.1 != a) = true
      · simp [hxa, hx, ih]
      · simp [hxa, hx, ih]

theorem get_heap (w : World) (h : Heap.Heap) (n : Nat) : ({ w with heap := h } : World).get n = w.get n := rfl

/-! ### building blocks -/

/-- changing the heap without touching any cell a store owns -/
theorem WInv.with_heap {w : World} (inv : WInv w) {h' : Heap.Heap}
    (hs : ∀ e ∈ w.stores, Same w.heap h' e.2.ix.owned) (hub : h'.ub = false) :
    WInv { w with heap := h' } :=
  ⟨fun e he => (inv.ix e he).frame (hs e he), inv.names, inv.disj, hub⟩

theorem WInv.with_ext {w : World} (inv : WInv w) {h' : Heap.Heap} (e : Ext w.heap h') (hub : h'.ub = w.heap.ub) :
    WInv { w with heap := h' } :=
  inv.with_heap (fun x hx => Same.of_ext e (fun _ ha => (inv.ix x hx).lt ha)) (by rw [hub, inv.ub])

theorem mem_set {w : World} {n : Nat} {s : HStore} {e' : Nat × HStore} (he' : e' ∈ (w.set n s).stores) :
    (e' = (n, s) ∧ ∃ e ∈ w.stores, e.1 = n) ∨ (e' ∈ w.stores ∧ e'.1 ≠ n) := by
  simp only [World.set, List.mem_map] at he'
  obtain ⟨e, he, rfl⟩ := he'
  by_cases hen : (e.1 == n) = true
  · rw [if_pos hen]; exact Or.inl ⟨rfl, e, he, by simpa using hen⟩
  · rw [if_neg hen]; exact Or.inr ⟨he, by simpa using hen⟩

theorem names_set (w : World) (n : Nat) (s : HStore) : (w.set n s).stores.map (·.1) = w.stores.map (·.1) := by
  simp only [World.set, List.map_map]
  apply List.map_congr_left
  intro e _
  exact set_fn_fst n s e

/-- store `n` gets a new value whose index satisfies the invariant and owns nothing another store owns -/
theorem WInv.set_ix {w : World} (inv : WInv w) {n : Nat} {s' : HStore} (hi : IxInv w.heap s'.ix)
    (hd : ∀ e ∈ w.stores, e.1 ≠ n → ∀ x ∈ s'.ix.owned, x ∉ e.2.ix.owned) : WInv (w.set n s') := by
  have hmem : ∀ e' ∈ (w.set n s').stores, (e' = (n, s') ∧ ∃ e ∈ w.stores, e.1 = n) ∨ (e' ∈ w.stores ∧ e'.1 ≠ n) :=
    fun e' he' => mem_set he'
  refine ⟨?_, ?_, ?_, inv.ub⟩
  · intro e' he'
    rcases hmem e' he' with ⟨rfl, _⟩ | ⟨he, _⟩
    · exact hi
    · exact inv.ix e' he
  · have : (w.set n s').stores.map (·.1) = w.stores.map (·.1) := names_set w n s'
    rw [this]; exact inv.names
  · intro e1 h1 e2 h2 hne a ha
    rcases hmem e1 h1 with ⟨rfl, _⟩ | ⟨he1, hn1⟩ <;> rcases hmem e2 h2 with ⟨rfl, _⟩ | ⟨he2, hn2⟩
    · exact absurd rfl hne
    · exact hd e2 he2 hn2 a ha
    · intro hb; exact hd e1 he1 hn1 a hb ha
    · exact inv.disj e1 he1 e2 he2 hne a ha

theorem WInv.add_store {w : World} (inv : WInv w) {b : Nat} {c : HStore} (hb : ∀ e ∈ w.stores, e.1 ≠ b)
    (hi : IxInv w.heap c.ix) (hd : ∀ e ∈ w.stores, ∀ x ∈ c.ix.owned, x ∉ e.2.ix.owned) : WInv (w.add b c) := by
  refine ⟨?_, ?_, ?_, inv.ub⟩
  · intro e he
    simp only [World.add, List.mem_append, List.mem_singleton] at he
    rcases he with he | rfl
    · exact inv.ix e he
    · exact hi
  · simp only [World.add, List.map_append, List.map_cons, List.map_nil]
    rw [List.nodup_append]
    refine ⟨inv.names, by simp, ?_⟩
    intro x hx y hy
    simp only [List.mem_singleton] at hy
    obtain ⟨e, he, rfl⟩ := List.mem_map.1 hx
    rw [hy]; exact hb e he
  · intro e1 h1 e2 h2 hne a ha
    simp only [World.add, List.mem_append, List.mem_singleton] at h1 h2
    rcases h1 with h1 | rfl <;> rcases h2 with h2 | rfl
    · exact inv.disj e1 h1 e2 h2 hne a ha
    · intro hc; exact hd e1 h1 a hc ha
    · exact hd e2 h2 a ha
    · exact absurd rfl hne

/-- the values are re-associated with names (swap, move, removal, changes outside the index) -/
theorem WInv.rebind {w : World} (inv : WInv w) {st' : List (Nat × HStore)} (src : Nat → Nat)
    (hn : (st'.map (·.1)).Nodup)
    (hsrc : ∀ e' ∈ st', ∃ e ∈ w.stores, e.1 = src e'.1 ∧ e'.2.ix = e.2.ix)
    (hinj : ∀ e1 ∈ st', ∀ e2 ∈ st', src e1.1 = src e2.1 → e1.1 = e2.1) :
    WInv { w with stores := st' } := by
  refine ⟨?_, hn, ?_, inv.ub⟩
  · intro e' he'
    obtain ⟨e, he, _, hix⟩ := hsrc e' he'
    rw [hix]; exact inv.ix e he
  · intro e1 h1 e2 h2 hne a ha
    obtain ⟨o1, ho1, hs1, hix1⟩ := hsrc e1 h1
    obtain ⟨o2, ho2, hs2, hix2⟩ := hsrc e2 h2
    rw [hix1] at ha; rw [hix2]
    exact inv.disj o1 ho1 o2 ho2 (fun e => hne (hinj e1 h1 e2 h2 (by rw [← hs1, ← hs2, e]))) a ha

/-- a store gets a value with the SAME index (rows / flags changed) -/
theorem WInv.set_same_ix {w : World} (inv : WInv w) {n : Nat} {s s' : HStore} (hg : w.get n = some s)
    (hix : s'.ix = s.ix) : WInv (w.set n s') := by
  have hm := get_mem hg
  apply inv.set_ix
  · rw [hix]; exact inv.ix _ hm
  · intro e he hne x hx
    rw [hix] at hx
    exact inv.disj _ hm e he (Ne.symm hne) x hx

/-- a store's index makes one `IxStep` (the heap grows, the index owns old or fresh buffers) -/
theorem WInv.index_step {w : World} (inv : WInv w) {n : Nat} {s s' : HStore} {h' : Heap.Heap}
    (hg : w.get n = some s) (st : IxStep w.heap h' s.ix s'.ix) :
    WInv ({ w with heap := h' }.set n s') := by
  have hm := get_mem hg
  have w1 : WInv { w with heap := h' } := inv.with_ext st.ext st.ub
  apply w1.set_ix st.inv
  intro e he hne x hx hxe
  rcases st.ids x hx with hold | hfresh
  · exact inv.disj _ hm e he (Ne.symm hne) x hold hxe
  · exact Nat.lt_irrefl _ (Nat.lt_of_lt_of_le ((inv.ix e he).lt hxe) hfresh)

theorem readable_of_inv {h : Heap.Heap} {s : HStore} (inv : IxInv h s.ix) : s.readable h = true := by
  unfold HStore.readable HStore.refsRead
  rw [List.all_eq_true]
  intro r hr
  obtain ⟨i, _, hi⟩ := List.mem_flatMap.1 hr
  by_cases hlt : i < s.ix.i2t.length
  · have hm : s.ix.i2t.getD i (.atom .iri []) ∈ s.ix.i2t := by
      rw [List.getD_eq_getElem?_getD, List.getElem?_eq_getElem hlt]; simp
    obtain ⟨x, hx⟩ := inv.entry_deref hm hi
    simp [hx]
  · rw [List.getD_eq_getElem?_getD, List.getElem?_eq_none (Nat.le_of_not_lt hlt)] at hi
    simp [TermRef.refs] at hi

theorem new_ix (sh : Shape) (mx : Nat) : (HStore.new sh mx).ix = {} := rfl

theorem remove_ix (h : Heap.Heap) (s : HStore) (q : Quad) : (s.remove h q).1.ix = s.ix := by
  unfold HStore.remove
  simp only
  split
  · rfl
  · split
    · split <;> rfl
    · rfl

/-! ### every operation preserves the invariant (manual `Clone`) -/

theorem cloneStore_manual_spec {h : Heap.Heap} {s : HStore} (inv : IxInv h s.ix) :
    ∃ h' c, World.cloneStore .manual h s = (h', some c) ∧ Ext h h' ∧ h'.ub = h.ub ∧ IxInv h' c.ix ∧
      (∀ a ∈ c.ix.owned, h.cells.size ≤ a) ∧ Pointwise (SameRead h') s.ix.i2t c.ix.i2t ∧
      c.idx = s.idx ∧ c.shape = s.shape ∧ c.max = s.max := by
  obtain ⟨h', ix', hc, he, hu, hi, hf, hp, _⟩ := cloneIndex_manual_spec inv
  exact ⟨h', { s with ix := ix', boxed := false }, by simp [World.cloneStore, hc], he, hu, hi, hf, hp, rfl, rfl, rfl⟩

theorem WInv.step {w : World} (inv : WInv w) (op : Op) : WInv (World.step .manual w op).1 := by
  cases op with
  | new a shape max =>
    simp only [World.step]
    cases hg : w.get a with
    | some _ => exact inv
    | none =>
      exact inv.add_store (get_none_ne hg) (by rw [new_ix]; exact IxInv.empty _)
        (by intro e _ x hx; rw [new_ix] at hx; simp [TIndex.owned, TIndex.keyIds, TIndex.entryIds] at hx)
  | ins a q =>
    simp only [World.step]
    cases hg : w.get a with
    | none => exact inv
    | some s =>
      simp only
      split
      · exact inv
      · have st := insert_step w.own q (inv.ix _ (get_mem hg))
        split
        · next h s' heq => rw [heq] at st; exact inv.index_step hg st
        · next h s' b heq => rw [heq] at st; exact inv.index_step hg st
  | ens a t =>
    simp only [World.step]
    cases hg : w.get a with
    | none => exact inv
    | some s =>
      simp only
      have st := ensureIndex_step w.own s.max t (inv.ix _ (get_mem hg))
      split
      · next h ix heq => rw [heq] at st; exact inv.index_step (s' := { s with ix }) hg st
      · next h ix i heq => rw [heq] at st; exact inv.index_step (s' := { s with ix }) hg st
  | rem a q =>
    simp only [World.step]
    cases hg : w.get a with
    | none => exact inv
    | some s =>
      simp only
      split
      · exact inv
      · exact inv.set_same_ix hg (remove_ix _ _ _)
  | clone a b =>
    simp only [World.step]
    cases hga : w.get a with
    | none => exact inv
    | some s =>
      cases hgb : w.get b with
      | some _ => exact inv
      | none =>
        simp only
        obtain ⟨h', c, hc, he, hu, hi, hf, _⟩ := cloneStore_manual_spec (inv.ix _ (get_mem hga))
        rw [hc]
        simp only
        have w1 : WInv { w with heap := h' } := inv.with_ext he hu
        exact w1.add_store (get_none_ne hgb) hi
          (fun e he' x hx hxe => Nat.lt_irrefl _ (Nat.lt_of_lt_of_le ((inv.ix e he').lt hxe) (hf x hx)))
  | cloneFrom a b =>
    simp only [World.step]
    cases hga : w.get a with
    | none => exact inv
    | some s =>
      cases hgb : w.get b with
      | none => exact inv
      | some old =>
        simp only
        split
        · exact inv
        · next hab =>
          obtain ⟨h', c, hc, he, hu, hi, hf, _⟩ := cloneStore_manual_spec (inv.ix _ (get_mem hga))
          rw [hc]
          simp only
          have hmb := get_mem hgb
          have oldInv := inv.ix _ hmb
          -- the old value of `b` is dropped: its buffers are distinct, live, and nobody else's
          have hub : (h'.freeAll old.ix.owned).ub = false := by
            rw [freeAll_ub oldInv.nodup (fun x hx => (oldInv.live x hx).ext he), hu, inv.ub]
          have w1 : WInv { w with heap := h' } := inv.with_ext he hu
          have hfree : ∀ x, x ∉ old.ix.owned → (h'.freeAll old.ix.owned).cells[x]? = h'.cells[x]? :=
            fun x hx => freeAll_get_other _ hx
          -- first forget `b`'s old index (an empty one owns nothing), then release, then install the clone
          have w2 : WInv ({ w with heap := h' }.set b { old with ix := {} }) :=
            w1.set_ix (IxInv.empty _) (by intro e _ _ x hx; simp [TIndex.owned, TIndex.keyIds, TIndex.entryIds] at hx)
          have w3 : WInv { ({ w with heap := h' } : World).set b { old with ix := {} } with heap := h'.freeAll old.ix.owned } := by
            apply w2.with_heap _ hub
            intro e' he' x hx
            rcases mem_set he' with ⟨rfl, _⟩ | ⟨hem, hne⟩
            · simp [TIndex.owned, TIndex.keyIds, TIndex.entryIds] at hx
            · exact hfree x (fun hxo => inv.disj _ hmb e' hem (Ne.symm hne) x hxo hx)
          have hci : IxInv (h'.freeAll old.ix.owned) c.ix :=
            hi.frame (fun x hx => hfree x (fun hxo => Nat.lt_irrefl _ (Nat.lt_of_lt_of_le (oldInv.lt hxo) (hf x hx))))
          have w4 := w3.set_ix (n := b) (s' := c) hci (by
            intro e' he' hne x hx hxe
            rcases mem_set he' with ⟨rfl, _⟩ | ⟨hem, _⟩
            · exact hne rfl
            · exact Nat.lt_irrefl _ (Nat.lt_of_lt_of_le ((inv.ix e' hem).lt hxe) (hf x hx)))
          have : ({ ({ w with heap := h' } : World).set b { old with ix := {} } with heap := h'.freeAll old.ix.owned } : World).set b c
              = ({ w with heap := h'.freeAll old.ix.owned } : World).set b c := by
            simp only [World.set, List.map_map]
            congr 1
            apply List.map_congr_left
            intro e _
            simp only [Function.comp]
            by_cases hen : (e.1 == b) = true
            · simp only [hen, if_true, beq_self_eq_true]
            · simp only [if_neg hen]
          rw [this] at w4
          exact w4
  | drop a =>
    simp only [World.step]
    cases hg : w.get a with
    | none => exact inv
    | some s =>
      simp only
      have hm := get_mem hg
      have sInv := inv.ix _ hm
      have w1 : WInv (w.del a) := by
        apply inv.rebind id
        · exact (inv.names.sublist (List.Sublist.map _ List.filter_sublist))
        · intro e' he'; exact ⟨e', (List.mem_filter.1 he').1, rfl, rfl⟩
        · intro _ _ _ _ h; exact h
      have : ({ w with heap := w.heap.freeAll s.ix.owned } : World).del a = { w.del a with heap := w.heap.freeAll s.ix.owned } := rfl
      rw [this]
      apply w1.with_heap
      · intro e' he' x hx
        have hem := (List.mem_filter.1 he').1
        have hne : e'.1 ≠ a := by simpa using (List.mem_filter.1 he').2
        exact freeAll_get_other _ (fun hxo => inv.disj _ hm e' hem (Ne.symm hne) x hxo hx)
      · rw [freeAll_ub sInv.nodup sInv.live]; exact inv.ub
  | swap a b =>
    simp only [World.step]
    cases hga : w.get a with
    | none => exact inv
    | some sa =>
      cases hgb : w.get b with
      | none => exact inv
      | some sb =>
        simp only
        split
        · exact inv
        · next hab =>
          have hab' : a ≠ b := by simpa using hab
          have hma := get_mem hga
          have hmb := get_mem hgb
          apply inv.rebind (fun n => if n = a then b else if n = b then a else n)
          · have hn : (((w.set a sb).set b sa).stores.map (·.1)).Nodup := by
              rw [names_set, names_set]; exact inv.names
            exact hn
          · intro e' he'
            rcases mem_set (w := w.set a sb) he' with ⟨rfl, _⟩ | ⟨he1, hne1⟩
            · exact ⟨_, hma, by simp [hab'.symm], rfl⟩
            · rcases mem_set he1 with ⟨rfl, _⟩ | ⟨he2, hne2⟩
              · exact ⟨_, hmb, by simp, rfl⟩
              · exact ⟨e', he2, by simp [hne1, hne2], rfl⟩
          · intro e1 _ e2 _ h
            by_cases h1a : e1.1 = a <;> by_cases h1b : e1.1 = b <;> by_cases h2a : e2.1 = a <;> by_cases h2b : e2.1 = b <;>
              simp_all
  | mv a b =>
    simp only [World.step]
    cases hga : w.get a with
    | none => exact inv
    | some s =>
      cases hgb : w.get b with
      | some _ => exact inv
      | none =>
        simp only
        have hm := get_mem hga
        have w1 : WInv (w.del a) := by
          apply inv.rebind id
          · exact (inv.names.sublist (List.Sublist.map _ List.filter_sublist))
          · intro e' he'; exact ⟨e', (List.mem_filter.1 he').1, rfl, rfl⟩
          · intro _ _ _ _ h; exact h
        apply w1.add_store
        · intro e he; exact get_none_ne hgb e (List.mem_filter.1 he).1
        · exact inv.ix _ hm
        · intro e he x hx
          have hem := (List.mem_filter.1 he).1
          have hne : e.1 ≠ a := by simpa using (List.mem_filter.1 he).2
          exact inv.disj _ hm e hem (Ne.symm hne) x hx
  | box a =>
    simp only [World.step]
    cases hg : w.get a with
    | none => exact inv
    | some s => exact inv.set_same_ix hg rfl
  | take a b =>
    simp only [World.step]
    cases hga : w.get a with
    | none => exact inv
    | some s =>
      cases hgb : w.get b with
      | some _ => exact inv
      | none =>
        simp only
        have hm := get_mem hga
        have w1 : WInv (w.set a (HStore.new s.shape s.max)) :=
          inv.set_ix (by rw [new_ix]; exact IxInv.empty _)
            (by intro e _ _ x hx; rw [new_ix] at hx; simp [TIndex.owned, TIndex.keyIds, TIndex.entryIds] at hx)
        apply w1.add_store
        · intro e he
          rcases mem_set he with ⟨rfl, _⟩ | ⟨hem, _⟩
          · intro hab; rw [← hab] at hgb; rw [hga] at hgb; cases hgb
          · exact get_none_ne hgb e hem
        · exact inv.ix _ hm
        · intro e he x hx
          rcases mem_set he with ⟨rfl, _⟩ | ⟨hem, hne⟩
          · simp [new_ix, TIndex.owned, TIndex.keyIds, TIndex.entryIds]
          · exact inv.disj _ hm e hem (Ne.symm hne) x hx
  | grow a =>
    simp only [World.step]
    cases hg : w.get a with
    | none => exact inv
    | some _ => exact inv
  | readAll a =>
    simp only [World.step]
    cases hg : w.get a with
    | none => exact inv
    | some s =>
      simp only
      have : s.readAll w.heap = w.heap := by
        simp [HStore.readAll, readable_of_inv (inv.ix _ (get_mem hg))]
      rw [this]; exact inv
  | via own => exact ⟨inv.ix, inv.names, inv.disj, inv.ub⟩

theorem WInv.run {w : World} (inv : WInv w) (ops : List Op) : WInv (World.run .manual w ops) := by
  induction ops generalizing w with
  | nil => exact inv
  | cons op ops ih => exact ih (inv.step op)

/-! ### frame: an operation does not touch the stores it does not name -/

def opNames : Op → List Nat
  | .new a _ _ => [a]
  | .ins a _ => [a]
  | .ens a _ => [a]
  | .rem a _ => [a]
  | .clone a b => [a, b]
  | .cloneFrom a b => [a, b]
  | .drop a => [a]
  | .swap a b => [a, b]
  | .mv a b => [a, b]
  | .box a => [a]
  | .take a b => [a, b]
  | .grow a => [a]
  | .readAll a => [a]
  | .via _ => []

/-- which value a name is bound to only changes for the names an operation mentions (any `Clone`) -/
theorem step_get_other (ck : CloneKind) (w : World) (op : Op) {n : Nat} (hn : n ∉ opNames op) :
    (World.step ck w op).1.get n = w.get n := by
  cases op with
  | new a shape max =>
    have hna : n ≠ a := by simpa [opNames] using hn
    simp only [World.step]
    split
    · rfl
    · exact get_add_other _ _ hna
  | ins a q =>
    have hna : n ≠ a := by simpa [opNames] using hn
    simp only [World.step]
    split
    · split
      · rfl
      · split <;> exact get_set_other _ _ hna
    · rfl
  | ens a t =>
    have hna : n ≠ a := by simpa [opNames] using hn
    simp only [World.step]
    split
    · split <;> exact get_set_other _ _ hna
    · rfl
  | rem a q =>
    have hna : n ≠ a := by simpa [opNames] using hn
    simp only [World.step]
    split
    · split
      · rfl
      · exact get_set_other _ _ hna
    · rfl
  | clone a b =>
    have hnb : n ≠ b := by simp [opNames] at hn; exact hn.2
    simp only [World.step]
    split
    · split
      · exact get_add_other _ _ hnb
      · rfl
    · rfl
  | cloneFrom a b =>
    have hnb : n ≠ b := by simp [opNames] at hn; exact hn.2
    simp only [World.step]
    split
    · split
      · rfl
      · split
        · exact get_set_other _ _ hnb
        · rfl
    · rfl
  | drop a =>
    have hna : n ≠ a := by simpa [opNames] using hn
    simp only [World.step]
    split
    · exact get_del_other _ hna
    · rfl
  | swap a b =>
    have hna : n ≠ a := by simp [opNames] at hn; exact hn.1
    have hnb : n ≠ b := by simp [opNames] at hn; exact hn.2
    simp only [World.step]
    split
    · split
      · rfl
      · rw [get_set_other _ _ hnb, get_set_other _ _ hna]
    · rfl
  | mv a b =>
    have hna : n ≠ a := by simp [opNames] at hn; exact hn.1
    have hnb : n ≠ b := by simp [opNames] at hn; exact hn.2
    simp only [World.step]
    split
    · rw [get_add_other _ _ hnb, get_del_other _ hna]
    · rfl
  | box a =>
    have hna : n ≠ a := by simpa [opNames] using hn
    simp only [World.step]
    split
    · exact get_set_other _ _ hna
    · rfl
  | take a b =>
    have hna : n ≠ a := by simp [opNames] at hn; exact hn.1
    have hnb : n ≠ b := by simp [opNames] at hn; exact hn.2
    simp only [World.step]
    split
    · rw [get_add_other _ _ hnb, get_set_other _ _ hna]
    · rfl
  | grow a =>
    simp only [World.step]
    split <;> rfl
  | readAll a =>
    simp only [World.step]
    split <;> rfl
  | via own => rfl

/-- the cells owned by a store an operation does not name are the same afterwards (manual `Clone`) -/
theorem step_same_other {w : World} (inv : WInv w) (op : Op) {e : Nat × HStore} (he : e ∈ w.stores)
    (hn : e.1 ∉ opNames op) : Same w.heap (World.step .manual w op).1.heap e.2.ix.owned := by
  have hlt : ∀ x ∈ e.2.ix.owned, x < w.heap.cells.size := fun x hx => (inv.ix e he).lt hx
  have triv : Same w.heap w.heap e.2.ix.owned := fun _ _ => rfl
  cases op with
  | new a shape max => simp only [World.step]; split <;> exact triv
  | ins a q =>
    simp only [World.step]
    cases hg : w.get a with
    | none => exact triv
    | some s =>
      simp only
      split
      · exact triv
      · have st := insert_step w.own q (inv.ix _ (get_mem hg))
        split
        · next h s' heq => rw [heq] at st; exact Same.of_ext st.ext hlt
        · next h s' b heq => rw [heq] at st; exact Same.of_ext st.ext hlt
  | ens a t =>
    simp only [World.step]
    cases hg : w.get a with
    | none => exact triv
    | some s =>
      simp only
      have st := ensureIndex_step w.own s.max t (inv.ix _ (get_mem hg))
      split
      · next h ix heq => rw [heq] at st; exact Same.of_ext st.ext hlt
      · next h ix i heq => rw [heq] at st; exact Same.of_ext st.ext hlt
  | rem a q =>
    simp only [World.step]
    split
    · split <;> exact triv
    · exact triv
  | clone a b =>
    simp only [World.step]
    cases hga : w.get a with
    | none => exact triv
    | some s =>
      cases hgb : w.get b with
      | some _ => exact triv
      | none =>
        simp only
        obtain ⟨h', c, hc, hext, _⟩ := cloneStore_manual_spec (inv.ix _ (get_mem hga))
        rw [hc]
        exact Same.of_ext hext hlt
  | cloneFrom a b =>
    have hnb : e.1 ≠ b := by simp [opNames] at hn; exact hn.2
    simp only [World.step]
    cases hga : w.get a with
    | none => exact triv
    | some s =>
      cases hgb : w.get b with
      | none => exact triv
      | some old =>
        simp only
        split
        · exact triv
        · obtain ⟨h', c, hc, hext, _⟩ := cloneStore_manual_spec (inv.ix _ (get_mem hga))
          rw [hc]
          intro x hx
          have : x ∉ old.ix.owned := fun hxo => inv.disj _ (get_mem hgb) e he (Ne.symm hnb) x hxo hx
          show (h'.freeAll old.ix.owned).cells[x]? = w.heap.cells[x]?
          rw [freeAll_get_other _ this]
          exact hext.2 x (hlt x hx)
  | drop a =>
    have hna : e.1 ≠ a := by simpa [opNames] using hn
    simp only [World.step]
    cases hg : w.get a with
    | none => exact triv
    | some s =>
      intro x hx
      have : x ∉ s.ix.owned := fun hxo => inv.disj _ (get_mem hg) e he (Ne.symm hna) x hxo hx
      exact freeAll_get_other _ this
  | swap a b =>
    simp only [World.step]
    split
    · split <;> exact triv
    · exact triv
  | mv a b => simp only [World.step]; split <;> exact triv
  | box a => simp only [World.step]; split <;> exact triv
  | take a b => simp only [World.step]; split <;> exact triv
  | grow a => simp only [World.step]; split <;> exact triv
  | readAll a =>
    simp only [World.step]
    cases hg : w.get a with
    | none => exact triv
    | some s =>
      have : s.readAll w.heap = w.heap := by
        simp [HStore.readAll, readable_of_inv (inv.ix _ (get_mem hg))]
      simp only [this]
      exact triv
  | via own => exact triv

end SophiaProofs.HeapP
