/-
Lemmas for C20 (native values as typed literals): digits printed by `Display`, the digit loop of
`from_str_radix`, the `xsd:integer` lexical space spelled out.
-/
import SophiaModel.Model.Native

namespace SophiaProofs.Native
open SophiaModel SophiaModel.Native SophiaModel.Re

/-! ### regex helpers -/

theorem star_cls_iff (rs : List (Nat × Nat)) (w : List Nat) :
    Matches (.star (.cls rs)) w ↔ ∀ c ∈ w, inCls rs c = true := by
  induction w with
  | nil => simp; exact .star0
  | cons c w ih =>
    rw [matches_star_cons]
    constructor
    · rintro ⟨u, v, rfl, h1, h2⟩
      rw [matches_cls] at h1
      obtain ⟨d, hd, hin⟩ := h1
      simp only [List.cons.injEq] at hd
      obtain ⟨rfl, rfl⟩ := hd
      simp only [List.nil_append] at ih ⊢
      intro x hx
      rcases List.mem_cons.mp hx with rfl | hx
      · exact hin
      · exact ih.mp h2 x hx
    · intro h
      refine ⟨[], w, rfl, .cls (h c (List.mem_cons_self ..)), ih.mpr (fun x hx => h x (List.mem_cons_of_mem _ hx))⟩

def isDigitCp (c : Nat) : Prop := 48 ≤ c ∧ c ≤ 57

theorem inCls_digit (c : Nat) : inCls [(('0':Char).toNat, ('9':Char).toNat)] c = true ↔ isDigitCp c := by
  simp [inCls, isDigitCp]

theorem plus_digit_iff (w : List Nat) :
    Matches (plus Xsd.digit) w ↔ w ≠ [] ∧ ∀ c ∈ w, isDigitCp c := by
  unfold plus Xsd.digit rng
  rw [matches_cat]
  constructor
  · rintro ⟨u, v, rfl, h1, h2⟩
    rw [matches_cls] at h1
    obtain ⟨d, rfl, hd⟩ := h1
    rw [star_cls_iff] at h2
    refine ⟨by simp, ?_⟩
    intro c hc
    rcases List.mem_append.mp hc with h | h
    · simp at h; subst h; exact (inCls_digit _).mp hd
    · exact (inCls_digit _).mp (h2 c h)
  · rintro ⟨hne, hall⟩
    cases w with
    | nil => exact absurd rfl hne
    | cons c w =>
      refine ⟨[c], w, rfl, .cls ((inCls_digit c).mpr (hall c (List.mem_cons_self ..))), ?_⟩
      rw [star_cls_iff]
      exact fun x hx => (inCls_digit x).mpr (hall x (List.mem_cons_of_mem _ hx))

theorem sign_iff (c : Nat) : inCls ("+-".toList.map (fun c => (c.toNat, c.toNat))) c = true ↔ c = 43 ∨ c = 45 := by
  simp [inCls]
  omega

/-! ### digits -/

theorem digitVal_digitChar : ∀ d, d < 10 → digitVal (digitChar d) = some d := by decide

theorem digitChar_toNat : ∀ d, d < 10 → (digitChar d).toNat = 48 + d := by decide

theorem digitVal_some {c : Char} {d : Nat} (h : digitVal c = some d) :
    isDigitCp c.toNat ∧ d = c.toNat - 48 ∧ d < 10 := by
  unfold digitVal at h
  split at h
  · rename_i hc
    obtain ⟨h1, h2⟩ := hc
    have h1' : ('0' : Char).toNat ≤ c.toNat := h1
    have h2' : c.toNat ≤ ('9' : Char).toNat := h2
    have e0 : ('0' : Char).toNat = 48 := by decide
    have e9 : ('9' : Char).toNat = 57 := by decide
    injection h with h
    refine ⟨⟨by omega, by omega⟩, h.symm, by omega⟩
  · cases h

theorem digitVal_none_of_not_digit {c : Char} (h : ¬ isDigitCp c.toNat) : digitVal c = none := by
  cases hd : digitVal c with
  | none => rfl
  | some d => exact absurd (digitVal_some hd).1 h

theorem showNat_lt {n : Nat} (h : n < 10) : showNat n = [digitChar n] := by
  rw [showNat]; simp [h]

theorem showNat_ge {n : Nat} (h : ¬ n < 10) : showNat n = showNat (n / 10) ++ [digitChar (n % 10)] := by
  rw [showNat]; simp [h]

theorem showNat_ne_nil (n : Nat) : showNat n ≠ [] := by
  by_cases h : n < 10
  · simp [showNat_lt h]
  · simp [showNat_ge h]

theorem showNat_digits (n : Nat) : ∀ c ∈ showNat n, ∃ d, d < 10 ∧ c = digitChar d := by
  induction n using Nat.strongRecOn with
  | _ n ih =>
    by_cases h : n < 10
    · rw [showNat_lt h]; intro c hc; simp at hc; exact ⟨n, h, hc⟩
    · rw [showNat_ge h]
      intro c hc
      rcases List.mem_append.mp hc with hc | hc
      · exact ih (n / 10) (by omega) c hc
      · simp at hc; exact ⟨n % 10, by omega, hc⟩

theorem showNat_isDigit (n : Nat) : ∀ c ∈ showNat n, isDigitCp c.toNat := by
  intro c hc
  obtain ⟨d, hd, rfl⟩ := showNat_digits n c hc
  rw [digitChar_toNat d hd]; unfold isDigitCp; omega

/-! ### the digit loop -/

/-- signed accumulation: the value the loop has after reading `cs` from `acc` when nothing overflows -/
def sgn (p : Bool) (k : Int) : Int := if p then k else -k

def ovf (p : Bool) : IntErr := if p then .posOverflow else .negOverflow

def stepVal (p : Bool) (acc : Int) (d : Nat) : Int := if p then acc * 10 + d else acc * 10 - d

theorem parseLoop_nil (ty p acc) : parseLoop ty p acc [] = .ok acc := rfl

theorem parseLoop_cons (ty : IntTy) (p : Bool) (acc : Int) (c : Char) (cs : Str) :
    parseLoop ty p acc (c :: cs) =
      match digitVal c with
      | none => .error .invalidDigit
      | some d =>
        if acc * 10 < ty.min ∨ ty.max < acc * 10 then .error (ovf p)
        else if stepVal p acc d < ty.min ∨ ty.max < stepVal p acc d then .error (ovf p)
        else parseLoop ty p (stepVal p acc d) cs := by
  rw [parseLoop]
  cases digitVal c <;> rfl

theorem parseLoop_append (ty : IntTy) (p : Bool) (u v : Str) (acc : Int) :
    parseLoop ty p acc (u ++ v) = (parseLoop ty p acc u).bind (fun r => parseLoop ty p r v) := by
  induction u generalizing acc with
  | nil => rfl
  | cons c u ih =>
    rw [List.cons_append, parseLoop_cons, parseLoop_cons]
    cases digitVal c with
    | none => rfl
    | some d =>
      simp only
      by_cases h1 : acc * 10 < ty.min ∨ ty.max < acc * 10
      · simp only [h1, if_true]; rfl
      · by_cases h2 : stepVal p acc d < ty.min ∨ ty.max < stepVal p acc d
        · simp only [h1, h2, if_true, if_false]; rfl
        · simp only [h1, h2, if_false]; exact ih _

/-- what `parseLoop … (c :: cs) = ok v` unfolds to -/
theorem parseLoop_cons_ok {ty : IntTy} {p : Bool} {acc v : Int} {c : Char} {cs : Str}
    (h : parseLoop ty p acc (c :: cs) = .ok v) :
    ∃ d, digitVal c = some d ∧ ty.InRange (acc * 10) ∧ ty.InRange (stepVal p acc d) ∧
      parseLoop ty p (stepVal p acc d) cs = .ok v := by
  rw [parseLoop_cons] at h
  cases hd : digitVal c with
  | none => rw [hd] at h; cases h
  | some d =>
    rw [hd] at h
    simp only at h
    by_cases h1 : acc * 10 < ty.min ∨ ty.max < acc * 10
    · simp only [h1, if_true] at h; cases h
    · by_cases h2 : stepVal p acc d < ty.min ∨ ty.max < stepVal p acc d
      · simp only [h1, h2, if_true, if_false] at h; cases h
      · simp only [h1, h2, if_false] at h
        refine ⟨d, rfl, ?_, ?_, h⟩ <;> unfold IntTy.InRange <;> omega

/-- outcome of a successful loop: all characters are digits and the result is the positional value,
accumulated with the sign -/
theorem parseLoop_ok (ty : IntTy) (p : Bool) (cs : Str) (acc v : Int)
    (h : parseLoop ty p acc cs = .ok v) :
    (∀ c ∈ cs, isDigitCp c.toNat) ∧ v = sgn p (Xsd.decValFrom (sgn p acc) cs) := by
  induction cs generalizing acc with
  | nil =>
    rw [parseLoop_nil] at h
    injection h with h
    subst h
    refine ⟨by simp, ?_⟩
    unfold sgn Xsd.decValFrom; cases p <;> simp
  | cons c cs ih =>
    obtain ⟨d, hd, _, _, h'⟩ := parseLoop_cons_ok h
    obtain ⟨hall, hv⟩ := ih _ h'
    obtain ⟨hc, hdv, _⟩ := digitVal_some hd
    refine ⟨?_, ?_⟩
    · intro x hx
      rcases List.mem_cons.mp hx with rfl | hx
      · exact hc
      · exact hall x hx
    · rw [hv, Xsd.decValFrom]
      subst hdv
      have : sgn p (stepVal p acc (c.toNat - 48)) = sgn p acc * 10 + ((c.toNat - 48 : Nat) : Int) := by
        cases p <;> simp [sgn, stepVal] <;> omega
      rw [this]

/-- a successful loop over a non-empty string ends inside the type's range -/
theorem parseLoop_range (ty : IntTy) (p : Bool) (cs : Str) (acc v : Int)
    (hacc : ty.InRange acc ∨ cs ≠ [])
    (h : parseLoop ty p acc cs = .ok v) : ty.InRange v := by
  induction cs generalizing acc with
  | nil =>
    rw [parseLoop_nil] at h
    injection h with h
    subst h
    rcases hacc with h | h
    · exact h
    · exact absurd rfl h
  | cons c cs ih =>
    obtain ⟨d, _, _, hr, h'⟩ := parseLoop_cons_ok h
    exact ih _ (.inl hr) h'

/-- one digit, no overflow -/
theorem parseLoop_single (ty : IntTy) (p : Bool) (acc : Int) (d : Nat) (hd : d < 10)
    (h1 : ty.InRange (acc * 10)) (h2 : ty.InRange (stepVal p acc d)) :
    parseLoop ty p acc [digitChar d] = .ok (stepVal p acc d) := by
  rw [parseLoop_cons, digitVal_digitChar d hd]
  unfold IntTy.InRange at h1 h2
  have n1 : ¬ (acc * 10 < ty.min ∨ ty.max < acc * 10) := by omega
  have n2 : ¬ (stepVal p acc d < ty.min ∨ ty.max < stepVal p acc d) := by omega
  simp only [n1, n2, if_false]
  rfl

/-- the loop reads back what `Display` printed (positive or negated accumulation) -/
theorem parseLoop_showNat (ty : IntTy) (p : Bool) (hmin : ty.min ≤ 0) (hmax : 0 ≤ ty.max) (n : Nat)
    (hr : ty.InRange (sgn p n)) : parseLoop ty p 0 (showNat n) = .ok (sgn p n) := by
  induction n using Nat.strongRecOn with
  | _ n ih =>
    unfold IntTy.InRange at hr
    by_cases h : n < 10
    · rw [showNat_lt h, parseLoop_single ty p 0 n h]
      · congr 1; cases p <;> simp [sgn, stepVal]
      · unfold IntTy.InRange; omega
      · unfold IntTy.InRange; cases p <;> simp [sgn, stepVal] at hr ⊢ <;> omega
    · have hq : ty.InRange (sgn p ((n / 10 : Nat) : Int)) := by
        unfold IntTy.InRange; cases p <;> simp [sgn] at hr ⊢ <;> omega
      rw [showNat_ge h, parseLoop_append, ih (n / 10) (by omega) hq]
      show parseLoop ty p (sgn p ((n / 10 : Nat) : Int)) [digitChar (n % 10)] = _
      have e : stepVal p (sgn p ((n / 10 : Nat) : Int)) (n % 10) = sgn p n := by
        cases p <;> simp [sgn, stepVal] <;> omega
      rw [parseLoop_single ty p _ (n % 10) (by omega), e]
      · unfold IntTy.InRange; cases p <;> simp [sgn] at hr ⊢ <;> omega
      · rw [e]; exact hr

/-- `xsd:integer` lexical space, spelled out: optional sign, then at least one digit -/
theorem integer_iff (w : List Nat) :
    Matches Xsd.integer w ↔
      ∃ ds, (w = ds ∨ w = 43 :: ds ∨ w = 45 :: ds) ∧ ds ≠ [] ∧ ∀ c ∈ ds, isDigitCp c := by
  show Matches (.cat (.alt (.cls _) .eps) (plus Xsd.digit)) w ↔ _
  rw [matches_cat]
  constructor
  · rintro ⟨u, v, rfl, h1, h2⟩
    rw [plus_digit_iff] at h2
    rw [matches_alt, matches_cls, matches_eps] at h1
    rcases h1 with ⟨c, rfl, hc⟩ | rfl
    · rcases (sign_iff c).mp hc with rfl | rfl
      · exact ⟨v, .inr (.inl rfl), h2⟩
      · exact ⟨v, .inr (.inr rfl), h2⟩
    · exact ⟨v, .inl rfl, h2⟩
  · rintro ⟨ds, hw, hds⟩
    rcases hw with rfl | rfl | rfl
    · exact ⟨[], w, rfl, .altR .eps, (plus_digit_iff _).mpr hds⟩
    · exact ⟨[43], ds, rfl, .altL (.cls ((sign_iff 43).mpr (.inl rfl))), (plus_digit_iff _).mpr hds⟩
    · exact ⟨[45], ds, rfl, .altL (.cls ((sign_iff 45).mpr (.inr rfl))), (plus_digit_iff _).mpr hds⟩

theorem plus_toNat : ('+' : Char).toNat = 43 := by decide

theorem minus_toNat : ('-' : Char).toNat = 45 := by decide

theorem not_sign_of_digit {c : Char} (h : isDigitCp c.toNat) : c ≠ '+' ∧ c ≠ '-' := by
  unfold isDigitCp at h
  constructor <;> (intro e; subst e; revert h; decide)

/-- `i32::from_str` etc. succeed only on members of the `xsd:integer` lexical space, with the value
the XSD lexical-to-value mapping assigns, and that value is in the type's range; an unsigned type never
accepts a leading `-` -/
theorem parseInt_ok {ty : IntTy} {s : Str} {v : Int} (h : parseInt ty s = .ok v) :
    Matches Xsd.integer (s.map Char.toNat) ∧ Xsd.intVal s = v ∧ ty.InRange v ∧
      (ty.signed = false → s.head? ≠ some '-') := by
  cases s with
  | nil => cases h
  | cons c rest =>
    unfold parseInt at h
    simp only at h
    by_cases h0 : (c = '+' ∨ c = '-') ∧ rest = []
    · simp only [h0, and_self, if_true] at h; cases h
    · rw [if_neg h0] at h
      by_cases h1 : c = '+'
      · subst h1
        rw [if_pos rfl] at h
        have hne : rest ≠ [] := fun e => h0 ⟨.inl rfl, e⟩
        obtain ⟨hall, hv⟩ := parseLoop_ok _ _ _ _ _ h
        refine ⟨?_, ?_, parseLoop_range _ _ _ _ _ (.inr hne) h, by simp⟩
        · rw [integer_iff]
          refine ⟨rest.map Char.toNat, .inr (.inl (by simp [plus_toNat])), by simpa using hne, ?_⟩
          intro x hx
          obtain ⟨y, hy, rfl⟩ := List.mem_map.mp hx
          exact hall y hy
        · simp [Xsd.intVal, hv, sgn]
      · rw [if_neg h1] at h
        by_cases h2 : c = '-' ∧ ty.signed = true
        · obtain ⟨rfl, hs⟩ := h2
          rw [if_pos ⟨rfl, hs⟩] at h
          have hne : rest ≠ [] := fun e => h0 ⟨.inr rfl, e⟩
          obtain ⟨hall, hv⟩ := parseLoop_ok _ _ _ _ _ h
          refine ⟨?_, ?_, parseLoop_range _ _ _ _ _ (.inr hne) h, by simp [hs]⟩
          · rw [integer_iff]
            refine ⟨rest.map Char.toNat, .inr (.inr (by simp [minus_toNat])), by simpa using hne, ?_⟩
            intro x hx
            obtain ⟨y, hy, rfl⟩ := List.mem_map.mp hx
            exact hall y hy
          · simp [Xsd.intVal, hv, sgn]
        · rw [if_neg h2] at h
          obtain ⟨hall, hv⟩ := parseLoop_ok _ _ _ _ _ h
          have hc := hall c (List.mem_cons_self ..)
          obtain ⟨hcp, hcm⟩ := not_sign_of_digit hc
          refine ⟨?_, ?_, parseLoop_range _ _ _ _ _ (.inr (by simp)) h, by simp [hcm]⟩
          · rw [integer_iff]
            refine ⟨(c :: rest).map Char.toNat, .inl rfl, by simp, ?_⟩
            intro x hx
            obtain ⟨y, hy, rfl⟩ := List.mem_map.mp hx
            exact hall y hy
          · simp [Xsd.intVal, hv, sgn, hcp, hcm]

/-- `Display` then `FromStr` is the identity on every value of the type -/
theorem parseInt_showInt {ty : IntTy} (hs : ty.Sane) {n : Int} (hr : ty.InRange n) :
    parseInt ty (showInt n) = .ok n := by
  unfold showInt
  by_cases hn : n < 0
  · rw [if_pos hn]
    have hsg : ty.signed = true := by
      cases hsg : ty.signed with
      | true => rfl
      | false => have := hs.unsigned_min hsg; unfold IntTy.InRange at hr; omega
    cases hds : showNat n.natAbs with
    | nil => exact absurd hds (showNat_ne_nil _)
    | cons d ds =>
      unfold parseInt
      simp only
      rw [if_neg (by simp), if_neg (by decide), if_pos (by simp [hsg]), ← hds]
      have := parseLoop_showNat ty false hs.min_le hs.max_ge n.natAbs (by simp [sgn]; unfold IntTy.InRange at hr ⊢; omega)
      rw [this]; simp [sgn]; omega
  · rw [if_neg hn]
    cases hds : showNat n.natAbs with
    | nil => exact absurd hds (showNat_ne_nil _)
    | cons d ds =>
      have hd : isDigitCp d.toNat := showNat_isDigit n.natAbs d (by rw [hds]; exact List.mem_cons_self ..)
      obtain ⟨hcp, hcm⟩ := not_sign_of_digit hd
      unfold parseInt
      simp only
      rw [if_neg (by simp [hcp, hcm]), if_neg hcp, if_neg (by simp [hcm]), ← hds]
      have := parseLoop_showNat ty true hs.min_le hs.max_ge n.natAbs (by simp [sgn]; unfold IntTy.InRange at hr ⊢; omega)
      rw [this]; simp [sgn]; omega

theorem digitVal_of_digit {c : Char} (h : isDigitCp c.toNat) : digitVal c = some (c.toNat - 48) := by
  unfold digitVal
  have e0 : ('0' : Char).toNat = 48 := by decide
  have e9 : ('9' : Char).toNat = 57 := by decide
  have : '0' ≤ c ∧ c ≤ '9' := by
    unfold isDigitCp at h
    constructor
    · show ('0' : Char).toNat ≤ c.toNat; omega
    · show c.toNat ≤ ('9' : Char).toNat; omega
  rw [if_pos this]

theorem decValFrom_ge (cs : Str) (a : Int) (h : 0 ≤ a) : a ≤ Xsd.decValFrom a cs := by
  induction cs generalizing a with
  | nil => exact Int.le_refl _
  | cons c cs ih =>
    unfold Xsd.decValFrom
    have := ih (a * 10 + ((c.toNat - 48 : Nat) : Int)) (by omega)
    omega

/-- the loop succeeds on every digit string whose (signed) value is in range -/
theorem parseLoop_complete (ty : IntTy) (p : Bool) (hmin : ty.min ≤ 0) (hmax : 0 ≤ ty.max) (cs : Str)
    (acc : Int) (ha : 0 ≤ sgn p acc) (hd : ∀ c ∈ cs, isDigitCp c.toNat)
    (hr : ty.InRange (sgn p (Xsd.decValFrom (sgn p acc) cs))) :
    parseLoop ty p acc cs = .ok (sgn p (Xsd.decValFrom (sgn p acc) cs)) := by
  induction cs generalizing acc with
  | nil =>
    rw [parseLoop_nil]; unfold Xsd.decValFrom sgn; cases p <;> simp
  | cons c cs ih =>
    have hc := hd c (List.mem_cons_self ..)
    rw [parseLoop_cons, digitVal_of_digit hc]
    simp only
    unfold Xsd.decValFrom at hr ⊢
    have e : sgn p (stepVal p acc (c.toNat - 48)) = sgn p acc * 10 + ((c.toNat - 48 : Nat) : Int) := by
      cases p <;> simp [sgn, stepVal] <;> omega
    have hge := decValFrom_ge cs (sgn p acc * 10 + ((c.toNat - 48 : Nat) : Int)) (by omega)
    unfold IntTy.InRange at hr
    have n1 : ¬ (acc * 10 < ty.min ∨ ty.max < acc * 10) := by
      cases p <;> simp [sgn] at ha hr hge ⊢ <;> omega
    have n2 : ¬ (stepVal p acc (c.toNat - 48) < ty.min ∨ ty.max < stepVal p acc (c.toNat - 48)) := by
      cases p <;> simp [sgn, stepVal] at ha hr hge ⊢ <;> omega
    rw [if_neg n1, if_neg n2]
    have := ih (stepVal p acc (c.toNat - 48)) (by rw [e]; omega)
      (fun x hx => hd x (List.mem_cons_of_mem _ hx)) (by rw [e]; exact hr)
    rw [this, e]

theorem decValFrom_zero_nonneg (cs : Str) : 0 ≤ Xsd.decValFrom 0 cs := decValFrom_ge cs 0 (Int.le_refl 0)

/-- completeness: every member of the `xsd:integer` lexical space whose value is in range is parsed
(to that value); only exception: unsigned types refuse a leading `-` (i.e. `-0`, `-000`) -/
theorem parseInt_complete {ty : IntTy} (hs : ty.Sane) {s : Str}
    (hm : Matches Xsd.integer (s.map Char.toNat)) (hr : ty.InRange (Xsd.intVal s))
    (hu : ty.signed = false → s.head? ≠ some '-') :
    parseInt ty s = .ok (Xsd.intVal s) := by
  rw [integer_iff] at hm
  obtain ⟨ds, hw, hne, hall⟩ := hm
  cases s with
  | nil =>
    rcases hw with h | h | h
    · simp at h; exact absurd h hne
    · simp at h
    · simp at h
  | cons c rest =>
    unfold parseInt
    simp only
    by_cases h1 : c = '+'
    · subst h1
      -- the rest are digits
      have hrest : rest ≠ [] ∧ ∀ x ∈ rest, isDigitCp x.toNat := by
        rcases hw with h | h | h
        · -- '+' itself would have to be a digit
          have := hall 43 (by rw [← h]; simp [plus_toNat])
          unfold isDigitCp at this; omega
        · simp [plus_toNat] at h; subst h
          exact ⟨by simpa using hne, fun x hx => hall _ (List.mem_map.mpr ⟨x, hx, rfl⟩)⟩
        · simp [plus_toNat] at h
      rw [if_neg (by simp [hrest.1]), if_pos rfl]
      have := parseLoop_complete ty true hs.min_le hs.max_ge rest 0 (by simp [sgn]) hrest.2
        (by simpa [sgn, Xsd.intVal] using hr)
      simpa [sgn, Xsd.intVal] using this
    · by_cases h2 : c = '-'
      · subst h2
        have hrest : rest ≠ [] ∧ ∀ x ∈ rest, isDigitCp x.toNat := by
          rcases hw with h | h | h
          · have := hall 45 (by rw [← h]; simp [minus_toNat])
            unfold isDigitCp at this; omega
          · simp [minus_toNat] at h
          · simp [minus_toNat] at h; subst h
            exact ⟨by simpa using hne, fun x hx => hall _ (List.mem_map.mpr ⟨x, hx, rfl⟩)⟩
        have hsg : ty.signed = true := by
          cases hsg : ty.signed with
          | true => rfl
          | false => exact absurd rfl (hu hsg)
        rw [if_neg (by simp [hrest.1]), if_neg (by decide), if_pos ⟨rfl, hsg⟩]
        have := parseLoop_complete ty false hs.min_le hs.max_ge rest 0 (by simp [sgn]) hrest.2
          (by simpa [sgn, Xsd.intVal] using hr)
        simpa [sgn, Xsd.intVal] using this
      · have hds : ∀ x ∈ c :: rest, isDigitCp x.toNat := by
          rcases hw with h | h | h
          · subst h; exact fun x hx => hall _ (List.mem_map.mpr ⟨x, hx, rfl⟩)
          · simp at h; have := h.1; rw [← plus_toNat] at this; exact absurd (Char.toNat_inj.mp this) h1
          · simp at h; have := h.1; rw [← minus_toNat] at this; exact absurd (Char.toNat_inj.mp this) h2
        rw [if_neg (by simp [h1, h2]), if_neg h1, if_neg (by simp [h2])]
        have := parseLoop_complete ty true hs.min_le hs.max_ge (c :: rest) 0 (by simp [sgn]) hds
          (by simpa [sgn, Xsd.intVal, h1, h2] using hr)
        simpa [sgn, Xsd.intVal, h1, h2] using this

end SophiaProofs.Native
