/-
Helper lemmas for C15: callbacks wrapped by adapter chains, `feed` over appended lists, the
`while try_for_some_item` loop over a script of steps.
-/
import SophiaModel.Model.Source

namespace SophiaProofs.SourceLemmas
open SophiaModel SophiaModel.Source

variable {σ ε κ εk ι : Type}

theorem feed_append (f : Sink κ ι εk) (k : κ) (a b : List ι) :
    feed f k (a ++ b) =
      match feed f k a with
      | (k', .ok ()) => feed f k' b
      | (k', .error e) => (k', .error e) := by
  induction a generalizing k with
  | nil => simp [feed]
  | cons i is ih =>
    simp only [List.cons_append, feed]
    rcases h : f k i with ⟨k', r⟩
    cases r with
    | error e => simp
    | ok u => cases u; simp [ih]

/-- the callback that reaches the inner source when the consumer's callback is `f` and the
adapters of `c` stand in between -/
def chainWrap (c : List Adapter) (f : Sink κ Item εk) : Sink κ Item εk := fun k i =>
  match chainFn c i with
  | none => (k, .ok ())
  | some y => f k y

theorem sink_eta (f : Sink κ Item εk) :
    (fun k i => match f k i with
      | (k', .error e) => (k', Except.error e)
      | (k', .ok ()) => (k', Except.ok ())) = f := by
  funext k i
  rcases h : f k i with ⟨k', r⟩
  cases r with
  | error e => rfl
  | ok u => cases u; rfl

/-- one adapter: its `try_for_some_item` is the inner one on the wrapped callback -/
theorem apply_tryForSome (a : Adapter) (S : Source σ Item ε) (f : Sink κ Item εk) (s : σ) (k : κ) :
    (a.apply S).tryForSomeItem f s k = S.tryForSomeItem (chainWrap [a] f) s k := by
  have hw : ∀ g : Item → Option Item, (∀ i, a.fn i = g i) →
      chainWrap [a] f = fun k i => match g i with
        | none => (k, .ok ())
        | some y => f k y := by
    intro g hg
    funext k i
    simp only [chainWrap, chainFn, hg]
    cases g i <;> simp
  cases a with
  | filterItems p | filterTriples p | filterQuads p =>
    rw [hw (fun i => if p.eval i then some i else none) (fun i => rfl)]
    simp only [Adapter.apply, Source.filterItems, Source.filterTriples]
    congr 1
    funext k i
    cases hp : p.eval i
    · simp
    · simp only [if_true]
      rcases h : f k i with ⟨k', r⟩
      cases r with
      | error e => rfl
      | ok u => cases u; rfl
  | mapItems g | mapTriples g | mapQuads g =>
    rw [hw (fun i => some (g.eval i)) (fun i => rfl)]
    rfl
  | filterMapItems p g | filterMapTriples p g | filterMapQuads p g =>
    rw [hw (fun i => fmEval p g i) (fun i => rfl)]
    simp only [Adapter.apply, Source.filterMapItems, Source.filterMapTriples]
    congr 1
    funext k i
    cases fmEval p g i <;> rfl
  | toQuads =>
    rw [hw (fun i => some i.toQuad) (fun i => rfl)]
    rfl
  | toTriples =>
    rw [hw (fun i => some i.toTriple) (fun i => rfl)]
    rfl

theorem apply_fuel (a : Adapter) (S : Source σ Item ε) : (a.apply S).fuel = S.fuel := by
  cases a <;> rfl

theorem chainWrap_cons (a : Adapter) (rest : List Adapter) (f : Sink κ Item εk) :
    chainWrap [a] (chainWrap rest f) = chainWrap (a :: rest) f := by
  funext k i
  simp only [chainWrap, chainFn]
  cases a.fn i <;> simp [Option.bind]

theorem chainWrap_nil (f : Sink κ Item εk) : chainWrap [] f = f := by
  funext k i
  simp [chainWrap, chainFn]

/-- a chain of any depth: by induction on the chain, for every inner source -/
theorem applyChain_tryForSome (c : List Adapter) (S : Source σ Item ε) (f : Sink κ Item εk) (s : σ) (k : κ) :
    (applyChain c S).tryForSomeItem f s k = S.tryForSomeItem (chainWrap c f) s k := by
  induction c generalizing S with
  | nil => simp [applyChain, chainWrap_nil]
  | cons a rest ih =>
    have : applyChain (a :: rest) S = applyChain rest (a.apply S) := rfl
    rw [this, ih, apply_tryForSome, chainWrap_cons]

theorem applyChain_fuel (c : List Adapter) (S : Source σ Item ε) : (applyChain c S).fuel = S.fuel := by
  induction c generalizing S with
  | nil => rfl
  | cons a rest ih =>
    have : applyChain (a :: rest) S = applyChain rest (a.apply S) := rfl
    rw [this, ih, apply_fuel]

/-- feeding the wrapped callback with the source's items = feeding the consumer's callback with
the chain's output on these items -/
theorem feed_chainWrap (c : List Adapter) (f : Sink κ Item εk) (k : κ) (items : List Item) :
    feed (chainWrap c f) k items = feed f k (chainItems c items) := by
  induction items generalizing k with
  | nil => simp [feed, chainItems]
  | cons i is ih =>
    simp only [feed, chainItems]
    cases h : chainFn c i with
    | none =>
      simp only [chainWrap, h, List.filterMap_cons]
      exact ih k
    | some y =>
      simp only [chainWrap, h, List.filterMap_cons, feed]
      rcases hf : f k y with ⟨k', r⟩
      cases r with
      | error e => rfl
      | ok u =>
        cases u
        exact ih k'

theorem feed_infallible {ε : Type} (g : κ → ι → κ) (k : κ) (xs : List ι) :
    feed (εk := ε) (fun k t => (g k t, .ok ())) k xs = (xs.foldl g k, .ok ()) := by
  induction xs generalizing k with
  | nil => rfl
  | cons x xs ih => simp [feed, ih]

theorem chainItems_append (c : List Adapter) (a b : List Item) :
    chainItems c (a ++ b) = chainItems c a ++ chainItems c b := by
  simp [chainItems, List.filterMap_append]

theorem rio_nil (f : Sink κ ι εk) (k : κ) :
    (rioSource (ε := ε)).tryForSomeItem f [] k = ([], k, .ok false) := rfl

theorem rio_ok (f : Sink κ ι εk) (k : κ) (is : List ι) (rest : List (Ev ι ε)) :
    rioSource.tryForSomeItem f (.ok is :: rest) k =
      match feed f k is with
      | (k', .ok ()) => (rest, k', .ok true)
      | (k', .error e) => (rest, k', .error (.sink e)) := rfl

theorem rio_err (f : Sink κ ι εk) (k : κ) (is : List ι) (e : ε) (rest : List (Ev ι ε)) :
    rioSource.tryForSomeItem f (.err is e :: rest) k =
      match feed f k is with
      | (k', .ok ()) => (rest, k', .error (.source e))
      | (k', .error e') => (rest, k', .error (.sink e')) := rfl

/-- the loop over a chain on a Rio-like script, for every script (induction on it) -/
theorem loop_spec (c : List Adapter) (f : Sink κ Item εk) (sc : List (Ev Item ε)) (n : Nat) (k : κ)
    (hn : sc.length < n) :
    (tryForEachLoop (applyChain c rioSource) f n sc k).2 =
      specResult f k (chainItems c (Ev.itemsOf sc)) (Ev.errorOf sc) := by
  induction sc generalizing n k with
  | nil =>
    cases n with
    | zero => omega
    | succ n =>
      simp [tryForEachLoop, applyChain_tryForSome, rio_nil, specResult, Ev.itemsOf,
        Ev.errorOf, chainItems, feed]
  | cons ev rest ih =>
    cases n with
    | zero => omega
    | succ n =>
      have hn' : rest.length < n := by simp at hn; omega
      cases ev with
      | ok is =>
        simp only [tryForEachLoop, applyChain_tryForSome, rio_ok, Ev.itemsOf, Ev.errorOf,
          chainItems_append, specResult, feed_append, feed_chainWrap]
        rcases hf : feed f k (chainItems c is) with ⟨k', r⟩
        cases r with
        | error e => rfl
        | ok u =>
          cases u
          have := ih n k' hn'
          simp only [specResult] at this
          simpa using this
      | err is e =>
        simp only [tryForEachLoop, applyChain_tryForSome, rio_err, Ev.itemsOf, Ev.errorOf,
          specResult, feed_chainWrap]
        rcases hf : feed f k (chainItems c is) with ⟨k', r⟩
        cases r with
        | error e => rfl
        | ok u => cases u; rfl

/-- the iterator source is the script source on one-item steps -/
theorem iter_tryForSome (f : Sink κ ι εk) (rs : List (Except ε ι)) (k : κ) :
    rioSource.tryForSomeItem f (rs.map Ev.ofResult) k =
      ((iterSource.tryForSomeItem f rs k).1.map Ev.ofResult,
       (iterSource.tryForSomeItem f rs k).2.1, (iterSource.tryForSomeItem f rs k).2.2) := by
  cases rs with
  | nil => rfl
  | cons r rest =>
    cases r with
    | error e => rfl
    | ok t =>
      simp only [List.map_cons, Ev.ofResult, rioSource, iterSource, ofStep, rioStep, iterStep]
      rcases hf : feed f k [t] with ⟨k', r⟩
      cases r with
      | error e => rfl
      | ok u => cases u; rfl

theorem iter_loop (c : List Adapter) (f : Sink κ Item εk) (n : Nat) (rs : List (Except ε Item)) (k : κ) :
    (tryForEachLoop (applyChain c iterSource) f n rs k).2 =
      (tryForEachLoop (applyChain c rioSource) f n (rs.map Ev.ofResult) k).2 := by
  induction n generalizing rs k with
  | zero => rfl
  | succ n ih =>
    simp only [tryForEachLoop, applyChain_tryForSome, iter_tryForSome]
    rcases h : iterSource.tryForSomeItem (chainWrap c f) rs k with ⟨s', k', r⟩
    cases r with
    | error e => rfl
    | ok b =>
      cases b with
      | false => rfl
      | true => exact ih s' k'

theorem itemsOf_faultAt (items : List ι) (k : Nat) (e : ε) :
    Ev.itemsOf ((faultAt items k e).map Ev.ofResult) = items.take k := by
  simp only [faultAt, List.map_append, List.map_map]
  generalize items.take k = pre
  induction pre with
  | nil => simp [Ev.itemsOf, Ev.ofResult]
  | cons x xs ih => simpa [Ev.itemsOf, Ev.ofResult] using ih

theorem errorOf_faultAt (items : List ι) (k : Nat) (e : ε) :
    Ev.errorOf ((faultAt items k e).map Ev.ofResult) = some e := by
  simp only [faultAt, List.map_append, List.map_map]
  generalize items.take k = pre
  induction pre with
  | nil => simp [Ev.errorOf, Ev.ofResult]
  | cons x xs ih => simpa [Ev.errorOf, Ev.ofResult] using ih

theorem itemsOf_allOk (items : List ι) :
    Ev.itemsOf ((items.map (Except.ok (ε := ε))).map Ev.ofResult) = items := by
  induction items with
  | nil => rfl
  | cons x xs ih => simpa [Ev.itemsOf, Ev.ofResult] using ih

theorem errorOf_allOk (items : List ι) :
    Ev.errorOf ((items.map (Except.ok (ε := ε))).map Ev.ofResult) = none := by
  induction items with
  | nil => rfl
  | cons x xs ih => simpa [Ev.errorOf, Ev.ofResult] using ih

/-! ### the recording closure -/

theorem feed_recSink_none (p : εk) (st : Rec) (xs : List Item) :
    feed (recSink none p) st xs = ({ log := st.log ++ xs, calls := st.calls + xs.length }, .ok ()) := by
  induction xs generalizing st with
  | nil => simp [feed]
  | cons x xs ih =>
    simp only [feed, recSink]
    simp only [reduceCtorEq, if_false]
    rw [ih]
    simp [Nat.add_assoc, Nat.add_comm 1]

theorem feed_recSink_some (p : εk) (j : Nat) (st : Rec) (xs : List Item)
    (h1 : st.calls ≤ j) (h2 : j - st.calls < xs.length) :
    feed (recSink (some j) p) st xs =
      ({ log := st.log ++ xs.take (j - st.calls + 1), calls := j + 1 }, .error p) := by
  induction xs generalizing st with
  | nil => simp at h2
  | cons x xs ih =>
    simp only [feed, recSink]
    by_cases hc : j = st.calls
    · subst hc
      simp
    · have hne : ¬ (some j = some st.calls) := by simpa using hc
      simp only [hne, if_false]
      have h1' : st.calls + 1 ≤ j := by omega
      have h2' : j - (st.calls + 1) < xs.length := by simp at h2; omega
      rw [ih { log := st.log ++ [x], calls := st.calls + 1 } h1' h2']
      have : j - st.calls + 1 = (j - (st.calls + 1) + 1) + 1 := by omega
      simp [this, List.take_succ_cons]

/-- a recording closure whose failing call is never reached behaves like the infallible one -/
theorem feed_recSink_beyond (p : εk) (j : Nat) (st : Rec) (xs : List Item)
    (h : st.calls + xs.length ≤ j) :
    feed (recSink (some j) p) st xs = ({ log := st.log ++ xs, calls := st.calls + xs.length }, .ok ()) := by
  induction xs generalizing st with
  | nil => simp [feed]
  | cons x xs ih =>
    simp only [feed, recSink]
    have hne : ¬ (some j = some st.calls) := by
      simp only [List.length_cons] at h
      simp only [Option.some.injEq]
      omega
    simp only [hne, if_false]
    rw [ih]
    · simp [Nat.add_assoc, Nat.add_comm 1]
    · simp only [List.length_cons] at h
      simp only
      omega

/-! ### stores -/

theorem ensureIndex_present (g g' : Store) (v : Nat) (h : g.ensureIndex v = .ok g') :
    g'.present = g.present := by
  unfold Store.ensureIndex at h
  split at h
  · cases h; rfl
  · split at h
    · cases h; rfl
    · cases h
    · cases h; rfl

/-- the three outcomes of `insert` -/
theorem insert_cases (g : Store) (i : Item) :
    (∃ e, g.insert i = (g, .error e)) ∨
    (∃ g' : Store, g'.present = g.present ∧
      ((i ∈ g.present ∧ g.insert i = (g', .ok false)) ∨
       (i ∉ g.present ∧ g.insert i = ({ g' with present := g.present ++ [i] }, .ok true)))) := by
  unfold Store.insert
  cases h : g.ensureIndex i.val with
  | error e => left; exact ⟨e, rfl⟩
  | ok g' =>
    right
    have hg := ensureIndex_present g g' _ h
    refine ⟨g', hg, ?_⟩
    by_cases hp : i ∈ g.present
    · left; exact ⟨hp, by simp [hg, hp]⟩
    · right; exact ⟨hp, by simp [hg, hp]⟩

theorem insert_nodup (g : Store) (i : Item) (h : g.present.Nodup) : (g.insert i).1.present.Nodup := by
  rcases insert_cases g i with ⟨e, h1⟩ | ⟨g', hg, ⟨_, h2⟩ | ⟨hn, h2⟩⟩
  · rw [h1]; exact h
  · rw [h2, hg]; exact h
  · rw [h2]
    simp only
    rw [List.nodup_append]
    refine ⟨h, by simp, ?_⟩
    intro a ha b hb
    simp at hb
    subst hb
    intro hab
    subst hab
    exact hn ha

end SophiaProofs.SourceLemmas
