/-
C18: the model reader inverts the model writer (token level and text level).
-/
import SophiaProofs.Lemmas.XmlGlue

set_option linter.unusedSimpArgs false
namespace SophiaProofs.XmlRT
open SophiaModel SophiaModel.XmlGlue SophiaProofs.XmlGlueL

/-! ## tokens of an event stream -/

def rawAttrs (as : List (Str × Str)) : List (Str × Str) := as.map (fun kv => (kv.1, escape kv.2))

def evTok : Ev → List Tok
  | .decl => [.decl]
  | .start n as => [.start n (rawAttrs as) false]
  | .empty n as => [.start n (rawAttrs as) true]
  | .text s => if s = [] then [] else [.text (escape s)]
  | .close n => [.close n]

def wsText (k : Nat) : Str := '\n' :: List.replicate k ' '

def pieceToks : Piece → List Tok
  | .ws k => [.text (wsText k)]
  | .ev e => evTok e

def toks (ps : List Piece) : List Tok := ps.flatMap pieceToks

/-! ## whitespace-only text tokens are no-ops for the reader -/

def isWsTok : Tok → Bool
  | .text raw => raw.all isWs
  | _ => false

theorem unescape_ws (raw : Str) (h : raw.all isWs = true) : unescape raw = some raw := by
  apply unescape_plain
  intro c hc hamp
  have := List.all_eq_true.mp h c hc
  subst hamp
  simp [isWs] at this

theorem onText_ws (stack : Stack) (raw : Str) (h : raw.all isWs = true) : onText stack raw = .go stack [] := by
  unfold onText
  rw [unescape_ws raw h]
  simp only
  split <;> simp [h]

def prepend (out : List Triple) : Read → Read
  | .ok ts => .ok (out ++ ts)
  | r => r

theorem prepend_nil (r : Read) : prepend [] r = r := by cases r <;> simp [prepend]

theorem prepend_prepend (a b : List Triple) (r : Read) : prepend a (prepend b r) = prepend (a ++ b) r := by
  cases r <;> simp [prepend]

/-- the reader's step on one token -/
def stepTok (conf : Bool) (stack : Stack) : Tok → Step
  | .decl => .go stack []
  | .text raw => onText stack raw
  | .close n => onEnd stack n
  | .start n as selfClose =>
    match onStart conf stack n as with
    | .go stack' out =>
      if selfClose then
        match onEnd stack' n with
        | .go stack'' out' => .go stack'' (out ++ out')
        | s => s
      else .go stack' out
    | s => s

theorem prepend_eq (out : List Triple) (r : Read) :
    (match r with | .ok ts => Read.ok (out ++ ts) | r => r) = prepend out r := by
  cases r <;> rfl

def finishStep (conf : Bool) (toks : List Tok) : Step → Read
  | .err => .err
  | .unsupported => .unsupported
  | .go stack' out => prepend out (interp conf stack' toks)

theorem interp_cons (conf : Bool) (stack : Stack) (tok : Tok) (toks : List Tok) :
    interp conf stack (tok :: toks) = finishStep conf toks (stepTok conf stack tok) := by
  cases tok with
  | decl =>
    simp only [interp, stepTok, finishStep]
    cases interp conf stack toks <;> rfl
  | text raw =>
    simp only [interp, stepTok]
    cases onText stack raw <;> simp only [finishStep]
    cases interp conf _ toks <;> rfl
  | close n =>
    simp only [interp, stepTok]
    cases onEnd stack n <;> simp only [finishStep]
    cases interp conf _ toks <;> rfl
  | start n as sc =>
    simp only [interp, stepTok]
    cases onStart conf stack n as with
    | err => rfl
    | unsupported => rfl
    | go st out =>
      cases sc with
      | false =>
        simp only [Bool.false_eq_true, if_false, finishStep]
        cases interp conf _ toks <;> rfl
      | true =>
        simp only [if_true]
        cases onEnd st n <;> simp only [finishStep]
        cases interp conf _ toks <;> rfl

theorem interp_cons_go (conf : Bool) (stack stack' : Stack) (tok : Tok) (toks : List Tok) (out : List Triple)
    (h : stepTok conf stack tok = Step.go stack' out) :
    interp conf stack (tok :: toks) = prepend out (interp conf stack' toks) := by
  rw [interp_cons, h]; rfl

theorem interp_ws (conf : Bool) (stack : Stack) (raw : Str) (toks : List Tok) (h : raw.all isWs = true) :
    interp conf stack (.text raw :: toks) = interp conf stack toks := by
  rw [interp_cons_go conf stack stack (.text raw) toks [] (by simp [stepTok, onText_ws stack raw h]), prepend_nil]

theorem interp_filter_ws (conf : Bool) (ts : List Tok) :
    ∀ stack, interp conf stack ts = interp conf stack (ts.filter (fun t => !isWsTok t)) := by
  induction ts with
  | nil => intro; rfl
  | cons t ts ih =>
    intro stack
    cases hw : isWsTok t
    · simp only [List.filter_cons, hw, Bool.not_false, if_true]
      rw [interp_cons, interp_cons]
      cases stepTok conf stack t <;> simp only [finishStep, ih]
    · simp only [List.filter_cons, hw, Bool.not_true, Bool.false_eq_true, if_false]
      cases t with
      | text raw => rw [interp_ws conf stack raw ts (by simpa [isWsTok] using hw)]; exact ih stack
      | _ => simp [isWsTok] at hw

/-! ## the reader's stacks while it reads the writer's output -/

def xmlScope : Scope := [("xml".toList, "http://www.w3.org/XML/1998/namespace".toList)]
def scR : Scope := ("rdf".toList, rdfNs) :: xmlScope
/-- inside `rdf:RDF` -/
def S0 : Stack := [(.rdf, scR, rdfRDF), (.doc, xmlScope, [])]
/-- inside the `rdf:Description` of subject `o` -/
def S1 (o : Owned) : Stack := (.node o 0, scR, rdfDescription) :: S0
def stackOf : Option Owned → Stack
  | none => S0
  | some o => S1 o

theorem initStack_eq : initStack = [(.doc, xmlScope, [])] := rfl

theorem escape_rdfNs : escape rdfNs = rdfNs := by decide

theorem unescape_ns_local (ns l : Str) (h : ∀ c ∈ l, c ≠ '&') : unescape (escape ns ++ l) = some (ns ++ l) := by
  rw [unescape_escape_append, unescape_plain l h]; rfl

/-- a scope in which the prefix `rdf` resolves to the RDF namespace -/
def RdfBound (sc : Scope) : Prop := lookupNs sc "rdf".toList = some rdfNs

theorem rdfBound_scR : RdfBound scR := by unfold RdfBound; decide

theorem rdfBound_cons (k v : Str) (sc : Scope) (hk : (k == "rdf".toList) = false) (h : RdfBound sc) :
    RdfBound ((k, v) :: sc) := by
  simp only [RdfBound, lookupNs, List.find?, hk] at h ⊢
  exact h

/-! root element -/

theorem step_decl (conf : Bool) (st : Stack) : stepTok conf st .decl = .go st [] := rfl

theorem step_root : stepTok false initStack (.start rdfRDF (rawAttrs [("xmlns:rdf".toList, rdfNs)]) false) = .go S0 [] := by
  rfl

theorem step_close_root : stepTok false S0 (.close rdfRDF) = .go initStack [] := by rfl

theorem step_close_desc (o : Owned) : stepTok false (S1 o) (.close rdfDescription) = .go S0 [] := by
  simp [stepTok, onEnd, S1]

/-! `rdf:Description` start tags -/

theorem rdfName_ne_about_resource : rdfName "about" ≠ rdfName "resource" := by decide
theorem rdfName_ne_about_datatype : rdfName "about" ≠ rdfName "datatype" := by decide
theorem rdfName_ne_about_nodeID : rdfName "about" ≠ rdfName "nodeID" := by decide
theorem rdfName_ne_resource_about : rdfName "resource" ≠ rdfName "about" := by decide
theorem rdfName_ne_resource_datatype : rdfName "resource" ≠ rdfName "datatype" := by decide
theorem rdfName_ne_resource_nodeID : rdfName "resource" ≠ rdfName "nodeID" := by decide
theorem rdfName_ne_datatype_about : rdfName "datatype" ≠ rdfName "about" := by decide
theorem rdfName_ne_datatype_resource : rdfName "datatype" ≠ rdfName "resource" := by decide
theorem rdfName_ne_datatype_nodeID : rdfName "datatype" ≠ rdfName "nodeID" := by decide
theorem rdfName_ne_nodeID_about : rdfName "nodeID" ≠ rdfName "about" := by decide
theorem rdfName_ne_nodeID_resource : rdfName "nodeID" ≠ rdfName "resource" := by decide
theorem rdfName_ne_nodeID_datatype : rdfName "nodeID" ≠ rdfName "datatype" := by decide

theorem readAttrs_rdf_about (sc : Scope) (h : RdfBound sc) (i : Str) (r : List (Str × Str)) (acc : Attrs) :
    readAttrs false sc (("rdf:about".toList, escape i) :: r) acc = readAttrs false sc r { acc with about := some i } := by
  have h' : lookupNs sc ['r', 'd', 'f'] = some rdfNs := h
  have hs : splitQName "rdf:about".toList = (['r', 'd', 'f'], ['a', 'b', 'o', 'u', 't']) := by decide
  have ht : ("rdf:about".toList.take 3 == "xml".toList) = false := by decide
  have e1 : unescape (rdfNs ++ ['a', 'b', 'o', 'u', 't']) = some (rdfName "about") := by decide
  rw [readAttrs]
  simp only [ht, hs, h', e1, attrValue, unescape_escape]
  simp [rdfName_ne_about_resource, rdfName_ne_about_datatype, rdfName_ne_about_nodeID, rdfName_ne_resource_about, rdfName_ne_resource_datatype, rdfName_ne_resource_nodeID, rdfName_ne_datatype_about, rdfName_ne_datatype_resource, rdfName_ne_datatype_nodeID, rdfName_ne_nodeID_about, rdfName_ne_nodeID_resource, rdfName_ne_nodeID_datatype]

theorem readAttrs_rdf_resource (sc : Scope) (h : RdfBound sc) (i : Str) (r : List (Str × Str)) (acc : Attrs) :
    readAttrs false sc (("rdf:resource".toList, escape i) :: r) acc = readAttrs false sc r { acc with resource := some i } := by
  have h' : lookupNs sc ['r', 'd', 'f'] = some rdfNs := h
  have hs : splitQName "rdf:resource".toList = (['r', 'd', 'f'], ['r', 'e', 's', 'o', 'u', 'r', 'c', 'e']) := by decide
  have ht : ("rdf:resource".toList.take 3 == "xml".toList) = false := by decide
  have e1 : unescape (rdfNs ++ ['r', 'e', 's', 'o', 'u', 'r', 'c', 'e']) = some (rdfName "resource") := by decide
  rw [readAttrs]
  simp only [ht, hs, h', e1, attrValue, unescape_escape]
  simp [rdfName_ne_about_resource, rdfName_ne_about_datatype, rdfName_ne_about_nodeID, rdfName_ne_resource_about, rdfName_ne_resource_datatype, rdfName_ne_resource_nodeID, rdfName_ne_datatype_about, rdfName_ne_datatype_resource, rdfName_ne_datatype_nodeID, rdfName_ne_nodeID_about, rdfName_ne_nodeID_resource, rdfName_ne_nodeID_datatype]

theorem readAttrs_rdf_datatype (sc : Scope) (h : RdfBound sc) (i : Str) (r : List (Str × Str)) (acc : Attrs) :
    readAttrs false sc (("rdf:datatype".toList, escape i) :: r) acc = readAttrs false sc r { acc with datatype := some i } := by
  have h' : lookupNs sc ['r', 'd', 'f'] = some rdfNs := h
  have hs : splitQName "rdf:datatype".toList = (['r', 'd', 'f'], ['d', 'a', 't', 'a', 't', 'y', 'p', 'e']) := by decide
  have ht : ("rdf:datatype".toList.take 3 == "xml".toList) = false := by decide
  have e1 : unescape (rdfNs ++ ['d', 'a', 't', 'a', 't', 'y', 'p', 'e']) = some (rdfName "datatype") := by decide
  rw [readAttrs]
  simp only [ht, hs, h', e1, attrValue, unescape_escape]
  simp [rdfName_ne_about_resource, rdfName_ne_about_datatype, rdfName_ne_about_nodeID, rdfName_ne_resource_about, rdfName_ne_resource_datatype, rdfName_ne_resource_nodeID, rdfName_ne_datatype_about, rdfName_ne_datatype_resource, rdfName_ne_datatype_nodeID, rdfName_ne_nodeID_about, rdfName_ne_nodeID_resource, rdfName_ne_nodeID_datatype]

theorem readAttrs_rdf_nodeID (sc : Scope) (h : RdfBound sc) (i : Str) (r : List (Str × Str)) (acc : Attrs) (hb : isNCName i = true) :
    readAttrs false sc (("rdf:nodeID".toList, escape i) :: r) acc = readAttrs false sc r { acc with nodeId := some i } := by
  have h' : lookupNs sc ['r', 'd', 'f'] = some rdfNs := h
  have hs : splitQName "rdf:nodeID".toList = (['r', 'd', 'f'], ['n', 'o', 'd', 'e', 'I', 'D']) := by decide
  have ht : ("rdf:nodeID".toList.take 3 == "xml".toList) = false := by decide
  have e1 : unescape (rdfNs ++ ['n', 'o', 'd', 'e', 'I', 'D']) = some (rdfName "nodeID") := by decide
  rw [readAttrs]
  simp only [ht, hs, h', e1, attrValue, unescape_escape]
  simp [hb, rdfName_ne_about_resource, rdfName_ne_about_datatype, rdfName_ne_about_nodeID, rdfName_ne_resource_about, rdfName_ne_resource_datatype, rdfName_ne_resource_nodeID, rdfName_ne_datatype_about, rdfName_ne_datatype_resource, rdfName_ne_datatype_nodeID, rdfName_ne_nodeID_about, rdfName_ne_nodeID_resource, rdfName_ne_nodeID_datatype]

theorem readAttrs_xml_lang (sc : Scope) (l : Str) (r : List (Str × Str)) (acc : Attrs) :
    readAttrs false sc (("xml:lang".toList, escape l) :: r) acc = readAttrs false sc r { acc with lang := some (asciiLower l) } := by
  rw [readAttrs]
  simp [attrValue, unescape_escape]

theorem readAttrs_xmlns (sc : Scope) (v : Str) (r : List (Str × Str)) (acc : Attrs) :
    readAttrs false sc (("xmlns".toList, v) :: r) acc = readAttrs false sc r acc := by
  rw [readAttrs]; simp

theorem readAttrs_xmlns_prop (sc : Scope) (v : Str) (r : List (Str × Str)) (acc : Attrs) :
    readAttrs false sc (("xmlns:prop".toList, v) :: r) acc = readAttrs false sc r acc := by
  rw [readAttrs]; simp

theorem readAttrs_nil (sc : Scope) (acc : Attrs) : readAttrs false sc [] acc = some (some acc) := by
  rw [readAttrs]

theorem splitQName_desc : splitQName rdfDescription = (['r', 'd', 'f'], "Description".toList) := by decide
theorem lookup_scR : lookupNs scR ['r', 'd', 'f'] = some rdfNs := by decide
theorem unescape_desc : unescape (rdfNs ++ "Description".toList) = some (rdfName "Description") := by decide
theorem desc_not_reserved : isReservedElement (rdfName "Description") = false := by decide
theorem nsBindings_about (v : Str) : nsBindings [("rdf:about".toList, v)] = [] := by
  simp [nsBindings, splitQName]; decide
theorem nsBindings_nodeID (v : Str) : nsBindings [("rdf:nodeID".toList, v)] = [] := by
  simp [nsBindings, splitQName]; decide

theorem step_open_named (i : Str) :
    stepTok false S0 (.start rdfDescription (rawAttrs [("rdf:about".toList, i)]) false) = .go (S1 (.named i)) [] := by
  simp only [stepTok, onStart, S0, rawAttrs, List.map_cons, List.map_nil, nsBindings_about, List.nil_append,
    splitQName_desc, lookup_scR, unescape_desc, readAttrs_rdf_about scR rdfBound_scR, readAttrs_nil,
    desc_not_reserved]
  simp [S1, S0]

theorem step_open_blank (b : Str) (hb : isNCName b = true) :
    stepTok false S0 (.start rdfDescription (rawAttrs [("rdf:nodeID".toList, b)]) false) = .go (S1 (.blank b)) [] := by
  simp only [stepTok, onStart, S0, rawAttrs, List.map_cons, List.map_nil, nsBindings_nodeID, List.nil_append,
    splitQName_desc, lookup_scR, unescape_desc, readAttrs_rdf_nodeID scR rdfBound_scR b _ _ hb, readAttrs_nil,
    desc_not_reserved]
  simp [S1, S0]

/-! property elements -/

/-- predicates the RDF/XML grammar cannot use as property element (`rdf:li` is renumbered, the
others are rejected) -/
def okPred (p : Str) : Bool := !isReservedElement p && p != rdfName "Description"

theorem ncname_chars' (loc : Str) (h : isNCName loc = true) : ∀ c ∈ loc, isNameChar c = true ∧ c ≠ ':' := by
  cases loc with
  | nil => simp [isNCName] at h
  | cons d ds =>
    simp only [isNCName, Bool.and_eq_true, List.all_eq_true] at h
    obtain ⟨⟨h1, h2⟩, h3⟩ := h
    intro c hc
    simp at hc
    rcases hc with rfl | hc
    · exact ⟨by simp [isNameChar, h1], by simpa using h2⟩
    · have := h3 c hc
      exact ⟨this.1, by simpa using this.2⟩

theorem dropWhile_all {α} (q : α → Bool) (l : List α) (h : ∀ x ∈ l, q x = true) : l.dropWhile q = [] := by
  induction l with
  | nil => rfl
  | cons a l ih =>
    rw [List.dropWhile_cons, h a (by simp), if_pos rfl, ih (fun x hx => h x (by simp [hx]))]

theorem splitQName_no_colon (n : Str) (h : ∀ c ∈ n, c ≠ ':') : splitQName n = ([], n) := by
  unfold splitQName
  rw [span_eq, takeWhile_all _ _ (fun c hc => by simpa using h c hc), dropWhile_all _ _ (fun c hc => by simpa using h c hc)]

theorem splitQName_prop : splitQName "prop:".toList = ("prop".toList, []) := by decide

theorem splitQName_xmlns_prop : splitQName "xmlns:prop".toList = ("xmlns".toList, "prop".toList) := by decide
theorem nsBindings_xmlns_prop (v : Str) (r : List (Str × Str)) :
    nsBindings (("xmlns:prop".toList, v) :: r) = ("prop".toList, v) :: nsBindings r := by
  rw [nsBindings]
  have h1 : ("xmlns:prop".toList == "xmlns".toList) = false := by decide
  simp only [h1, splitQName_xmlns_prop]
  simp
theorem nsBindings_xmlns (v : Str) (r : List (Str × Str)) :
    nsBindings (("xmlns".toList, v) :: r) = ([], v) :: nsBindings r := by
  rw [nsBindings]
  simp
theorem lookup_head (k v : Str) (sc : Scope) : lookupNs ((k, v) :: sc) k = some v := by
  simp [lookupNs, List.find?]

/-- how the reader resolves the element name the formatter chose for predicate `p` -/
theorem propName_resolve (p : Str) (extra : List (Str × Str)) (hex : nsBindings (rawAttrs extra) = []) :
    ∃ k v, nsBindings (rawAttrs ((propName p).2 :: extra)) = [(k, v)] ∧ (k == ['r', 'd', 'f']) = false ∧
      lookupNs ((k, v) :: scR) (splitQName (propName p).1).1 = some v ∧
      unescape (v ++ (splitQName (propName p).1).2) = some p ∧
      (∀ sc a, readAttrs false sc (rawAttrs ((propName p).2 :: extra)) a = readAttrs false sc (rawAttrs extra) a) := by
  by_cases hl : (splitIri p).2 = []
  · have hns : (splitIri p).1 = p := by
      unfold splitIri at hl ⊢
      cases h1 : p.reverse.span (fun c => !isBreak c) with
      | mk a r =>
        rw [h1] at hl
        cases r with
        | nil => rfl
        | cons b hr =>
          simp only at hl ⊢
          cases h2 : (b :: a.reverse).span (fun c => !isLocalStart c) with
          | mk pre loc =>
            rw [h2] at hl
            cases loc with
            | nil => rfl
            | cons d ds => simp at hl
    have hpn : propName p = ("prop:".toList, ("xmlns:prop".toList, p)) := by
      simp [propName, hl, hns]
    refine ⟨"prop".toList, escape p, ?_, by decide, ?_, ?_, ?_⟩
    · rw [hpn]
      simp only [rawAttrs, List.map_cons] at hex ⊢
      rw [nsBindings_xmlns_prop, hex]
    · rw [hpn]; simp only [splitQName_prop]; exact lookup_head _ _ _
    · rw [hpn]; simp only [splitQName_prop, List.append_nil]; exact unescape_escape p
    · intro sc a; rw [hpn]; simp only [rawAttrs, List.map_cons]; exact readAttrs_xmlns_prop sc _ _ a
  · obtain ⟨hnc, hcat⟩ := splitIri_valid p (splitIri p).1 (splitIri p).2 rfl hl
    have hpn : propName p = ((splitIri p).2, ("xmlns".toList, (splitIri p).1)) := by
      have : (splitIri p).2.isEmpty = false := by
        cases h : (splitIri p).2 with
        | nil => exact absurd h hl
        | cons _ _ => rfl
      simp [propName, this]
    have hch := ncname_chars' _ hnc
    have hsq : splitQName (splitIri p).2 = ([], (splitIri p).2) := splitQName_no_colon _ (fun c hc => (hch c hc).2)
    refine ⟨[], escape (splitIri p).1, ?_, by decide, ?_, ?_, ?_⟩
    · rw [hpn]
      simp only [rawAttrs, List.map_cons] at hex ⊢
      rw [nsBindings_xmlns, hex]
    · rw [hpn]; simp only [hsq]; exact lookup_head _ _ _
    · rw [hpn]; simp only [hsq]
      rw [unescape_ns_local _ _ (fun c hc => by
        intro e; subst e
        have := (hch _ hc).1
        revert this; decide), hcat]
    · intro sc a; rw [hpn]; simp only [rawAttrs, List.map_cons]; exact readAttrs_xmlns sc _ _ a

def objOf (a : Attrs) : Option (Owned ⊕ Str) :=
  match a.resource, a.nodeId with
  | some i, none => some (.inl (.named i))
  | none, some b => some (.inl (.blank b))
  | _, _ => none

theorem okPred_facts (p : Str) (h : okPred p = true) :
    (p == rdfName "li") = false ∧ isReservedElement p = false ∧ (p == rdfName "Description") = false := by
  simp only [okPred, Bool.and_eq_true, Bool.not_eq_true', bne_iff_ne, ne_eq] at h
  refine ⟨?_, h.1, by simpa using h.2⟩
  have := h.1
  simp only [isReservedElement, reservedElements, List.map_cons, List.map_nil, List.any_cons, List.any_nil,
    Bool.or_false, Bool.or_eq_false_iff] at this
  exact this.2.2.2.2.2.2.1

theorem onStart_prop (subj : Owned) (p : Str) (extra : List (Str × Str)) (a : Attrs)
    (hp : okPred p = true) (hex : nsBindings (rawAttrs extra) = [])
    (hra : ∀ sc, RdfBound sc → readAttrs false sc (rawAttrs extra) {} = some (some a))
    (hobj : a.resource = none ∨ a.nodeId = none) :
    ∃ sc, onStart false (S1 subj) (propName p).1 (rawAttrs ((propName p).2 :: extra)) =
      .go ((.prop p subj a.lang a.datatype (objOf a), sc, (propName p).1) :: S1 subj) [] := by
  obtain ⟨k, v, hnb, hk, hlook, hun, hskip⟩ := propName_resolve p extra hex
  obtain ⟨hli, hres, hdesc⟩ := okPred_facts p hp
  refine ⟨(k, v) :: scR, ?_⟩
  have hb : RdfBound ((k, v) :: scR) := rdfBound_cons k v scR hk rdfBound_scR
  generalize hq : splitQName (propName p).1 = q at hlook hun
  obtain ⟨qp, ql⟩ := q
  simp only at hlook hun
  unfold onStart
  simp only [S1, hnb, List.cons_append, List.nil_append, hq, hlook, hun, hskip, hra _ hb, hli, hres, hdesc,
    Bool.not_false, Bool.false_or, Bool.and_false, Bool.false_eq_true, if_false, Bool.or_self]
  rcases hobj with h | h
  · cases hr : a.nodeId <;> simp [objOf, h, hr]
  · cases hr : a.resource <;> simp [objOf, h, hr]

theorem nsBindings_resource (v : Str) : nsBindings [("rdf:resource".toList, v)] = [] := by
  simp [nsBindings, splitQName]; decide
theorem nsBindings_datatype (v : Str) : nsBindings [("rdf:datatype".toList, v)] = [] := by
  simp [nsBindings, splitQName]; decide
theorem nsBindings_lang (v : Str) : nsBindings [("xml:lang".toList, v)] = [] := by
  simp [nsBindings, splitQName]; decide

theorem escape_all_ws (v : Str) : (escape v).all isWs = v.all isWs := by
  induction v with
  | nil => rfl
  | cons c r ih =>
    rw [escape_cons, List.all_append, ih, List.all_cons]
    congr 1
    rcases escChar_cases c with ⟨h, e⟩ | ⟨h, e⟩ | ⟨h, e⟩ | ⟨h, e⟩ | ⟨h, e⟩ | ⟨_, e⟩
    · subst h; decide
    · subst h; decide
    · subst h; decide
    · subst h; decide
    · subst h; decide
    · rw [e]; simp

def textOK (v : Str) : Bool := v.isEmpty || !v.all isWs

def objOK : RObject → Bool
  | .named _ => true
  | .blank b => isNCName b
  | .simple v => textOK v
  | .lang v _ => textOK v
  | .typed v _ => textOK v
  | .triple _ => false

/-- the term the reader delivers for an object (language tags come back lower-cased) -/
def objTerm : RObject → Term
  | .named i => .iri i
  | .blank b => .bnode b
  | .simple v => .lit v xsdString
  | .lang v l => .lang v (asciiLower l)
  | .typed v dt => .lit v dt
  | .triple _ => .iri []

theorem onEnd_prop (p : Str) (subj : Owned) (lang dt : Option Str) (obj : Option (Owned ⊕ Str)) (sc : Scope)
    (n : Str) (below : Stack) :
    onEnd ((.prop p subj lang dt obj, sc, n) :: below) n = .go below [(ownedTerm subj, .iri p,
      match obj with
      | some (.inl x) => ownedTerm x
      | some (.inr t) => newLiteral t lang dt
      | none => newLiteral [] lang dt)] := by
  simp [onEnd]
  rcases obj with _ | (_ | _) <;> rfl

/-- reading a literal property element: start tag, optional text, end tag -/
theorem literal_interp (owned : Owned) (p v : Str) (extra : List (Str × Str)) (a : Attrs) (rest : List Tok)
    (hp : okPred p = true) (hex : nsBindings (rawAttrs extra) = [])
    (hra : ∀ sc, RdfBound sc → readAttrs false sc (rawAttrs extra) {} = some (some a))
    (hres : a.resource = none) (hnid : a.nodeId = none) (hv : textOK v = true) :
    interp false (S1 owned)
      ([Ev.start (propName p).1 ((propName p).2 :: extra), .text v, .close (propName p).1].flatMap evTok ++ rest)
    = prepend [(ownedTerm owned, .iri p, newLiteral v a.lang a.datatype)] (interp false (S1 owned) rest) := by
  obtain ⟨sc, hst⟩ := onStart_prop owned p extra a hp hex hra (Or.inl hres)
  have hobj : objOf a = none := by simp [objOf, hres, hnid]
  rw [hobj] at hst
  simp only [List.flatMap_cons, List.flatMap_nil, evTok, List.append_nil, List.cons_append, List.nil_append,
    List.append_assoc]
  rw [interp_cons_go false _ _ _ _ [] (by simp only [stepTok, hst]; rfl)]
  by_cases hv0 : v = []
  · subst hv0
    simp only [if_true, List.nil_append]
    rw [interp_cons_go false _ _ _ _ _ (by simp only [stepTok]; exact onEnd_prop _ _ _ _ _ _ _ _)]
    simp [prepend_prepend]
  · simp only [hv0, if_false, List.cons_append, List.nil_append]
    have hws : (escape v).all isWs = false := by
      rw [escape_all_ws]
      simp only [textOK, Bool.or_eq_true, List.isEmpty_iff, Bool.not_eq_true'] at hv
      rcases hv with h | h
      · exact absurd h hv0
      · exact h
    rw [interp_cons_go false _ ((.prop p owned a.lang a.datatype (some (.inr v)), sc, (propName p).1) :: S1 owned) _ _ []
      (by simp [stepTok, onText, unescape_escape, hws])]
    rw [interp_cons_go false _ _ _ _ _ (by simp only [stepTok]; exact onEnd_prop _ _ _ _ _ _ _ _)]
    simp [prepend_prepend]

/-- reading an empty property element with `rdf:resource` / `rdf:nodeID` -/
theorem resource_interp (owned : Owned) (p : Str) (extra : List (Str × Str)) (a : Attrs) (x : Owned) (rest : List Tok)
    (hp : okPred p = true) (hex : nsBindings (rawAttrs extra) = [])
    (hra : ∀ sc, RdfBound sc → readAttrs false sc (rawAttrs extra) {} = some (some a))
    (hobj : a.resource = none ∨ a.nodeId = none) (hx : objOf a = some (.inl x)) :
    interp false (S1 owned) ([Ev.empty (propName p).1 ((propName p).2 :: extra)].flatMap evTok ++ rest)
    = prepend [(ownedTerm owned, .iri p, ownedTerm x)] (interp false (S1 owned) rest) := by
  obtain ⟨sc, hst⟩ := onStart_prop owned p extra a hp hex hra hobj
  rw [hx] at hst
  simp only [List.flatMap_cons, List.flatMap_nil, evTok, List.append_nil, List.cons_append, List.nil_append]
  rw [interp_cons_go false _ (S1 owned) _ _ [(ownedTerm owned, .iri p, ownedTerm x)]
    (by simp only [stepTok, hst, if_true, onEnd_prop]; rfl)]

theorem propEvs_interp (owned : Owned) (p : Str) (o : RObject) (evs : List Ev) (rest : List Tok)
    (h : propEvs p o = some evs) (hp : okPred p = true) (ho : objOK o = true) :
    interp false (S1 owned) (evs.flatMap evTok ++ rest)
    = prepend [(ownedTerm owned, .iri p, objTerm o)] (interp false (S1 owned) rest) := by
  cases o with
  | named i =>
    simp only [propEvs, Option.some.injEq] at h; subst h
    exact resource_interp owned p [("rdf:resource".toList, i)] { resource := some i } (.named i) rest hp
      (nsBindings_resource _) (fun sc hsc => by
        simp only [rawAttrs, List.map_cons, List.map_nil]
        rw [readAttrs_rdf_resource sc hsc, readAttrs_nil]) (Or.inr rfl) rfl
  | blank b =>
    simp only [propEvs, Option.some.injEq] at h; subst h
    exact resource_interp owned p [("rdf:nodeID".toList, b)] { nodeId := some b } (.blank b) rest hp
      (nsBindings_nodeID _) (fun sc hsc => by
        simp only [rawAttrs, List.map_cons, List.map_nil]
        rw [readAttrs_rdf_nodeID sc hsc b _ _ ho, readAttrs_nil]) (Or.inl rfl) rfl
  | simple v =>
    simp only [propEvs, Option.some.injEq] at h; subst h
    exact literal_interp owned p v [] {} rest hp rfl (fun sc _ => readAttrs_nil sc _) rfl rfl ho
  | lang v l =>
    simp only [propEvs, Option.some.injEq] at h; subst h
    exact literal_interp owned p v [("xml:lang".toList, l)] { lang := some (asciiLower l) } rest hp
      (nsBindings_lang _) (fun sc _ => by
        simp only [rawAttrs, List.map_cons, List.map_nil]
        rw [readAttrs_xml_lang, readAttrs_nil]) rfl rfl ho
  | typed v dt =>
    simp only [propEvs, Option.some.injEq] at h; subst h
    exact literal_interp owned p v [("rdf:datatype".toList, dt)] { datatype := some dt } rest hp
      (nsBindings_datatype _) (fun sc hsc => by
        simp only [rawAttrs, List.map_cons, List.map_nil]
        rw [readAttrs_rdf_datatype sc hsc, readAttrs_nil]) rfl rfl ho
  | triple t => simp [objOK] at ho

/-! subjects -/

def subjOK : RSubject → Bool
  | .named _ => true
  | .blank b => isNCName b
  | .triple _ => false

def subjTerm : RSubject → Term
  | .named i => .iri i
  | .blank b => .bnode b
  | .triple _ => .iri []

theorem openDesc_interp (cur : Option Owned) (s : RSubject) (owned : Owned) (evs : List Ev) (rest : List Tok)
    (h : openDesc cur s = some (owned, evs)) (hs : subjOK s = true) :
    interp false (stackOf cur) (evs.flatMap evTok ++ rest) = interp false (S1 owned) rest ∧
      ownedTerm owned = subjTerm s := by
  unfold openDesc at h
  by_cases hsame : sameSubject cur s = true
  · simp only [hsame, if_true] at h
    cases cur with
    | none => simp at h
    | some c =>
      simp only [Option.some.injEq, Prod.mk.injEq] at h
      obtain ⟨rfl, rfl⟩ := h
      refine ⟨rfl, ?_⟩
      cases c <;> cases s <;> simp_all [sameSubject, ownedTerm, subjTerm]
  · simp only [hsame, Bool.false_eq_true, if_false] at h
    have hclose : ∀ toks', interp false (stackOf cur)
        ((if cur.isSome then [Ev.close rdfDescription] else []).flatMap evTok ++ toks') = interp false S0 toks' := by
      intro toks'
      cases cur with
      | none => rfl
      | some c =>
        simp only [Option.isSome_some, if_true, List.flatMap_cons, List.flatMap_nil, evTok, List.append_nil,
          List.cons_append, List.nil_append, stackOf]
        rw [interp_cons_go false _ _ _ _ _ (step_close_desc c), prepend_nil]
    cases s with
    | named i =>
      simp only [Option.some.injEq, Prod.mk.injEq] at h
      obtain ⟨rfl, rfl⟩ := h
      refine ⟨?_, rfl⟩
      rw [List.flatMap_append, List.append_assoc, hclose]
      simp only [List.flatMap_cons, List.flatMap_nil, evTok, List.append_nil, List.cons_append, List.nil_append]
      rw [interp_cons_go false _ _ _ _ _ (step_open_named i), prepend_nil]
    | blank b =>
      simp only [Option.some.injEq, Prod.mk.injEq] at h
      obtain ⟨rfl, rfl⟩ := h
      refine ⟨?_, rfl⟩
      rw [List.flatMap_append, List.append_assoc, hclose]
      simp only [List.flatMap_cons, List.flatMap_nil, evTok, List.append_nil, List.cons_append, List.nil_append]
      rw [interp_cons_go false _ _ _ _ _ (step_open_blank b hs), prepend_nil]
    | triple t => simp at h

/-! whole triples and triple lists -/

def goodR : RTriple → Bool
  | .mk s p o => subjOK s && okPred p && objOK o

/-- what the reader delivers for a written triple -/
def tripleOf : RTriple → Triple
  | .mk s p o => (subjTerm s, .iri p, objTerm o)

theorem formatTriple_interp (cur : Option Owned) (t : RTriple) (cur' : Option Owned) (evs : List Ev) (rest : List Tok)
    (h : formatTriple cur t = some (cur', evs)) (hg : goodR t = true) :
    interp false (stackOf cur) (evs.flatMap evTok ++ rest)
    = prepend [tripleOf t] (interp false (stackOf cur') rest) := by
  obtain ⟨s, p, o⟩ := t
  simp only [goodR, Bool.and_eq_true] at hg
  obtain ⟨⟨hs, hp⟩, ho⟩ := hg
  simp only [formatTriple] at h
  cases h1 : openDesc cur s with
  | none => simp [h1] at h
  | some r1 =>
    obtain ⟨owned, evs1⟩ := r1
    cases h2 : propEvs p o with
    | none => simp [h1, h2] at h
    | some evs2 =>
      simp only [h1, h2, Option.some.injEq, Prod.mk.injEq] at h
      obtain ⟨rfl, rfl⟩ := h
      obtain ⟨ha, hb⟩ := openDesc_interp cur s owned evs1 (evs2.flatMap evTok ++ rest) h1 hs
      rw [List.flatMap_append, List.append_assoc, ha, propEvs_interp owned p o evs2 rest h2 hp ho, hb]
      rfl

theorem formatAll_interp (rts : List RTriple) :
    ∀ (cur cur' : Option Owned) (evs : List Ev) (rest : List Tok),
      formatAll cur rts = some (cur', evs) → (∀ t ∈ rts, goodR t = true) →
      interp false (stackOf cur) (evs.flatMap evTok ++ rest)
      = prepend (rts.map tripleOf) (interp false (stackOf cur') rest) := by
  induction rts with
  | nil =>
    intro cur cur' evs rest h _
    simp only [formatAll, Option.some.injEq, Prod.mk.injEq] at h
    obtain ⟨rfl, rfl⟩ := h
    simp [prepend_nil]
  | cons t ts ih =>
    intro cur cur' evs rest h hg
    simp only [formatAll] at h
    cases h1 : formatTriple cur t with
    | none => simp [h1] at h
    | some r1 =>
      obtain ⟨c1, e1⟩ := r1
      cases h2 : formatAll c1 ts with
      | none => simp [h1, h2] at h
      | some r2 =>
        obtain ⟨c2, e2⟩ := r2
        simp only [h1, h2, Option.some.injEq, Prod.mk.injEq] at h
        obtain ⟨rfl, rfl⟩ := h
        rw [List.flatMap_append, List.append_assoc,
          formatTriple_interp cur t c1 e1 _ h1 (hg t (by simp)),
          ih c1 c2 e2 rest h2 (fun x hx => hg x (by simp [hx])), prepend_prepend]
        rfl

/-- **token-level round trip**: the reader applied to the tokens of the formatter's event stream -/
theorem events_interp (ts : List Triple) (evs : List Ev) (h : events ts = some evs)
    (hg : ∀ t ∈ ts.filterMap convertTriple, goodR t = true) :
    interp false initStack (evs.flatMap evTok) = .ok ((ts.filterMap convertTriple).map tripleOf) := by
  unfold events at h
  cases h1 : formatAll none (ts.filterMap convertTriple) with
  | none => simp [h1] at h
  | some r =>
    obtain ⟨cur, body⟩ := r
    simp only [h1, Option.some.injEq] at h
    subst h
    simp only [List.flatMap_append, startEvs, List.flatMap_cons, List.flatMap_nil, evTok, List.append_nil,
      List.cons_append, List.nil_append, List.append_assoc]
    rw [interp_cons_go false _ _ _ _ _ (step_decl false initStack), prepend_nil,
      interp_cons_go false _ _ _ _ _ step_root, prepend_nil]
    have := formatAll_interp _ none cur body ((finishEvs cur).flatMap evTok) h1 hg
    rw [show stackOf none = S0 from rfl] at this
    rw [this]
    have hfin : interp false (stackOf cur) ((finishEvs cur).flatMap evTok) = .ok [] := by
      cases cur with
      | none =>
        simp only [finishEvs, Option.isSome_none, Bool.false_eq_true, if_false, List.nil_append, List.flatMap_cons,
          List.flatMap_nil, evTok, List.append_nil, stackOf]
        rw [interp_cons_go false _ _ _ _ _ step_close_root, prepend_nil]; rfl
      | some c =>
        simp only [finishEvs, Option.isSome_some, if_true, List.cons_append, List.nil_append, List.flatMap_cons,
          List.flatMap_nil, evTok, List.append_nil, stackOf]
        rw [interp_cons_go false _ _ _ _ _ (step_close_desc c), prepend_nil,
          interp_cons_go false _ _ _ _ _ step_close_root, prepend_nil]; rfl
    rw [hfin]
    simp [prepend]

/-! ## indentation is invisible to the reader -/

theorem wsText_all (k : Nat) : (wsText k).all isWs = true := by
  simp [wsText, isWs]

theorem toks_append (a b : List Piece) : toks (a ++ b) = toks a ++ toks b := by simp [toks]

theorem filter_writeFrom (size : Nat) (evs : List Ev) :
    ∀ st, (toks (writeFrom size st evs)).filter (fun t => !isWsTok t) = (evs.flatMap evTok).filter (fun t => !isWsTok t) := by
  induction evs with
  | nil => intro; rfl
  | cons e es ih =>
    intro st
    simp only [writeFrom, toks_append, List.filter_append, List.flatMap_cons, ih]
    congr 1
    cases e <;> simp only [writeEv, wrapped] <;> (try split) <;>
      simp [toks, pieceToks, isWsTok, wsText_all]

theorem interp_writeAll (ind : Option Nat) (evs : List Ev) (stack : Stack) :
    interp false stack (toks (writeAll ind evs)) = interp false stack (evs.flatMap evTok) := by
  cases ind with
  | none =>
    simp only [writeAll, toks, List.flatMap_map]
    rfl
  | some size =>
    rw [interp_filter_ws, interp_filter_ws false (evs.flatMap evTok)]
    simp only [writeAll, filter_writeFrom]

end SophiaProofs.XmlRT
