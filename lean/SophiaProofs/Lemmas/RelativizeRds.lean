/-
C17 lemma library, part 4: RFC 3986 §5.2.4 `removeDotSegments` on clean rooted paths:
`"/A…/mid…/" ++ "../"^|mid| ++ tail` reduces to `"/A…/" ++ tail`.
-/
import SophiaProofs.Lemmas.RelativizeSplit

namespace SophiaProofs.Relativize
open SophiaModel SophiaModel.Rfc3986 SophiaModel.Relativize

/-- a path segment that §5.2.4 copies unchanged -/
def CleanSeg (s : Str) : Prop := '/' ∉ s ∧ s ≠ ['.'] ∧ s ≠ ['.', '.']

/-- `rest` is empty or starts with '/' -/
def SlashOrEnd (rest : Str) : Prop := rest = [] ∨ ∃ r, rest = '/' :: r

theorem spanNot_slash_seg (seg rest : Str) (hs : '/' ∉ seg) (hr : SlashOrEnd rest) :
    spanNot ['/'] (seg ++ rest) = (seg, rest) := by
  apply spanNot_eq
  · intro c hc; simp; intro h; subst h; exact hs hc
  · rcases hr with rfl | ⟨r, rfl⟩
    · left; rfl
    · right; exact ⟨'/', r, rfl, by simp⟩

/-- rule 2E on a clean segment -/
theorem rds_step_E (fuel : Nat) (seg rest out : Str) (hseg : CleanSeg seg) (hrest : SlashOrEnd rest) :
    rdsLoop (fuel + 1) ('/' :: seg ++ rest) out = rdsLoop fuel rest (seg.reverse ++ '/' :: out) := by
  obtain ⟨h1, h2, h3⟩ := hseg
  have hsp := spanNot_slash_seg seg rest h1 hrest
  rcases seg with _ | ⟨c1, _ | ⟨c2, _ | ⟨c3, tl⟩⟩⟩
  · rcases hrest with rfl | ⟨r, rfl⟩
    · simp [rdsLoop, spanNot]
    · simp [rdsLoop, spanNot]
  · have hc1 : c1 ≠ '/' := by intro h; apply h1; simp [h]
    have hc1' : c1 ≠ '.' := by intro h; apply h2; simp [h]
    simp at hsp
    rcases hrest with rfl | ⟨r, rfl⟩
    · simp [rdsLoop, hsp]
    · simp only [rdsLoop, List.cons_append, List.nil_append]
      split <;> simp_all
      rename_i hx heq; exact absurd heq.1.symm hx
  · have hc1 : c1 ≠ '/' := by intro h; apply h1; simp [h]
    have hc2 : c2 ≠ '/' := by intro h; apply h1; simp [h]
    have hdd : ¬ (c1 = '.' ∧ c2 = '.') := by intro ⟨a, b⟩; apply h3; simp [a, b]
    simp only [List.cons_append, List.nil_append] at hsp ⊢
    simp only [rdsLoop]
    split <;> simp_all
    rename_i hx heq; exact absurd heq.1.symm hx
  · have hc1 : c1 ≠ '/' := by intro h; apply h1; simp [h]
    have hc2 : c2 ≠ '/' := by intro h; apply h1; simp [h]
    have hc3 : c3 ≠ '/' := by intro h; apply h1; simp [h]
    simp only [List.cons_append] at hsp ⊢
    simp only [rdsLoop]
    split <;> simp_all
    rename_i hx heq; exact absurd heq.1.symm hx

theorem rds_step_C (fuel : Nat) (r out : Str) :
    rdsLoop (fuel + 1) ('/' :: '.' :: '.' :: '/' :: r) out = rdsLoop fuel ('/' :: r) (dropLastSeg out) := by
  simp [rdsLoop]

theorem rds_step_B (fuel : Nat) (r out : Str) :
    rdsLoop (fuel + 1) ('/' :: '.' :: '/' :: r) out = rdsLoop fuel ('/' :: r) out := by
  simp [rdsLoop]

theorem rds_end (fuel : Nat) (out : Str) : rdsLoop fuel [] out = out.reverse := by
  cases fuel <;> simp [rdsLoop]

theorem dropLastSeg_push (seg out : Str) (hs : '/' ∉ seg) :
    dropLastSeg (seg.reverse ++ '/' :: out) = out := by
  unfold dropLastSeg
  have : spanNot ['/'] (seg.reverse ++ '/' :: out) = (seg.reverse, '/' :: out) := by
    apply spanNot_slash_seg
    · simpa using hs
    · right; exact ⟨out, rfl⟩
  simp [this]

/-- "/s1/s2/…/sn" -/
def flat : List Str → Str
  | [] => []
  | s :: ss => '/' :: s ++ flat ss

theorem flat_append (a b : List Str) : flat (a ++ b) = flat a ++ flat b := by
  induction a with
  | nil => rfl
  | cons s ss ih => simp [flat, ih]

theorem flat_slashOrEnd (ss : List Str) (rest : Str) (hr : SlashOrEnd rest) : SlashOrEnd (flat ss ++ rest) := by
  cases ss with
  | nil => simpa [flat] using hr
  | cons s ss => right; exact ⟨_, rfl⟩

theorem length_le_flat (ss : List Str) : ss.length ≤ (flat ss).length := by
  induction ss with
  | nil => simp
  | cons s ss ih => simp [flat]; omega

/-- the output stack after pushing the segments `ss` (in order) on `out` -/
theorem rds_copy (segs : List Str) (hclean : ∀ s ∈ segs, CleanSeg s) (rest : Str) (hrest : SlashOrEnd rest)
    (out : Str) (fuel : Nat) :
    rdsLoop (fuel + segs.length) (flat segs ++ rest) out = rdsLoop fuel rest ((flat segs).reverse ++ out) := by
  induction segs generalizing out with
  | nil => simp [flat]
  | cons s ss ih =>
    have h1 : CleanSeg s := hclean s (by simp)
    have h2 : ∀ x ∈ ss, CleanSeg x := fun x hx => hclean x (by simp [hx])
    have : fuel + (s :: ss).length = (fuel + ss.length) + 1 := by simp; omega
    rw [this]
    have e : flat (s :: ss) ++ rest = '/' :: s ++ (flat ss ++ rest) := by simp [flat]
    rw [e, rds_step_E _ _ _ _ h1 (flat_slashOrEnd ss rest hrest), ih h2]
    simp [flat]

/-- `k` parent steps pop the last `k` segments -/
theorem rds_up_rev (rmid : List Str) (hclean : ∀ s ∈ rmid, '/' ∉ s) (tail out : Str) (fuel : Nat) :
    rdsLoop (fuel + rmid.length) ('/' :: dotdots rmid.length ++ tail) ((flat rmid.reverse).reverse ++ out) =
      rdsLoop fuel ('/' :: tail) out := by
  induction rmid generalizing fuel with
  | nil => simp [dotdots, flat]
  | cons s rs ih =>
    have h1 : '/' ∉ s := hclean s (by simp)
    have h2 : ∀ x ∈ rs, '/' ∉ x := fun x hx => hclean x (by simp [hx])
    have hl : (s :: rs).length = rs.length + 1 := by simp
    rw [hl]
    have : fuel + (rs.length + 1) = (fuel + rs.length) + 1 := by omega
    rw [this]
    have e : ('/' :: dotdots (rs.length + 1) ++ tail) = '/' :: '.' :: '.' :: '/' :: (dotdots rs.length ++ tail) := by
      simp [dotdots]
    rw [e, rds_step_C]
    have e2 : (flat (s :: rs).reverse).reverse ++ out = s.reverse ++ '/' :: ((flat rs.reverse).reverse ++ out) := by
      simp [flat_append, flat]
    rw [e2, dropLastSeg_push _ _ h1]
    have := ih h2 fuel
    simpa using this

theorem rds_up (mid : List Str) (hclean : ∀ s ∈ mid, '/' ∉ s) (tail out : Str) (fuel : Nat) :
    rdsLoop (fuel + mid.length) ('/' :: dotdots mid.length ++ tail) ((flat mid).reverse ++ out) =
      rdsLoop fuel ('/' :: tail) out := by
  have := rds_up_rev mid.reverse (by simpa using hclean) tail out fuel
  simpa using this

/-- remove_dot_segments on `"/A…/mid…/" ++ "../"^|mid| ++ tp` with everything clean: the `mid` segments are
popped, the tail is appended -/
theorem rds_main (A mid tsegs : List Str) (tp : Str)
    (hA : ∀ s ∈ A, CleanSeg s) (hmid : ∀ s ∈ mid, CleanSeg s) (hts : ∀ s ∈ tsegs, CleanSeg s)
    (ht : flat tsegs = '/' :: tp) :
    removeDotSegments (flat (A ++ mid) ++ '/' :: (dotdots mid.length ++ tp)) = flat A ++ '/' :: tp := by
  unfold removeDotSegments
  have hlen : ((flat (A ++ mid) ++ '/' :: (dotdots mid.length ++ tp)).length + 1) =
      (((flat (A ++ mid) ++ '/' :: (dotdots mid.length ++ tp)).length + 1 - (tsegs.length + mid.length + (A ++ mid).length))
        + tsegs.length + mid.length) + (A ++ mid).length := by
    have h1 := length_le_flat (A ++ mid)
    have h2 := length_le_flat tsegs
    have h3 : (dotdots mid.length).length = 3 * mid.length := by
      generalize mid.length = k
      induction k with
      | zero => rfl
      | succ k ih => simp [dotdots, ih]; omega
    rw [ht] at h2
    simp only [List.length_append, List.length_cons] at h1 h2 ⊢
    omega
  rw [hlen]
  generalize ((flat (A ++ mid) ++ '/' :: (dotdots mid.length ++ tp)).length + 1 - (tsegs.length + mid.length + (A ++ mid).length)) = f
  have hAm : ∀ s ∈ A ++ mid, CleanSeg s := by
    intro s hs; simp at hs; rcases hs with h | h
    · exact hA s h
    · exact hmid s h
  rw [rds_copy (A ++ mid) hAm _ (Or.inr ⟨_, rfl⟩)]
  have e1 : (flat (A ++ mid)).reverse ++ [] = (flat mid).reverse ++ (flat A).reverse := by
    simp [flat_append]
  rw [e1]
  have e2 : ('/' :: (dotdots mid.length ++ tp)) = '/' :: dotdots mid.length ++ tp := rfl
  rw [e2, rds_up mid (fun s hs => (hmid s hs).1)]
  have e3 : '/' :: tp = flat tsegs ++ [] := by simp [ht]
  rw [e3, rds_copy tsegs hts [] (Or.inl rfl), rds_end]
  simp [ht]

/-- the same with "./" and an empty tail path -/
theorem rds_dotSlash (A : List Str) (hA : ∀ s ∈ A, CleanSeg s) :
    removeDotSegments (flat A ++ ['/', '.', '/']) = flat A ++ ['/'] := by
  unfold removeDotSegments
  have hlen : (flat A ++ ['/', '.', '/']).length + 1 = (((flat A).length + 2 - A.length) + 2) + A.length := by
    have := length_le_flat A
    simp only [List.length_append, List.length_cons, List.length_nil]; omega
  rw [hlen, rds_copy A hA _ (Or.inr ⟨_, rfl⟩)]
  have : (flat A).length + 2 - A.length + 2 = ((flat A).length + 2 - A.length + 1) + 1 := by omega
  rw [this, rds_step_B]
  have e : ['/'] = '/' :: ([] : Str) ++ [] := rfl
  rw [e, rds_step_E _ [] [] _ ⟨by simp, by simp, by simp⟩ (Or.inl rfl), rds_end]
  simp

/-! ## segments -/

theorem splitSlash_ne_nil (p : Octets) : splitSlash p ≠ [] := by
  induction p with
  | nil => simp [splitSlash]
  | cons c cs ih =>
    unfold splitSlash
    split
    · simp
    · cases h : splitSlash cs with
      | nil => exact absurd h ih
      | cons s ss => simp

theorem flat_splitSlash (p : Octets) : flat (splitSlash p) = '/' :: p := by
  induction p with
  | nil => simp [splitSlash, flat]
  | cons c cs ih =>
    unfold splitSlash
    split
    · rename_i h; subst h; simp [flat, ih]
    · cases h : splitSlash cs with
      | nil => exact absurd h (splitSlash_ne_nil cs)
      | cons s ss =>
        rw [h] at ih
        simp [flat] at ih ⊢
        rw [← ih]

theorem splitSlash_no_slash (p : Octets) : ∀ s ∈ splitSlash p, '/' ∉ s := by
  induction p with
  | nil => simp [splitSlash]
  | cons c cs ih =>
    unfold splitSlash
    split
    · intro s hs
      simp at hs
      rcases hs with rfl | hs
      · simp
      · exact ih s hs
    · rename_i hc
      cases h : splitSlash cs with
      | nil => exact absurd h (splitSlash_ne_nil cs)
      | cons s ss =>
        rw [h] at ih
        intro x hx
        simp at hx
        rcases hx with rfl | hx
        · have := ih s (by simp)
          simp; exact ⟨fun h => hc h.symm, this⟩
        · exact ih x (by simp [hx])

theorem splitSlash_append_slash (a b : Octets) : splitSlash (a ++ '/' :: b) = splitSlash a ++ splitSlash b := by
  induction a with
  | nil => simp [splitSlash]
  | cons c cs ih =>
    simp only [List.cons_append, splitSlash]
    split
    · simp [ih]
    · rw [ih]
      cases h : splitSlash cs with
      | nil => exact absurd h (splitSlash_ne_nil cs)
      | cons s ss => simp

theorem splitSlash_length (p : Octets) : (splitSlash p).length = p.count '/' + 1 := by
  induction p with
  | nil => simp [splitSlash]
  | cons c cs ih =>
    unfold splitSlash
    split
    · rename_i h; subst h; simp [ih]
    · rename_i hc
      cases h : splitSlash cs with
      | nil => exact absurd h (splitSlash_ne_nil cs)
      | cons s ss =>
        rw [h] at ih
        simp at ih ⊢
        rw [List.count_cons_of_ne hc]
        omega

theorem cleanSeg_of_noDotSegs {p : Octets} (h : noDotSegs p = true) : ∀ s ∈ splitSlash p, CleanSeg s := by
  intro s hs
  refine ⟨splitSlash_no_slash p s hs, ?_, ?_⟩
  · intro he
    unfold noDotSegs at h
    rw [List.all_eq_true] at h
    have := h s hs
    simp [isDotSeg, he] at this
  · intro he
    unfold noDotSegs at h
    rw [List.all_eq_true] at h
    have := h s hs
    simp [isDotSeg, he] at this

/-! ## rootless paths: a clean first segment in front -/

/-- rule 2E on a clean non-empty first segment of a rootless path -/
theorem rds_step_E' (fuel : Nat) (seg rest out : Str) (hseg : CleanSeg seg) (hne : seg ≠ [])
    (hrest : SlashOrEnd rest) :
    rdsLoop (fuel + 1) (seg ++ rest) out = rdsLoop fuel rest (seg.reverse ++ out) := by
  obtain ⟨h1, h2, h3⟩ := hseg
  have hsp := spanNot_slash_seg seg rest h1 hrest
  rcases seg with _ | ⟨c1, _ | ⟨c2, _ | ⟨c3, tl⟩⟩⟩
  · exact absurd rfl hne
  · have hc1 : c1 ≠ '/' := by intro h; apply h1; simp [h]
    have hc1' : c1 ≠ '.' := by intro h; apply h2; simp [h]
    simp only [List.cons_append, List.nil_append] at hsp ⊢
    simp only [rdsLoop]
    split <;> simp_all
  · have hc1 : c1 ≠ '/' := by intro h; apply h1; simp [h]
    have hc2 : c2 ≠ '/' := by intro h; apply h1; simp [h]
    have hdd : ¬ (c1 = '.' ∧ c2 = '.') := by intro ⟨a, b⟩; apply h3; simp [a, b]
    simp only [List.cons_append, List.nil_append] at hsp ⊢
    simp only [rdsLoop]
    split <;> simp_all
  · have hc1 : c1 ≠ '/' := by intro h; apply h1; simp [h]
    have hc2 : c2 ≠ '/' := by intro h; apply h1; simp [h]
    have hc3 : c3 ≠ '/' := by intro h; apply h1; simp [h]
    simp only [List.cons_append] at hsp ⊢
    simp only [rdsLoop]
    split <;> simp_all


theorem length_dotdots (k : Nat) : (dotdots k).length = 3 * k := by
  induction k with
  | zero => rfl
  | succ k ih => simp [dotdots, ih]; omega

/-- the three phases (copy, pop, copy) with an arbitrary initial output stack and exact fuel -/
theorem rds_core (A mid tsegs : List Str) (tp : Str)
    (hA : ∀ s ∈ A, CleanSeg s) (hmid : ∀ s ∈ mid, CleanSeg s) (hts : ∀ s ∈ tsegs, CleanSeg s)
    (ht : flat tsegs = '/' :: tp) (out : Str) (f : Nat) :
    rdsLoop (f + tsegs.length + mid.length + (A ++ mid).length)
        (flat (A ++ mid) ++ '/' :: (dotdots mid.length ++ tp)) out =
      out.reverse ++ (flat A ++ '/' :: tp) := by
  have hAm : ∀ s ∈ A ++ mid, CleanSeg s := by
    intro s hs; simp at hs; rcases hs with h | h
    · exact hA s h
    · exact hmid s h
  rw [rds_copy (A ++ mid) hAm _ (Or.inr ⟨_, rfl⟩)]
  have e1 : (flat (A ++ mid)).reverse ++ out = (flat mid).reverse ++ ((flat A).reverse ++ out) := by
    simp [flat_append]
  rw [e1]
  have e2 : ('/' :: (dotdots mid.length ++ tp)) = '/' :: dotdots mid.length ++ tp := rfl
  rw [e2, rds_up mid (fun s hs => (hmid s hs).1)]
  have e3 : '/' :: tp = flat tsegs ++ [] := by simp [ht]
  rw [e3, rds_copy tsegs hts [] (Or.inl rfl), rds_end]
  simp [ht]

/-- `rds_main` with a clean first segment `Z` in front (`Z = []`: rooted path; otherwise rootless) -/
theorem rds_main_Z (Z : Str) (A mid tsegs : List Str) (tp : Str) (hZ : CleanSeg Z)
    (hA : ∀ s ∈ A, CleanSeg s) (hmid : ∀ s ∈ mid, CleanSeg s) (hts : ∀ s ∈ tsegs, CleanSeg s)
    (ht : flat tsegs = '/' :: tp) :
    removeDotSegments (Z ++ (flat (A ++ mid) ++ '/' :: (dotdots mid.length ++ tp))) = Z ++ (flat A ++ '/' :: tp) := by
  by_cases hz : Z = []
  · subst hz
    simpa using rds_main A mid tsegs tp hA hmid hts ht
  · unfold removeDotSegments
    have h1 := length_le_flat (A ++ mid)
    have h2 := length_le_flat tsegs
    have h3 := length_dotdots mid.length
    rw [ht] at h2
    have hlen : (Z ++ (flat (A ++ mid) ++ '/' :: (dotdots mid.length ++ tp))).length + 1 =
        ((((Z ++ (flat (A ++ mid) ++ '/' :: (dotdots mid.length ++ tp))).length
            - (tsegs.length + mid.length + (A ++ mid).length))
          + tsegs.length + mid.length) + (A ++ mid).length) + 1 := by
      simp only [List.length_append, List.length_cons] at h1 h2 ⊢
      omega
    rw [hlen, rds_step_E' _ Z _ [] hZ hz (flat_slashOrEnd (A ++ mid) _ (Or.inr ⟨_, rfl⟩)),
      rds_core A mid tsegs tp hA hmid hts ht]
    simp


theorem rds_dotSlash_Z (Z : Str) (A : List Str) (hZ : CleanSeg Z) (hA : ∀ s ∈ A, CleanSeg s) :
    removeDotSegments (Z ++ (flat A ++ ['/', '.', '/'])) = Z ++ (flat A ++ ['/']) := by
  by_cases hz : Z = []
  · subst hz
    simpa using rds_dotSlash A hA
  · unfold removeDotSegments
    have h1 := length_le_flat A
    have hlen : (Z ++ (flat A ++ ['/', '.', '/'])).length + 1 =
        ((((Z ++ (flat A ++ ['/', '.', '/'])).length - (A.length + 2)) + 1 + 1) + A.length) + 1 := by
      simp only [List.length_append, List.length_cons, List.length_nil] at h1 ⊢
      omega
    rw [hlen, rds_step_E' _ Z _ [] hZ hz (flat_slashOrEnd A _ (Or.inr ⟨_, rfl⟩)),
      rds_copy A hA _ (Or.inr ⟨_, rfl⟩), rds_step_B]
    have e : ['/'] = '/' :: ([] : Str) ++ [] := rfl
    rw [e, rds_step_E _ [] [] _ ⟨by simp, by simp, by simp⟩ (Or.inl rfl), rds_end]
    simp

theorem splitSlash_head_flat (p : Octets) : ∃ Z A, splitSlash p = Z :: A ∧ p = Z ++ flat A := by
  have hf := flat_splitSlash p
  cases h : splitSlash p with
  | nil => exact absurd h (splitSlash_ne_nil p)
  | cons Z A =>
    rw [h] at hf
    simp [flat] at hf
    exact ⟨Z, A, rfl, hf.symm⟩

end SophiaProofs.Relativize
