/-
Definitions shared by the C01 / C10 / C11 proofs about `SophiaModel.Store`: the representation
invariant, the abstraction function, set equality of quad lists modulo `Term::eq`, and the
decidable obligations on the generated index tables.
-/
import SophiaModel.Model.Store
import SophiaModel.Gen.IndexTable

namespace SophiaProofs.StoreP
open SophiaModel SophiaModel.Term SophiaModel.Store

/-! ### term index -/

/-- (I2) `i2t` has no two `Term::eq` entries (⇔ `t2i` is a function and the inverse of `i2t`) and
never outgrows `max` (index `max` is reserved for the default graph and never issued) -/
def TIInv (max : Nat) (terms : List Term) : Prop :=
  terms.length ≤ max ∧
  ∀ (i j : Nat) (a b : Term), i < j → terms[i]? = some a → terms[j]? = some b → termEq a b = false

/-! ### rows -/

/-- (I3) a canonical row of a store with `n` positions over `len` known terms -/
def RowOK (n max len : Nat) (c : Row) : Prop :=
  c.length = n ∧ ∀ (pos v : Nat), c[pos]? = some v →
    (v < len ∨ (isGPos n pos = true ∧ v = max))

/-- a layout permutation of `n` positions -/
def IsPerm (n : Nat) (p : List Nat) : Bool :=
  p.length == n && (List.range n).all (fun c => p.contains c)

/-! ### representation invariant -/

structure Inv (s : St) : Prop where
  /-- the shape is one of the generated ones: every layout is a permutation, the primary one is the
  identity, there is one index per layout -/
  shape_ok : s.shape.perms.all (IsPerm s.shape.n) = true ∧ s.shape.perms.head? = some (List.range s.shape.n)
  n_ok : s.shape.n = 3 ∨ s.shape.n = 4
  idx_len : s.idx.length = s.shape.perms.length
  /-- (I2) -/
  ti : TIInv s.max s.terms
  /-- (I3) on the primary index -/
  rows_ok : ∀ c ∈ s.idx.getD 0 [], RowOK s.shape.n s.max s.terms.length c
  /-- no duplicate rows in any index -/
  nodup : ∀ ix ∈ s.idx, ix.Nodup
  /-- (I1) every index holds the primary rows under its own layout -/
  same : ∀ (k : Nat) (ix : List Row), s.idx[k]? = some ix → ∀ r,
    r ∈ ix ↔ ∃ c ∈ s.idx.getD 0 [], layout (s.shape.perms.getD k []) c = r

/-! ### abstraction: the quads a store holds -/

/-- `abs s` = what `quads()` / `triples()` enumerate -/
def abs (s : St) : List Quad := Store.quads s

/-- membership modulo `Term::eq` -/
def qmem (q : Quad) (d : List Quad) : Bool := d.any (quadEq · q)

/-- two quad lists denote the same set of quads (modulo `Term::eq`) -/
def SameSet (a b : List Quad) : Prop := ∀ q, qmem q a = qmem q b

/-- no two entries are `Term::eq`-equal quads ("each once") -/
def NodupQ : List Quad → Prop
  | [] => True
  | q :: qs => qmem q qs = false ∧ NodupQ qs

/-! ### decidable obligations on a generated table (checked by `decide` on every run) -/

/-- lower / upper bound of an arm agree on the bound prefix and pad with ZERO.. / ..MAX; the
last component of the upper bound may be anything ≥ ZERO when the row component before it is
padded with MAX and can never reach MAX (the `[gi, MAX, MAX, ZERO]` of GenericLightDataset) -/
def boundsOK (n : Nat) (bound : List (Option Bool)) (perm : List Nat) (lo hi : List Bnd) : Bool :=
  lo.length == n && hi.length == n &&
  (List.range n).all (fun j =>
    let c := perm.getD j 0
    if bound.getD c none == some true then
      -- bound positions come first in the layout and carry the constant on both sides
      lo.getD j .zero == .pos c && hi.getD j .zero == .pos c &&
      (List.range j).all (fun j' => bound.getD (perm.getD j' 0) none == some true)
    else
      lo.getD j .max == .zero &&
      (hi.getD j .zero == .max ||
        -- tolerated: an earlier padded position that is not the graph-name position already
        -- separates (its MAX is never reached by a stored row)
        (List.range j).any (fun j' =>
          bound.getD (perm.getD j' 0) none != some true && hi.getD j' .zero == .max &&
          !(isGPos n (perm.getD j' 0)))))

def armOK (d : StoreDesc) (a : Arm) : Bool :=
  let n := d.n
  let perm := d.insertLayouts.getD a.index []
  a.bound.length == n && a.index < d.insertLayouts.length &&
  boundsOK n a.bound perm a.lo a.hi &&
  -- the `to_gspo` closure inverts the layout of the index used
  a.out.length == n && (List.range n).all (fun c => perm.getD (a.out.getD c n) n == c) &&
  -- the matchers handed to the iterator are exactly the non-bound positions, in layout order
  (match a.kind with
   | .once => a.matchers.isEmpty && a.bound.all (· == some true)
   | .rangeFilter => a.matchers == [perm.getD (n - 1) n] &&
       (List.range (n - 1)).all (fun j => a.bound.getD (perm.getD j 0) none == some true) &&
       a.bound.getD (perm.getD (n - 1) 0) none != some true
   | .cached k => k ≤ n && a.matchers == (List.range k).map (fun j => perm.getD (n - k + j) n) &&
       (List.range (n - k)).all (fun j => a.bound.getD (perm.getD j 0) none == some true) &&
       (List.range k).all (fun j => a.bound.getD (perm.getD (n - k + j) 0) none != some true))

/-- every combination of "has a constant / has none" selects some arm -/
def tableComplete (d : StoreDesc) : Bool :=
  let rec pats : Nat → List (List Bool)
    | 0 => [[]]
    | k + 1 => (pats k).flatMap (fun p => [true :: p, false :: p])
  (pats d.n).all (fun has => d.arms.any (fun a => armFits a.bound has))

def descOK (d : StoreDesc) : Bool :=
  (d.n == 3 || d.n == 4) &&
  d.insertLayouts.all (IsPerm d.n) && d.insertLayouts.head? == some (List.range d.n) &&
  d.removeLayouts == d.insertLayouts && d.removeNames == d.indexNames &&
  d.removeOrder == d.insertOrder && IsPerm d.n d.insertOrder &&
  (if d.n == 4 then d.insertOrder == [1, 2, 3, 0] else d.insertOrder == [0, 1, 2]) &&
  d.iterIndex == 0 &&
  d.arms.all (armOK d) && tableComplete d

end SophiaProofs.StoreP
