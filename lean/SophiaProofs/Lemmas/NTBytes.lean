/-
C03, byte level: `quoted_string` scans UTF-8 bytes, the round-trip theorems are about scalar
values.  This file proves that the two agree for every text (no modelling assumption left):

  quotedLoopB (utf8 s) = utf8 (quotedString s)

from two decidable facts about the *generated* table (every cut byte and every byte an arm writes
is ASCII; every cut byte has an arm) and two facts about UTF-8 (`String.utf8EncodeChar`): an
ASCII scalar value is one byte, its own; every byte of a longer sequence is ≥ 0x80.
-/
import SophiaProofs.Lemmas.NTLang

namespace SophiaProofs.NTB
open SophiaModel SophiaModel.NT SophiaProofs.NTL

/-! ### UTF-8 -/

theorem enc_ascii (c : Char) (h : c.toNat < 128) : String.utf8EncodeChar c = [byteOf c] := by
  have e : c.toNat = c.val.toNat := rfl
  unfold String.utf8EncodeChar
  simp only
  rw [if_pos (by omega), byteOf, e]

theorem enc_high (c : Char) (h : 128 ≤ c.toNat) : ∀ b ∈ String.utf8EncodeChar c, 128 ≤ b.toNat := by
  have e : c.toNat = c.val.toNat := rfl
  intro b hb
  unfold String.utf8EncodeChar at hb
  simp only at hb
  split at hb
  · omega
  · split at hb
    · simp only [List.mem_cons, List.not_mem_nil, or_false] at hb
      rcases hb with rfl | rfl <;> simp only [UInt8.toNat_ofNat'] <;> omega
    · split at hb
      · simp only [List.mem_cons, List.not_mem_nil, or_false] at hb
        rcases hb with rfl | rfl | rfl <;> simp only [UInt8.toNat_ofNat'] <;> omega
      · simp only [List.mem_cons, List.not_mem_nil, or_false] at hb
        rcases hb with rfl | rfl | rfl | rfl <;> simp only [UInt8.toNat_ofNat'] <;> omega

/-- `utf8` is the encoding `String.toUTF8` produces (what the driver prints as hex) -/
theorem utf8_toUTF8 (s : Str) : (String.ofList s).toUTF8.data.toList = utf8 s := by
  simp [String.toUTF8, String.toByteArray_ofList, List.utf8Encode, utf8]

theorem utf8_cons (c : Char) (s : Str) : utf8 (c :: s) = String.utf8EncodeChar c ++ utf8 s := by
  simp [utf8]

theorem utf8_append (a b : Str) : utf8 (a ++ b) = utf8 a ++ utf8 b := by simp [utf8]

theorem byteOf_toNat (c : Char) (h : c.toNat < 128) : (byteOf c).toNat = c.toNat := by
  simp only [byteOf, UInt8.toNat_ofNat']; omega

theorem byteOf_inj (c d : Char) (hc : c.toNat < 128) (hd : d.toNat < 128) (h : byteOf c = byteOf d) : c = d := by
  apply char_eq_of_toNat
  rw [← byteOf_toNat c hc, ← byteOf_toNat d hd, h]

theorem utf8_ascii (a : Str) (h : ∀ c ∈ a, c.toNat < 128) : utf8 a = a.map byteOf := by
  induction a with
  | nil => rfl
  | cons c a ih =>
    rw [utf8_cons, enc_ascii c (h c (by simp)), ih (fun x hx => h x (by simp [hx]))]; rfl

/-! ### the table, as bytes -/

def tableAscii : Bool :=
  Gen.ntCutChars.all (fun c => decide (c.toNat < 128)) &&
  Gen.ntEscapeArms.all (fun a => decide (a.1.toNat < 128) && a.2.all (fun c => decide (c.toNat < 128)))

theorem tableAscii_holds : tableAscii = true := by decide

def tableOkB : Bool :=
  cutBytes.all (fun b => !(decide (b.toNat ≤ Gen.ntCutBound)) || (escArmB b).isSome)

theorem tableOkB_holds : tableOkB = true := by decide

theorem cutChars_ascii (c : Char) (h : c ∈ Gen.ntCutChars) : c.toNat < 128 := by
  have t := tableAscii_holds
  simp only [tableAscii, Bool.and_eq_true, List.all_eq_true, decide_eq_true_eq] at t
  exact t.1 c h

theorem arms_ascii (k : Char) (v : Str) (h : (k, v) ∈ Gen.ntEscapeArms) : k.toNat < 128 ∧ ∀ c ∈ v, c.toNat < 128 := by
  have t := tableAscii_holds
  simp only [tableAscii, Bool.and_eq_true, List.all_eq_true, decide_eq_true_eq] at t
  exact t.2 (k, v) h

theorem contains_map (l : List Char) (hl : ∀ k ∈ l, k.toNat < 128) (c : Char) (hc : c.toNat < 128) :
    (l.map byteOf).contains (byteOf c) = l.contains c := by
  induction l with
  | nil => rfl
  | cons k l ih =>
    have ih' := ih (fun x hx => hl x (by simp [hx]))
    simp only [List.map_cons, List.contains_cons, ih']
    by_cases e : c = k
    · subst e; simp
    · have : byteOf c ≠ byteOf k := fun h => e (byteOf_inj c k hc (hl k (by simp)) h)
      have h1 : (byteOf c == byteOf k) = false := by simpa using this
      have h2 : (c == k) = false := by simpa using e
      rw [h1, h2]

theorem lookup_map (l : List (Char × Str)) (hl : ∀ a ∈ l, a.1.toNat < 128) (c : Char) (hc : c.toNat < 128) :
    (l.map (fun a => (byteOf a.1, a.2.map byteOf))).lookup (byteOf c) = (l.lookup c).map (·.map byteOf) := by
  induction l with
  | nil => rfl
  | cons a l ih =>
    obtain ⟨k, v⟩ := a
    have ih' := ih (fun x hx => hl x (by simp [hx]))
    simp only [List.map_cons, List.lookup_cons]
    by_cases e : c = k
    · subst e; simp
    · have : byteOf c ≠ byteOf k := fun h => e (byteOf_inj c k hc (hl (k, v) (by simp)) h)
      have h1 : (byteOf c == byteOf k) = false := by simpa using this
      have h2 : (c == k) = false := by simpa using e
      rw [h1, h2]; exact ih'

theorem isCutB_ascii (c : Char) (hc : c.toNat < 128) : isCutB (byteOf c) = isCut c := by
  simp only [isCutB, isCut, cutBytes, byteOf_toNat c hc, contains_map _ cutChars_ascii c hc]

theorem escArmB_ascii (c : Char) (hc : c.toNat < 128) : escArmB (byteOf c) = (escArm c).map (·.map byteOf) := by
  simp only [escArmB, escArm, armBytes]
  exact lookup_map _ (fun a ha => (arms_ascii a.1 a.2 ha).1) c hc

theorem isCutB_high (b : UInt8) (h : 128 ≤ b.toNat) : isCutB b = false := by
  cases hb : isCutB b with
  | false => rfl
  | true =>
    simp only [isCutB, Bool.and_eq_true, List.contains_iff_mem, cutBytes, List.mem_map] at hb
    obtain ⟨_, c, hc, e⟩ := hb
    have := byteOf_toNat c (cutChars_ascii c hc)
    rw [e] at this
    have := cutChars_ascii c hc
    omega

theorem isCut_high (c : Char) (h : 128 ≤ c.toNat) : isCut c = false := by
  cases hb : isCut c with
  | false => rfl
  | true =>
    simp only [isCut, Bool.and_eq_true, List.contains_iff_mem] at hb
    have := cutChars_ascii c hb.2
    omega

theorem escArmB_isSome (b : UInt8) (h : isCutB b = true) : (escArmB b).isSome = true := by
  have t := tableOkB_holds
  simp only [tableOkB, List.all_eq_true] at t
  simp only [isCutB, Bool.and_eq_true, decide_eq_true_eq, List.contains_iff_mem] at h
  have := t b h.2
  simpa [h.1] using this

/-! ### byte-wise escaping = encoding of char-wise escaping -/

/-- what `quoted_string` writes for one byte -/
def escB (b : UInt8) : Bytes := if isCutB b then (escArmB b).getD [] else [b]

def quotedB (bs : Bytes) : Bytes := bs.flatMap escB

theorem quotedB_cons (b : UInt8) (bs : Bytes) : quotedB (b :: bs) = escB b ++ quotedB bs := by simp [quotedB]

theorem quotedB_append (a b : Bytes) : quotedB (a ++ b) = quotedB a ++ quotedB b := by simp [quotedB]

theorem quotedB_noncut (a : Bytes) (h : ∀ c ∈ a, (!isCutB c) = true) : quotedB a = a := by
  induction a with
  | nil => rfl
  | cons c a ih =>
    have hc : isCutB c = false := by simpa using h c (by simp)
    rw [quotedB_cons, ih (fun x hx => h x (by simp [hx]))]
    simp [escB, hc]

theorem escArmB_of_cut (b : UInt8) (h : isCutB b = true) : escArmB b = some (escB b) := by
  have := escArmB_isSome b h
  cases e : escArmB b with
  | none => rw [e] at this; cases this
  | some v => simp [escB, h, e]

/-- one scalar value: escaping its bytes = encoding its escape -/
theorem escB_char (c : Char) : quotedB (String.utf8EncodeChar c) = utf8 (escChar c) := by
  by_cases hc : c.toNat < 128
  · rw [enc_ascii c hc, quotedB_cons]
    simp only [quotedB, List.flatMap_nil, List.append_nil, escB, escChar, isCutB_ascii c hc, escArmB_ascii c hc]
    by_cases hcut : isCut c = true
    · have e := escArm_of_cut c hcut
      have hm := mem_of_lookup c (escChar c) Gen.ntEscapeArms e
      rw [if_pos hcut, if_pos hcut, e]
      simp only [Option.map_some, Option.getD_some]
      exact (utf8_ascii _ (arms_ascii _ _ hm).2).symm
    · rw [if_neg hcut, if_neg hcut, utf8_cons, enc_ascii c hc]; rfl
  · have hh : 128 ≤ c.toNat := by omega
    have : escChar c = [c] := by simp [escChar, isCut_high c hh]
    rw [this, utf8_cons]
    simp only [utf8, List.flatMap_nil, List.append_nil]
    exact quotedB_noncut _ (fun b hb => by simp [isCutB_high b (enc_high c hh b hb)])

/-- **every text**: escaping the bytes of its encoding = encoding its escaped form -/
theorem quotedB_utf8 (s : Str) : quotedB (utf8 s) = utf8 (quotedString s) := by
  induction s with
  | nil => rfl
  | cons c s ih => rw [utf8_cons, quotedB_append, ih, escB_char, quotedString_cons, utf8_append]

/-! ### the byte loop computes `quotedB` (same argument as `quotedLoop_eq`) -/

theorem quotedLoopB_eq : ∀ (fuel : Nat) (w txt : Bytes), txt.length < fuel →
    quotedLoopB fuel w txt = some (w ++ quotedB txt) := by
  intro fuel
  induction fuel with
  | zero => intro w txt h; omega
  | succ f ih =>
    intro w txt hlen
    have hsplit := List.takeWhile_append_dropWhile (p := fun c => !isCutB c) (l := txt)
    have hpre : quotedB (txt.takeWhile (fun c => !isCutB c)) = txt.takeWhile (fun c => !isCutB c) :=
      quotedB_noncut _ (fun c hc => mem_takeWhile _ _ c hc)
    unfold quotedLoopB
    cases hd : txt.dropWhile (fun c => !isCutB c) with
    | nil =>
      rw [hd, List.append_nil] at hsplit
      rw [hsplit] at hpre
      simp [hsplit, hpre]
    | cons c tl =>
      have hc : isCutB c = true := by simpa using dropWhile_head _ _ _ _ hd
      rw [hd] at hsplit
      have hq : quotedB txt = txt.takeWhile (fun c => !isCutB c) ++ escB c ++ quotedB tl := by
        conv => lhs; rw [← hsplit]
        rw [quotedB_append, hpre, quotedB_cons, List.append_assoc]
      simp only [escArmB_of_cut c hc, Option.map_some, List.length_cons, List.drop_succ_cons, List.drop_zero]
      by_cases htl : tl = []
      · subst htl
        rw [hq]; simp [quotedB]
      · have hl : tl.length < f := by
          have : txt.length = (txt.takeWhile (fun c => !isCutB c)).length + (tl.length + 1) := by
            conv => lhs; rw [← hsplit]
            simp
          omega
        have hpos : ¬ (tl.length + 1 ≤ 1) := by
          cases tl with
          | nil => exact absurd rfl htl
          | cons _ _ => simp
        rw [if_neg hpos, ih _ tl hl, hq]
        simp [List.append_assoc]

end SophiaProofs.NTB
