/-
C04, the emission layer: the four mutually recursive writers of `_pretty.rs` (`write_term`, `write_bnode`,
`write_properties`, `write_object`) only *advance* the subject table (no entry changes its (graph, subject), a
type only ever changes to `Done`, the graph range stays), `write_graph` hands every `Root` of its range to
`write_tree`, and the loop over the named graphs reaches the end of the table: at the end of `prettify` no `Root`
is left.
-/
import SophiaModel.Model.Pretty
import SophiaProofs.Lemmas.PrettyEmit
namespace SophiaProofs.Lemmas.PrettyWriter
open SophiaModel Pretty

/-- one entry after some writer steps: same (graph, subject); the type is unchanged or has become `done` -/
def EntAdv (e e' : STEntry) : Prop := e'.g = e.g ∧ e'.s = e.s ∧ (e'.st = e.st ∨ e'.st = .done)

/-- the subject table after some writer steps -/
def AdvS (s s' : List STEntry) : Prop :=
  s'.length = s.length ∧ ∀ (i : Nat) (e : STEntry), s[i]? = some e → ∃ e', s'[i]? = some e' ∧ EntAdv e e'

theorem EntAdv.refl (e : STEntry) : EntAdv e e := ⟨rfl, rfl, Or.inl rfl⟩

theorem EntAdv.trans {a b c : STEntry} (h1 : EntAdv a b) (h2 : EntAdv b c) : EntAdv a c := by
  obtain ⟨g1, s1, t1⟩ := h1
  obtain ⟨g2, s2, t2⟩ := h2
  refine ⟨g2.trans g1, s2.trans s1, ?_⟩
  rcases t2 with t2 | t2
  · rcases t1 with t1 | t1
    · exact Or.inl (t2.trans t1)
    · exact Or.inr (t2.trans t1)
  · exact Or.inr t2

theorem AdvS.refl (s : List STEntry) : AdvS s s := ⟨rfl, fun _ e he => ⟨e, he, EntAdv.refl e⟩⟩

theorem AdvS.trans {a b c : List STEntry} (h1 : AdvS a b) (h2 : AdvS b c) : AdvS a c := by
  refine ⟨h2.1.trans h1.1, fun i e he => ?_⟩
  obtain ⟨e', he', a1⟩ := h1.2 i e he
  obtain ⟨e'', he'', a2⟩ := h2.2 i e' he'
  exact ⟨e'', he'', a1.trans a2⟩

theorem AdvS.get {s s' : List STEntry} (h : AdvS s s') (i : Nat) (e : STEntry) (he : s[i]? = some e) :
    ∃ e', s'[i]? = some e' ∧ EntAdv e e' := h.2 i e he

/-! ### the deferred stack: bookkeeping that bounds the `while let Some(i) = self.deferred.pop()` loop -/

/-- a blank-node subject whose label is not (yet) in the labels added while writing -/
def notLab (labx : List Str) (e : STEntry) : Bool :=
  match e.s with
  | .bnode l => !labx.contains l
  | _ => false

/-- how many entries could still be deferred: every push adds the entry's label to `labx` -/
def mu (w : W) : Nat := (w.sts.filter (notLab w.labx)).length

/-- bound on the remaining iterations of the deferred loop -/
def cost (w : W) : Nat := w.deferred.length + mu w

/-- every index on the stack is an entry of the table whose blank-node label was added to `labx` when it was pushed,
and no index is on the stack twice -/
def Good (w : W) : Prop :=
  (∀ i ∈ w.deferred, ∃ e l, w.sts[i]? = some e ∧ e.s = Term.bnode l ∧ l ∈ w.labx) ∧ w.deferred.Nodup

theorem mu_le (w : W) : mu w ≤ w.sts.length := List.length_filter_le _ _

theorem filter_mapIdx_len {α : Type} (p : α → Bool) : ∀ (l : List α) (f : Nat → α → α), (∀ j a, p (f j a) = p a) →
    ((l.mapIdx f).filter p).length = (l.filter p).length
  | [], _, _ => by simp
  | a :: l, f, h => by
    rw [List.mapIdx_cons, List.filter_cons, List.filter_cons, h 0 a]
    have ih := filter_mapIdx_len p l (fun i => f (i + 1)) (fun j a => h (j + 1) a)
    split <;> simp [ih]

theorem filter_len_mono {α : Type} (p p' : α → Bool) (himp : ∀ x, p' x = true → p x = true) :
    ∀ l : List α, (l.filter p').length ≤ (l.filter p).length
  | [] => by simp
  | y :: ys => by
    have ih := filter_len_mono p p' himp ys
    by_cases h1 : p' y = true
    · have h2 := himp y h1
      simp only [List.filter_cons, h1, h2, ↓reduceIte, List.length_cons]
      omega
    · by_cases h2 : p y = true
      · simp only [List.filter_cons, h1, h2, ↓reduceIte, List.length_cons, Bool.false_eq_true]
        omega
      · simp only [List.filter_cons, h1, h2, Bool.false_eq_true, ↓reduceIte]
        exact ih

/-- a stricter filter that drops a counted element at some index counts at least one less -/
theorem filter_lt_of_drop {α : Type} (p p' : α → Bool) (himp : ∀ x, p' x = true → p x = true) :
    ∀ (l : List α) (i : Nat) (a : α),
    l[i]? = some a → p a = true → p' a = false → (l.filter p').length + 1 ≤ (l.filter p).length
  | [], _, _, h, _, _ => by simp at h
  | x :: l, i, a, h, hp, hp' => by
    cases i with
    | zero =>
      simp only [List.getElem?_cons_zero, Option.some.injEq] at h
      subst h
      have := filter_len_mono p p' himp l
      simp only [List.filter_cons, hp, hp', ↓reduceIte, List.length_cons, Bool.false_eq_true]
      omega
    | succ i =>
      simp only [List.getElem?_cons_succ] at h
      have ih := filter_lt_of_drop p p' himp l i a h hp hp'
      by_cases h1 : p' x = true
      · have h2 := himp x h1
        simp only [List.filter_cons, h1, h2, ↓reduceIte, List.length_cons]
        omega
      · by_cases h2 : p x = true
        · simp only [List.filter_cons, h1, h2, ↓reduceIte, List.length_cons, Bool.false_eq_true]
          omega
        · simp only [List.filter_cons, h1, h2, Bool.false_eq_true, ↓reduceIte]
          exact ih

theorem cmp_bnode_eq (t : Term) (l : Str) (h : Term.termCmp t (.bnode l) = .eq) : t = .bnode l := by
  cases t with
  | bnode a =>
    simp only [Term.termCmp] at h
    by_cases hal : a = l
    · rw [hal]
    · exact absurd h (SophiaProofs.strCmp_ne_of_ne hal)
  | _ => simp [Term.termCmp, Term.kind, Term.Kind.rank, Nat.compare_eq_ite_lt] at h

theorem findSt_spec (w : W) (t : Term) (i : Nat) (h : w.findSt t = some i) :
    ∃ e, w.sts[i]? = some e ∧ Term.termCmp e.s t = .eq := by
  unfold W.findSt at h
  have := List.find?_some h
  simp only [Bool.and_eq_true] at this
  have h3 := this.2
  split at h3
  · next e he => exact ⟨e, he, by simpa using h3⟩
  · cases h3

/-- the push at the nesting cap keeps the stack discipline and pays for itself -/
theorem push_good (w : W) (i : Nat) (l : Str) (hfind : w.findSt (.bnode l) = some i)
    (hl : w.labx.contains l = false) (hg : Good w) :
    Good { w with deferred := i :: w.deferred, labx := l :: w.labx } ∧
      cost { w with deferred := i :: w.deferred, labx := l :: w.labx } ≤ cost w := by
  obtain ⟨e, he, hcmp⟩ := findSt_spec w _ i hfind
  have hes : e.s = .bnode l := cmp_bnode_eq _ _ hcmp
  refine ⟨⟨?_, ?_⟩, ?_⟩
  · intro j hj
    rcases List.mem_cons.mp hj with rfl | hj'
    · exact ⟨e, l, he, hes, List.mem_cons_self⟩
    · obtain ⟨e', l', he', hs', hl'⟩ := hg.1 j hj'
      exact ⟨e', l', he', hs', List.mem_cons_of_mem _ hl'⟩
  · refine List.nodup_cons.mpr ⟨?_, hg.2⟩
    intro hi
    obtain ⟨e', l', he', hs', hl'⟩ := hg.1 i hi
    rw [he] at he'
    cases he'
    rw [hes] at hs'
    cases hs'
    have : w.labx.contains l = true := List.contains_iff_mem.mpr hl'
    rw [hl] at this
    cases this
  · show (i :: w.deferred).length + (w.sts.filter (notLab (l :: w.labx))).length ≤ w.deferred.length + (w.sts.filter (notLab w.labx)).length
    have hdrop := filter_lt_of_drop (notLab w.labx) (notLab (l :: w.labx)) (by
        intro x hx
        unfold notLab at hx ⊢
        split at hx
        · next l2 hl2 =>
          simp only [List.contains_cons, Bool.not_or, Bool.and_eq_true] at hx
          exact hx.2
        · cases hx) w.sts i e he
      (by unfold notLab; rw [hes]; simp only [hl]; rfl)
      (by unfold notLab; rw [hes]; simp)
    simp only [List.length_cons]
    omega

/-- writer state after some steps: subject table advanced, graph range unchanged -/
structure Adv (w w' : W) : Prop where
  sts : AdvS w.sts w'.sts
  lo : w'.lo = w.lo
  hi : w'.hi = w.hi
  /-- the writers only ever push onto `deferred` -/
  dsuf : ∃ pre, w'.deferred = pre ++ w.deferred
  /-- `fault` is never cleared -/
  flt : w.fault = true → w'.fault = true
  /-- the stack discipline is kept and the loop bound does not grow -/
  good : Good w → Good w' ∧ cost w' ≤ cost w

theorem Adv.refl (w : W) : Adv w w := ⟨AdvS.refl _, rfl, rfl, ⟨[], rfl⟩, fun h => h, fun h => ⟨h, Nat.le_refl _⟩⟩
theorem Adv.trans {a b c : W} (h1 : Adv a b) (h2 : Adv b c) : Adv a c := by
  refine ⟨h1.sts.trans h2.sts, h2.lo.trans h1.lo, h2.hi.trans h1.hi, ?_, fun h => h2.flt (h1.flt h), ?_⟩
  · obtain ⟨p1, e1⟩ := h1.dsuf
    obtain ⟨p2, e2⟩ := h2.dsuf
    exact ⟨p2 ++ p1, by rw [e2, e1, List.append_assoc]⟩
  · intro hg
    obtain ⟨g1, c1⟩ := h1.good hg
    obtain ⟨g2, c2⟩ := h2.good g1
    exact ⟨g2, Nat.le_trans c2 c1⟩

/-- the same without the claim on `deferred` (`write_graph` pops what the writers pushed) -/
structure Adv0 (w w' : W) : Prop where
  sts : AdvS w.sts w'.sts
  lo : w'.lo = w.lo
  hi : w'.hi = w.hi
  flt : w.fault = true → w'.fault = true

theorem Adv.weak {a b : W} (h : Adv a b) : Adv0 a b := ⟨h.sts, h.lo, h.hi, h.flt⟩
theorem Adv0.refl (w : W) : Adv0 w w := (Adv.refl w).weak
theorem Adv0.trans {a b c : W} (h1 : Adv0 a b) (h2 : Adv0 b c) : Adv0 a c :=
  ⟨h1.sts.trans h2.sts, h2.lo.trans h1.lo, h2.hi.trans h1.hi, fun h => h2.flt (h1.flt h)⟩

/-- a step that does not touch the table, the range and the deferred stack, and does not clear `fault` -/
theorem Adv.of_eq {w w' : W} (h1 : w'.sts = w.sts) (h2 : w'.lo = w.lo) (h3 : w'.hi = w.hi)
    (h4 : w'.deferred = w.deferred := by rfl) (h5 : w.fault = true → w'.fault = true := by exact fun h => h)
    (h6 : w'.labx = w.labx := by rfl) : Adv w w' :=
  ⟨by rw [h1]; exact AdvS.refl _, h2, h3, ⟨[], by rw [h4]; rfl⟩, h5, fun hg => by
    unfold Good cost mu at *
    rw [h1, h4, h6]
    exact ⟨hg, Nat.le_refl _⟩⟩

theorem adv_write (w : W) (s : Str) : Adv w (w.write s) := Adv.of_eq rfl rfl rfl
theorem adv_writeS (w : W) (s : String) : Adv w (w.writeS s) := Adv.of_eq rfl rfl rfl
theorem adv_newline (w : W) : Adv w w.newline := Adv.of_eq rfl rfl rfl
theorem adv_more (w : W) (env : Env) : Adv w (w.more env) := Adv.of_eq rfl rfl rfl
theorem adv_less (w : W) (env : Env) : Adv w (w.less env) := Adv.of_eq rfl rfl rfl
theorem adv_fault (w : W) : Adv w { w with fault := true } := Adv.of_eq rfl rfl rfl rfl (fun _ => rfl)
theorem adv_noteIri (w : W) (p : Pos) (s : Str) : Adv w (w.noteIri p s) := by
  unfold W.noteIri; split <;> exact Adv.of_eq rfl rfl rfl
theorem adv_noteLit (w : W) (t : Term) : Adv w (w.noteLit t) := by
  unfold W.noteLit
  split
  · split
    · split <;> exact Adv.of_eq rfl rfl rfl
    · split
      · exact adv_noteIri _ _ _
      · exact Adv.refl _
  · exact Adv.refl _

theorem advS_setDone (s : List STEntry) (i : Nat) :
    AdvS s (s.mapIdx (fun j e => if j == i then { e with st := .done } else e)) := by
  refine ⟨by simp, fun j e he => ?_⟩
  simp only [List.getElem?_mapIdx, he, Option.map_some]
  by_cases hj : (j == i) = true
  · simp only [hj, ↓reduceIte]
    exact ⟨_, rfl, rfl, rfl, Or.inr rfl⟩
  · simp only [hj]
    exact ⟨_, rfl, EntAdv.refl e⟩

theorem adv_setDone (w : W) (i : Nat) : Adv w (w.setDone i) := by
  refine ⟨advS_setDone w.sts i, rfl, rfl, ⟨[], rfl⟩, fun h => h, fun hg => ⟨⟨?_, hg.2⟩, ?_⟩⟩
  · intro j hj
    obtain ⟨e, l, he, hs, hl⟩ := hg.1 j hj
    obtain ⟨e', he', hadv⟩ := (advS_setDone w.sts i).2 j e he
    exact ⟨e', l, he', hadv.2.1.trans hs, hl⟩
  · show (w.setDone i).deferred.length + mu (w.setDone i) ≤ w.deferred.length + mu w
    have : mu (w.setDone i) = mu w := by
      unfold mu W.setDone
      exact filter_mapIdx_len _ _ _ (fun j a => by
        unfold notLab
        by_cases h : (j == i) = true <;> simp [h])
    rw [this]
    exact Nat.le_refl _

theorem adv_foldl {α : Type} (g : W → α → W) (h : ∀ w x, Adv w (g w x)) (xs : List α) (w : W) :
    Adv w (xs.foldl g w) := by
  induction xs generalizing w with
  | nil => exact Adv.refl w
  | cons x xs ih => exact (h w x).trans (ih _)

theorem adv_foldl2 {α β : Type} (g : W × β → α → W × β) (h : ∀ a x, Adv a.1 (g a x).1) (xs : List α) (a : W × β) :
    Adv a.1 (xs.foldl g a).1 := by
  induction xs generalizing a with
  | nil => exact Adv.refl _
  | cons x xs ih => exact (h a x).trans (ih _)

/-- the four mutually recursive writers only advance the state -/
def WritersAdv (env : Env) (f : Nat) : Prop :=
  (∀ w pos t, Adv w (writeTerm env f w pos t)) ∧ (∀ w t, Adv w (writeBnode env f w t)) ∧
  (∀ w s, Adv w (writeProperties env f w s)) ∧ (∀ w s p o, Adv w (writeObject env f w s p o))

theorem writers_adv (env : Env) : ∀ f, WritersAdv env f
  | 0 => by
    refine ⟨?_, ?_, ?_, ?_⟩ <;> intros <;> simp only [writeTerm, writeBnode, writeProperties, writeObject] <;> exact adv_fault _
  | f + 1 => by
    obtain ⟨hT, hB, hP, hO⟩ := writers_adv env f
    refine ⟨?_, ?_, ?_, ?_⟩
    · intro w pos t
      cases t with
      | iri s => simp only [writeTerm]; exact (adv_write _ _).trans (adv_noteIri _ _ _)
      | bnode l => simp only [writeTerm]; exact hB _ _
      | lit l d => simp only [writeTerm]; exact (adv_write _ _).trans (adv_noteLit _ _)
      | lang l g => simp only [writeTerm]; exact adv_write _ _
      | var v => simp only [writeTerm]; exact adv_write _ _
      | triple a b c =>
        simp only [writeTerm]
        exact (adv_writeS _ _).trans ((hT _ _ _).trans ((adv_writeS _ _).trans ((hT _ _ _).trans
          ((adv_writeS _ _).trans ((hT _ _ _).trans ((adv_writeS _ _).trans (adv_writeS _ _)))))))
    · intro w t
      simp only [writeBnode]
      split
      · next items ls _ =>
        refine Adv.trans (b := ((({ w with lists := ls } : W).writeS "(").more env)) ?_ ?_
        · exact (Adv.of_eq (w := w) (w' := { w with lists := ls }) rfl rfl rfl).trans ((adv_writeS _ _).trans (adv_more _ _))
        · refine Adv.trans (adv_foldl (fun w item => writeTerm env f w.newline .node item)
            (fun w item => (adv_newline w).trans (hT _ _ _)) items _) ?_
          exact (adv_less _ _).trans ((adv_newline _).trans (adv_writeS _ _))
      · split
        · split
          · exact adv_write _ _
          · exact Adv.refl _
        · split
          · split
            · next e _ =>
              split
              · split
                · split
                  · refine Adv.trans ?_ (adv_write _ _)
                    refine ⟨AdvS.refl _, rfl, rfl, ⟨[_], rfl⟩, fun h => h, ?_⟩
                    rename_i hnl hfind
                    refine push_good w _ _ hfind ?_
                    simp only [Bool.or_eq_true, not_or, isLabelled] at hnl
                    simpa using hnl.2
                  · exact Adv.refl _
                · have h1 : Adv w (({ w with nesting := w.nesting + 1 } : W).writeS "[") :=
                    (Adv.of_eq (w := w) (w' := { w with nesting := w.nesting + 1 }) rfl rfl rfl).trans (adv_writeS _ _)
                  have h2 := hP (({ w with nesting := w.nesting + 1 } : W).writeS "[") e.s
                  exact h1.trans (h2.trans ((Adv.of_eq
                    (w := writeProperties env f (({ w with nesting := w.nesting + 1 } : W).writeS "[") e.s)
                    (w' := { (writeProperties env f (({ w with nesting := w.nesting + 1 } : W).writeS "[") e.s) with
                      nesting := (writeProperties env f (({ w with nesting := w.nesting + 1 } : W).writeS "[") e.s).nesting - 1 })
                    rfl rfl rfl).trans ((adv_writeS _ _).trans (adv_setDone _ _))))
              · exact adv_writeS _ _
              · exact Adv.refl _
            · exact Adv.refl _
          · exact adv_writeS _ _
    · intro w s
      simp only [writeProperties]
      have key : ∀ (step : W × Option Term → Quad → W × Option Term) (init : W × Option Term) (qs : List Quad),
          (∀ a x, Adv a.1 (step a x).1) → Adv w init.1 →
          Adv w ((if (qs.foldl step init).2.isSome = true then (qs.foldl step init).1.less env
                  else (qs.foldl step init).1).less env) := by
        intro step init qs hs hi
        have h1 : Adv w (qs.foldl step init).1 := hi.trans (adv_foldl2 step hs qs init)
        split
        · exact h1.trans ((adv_less _ _).trans (adv_less _ _))
        · exact h1.trans (adv_less _ _)
      refine key _ _ _ ?_ ?_
      · intro a x
        split
        · exact Adv.refl _
        · split
          · split
            · exact (adv_writeS _ _).trans ((adv_newline _).trans (hO _ _ _ _))
            · exact (adv_writeS _ _).trans ((adv_less _ _).trans ((adv_newline _).trans ((hT _ _ _).trans
                ((adv_writeS _ _).trans ((adv_more _ _).trans (hO _ _ _ _))))))
          · exact (adv_newline _).trans ((hT _ _ _).trans ((adv_writeS _ _).trans ((adv_more _ _).trans (hO _ _ _ _))))
      · dsimp only
        split
        · exact adv_more _ _
        · next t0 more _ =>
          have h0 : Adv w (writeObject env f (((w.more env).writeS " a ").more env) s t0.p t0.o) :=
            (adv_more w env).trans ((adv_writeS _ " a ").trans ((adv_more _ env).trans (hO _ _ _ _)))
          refine h0.trans ?_
          exact adv_foldl (fun w t => writeObject env f (w.writeS ",").newline s t0.p t.o)
            (fun w t => (adv_writeS _ _).trans ((adv_newline _).trans (hO _ _ _ _))) more _
    · intro w s p o
      simp only [writeObject]
      refine (hT w .node o).trans ?_
      split
      · split
        · split
          · exact (adv_writeS _ _).trans ((hP _ _).trans ((adv_writeS _ _).trans (adv_setDone _ _)))
          · exact Adv.refl _
        · exact Adv.refl _
      · exact Adv.refl _

theorem adv_writeTree (env : Env) (fuel : Nat) (w : W) (root : Term) : Adv w (writeTree env fuel w root) := by
  obtain ⟨hT, _, hP, _⟩ := writers_adv env fuel
  unfold writeTree
  exact (adv_newline _).trans ((hT _ _ _).trans ((hP _ _).trans (adv_writeS _ _)))

/-- one iteration of the `for i in self.graph_range` loop of `write_graph` -/
def graphStep (env : Env) (fuel : Nat) (w : W) (i : Nat) : W :=
  match w.sts[i]? with
  | some e => if e.st == .root then (writeTree env fuel w e.s).setDone i else w
  | none => w

theorem adv_graphStep (env : Env) (fuel : Nat) (w : W) (i : Nat) : Adv w (graphStep env fuel w i) := by
  unfold graphStep
  split
  · split
    · exact (adv_writeTree _ _ _ _).trans (adv_setDone _ _)
    · exact Adv.refl _
  · exact Adv.refl _

/-- entry `i` is `Done` -/
def DoneAt (w : W) (i : Nat) (s : Term) : Prop := ∃ e, w.sts[i]? = some e ∧ e.st = .done ∧ e.s = s

theorem DoneAt.adv {w w' : W} {i : Nat} {s : Term} (h : DoneAt w i s) (a : Adv0 w w') : DoneAt w' i s := by
  obtain ⟨e, he, hd, hs⟩ := h
  obtain ⟨e', he', _, hs', ht⟩ := a.sts.get i e he
  refine ⟨e', he', ?_, hs'.trans hs⟩
  rcases ht with ht | ht
  · exact ht.trans hd
  · exact ht

theorem doneAt_setDone (w : W) (i : Nat) (e : STEntry) (he : w.sts[i]? = some e) : DoneAt (w.setDone i) i e.s := by
  refine ⟨{ e with st := .done }, ?_, rfl, rfl⟩
  simp [W.setDone, List.getElem?_mapIdx, he]

theorem graphStep_done (env : Env) (fuel : Nat) (w : W) (i : Nat) (e : STEntry) (he : w.sts[i]? = some e)
    (hst : e.st = .root ∨ e.st = .done) : DoneAt (graphStep env fuel w i) i e.s := by
  unfold graphStep
  rw [he]
  dsimp only
  rcases hst with hst | hst
  · have : (e.st == SubjectType.root) = true := by rw [hst]; rfl
    rw [if_pos this]
    obtain ⟨e', he', _, hs', _⟩ := (adv_writeTree env fuel w e.s).sts.get i e he
    have := doneAt_setDone (writeTree env fuel w e.s) i e' he'
    rw [hs'] at this
    exact this
  · have : (e.st == SubjectType.root) = false := by rw [hst]; rfl
    rw [this]
    exact ⟨e, he, hst, rfl⟩

theorem foldl_graphStep (env : Env) (fuel : Nat) (idxs : List Nat) (w : W) :
    Adv w (idxs.foldl (graphStep env fuel) w) ∧
    ∀ i ∈ idxs, ∀ e, w.sts[i]? = some e → (e.st = .root ∨ e.st = .done) →
      DoneAt (idxs.foldl (graphStep env fuel) w) i e.s := by
  induction idxs generalizing w with
  | nil => exact ⟨Adv.refl _, fun _ h => by cases h⟩
  | cons j rest ih =>
    obtain ⟨ha, hd⟩ := ih (graphStep env fuel w j)
    have hj := adv_graphStep env fuel w j
    refine ⟨hj.trans ha, ?_⟩
    intro i hi e he hst
    by_cases hij : i = j
    · subst hij
      exact (graphStep_done env fuel w i e he hst).adv ha.weak
    · have hi' : i ∈ rest := by
        rcases List.mem_cons.mp hi with h | h
        · exact absurd h hij
        · exact h
      obtain ⟨e', he', _, hs', ht⟩ := hj.sts.get i e he
      have hst' : e'.st = .root ∨ e'.st = .done := by
        rcases ht with ht | ht
        · rw [ht]; exact hst
        · exact Or.inr ht
      have := hd i hi' e' he' hst'
      rw [hs'] at this
      exact this

theorem writeRoots_eq (env : Env) (fuel : Nat) (w : W) :
    writeRoots env fuel w = ((List.range w.hi).filter (fun i => w.lo ≤ i)).foldl (graphStep env fuel) w := rfl

theorem adv_writeRoots (env : Env) (fuel : Nat) (w : W) : Adv w (writeRoots env fuel w) := by
  rw [writeRoots_eq]
  exact (foldl_graphStep env fuel _ w).1

/-- the `while let Some(i) = self.deferred.pop()` loop only advances the state (it pops, hence the weak relation) -/
theorem adv0_drain (env : Env) (fuel : Nat) : ∀ (n : Nat) (w : W), Adv0 w (drainDeferred env fuel n w)
  | 0, w => by
    unfold drainDeferred
    split
    · exact Adv0.refl _
    · exact (adv_fault w).weak
  | n + 1, w => by
    unfold drainDeferred
    split
    · exact Adv0.refl _
    · next i rest _ =>
      dsimp only
      split
      · next e _ =>
        have a0 : Adv0 w { w with deferred := rest } := ⟨AdvS.refl _, rfl, rfl, fun h => h⟩
        exact a0.trans ((((adv_writeTree env fuel _ e.s).trans (adv_setDone _ i)).weak).trans (adv0_drain env fuel n _))
      · exact ⟨AdvS.refl _, rfl, rfl, fun _ => rfl⟩

theorem good_of_empty (w : W) (h : w.deferred = []) : Good w := by
  refine ⟨?_, ?_⟩
  · rw [h]; intro i hi; cases hi
  · rw [h]; exact List.nodup_nil

theorem cost_le_of_empty (w : W) (h : w.deferred = []) : cost w ≤ w.sts.length := by
  show w.deferred.length + mu w ≤ w.sts.length
  rw [h]
  simpa using mu_le w

/-- the deferred loop, from a state that keeps the stack discipline (`Good`) and whose bound covers the remaining
work (`cost w < n`): it never gives up (neither the iteration bound nor an index outside the table is met), it ends
with an empty stack, and every entry that was on the stack — each handed to `write_tree` — is `Done` -/
theorem drain_total (env : Env) (fuel : Nat) : ∀ (n : Nat) (w : W), Good w → cost w < n →
    (drainDeferred env fuel n w).deferred = [] ∧
      ∀ i ∈ w.deferred, ∀ e, w.sts[i]? = some e → DoneAt (drainDeferred env fuel n w) i e.s
  | 0, _, _, hc => by omega
  | n + 1, w, hg, hc => by
    unfold drainDeferred
    split
    · next hd => exact ⟨hd, by rw [hd]; intro i hi; cases hi⟩
    · next i rest hd =>
      dsimp only
      have hg0 : Good { w with deferred := rest } := by
        refine ⟨fun j hj => ?_, ?_⟩
        · exact hg.1 j (by rw [hd]; exact List.mem_cons_of_mem _ hj)
        · have := hg.2
          rw [hd] at this
          exact (List.nodup_cons.mp this).2
      have hc0 : cost { w with deferred := rest } + 1 = cost w := by
        show rest.length + mu { w with deferred := rest } + 1 = w.deferred.length + mu w
        have : mu { w with deferred := rest } = mu w := rfl
        rw [this, hd, List.length_cons]
        omega
      obtain ⟨e, l, he, _, _⟩ := hg.1 i (by rw [hd]; exact List.mem_cons_self)
      have he0 : ({ w with deferred := rest } : W).sts[i]? = some e := he
      rw [he0]
      dsimp only
      have hw : Adv { w with deferred := rest } ((writeTree env fuel { w with deferred := rest } e.s).setDone i) :=
        (adv_writeTree env fuel _ e.s).trans (adv_setDone _ i)
      have hdone : DoneAt ((writeTree env fuel { w with deferred := rest } e.s).setDone i) i e.s := by
        obtain ⟨e', he', _, hs', _⟩ := (adv_writeTree env fuel { w with deferred := rest } e.s).sts.get i e he0
        have := doneAt_setDone (writeTree env fuel { w with deferred := rest } e.s) i e' he'
        rw [hs'] at this
        exact this
      obtain ⟨hg1, hc1⟩ := hw.good hg0
      obtain ⟨hemp, hall⟩ := drain_total env fuel n _ hg1 (by omega)
      refine ⟨hemp, ?_⟩
      intro j hj ej hej
      rw [hd] at hj
      by_cases hji : j = i
      · subst hji
        rw [he] at hej
        cases hej
        exact hdone.adv (adv0_drain env fuel n _)
      · have hjr : j ∈ rest := by
          rcases List.mem_cons.mp hj with h | h
          · exact absurd h hji
          · exact h
        obtain ⟨pre, hpre⟩ := hw.dsuf
        have hj1 : j ∈ ((writeTree env fuel { w with deferred := rest } e.s).setDone i).deferred := by
          rw [hpre]; exact List.mem_append_right _ hjr
        obtain ⟨e1, he1, _, hs1, _⟩ := hw.sts.get j ej hej
        have := hall j hj1 e1 he1
        rw [hs1] at this
        exact this

theorem adv_writeGraph (env : Env) (fuel : Nat) (w : W) : Adv0 w (writeGraph env fuel w) := by
  unfold writeGraph
  exact (adv_writeRoots env fuel w).weak.trans (adv0_drain env fuel _ _)

/-- `write_graph`: every `Root` of the current graph's range is handed to `write_tree` and marked `Done`
(`Done` entries stay `Done`, nothing else about the table changes) -/
theorem writeGraph_roots_done (env : Env) (fuel : Nat) (w : W) (i : Nat) (e : STEntry)
    (hlo : w.lo ≤ i) (hhi : i < w.hi) (he : w.sts[i]? = some e) (hst : e.st = .root) :
    DoneAt (writeGraph env fuel w) i e.s := by
  have h1 : DoneAt (writeRoots env fuel w) i e.s := by
    rw [writeRoots_eq]
    refine (foldl_graphStep env fuel _ w).2 i ?_ e he (Or.inl hst)
    simp [List.mem_filter, hlo, hhi]
  unfold writeGraph
  exact h1.adv (adv0_drain env fuel _ _)

/-- `write_graph` from a state with an empty deferred stack, and the blank nodes deferred at the nesting cap:
nothing is left on the stack, and every entry deferred while the Roots were written (and, through `drain_total`,
while deferred trees were written) is `Done`: it was described by a `write_tree` of its own.  No `fault` escape:
the loop's iteration bound `sts.length + 1` is proved sufficient and every stacked index is inside the table. -/
theorem writeGraph_deferred_done (env : Env) (fuel : Nat) (w : W) (h0 : w.deferred = []) :
    (writeGraph env fuel w).deferred = [] ∧
      ∀ i ∈ (writeRoots env fuel w).deferred, ∀ e, (writeRoots env fuel w).sts[i]? = some e →
        DoneAt (writeGraph env fuel w) i e.s := by
  have hg : Good w := good_of_empty w h0
  have hc : cost w ≤ w.sts.length := cost_le_of_empty w h0
  have ha := adv_writeRoots env fuel w
  obtain ⟨hg1, hc1⟩ := ha.good hg
  have hlen : (writeRoots env fuel w).sts.length = w.sts.length := ha.sts.1
  unfold writeGraph
  exact drain_total env fuel _ _ hg1 (by omega)

/-- no `Root` is left among the first `w.hi` entries of the subject table -/
def NoRootBelow (w : W) : Prop := ∀ (i : Nat) (e : STEntry), i < w.hi → w.sts[i]? = some e → e.st ≠ .root

theorem not_root_adv {e e' : STEntry} (h : EntAdv e e') (hn : e.st ≠ .root) : e'.st ≠ .root := by
  rcases h.2.2 with h | h
  · rw [h]; exact hn
  · rw [h]; intro c; cases c

/-- after `write_graph` on the range `[lo, hi)` no `Root` is left below `hi`, if none was left below `lo` -/
theorem writeGraph_noRoot (env : Env) (fuel : Nat) (w : W)
    (h : ∀ (i : Nat) (e : STEntry), i < w.lo → w.sts[i]? = some e → e.st ≠ .root) : NoRootBelow (writeGraph env fuel w) := by
  intro i e' hi he'
  have ha := adv_writeGraph env fuel w
  rw [ha.hi] at hi
  have hlen := ha.sts.1
  have hi_lt : i < w.sts.length := by
    have := (List.getElem?_eq_some_iff.mp he').1
    omega
  obtain ⟨e, he⟩ : ∃ e, w.sts[i]? = some e := ⟨w.sts[i], List.getElem?_eq_getElem hi_lt⟩
  obtain ⟨e'', he'', hadv⟩ := ha.sts.get i e he
  rw [he'] at he''
  cases he''
  by_cases hlo : i < w.lo
  · exact not_root_adv hadv (h i e hlo he)
  · by_cases hr : e.st = .root
    · obtain ⟨d, hd, hdone, _⟩ := writeGraph_roots_done env fuel w i e (by omega) hi he hr
      rw [he'] at hd
      cases hd
      rw [hdone]; intro c; cases c
    · exact not_root_adv hadv hr

theorem noRoot_of_adv {w w' : W} (a : Adv0 w w') (h : NoRootBelow w) : NoRootBelow w' := by
  intro i e' hi he'
  rw [a.hi] at hi
  have hi_lt : i < w.sts.length := by
    have := (List.getElem?_eq_some_iff.mp he').1
    have := a.sts.1
    omega
  obtain ⟨e'', he'', hadv⟩ := a.sts.get i _ (List.getElem?_eq_getElem hi_lt)
  rw [he'] at he''
  cases he''
  exact not_root_adv hadv (h i _ hi (List.getElem?_eq_getElem hi_lt))

/-- the loop over the named graphs only advances the subject table -/
theorem namedGraphs_advS (env : Env) (fuel : Nat) : ∀ (n : Nat) (w : W), AdvS w.sts (writeNamedGraphs env fuel n w).sts
  | 0, w => by unfold writeNamedGraphs; exact AdvS.refl _
  | n + 1, w => by
    unfold writeNamedGraphs
    split
    · exact AdvS.refl _
    · dsimp only
      split
      · exact AdvS.refl _
      · next g _ =>
        have hT := (writers_adv env fuel).1
        refine AdvS.trans ?_ (namedGraphs_advS env fuel n _)
        let c := ((w.sts.drop w.hi).takeWhile (fun e => gEq (match w.sts[w.hi]? with | some e => e.g | none => none) e.g)).length
        let W1 : W := { w with lo := w.hi, hi := w.hi + c }
        have a : Adv0 W1 ((((writeGraph env fuel (((writeTerm env fuel (W1.newline.writeS "GRAPH ") .other g).writeS " {").more env)).less env)).writeS "}\n") :=
          ((adv_newline _).trans ((adv_writeS _ _).trans ((hT _ _ _).trans ((adv_writeS _ _).trans (adv_more _ _))))).weak.trans
            ((adv_writeGraph env fuel _).trans ((adv_less _ _).trans (adv_writeS _ _)).weak)
        exact a.sts

/-! ### the default graph comes first: the loop over the named graphs never meets `None` -/

/-- the entries without graph name (default graph) form a prefix of the list -/
def NonePrefix {α : Type} (g : α → GName) : List α → Prop
  | [] => True
  | x :: xs => (g x = none ∨ ∀ y ∈ xs, g y ≠ none) ∧ NonePrefix g xs

theorem nonePrefix_sublist {α : Type} (g : α → GName) {l l' : List α} (h : List.Sublist l' l) (hp : NonePrefix g l) :
    NonePrefix g l' := by
  induction h with
  | slnil => trivial
  | cons a _ ih => exact ih hp.2
  | cons_cons a hs ih =>
    refine ⟨?_, ih hp.2⟩
    rcases hp.1 with h1 | h1
    · exact Or.inl h1
    · exact Or.inr (fun y hy => h1 y (hs.subset hy))

theorem nonePrefix_map {α β : Type} (g : β → GName) (f : α → β) (l : List α) (hp : NonePrefix (fun a => g (f a)) l) :
    NonePrefix g (l.map f) := by
  induction l with
  | nil => trivial
  | cons x xs ih =>
    refine ⟨?_, ih hp.2⟩
    rcases hp.1 with h1 | h1
    · exact Or.inl h1
    · refine Or.inr (fun y hy => ?_)
      obtain ⟨a, ha, rfl⟩ := List.mem_map.mp hy
      exact h1 a ha

theorem quadCmp_none_some (a b : Quad) (ha : a.g = none) (hb : b.g ≠ none) : quadCmp a b = .lt := by
  unfold quadCmp
  cases hgb : b.g with
  | none => exact absurd hgb hb
  | some y => rw [ha]; rfl

theorem quadCmp_some_none (a b : Quad) (ha : a.g ≠ none) (hb : b.g = none) : quadCmp a b = .gt := by
  unfold quadCmp
  cases hga : a.g with
  | none => exact absurd hga ha
  | some y => rw [hb]; rfl

theorem insertQuad_nonePrefix (q : Quad) (d : List Quad) (hp : NonePrefix (·.g) d) : NonePrefix (·.g) (insertQuad q d) := by
  induction d with
  | nil => exact ⟨Or.inr (fun _ h => by cases h), trivial⟩
  | cons x xs ih =>
    unfold insertQuad
    split
    · next hlt =>
      -- q goes in front of x
      refine ⟨?_, hp⟩
      by_cases hq : q.g = none
      · exact Or.inl hq
      · refine Or.inr (fun y hy => ?_)
        -- x has a graph name (otherwise quadCmp q x = gt), hence so has everything behind it
        have hx : x.g ≠ none := by
          intro hx
          rw [quadCmp_some_none q x hq hx] at hlt
          cases hlt
        rcases List.mem_cons.mp hy with rfl | hy'
        · exact hx
        · rcases hp.1 with h1 | h1
          · exact absurd h1 hx
          · exact h1 y hy'
    · exact hp
    · next hgt =>
      refine ⟨?_, ih hp.2⟩
      rcases hp.1 with h1 | h1
      · exact Or.inl h1
      · -- x has a graph name, so has q (otherwise quadCmp q x = lt)
        by_cases hx : x.g = none
        · exact Or.inl hx
        · refine Or.inr (fun y hy => ?_)
          rcases SophiaProofs.Lemmas.PrettyEmit.insertQuad_sub q y xs hy with rfl | hy'
          · intro hq
            rw [quadCmp_none_some y x hq hx] at hgt
            cases hgt
          · exact h1 y hy'

theorem mkDataset_nonePrefix (qs : List Quad) : NonePrefix (·.g) (mkDataset qs) := by
  unfold mkDataset
  suffices h : ∀ d, NonePrefix (·.g) d → NonePrefix (·.g) (qs.foldl (fun d q => insertQuad q d) d) from h [] trivial
  induction qs with
  | nil => exact fun d h => h
  | cons q qs ih => exact fun d h => ih _ (insertQuad_nonePrefix q d h)

theorem dedupGS_sublist : ∀ l : List (GName × Term), List.Sublist (dedupGS l) l
  | [] => by simp [dedupGS]
  | [a] => by simp [dedupGS]
  | a :: b :: rest => by
    unfold dedupGS
    split
    · exact (dedupGS_sublist (b :: rest)).cons a
    · exact (dedupGS_sublist (b :: rest)).cons_cons a

theorem subjectTypes_nonePrefix (qs : List Quad) (lab : List Str) :
    NonePrefix (·.g) (buildSubjectTypes (mkDataset qs) lab) := by
  unfold buildSubjectTypes
  apply nonePrefix_map
  apply nonePrefix_sublist _ (dedupGS_sublist _)
  apply nonePrefix_map
  exact mkDataset_nonePrefix qs

theorem stRemove_sublist (sts : List STEntry) (g : GName) (s : Term) : List.Sublist (stRemove sts g s) sts :=
  List.filter_sublist

theorem phase1_sublist (d : List Quad) (sts : List STEntry) : List.Sublist (listsPhase1 d sts).sts sts := by
  unfold listsPhase1
  suffices h : ∀ (l : List Quad) (acc : ListsAcc), List.Sublist acc.sts sts →
      List.Sublist (l.foldl (fun acc q =>
        if stGet acc.sts q.g q.s != some .subTree then acc
        else if isIriOf rdfNil q.o then
          (match listItem q.s d with
           | some val => { acc with seeds := acc.seeds ++ [⟨q.g, q.s, [val]⟩], sts := stRemove acc.sts q.g q.s }
           | none => acc)
        else if isBnode q.o then { acc with preds := predsToggle acc.preds q.o q.s }
        else acc) acc).sts sts from h _ _ (List.Sublist.refl _)
  intro l
  induction l with
  | nil => exact fun acc h => h
  | cons q l ih =>
    intro acc h
    apply ih
    dsimp only
    split
    · exact h
    · split
      · split
        · exact (stRemove_sublist _ _ _).trans h
        · exact h
      · split
        · exact h
        · exact h

theorem walkBack_sublist (d : List Quad) (preds : Preds) (g : GName) : ∀ (fuel : Nat) (bn : Term) (items : List Term)
    (sts : List STEntry) (r : Term × List Term × List STEntry),
    walkBack d preds g fuel bn items sts = some r → List.Sublist r.2.2 sts
  | 0, _, _, _, _, h => by simp [walkBack] at h
  | fuel + 1, bn, items, sts, r, h => by
    unfold walkBack at h
    split at h
    · split at h
      · exact (walkBack_sublist d preds g fuel _ _ _ r h).trans (stRemove_sublist _ _ _)
      · cases h; exact List.Sublist.refl _
    · cases h; exact List.Sublist.refl _

theorem buildLists_sublist (d : List Quad) (sts0 : List STEntry) (lists : Lists) (sts : List STEntry)
    (h : buildLists d sts0 = some (lists, sts)) : List.Sublist sts sts0 := by
  unfold buildLists at h
  dsimp only at h
  suffices hs : ∀ (seeds : List Seed) (st : Option (Lists × List STEntry)) (r : Lists × List STEntry),
      (∀ x, st = some x → List.Sublist x.2 sts0) →
      seeds.foldl (fun (st : Option (Lists × List STEntry)) seed =>
        match st with
        | none => none
        | some (ls, sts) =>
          match walkBack d (listsPhase1 d sts0).preds seed.g ((listsPhase1 d sts0).preds.length + 1) seed.s seed.items sts with
          | none => none
          | some (head, items, sts') => some (listsInsert ls head items.reverse, sts')) st = some r →
      List.Sublist r.2 sts0 from
    hs _ _ (lists, sts) (fun x hx => by cases hx; exact phase1_sublist d sts0) h
  intro seeds
  induction seeds with
  | nil => exact fun st r hst h => hst r h
  | cons seed seeds ih =>
    intro st r hst h
    refine ih _ r ?_ h
    intro x hx
    dsimp only at hx
    split at hx
    · cases hx
    · next ls sts1 =>
      split at hx
      · cases hx
      · next head items sts' hw =>
        cases hx
        exact (walkBack_sublist d _ _ _ _ _ _ _ hw).trans (hst _ rfl)

theorem nonePrefix_idx {α : Type} (g : α → GName) : ∀ (l : List α), NonePrefix g l →
    ∀ (i j : Nat) (a b : α), i < j → l[i]? = some a → l[j]? = some b → g b = none → g a = none
  | [], _, _, _, _, _, _, h, _, _ => by simp at h
  | x :: xs, hp, i, j, a, b, hij, ha, hb, hn => by
    cases j with
    | zero => omega
    | succ j =>
      simp only [List.getElem?_cons_succ] at hb
      cases i with
      | zero =>
        simp only [List.getElem?_cons_zero, Option.some.injEq] at ha
        subst ha
        rcases hp.1 with h1 | h1
        · exact h1
        · exact absurd hn (h1 b (List.mem_of_getElem? hb))
      | succ i =>
        simp only [List.getElem?_cons_succ] at ha
        exact nonePrefix_idx g xs hp.2 i j a b (by omega) ha hb hn

theorem takeWhile_stop {α : Type} (p : α → Bool) : ∀ (l : List α) (a : α),
    l[(l.takeWhile p).length]? = some a → p a = false
  | [], _, h => by simp at h
  | x :: xs, a, h => by
    rw [List.takeWhile_cons] at h
    by_cases hx : p x = true
    · simp only [hx, ↓reduceIte, List.length_cons, List.getElem?_cons_succ] at h
      exact takeWhile_stop p xs a h
    · simp only [hx] at h
      simp only [Bool.false_eq_true, ↓reduceIte, List.length_nil, List.getElem?_cons_zero, Option.some.injEq] at h
      subst h
      simpa using hx

/-- behind the default graph's block every entry has a graph name -/
theorem named_after_upper (sts : List STEntry) (hp : NonePrefix (·.g) sts) (i : Nat) (e : STEntry)
    (hi : (sts.takeWhile (fun e => e.g.isNone)).length ≤ i) (he : sts[i]? = some e) : e.g ≠ none := by
  intro hn
  -- the entry at `upper` exists and has a graph name
  have hlt : i < sts.length := (List.getElem?_eq_some_iff.mp he).1
  have hu : (sts.takeWhile (fun e => e.g.isNone)).length < sts.length := by omega
  have hfirst : (sts[(sts.takeWhile (fun e => e.g.isNone)).length]'hu).g.isNone = false :=
    takeWhile_stop (fun e : STEntry => e.g.isNone) sts _ (List.getElem?_eq_getElem hu)
  by_cases hiu : (sts.takeWhile (fun e => e.g.isNone)).length = i
  · have : sts[i]? = some (sts[(sts.takeWhile (fun e => e.g.isNone)).length]'hu) := by
      rw [← hiu]; exact List.getElem?_eq_getElem hu
    rw [he] at this
    cases this
    rw [hn] at hfirst
    cases hfirst
  · have := nonePrefix_idx (·.g) sts hp _ i _ e (by omega) (List.getElem?_eq_getElem hu) he hn
    rw [this] at hfirst
    cases hfirst

/-- behind `hi` every entry has a graph name -/
def NamedFrom (w : W) : Prop := ∀ (i : Nat) (e : STEntry), w.hi ≤ i → w.sts[i]? = some e → e.g ≠ none

theorem namedGraphs_noRoot' (env : Env) (fuel : Nat) : ∀ (n : Nat) (w : W), NoRootBelow w → NamedFrom w →
    w.sts.length - w.hi < n →
    NoRootBelow (writeNamedGraphs env fuel n w) ∧
      (writeNamedGraphs env fuel n w).sts.length ≤ (writeNamedGraphs env fuel n w).hi
  | 0, _, _, _, hn => by omega
  | n + 1, w, h, hnm, hn => by
    unfold writeNamedGraphs
    split
    · next hge => exact ⟨h, hge⟩
    · next hlt =>
      have hlt' : w.hi < w.sts.length := by omega
      dsimp only
      obtain ⟨e0, he0⟩ : ∃ e0, w.sts[w.hi]? = some e0 := ⟨_, List.getElem?_eq_getElem hlt'⟩
      rw [he0]
      dsimp only
      cases hg : e0.g with
      | none => exact absurd hg (hnm w.hi e0 (Nat.le_refl _) he0)
      | some g =>
        dsimp only
        have hc : 0 < ((w.sts.drop w.hi).takeWhile (fun e => gEq (some g) e.g)).length := by
          have hd : w.sts.drop w.hi = e0 :: w.sts.drop (w.hi + 1) := by
            rw [List.drop_eq_getElem_cons hlt']
            congr 1
            have := List.getElem?_eq_getElem hlt'
            rw [he0] at this
            exact (Option.some.inj this).symm
          rw [hd, List.takeWhile_cons]
          have : gEq (some g) e0.g = true := by rw [hg]; exact PrettyEmit.gEq_refl _
          simp [this]
        have hT := (writers_adv env fuel).1
        let c := ((w.sts.drop w.hi).takeWhile (fun e => gEq (some g) e.g)).length
        let W1 : W := { w with lo := w.hi, hi := w.hi + c }
        let W2 : W := ((writeTerm env fuel (W1.newline.writeS "GRAPH ") .other g).writeS " {").more env
        let W3 : W := writeGraph env fuel W2
        let W4 : W := (W3.less env).writeS "}\n"
        have a12 : Adv W1 W2 :=
          (adv_newline _).trans ((adv_writeS _ _).trans ((hT _ _ _).trans ((adv_writeS _ _).trans (adv_more _ _))))
        have a23 : Adv0 W2 W3 := adv_writeGraph env fuel W2
        have a34 : Adv W3 W4 := (adv_less _ _).trans (adv_writeS _ _)
        have a14 : Adv0 W1 W4 := a12.weak.trans (a23.trans a34.weak)
        have n3 : NoRootBelow W3 := by
          refine writeGraph_noRoot env fuel W2 (fun i e hi he => ?_)
          rw [a12.lo] at hi
          have hi_lt : i < w.sts.length := by
            have : i < w.hi := hi
            omega
          obtain ⟨e'', he'', hadv⟩ := a12.sts.get i _ (List.getElem?_eq_getElem (l := W1.sts) hi_lt)
          rw [he] at he''
          cases he''
          exact not_root_adv hadv (h i _ hi (List.getElem?_eq_getElem hi_lt))
        have n4 : NoRootBelow W4 := noRoot_of_adv a34.weak n3
        have l4 : W4.sts.length = w.sts.length := a14.sts.1
        have h4 : W4.hi = w.hi + c := a14.hi
        have hlen : W4.sts.length - W4.hi < n := by
          have : 0 < c := hc
          omega
        have nm4 : NamedFrom W4 := by
          intro i e4 hi he4
          have hi_lt : i < w.sts.length := by
            have := (List.getElem?_eq_some_iff.mp he4).1
            omega
          obtain ⟨e'', he'', hadv⟩ := a14.sts.get i _ (List.getElem?_eq_getElem (l := W1.sts) hi_lt)
          rw [he4] at he''
          cases he''
          rw [hadv.1]
          exact hnm i _ (by omega) (List.getElem?_eq_getElem hi_lt)
        exact namedGraphs_noRoot' env fuel n W4 n4 nm4 hlen

/-- `TurtleSerializer/TrigSerializer{pretty}` on any stream of quads: at the end no `Root` is left in the subject
table — every Root subject of the default graph and of every named graph has been handed to `write_tree` — and
the table still stands for the same (graph, subject) pairs, a type only ever having changed to `Done`. -/
theorem serialize_roots_done (cfg : Cfg) (quads : List Quad) (lists : Lists) (sts : List STEntry) (w : W)
    (hl : buildLists (mkDataset quads) (buildSubjectTypes (mkDataset quads) (buildLabelled (mkDataset quads))) = some (lists, sts))
    (h : serialize cfg quads = .done w) :
    AdvS sts w.sts ∧ ∀ e ∈ w.sts, e.st ≠ .root := by
  have hp : NonePrefix (·.g) sts :=
    nonePrefix_sublist _ (buildLists_sublist _ _ _ _ hl) (subjectTypes_nonePrefix quads _)
  unfold serialize prettify at h
  dsimp only at h
  rw [hl] at h
  dsimp only at h
  split at h
  · cases h
    refine ⟨AdvS.refl _, ?_⟩
    intro e he
    rename_i hemp
    have : sts = [] := by simpa using hemp
    subst this
    cases he
  · cases h
    let d := mkDataset quads
    let upper := (sts.takeWhile (fun e => e.g.isNone)).length
    let env : Env := ⟨d, cfg, buildLabelled d⟩
    let w0 : W := { out := writePrefixes cfg.prefixMap, sts := sts, lists := lists, lo := 0, hi := upper }
    let fuel := fuelFor d
    let w1 : W := if w0.hi > 0 then writeGraph env fuel w0 else w0
    have a01 : Adv0 w0 w1 := by
      show Adv0 w0 (if w0.hi > 0 then writeGraph env fuel w0 else w0)
      split
      · exact adv_writeGraph env fuel w0
      · exact Adv0.refl _
    have n1 : NoRootBelow w1 := by
      show NoRootBelow (if w0.hi > 0 then writeGraph env fuel w0 else w0)
      split
      · exact writeGraph_noRoot env fuel w0 (fun i e hi _ => by have : i < 0 := hi; omega)
      · next hz =>
        intro i e hi _
        have : i < w0.hi := hi
        omega
    have nm1 : NamedFrom w1 := by
      intro i e1 hi he1
      have hhi : w1.hi = upper := a01.hi
      have hi_lt : i < sts.length := by
        have := (List.getElem?_eq_some_iff.mp he1).1
        have : w1.sts.length = sts.length := a01.sts.1
        omega
      obtain ⟨e'', he'', hadv⟩ := a01.sts.get i _ (List.getElem?_eq_getElem (l := w0.sts) hi_lt)
      rw [he1] at he''
      cases he''
      rw [hadv.1]
      exact named_after_upper sts hp i _ (by omega) (List.getElem?_eq_getElem hi_lt)
    have hlen : w1.sts.length - w1.hi < sts.length + 1 := by
      have : w1.sts.length = sts.length := a01.sts.1
      omega
    refine ⟨AdvS.trans a01.sts (namedGraphs_advS env fuel (sts.length + 1) w1), ?_⟩
    obtain ⟨hn, hle⟩ := namedGraphs_noRoot' env fuel (sts.length + 1) w1 n1 nm1 hlen
    intro e he
    obtain ⟨i, hi, rfl⟩ := List.getElem_of_mem he
    have hi' : i < (writeNamedGraphs env fuel (sts.length + 1) w1).sts.length := hi
    exact hn i _ (Nat.lt_of_lt_of_le hi' hle) (List.getElem?_eq_getElem hi)

/-! ### nothing stays deferred -/

theorem namedGraphs_drained (env : Env) (fuel : Nat) : ∀ (n : Nat) (w : W), w.deferred = [] →
    (writeNamedGraphs env fuel n w).deferred = []
  | 0, w, h => by unfold writeNamedGraphs; exact h
  | n + 1, w, h => by
    unfold writeNamedGraphs
    split
    · exact h
    · dsimp only
      split
      · exact h
      · next g _ =>
        apply namedGraphs_drained env fuel n
        -- the steps before `write_graph` (GRAPH, the graph name, `{`) may push, `write_graph` drains everything
        have hT := (writers_adv env fuel).1
        let c := ((w.sts.drop w.hi).takeWhile (fun e => gEq (match w.sts[w.hi]? with | some e => e.g | none => none) e.g)).length
        let W1 : W := { w with lo := w.hi, hi := w.hi + c }
        let W2 : W := ((writeTerm env fuel (W1.newline.writeS "GRAPH ") .other g).writeS " {").more env
        have a12 : Adv W1 W2 :=
          (adv_newline _).trans ((adv_writeS _ _).trans ((hT _ _ _).trans ((adv_writeS _ _).trans (adv_more _ _))))
        have hg1 : Good W1 := good_of_empty W1 h
        have hc1 : cost W1 ≤ W1.sts.length := cost_le_of_empty W1 h
        obtain ⟨hg2, hc2⟩ := a12.good hg1
        have l2 : W2.sts.length = W1.sts.length := a12.sts.1
        have ha := adv_writeRoots env fuel W2
        obtain ⟨hg3, hc3⟩ := ha.good hg2
        have l3 : (writeRoots env fuel W2).sts.length = W2.sts.length := ha.sts.1
        show (writeGraph env fuel W2).deferred = []
        unfold writeGraph
        exact (drain_total env fuel _ _ hg3 (by omega)).1

/-- at the end of `serialize` no blank node is left on the deferred stack: every blank node that was labelled
because of the nesting cap has been described by a `write_tree` of its own (`writeGraph_deferred_done`) -/
theorem serialize_drained (cfg : Cfg) (quads : List Quad) (w : W) (h : serialize cfg quads = .done w) :
    w.deferred = [] := by
  unfold serialize prettify at h
  dsimp only at h
  split at h
  · cases h
  · split at h
    · cases h; rfl
    · cases h
      apply namedGraphs_drained
      split
      · exact (writeGraph_deferred_done _ _ _ rfl).1
      · rfl

/-! ### a SubTree that is reached is written -/

/-- `write_bnode` on an unlabelled blank node that is not a collection head and whose entry in the current graph is a
`SubTree`: afterwards that entry is `Done` (its properties were written between `[` and `]`), or — at the nesting
cap — it is on the deferred stack (and `drain_total` then has it written) -/
theorem writeBnode_subTree_reached (env : Env) (f : Nat) (w : W) (l : Str) (i : Nat) (e : STEntry)
    (hlist : listsRemove w.lists (.bnode l) = none)
    (hlab : (isLabelled env.lab (.bnode l) || isLabelled w.labx (.bnode l)) = false)
    (hfind : w.findSt (.bnode l) = some i) (he : w.sts[i]? = some e) (hst : e.st = .subTree) :
    DoneAt (writeBnode env (f + 1) w (.bnode l)) i e.s ∨ i ∈ (writeBnode env (f + 1) w (.bnode l)).deferred := by
  simp only [writeBnode, hlist, hlab, hfind, he, hst, Bool.false_eq_true, ↓reduceIte]
  split
  · exact Or.inr (by simp [W.write])
  · left
    have hP := (writers_adv env f).2.2.1
    have a : Adv w (writeProperties env f (({ w with nesting := w.nesting + 1 } : W).writeS "[") e.s) :=
      ((Adv.of_eq (w := w) (w' := { w with nesting := w.nesting + 1 }) rfl rfl rfl).trans (adv_writeS _ _)).trans (hP _ _)
    obtain ⟨e', he', _, hs', _⟩ := a.sts.get i e he
    have := doneAt_setDone (({ (writeProperties env f (({ w with nesting := w.nesting + 1 } : W).writeS "[") e.s) with
      nesting := (writeProperties env f (({ w with nesting := w.nesting + 1 } : W).writeS "[") e.s).nesting - 1 } : W).writeS "]") i e' he'
    rw [hs'] at this
    exact this

end SophiaProofs.Lemmas.PrettyWriter
