/-
UTF-8 preserves order: comparing two strings bytewise in UTF-8 (what Rust's `str::cmp` does) is comparing
them code point by code point (`strCmp`). Stated over Lean core's own encoder `String.utf8EncodeChar`
(the one behind `String.toUTF8`, which the line protocol uses to decode the hex fields both sides read).
-/
import SophiaModel.Basic.TermOrder
import SophiaProofs.Lemmas.TermOrder
namespace SophiaProofs.Utf8
open SophiaModel Std

/-- the UTF-8 encoding of a scalar value, on naturals (shape of Lean core's `String.utf8EncodeChar`) -/
def utf8n (v : Nat) : List Nat :=
  if v ≤ 127 then [v]
  else if v ≤ 2047 then [v / 64 % 32 + 192, v % 64 + 128]
  else if v ≤ 65535 then [v / 4096 % 16 + 224, v / 64 % 64 + 128, v % 64 + 128]
  else [v / 262144 % 8 + 240, v / 4096 % 64 + 128, v / 64 % 64 + 128, v % 64 + 128]

theorem char_toNat_lt (c : Char) : c.toNat < 0x110000 := by
  have := c.valid
  simp only [UInt32.isValidChar, Nat.isValidChar] at this
  show c.val.toNat < _
  omega

theorem utf8EncodeChar_toNat (c : Char) : (String.utf8EncodeChar c).map UInt8.toNat = utf8n c.toNat := by
  have hv := char_toNat_lt c
  have e : c.toNat = c.val.toNat := rfl
  unfold String.utf8EncodeChar utf8n
  rw [e] at hv ⊢
  generalize c.val.toNat = v at hv ⊢
  simp only []
  by_cases h1 : v ≤ 127
  · simp [h1]; omega
  · by_cases h2 : v ≤ 2047
    · simp [h1, h2]; omega
    · by_cases h3 : v ≤ 65535
      · simp [h1, h2, h3]; omega
      · simp [h1, h2, h3]; omega

theorem cons_lt {a b : Nat} {l1 l2 : List Nat} (h : a < b) : compare (a :: l1) (b :: l2) = .lt := by
  simp [List.compare_cons_cons, Nat.compare_eq_lt.2 h]
theorem cons_eq {a b : Nat} {l1 l2 : List Nat} (h : a = b) (h2 : compare l1 l2 = .lt) :
    compare (a :: l1) (b :: l2) = .lt := by
  subst h; simp [List.compare_cons_cons, h2]

theorem lt2 {a b a' b' : Nat} {r1 r2 : List Nat} (h : a < a' ∨ (a = a' ∧ b < b')) :
    compare (a :: b :: r1) (a' :: b' :: r2) = .lt := by
  rcases h with h | ⟨h, h'⟩
  · exact cons_lt h
  · exact cons_eq h (cons_lt h')
theorem lt3 {a b c a' b' c' : Nat} {r1 r2 : List Nat}
    (h : a < a' ∨ (a = a' ∧ (b < b' ∨ (b = b' ∧ c < c')))) :
    compare (a :: b :: c :: r1) (a' :: b' :: c' :: r2) = .lt := by
  rcases h with h | ⟨h, h'⟩
  · exact cons_lt h
  · exact cons_eq h (lt2 h')
theorem lt4 {a b c d a' b' c' d' : Nat} {r1 r2 : List Nat}
    (h : a < a' ∨ (a = a' ∧ (b < b' ∨ (b = b' ∧ (c < c' ∨ (c = c' ∧ d < d')))))) :
    compare (a :: b :: c :: d :: r1) (a' :: b' :: c' :: d' :: r2) = .lt := by
  rcases h with h | ⟨h, h'⟩
  · exact cons_lt h
  · exact cons_eq h (lt3 h')

theorem same4 (n m : Nat) (r1 r2 : List Nat) (h : n < m) (hm : m < 0x110000) :
    compare ((n / 262144 % 8 + 240) :: (n / 4096 % 64 + 128) :: (n / 64 % 64 + 128) :: (n % 64 + 128) :: r1)
      ((m / 262144 % 8 + 240) :: (m / 4096 % 64 + 128) :: (m / 64 % 64 + 128) :: (m % 64 + 128) :: r2) = .lt := by
  have f1 : n / 262144 = n / 4096 / 64 := by omega
  have f2 : n / 4096 = n / 64 / 64 := by omega
  have g1 : m / 262144 = m / 4096 / 64 := by omega
  have g2 : m / 4096 = m / 64 / 64 := by omega
  rcases Nat.lt_or_ge (n / 262144) (m / 262144) with c1 | c1
  · exact cons_lt (by omega)
  · have d1 : n / 262144 = m / 262144 := by omega
    refine cons_eq (by omega) ?_
    rcases Nat.lt_or_ge (n / 4096) (m / 4096) with c2 | c2
    · exact cons_lt (by omega)
    · have d2 : n / 4096 = m / 4096 := by omega
      refine cons_eq (by omega) ?_
      rcases Nat.lt_or_ge (n / 64) (m / 64) with c3 | c3
      · exact cons_lt (by omega)
      · have d3 : n / 64 = m / 64 := by omega
        refine cons_eq (by omega) ?_
        exact cons_lt (by omega)

/-- a smaller scalar value has a lexicographically smaller encoding, whatever follows -/
theorem utf8n_lt (n m : Nat) (r1 r2 : List Nat) (h : n < m) (hm : m < 0x110000) :
    compare (utf8n n ++ r1) (utf8n m ++ r2) = .lt := by
  unfold utf8n
  by_cases n1 : n ≤ 127 <;> by_cases m1 : m ≤ 127 <;> by_cases n2 : n ≤ 2047 <;> by_cases m2 : m ≤ 2047 <;>
    by_cases n3 : n ≤ 65535 <;> by_cases m3 : m ≤ 65535 <;>
    simp only [n1, m1, n2, m2, n3, m3, if_true, if_false, List.cons_append, List.nil_append] <;>
    first
    | (exfalso; omega)
    | (apply cons_lt; omega)
    | (apply lt2; omega)
    | (apply lt3; omega)
    | (exact same4 n m r1 r2 h hm)

theorem compare_append_self (l r1 r2 : List Nat) : compare (l ++ r1) (l ++ r2) = compare r1 r2 := by
  induction l with
  | nil => rfl
  | cons x xs ih => simp [List.compare_cons_cons, ih]

/-- UTF-8 preserves order, in context: comparing encodings = comparing scalar values, then the rest -/
theorem utf8n_compare (n m : Nat) (r1 r2 : List Nat) (hn : n < 0x110000) (hm : m < 0x110000) :
    compare (utf8n n ++ r1) (utf8n m ++ r2) = (compare n m).then (compare r1 r2) := by
  rcases Nat.lt_trichotomy n m with h | h | h
  · rw [utf8n_lt n m r1 r2 h hm, Nat.compare_eq_lt.2 h]; rfl
  · subst h; rw [compare_append_self]; simp
  · have := utf8n_lt m n r2 r1 h hn
    rw [OrientedOrd.eq_swap (a := utf8n n ++ r1), this, Nat.compare_eq_gt.2 h]; rfl

/-- the bytes Rust's `str` comparison looks at -/
def utf8Bytes (s : Str) : List Nat := s.flatMap (fun c => (String.utf8EncodeChar c).map UInt8.toNat)

/-- **UTF-8 byte order = code point order**: `str::cmp` (bytewise) is `strCmp` (on code points) -/
theorem utf8_order (a b : Str) : compare (utf8Bytes a) (utf8Bytes b) = strCmp a b := by
  induction a generalizing b with
  | nil =>
    cases b with
    | nil => rfl
    | cons y ys =>
      have : utf8Bytes (y :: ys) ≠ [] := by
        simp only [utf8Bytes, List.flatMap_cons, utf8EncodeChar_toNat]
        unfold utf8n; split <;> (try split) <;> (try split) <;> simp
      simp only [strCmp, List.map_nil, List.map_cons]
      cases hh : utf8Bytes (y :: ys) with
      | nil => exact absurd hh this
      | cons z zs => simp [utf8Bytes]
  | cons x xs ih =>
    cases b with
    | nil =>
      have : utf8Bytes (x :: xs) ≠ [] := by
        simp only [utf8Bytes, List.flatMap_cons, utf8EncodeChar_toNat]
        unfold utf8n; split <;> (try split) <;> (try split) <;> simp
      simp only [strCmp, List.map_nil, List.map_cons]
      cases hh : utf8Bytes (x :: xs) with
      | nil => exact absurd hh this
      | cons z zs => simp [utf8Bytes]
    | cons y ys =>
      have e1 : utf8Bytes (x :: xs) = utf8n x.toNat ++ utf8Bytes xs := by
        simp [utf8Bytes, utf8EncodeChar_toNat]
      have e2 : utf8Bytes (y :: ys) = utf8n y.toNat ++ utf8Bytes ys := by
        simp [utf8Bytes, utf8EncodeChar_toNat]
      rw [e1, e2, utf8n_compare _ _ _ _ (char_toNat_lt x) (char_toNat_lt y), ih ys]
      simp [strCmp, List.compare_cons_cons]

end SophiaProofs.Utf8
