/-
C17 lemma library, part 5: `rfind`, the slash loop of `Relativizer::new`, and what the recorded
positions (`slashes`, `pseudoroot`) mean for a rooted base path (`CutOK`).
-/
import SophiaProofs.Lemmas.RelativizeSplit

namespace SophiaProofs.Relativize
open SophiaModel SophiaModel.Rfc3986 SophiaModel.Relativize

/-! ## `rfind`, the slash loop -/

theorem startsWith_cons' {c : Char} {t : Octets} (h : startsWith c t = true) : ∃ r, t = c :: r := by
  cases t with
  | nil => simp [startsWith] at h
  | cons x xs => simp [startsWith] at h; exact ⟨xs, by rw [h]⟩


theorem rfind_none_spec {c : Char} {s : Octets} (h : rfind c s = none) : s.count c = 0 := by
  induction s with
  | nil => simp
  | cons x xs ih =>
    unfold rfind at h
    cases hr : rfind c xs with
    | some j => simp [hr] at h
    | none =>
      simp [hr] at h
      rw [List.count_cons_of_ne h]
      exact ih hr

theorem rfind_some_spec {c : Char} {s : Octets} {i : Nat} (h : rfind c s = some i) :
    i < s.length ∧ s[i]? = some c ∧ (s.drop (i + 1)).count c = 0 := by
  induction s generalizing i with
  | nil => simp [rfind] at h
  | cons x xs ih =>
    unfold rfind at h
    cases hr : rfind c xs with
    | some j =>
      simp [hr] at h
      subst h
      obtain ⟨a, b, d⟩ := ih hr
      exact ⟨by simp; omega, by simpa using b, by simpa using d⟩
    | none =>
      simp [hr] at h
      obtain ⟨hx, hi⟩ := h
      subst hi; subst hx
      exact ⟨by simp, by simp, by simpa using rfind_none_spec hr⟩

theorem take_drop_append_drop (P : Octets) (j m : Nat) (h : j ≤ m) (hm : m ≤ P.length) :
    (P.take m).drop j ++ P.drop m = P.drop j := by
  have : P.drop j = (P.take m ++ P.drop m).drop j := by rw [List.take_append_drop]
  rw [this, List.drop_append_of_le_length]
  simp [List.length_take]
  omega

theorem slice_path (S P T : Octets) (m : Nat) (hm : m ≤ P.length) :
    slice (S ++ P ++ T) S.length (S.length + m) = P.take m := by
  unfold slice
  rw [List.append_assoc, List.take_append, List.drop_append]
  have h1 : List.take (S.length + m) S = S := List.take_of_length_le (by omega)
  have h2 : S.length + m - S.length = m := by omega
  rw [h1, h2, List.take_append_of_le_length hm]
  simp

/-- the `i`-th recorded slash (counting from the end of the path) sits at absolute position `e` -/
def SlashAt (S P : Octets) (i e : Nat) : Prop :=
  S.length < e ∧ e < S.length + P.length ∧ P[e - S.length]? = some '/' ∧ (P.drop (e - S.length + 1)).count '/' = i

theorem slashLoop_spec (S P T : Octets) :
    ∀ (iters m : Nat) (acc : List Nat), m ≤ P.length → (m = 0 → P = []) →
      (P.drop m).count '/' = acc.length →
      (∀ i e, acc[i]? = some e → SlashAt S P i e) →
      (∀ i e, (slashLoop (S ++ P ++ T) S.length iters (S.length + m) acc)[i]? = some e → SlashAt S P i e) ∧
      ((slashLoop (S ++ P ++ T) S.length iters (S.length + m) acc).length < acc.length + iters →
        (P.drop 1).count '/' = (slashLoop (S ++ P ++ T) S.length iters (S.length + m) acc).length) := by
  intro iters
  induction iters with
  | zero =>
    intro m acc _ _ _ hacc
    simp [slashLoop]
    exact hacc
  | succ k ih =>
    intro m acc hm hm0 hcnt hacc
    unfold slashLoop
    simp only
    rw [slice_path S P T m hm]
    split
    · rename_i hi
      cases hr : rfind '/' (P.take m) with
      | none => simp [hr] at hi
      | some i =>
        simp only [hr, Option.getD_some] at hi ⊢
        obtain ⟨h1, h2, h3⟩ := rfind_some_spec hr
        simp [List.length_take] at h1
        have him : i < m := by omega
        have hPi : P[i]? = some '/' := by
          rw [List.getElem?_take] at h2
          simpa [him] using h2
        have hdrop : (P.drop (i + 1)).count '/' = acc.length := by
          rw [← take_drop_append_drop P (i + 1) m (by omega) hm, List.count_append, h3, hcnt]; simp
        have hcnt' : (P.drop i).count '/' = (acc ++ [i + S.length]).length := by
          have : P.drop i = '/' :: P.drop (i + 1) := by
            rw [List.drop_eq_getElem?_toList_append, hPi]; rfl
          rw [this]; simp [hdrop]
        have hacc' : ∀ j e, (acc ++ [i + S.length])[j]? = some e → SlashAt S P j e := by
          intro j e hj
          by_cases hjl : j < acc.length
          · rw [List.getElem?_append_left hjl] at hj
            exact hacc j e hj
          · rw [List.getElem?_append_right (by omega)] at hj
            have : j - acc.length = 0 := by
              cases hq : j - acc.length with
              | zero => rfl
              | succ q => rw [hq] at hj; simp at hj
            rw [this] at hj
            simp at hj
            subst hj
            have hj' : j = acc.length := by omega
            subst hj'
            refine ⟨by omega, by omega, ?_, ?_⟩
            · simpa using hPi
            · simpa using hdrop
        have := ih i (acc ++ [i + S.length]) (by omega) (by omega) hcnt' hacc'
        rw [show S.length + i = i + S.length by omega] at this
        obtain ⟨r1, r2⟩ := this
        refine ⟨r1, ?_⟩
        intro hlt
        apply r2
        simp only [List.length_append, List.length_cons, List.length_nil]; omega
    · rename_i hi
      refine ⟨hacc, ?_⟩
      intro _
      -- no slash in P[1..m)
      have h0 : ((P.take m).drop 1).count '/' = 0 := by
        cases hr : rfind '/' (P.take m) with
        | none =>
          have := rfind_none_spec hr
          have hle := (List.drop_sublist 1 (P.take m)).count_le '/'
          omega
        | some i =>
          simp [hr] at hi
          subst hi
          exact (rfind_some_spec hr).2.2
      by_cases hmz : m = 0
      · rw [hm0 hmz] at hcnt ⊢; simpa using hcnt
      · rw [← take_drop_append_drop P 1 m (by omega) hm, List.count_append, h0, hcnt]; simp

theorem drop_of_decomp {base S X : Octets} (h : base = S ++ X) : base.drop S.length = X := by
  subst h; simp

theorem queryO_fragO_not_slash' (q f : Option Str) : startsSlash (queryO q ++ fragO f) = false := by
  cases q <;> cases f <;> simp [queryO, fragO, startsSlash]

/-- a cut position `c` (absolute) right after a '/' of the base path, with `k` slashes of the path after it -/
def CutOK (S P : Octets) (c k : Nat) : Prop :=
  S.length < c ∧ c ≤ S.length + P.length ∧ P[c - S.length - 1]? = some '/' ∧ (P.drop (c - S.length)).count '/' = k

theorem cutOK_of_slashAt {S P : Octets} {i e : Nat} (h : SlashAt S P i e) : CutOK S P (e + 1) i := by
  obtain ⟨a, b, c, d⟩ := h
  refine ⟨by omega, by omega, ?_, ?_⟩
  · rw [show e + 1 - S.length - 1 = e - S.length by omega]; exact c
  · rw [show e + 1 - S.length = e - S.length + 1 by omega]; exact d

theorem new_eq (base : Octets) (n : Nat) (hs : (split base).scheme.isSome) :
    new base n = finish base (preStr (split base) ++ (split base).path ++ queryStr (split base)).length
      (preStr (split base) ++ (split base).path).length (preStr (split base)).length n
      (slashLoop base (preStr (split base)).length (n + 1) ((preStr (split base)).length + (split base).path.length) []) := by
  unfold new
  simp only
  rw [pathEnd_eq base hs, queryEnd_eq base hs, pathBegin_eq hs]
  simp [List.length_append]

theorem new_cuts (base : Octets) (n : Nat) (hs : (split base).scheme.isSome) :
    (∀ i e, (new base n).slashes[i]? = some e → CutOK (preStr (split base)) (split base).path (e + 1) i) ∧
    ((new base n).pseudoroot > (preStr (split base)).length →
      CutOK (preStr (split base)) (split base).path (new base n).pseudoroot (new base n).slashes.length) := by
  have hd := base_decomp base
  rw [List.append_assoc] at hd
  have spec := slashLoop_spec (preStr (split base)) (split base).path (queryStr (split base) ++ fragStr (split base))
    (n + 1) (split base).path.length [] (Nat.le_refl _) (by intro h; exact List.length_eq_zero_iff.mp h) (by simp) (by simp)
  rw [← hd] at spec
  have hlen := slashLoop_length base (preStr (split base)).length (n + 1)
    ((preStr (split base)).length + (split base).path.length) []
  rw [new_eq base n hs]
  generalize slashLoop base (preStr (split base)).length (n + 1)
    ((preStr (split base)).length + (split base).path.length) [] = sl at *
  obtain ⟨sp1, sp2⟩ := spec
  simp at hlen
  unfold finish
  simp only
  split
  · rename_i hgt
    have hl : sl.length = n + 1 := by omega
    constructor
    · intro i e hi
      rw [List.getElem?_dropLast] at hi
      simp at hi
      exact cutOK_of_slashAt (sp1 i e hi.2)
    · intro _
      have hlast : sl.getLast? = sl[n]? := by
        rw [List.getLast?_eq_getElem?, hl]; simp
      have hn : n < sl.length := by omega
      rw [hlast, List.getElem?_eq_getElem hn]
      simp only [Option.getD_some, List.length_dropLast, hl]
      have := cutOK_of_slashAt (sp1 n sl[n] (List.getElem?_eq_getElem hn))
      simpa using this
  · rename_i hle
    split
    · rename_i hroot'
      -- the base path starts with '/'
      have hP : ∃ P', (split base).path = '/' :: P' := by
        rw [List.append_assoc] at hd
        rw [drop_of_decomp hd] at hroot'
        cases hp : (split base).path with
        | nil =>
          rw [hp] at hroot'
          have := queryO_fragO_not_slash' (split base).query (split base).fragment
          simp [queryStr, fragStr] at hroot'
          rw [this] at hroot'; cases hroot'
        | cons x xs =>
          rw [hp] at hroot'
          simp [startsSlash] at hroot'
          split at hroot'
          · rename_i heq; injection heq with h1 h2; subst h1; exact ⟨xs, rfl⟩
          · cases hroot'
      obtain ⟨P', hP⟩ := hP
      constructor
      · intro i e hi
        exact cutOK_of_slashAt (sp1 i e hi)
      · intro _
        refine ⟨by omega, by rw [hP]; simp, ?_, ?_⟩
        · rw [hP]; simp
        · rw [show (preStr (split base)).length + 1 - (preStr (split base)).length = 1 by omega]
          exact sp2 (by simp; omega)
    · constructor
      · intro i e hi
        exact cutOK_of_slashAt (sp1 i e hi)
      · intro h; simp at h

end SophiaProofs.Relativize
