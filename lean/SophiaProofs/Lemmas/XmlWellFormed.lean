/-
C18 — structural well-formedness of the event stream the (model) formatter produces, when the
serialiser fails, and what its three exits are.  About `SophiaModel.XmlGlue` only.
-/
import SophiaProofs.Lemmas.XmlGlue

namespace SophiaProofs.XmlWF
open SophiaModel SophiaModel.XmlGlue SophiaProofs.XmlGlueL

/-! ## nesting -/

/-- where a reader is in a document: nothing seen, after the XML declaration, inside open
elements (innermost first), after the end tag of the root element -/
inductive Nest where
  | fresh
  | prolog
  | inside (st : List Str)
  | done
  deriving DecidableEq, Repr

/-- XML 1.0 `document ::= prolog element Misc*`, `element ::= EmptyElemTag | STag content ETag`
with matching names, character data only inside an element, the XML declaration only first -/
def nestStep : Nest → Ev → Option Nest
  | .fresh, .decl => some .prolog
  | .fresh, .start n _ => some (.inside [n])
  | .prolog, .start n _ => some (.inside [n])
  | .inside st, .start n _ => some (.inside (n :: st))
  | .fresh, .empty _ _ => some .done
  | .prolog, .empty _ _ => some .done
  | .inside st, .empty _ _ => some (.inside st)
  | .inside (m :: st), .text _ => some (.inside (m :: st))
  | .inside (m :: st), .close n => if n = m then some (if st.isEmpty then .done else .inside st) else none
  | _, _ => none

def nest : Nest → List Ev → Option Nest
  | s, [] => some s
  | s, e :: r => match nestStep s e with
    | none => none
    | some s' => nest s' r

theorem nest_append (a b : List Ev) : ∀ s, nest s (a ++ b) = (nest s a).bind (fun s' => nest s' b) := by
  induction a with
  | nil => intro s; rfl
  | cons e r ih =>
    intro s
    simp only [List.cons_append, nest]
    cases nestStep s e with
    | none => rfl
    | some s' => exact ih s'

/-- the open elements while the formatter's `current_subject` is `cur` -/
def stackOf : Option Owned → List Str
  | none => [rdfRDF]
  | some _ => [rdfDescription, rdfRDF]

theorem nest_openDesc (cur : Option Owned) (s : RSubject) (o : Owned) (evs : List Ev)
    (h : openDesc cur s = some (o, evs)) :
    nest (.inside (stackOf cur)) evs = some (.inside (stackOf (some o))) := by
  unfold openDesc at h
  split at h
  · cases cur with
    | none => simp at h
    | some c => simp at h; obtain ⟨_, rfl⟩ := h; rfl
  · cases cur <;> cases s <;> simp at h <;> obtain ⟨_, rfl⟩ := h <;> simp [nest, nestStep, stackOf]

theorem nest_propEvs (p : Str) (o : RObject) (evs : List Ev) (h : propEvs p o = some evs) (m : Str) (st : List Str) :
    nest (.inside (m :: st)) evs = some (.inside (m :: st)) := by
  cases o <;> simp [propEvs] at h <;> subst h <;> simp [nest, nestStep]

theorem nest_formatTriple (cur : Option Owned) (t : RTriple) (cur' : Option Owned) (evs : List Ev)
    (h : formatTriple cur t = some (cur', evs)) :
    cur'.isSome = true ∧ nest (.inside (stackOf cur)) evs = some (.inside (stackOf cur')) := by
  cases t with
  | mk s p o =>
    simp only [formatTriple] at h
    cases h1 : openDesc cur s with
    | none => simp [h1] at h
    | some r1 =>
      obtain ⟨ow, e1⟩ := r1
      cases h2 : propEvs p o with
      | none => simp [h1, h2] at h
      | some e2 =>
        simp [h1, h2] at h
        obtain ⟨rfl, rfl⟩ := h
        refine ⟨rfl, ?_⟩
        rw [nest_append, nest_openDesc cur s ow e1 h1]
        exact nest_propEvs p o e2 h2 _ _

theorem nest_formatAll (rts : List RTriple) : ∀ (cur cur' : Option Owned) (evs : List Ev),
    formatAll cur rts = some (cur', evs) → nest (.inside (stackOf cur)) evs = some (.inside (stackOf cur')) := by
  induction rts with
  | nil => intro cur cur' evs h; simp [formatAll] at h; obtain ⟨rfl, rfl⟩ := h; rfl
  | cons t ts ih =>
    intro cur cur' evs h
    simp only [formatAll] at h
    cases h1 : formatTriple cur t with
    | none => simp [h1] at h
    | some r1 =>
      obtain ⟨c1, e1⟩ := r1
      cases h2 : formatAll c1 ts with
      | none => simp [h1, h2] at h
      | some r2 =>
        obtain ⟨c2, e2⟩ := r2
        simp [h1, h2] at h
        obtain ⟨rfl, rfl⟩ := h
        rw [nest_append, (nest_formatTriple cur t c1 e1 h1).2]
        exact ih c1 c2 e2 h2

theorem nest_finish (cur : Option Owned) : nest (.inside (stackOf cur)) (finishEvs cur) = some .done := by
  cases cur <;> simp [finishEvs, stackOf, nest, nestStep]

/-- **the event stream of every successful serialisation is a properly nested document**: the
declaration first, exactly one root element, every end tag matches its start tag, text only
inside elements, nothing after the root -/
theorem nest_events (ts : List Triple) (evs : List Ev) (h : events ts = some evs) : nest .fresh evs = some .done := by
  unfold events at h
  cases h1 : formatAll none (ts.filterMap convertTriple) with
  | none => simp [h1] at h
  | some r =>
    obtain ⟨cur, body⟩ := r
    simp only [h1, Option.some.injEq] at h
    subst h
    have h0 : nest .fresh startEvs = some (.inside (stackOf none)) := rfl
    rw [nest_append, nest_append, h0]
    simp only [Option.bind_some]
    rw [nest_formatAll _ none cur body h1]
    exact nest_finish cur

/-! ## element names and attributes -/

def elemName : Ev → Option Str
  | .start n _ => some n
  | .empty n _ => some n
  | .close n => some n
  | _ => none

def attrsOf : Ev → List (Str × Str)
  | .start _ as => as
  | .empty _ as => as
  | _ => []

/-- an element name of the fixed vocabulary, or the property element name of `p` -/
def NameFrom (preds : List Str) (n : Str) : Prop := n = rdfRDF ∨ n = rdfDescription ∨ ∃ p ∈ preds, n = (propName p).1

def predOf : RTriple → Str
  | .mk _ p _ => p

theorem names_openDesc (cur : Option Owned) (s : RSubject) (o : Owned) (evs : List Ev)
    (h : openDesc cur s = some (o, evs)) : ∀ e ∈ evs, ∀ n, elemName e = some n → n = rdfDescription := by
  unfold openDesc at h
  split at h
  · cases cur with
    | none => simp at h
    | some c => simp at h; obtain ⟨_, rfl⟩ := h; intro e he; simp at he
  · cases cur <;> cases s <;> simp at h <;> obtain ⟨_, rfl⟩ := h <;> intro e he n hn <;> simp at he
    all_goals (rcases he with rfl | rfl) <;> simp [elemName] at hn <;> exact hn.symm
    all_goals (subst he; simp [elemName] at hn; exact hn.symm)

theorem names_propEvs (p : Str) (o : RObject) (evs : List Ev) (h : propEvs p o = some evs) :
    ∀ e ∈ evs, ∀ n, elemName e = some n → n = (propName p).1 := by
  cases o <;> simp [propEvs] at h <;> subst h <;> intro e he n hn <;> simp at he
  all_goals first
    | (subst he; simp [elemName] at hn; exact hn.symm)
    | (rcases he with rfl | rfl | rfl <;> simp [elemName] at hn <;> exact hn.symm)

theorem names_formatAll (rts : List RTriple) : ∀ (cur cur' : Option Owned) (evs : List Ev),
    formatAll cur rts = some (cur', evs) → ∀ e ∈ evs, ∀ n, elemName e = some n → NameFrom (rts.map predOf) n := by
  induction rts with
  | nil => intro cur cur' evs h; simp [formatAll] at h; obtain ⟨_, rfl⟩ := h; intro e he; simp at he
  | cons t ts ih =>
    intro cur cur' evs h
    simp only [formatAll] at h
    cases h1 : formatTriple cur t with
    | none => simp [h1] at h
    | some r1 =>
      obtain ⟨c1, e1⟩ := r1
      cases h2 : formatAll c1 ts with
      | none => simp [h1, h2] at h
      | some r2 =>
        obtain ⟨c2, e2⟩ := r2
        simp [h1, h2] at h
        obtain ⟨_, rfl⟩ := h
        intro e he n hn
        rcases List.mem_append.mp he with he | he
        · cases t with
          | mk s p o =>
            simp only [formatTriple] at h1
            cases h3 : openDesc cur s with
            | none => simp [h3] at h1
            | some r3 =>
              obtain ⟨ow, d1⟩ := r3
              cases h4 : propEvs p o with
              | none => simp [h3, h4] at h1
              | some d2 =>
                simp [h3, h4] at h1
                obtain ⟨_, rfl⟩ := h1
                rcases List.mem_append.mp he with he | he
                · exact Or.inr (Or.inl (names_openDesc cur s ow d1 h3 e he n hn))
                · exact Or.inr (Or.inr ⟨p, by simp [predOf], names_propEvs p o d2 h4 e he n hn⟩)
        · rcases ih c1 c2 e2 h2 e he n hn with h | h | ⟨p, hp, h⟩
          · exact Or.inl h
          · exact Or.inr (Or.inl h)
          · exact Or.inr (Or.inr ⟨p, by simp at hp ⊢; exact Or.inr hp, h⟩)

theorem names_events (ts : List Triple) (evs : List Ev) (h : events ts = some evs) :
    ∀ e ∈ evs, ∀ n, elemName e = some n → NameFrom ((ts.filterMap convertTriple).map predOf) n := by
  unfold events at h
  cases h1 : formatAll none (ts.filterMap convertTriple) with
  | none => simp [h1] at h
  | some r =>
    obtain ⟨cur, body⟩ := r
    simp only [h1, Option.some.injEq] at h
    subst h
    intro e he n hn
    rcases List.mem_append.mp he with he | he
    · rcases List.mem_append.mp he with he | he
      · simp [startEvs] at he
        rcases he with rfl | rfl
        · simp [elemName] at hn
        · simp [elemName] at hn; exact Or.inl hn.symm
      · exact names_formatAll _ none cur body h1 e he n hn
    · cases cur <;> simp [finishEvs] at he
      · subst he; simp [elemName] at hn; exact Or.inl hn.symm
      · rcases he with rfl | rfl <;> simp [elemName] at hn
        · exact Or.inr (Or.inl hn.symm)
        · exact Or.inl hn.symm

/-- no attribute name occurs twice in the tag -/
def keysOK (e : Ev) : Prop := ((attrsOf e).map (·.1)).Nodup

theorem propName_key (p : Str) : (propName p).2.1 = "xmlns".toList ∨ (propName p).2.1 = "xmlns:prop".toList := by
  simp only [propName]; split <;> simp

theorem keys_propEvs (p : Str) (o : RObject) (evs : List Ev) (h : propEvs p o = some evs) :
    ∀ e ∈ evs, keysOK e := by
  have hk := propName_key p
  cases o <;> simp [propEvs] at h <;> subst h <;> intro e he <;> simp at he
  all_goals first
    | (subst he; simp only [keysOK, attrsOf, List.map]; rcases hk with hk | hk <;> rw [hk] <;> decide)
    | (rcases he with rfl | rfl | rfl <;> simp only [keysOK, attrsOf, List.map] <;>
        first | exact List.nodup_nil | (rcases hk with hk | hk <;> rw [hk] <;> decide))

theorem keys_openDesc (cur : Option Owned) (s : RSubject) (o : Owned) (evs : List Ev)
    (h : openDesc cur s = some (o, evs)) : ∀ e ∈ evs, keysOK e := by
  unfold openDesc at h
  split at h
  · cases cur with
    | none => simp at h
    | some c => simp at h; obtain ⟨_, rfl⟩ := h; intro e he; simp at he
  · cases cur <;> cases s <;> simp at h <;> obtain ⟨_, rfl⟩ := h <;> intro e he <;> simp at he
    all_goals first
      | (subst he; simp [keysOK, attrsOf])
      | (rcases he with rfl | rfl <;> simp [keysOK, attrsOf])

theorem keys_formatAll (rts : List RTriple) : ∀ (cur cur' : Option Owned) (evs : List Ev),
    formatAll cur rts = some (cur', evs) → ∀ e ∈ evs, keysOK e := by
  induction rts with
  | nil => intro cur cur' evs h; simp [formatAll] at h; obtain ⟨_, rfl⟩ := h; intro e he; simp at he
  | cons t ts ih =>
    intro cur cur' evs h
    simp only [formatAll] at h
    cases h1 : formatTriple cur t with
    | none => simp [h1] at h
    | some r1 =>
      obtain ⟨c1, e1⟩ := r1
      cases h2 : formatAll c1 ts with
      | none => simp [h1, h2] at h
      | some r2 =>
        obtain ⟨c2, e2⟩ := r2
        simp [h1, h2] at h
        obtain ⟨_, rfl⟩ := h
        intro e he
        rcases List.mem_append.mp he with he | he
        · cases t with
          | mk s p o =>
            simp only [formatTriple] at h1
            cases h3 : openDesc cur s with
            | none => simp [h3] at h1
            | some r3 =>
              obtain ⟨ow, d1⟩ := r3
              cases h4 : propEvs p o with
              | none => simp [h3, h4] at h1
              | some d2 =>
                simp [h3, h4] at h1
                obtain ⟨_, rfl⟩ := h1
                rcases List.mem_append.mp he with he | he
                · exact keys_openDesc cur s ow d1 h3 e he
                · exact keys_propEvs p o d2 h4 e he
        · exact ih c1 c2 e2 h2 e he

theorem keys_events (ts : List Triple) (evs : List Ev) (h : events ts = some evs) : ∀ e ∈ evs, keysOK e := by
  unfold events at h
  cases h1 : formatAll none (ts.filterMap convertTriple) with
  | none => simp [h1] at h
  | some r =>
    obtain ⟨cur, body⟩ := r
    simp only [h1, Option.some.injEq] at h
    subst h
    intro e he
    rcases List.mem_append.mp he with he | he
    · rcases List.mem_append.mp he with he | he
      · simp [startEvs] at he
        rcases he with rfl | rfl <;> simp [keysOK, attrsOf]
      · exact keys_formatAll _ none cur body h1 e he
    · cases cur <;> simp [finishEvs] at he
      · subst he; simp [keysOK, attrsOf]
      · rcases he with rfl | rfl <;> simp [keysOK, attrsOf]

/-- the predicate of a converted triple is the IRI of the original predicate -/
theorem convert_pred (t : Triple) (rt : RTriple) (h : convertTriple t = some rt) : t.2.1 = .iri (predOf rt) := by
  obtain ⟨s, p, o⟩ := t
  simp only [convertTriple] at h
  rw [convertT.eq_def] at h
  simp only at h
  split at h
  · simp at h
  · split at h
    · split at h
      · simp at h
      · simp at h; subst h; rfl
    · simp at h

/-! ## when the serialiser fails -/

/-- the formatter accepts the triple: neither subject nor object is a quoted triple -/
def fmtOK : RTriple → Bool
  | .mk s _ o => !isTripleS s && !isTripleO o

theorem formatAll_isSome (rts : List RTriple) : ∀ cur : Option Owned,
    (formatAll cur rts).isSome = rts.all fmtOK := by
  induction rts with
  | nil => intro cur; rfl
  | cons t ts ih =>
    intro cur
    cases t with
    | mk s p o =>
      simp only [formatAll, List.all_cons, fmtOK]
      rw [← formatTriple_isSome cur s p o]
      cases h1 : formatTriple cur (.mk s p o) with
      | none => simp
      | some r1 =>
        obtain ⟨c1, e1⟩ := r1
        simp only [Option.isSome_some, Bool.true_and]
        rw [← ih c1]
        cases formatAll c1 ts <;> simp

/-! ## byte counts -/

theorem utf8Len_append (a b : Str) : utf8Len (a ++ b) = utf8Len a + utf8Len b := by
  simp [utf8Len, List.sum_append]

end SophiaProofs.XmlWF
