/-
C13 — lemmas relating the implementation model of `bgp_rec` / `populate_bindings` / `SparqlMatcher`
(Model/Sparql.lean) to the algebra's notion of a pattern instance mapping (Model/SparqlSpec.lean).
-/
import SophiaModel.Model.Sparql
import SophiaModel.Model.SparqlDev
import SophiaProofs.Props.C02
import Mathlib.Data.List.Forall2

namespace SophiaProofs.SparqlL
open SophiaModel SophiaModel.Term SophiaModel.SparqlSpec SophiaModel.Sparql
open SophiaProofs.C02 (termEq_refl termEq_symm termEq_trans)

/-! ### semantic view of bindings -/

abbrev Sem := Key → Option Term

def semB (b : Binding) : Sem
  | .var x => b.v.get x
  | .bn l => b.b.get l

def semM (μ : Mu) : Sem := fun k => μ.get k

/-- impose one equation, on lookup functions -/
def addS (f : Sem) (c : Key × Term) : Option Sem :=
  match f c.1 with
  | some t => if termEq t c.2 then some f else none
  | none => some (fun k => if k = c.1 then some c.2 else f k)

def solveS (f : Sem) (cs : List (Key × Term)) : Option Sem := cs.foldlM addS f

/-- the same on `Binding` (what `populate_bindings_term` does at a variable / placeholder) -/
def addB (b : Binding) (c : Key × Term) : Option Binding :=
  match c.1 with
  | .var x => match b.v.get x with
    | some t => if termEq t c.2 then some b else none
    | none => some { b with v := b.v.insert x c.2 }
  | .bn l => match b.b.get l with
    | some t => if termEq t c.2 then some b else none
    | none => some { b with b := b.b.insert l c.2 }

theorem lookup_cons_key {β : Type} (k k' : Key) (t : β) (l : List (Key × β)) :
    List.lookup k ((k', t) :: l) = if k = k' then some t else List.lookup k l := by
  rw [List.lookup_cons]
  by_cases h : k = k'
  · simp [h]
  · have : (k == k') = false := by simpa using h
    simp [this, h]

theorem lookup_cons_str {β : Type} (k k' : Str) (t : β) (l : List (Str × β)) :
    List.lookup k ((k', t) :: l) = if k = k' then some t else List.lookup k l := by
  rw [List.lookup_cons]
  by_cases h : k = k'
  · simp [h]
  · have : (k == k') = false := by simpa using h
    simp [this, h]

theorem addC_sem (μ : Mu) (c : Key × Term) : (addC μ c).map semM = addS (semM μ) c := by
  unfold addC addS
  simp only [semM]
  cases h : Mu.get μ c.1 with
  | some t => by_cases ht : termEq t c.2 = true <;> simp [ht]
  | none =>
    simp only [Option.map_some, Option.some.injEq]
    funext k
    simp only [Mu.get] at h ⊢
    obtain ⟨ck, ct⟩ := c
    simp only [semM, Mu.get]
    rw [lookup_cons_key]

theorem addB_sem (b : Binding) (c : Key × Term) : (addB b c).map semB = addS (semB b) c := by
  obtain ⟨ck, ct⟩ := c
  cases ck with
  | var x =>
    simp only [addB, addS, semB]
    cases h : BMap.get b.v x with
    | some t => by_cases ht : termEq t ct = true <;> simp [ht]
    | none =>
      simp only [Option.map_some, Option.some.injEq]
      funext k
      cases k with
      | var y =>
        simp only [semB, BMap.insert, BMap.get, lookup_cons_str]
        by_cases hy : y = x <;> simp [hy]
      | bn l => simp [semB]
  | bn x =>
    simp only [addB, addS, semB]
    cases h : BMap.get b.b x with
    | some t => by_cases ht : termEq t ct = true <;> simp [ht]
    | none =>
      simp only [Option.map_some, Option.some.injEq]
      funext k
      cases k with
      | bn y =>
        simp only [semB, BMap.insert, BMap.get, lookup_cons_str]
        by_cases hy : y = x <;> simp [hy]
      | var l => simp [semB]

theorem foldlM_sem {α : Type} (sem : α → Sem) (add : α → Key × Term → Option α)
    (h : ∀ a c, (add a c).map sem = addS (sem a) c) (cs : List (Key × Term)) (a : α) :
    (cs.foldlM add a).map sem = solveS (sem a) cs := by
  induction cs generalizing a with
  | nil => simp [solveS]
  | cons c cs ih =>
    simp only [List.foldlM_cons, solveS]
    have hc := h a c
    cases hac : add a c with
    | none => rw [hac] at hc; simp at hc; simp [← hc]
    | some a' =>
      rw [hac] at hc; simp at hc
      simp only [Option.bind_eq_bind, Option.bind_some, ← hc]
      exact ih a'

theorem solve_sem (μ : Mu) (cs : List (Key × Term)) : (solve μ cs).map semM = solveS (semM μ) cs :=
  foldlM_sem semM addC addC_sem cs μ

theorem foldB_sem (b : Binding) (cs : List (Key × Term)) :
    (cs.foldlM addB b).map semB = solveS (semB b) cs :=
  foldlM_sem semB addB addB_sem cs b


def popOfOpt : Option Binding → Pop
  | some b => .ok b
  | none => .reject

def popBind (r : Pop) (f : Binding → Pop) : Pop :=
  match r with
  | .ok b => f b
  | r => r

theorem popOfOpt_bind (x : Option Binding) (g : Binding → Option Binding) :
    popOfOpt (x >>= g) = popBind (popOfOpt x) (fun b => popOfOpt (g b)) := by
  cases x <;> simp [popOfOpt, popBind]

theorem populateTerm_triple (ps pp po s p o : Term) (b : Binding) :
    populateTerm (.triple ps pp po) (.triple s p o) b =
      popBind (populateTerm ps s b) (fun b₁ => popBind (populateTerm pp p b₁) (fun b₂ => populateTerm po o b₂)) := by
  rw [populateTerm]
  cases populateTerm ps s b <;> simp [popBind]
  rename_i b₁
  cases populateTerm pp p b₁ <;> simp

theorem populateTerm_constraints (pat : Term) : ∀ (t : Term) (b : Binding) (cs : List (Key × Term)),
    constraints pat t = some cs → populateTerm pat t b = popOfOpt (cs.foldlM addB b) := by
  induction pat with
  | iri s =>
    intro t b cs h
    simp only [constraints] at h
    split at h <;> simp at h
    subst h
    rename_i hc
    simp [populateTerm, hc, popOfOpt]
  | lit l d =>
    intro t b cs h
    simp only [constraints] at h
    split at h <;> simp at h
    subst h
    rename_i hc
    simp [populateTerm, hc, popOfOpt]
  | lang l d =>
    intro t b cs h
    simp only [constraints] at h
    split at h <;> simp at h
    subst h
    rename_i hc
    simp [populateTerm, hc, popOfOpt]
  | bnode l =>
    intro t b cs h
    simp only [constraints, Option.some.injEq] at h
    subst h
    simp only [populateTerm, List.foldlM_cons, List.foldlM_nil, addB]
    cases b.b.get l with
    | none => simp [popOfOpt]
    | some t' => by_cases ht : termEq t' t = true <;> simp [ht, popOfOpt]
  | var x =>
    intro t b cs h
    simp only [constraints, Option.some.injEq] at h
    subst h
    simp only [populateTerm, List.foldlM_cons, List.foldlM_nil, addB]
    cases b.v.get x with
    | none => simp [popOfOpt]
    | some t' => by_cases ht : termEq t' t = true <;> simp [ht, popOfOpt]
  | triple ps pp po ihs ihp iho =>
    intro t b cs h
    cases t with
    | triple s p o =>
      simp only [constraints] at h
      cases h1 : constraints ps s with
      | none => simp [h1] at h
      | some a =>
        cases h2 : constraints pp p with
        | none => simp [h1, h2] at h
        | some c =>
          cases h3 : constraints po o with
          | none => simp [h1, h2, h3] at h
          | some e =>
            simp only [h1, h2, h3, Option.some.injEq] at h
            subst h
            rw [populateTerm_triple, List.append_assoc, List.foldlM_append, popOfOpt_bind]
            rw [ihs s b a h1]
            congr 1
            funext b₁
            rw [List.foldlM_append, popOfOpt_bind, ihp p b₁ c h2]
            congr 1
            funext b₂
            exact iho o b₂ e h3
    | _ => simp [constraints] at h


/-- `g` extends `f` -/
def Ext (f g : Sem) : Prop := ∀ k t, f k = some t → g k = some t

theorem Ext.refl (f : Sem) : Ext f f := fun _ _ h => h
theorem Ext.trans {f g h : Sem} (a : Ext f g) (b : Ext g h) : Ext f h := fun k t x => b k t (a k t x)

theorem addS_ext {f g : Sem} {c : Key × Term} (h : addS f c = some g) : Ext f g := by
  unfold addS at h
  cases hf : f c.1 with
  | some t =>
    rw [hf] at h
    by_cases ht : termEq t c.2 = true <;> simp [ht] at h
    subst h; exact Ext.refl f
  | none =>
    rw [hf] at h
    simp at h
    subst h
    intro k t hk
    by_cases hkc : k = c.1
    · subst hkc; rw [hf] at hk; cases hk
    · simp [hkc, hk]

theorem solveS_nil (f : Sem) : solveS f [] = some f := rfl

theorem solveS_cons (f : Sem) (c : Key × Term) (cs : List (Key × Term)) :
    solveS f (c :: cs) = (addS f c).bind (fun g => solveS g cs) := by
  simp [solveS, List.foldlM_cons]

theorem solveS_append (f : Sem) (a c : List (Key × Term)) :
    solveS f (a ++ c) = (solveS f a).bind (fun g => solveS g c) := by
  simp [solveS, List.foldlM_append]

theorem solveS_ext {f g : Sem} {cs : List (Key × Term)} (h : solveS f cs = some g) : Ext f g := by
  induction cs generalizing f with
  | nil => simp [solveS_nil] at h; subst h; exact Ext.refl f
  | cons c cs ih =>
    rw [solveS_cons] at h
    cases hc : addS f c with
    | none => simp [hc] at h
    | some f' =>
      simp [hc] at h
      exact (addS_ext hc).trans (ih h)

/-! ### the matcher built from a binding -/

def mterm : Matcher → Option Term
  | .bound t => some t
  | _ => none

theorem build_triple (b : Binding) (s p o : Term) :
    Matcher.build b (.triple s p o) =
      match mterm (Matcher.build b s), mterm (Matcher.build b p), mterm (Matcher.build b o) with
      | some s', some p', some o' => .bound (.triple s' p' o')
      | _, _, _ => .triple (Matcher.build b s) (Matcher.build b p) (Matcher.build b o) := by
  rw [Matcher.build]
  cases Matcher.build b s <;> cases Matcher.build b p <;> cases Matcher.build b o <;> simp [mterm]

theorem term?_eq_some {m : Matcher} {t : Term} (h : mterm m = some t) : m = .bound t := by
  cases m <;> simp [mterm] at h
  subst h; rfl

/-- a position whose matcher is `Bound(t')`: the equations of `pat = t` are solvable over any
extension of the binding iff `t' = t`, and then they add nothing -/
theorem bound_solve (b : Binding) (pat : Term) : ∀ (t t' : Term) (f : Sem) (cs : List (Key × Term)),
    Matcher.build b pat = .bound t' → Ext (semB b) f → constraints pat t = some cs →
    solveS f cs = if termEq t' t then some f else none := by
  induction pat with
  | iri s =>
    intro t t' f cs hb _ hc
    simp only [Matcher.build, Matcher.bound.injEq] at hb; subst hb
    simp only [constraints] at hc
    split at hc <;> simp at hc
    subst hc; rename_i h; simp [h, solveS_nil]
  | lit l d =>
    intro t t' f cs hb _ hc
    simp only [Matcher.build, Matcher.bound.injEq] at hb; subst hb
    simp only [constraints] at hc
    split at hc <;> simp at hc
    subst hc; rename_i h; simp [h, solveS_nil]
  | lang l d =>
    intro t t' f cs hb _ hc
    simp only [Matcher.build, Matcher.bound.injEq] at hb; subst hb
    simp only [constraints] at hc
    split at hc <;> simp at hc
    subst hc; rename_i h; simp [h, solveS_nil]
  | bnode l =>
    intro t t' f cs hb he hc
    simp only [Matcher.build] at hb
    cases hg : b.b.get l with
    | none => simp [hg] at hb
    | some u =>
      simp [hg] at hb; subst hb
      simp only [constraints, Option.some.injEq] at hc; subst hc
      have : f (.bn l) = some u := he (.bn l) u (by simp [semB, hg])
      by_cases h : termEq u t = true <;> simp [solveS_cons, addS, this, solveS_nil, h]
  | var x =>
    intro t t' f cs hb he hc
    simp only [Matcher.build] at hb
    cases hg : b.v.get x with
    | none => simp [hg] at hb
    | some u =>
      simp [hg] at hb; subst hb
      simp only [constraints, Option.some.injEq] at hc; subst hc
      have : f (.var x) = some u := he (.var x) u (by simp [semB, hg])
      by_cases h : termEq u t = true <;> simp [solveS_cons, addS, this, solveS_nil, h]
  | triple ps pp po ihs ihp iho =>
    intro t t' f cs hb he hc
    rw [build_triple] at hb
    cases h1 : mterm (Matcher.build b ps) with
    | none => simp [h1] at hb
    | some s' =>
      cases h2 : mterm (Matcher.build b pp) with
      | none => simp [h1, h2] at hb
      | some p' =>
        cases h3 : mterm (Matcher.build b po) with
        | none => simp [h1, h2, h3] at hb
        | some o' =>
          simp [h1, h2, h3] at hb; subst hb
          cases t with
          | triple s p o =>
            simp only [constraints] at hc
            cases c1 : constraints ps s with
            | none => simp [c1] at hc
            | some a =>
              cases c2 : constraints pp p with
              | none => simp [c1, c2] at hc
              | some c =>
                cases c3 : constraints po o with
                | none => simp [c1, c2, c3] at hc
                | some e =>
                  simp only [c1, c2, c3, Option.some.injEq] at hc; subst hc
                  rw [List.append_assoc, solveS_append, ihs s s' f a (term?_eq_some h1) he c1]
                  by_cases e1 : termEq s' s = true
                  · simp only [e1, if_true, Option.bind_some]
                    rw [solveS_append, ihp p p' f c (term?_eq_some h2) he c2]
                    by_cases e2 : termEq p' p = true
                    · simp only [e2, if_true, Option.bind_some]
                      rw [iho o o' f e (term?_eq_some h3) he c3]
                      simp [termEq, e1, e2]
                    · simp [termEq, e1, e2]
                  · simp [termEq, e1]
          | _ => simp [constraints] at hc


theorem matches_build_triple (b : Binding) (ps pp po s p o : Term) :
    (Matcher.build b (.triple ps pp po)).matches (.triple s p o) =
      ((Matcher.build b ps).matches s && (Matcher.build b pp).matches p && (Matcher.build b po).matches o) := by
  rw [build_triple]
  cases h1 : mterm (Matcher.build b ps) <;> cases h2 : mterm (Matcher.build b pp) <;>
    cases h3 : mterm (Matcher.build b po) <;> simp only [Matcher.matches]
  rw [term?_eq_some h1, term?_eq_some h2, term?_eq_some h3]
  simp [Matcher.matches, termEq]

theorem matches_build_triple_other (b : Binding) (ps pp po t : Term)
    (ht : ∀ s p o, t ≠ .triple s p o) : (Matcher.build b (.triple ps pp po)).matches t = false := by
  rw [build_triple]
  cases h1 : mterm (Matcher.build b ps) <;> cases h2 : mterm (Matcher.build b pp) <;>
    cases h3 : mterm (Matcher.build b po) <;> cases t <;> simp_all [Matcher.matches, termEq]

/-- the pre-filter is complete for the shape: whatever it lets through has equations -/
theorem matches_constraints (b : Binding) (pat : Term) : ∀ t : Term,
    (Matcher.build b pat).matches t = true → ∃ cs, constraints pat t = some cs := by
  induction pat with
  | iri s => intro t h; simp only [Matcher.build, Matcher.matches] at h; exact ⟨[], by simp [constraints, h]⟩
  | lit l d => intro t h; simp only [Matcher.build, Matcher.matches] at h; exact ⟨[], by simp [constraints, h]⟩
  | lang l d => intro t h; simp only [Matcher.build, Matcher.matches] at h; exact ⟨[], by simp [constraints, h]⟩
  | bnode l => intro t _; exact ⟨_, rfl⟩
  | var x => intro t _; exact ⟨_, rfl⟩
  | triple ps pp po ihs ihp iho =>
    intro t h
    cases t with
    | triple s p o =>
      rw [matches_build_triple] at h
      simp only [Bool.and_eq_true] at h
      obtain ⟨a, ha⟩ := ihs s h.1.1
      obtain ⟨c, hc⟩ := ihp p h.1.2
      obtain ⟨e, he⟩ := iho o h.2
      exact ⟨a ++ c ++ e, by simp [constraints, ha, hc, he]⟩
    | _ => exact absurd h (by rw [matches_build_triple_other _ _ _ _ _ (by intro s p o; simp)]; simp)

/-- the pre-filter is sound: a triple it rejects cannot be unified with the pattern under any
extension of the binding -/
theorem not_matches_solve (b : Binding) (pat : Term) : ∀ (t : Term) (f : Sem) (cs : List (Key × Term)),
    (Matcher.build b pat).matches t = false → Ext (semB b) f → constraints pat t = some cs →
    solveS f cs = none := by
  have bound_case : ∀ (pat t t' : Term) (f : Sem) (cs : List (Key × Term)), Matcher.build b pat = .bound t' →
      (Matcher.build b pat).matches t = false → Ext (semB b) f → constraints pat t = some cs →
      solveS f cs = none := by
    intro pat t t' f cs hb hm he hc
    rw [bound_solve b pat t t' f cs hb he hc]
    rw [hb] at hm
    simp only [Matcher.matches] at hm
    simp [hm]
  induction pat with
  | iri s => intro t f cs hm he hc; exact bound_case _ t _ f cs rfl hm he hc
  | lit l d => intro t f cs hm he hc; exact bound_case _ t _ f cs rfl hm he hc
  | lang l d => intro t f cs hm he hc; exact bound_case _ t _ f cs rfl hm he hc
  | bnode l =>
    intro t f cs hm he hc
    cases hg : b.b.get l with
    | none => simp [Matcher.build, hg, Matcher.matches] at hm
    | some u => exact bound_case _ t u f cs (by simp [Matcher.build, hg]) hm he hc
  | var x =>
    intro t f cs hm he hc
    cases hg : b.v.get x with
    | none => simp [Matcher.build, hg, Matcher.matches] at hm
    | some u => exact bound_case _ t u f cs (by simp [Matcher.build, hg]) hm he hc
  | triple ps pp po ihs ihp iho =>
    intro t f cs hm he hc
    cases t with
    | triple s p o =>
      rw [matches_build_triple] at hm
      simp only [constraints] at hc
      cases c1 : constraints ps s with
      | none => simp [c1] at hc
      | some a =>
        cases c2 : constraints pp p with
        | none => simp [c1, c2] at hc
        | some c =>
          cases c3 : constraints po o with
          | none => simp [c1, c2, c3] at hc
          | some e =>
            simp only [c1, c2, c3, Option.some.injEq] at hc; subst hc
            rw [List.append_assoc, solveS_append]
            cases m1 : (Matcher.build b ps).matches s with
            | false => rw [ihs s f a m1 he c1]; rfl
            | true =>
              cases r1 : solveS f a with
              | none => rfl
              | some f₁ =>
                have he₁ : Ext (semB b) f₁ := he.trans (solveS_ext r1)
                simp only [Option.bind_some]
                rw [solveS_append]
                cases m2 : (Matcher.build b pp).matches p with
                | false => rw [ihp p f₁ c m2 he₁ c2]; rfl
                | true =>
                  cases r2 : solveS f₁ c with
                  | none => rfl
                  | some f₂ =>
                    have he₂ : Ext (semB b) f₂ := he₁.trans (solveS_ext r2)
                    simp only [Option.bind_some]
                    have m3 : (Matcher.build b po).matches o = false := by simpa [m1, m2] using hm
                    exact iho o f₂ e m3 he₂ c3
    | _ => simp [constraints] at hc


/-! ### `bgp_rec` against the instance mappings -/

/-- the triples the graph matcher `gm` lets through: the active graph -/
def activeGraph (D : List Quad) (gm : List (Option Term)) : Graph := graphOf D (gmMatches gm)

def TripleNodup (G : Graph) : Prop := G.Pairwise (fun a b => tripleEq a b = false)

def pre (b : Binding) (tp : TP) (t : Triple) : Bool :=
  (Matcher.build b tp.s).matches t.1 && (Matcher.build b tp.p).matches t.2.1 && (Matcher.build b tp.o).matches t.2.2

theorem quadsMatching_eq (D : List Quad) (gm : List (Option Term)) (b : Binding) (tp : TP) :
    quadsMatching D (Matcher.build b tp.s) (Matcher.build b tp.p) (Matcher.build b tp.o) gm =
      (activeGraph D gm).filter (pre b tp) := by
  unfold quadsMatching activeGraph graphOf pre
  rw [List.filter_map, List.filter_filter]
  congr 1

theorem solve_append (μ : Mu) (a c : List (Key × Term)) :
    solve μ (a ++ c) = (solve μ a).bind (fun μ' => solve μ' c) := by
  simp [solve, List.foldlM_append]

/-- spec side, one pattern at a time -/
def specStep (μ : Mu) (tp : TP) (t : Triple) : Option Mu := (constraintsTP tp t).bind (solve μ)

theorem instancesFrom_nil (μ : Mu) (G : Graph) : instancesFrom μ G [] = [μ] := by
  simp [instancesFrom, choices, allConstraints, solve]

theorem instancesFrom_cons (μ : Mu) (G : Graph) (tp : TP) (rest : List TP) :
    instancesFrom μ G (tp :: rest) =
      G.flatMap (fun t => match specStep μ tp t with
        | some μ' => instancesFrom μ' G rest
        | none => []) := by
  simp only [instancesFrom, List.length_cons, choices, List.filterMap_flatMap, List.filterMap_map]
  congr 1
  funext t
  simp only [specStep]
  cases hc : constraintsTP tp t with
  | none => simp [Function.comp, allConstraints, hc]
  | some a =>
    simp only [Option.bind_some]
    cases hs : solve μ a with
    | none =>
      simp only [Function.comp, allConstraints, hc]
      apply List.filterMap_eq_nil_iff.2
      intro ts _
      cases allConstraints rest ts <;> simp [solve_append, hs]
    | some μ' =>
      simp only [Function.comp, allConstraints, hc]
      apply List.filterMap_congr
      intro ts _
      cases allConstraints rest ts <;> simp [solve_append, hs]

theorem populate_eq (tp : TP) (t : Triple) (b : Binding) :
    populate tp t b = populateTerm (.triple tp.s tp.p tp.o) (.triple t.1 t.2.1 t.2.2) b := by
  rw [populateTerm_triple]
  unfold populate popBind
  cases populateTerm tp.s t.1 b <;> simp
  rename_i b₁
  cases populateTerm tp.p t.2.1 b₁ <;> simp

theorem constraintsTP_eq (tp : TP) (t : Triple) :
    constraintsTP tp t = constraints (.triple tp.s tp.p tp.o) (.triple t.1 t.2.1 t.2.2) := by
  simp [constraintsTP, constraints]

theorem pre_eq (b : Binding) (tp : TP) (t : Triple) :
    pre b tp t = (Matcher.build b (.triple tp.s tp.p tp.o)).matches (.triple t.1 t.2.1 t.2.2) := by
  rw [matches_build_triple]; rfl

def RelB (ob : Option Binding) (μ : Mu) : Prop := ∃ b, ob = some b ∧ semB b = semM μ

/-- a rejected triple contributes nothing on the specification side either -/
theorem specStep_of_not_pre (b : Binding) (μ : Mu) (hb : semB b = semM μ) (tp : TP) (t : Triple)
    (h : pre b tp t = false) : specStep μ tp t = none := by
  unfold specStep
  cases hc : constraintsTP tp t with
  | none => rfl
  | some cs =>
    simp only [Option.bind_some]
    rw [pre_eq] at h
    rw [constraintsTP_eq] at hc
    have := not_matches_solve b _ _ (semM μ) cs h (by rw [hb]; exact Ext.refl _) hc
    rw [← solve_sem] at this
    cases hs : solve μ cs with
    | none => rfl
    | some _ => simp [hs] at this

/-- an accepted triple: `populate_bindings` and the equation solver agree -/
theorem step_agree (b : Binding) (μ : Mu) (hb : semB b = semM μ) (tp : TP) (t : Triple)
    (h : pre b tp t = true) :
    (∃ b' μ', populate tp t b = .ok b' ∧ specStep μ tp t = some μ' ∧ semB b' = semM μ') ∨
    (populate tp t b = .reject ∧ specStep μ tp t = none) := by
  rw [pre_eq] at h
  obtain ⟨cs, hc⟩ := matches_constraints b _ _ h
  have hp := populateTerm_constraints _ _ b cs hc
  rw [← populate_eq] at hp
  rw [← constraintsTP_eq] at hc
  have e1 := foldB_sem b cs
  have e2 := solve_sem μ cs
  rw [hb] at e1
  simp only [specStep, hc, Option.bind_some]
  rw [hp]
  cases hf : List.foldlM addB b cs with
  | none =>
    right
    rw [hf] at e1
    simp only [Option.map_none] at e1
    rw [← e1] at e2
    cases hs : solve μ cs with
    | none => exact ⟨rfl, rfl⟩
    | some _ => simp [hs] at e2
  | some b' =>
    left
    rw [hf] at e1
    simp only [Option.map_some] at e1
    rw [← e1] at e2
    cases hs : solve μ cs with
    | none => simp [hs] at e2
    | some μ' =>
      simp only [hs, Option.map_some, Option.some.injEq] at e2
      exact ⟨b', μ', rfl, rfl, e2.symm⟩

/-- fully bound pattern: an accepted triple leaves the mapping unchanged -/
theorem step_allBound (b : Binding) (μ : Mu) (hb : semB b = semM μ) (tp : TP) (t : Triple)
    (hall : ((Matcher.build b tp.s).isBound && (Matcher.build b tp.p).isBound && (Matcher.build b tp.o).isBound) = true)
    (h : pre b tp t = true) : ∃ μ', specStep μ tp t = some μ' ∧ semM μ' = semM μ := by
  simp only [Bool.and_eq_true] at hall
  obtain ⟨⟨h1, h2⟩, h3⟩ := hall
  have hbuild : ∃ t', Matcher.build b (.triple tp.s tp.p tp.o) = .bound t' := by
    rw [build_triple]
    cases m1 : Matcher.build b tp.s <;> simp [m1, Matcher.isBound] at h1
    cases m2 : Matcher.build b tp.p <;> simp [m2, Matcher.isBound] at h2
    cases m3 : Matcher.build b tp.o <;> simp [m3, Matcher.isBound] at h3
    rename_i s' p' o'
    exact ⟨.triple s' p' o', by simp [mterm]⟩
  obtain ⟨t', ht'⟩ := hbuild
  rw [pre_eq] at h
  obtain ⟨cs, hc⟩ := matches_constraints b _ _ h
  have hs := bound_solve b _ _ t' (semM μ) cs ht' (by rw [hb]; exact Ext.refl _) hc
  rw [ht'] at h
  simp only [Matcher.matches] at h
  rw [h] at hs
  simp only [if_true] at hs
  rw [← solve_sem] at hs
  rw [← constraintsTP_eq] at hc
  cases hsv : solve μ cs with
  | none => simp [hsv] at hs
  | some μ' =>
    simp only [hsv, Option.map_some, Option.some.injEq] at hs
    exact ⟨μ', by simp [specStep, hc, hsv], hs⟩

theorem pre_allBound_tripleEq (b : Binding) (tp : TP) (t u : Triple)
    (hall : ((Matcher.build b tp.s).isBound && (Matcher.build b tp.p).isBound && (Matcher.build b tp.o).isBound) = true)
    (h1 : pre b tp t = true) (h2 : pre b tp u = true) : tripleEq t u = true := by
  simp only [Bool.and_eq_true] at hall
  obtain ⟨⟨a1, a2⟩, a3⟩ := hall
  unfold pre at h1 h2
  cases m1 : Matcher.build b tp.s <;> simp [m1, Matcher.isBound] at a1
  cases m2 : Matcher.build b tp.p <;> simp [m2, Matcher.isBound] at a2
  cases m3 : Matcher.build b tp.o <;> simp [m3, Matcher.isBound] at a3
  simp only [m1, m2, m3, Matcher.matches, Bool.and_eq_true] at h1 h2
  simp only [tripleEq, Bool.and_eq_true]
  refine ⟨⟨?_, ?_⟩, ?_⟩
  · exact termEq_trans _ _ _ (by rw [termEq_symm]; exact h1.1.1) h2.1.1
  · exact termEq_trans _ _ _ (by rw [termEq_symm]; exact h1.1.2) h2.1.2
  · exact termEq_trans _ _ _ (by rw [termEq_symm]; exact h1.2) h2.2

/-! list plumbing -/

theorem forall2_flatMap_filter {α β γ : Type} (R : β → γ → Prop) (p : α → Bool) (f : α → List β) (g : α → List γ)
    (l : List α) (h0 : ∀ a, p a = false → g a = []) (h1 : ∀ a, p a = true → List.Forall₂ R (f a) (g a)) :
    List.Forall₂ R ((l.filter p).flatMap f) (l.flatMap g) := by
  induction l with
  | nil => exact List.Forall₂.nil
  | cons a l ih =>
    cases hp : p a with
    | false => simp only [List.filter_cons, hp, List.flatMap_cons, h0 a hp, List.nil_append]; exact ih
    | true =>
      simp only [List.filter_cons, hp, if_true, List.flatMap_cons]
      exact List.rel_append (h1 a hp) ih

theorem forall2_unique {α β γ : Type} (R : β → γ → Prop) (E : α → α → Bool) (p : α → Bool) (X : List β) (g : α → List γ)
    (l : List α) (hl : l.Pairwise (fun a b => E a b = false))
    (hE : ∀ a b, p a = true → p b = true → E a b = true)
    (h0 : ∀ a, p a = false → g a = []) (h1 : ∀ a, p a = true → List.Forall₂ R X (g a)) :
    List.Forall₂ R (if (l.filter p) = [] then [] else X) (l.flatMap g) := by
  induction l with
  | nil => exact List.Forall₂.nil
  | cons a l ih =>
    rw [List.pairwise_cons] at hl
    cases hp : p a with
    | false =>
      simp only [List.filter_cons, hp, List.flatMap_cons, h0 a hp, List.nil_append]
      exact ih hl.2
    | true =>
      have hnone : ∀ c ∈ l, p c = false := by
        intro c hc
        cases hpc : p c with
        | false => rfl
        | true => have := hE a c hp hpc; rw [hl.1 c hc] at this; cases this
      have : l.flatMap g = [] := by
        apply List.flatMap_eq_nil_iff.2
        intro c hc; exact h0 c (hnone c hc)
      simp only [List.filter_cons, hp, if_true, List.flatMap_cons, this, List.append_nil]
      simp only [List.cons_ne_nil, if_false]
      exact h1 a hp

theorem dropLast_flatMap_getLast {α β : Type} (l : List α) (last : α) (f : α → List β)
    (h : l.getLast? = some last) : l.dropLast.flatMap f ++ f last = l.flatMap f := by
  have := List.dropLast_append_getLast? last h
  conv_rhs => rw [← this]
  simp

/-- **the recursive matcher enumerates exactly the pattern instance mappings**, in the same order,
and never panics -/
theorem bgpRec_correct (D : List Quad) (gm : List (Option Term)) (hG : TripleNodup (activeGraph D gm)) :
    ∀ (ps : List TP) (b : Binding) (μ : Mu), semB b = semM μ →
      List.Forall₂ RelB (bgpRec D gm ps b) (instancesFrom μ (activeGraph D gm) ps) := by
  intro ps
  induction ps with
  | nil =>
    intro b μ hb
    rw [instancesFrom_nil]
    exact List.Forall₂.cons ⟨b, rfl, hb⟩ List.Forall₂.nil
  | cons tp rest ih =>
    intro b μ hb
    rw [instancesFrom_cons]
    simp only [bgpRec]
    rw [quadsMatching_eq]
    have h0 : ∀ t, pre b tp t = false → (match specStep μ tp t with
        | some μ' => instancesFrom μ' (activeGraph D gm) rest
        | none => []) = [] := by
      intro t ht; rw [specStep_of_not_pre b μ hb tp t ht]
    cases hlast : ((activeGraph D gm).filter (pre b tp)).getLast? with
    | none =>
      have hnil : (activeGraph D gm).filter (pre b tp) = [] := List.getLast?_eq_none_iff.1 hlast
      simp only []
      have : (activeGraph D gm).flatMap (fun t => match specStep μ tp t with
          | some μ' => instancesFrom μ' (activeGraph D gm) rest
          | none => []) = [] := by
        apply List.flatMap_eq_nil_iff.2
        intro t ht
        apply h0
        cases hp : pre b tp t with
        | false => rfl
        | true =>
          have : t ∈ (activeGraph D gm).filter (pre b tp) := List.mem_filter.2 ⟨ht, hp⟩
          rw [hnil] at this; cases this
      rw [this]; exact List.Forall₂.nil
    | some last =>
      simp only []
      by_cases hall : ((Matcher.build b tp.s).isBound && (Matcher.build b tp.p).isBound && (Matcher.build b tp.o).isBound) = true
      · simp only [hall, if_true]
        have hne : (activeGraph D gm).filter (pre b tp) ≠ [] := by
          intro h; rw [h] at hlast; cases hlast
        have := forall2_unique RelB tripleEq (pre b tp) (bgpRec D gm rest b)
          (fun t => match specStep μ tp t with
            | some μ' => instancesFrom μ' (activeGraph D gm) rest
            | none => []) (activeGraph D gm) hG
          (fun t u h1 h2 => pre_allBound_tripleEq b tp t u hall h1 h2) h0
          (fun t ht => by
            obtain ⟨μ', hs, hm⟩ := step_allBound b μ hb tp t hall ht
            rw [hs]
            exact ih b μ' (hb.trans hm.symm))
        simpa [hne] using this
      · simp only [hall, Bool.false_eq_true, if_false]
        rw [dropLast_flatMap_getLast _ last _ hlast]
        apply forall2_flatMap_filter RelB (pre b tp) _ _ _ h0
        intro t ht
        unfold stepMatch
        rcases step_agree b μ hb tp t ht with ⟨b', μ', h1, h2, h3⟩ | ⟨h1, h2⟩
        · rw [h1, h2]; exact ih b' μ' h3
        · rw [h1, h2]; exact List.Forall₂.nil

/-! ### `ExecState::bgp`, datasets -/

/-- an implementation row and a solution mapping bind the same variables to the same terms -/
def RelRow (b : Binding) (μ : Mu) : Prop := ∀ x, b.v.get x = μ.get (.var x)

theorem lookup_filter_key {β : Type} (p : Key → Bool) (l : List (Key × β)) (k : Key) :
    List.lookup k (l.filter (fun kt => p kt.1)) = if p k then List.lookup k l else none := by
  induction l with
  | nil => simp
  | cons a l ih =>
    obtain ⟨k', v⟩ := a
    rw [List.filter_cons]
    by_cases hp : p k' = true
    · simp only [hp, if_true]
      rw [lookup_cons_key, lookup_cons_key, ih]
      by_cases hk : k = k'
      · subst hk; simp [hp]
      · simp [hk]
    · have hp' : p k' = false := by simpa using hp
      simp only [hp', Bool.false_eq_true, if_false]
      rw [lookup_cons_key, ih]
      by_cases hk : k = k'
      · subst hk; simp [hp']
      · simp [hk]

theorem lookup_isSome_of_mem {β : Type} (l : List (Key × β)) (kt : Key × β) (h : kt ∈ l) :
    ∃ t, List.lookup kt.1 l = some t := by
  induction l with
  | nil => cases h
  | cons a l ih =>
    obtain ⟨k', v⟩ := a
    rw [lookup_cons_key]
    by_cases hk : kt.1 = k'
    · exact ⟨v, by simp [hk]⟩
    · simp only [hk, if_false]
      rcases List.mem_cons.1 h with h | h
      · subst h; exact absurd rfl hk
      · exact ih h

theorem mem_of_lookup {β : Type} (l : List (Key × β)) (k : Key) (t : β) (h : List.lookup k l = some t) :
    (k, t) ∈ l := by
  induction l with
  | nil => simp at h
  | cons a l ih =>
    obtain ⟨k', v⟩ := a
    rw [lookup_cons_key] at h
    by_cases hk : k = k'
    · simp [hk] at h; subst h; subst hk; exact List.mem_cons_self
    · simp [hk] at h; exact List.mem_cons_of_mem _ (ih h)

def isVarK : Key → Bool
  | .var _ => true
  | .bn _ => false

theorem dropBn_get (μ : Mu) (x : Str) : (dropBn μ).get (.var x) = μ.get (.var x) := by
  unfold dropBn Mu.get
  have : μ.filter isVarKey = μ.filter (fun kt => isVarK kt.1) := by
    congr 1; funext kt; obtain ⟨k, t⟩ := kt; cases k <;> rfl
  rw [this, lookup_filter_key isVarK]
  simp [isVarK]

theorem relRow_of_sem {b : Binding} {μ : Mu} (h : semB b = semM μ) : RelRow b (dropBn μ) := by
  intro x
  rw [dropBn_get]
  exact congrFun h (.var x)

theorem forall2_relB_rows {l : List (Option Binding)} {Ω : List Mu} (h : List.Forall₂ RelB l Ω) :
    l.any Option.isNone = false ∧ List.Forall₂ RelRow (l.filterMap id) (Ω.map dropBn) := by
  induction h with
  | nil => exact ⟨rfl, List.Forall₂.nil⟩
  | cons hab _ ih =>
    obtain ⟨b, rfl, hb⟩ := hab
    refine ⟨by simpa using ih.1, ?_⟩
    simp only [List.filterMap_cons, id, List.map_cons]
    exact List.Forall₂.cons (relRow_of_sem hb) ih.2

/-- **bgp_correct**: over a duplicate-free active graph `ExecState::bgp` succeeds (no panic) and its
rows are, one for one and in order, the algebra's `[[BGP]]` (placeholders projected away),
whatever the initial binding -/
theorem bgp_correct_from (D : List Quad) (gm : List (Option Term)) (hG : TripleNodup (activeGraph D gm))
    (ps : List TP) (binding : Option Binding) (μ₀ : Mu) (h₀ : semB (binding.getD {}) = semM μ₀) :
    ∃ r, Sparql.bgp D ps gm binding = .ok r ∧ r.vars = populateVariables ps binding ∧
      List.Forall₂ RelRow r.rows ((instancesFrom μ₀ (activeGraph D gm) ps).map dropBn) := by
  have h := forall2_relB_rows (bgpRec_correct D gm hG ps (binding.getD {}) μ₀ h₀)
  refine ⟨{ vars := populateVariables ps binding, rows := (bgpRec D gm ps (binding.getD {})).filterMap id }, ?_, rfl, h.2⟩
  simp [Sparql.bgp, h.1]

/-- no `unwrap`/`debug_assert!` of `populate_bindings` can fire on a triple the matcher let through -/
theorem populate_no_panic (b : Binding) (tp : TP) (t : Triple) (h : pre b tp t = true) :
    populate tp t b ≠ .panic := by
  rw [pre_eq] at h
  obtain ⟨cs, hc⟩ := matches_constraints b _ _ h
  rw [populate_eq, populateTerm_constraints _ _ b cs hc]
  cases List.foldlM addB b cs <;> simp [popOfOpt]

theorem bgpRec_no_panic (D : List Quad) (gm : List (Option Term)) :
    ∀ (ps : List TP) (b : Binding), none ∉ bgpRec D gm ps b := by
  intro ps
  induction ps with
  | nil => intro b; simp [bgpRec]
  | cons tp rest ih =>
    intro b
    simp only [bgpRec]
    rw [quadsMatching_eq]
    have hstep : ∀ t, pre b tp t = true → none ∉ stepMatch (bgpRec D gm rest) tp b t := by
      intro t ht
      unfold stepMatch
      have := populate_no_panic b tp t ht
      cases hp : populate tp t b with
      | ok b' => exact ih b'
      | reject => simp
      | panic => exact absurd hp this
    cases hlast : ((activeGraph D gm).filter (pre b tp)).getLast? with
    | none => simp
    | some last =>
      simp only []
      split
      · exact ih b
      · rw [dropLast_flatMap_getLast _ last _ hlast]
        intro hmem
        obtain ⟨t, ht, hin⟩ := List.mem_flatMap.1 hmem
        exact hstep t (List.mem_filter.1 ht).2 hin

theorem bgp_no_panic (D : List Quad) (ps : List TP) (gm : List (Option Term)) (binding : Option Binding) :
    Sparql.bgp D ps gm binding ≠ .error .panic := by
  unfold Sparql.bgp
  have h := bgpRec_no_panic D gm ps (binding.getD {})
  have : (bgpRec D gm ps (binding.getD {})).any Option.isNone = false := by
    rw [Bool.eq_false_iff]
    intro hc
    obtain ⟨x, hx, hn⟩ := List.any_eq_true.1 hc
    cases x with
    | none => exact h hx
    | some _ => simp at hn
  simp [this]

theorem semB_empty : semB {} = semM [] := by
  funext k; cases k <;> simp [semB, semM, BMap.get, Mu.get]

/-! ### datasets -/

def quadEq (a b : Quad) : Bool :=
  termEq a.s b.s && termEq a.p b.p && termEq a.o b.o && graphNameEq a.g b.g

/-- the store holds each quad once -/
def DataNodup (D : List Quad) : Prop := D.Pairwise (fun a b => quadEq a b = false)

theorem graphNameEq_trans_symm (g a b : Option Term) (h1 : graphNameEq g a = true) (h2 : graphNameEq g b = true) :
    graphNameEq a b = true := by
  cases g <;> cases a <;> cases b <;> simp_all [graphNameEq]
  exact termEq_trans _ _ _ (by rw [termEq_symm]; exact h1) h2

theorem activeGraph_single_nodup (D : List Quad) (hD : DataNodup D) (g : Option Term) :
    TripleNodup (activeGraph D [g]) := by
  unfold TripleNodup activeGraph graphOf
  rw [List.pairwise_map]
  apply List.Pairwise.imp_of_mem _ (hD.filter _)
  intro a b ha hb hq
  have ha' := (List.mem_filter.1 ha).2
  have hb' := (List.mem_filter.1 hb).2
  simp only [gmMatches, List.any_cons, List.any_nil, Bool.or_false] at ha' hb'
  have hg := graphNameEq_trans_symm g a.g b.g ha' hb'
  cases ht : tripleEq (a.s, a.p, a.o) (b.s, b.p, b.o) with
  | false => rfl
  | true =>
    simp only [tripleEq, Bool.and_eq_true] at ht
    simp [quadEq, ht.1.1, ht.1.2, ht.2, hg] at hq

theorem activeGraph_default (D : List Quad) : activeGraph D [none] = defaultGraph D := by
  unfold activeGraph defaultGraph
  congr 1
  funext g
  cases g <;> simp [gmMatches, graphNameEq]

theorem activeGraph_named (D : List Quad) (n : Term) : activeGraph D [some n] = namedGraph D n := by
  unfold activeGraph namedGraph
  congr 1
  funext g
  cases g <;> simp [gmMatches, graphNameEq, isName]

/-! ### group graph patterns -/

/-- the two expression evaluators agree on `e` (on related rows): same FILTER decision, same
BIND value / error -/
def ExprOK (e : Expr) : Prop :=
  ∀ (b : Binding) (μ : Mu), RelRow b μ →
    filterKeeps e b = holds e μ ∧ (Sparql.evalExpr b e).map ER.intoTerm = SparqlSpec.evalExpr μ e

theorem relRow_extend {b : Binding} {μ : Mu} (h : RelRow b μ) (x : Str) (e : Expr) (he : ExprOK e) :
    RelRow (extendRow x e b) (match SparqlSpec.evalExpr μ e with
      | some t => (Key.var x, t) :: μ
      | none => μ) := by
  have := (he b μ h).2
  unfold extendRow
  cases hv : Sparql.evalExpr b e with
  | none => rw [hv] at this; simp at this; rw [← this]; exact h
  | some val =>
    rw [hv] at this; simp at this; rw [← this]
    intro y
    simp only [BMap.insert, BMap.get, Mu.get, lookup_cons_str, lookup_cons_key]
    by_cases hy : y = x
    · simp [hy]
    · have : Key.var y ≠ Key.var x := by intro h; cases h; exact hy rfl
      simp [hy, this]; exact h y


/-! unfolding lemmas -/
section unfold
variable {D : List Quad}

theorem select_filter_ok {p : GP} {gm b r} (e : Expr) (h : select D p gm b = .ok r) :
    select D (.filter e p) gm b = .ok { r with rows := r.rows.filter (filterKeeps e) } := by
  simp only [select, h]; rfl
theorem select_filter_err {p : GP} {gm b er} (e : Expr) (h : select D p gm b = .error er) :
    select D (.filter e p) gm b = .error er := by
  simp only [select, h]; rfl
theorem eval_filter_ok {p : GP} {G Ω} (e : Expr) (h : eval D p G = .ok Ω) :
    eval D (.filter e p) G = .ok (Ω.filter (holds e)) := by
  simp only [eval, h]; rfl
theorem eval_filter_err {p : GP} {G er} (e : Expr) (h : eval D p G = .error er) :
    eval D (.filter e p) G = .error er := by
  simp only [eval, h]; rfl

theorem select_union_ok {l r : GP} {gm b a c} (h1 : select D l gm b = .ok a) (h2 : select D r gm b = .ok c) :
    select D (.union l r) gm b =
      .ok { vars := a.vars ++ c.vars.filter (fun v => !a.vars.contains v), rows := a.rows ++ c.rows } := by
  simp only [select, h1, h2]; rfl
theorem select_union_err1 {l r : GP} {gm b er} (h1 : select D l gm b = .error er) :
    select D (.union l r) gm b = .error er := by
  simp only [select, h1]; rfl
theorem select_union_err2 {l r : GP} {gm b a er} (h1 : select D l gm b = .ok a) (h2 : select D r gm b = .error er) :
    select D (.union l r) gm b = .error er := by
  simp only [select, h1, h2]; rfl
theorem eval_union_ok {l r : GP} {G a c} (h1 : eval D l G = .ok a) (h2 : eval D r G = .ok c) :
    eval D (.union l r) G = .ok (a ++ c) := by
  simp only [eval, h1, h2]; rfl
theorem eval_union_err1 {l r : GP} {G er} (h1 : eval D l G = .error er) :
    eval D (.union l r) G = .error er := by
  simp only [eval, h1]; rfl
theorem eval_union_err2 {l r : GP} {G a er} (h1 : eval D l G = .ok a) (h2 : eval D r G = .error er) :
    eval D (.union l r) G = .error er := by
  simp only [eval, h1, h2]; rfl

theorem select_extend_ok {p : GP} {gm b r} (x : Str) (e : Expr) (h : select D p gm b = .ok r) :
    select D (.extend p x e) gm b =
      if r.vars.contains x then .error (.override x)
      else .ok { vars := r.vars ++ [x], rows := r.rows.map (extendRow x e) } := by
  simp only [select, h]
  by_cases hc : r.vars.contains x = true <;> simp <;> rfl
theorem select_extend_err {p : GP} {gm b er} (x : Str) (e : Expr) (h : select D p gm b = .error er) :
    select D (.extend p x e) gm b = .error er := by
  simp only [select, h]; rfl
theorem eval_extend_ok {p : GP} {G Ω} (x : Str) (e : Expr) (h : eval D p G = .ok Ω) :
    eval D (.extend p x e) G =
      if (inScope p).contains x then .error (.rebind x)
      else .ok (Ω.map (fun μ => match SparqlSpec.evalExpr μ e with
        | some t => (Key.var x, t) :: μ
        | none => μ)) := by
  simp only [eval, h]
  by_cases hc : (inScope p).contains x = true <;> simp <;> rfl
theorem eval_extend_err {p : GP} {G er} (x : Str) (e : Expr) (h : eval D p G = .error er) :
    eval D (.extend p x e) G = .error er := by
  simp only [eval, h]; rfl

end unfold

/-! ### GRAPH ?g: the pre-bound variable versus the algebra's join -/

/-! ### solving from a seed = solving from scratch, then joining with the seed -/

def mergeS (f g : Sem) : Sem := fun k => (f k).or (g k)

def compatS (f g : Sem) : Prop := ∀ k a b, f k = some a → g k = some b → termEq a b = true

theorem compatS_of_ext {f g g' : Sem} (h : compatS f g') (e : Ext g g') : compatS f g :=
  fun k a b ha hb => h k a b ha (e k b hb)

theorem addS_none {f s : Sem} (hc : compatS f s) {c : Key × Term} (h : addS s c = none) :
    addS (mergeS f s) c = none := by
  unfold addS at h ⊢
  cases hs : s c.1 with
  | none => rw [hs] at h; simp at h
  | some t₁ =>
    rw [hs] at h
    have hne : termEq t₁ c.2 = false := by
      cases ht : termEq t₁ c.2 with
      | false => rfl
      | true => simp [ht] at h
    cases hf : f c.1 with
    | none => simp [mergeS, hf, hs, hne]
    | some t₀ =>
      have h01 := hc c.1 t₀ t₁ hf hs
      have : termEq t₀ c.2 = false := by
        cases ht : termEq t₀ c.2 with
        | false => rfl
        | true =>
          have := termEq_trans _ _ _ (by rw [termEq_symm]; exact h01) ht
          rw [hne] at this; cases this
      simp [mergeS, hf, this]

theorem addS_some_compat {f s s₁ : Sem} (hc : compatS f s) {c : Key × Term} (h : addS s c = some s₁)
    (hc₁ : compatS f s₁) : addS (mergeS f s) c = some (mergeS f s₁) := by
  unfold addS at h ⊢
  cases hs : s c.1 with
  | some t₁ =>
    rw [hs] at h
    by_cases ht : termEq t₁ c.2 = true
    · simp [ht] at h; subst h
      cases hf : f c.1 with
      | none => simp [mergeS, hf, hs, ht]
      | some t₀ =>
        have h01 := hc c.1 t₀ t₁ hf hs
        have : termEq t₀ c.2 = true := termEq_trans _ _ _ h01 ht
        simp [mergeS, hf, this]
    · simp [ht] at h
  | none =>
    rw [hs] at h
    simp at h
    subst h
    cases hf : f c.1 with
    | some t₀ =>
      have : termEq t₀ c.2 = true := hc₁ c.1 t₀ c.2 hf (by simp)
      have e : (mergeS f s) c.1 = some t₀ := by simp [mergeS, hf]
      rw [e]
      simp only [this, if_true, Option.some.injEq]
      funext k
      by_cases hk : k = c.1
      · subst hk; simp [mergeS, hf]
      · simp [mergeS, hk]
    | none =>
      have e : (mergeS f s) c.1 = none := by simp [mergeS, hf, hs]
      rw [e]
      simp only [Option.some.injEq]
      funext k
      by_cases hk : k = c.1
      · subst hk; simp [mergeS, hf]
      · simp [mergeS, hk]

theorem addS_some_incompat {f s s₁ : Sem} (hc : compatS f s) {c : Key × Term} (h : addS s c = some s₁)
    (hc₁ : ¬ compatS f s₁) : addS (mergeS f s) c = none := by
  unfold addS at h ⊢
  cases hs : s c.1 with
  | some t₁ =>
    rw [hs] at h
    by_cases ht : termEq t₁ c.2 = true
    · simp [ht] at h; subst h; exact absurd hc hc₁
    · simp [ht] at h
  | none =>
    rw [hs] at h
    simp at h
    subst h
    cases hf : f c.1 with
    | none =>
      exfalso; apply hc₁
      intro k a b ha hb
      by_cases hk : k = c.1
      · subst hk; rw [hf] at ha; cases ha
      · simp [hk] at hb; exact hc k a b ha hb
    | some t₀ =>
      have : termEq t₀ c.2 = false := by
        cases ht : termEq t₀ c.2 with
        | false => rfl
        | true =>
          exfalso; apply hc₁
          intro k a b ha hb
          by_cases hk : k = c.1
          · subst hk; rw [hf] at ha; cases ha; simp at hb; subst hb; exact ht
          · simp [hk] at hb; exact hc k a b ha hb
      simp [mergeS, hf, this]

theorem solveS_seed (f : Sem) (cs : List (Key × Term)) : ∀ s : Sem, compatS f s →
    (solveS s cs = none → solveS (mergeS f s) cs = none) ∧
    (∀ s', solveS s cs = some s' → compatS f s' → solveS (mergeS f s) cs = some (mergeS f s')) ∧
    (∀ s', solveS s cs = some s' → ¬ compatS f s' → solveS (mergeS f s) cs = none) := by
  induction cs with
  | nil =>
    intro s hc
    refine ⟨by simp [solveS_nil], ?_, ?_⟩
    · intro s' h _; simp [solveS_nil] at h; subst h; rfl
    · intro s' h hn; simp [solveS_nil] at h; subst h; exact absurd hc hn
  | cons c cs ih =>
    intro s hc
    simp only [solveS_cons]
    cases ha : addS s c with
    | none => simp [addS_none hc ha]
    | some s₁ =>
      simp only [Option.bind_some]
      by_cases hc₁ : compatS f s₁
      · rw [addS_some_compat hc ha hc₁]
        simp only [Option.bind_some]
        exact ih s₁ hc₁
      · rw [addS_some_incompat hc ha hc₁]
        refine ⟨fun _ => rfl, ?_, fun _ _ _ => rfl⟩
        intro s' h hc'
        exact absurd (compatS_of_ext hc' (solveS_ext h)) hc₁

/-! the same on association lists -/

theorem get_append (a b : Mu) (k : Key) : Mu.get (a ++ b) k = (a.get k).or (b.get k) := by
  induction a with
  | nil => simp [Mu.get]
  | cons x a ih =>
    obtain ⟨k', v⟩ := x
    simp only [Mu.get, List.cons_append] at ih ⊢
    rw [lookup_cons_key, lookup_cons_key]
    by_cases hk : k = k' <;> simp [hk, ih]

theorem semM_merge (a b : Mu) : semM (merge a b) = mergeS (semM a) (semM b) := by
  funext k
  simp only [semM, merge, mergeS, get_append]
  show (List.lookup k a).or (List.lookup k (b.filter (fun kt => (fun k' => (List.lookup k' a).isNone) kt.1))) =
    (List.lookup k a).or (List.lookup k b)
  rw [lookup_filter_key (fun k' => (List.lookup k' a).isNone) b k]
  cases h : List.lookup k a <;> simp

theorem compatible_iff (a b : Mu) : compatible a b = true ↔ compatS (semM a) (semM b) := by
  unfold compatible
  rw [List.all_eq_true]
  constructor
  · intro h k x y hx hy
    have := h (k, x) (mem_of_lookup a k x hx)
    simp only [semM] at hx hy
    simpa [hx, hy] using this
  · intro h kt hkt
    obtain ⟨t, ht⟩ := lookup_isSome_of_mem a kt hkt
    cases hb : Mu.get b kt.1 with
    | none => simp [Mu.get, ht]
    | some y =>
      simp only [Mu.get] at hb
      simp only [Mu.get, ht, hb]
      exact h kt.1 t y ht hb

theorem semM_nil : semM [] = fun _ => none := by funext k; simp [semM, Mu.get]

theorem mergeS_empty (f : Sem) : mergeS f (fun _ => none) = f := by funext k; simp [mergeS]

/-- solving from the seed `θ₀` = solving from scratch and joining the solution with `θ₀` -/
theorem solve_seed (θ₀ : Mu) (cs : List (Key × Term)) :
    (solve [] cs = none → solve θ₀ cs = none) ∧
    (∀ μ, solve [] cs = some μ → compatible θ₀ μ = true →
        ∃ μ', solve θ₀ cs = some μ' ∧ semM μ' = semM (merge θ₀ μ)) ∧
    (∀ μ, solve [] cs = some μ → compatible θ₀ μ = false → solve θ₀ cs = none) := by
  have key := solveS_seed (semM θ₀) cs (fun _ => none) (fun _ _ _ _ h => by cases h)
  rw [mergeS_empty] at key
  have e0 := solve_sem [] cs
  have e1 := solve_sem θ₀ cs
  rw [semM_nil] at e0
  refine ⟨?_, ?_, ?_⟩
  · intro h
    rw [h] at e0; simp at e0
    have := key.1 e0.symm
    rw [this] at e1
    cases hs : solve θ₀ cs with
    | none => rfl
    | some _ => simp [hs] at e1
  · intro μ h hc
    rw [h] at e0; simp at e0
    have := key.2.1 (semM μ) e0.symm ((compatible_iff θ₀ μ).1 hc)
    rw [this] at e1
    cases hs : solve θ₀ cs with
    | none => simp [hs] at e1
    | some μ' =>
      simp [hs] at e1
      exact ⟨μ', rfl, by rw [e1, semM_merge]⟩
  · intro μ h hc
    rw [h] at e0; simp at e0
    have hn : ¬ compatS (semM θ₀) (semM μ) := by
      intro hh; rw [(compatible_iff θ₀ μ).2 hh] at hc; cases hc
    have := key.2.2 (semM μ) e0.symm hn
    rw [this] at e1
    cases hs : solve θ₀ cs with
    | none => rfl
    | some _ => simp [hs] at e1

theorem forall2_filterMap_filter {α β γ : Type} (R : β → γ → Prop) (P : γ → Bool) (f : α → Option β) (g : α → Option γ)
    (l : List α)
    (h0 : ∀ a, g a = none → f a = none)
    (h1 : ∀ a y, g a = some y → P y = true → ∃ x, f a = some x ∧ R x y)
    (h2 : ∀ a y, g a = some y → P y = false → f a = none) :
    List.Forall₂ R (l.filterMap f) ((l.filterMap g).filter P) := by
  induction l with
  | nil => exact List.Forall₂.nil
  | cons a l ih =>
    cases hg : g a with
    | none => simp only [List.filterMap_cons, hg, h0 a hg]; exact ih
    | some y =>
      cases hp : P y with
      | false => simp only [List.filterMap_cons, hg, h2 a y hg hp, List.filter_cons, hp]; exact ih
      | true =>
        obtain ⟨x, hx, hr⟩ := h1 a y hg hp
        simp only [List.filterMap_cons, hg, hx, List.filter_cons, hp, if_true]
        exact List.Forall₂.cons hr ih

/-- the instance mappings extending a seed are the seed-compatible instance mappings, merged with it -/
theorem instancesFrom_seed (θ₀ : Mu) (G : Graph) (ps : List TP) :
    List.Forall₂ (fun μ' μ => semM μ' = semM (merge θ₀ μ))
      (instancesFrom θ₀ G ps) ((instancesFrom [] G ps).filter (compatible θ₀)) := by
  unfold instancesFrom
  apply forall2_filterMap_filter
  · intro ts h
    cases hc : allConstraints ps ts with
    | none => rfl
    | some cs => simp only [hc, Option.bind_some] at h ⊢; exact (solve_seed θ₀ cs).1 h
  · intro ts μ h hp
    cases hc : allConstraints ps ts with
    | none => simp [hc] at h
    | some cs => simp only [hc, Option.bind_some] at h ⊢; exact (solve_seed θ₀ cs).2.1 μ h hp
  · intro ts μ h hp
    cases hc : allConstraints ps ts with
    | none => simp [hc] at h
    | some cs => simp only [hc, Option.bind_some] at h ⊢; exact (solve_seed θ₀ cs).2.2 μ h hp

def exprVars : Expr → List Str
  | .var x | .bound x => [x]
  | .or a b | .and a b | .eq a b | .sameTerm a b | .lt a b | .cmp _ a b | .arith _ a b | .coalesce a b =>
    exprVars a ++ exprVars b
  | .not a | .call _ a | .neg a | .pos a => exprVars a
  | .ite a b c | .inl a b c => exprVars a ++ exprVars b ++ exprVars c
  | .const _ | .err => []

theorem evalExpr_congr (μ μ' : Mu) (e : Expr) (h : ∀ y ∈ exprVars e, μ.get (.var y) = μ'.get (.var y)) :
    SparqlSpec.evalExpr μ e = SparqlSpec.evalExpr μ' e := by
  induction e with
  | const t => rfl
  | var x => exact h x (by simp [exprVars])
  | bound x => simp [SparqlSpec.evalExpr, h x (by simp [exprVars])]
  | or a b iha ihb =>
    simp only [SparqlSpec.evalExpr]
    rw [iha (fun y hy => h y (by simp [exprVars, hy])), ihb (fun y hy => h y (by simp [exprVars, hy]))]
  | and a b iha ihb =>
    simp only [SparqlSpec.evalExpr]
    rw [iha (fun y hy => h y (by simp [exprVars, hy])), ihb (fun y hy => h y (by simp [exprVars, hy]))]
  | eq a b iha ihb =>
    simp only [SparqlSpec.evalExpr]
    rw [iha (fun y hy => h y (by simp [exprVars, hy])), ihb (fun y hy => h y (by simp [exprVars, hy]))]
  | sameTerm a b iha ihb =>
    simp only [SparqlSpec.evalExpr]
    rw [iha (fun y hy => h y (by simp [exprVars, hy])), ihb (fun y hy => h y (by simp [exprVars, hy]))]
  | lt a b iha ihb =>
    simp only [SparqlSpec.evalExpr]
    rw [iha (fun y hy => h y (by simp [exprVars, hy])), ihb (fun y hy => h y (by simp [exprVars, hy]))]
  | not a iha =>
    simp only [SparqlSpec.evalExpr]
    rw [iha (fun y hy => h y (by simp [exprVars, hy]))]
  | call f a iha =>
    simp only [SparqlSpec.evalExpr]
    rw [iha (fun y hy => h y (by simp [exprVars, hy]))]
  | cmp op a b iha ihb =>
    simp only [SparqlSpec.evalExpr]
    rw [iha (fun y hy => h y (by simp [exprVars, hy])), ihb (fun y hy => h y (by simp [exprVars, hy]))]
  | arith op a b iha ihb =>
    simp only [SparqlSpec.evalExpr]
    rw [iha (fun y hy => h y (by simp [exprVars, hy])), ihb (fun y hy => h y (by simp [exprVars, hy]))]
  | coalesce a b iha ihb =>
    simp only [SparqlSpec.evalExpr]
    rw [iha (fun y hy => h y (by simp [exprVars, hy])), ihb (fun y hy => h y (by simp [exprVars, hy]))]
  | neg a iha =>
    simp only [SparqlSpec.evalExpr]
    rw [iha (fun y hy => h y (by simp [exprVars, hy]))]
  | pos a iha =>
    simp only [SparqlSpec.evalExpr]
    rw [iha (fun y hy => h y (by simp [exprVars, hy]))]
  | ite a b c iha ihb ihc =>
    simp only [SparqlSpec.evalExpr]
    rw [iha (fun y hy => h y (by simp [exprVars, hy])), ihb (fun y hy => h y (by simp [exprVars, hy])),
      ihc (fun y hy => h y (by simp [exprVars, hy]))]
  | inl a b c iha ihb ihc =>
    simp only [SparqlSpec.evalExpr]
    rw [iha (fun y hy => h y (by simp [exprVars, hy])), ihb (fun y hy => h y (by simp [exprVars, hy])),
      ihc (fun y hy => h y (by simp [exprVars, hy]))]
  | err => rfl

theorem holds_congr (μ μ' : Mu) (e : Expr) (h : ∀ y ∈ exprVars e, μ.get (.var y) = μ'.get (.var y)) :
    holds e μ = holds e μ' := by
  simp [holds, evalExpr_congr μ μ' e h]

/-- what the theorem admits inside `GRAPH ?x { .. }`: BGPs, UNION, `GRAPH <iri>`, and FILTERs whose
expression does not read `?x` (no BIND, no nested `GRAPH ?y`, no sub-select) -/
inductive Inner (x : Str) : GP → Prop
  | bgp (ps : List TP) : Inner x (.bgp ps)
  | union {l r : GP} : Inner x l → Inner x r → Inner x (.union l r)
  | filter {p : GP} (e : Expr) : ExprOK e → x ∉ exprVars e → Inner x p → Inner x (.filter e p)
  | graphIri {p : GP} (n : Str) : Inner x p → Inner x (.graph (.iri n) p)

theorem forall2_comp {α β γ : Type} {R : α → β → Prop} {S : β → γ → Prop} {l₁ : List α} {l₂ : List β} {l₃ : List γ}
    (h₁ : List.Forall₂ R l₁ l₂) (h₂ : List.Forall₂ S l₂ l₃) :
    List.Forall₂ (fun a c => ∃ b, R a b ∧ S b c) l₁ l₃ := by
  induction h₁ generalizing l₃ with
  | nil => cases h₂; exact List.Forall₂.nil
  | cons hab _ ih =>
    cases h₂ with
    | cons hbc h₂' => exact List.Forall₂.cons ⟨_, hab, hbc⟩ (ih h₂')

def seedOf (x : Str) (n : Term) : Mu := [(Key.var x, n)]
def seedB (x : Str) (n : Term) : Binding := { v := [(x, n)], b := [] }

theorem semB_seed (x : Str) (n : Term) : semB (seedB x n) = semM (seedOf x n) := by
  funext k
  cases k with
  | var y =>
    simp only [semB, seedB, semM, seedOf, BMap.get, Mu.get, lookup_cons_str, lookup_cons_key]
    by_cases hy : y = x
    · simp [hy]
    · have : Key.var y ≠ Key.var x := by intro h; cases h; exact hy rfl
      simp [hy, this]
  | bn l =>
    have : Key.bn l ≠ Key.var x := by intro h; cases h
    simp [semB, seedB, semM, seedOf, BMap.get, Mu.get, lookup_cons_key, this]

theorem compatible_dropBn (x : Str) (n : Term) (μ : Mu) :
    compatible (seedOf x n) (dropBn μ) = compatible (seedOf x n) μ := by
  have := dropBn_get μ x
  simp only [Mu.get] at this
  simp [compatible, seedOf, Mu.get, lookup_cons_key, this]

theorem merge_get_var (θ μ : Mu) (y : Str) :
    (merge θ μ).get (.var y) = (θ.get (.var y)).or (μ.get (.var y)) := by
  have := congrFun (semM_merge θ μ) (.var y)
  simpa [semM, mergeS] using this

theorem merge_seed_get_other (x : Str) (n : Term) (μ : Mu) (y : Str) (hy : y ≠ x) :
    (merge (seedOf x n) μ).get (.var y) = μ.get (.var y) := by
  rw [merge_get_var]
  have : Key.var y ≠ Key.var x := by intro h; cases h; exact hy rfl
  simp [seedOf, Mu.get, lookup_cons_key, this]

theorem filterMap_ite {α β : Type} (P : α → Bool) (f : α → β) (l : List α) :
    l.filterMap (fun a => if P a then some (f a) else none) = (l.filter P).map f := by
  induction l with
  | nil => rfl
  | cons a l ih => by_cases h : P a = true <;> simp [h, ih]

theorem join_seed (θ : Mu) (Ω : List Mu) : join [θ] Ω = (Ω.filter (compatible θ)).map (merge θ) := by
  simp [join, filterMap_ite]

/-- under `GRAPH ?x`: evaluating with `?x` pre-bound = evaluating without and joining with `?x ↦ n` -/
theorem inner_correct (D : List Quad) (hD : DataNodup D) {x : Str} {p : GP} (hp : Inner x p) (n : Term) :
    ∀ g : Option Term, ∃ r Ω, select D p [g] (some (seedB x n)) = .ok r ∧ eval D p (activeGraph D [g]) = .ok Ω ∧
      List.Forall₂ (fun b μ => RelRow b (merge (seedOf x n) μ)) r.rows (Ω.filter (compatible (seedOf x n))) ∧
      ∀ y, y ∈ r.vars ↔ y = x ∨ y ∈ inScope p := by
  induction hp with
  | bgp ps =>
    intro g
    obtain ⟨r, h1, h2, h3⟩ := bgp_correct_from D [g] (activeGraph_single_nodup D hD g) ps (some (seedB x n))
      (seedOf x n) (semB_seed x n)
    refine ⟨r, _, by simpa [select] using h1, rfl, ?_, ?_⟩
    · have hA := List.forall₂_map_right_iff.1 h3
      have hB := instancesFrom_seed (seedOf x n) (activeGraph D [g]) ps
      have hC := forall2_comp hA hB
      simp only [specBgp, List.filter_map]
      apply List.forall₂_map_right_iff.2
      have hf : List.filter (compatible (seedOf x n) ∘ dropBn) (instancesFrom [] (activeGraph D [g]) ps) =
          List.filter (compatible (seedOf x n)) (instancesFrom [] (activeGraph D [g]) ps) :=
        List.filter_congr (fun μ _ => compatible_dropBn x n μ)
      rw [hf]
      refine List.Forall₂.imp ?_ hC
      rintro b μ ⟨μ', hr, hs⟩ y
      rw [hr y, dropBn_get, merge_get_var, dropBn_get]
      have := congrFun hs (.var y)
      simp only [semM] at this
      rw [this, merge_get_var]
    · intro y
      rw [h2]
      simp [populateVariables, inScope, seedB]
  | @union l r _ _ ihl ihr =>
    intro g
    obtain ⟨r1, Ω1, a1, a2, a3, a4⟩ := ihl g
    obtain ⟨r2, Ω2, b1, b2, b3, b4⟩ := ihr g
    refine ⟨_, _, select_union_ok a1 b1, eval_union_ok a2 b2, ?_, ?_⟩
    · rw [List.filter_append]; exact List.rel_append a3 b3
    · intro y
      simp only [inScope, List.mem_append, List.mem_filter, a4, b4]
      constructor
      · rintro (h | h)
        · rcases h with h | h
          · exact Or.inl h
          · exact Or.inr (Or.inl h)
        · rcases h.1 with h | h
          · exact Or.inl h
          · exact Or.inr (Or.inr h)
      · rintro (h | h | h)
        · exact Or.inl (Or.inl h)
        · exact Or.inl (Or.inr h)
        · by_cases hy : y ∈ r1.vars
          · exact Or.inl ((a4 y).1 hy)
          · right; exact ⟨Or.inr h, by simp [hy]⟩
  | @filter p e he hx _ ih =>
    intro g
    obtain ⟨r, Ω, a1, a2, a3, a4⟩ := ih g
    refine ⟨_, _, select_filter_ok e a1, eval_filter_ok e a2, ?_, a4⟩
    rw [List.filter_filter]
    have : (fun μ => compatible (seedOf x n) μ && holds e μ) = (fun μ => holds e μ && compatible (seedOf x n) μ) := by
      funext μ; rw [Bool.and_comm]
    rw [this, ← List.filter_filter]
    refine List.rel_filter (p := filterKeeps e) (q := holds e) ?_ a3
    intro b μ h
    show filterKeeps e b = true ↔ holds e μ = true
    rw [(he b _ h).1]
    rw [holds_congr (merge (seedOf x n) μ) μ e (fun y hy => merge_seed_get_other x n μ y (by
      intro hh; subst hh; exact hx hy))]
  | @graphIri p m _ ih =>
    intro g
    have := ih (some (.iri m))
    rw [activeGraph_named] at this
    simpa [select, eval, inScope] using this


theorem bgp_ok (D : List Quad) (ps : List TP) (gm : List (Option Term)) (b : Option Binding) :
    ∃ r, Sparql.bgp D ps gm b = .ok r := by
  cases h : Sparql.bgp D ps gm b with
  | ok r => exact ⟨r, rfl⟩
  | error e =>
    exfalso
    have hn := bgp_no_panic D ps gm b
    rw [h] at hn
    simp only [Sparql.bgp] at h
    split at h
    · cases h; exact hn rfl
    · cases h

theorem inner_select_ok (D : List Quad) {x : Str} {p : GP} (hp : Inner x p) :
    ∀ gm b, ∃ r, select D p gm b = .ok r := by
  induction hp with
  | bgp ps => intro gm b; simpa [select] using bgp_ok D ps gm b
  | union _ _ ihl ihr =>
    intro gm b
    obtain ⟨a, ha⟩ := ihl gm b
    obtain ⟨c, hc⟩ := ihr gm b
    exact ⟨_, select_union_ok ha hc⟩
  | filter e _ _ _ ih =>
    intro gm b
    obtain ⟨a, ha⟩ := ih gm b
    exact ⟨_, select_filter_ok e ha⟩
  | graphIri n _ ih => intro gm b; simpa [select] using ih [some (.iri n)] b

/-- the fold of §18.6 `Graph(var, P)` -/
def graphFold (D : List Quad) (x : Str) (p : GP) (names : List Term) : Except SparqlSpec.Err (List Mu) :=
  names.foldr (fun n acc => do
    let Ω ← eval D p (namedGraph D n)
    let rest ← acc
    pure (join [[(Key.var x, n)]] Ω ++ rest)) (.ok [])

theorem eval_graph_var (D : List Quad) (x : Str) (p : GP) (G : Graph) :
    eval D (.graph (.var x) p) G = graphFold D x p (graphNames D) := by
  simp only [eval, graphFold]

theorem graphRec_correct (D : List Quad) (hD : DataNodup D) {x : Str} {p : GP} (hp : Inner x p) :
    ∀ names : List Term, ∃ r Ω, graphRec (select D p) x none names = .ok r ∧ graphFold D x p names = .ok Ω ∧
      List.Forall₂ RelRow r.rows Ω ∧ (names ≠ [] → ∀ y, y ∈ r.vars ↔ y = x ∨ y ∈ inScope p) := by
  intro names
  induction names with
  | nil => exact ⟨_, _, rfl, rfl, List.Forall₂.nil, fun h => absurd rfl h⟩
  | cons n rest ih =>
    obtain ⟨r', Ω', h1, h2, h3, _⟩ := ih
    obtain ⟨r, Ω, a1, a2, a3, a4⟩ := inner_correct D hD hp n (some n)
    rw [activeGraph_named] at a2
    have e1 : graphRec (select D p) x none (n :: rest) = .ok { vars := r.vars, rows := r.rows ++ r'.rows } := by
      have : ({ v := BMap.insert (Option.getD none ({} : Binding)).v x n, b := (Option.getD none ({} : Binding)).b } : Binding)
          = seedB x n := rfl
      simp only [graphRec, this, a1, h1]
      rfl
    have e2 : graphFold D x p (n :: rest) = .ok (join [[(Key.var x, n)]] Ω ++ Ω') := by
      simp only [graphFold, List.foldr_cons] at h2 ⊢
      rw [h2, a2]
      rfl
    refine ⟨_, _, e1, e2, ?_, fun _ => a4⟩
    refine List.rel_append ?_ h3
    have := join_seed (seedOf x n) Ω
    simp only [seedOf] at this
    rw [this]
    exact List.forall₂_map_right_iff.2 a3

/-- `ExecState::graph` answers `GRAPH ?g` over a dataset without named graphs with no solution
(regenerated from exec.rs: commit d984918 and later) -/
theorem graphEmptyFixed_true : Gen.SparqlDispatch.graphEmptyFixed = true := rfl

theorem inner_vars_sub (D : List Quad) {x : Str} {p : GP} (hp : Inner x p) :
    ∀ gm r, select D p gm none = .ok r → ∀ y, y ∈ r.vars → y ∈ inScope p := by
  induction hp with
  | bgp ps =>
    intro gm r h y hy
    simp only [select, Sparql.bgp] at h
    split at h
    · cases h
    · cases h
      simpa [populateVariables, inScope] using hy
  | @union l r' hl hr ihl ihr =>
    intro gm r h y hy
    obtain ⟨a, ha⟩ := inner_select_ok D hl gm none
    obtain ⟨c, hc⟩ := inner_select_ok D hr gm none
    rw [select_union_ok ha hc] at h
    cases h
    simp only [List.mem_append, List.mem_filter] at hy
    simp only [inScope, List.mem_append]
    rcases hy with hy | hy
    · exact Or.inl (ihl gm a ha y hy)
    · exact Or.inr (ihr gm c hc y hy.1)
  | @filter p e _ _ hi ih =>
    intro gm r h y hy
    obtain ⟨a, ha⟩ := inner_select_ok D hi gm none
    rw [select_filter_ok e ha] at h
    cases h
    exact ih gm a ha y hy
  | @graphIri p n _ ih =>
    intro gm r h y hy
    simp only [select] at h
    simpa [inScope] using ih _ r h y hy

/-- **GRAPH ?x { P }**: pre-binding `?x` per (de-duplicated) graph name = the algebra's union of joins;
over a dataset without named graphs both give no solution.  The variable list is that of the
algebra whenever the dataset has a named graph (otherwise it is the probe's, without `?x`). -/
theorem graph_var_correct (D : List Quad) (hD : DataNodup D)
    {x : Str} {p : GP} (hp : Inner x p) (g : Option Term) :
    ∃ r Ω, select D (.graph (.var x) p) [g] none = .ok r ∧
      eval D (.graph (.var x) p) (activeGraph D [g]) = .ok Ω ∧
      List.Forall₂ RelRow r.rows Ω ∧ (∀ y, y ∈ r.vars → y ∈ inScope (.graph (.var x) p)) ∧
      ((graphNameSet D).isEmpty = false → ∀ y, y ∈ r.vars ↔ y ∈ inScope (.graph (.var x) p)) := by
  obtain ⟨r, Ω, h1, h2, h3, h4⟩ := graphRec_correct D hD hp (graphNameSet D)
  obtain ⟨r₀, h0⟩ := inner_select_ok D hp [] none
  cases hN : (graphNameSet D).isEmpty with
  | true =>
    have hnil : graphNameSet D = [] := by simpa using hN
    refine ⟨{ vars := r₀.vars, rows := [] }, [], ?_, ?_, List.Forall₂.nil, ?_, fun h => by cases h⟩
    · simp only [select, Option.bind_none, h0, hN, graphEmptyFixed_true, if_true]
      rfl
    · rw [eval_graph_var]
      have : graphNames D = [] := hnil
      rw [this]; rfl
    · intro y hy
      simp only [inScope, List.mem_cons]
      exact Or.inr (inner_vars_sub D hp [] r₀ h0 y hy)
  | false =>
    have hne : graphNameSet D ≠ [] := by intro h; rw [h] at hN; simp at hN
    have hv : ∀ y, y ∈ r.vars ↔ y ∈ inScope (.graph (.var x) p) := by
      intro y; rw [h4 hne y]; simp [inScope]
    refine ⟨r, Ω, ?_, ?_, h3, fun y hy => (hv y).1 hy, fun _ => hv⟩
    · simp only [select, Option.bind_none, h0, hN]
      exact h1
    · rw [eval_graph_var]; exact h2


/-! ### group graph patterns: the theorem -/

/-- group graph patterns of the fragment (no sub-selects): BGP, UNION, FILTER, BIND, `GRAPH <iri>`
arbitrarily nested, and — when `N` holds — `GRAPH ?x { .. }` over an `Inner` pattern.  `N` stands
for "the dataset has a named graph" (theorems take `N → (graphNameSet D).isEmpty = false`); with
`N := False` this is the `GRAPH ?x`-free fragment. -/
inductive Body (N : Prop) : GP → Prop
  | bgp (ps : List TP) : Body N (.bgp ps)
  | union {l r : GP} : Body N l → Body N r → Body N (.union l r)
  | filter {p : GP} (e : Expr) : ExprOK e → Body N p → Body N (.filter e p)
  | extend {p : GP} (x : Str) (e : Expr) : ExprOK e → Body N p → Body N (.extend p x e)
  | graphIri {p : GP} (n : Str) : Body N p → Body N (.graph (.iri n) p)
  | graphVar {p : GP} (x : Str) : N → Inner x p → Body N (.graph (.var x) p)

theorem body_correct (D : List Quad) (hD : DataNodup D) {N : Prop} (hN : N → (graphNameSet D).isEmpty = false)
    {p : GP} (hp : Body N p) : ∀ g : Option Term,
    (∃ r Ω, select D p [g] none = .ok r ∧ eval D p (activeGraph D [g]) = .ok Ω ∧
        List.Forall₂ RelRow r.rows Ω ∧ ∀ x, x ∈ r.vars ↔ x ∈ inScope p) ∨
    (∃ x, select D p [g] none = .error (.override x) ∧ eval D p (activeGraph D [g]) = .error (.rebind x)) := by
  induction hp with
  | bgp ps =>
    intro g
    left
    obtain ⟨r, h1, h2, h3⟩ := bgp_correct_from D [g] (activeGraph_single_nodup D hD g) ps none [] semB_empty
    refine ⟨r, _, by simpa [select] using h1, rfl, h3, ?_⟩
    intro x
    rw [h2]
    simp [populateVariables, inScope]
  | @union l r _ _ ihl ihr =>
    intro g
    rcases ihl g with ⟨r1, Ω1, a1, a2, a3, a4⟩ | ⟨x, a1, a2⟩
    · rcases ihr g with ⟨r2, Ω2, b1, b2, b3, b4⟩ | ⟨x, b1, b2⟩
      · left
        refine ⟨_, _, select_union_ok a1 b1, eval_union_ok a2 b2, List.rel_append a3 b3, ?_⟩
        intro x
        simp only [inScope, List.mem_append, List.mem_filter, a4, b4]
        constructor
        · rintro (h | h)
          · exact Or.inl h
          · exact Or.inr h.1
        · rintro (h | h)
          · exact Or.inl h
          · by_cases hx : x ∈ inScope l
            · exact Or.inl hx
            · right; refine ⟨h, ?_⟩; simp [a4, hx]
      · right; exact ⟨x, select_union_err2 a1 b1, eval_union_err2 a2 b2⟩
    · right; exact ⟨x, select_union_err1 a1, eval_union_err1 a2⟩
  | @filter p e he _ ih =>
    intro g
    rcases ih g with ⟨r, Ω, a1, a2, a3, a4⟩ | ⟨x, a1, a2⟩
    · left
      refine ⟨_, _, select_filter_ok e a1, eval_filter_ok e a2, ?_, a4⟩
      exact List.rel_filter (p := filterKeeps e) (q := holds e) (fun b μ h => by simp [(he b μ h).1]) a3
    · right; exact ⟨x, select_filter_err e a1, eval_filter_err e a2⟩
  | @extend p x e he _ ih =>
    intro g
    rcases ih g with ⟨r, Ω, a1, a2, a3, a4⟩ | ⟨y, a1, a2⟩
    · by_cases hx : x ∈ inScope p
      · right
        have c1 : r.vars.contains x = true := by simp [a4, hx]
        have c2 : (inScope p).contains x = true := by simp [hx]
        exact ⟨x, by rw [select_extend_ok x e a1, c1]; rfl, by rw [eval_extend_ok x e a2, c2]; rfl⟩
      · left
        have c1 : r.vars.contains x = false := by simp [a4, hx]
        have c2 : (inScope p).contains x = false := by simp [hx]
        refine ⟨_, _, by rw [select_extend_ok x e a1, c1]; rfl, by rw [eval_extend_ok x e a2, c2]; rfl, ?_, ?_⟩
        · exact List.forall₂_map_left_iff.2 (List.forall₂_map_right_iff.2
            (List.Forall₂.imp (fun b μ h => relRow_extend h x e he) a3))
        · intro y; simp [inScope, a4, or_comm]
    · right; exact ⟨y, select_extend_err x e a1, eval_extend_err x e a2⟩
  | @graphIri p n _ ih =>
    intro g
    have := ih (some (.iri n))
    rw [activeGraph_named] at this
    simpa [select, eval, inScope] using this
  | @graphVar p x hn hi =>
    intro g
    left
    obtain ⟨r, Ω, a1, a2, a3, _, a5⟩ := graph_var_correct D hD hi g
    exact ⟨r, Ω, a1, a2, a3, a5 (hN hn)⟩

/-! ### solution modifiers -/

/-- rows related on the projected variables `xs`, the solution binding nothing else -/
def RelX (xs : List Str) (b : Binding) (μ : Mu) : Prop :=
  (∀ x ∈ xs, b.v.get x = μ.get (.var x)) ∧ (∀ k t, μ.get k = some t → ∃ x ∈ xs, k = .var x)

theorem projectMu_get (xs : List Str) (μ : Mu) (k : Key) :
    (projectMu xs μ).get k = match k with
      | .var y => if y ∈ xs then μ.get (.var y) else none
      | .bn _ => none := by
  induction xs with
  | nil => cases k <;> simp [projectMu, Mu.get]
  | cons x xs ih =>
    simp only [projectMu, List.filterMap_cons] at ih ⊢
    cases hx : Mu.get μ (.var x) with
    | none =>
      simp only [Option.map_none]
      rw [ih]
      cases k with
      | bn l => rfl
      | var y =>
        by_cases hy : y = x
        · subst hy; simp [hx]
        · simp [hy]
    | some t =>
      simp only [Option.map_some, Mu.get]
      rw [lookup_cons_key]
      cases k with
      | bn l =>
        have : Key.bn l ≠ Key.var x := by intro h; cases h
        simp only [this, if_false]; exact ih
      | var y =>
        by_cases hy : y = x
        · subst hy; simp only [if_true, List.mem_cons, true_or]; exact hx.symm
        · have : Key.var y ≠ Key.var x := by intro h; cases h; exact hy rfl
          simp only [this, if_false, List.mem_cons, hy, false_or]
          exact ih

theorem relX_project {b : Binding} {μ : Mu} (xs : List Str) (h : RelRow b μ) : RelX xs b (projectMu xs μ) := by
  constructor
  · intro x hx
    rw [projectMu_get]; simp [hx, h x]
  · intro k t hk
    rw [projectMu_get] at hk
    cases k with
    | bn l => simp at hk
    | var y =>
      by_cases hy : y ∈ xs
      · exact ⟨y, hy, rfl⟩
      · simp [hy] at hk

theorem muLe_iff (μ₁ μ₂ : Mu) : muLe μ₁ μ₂ = true ↔
    ∀ k t₁, μ₁.get k = some t₁ → ∃ t₂, μ₂.get k = some t₂ ∧ termEq t₁ t₂ = true := by
  unfold muLe
  rw [List.all_eq_true]
  constructor
  · intro h k t₁ hk
    have := h (k, t₁) (mem_of_lookup μ₁ k t₁ hk)
    simp only [hk] at this
    cases h2 : Mu.get μ₂ k with
    | none => simp [h2] at this
    | some t₂ => simp [h2] at this; exact ⟨t₂, rfl, this⟩
  · intro h kt hkt
    obtain ⟨t₁, ht₁⟩ := lookup_isSome_of_mem μ₁ kt hkt
    obtain ⟨t₂, h2, h3⟩ := h kt.1 t₁ ht₁
    simp only [Mu.get] at h2 ⊢
    simp [ht₁, h2, h3]

theorem keyEq_map (xs : List Str) (f g : Str → Option Term) :
    keyEq (xs.map f) (xs.map g) = xs.all (fun x => optTermEq (f x) (g x)) := by
  induction xs with
  | nil => rfl
  | cons x xs ih => simp [keyEq, ih]

theorem distinct_key_agree {xs : List Str} {b₁ b₂ : Binding} {μ₁ μ₂ : Mu} (h₁ : RelX xs b₁ μ₁) (h₂ : RelX xs b₂ μ₂) :
    keyEq (distinctKey xs b₁) (distinctKey xs b₂) = muEq μ₁ μ₂ := by
  unfold distinctKey
  rw [keyEq_map, Bool.eq_iff_iff, List.all_eq_true]
  unfold muEq
  rw [Bool.and_eq_true, muLe_iff, muLe_iff]
  constructor
  · intro h
    constructor
    · intro k t₁ hk
      obtain ⟨x, hx, rfl⟩ := h₁.2 k t₁ hk
      have := h x hx
      rw [h₁.1 x hx, h₂.1 x hx, hk] at this
      cases h2 : Mu.get μ₂ (.var x) with
      | none => simp [h2, optTermEq] at this
      | some t₂ => simp [h2, optTermEq] at this; exact ⟨t₂, rfl, this⟩
    · intro k t₂ hk
      obtain ⟨x, hx, rfl⟩ := h₂.2 k t₂ hk
      have := h x hx
      rw [h₁.1 x hx, h₂.1 x hx, hk] at this
      cases h1 : Mu.get μ₁ (.var x) with
      | none => simp [h1, optTermEq] at this
      | some t₁ => simp [h1, optTermEq] at this; exact ⟨t₁, rfl, by rw [termEq_symm]; exact this⟩
  · rintro ⟨ha, hb⟩ x hx
    rw [h₁.1 x hx, h₂.1 x hx]
    cases h1 : Mu.get μ₁ (.var x) with
    | some t₁ =>
      obtain ⟨t₂, e, he⟩ := ha _ _ h1
      simp [e, optTermEq, he]
    | none =>
      cases h2 : Mu.get μ₂ (.var x) with
      | none => rfl
      | some t₂ =>
        obtain ⟨t₁, e, _⟩ := hb _ _ h2
        rw [h1] at e; cases e

theorem forall2_dedupBy {α β : Type} (R : α → β → Prop) (e₁ : α → α → Bool) (e₂ : β → β → Bool)
    (hag : ∀ a b a' b', R a b → R a' b' → e₁ a a' = e₂ b b') {l₁ : List α} {l₂ : List β}
    (h : List.Forall₂ R l₁ l₂) : List.Forall₂ R (dedupBy e₁ l₁) (dedupBy e₂ l₂) := by
  induction h with
  | nil => exact List.Forall₂.nil
  | @cons a b l₁ l₂ hab _ ih =>
    simp only [dedupBy]
    refine List.Forall₂.cons hab ?_
    exact List.rel_filter (p := fun x => !e₁ a x) (q := fun y => !e₂ b y)
      (fun x y hxy => by simp [hag a b x y hab hxy]) ih

theorem forall2_map_eq {α β γ : Type} (R : α → β → Prop) (f : α → γ) (g : β → γ)
    (hfg : ∀ a b, R a b → f a = g b) {l₁ : List α} {l₂ : List β} (h : List.Forall₂ R l₁ l₂) :
    l₁.map f = l₂.map g := by
  induction h with
  | nil => rfl
  | cons hab _ ih => simp [hfg _ _ hab, ih]

/-- `SELECT` clauses over a group graph pattern: projection, optionally ordered -/
inductive Proj (N : Prop) : GP → Prop
  | mk {p : GP} (xs : List Str) : Body N p → Proj N (.project p xs)
  | ord {p : GP} (xs : List Str) : Body N p → Proj N (.project (.orderBy p) xs)
  /-- `SELECT .. { GRAPH ?x { P } }`: needs no named graph in the dataset -/
  | graph {p : GP} (x : Str) (xs : List Str) : Inner x p → Proj N (.project (.graph (.var x) p) xs)
  | graphOrd {p : GP} (x : Str) (xs : List Str) : Inner x p → Proj N (.project (.orderBy (.graph (.var x) p)) xs)

/-- the solution modifiers spargebra puts on top: `Slice? (Distinct? (Project (OrderBy? body)))` -/
inductive Top (N : Prop) : GP → Prop
  | proj {p : GP} : Proj N p → Top N p
  | distinct {p : GP} : Proj N p → Top N (.distinct p)
  | slice {p : GP} (start : Nat) (len : Option Nat) : Top N p → Top N (.slice p start len)

section unfold2
variable {D : List Quad}
theorem select_project_ok {p : GP} {gm b r} (xs : List Str) (h : select D p gm b = .ok r) :
    select D (.project p xs) gm b = .ok { r with vars := xs } := by simp only [select, h]; rfl
theorem select_project_err {p : GP} {gm b er} (xs : List Str) (h : select D p gm b = .error er) :
    select D (.project p xs) gm b = .error er := by simp only [select, h]; rfl
theorem eval_project_ok {p : GP} {G Ω} (xs : List Str) (h : eval D p G = .ok Ω) :
    eval D (.project p xs) G = .ok (Ω.map (projectMu xs)) := by simp only [eval, h]; rfl
theorem eval_project_err {p : GP} {G er} (xs : List Str) (h : eval D p G = .error er) :
    eval D (.project p xs) G = .error er := by simp only [eval, h]; rfl
theorem select_distinct_ok {p : GP} {gm b r} (h : select D p gm b = .ok r) :
    select D (.distinct p) gm b = .ok { r with rows := distinctRows r.vars r.rows } := by simp only [select, h]; rfl
theorem select_distinct_err {p : GP} {gm b er} (h : select D p gm b = .error er) :
    select D (.distinct p) gm b = .error er := by simp only [select, h]; rfl
theorem eval_distinct_ok {p : GP} {G Ω} (h : eval D p G = .ok Ω) :
    eval D (.distinct p) G = .ok (dedupBy muEq Ω) := by simp only [eval, h]; rfl
theorem eval_distinct_err {p : GP} {G er} (h : eval D p G = .error er) :
    eval D (.distinct p) G = .error er := by simp only [eval, h]; rfl
theorem select_slice_ok {p : GP} {gm b r} (s : Nat) (n : Option Nat) (h : select D p gm b = .ok r) :
    select D (.slice p s n) gm b = .ok { r with rows := sliceRows r.rows s n } := by simp only [select, h]; rfl
theorem select_slice_err {p : GP} {gm b er} (s : Nat) (n : Option Nat) (h : select D p gm b = .error er) :
    select D (.slice p s n) gm b = .error er := by simp only [select, h]; rfl
theorem eval_slice_ok {p : GP} {G Ω} (s : Nat) (n : Option Nat) (h : eval D p G = .ok Ω) :
    eval D (.slice p s n) G = .ok (sliceList Ω s n) := by simp only [eval, h]; rfl
theorem eval_slice_err {p : GP} {G er} (s : Nat) (n : Option Nat) (h : eval D p G = .error er) :
    eval D (.slice p s n) G = .error er := by simp only [eval, h]; rfl
theorem select_orderBy {p : GP} {gm b} : select D (.orderBy p) gm b = select D p gm b := by simp only [select]
theorem eval_orderBy {p : GP} {G} : eval D (.orderBy p) G = eval D p G := by simp only [eval]
end unfold2

/-- outcome of a pattern under the modifiers: related rows over the projected variables, or the
same refusal on both sides -/
def TopOutcome (D : List Quad) (p : GP) (g : Option Term) : Prop :=
  (∃ r Ω, select D p [g] none = .ok r ∧ eval D p (activeGraph D [g]) = .ok Ω ∧
      r.vars = inScope p ∧ List.Forall₂ (RelX (inScope p)) r.rows Ω) ∨
  (∃ x, select D p [g] none = .error (.override x) ∧ eval D p (activeGraph D [g]) = .error (.rebind x))

theorem proj_correct (D : List Quad) (hD : DataNodup D) {N : Prop} (hN : N → (graphNameSet D).isEmpty = false)
    {p : GP} (hp : Proj N p) (g : Option Term) :
    TopOutcome D p g := by
  cases hp with
  | @mk p xs hb =>
    rcases body_correct D hD hN hb g with ⟨r, Ω, a1, a2, a3, _⟩ | ⟨x, a1, a2⟩
    · left
      refine ⟨_, _, select_project_ok xs a1, eval_project_ok xs a2, rfl, ?_⟩
      exact List.forall₂_map_right_iff.2 (List.Forall₂.imp (fun b μ h => relX_project xs h) a3)
    · right; exact ⟨x, select_project_err xs a1, eval_project_err xs a2⟩
  | @ord p xs hb =>
    rcases body_correct D hD hN hb g with ⟨r, Ω, a1, a2, a3, _⟩ | ⟨x, a1, a2⟩
    · left
      refine ⟨_, _, select_project_ok xs (select_orderBy.trans a1), eval_project_ok xs (eval_orderBy.trans a2), rfl, ?_⟩
      exact List.forall₂_map_right_iff.2 (List.Forall₂.imp (fun b μ h => relX_project xs h) a3)
    · right; exact ⟨x, select_project_err xs (select_orderBy.trans a1), eval_project_err xs (eval_orderBy.trans a2)⟩
  | @graph p x xs hi =>
    obtain ⟨r, Ω, a1, a2, a3, _⟩ := graph_var_correct D hD hi g
    left
    refine ⟨_, _, select_project_ok xs a1, eval_project_ok xs a2, rfl, ?_⟩
    exact List.forall₂_map_right_iff.2 (List.Forall₂.imp (fun b μ h => relX_project xs h) a3)
  | @graphOrd p x xs hi =>
    obtain ⟨r, Ω, a1, a2, a3, _⟩ := graph_var_correct D hD hi g
    left
    refine ⟨_, _, select_project_ok xs (select_orderBy.trans a1), eval_project_ok xs (eval_orderBy.trans a2), rfl, ?_⟩
    exact List.forall₂_map_right_iff.2 (List.Forall₂.imp (fun b μ h => relX_project xs h) a3)

theorem top_correct (D : List Quad) (hD : DataNodup D) {N : Prop} (hN : N → (graphNameSet D).isEmpty = false)
    {p : GP} (hp : Top N p) : ∀ g, TopOutcome D p g := by
  induction hp with
  | proj h => intro g; exact proj_correct D hD hN h g
  | @distinct p h =>
    intro g
    rcases proj_correct D hD hN h g with ⟨r, Ω, a1, a2, a3, a4⟩ | ⟨x, a1, a2⟩
    · left
      refine ⟨_, _, select_distinct_ok a1, eval_distinct_ok a2, a3, ?_⟩
      simp only [distinctRows, a3, inScope]
      exact forall2_dedupBy (RelX (inScope p)) _ muEq (fun a b a' b' h h' => distinct_key_agree h h') a4
    · right; exact ⟨x, select_distinct_err a1, eval_distinct_err a2⟩
  | @slice p s n _ ih =>
    intro g
    rcases ih g with ⟨r, Ω, a1, a2, a3, a4⟩ | ⟨x, a1, a2⟩
    · left
      refine ⟨_, _, select_slice_ok s n a1, eval_slice_ok s n a2, a3, ?_⟩
      simp only [inScope]
      cases n with
      | none => exact List.forall₂_drop s a4
      | some n => exact List.forall₂_take n (List.forall₂_drop s a4)
    · right; exact ⟨x, select_slice_err s n a1, eval_slice_err s n a2⟩

/-! ### totality -/

theorem graphRec_no_panic (sel : List (Option Term) → Option Binding → Except Sparql.Err Res)
    (hsel : ∀ gm b, sel gm b ≠ .error .panic) (x : Str) (binding : Option Binding) :
    ∀ names, graphRec sel x binding names ≠ .error .panic := by
  intro names
  induction names with
  | nil => simp [graphRec]
  | cons n rest ih =>
    simp only [graphRec]
    cases h1 : sel [some n] (some { v := BMap.insert (binding.getD {}).v x n, b := (binding.getD {}).b }) with
    | error e =>
      intro hc
      have := hsel [some n] (some { v := BMap.insert (binding.getD {}).v x n, b := (binding.getD {}).b })
      rw [h1] at this
      simp only [bind, Except.bind] at hc
      cases hc; exact this rfl
    | ok r =>
      cases h2 : graphRec sel x binding rest with
      | error e =>
        intro hc
        simp only [bind, Except.bind, h2] at hc
        cases hc; exact ih h2
      | ok r' => simp [bind, Except.bind, h2, pure, Except.pure]

/-- **no_panic**: no pattern, dataset, graph matcher or initial binding makes the evaluator panic -/
theorem select_no_panic (D : List Quad) : ∀ (p : GP) (gm : List (Option Term)) (binding : Option Binding),
    select D p gm binding ≠ .error .panic := by
  intro p
  induction p with
  | bgp ps => intro gm b; simpa [select] using bgp_no_panic D ps gm b
  | path => intro gm b; simp [select]
  | values => intro gm b; simp [select]
  | join l r _ _ => intro gm b; simp [select]
  | leftJoin l r _ _ => intro gm b; simp [select]
  | minus l r _ _ => intro gm b; simp [select]
  | reduced p _ => intro gm b; simp [select]
  | group p _ => intro gm b; simp [select]
  | service p _ => intro gm b; simp [select]
  | filter e p ih =>
    intro gm b
    cases h : select D p gm b with
    | error er => rw [select_filter_err e h]; intro hc; cases hc; exact ih gm b h
    | ok r => rw [select_filter_ok e h]; simp
  | filterExists neg pat p ihpat ih =>
    intro gm b
    simp only [select]
    cases h : select D p gm b with
    | error er =>
      simp only [bind, Except.bind, pure, Except.pure]
      split
      · split
        · rename_i err hp; intro hc; cases hc; exact ihpat [] none hp
        · intro hc; cases hc; exact ih gm b h
      · intro hc; cases hc; exact ih gm b h
    | ok r =>
      simp only [bind, Except.bind, pure, Except.pure]
      split
      · split
        · rename_i err hp; intro hc; cases hc; exact ihpat [] none hp
        · simp
      · simp
  | union l r ihl ihr =>
    intro gm b
    cases h1 : select D l gm b with
    | error er => rw [select_union_err1 h1]; intro hc; cases hc; exact ihl gm b h1
    | ok a =>
      cases h2 : select D r gm b with
      | error er => rw [select_union_err2 h1 h2]; intro hc; cases hc; exact ihr gm b h2
      | ok c => rw [select_union_ok h1 h2]; simp
  | extend p x e ih =>
    intro gm b
    cases h : select D p gm b with
    | error er => rw [select_extend_err x e h]; intro hc; cases hc; exact ih gm b h
    | ok r => rw [select_extend_ok x e h]; split <;> simp
  | orderBy p ih => intro gm b; rw [select_orderBy]; exact ih gm b
  | project p xs ih =>
    intro gm b
    cases h : select D p gm b with
    | error er => rw [select_project_err xs h]; intro hc; cases hc; exact ih gm b h
    | ok r => rw [select_project_ok xs h]; simp
  | distinct p ih =>
    intro gm b
    cases h : select D p gm b with
    | error er => rw [select_distinct_err h]; intro hc; cases hc; exact ih gm b h
    | ok r => rw [select_distinct_ok h]; simp
  | slice p s n ih =>
    intro gm b
    cases h : select D p gm b with
    | error er => rw [select_slice_err s n h]; intro hc; cases hc; exact ih gm b h
    | ok r => rw [select_slice_ok s n h]; simp
  | graph name p ih =>
    intro gm b
    cases name with
    | iri n => simp only [select]; exact ih _ _
    | var x =>
      simp only [select]
      split
      · exact ih _ _
      · cases h : select D p [] b with
        | error er =>
          intro hc
          simp only [bind, Except.bind] at hc
          cases hc; exact ih [] b h
        | ok r =>
          simp only [bind, Except.bind]
          split
          · split
            · simp [pure, Except.pure]
            · simp
          · exact graphRec_no_panic (select D p) ih x b _

/-! ### expressions on which the two evaluators agree -/

theorem ebv_boolTerm (v : Bool) : ebv (boolTerm v) = some v := by cases v <;> decide
theorem isTruthy_erBool (v : Bool) : (erBool v).isTruthy = some v := by cases v <;> rfl
theorem intoTerm_erBool (v : Bool) : (erBool v).intoTerm = boolTerm v := by cases v <;> rfl

/-- variables and constants -/
inductive Atom : Expr → Prop
  | const (t : Term) : Atom (.const t)
  | var (x : Str) : Atom (.var x)

/-- expressions that only look at *which term* a variable is bound to: BOUND, sameTerm, isIRI,
isBlank, isLiteral over variables and constants, and negations of these -/
inductive TermLevel : Expr → Prop
  | bound (x : Str) : TermLevel (.bound x)
  | sameTerm {a b : Expr} : Atom a → Atom b → TermLevel (.sameTerm a b)
  | isIri {a : Expr} : Atom a → TermLevel (.call .isIri a)
  | isBlank {a : Expr} : Atom a → TermLevel (.call .isBlank a)
  | isLiteral {a : Expr} : Atom a → TermLevel (.call .isLiteral a)
  | not {e : Expr} : TermLevel e → TermLevel (.not e)
  | or {a b : Expr} : TermLevel a → TermLevel b → TermLevel (.or a b)
  | and {a b : Expr} : TermLevel a → TermLevel b → TermLevel (.and a b)

/-- the engine folds an operand's evaluation error into the truth table of `||` / `&&`
(regenerated from expression.rs: commit e4da433 and later) -/
theorem orAndLenient_true : Gen.SparqlDispatch.orAndLenient = true := rfl

/-- the `match (lhs, rhs)` of the `Or` / `And` arms are the truth tables of §17.2 -/
theorem orTable_eq_or3 (a b : Option Bool) : orTable a b = or3 a b := by
  cases a with
  | none => cases b with
    | none => rfl
    | some y => cases y <;> rfl
  | some x => cases x <;> cases b with
    | none => rfl
    | some y => cases y <;> rfl

theorem andTable_eq_and3 (a b : Option Bool) : andTable a b = and3 a b := by
  cases a with
  | none => cases b with
    | none => rfl
    | some y => cases y <;> rfl
  | some x => cases x <;> cases b with
    | none => rfl
    | some y => cases y <;> rfl

theorem atom_eval {a : Expr} (ha : Atom a) {b : Binding} {μ : Mu} (h : RelRow b μ) :
    ∃ ot : Option Term, Sparql.evalExpr b a = ot.map ER.term ∧ SparqlSpec.evalExpr μ a = ot := by
  cases ha with
  | const t => exact ⟨some t, rfl, rfl⟩
  | var x => exact ⟨μ.get (.var x), by simp [Sparql.evalExpr, h x], rfl⟩

theorem termLevel_eval {e : Expr} (he : TermLevel e) {b : Binding} {μ : Mu} (h : RelRow b μ) :
    ∃ o : Option Bool, Sparql.evalExpr b e = o.map erBool ∧ SparqlSpec.evalExpr μ e = o.map boolTerm := by
  induction he with
  | bound x => exact ⟨some (μ.get (.var x)).isSome, by simp [Sparql.evalExpr, h x], rfl⟩
  | sameTerm ha hb =>
    obtain ⟨oa, a1, a2⟩ := atom_eval ha h
    obtain ⟨ob, b1, b2⟩ := atom_eval hb h
    refine ⟨oa.bind (fun x => ob.map (fun y => termEq x y)), ?_, ?_⟩
    · simp only [Sparql.evalExpr, a1, b1]
      cases oa <;> cases ob <;> simp [ER.intoTerm, ER.asTerm]
    · simp only [SparqlSpec.evalExpr, a2, b2]
      cases oa <;> cases ob <;> simp
  | isIri ha =>
    obtain ⟨oa, a1, a2⟩ := atom_eval ha h
    refine ⟨oa.map (fun t => match t with | .iri _ => true | _ => false), ?_, ?_⟩
    · simp only [Sparql.evalExpr, a1]
      cases oa with
      | none => simp
      | some t => cases t <;> simp [callFunction]
    · simp only [SparqlSpec.evalExpr, a2]
      cases oa with
      | none => simp
      | some t => cases t <;> simp [callFunc]
  | isBlank ha =>
    obtain ⟨oa, a1, a2⟩ := atom_eval ha h
    refine ⟨oa.map (fun t => match t with | .bnode _ => true | _ => false), ?_, ?_⟩
    · simp only [Sparql.evalExpr, a1]
      cases oa with
      | none => simp
      | some t => cases t <;> simp [callFunction]
    · simp only [SparqlSpec.evalExpr, a2]
      cases oa with
      | none => simp
      | some t => cases t <;> simp [callFunc]
  | isLiteral ha =>
    obtain ⟨oa, a1, a2⟩ := atom_eval ha h
    refine ⟨oa.map isLiteral, ?_, ?_⟩
    · simp only [Sparql.evalExpr, a1]
      cases oa with
      | none => simp
      | some t => cases t <;> simp [callFunction, termIsLiteral, isLiteral]
    · simp only [SparqlSpec.evalExpr, a2]; cases oa <;> simp [callFunc]
  | not _ ih =>
    obtain ⟨o, i1, i2⟩ := ih
    refine ⟨o.map (!·), ?_, ?_⟩
    · simp only [Sparql.evalExpr, i1]; cases o <;> simp [isTruthy_erBool]
    · simp only [SparqlSpec.evalExpr, i2]; cases o <;> simp [ebv_boolTerm]
  | or _ _ iha ihb =>
    obtain ⟨oa, a1, a2⟩ := iha
    obtain ⟨ob, b1, b2⟩ := ihb
    refine ⟨or3 oa ob, ?_, ?_⟩
    · simp only [Sparql.evalExpr, orAndLenient_true, if_true, a1, b1, orTable_eq_or3]
      cases oa <;> cases ob <;> simp [isTruthy_erBool]
    · simp only [SparqlSpec.evalExpr, a2, b2]
      cases oa <;> cases ob <;> simp [ebv_boolTerm]
  | and _ _ iha ihb =>
    obtain ⟨oa, a1, a2⟩ := iha
    obtain ⟨ob, b1, b2⟩ := ihb
    refine ⟨and3 oa ob, ?_, ?_⟩
    · simp only [Sparql.evalExpr, orAndLenient_true, if_true, a1, b1, andTable_eq_and3]
      cases oa <;> cases ob <;> simp [isTruthy_erBool]
    · simp only [SparqlSpec.evalExpr, a2, b2]
      cases oa <;> cases ob <;> simp [ebv_boolTerm]

/-- on term-level expressions the two expression evaluators agree -/
theorem exprOK_termLevel {e : Expr} (he : TermLevel e) : ExprOK e := by
  intro b μ h
  obtain ⟨o, i1, i2⟩ := termLevel_eval he h
  constructor
  · simp only [filterKeeps, holds, i1, i2]
    cases o with
    | none => rfl
    | some v => simp [isTruthy_erBool, ebv_boolTerm]
  · rw [i1, i2]
    cases o with
    | none => rfl
    | some v => simp [intoTerm_erBool]

/-! ### the attribution evaluator without deviations is the specification -/

section dev
open SophiaModel.SparqlDev

theorem ebvD_none (t : Term) : ebvD {} t = ebv t := by
  cases t <;> simp [ebvD]

theorem ebvD_none' : ebvD {} = ebv := funext ebvD_none

theorem evalExprD_none (μ : Mu) (e : Expr) : evalExprD {} μ e = SparqlSpec.evalExpr μ e := by
  induction e with
  | const t => rfl
  | var x => rfl
  | bound x => rfl
  | err => rfl
  | or a b iha ihb => simp [evalExprD, SparqlSpec.evalExpr, iha, ihb, ebvD_none']
  | and a b iha ihb => simp [evalExprD, SparqlSpec.evalExpr, iha, ihb, ebvD_none']
  | eq a b iha ihb => simp [evalExprD, SparqlSpec.evalExpr, iha, ihb]
  | sameTerm a b iha ihb => simp [evalExprD, SparqlSpec.evalExpr, iha, ihb]
  | lt a b iha ihb => simp [evalExprD, SparqlSpec.evalExpr, iha, ihb]
  | not a iha => simp [evalExprD, SparqlSpec.evalExpr, iha, ebvD_none]
  | call f a iha => simp [evalExprD, SparqlSpec.evalExpr, iha]
  | cmp op a b iha ihb => simp [evalExprD, SparqlSpec.evalExpr, iha, ihb]
  | arith op a b iha ihb => simp [evalExprD, SparqlSpec.evalExpr, iha, ihb]
  | neg a iha => simp [evalExprD, SparqlSpec.evalExpr, iha]
  | pos a iha => simp [evalExprD, SparqlSpec.evalExpr, iha]
  | coalesce a b iha ihb => simp [evalExprD, SparqlSpec.evalExpr, iha, ihb]
  | ite a b c iha ihb ihc => simp [evalExprD, SparqlSpec.evalExpr, iha, ihb, ihc, ebvD_none]
  | inl a b c iha ihb ihc => simp [evalExprD, SparqlSpec.evalExpr, iha, ihb, ihc, ebvD_none']

theorem holdsD_none (e : Expr) : holdsD {} e = holds e := by
  funext μ
  simp [holdsD, holds, evalExprD_none, ebvD_none']

theorem varsD_none (p : GP) : varsD {} p [] = inScope p := by
  induction p with
  | bgp ps => simp [varsD, inScope]
  | graph name p ih => cases name <;> simp [varsD, inScope, ih]
  | filter e p ih => simp [varsD, inScope, ih]
  | filterExists neg pat p _ ih => simp [varsD, inScope, ih]
  | union l r ihl ihr => simp [varsD, inScope, ihl, ihr]
  | extend p x e ih => simp [varsD, inScope, ih]
  | orderBy p ih => simp [varsD, inScope, ih]
  | project p xs ih => simp [varsD, inScope]
  | distinct p ih => simp [varsD, inScope, ih]
  | slice p s n ih => simp [varsD, inScope, ih]
  | _ => simp [varsD, inScope]

theorem existsKeepD_none (neg : Bool) (r : Except SparqlSpec.Err (List Mu)) :
    existsKeepD {} neg r = r.map (fun r => (!r.isEmpty) != neg) := by
  cases r <;> rfl

/-- inside EXISTS: the attribution evaluator under a seed is the substitution semantics -/
theorem evalD_under_none (D : List Quad) (p : GP) : existsFragment p = true →
    ∀ G μ, evalD {} D p G μ = evalUnder D p G μ := by
  induction p with
  | bgp ps => intro _ G μ; simp [evalD, evalUnder]
  | filter e p ih =>
    intro h G μ
    simp only [existsFragment] at h
    simp [evalD, evalUnder, ih h, holdsD_none]
  | union l r ihl ihr =>
    intro h G μ
    simp only [existsFragment, Bool.and_eq_true] at h
    simp [evalD, evalUnder, ihl h.1, ihr h.2]
  | filterExists neg pat p ihpat ih =>
    intro h G μ
    simp only [existsFragment, Bool.and_eq_true] at h
    simp only [evalD, evalUnder, ih h.2, ihpat h.1 G, existsKeepD_none]
  | graph name p ih =>
    intro h G μ
    simp only [existsFragment] at h
    cases name with
    | iri n => simp [evalD, evalUnder, ih h]
    | var x =>
      simp only [evalD, evalUnder, Bool.false_eq_true, if_false, Bool.false_and, ih h]
      cases Mu.get μ (Key.var x) with
      | some n => rfl
      | none =>
        simp only []
        congr 1
        funext n acc
        cases evalUnder D p (namedGraph D n) μ <;> rfl
  | _ => intro h; simp [existsFragment] at h

theorem evalD_none (D : List Quad) (p : GP) : inFragment p = true → ∀ G, evalD {} D p G [] = eval D p G := by
  induction p with
  | bgp ps => intro _ G; simp [evalD, eval, specBgp]
  | filter e p ih => intro h G; simp only [inFragment] at h; simp [evalD, eval, ih h, holdsD_none]
  | filterExists neg pat p _ ih =>
    intro h G
    simp only [inFragment, Bool.and_eq_true] at h
    simp only [evalD, eval, ih h.2, evalD_under_none D pat h.1 G, existsKeepD_none]
  | union l r ihl ihr =>
    intro h G
    simp only [inFragment, Bool.and_eq_true] at h
    simp [evalD, eval, ihl h.1, ihr h.2]
  | extend p x e ih =>
    intro h G
    simp only [inFragment] at h
    simp only [evalD, eval, ih h, seedVars, List.filterMap_nil, varsD_none, evalExprD_none]
    rfl
  | orderBy p ih => intro h G; simp only [inFragment] at h; simp [evalD, eval, ih h]
  | project p xs ih => intro h G; simp only [inFragment] at h; simp [evalD, eval, ih h]
  | distinct p ih => intro h G; simp only [inFragment] at h; simp [evalD, eval, ih h]
  | slice p s n ih => intro h G; simp only [inFragment] at h; simp [evalD, eval, ih h]
  | graph name p ih =>
    intro h G
    simp only [inFragment] at h
    cases name with
    | iri n => simp [evalD, eval, ih h]
    | var x =>
      simp only [evalD, eval, Bool.false_eq_true, if_false, Bool.false_and, ih h, Mu.get, List.lookup_nil]
      congr 1
      funext n acc
      cases eval D p (namedGraph D n) <;> rfl
  | _ => intro h; simp [inFragment] at h

/-- with no deviation switched on, the attribution evaluator *is* the specification -/
theorem evalQueryD_none (D : List Quad) (q : Query) : evalQueryD {} D q = evalQuery D q := by
  have key : ∀ (p : GP), fragD {} p = inFragment p := fun _ => rfl
  cases q with
  | select ds p =>
    cases ds with
    | none =>
      simp only [evalQueryD, evalQuery, key]
      cases hf : inFragment p with
      | false => rfl
      | true => simp only [if_true, evalD_none D p hf, varsD_none]; rfl
    | some qd =>
      obtain ⟨froms, named⟩ := qd
      cases named with
      | some _ => rfl
      | none =>
        simp only [evalQueryD, evalQuery, key]
        cases hf : inFragment p with
        | false => rfl
        | true => simp only [if_true, evalD_none _ p hf, varsD_none]; rfl
  | ask ds p =>
    cases ds with
    | none =>
      simp only [evalQueryD, evalQuery, key]
      cases hf : inFragment p with
      | false => rfl
      | true => simp only [if_true, evalD_none D p hf]; rfl
    | some qd =>
      obtain ⟨froms, named⟩ := qd
      cases named with
      | some _ => rfl
      | none =>
        simp only [evalQueryD, evalQuery, key]
        cases hf : inFragment p with
        | false => rfl
        | true => simp only [if_true, evalD_none _ p hf]; rfl
  | construct => rfl
  | describe => rfl

/-- **a refused operator anywhere outside an EXISTS pattern makes the whole pattern fail**: the
evaluator returns an error, never rows — whatever the dataset, graph matcher and binding -/
theorem refused_never_answers (D : List Quad) : ∀ (p : GP), inFragmentSw p = false →
    ∀ gm b, ∃ e, select D p gm b = .error e := by
  intro p
  induction p with
  | bgp ps => intro h; simp [inFragmentSw] at h
  | path => intro _ gm b; exact ⟨_, by simp only [select]; rfl⟩
  | values => intro _ gm b; exact ⟨_, by simp only [select]; rfl⟩
  | join l r _ _ => intro _ gm b; exact ⟨_, by simp only [select]; rfl⟩
  | leftJoin l r _ _ => intro _ gm b; exact ⟨_, by simp only [select]; rfl⟩
  | minus l r _ _ => intro _ gm b; exact ⟨_, by simp only [select]; rfl⟩
  | reduced p _ => intro _ gm b; exact ⟨_, by simp only [select]; rfl⟩
  | group p _ => intro _ gm b; exact ⟨_, by simp only [select]; rfl⟩
  | service p _ => intro _ gm b; exact ⟨_, by simp only [select]; rfl⟩
  | filter e p ih =>
    intro h gm b
    obtain ⟨er, he⟩ := ih (by simpa [inFragmentSw] using h) gm b
    exact ⟨er, select_filter_err e he⟩
  | filterExists neg pat p _ ih =>
    intro h gm b
    obtain ⟨er, he⟩ := ih (by simpa [inFragmentSw] using h) gm b
    simp only [select, he, bind, Except.bind, pure, Except.pure]
    split
    · split
      · exact ⟨_, rfl⟩
      · exact ⟨_, rfl⟩
    · exact ⟨_, rfl⟩
  | union l r ihl ihr =>
    intro h gm b
    simp only [inFragmentSw, Bool.and_eq_false_iff] at h
    cases hl : select D l gm b with
    | error er => exact ⟨er, select_union_err1 hl⟩
    | ok a =>
      rcases h with h | h
      · obtain ⟨er, he⟩ := ihl h gm b; rw [hl] at he; cases he
      · obtain ⟨er, he⟩ := ihr h gm b; exact ⟨er, select_union_err2 hl he⟩
  | extend p x e ih =>
    intro h gm b
    obtain ⟨er, he⟩ := ih (by simpa [inFragmentSw] using h) gm b
    exact ⟨er, select_extend_err x e he⟩
  | orderBy p ih =>
    intro h gm b
    obtain ⟨er, he⟩ := ih (by simpa [inFragmentSw] using h) gm b
    exact ⟨er, select_orderBy.trans he⟩
  | project p xs ih =>
    intro h gm b
    obtain ⟨er, he⟩ := ih (by simpa [inFragmentSw] using h) gm b
    exact ⟨er, select_project_err xs he⟩
  | distinct p ih =>
    intro h gm b
    obtain ⟨er, he⟩ := ih (by simpa [inFragmentSw] using h) gm b
    exact ⟨er, select_distinct_err he⟩
  | slice p s n ih =>
    intro h gm b
    obtain ⟨er, he⟩ := ih (by simpa [inFragmentSw] using h) gm b
    exact ⟨er, select_slice_err s n he⟩
  | graph name p ih =>
    intro h gm b
    have h' : inFragmentSw p = false := by simpa [inFragmentSw] using h
    cases name with
    | iri n => simp only [select]; exact ih h' _ _
    | var x =>
      simp only [select]
      split
      · exact ih h' _ _
      · obtain ⟨er, he⟩ := ih h' [] b
        exact ⟨er, by simp [he, bind, Except.bind]⟩

theorem inFragment_sw (p : GP) : inFragment p = true → inFragmentSw p = true := by
  induction p with
  | bgp ps => intro _; rfl
  | filter e p ih => intro h; simp only [inFragment] at h; simpa [inFragmentSw] using ih h
  | filterExists neg pat p _ ih =>
    intro h; simp only [inFragment, Bool.and_eq_true] at h; simpa [inFragmentSw] using ih h.2
  | union l r ihl ihr =>
    intro h; simp only [inFragment, Bool.and_eq_true] at h; simp [inFragmentSw, ihl h.1, ihr h.2]
  | graph n p ih => intro h; simp only [inFragment] at h; simpa [inFragmentSw] using ih h
  | extend p x e ih => intro h; simp only [inFragment] at h; simpa [inFragmentSw] using ih h
  | orderBy p ih => intro h; simp only [inFragment] at h; simpa [inFragmentSw] using ih h
  | project p xs ih => intro h; simp only [inFragment] at h; simpa [inFragmentSw] using ih h
  | distinct p ih => intro h; simp only [inFragment] at h; simpa [inFragmentSw] using ih h
  | slice p s n ih => intro h; simp only [inFragment] at h; simpa [inFragmentSw] using ih h
  | _ => intro h; simp [inFragment] at h

end dev

end SophiaProofs.SparqlL
