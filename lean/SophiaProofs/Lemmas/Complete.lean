/-
Injectivity of the canonical N-Quads serialisation on well-formed datasets, renaming lemmas and
the inverse of an identifier map: the ingredients of `SophiaProofs.C05.complete`.
-/
import SophiaProofs.Lemmas.QuadOrder
import SophiaProofs.Lemmas.Rdfc10B2q

namespace SophiaProofs.CnqL
open SophiaModel SophiaModel.Rdfc10 SophiaProofs.Rdfc10L

/-! ### lines and documents are prefix codes -/

theorem graphPart_prefix_free {g₁ g₂ : Option Term} (h₁ : GraphOK g₁) (h₂ : GraphOK g₂) {x y : Str}
    (h : graphPart g₁ ++ (".\n".toList ++ x) = graphPart g₂ ++ (".\n".toList ++ y)) : g₁ = g₂ ∧ x = y := by
  cases g₁ with
  | none =>
    cases g₂ with
    | none =>
      simp only [graphPart, List.nil_append] at h
      exact ⟨rfl, List.append_cancel_left h⟩
    | some b =>
      simp only [graphPart, List.nil_append] at h
      rcases h₂.2 with hb | ⟨s, rfl⟩
      · cases b with
        | bnode l => rw [nq_bnode] at h; injection h with h _; exact absurd h (by decide)
        | iri _ => cases hb
        | lit _ _ => cases hb
        | lang _ _ => cases hb
        | triple _ _ _ => cases hb
        | var _ => cases hb
      · rw [nq_iri] at h; injection h with h _; exact absurd h (by decide)
  | some a =>
    cases g₂ with
    | none =>
      simp only [graphPart, List.nil_append] at h
      rcases h₁.2 with hb | ⟨s, rfl⟩
      · cases a with
        | bnode l => rw [nq_bnode] at h; injection h with h _; exact absurd h (by decide)
        | iri _ => cases hb
        | lit _ _ => cases hb
        | lang _ _ => cases hb
        | triple _ _ _ => cases hb
        | var _ => cases hb
      · rw [nq_iri] at h; injection h with h _; exact absurd h (by decide)
    | some b =>
      simp only [graphPart] at h
      obtain ⟨e, hx⟩ := nq_prefix_free h₁.1 h₂.1 h
      exact ⟨by rw [e], List.append_cancel_left hx⟩

theorem line_prefix_free {q₁ q₂ : Quad} (h₁ : QuadOK q₁) (h₂ : QuadOK q₂) {x y : Str}
    (h : line q₁ ++ x = line q₂ ++ y) : q₁ = q₂ ∧ x = y := by
  rw [line_eq, line_eq] at h
  simp only [List.append_assoc] at h
  obtain ⟨es, h⟩ := nq_prefix_free h₁.s h₂.s h
  obtain ⟨ep, h⟩ := nq_prefix_free h₁.p h₂.p h
  obtain ⟨eo, h⟩ := nq_prefix_free h₁.o h₂.o h
  obtain ⟨eg, hx⟩ := graphPart_prefix_free h₁.g h₂.g h
  refine ⟨?_, hx⟩
  cases q₁; cases q₂
  simp only [] at es ep eo eg
  rw [es, ep, eo, eg]

theorem line_ne_nil (q : Quad) : line q ≠ [] := by
  unfold line
  intro h
  have := congrArg List.length h
  simp at this

theorem serialize_cons (q : Quad) (l : List Quad) : serialize (q :: l) = line q ++ serialize l := by
  simp [serialize]

/-- the canonical N-Quads document determines the list of quads -/
theorem serialize_inj : ∀ (l₁ l₂ : List Quad), (∀ q ∈ l₁, QuadOK q) → (∀ q ∈ l₂, QuadOK q) →
    serialize l₁ = serialize l₂ → l₁ = l₂
  | [], [], _, _, _ => rfl
  | [], q :: l, _, _, h => by
    rw [serialize_cons] at h
    have h' : line q ++ serialize l = [] := h.symm
    exact absurd (List.append_eq_nil_iff.mp h').1 (line_ne_nil q)
  | q :: l, [], _, _, h => by
    rw [serialize_cons] at h
    have h' : line q ++ serialize l = [] := h
    exact absurd (List.append_eq_nil_iff.mp h').1 (line_ne_nil q)
  | q₁ :: l₁, q₂ :: l₂, h₁, h₂, h => by
    rw [serialize_cons, serialize_cons] at h
    obtain ⟨eq, hr⟩ := line_prefix_free (h₁ q₁ List.mem_cons_self) (h₂ q₂ List.mem_cons_self) h
    rw [eq, serialize_inj l₁ l₂ (fun q hq => h₁ q (List.mem_cons_of_mem _ hq))
      (fun q hq => h₂ q (List.mem_cons_of_mem _ hq)) hr]

/-! ### renaming -/

/-- the top-level terms of a quad -/
def quadTerms (q : Quad) : List Term := [q.s, q.p, q.o] ++ q.g.toList

theorem renameTerm_comp (f g : Str → Str) (t : Term) : renameTerm f (renameTerm g t) = renameTerm (f ∘ g) t := by
  cases t <;> rfl

theorem renameQuad_comp (f g : Str → Str) (q : Quad) : renameQuad f (renameQuad g q) = renameQuad (f ∘ g) q := by
  unfold renameQuad
  simp only [renameTerm_comp]
  cases q.g <;> simp [renameTerm_comp]

theorem renameTerm_congr {f g : Str → Str} {t : Term} (h : ∀ b, t = .bnode b → f b = g b) :
    renameTerm f t = renameTerm g t := by
  cases t with
  | bnode b => simp [renameTerm, h b rfl]
  | iri _ => rfl
  | lit _ _ => rfl
  | lang _ _ => rfl
  | triple _ _ _ => rfl
  | var _ => rfl

theorem renameQuad_congr {f g : Str → Str} {q : Quad}
    (h : ∀ t ∈ quadTerms q, ∀ b, t = .bnode b → f b = g b) : renameQuad f q = renameQuad g q := by
  unfold renameQuad
  have hs := renameTerm_congr (t := q.s) (h q.s (by simp [quadTerms]))
  have hp := renameTerm_congr (t := q.p) (h q.p (by simp [quadTerms]))
  have ho := renameTerm_congr (t := q.o) (h q.o (by simp [quadTerms]))
  rw [hs, hp, ho]
  cases hg : q.g with
  | none => rfl
  | some g0 =>
    have := renameTerm_congr (t := g0) (h g0 (by simp [quadTerms, hg]))
    simp [this]

theorem renameTerm_id (t : Term) : renameTerm id t = t := by cases t <;> rfl

theorem renameQuad_id (q : Quad) : renameQuad id q = q := by
  unfold renameQuad
  simp only [renameTerm_id]
  cases q with
  | mk s p o g => cases g <;> simp [renameTerm_id]

theorem quadTerms_rename (f : Str → Str) (q : Quad) :
    quadTerms (renameQuad f q) = (quadTerms q).map (renameTerm f) := by
  unfold quadTerms renameQuad
  cases q.g <;> simp

theorem termOK_rename {f : Str → Str} {t : Term} (h : TermOK t) (hf : ∀ b, t = .bnode b → ' ' ∉ f b) :
    TermOK (renameTerm f t) := by
  cases t with
  | bnode b => exact hf b rfl
  | iri _ => exact h
  | lit _ _ => exact h
  | lang _ _ => exact h
  | triple _ _ _ => exact h
  | var _ => exact h

theorem quadOK_rename {f : Str → Str} {q : Quad} (h : QuadOK q)
    (hf : ∀ t ∈ quadTerms q, ∀ b, t = .bnode b → ' ' ∉ f b) : QuadOK (renameQuad f q) where
  s := termOK_rename h.s (hf q.s (by simp [quadTerms]))
  p := termOK_rename h.p (hf q.p (by simp [quadTerms]))
  o := termOK_rename h.o (hf q.o (by simp [quadTerms]))
  g := by
    have hg := h.g
    unfold renameQuad
    cases hq : q.g with
    | none => trivial
    | some g0 =>
      rw [hq] at hg
      refine ⟨termOK_rename hg.1 (hf g0 (by simp [quadTerms, hq])), ?_⟩
      rcases hg.2 with hb | ⟨s, rfl⟩
      · cases g0 with
        | bnode b => exact Or.inl rfl
        | iri _ => cases hb
        | lit _ _ => cases hb
        | lang _ _ => cases hb
        | triple _ _ _ => cases hb
        | var _ => cases hb
      · exact Or.inr ⟨s, rfl⟩

theorem decimal_no_space (k : Nat) : ' ' ∉ decimal k := by
  unfold decimal
  rw [Nat.toList_repr]
  intro h
  have := Nat.isDigit_of_mem_toDigits (by decide) (by decide) h
  exact absurd this (by decide)

/-! ### the inverse of an identifier map -/

/-- some label mapped to `c` (the label, when the map is injective); `c` itself when there is none -/
def invFun (m : SMap Str) (c : Str) : Str :=
  ((SMap.keys m).find? (fun b => SMap.get m b == some c)).getD c

theorem mem_keys_of_get {α : Type} : ∀ (m : SMap α) (b : Str) (v : α), SMap.get m b = some v → b ∈ SMap.keys m
  | [], b, v, h => by rw [get_nil] at h; cases h
  | (k, v0) :: rest, b, v, h => by
    rw [get_cons] at h
    by_cases hb : b = k
    · subst hb; simp [SMap.keys]
    · simp only [hb, if_false] at h
      have := mem_keys_of_get rest b v h
      simp only [SMap.keys, List.map_cons, List.mem_cons]
      exact Or.inr this

theorem get_invFun {m : SMap Str} {b c : Str} (h : SMap.get m b = some c) :
    SMap.get m (invFun m c) = some c := by
  unfold invFun
  cases hf : (SMap.keys m).find? (fun b => SMap.get m b == some c) with
  | none =>
    have := List.find?_eq_none.mp hf b (mem_keys_of_get m b c h)
    simp [h] at this
  | some b' =>
    have := List.find?_some hf
    simpa using this

end SophiaProofs.CnqL
